// Package refpvm is a deliberately literal, slow reference implementation of
// the Gray Paper (v0.7.2) Appendix A virtual machine, written from the formulas
// and sharing NO code or tables with /repo/PVM. It is the oracle of C01/C04/C05/
// C33. It is injected as internal/verifref/refpvm by the /verif driver.
package refpvm

import (
	"math/big"
	"math/bits"
)

const (
	PageSize = 4096
	ZA       = 2
	ZZ       = 1 << 16
)

type Access uint8

const (
	AccNone Access = iota
	AccR
	AccW
)

type Page struct {
	Access Access
	Data   []byte // PageSize bytes
}

// Memory maps page number -> page; an absent page is inaccessible.
type Memory map[uint32]*Page

func (m Memory) Clone() Memory {
	o := make(Memory, len(m))
	for k, p := range m {
		o[k] = &Page{Access: p.Access, Data: append([]byte(nil), p.Data...)}
	}
	return o
}

func (m Memory) access(addr uint32) Access {
	p, ok := m[addr/PageSize]
	if !ok {
		return AccNone
	}
	return p.Access
}

// Program is the result of deblob (A.2).
type Program struct {
	Code []byte   // c
	K    []bool   // k, |k| = |c|
	J    []uint64 // jump table entries (z-byte little-endian naturals); empty when Z == 0
	NJ   uint64   // |j|; with Z == 0 the table holds NJ zero-width entries, all equal to 0
	Z    int
}

// jentry returns j_i.
func (p *Program) jentry(i uint64) uint64 {
	if p.Z == 0 {
		return 0
	}
	return p.J[i]
}

// natural decodes a GP general natural (C.6) strictly; ok=false when malformed.
func natural(b []byte) (v uint64, n int, ok bool) {
	if len(b) == 0 {
		return 0, 0, false
	}
	p := b[0]
	l := 0
	for l < 8 && p&(0x80>>uint(l)) != 0 {
		l++
	}
	if len(b) < 1+l {
		return 0, 0, false
	}
	var rem uint64
	for i := 0; i < l; i++ {
		rem |= uint64(b[1+i]) << (8 * uint(i))
	}
	if l == 8 {
		return rem, 9, true
	}
	hi := uint64(p) & (0xFF >> uint(l+1))
	v = hi<<(8*uint(l)) | rem
	return v, 1 + l, true
}

// NaturalIsCanonical reports whether the first n bytes of b are the minimal
// encoding of v (used by harnesses to keep non-canonical length prefixes out of
// the C01 domain; they belong to C12).
func NaturalIsCanonical(v uint64, n int) bool {
	want := 1
	for l := 0; l < 8; l++ {
		if v < uint64(1)<<(7*uint(l+1)) {
			want = l + 1
			return n == want
		}
	}
	return n == 9
}

// Deblob parses p = E(|j|) ‖ E1(z) ‖ E(|c|) ‖ Ez(j) ‖ c ‖ E(k), |k| = |c|.
// Status: 0 ok, 1 malformed (∇), 2 accepted-by-structure but outside the domain
// the harness judges (non-canonical length prefix or non-zero bitmask padding).
func Deblob(p []byte) (*Program, int) {
	status := 0
	nj, n, ok := natural(p)
	if !ok {
		return nil, 1
	}
	if !NaturalIsCanonical(nj, n) {
		status = 2
	}
	p = p[n:]
	if len(p) < 1 {
		return nil, 1
	}
	z := int(p[0])
	p = p[1:]
	nc, n, ok := natural(p)
	if !ok {
		return nil, 1
	}
	if !NaturalIsCanonical(nc, n) {
		status = 2
	}
	p = p[n:]
	// |j|*z bytes of jump table
	hi, lo := bits.Mul64(nj, uint64(z))
	if hi != 0 || lo > uint64(len(p)) {
		return nil, 1
	}
	jt := p[:lo]
	p = p[lo:]
	if nc > uint64(len(p)) {
		return nil, 1
	}
	code := p[:nc]
	p = p[nc:]
	kbytes := (nc + 7) / 8
	if uint64(len(p)) != kbytes {
		return nil, 1
	}
	prog := &Program{Code: append([]byte(nil), code...), Z: z}
	prog.K = make([]bool, nc)
	for i := uint64(0); i < nc; i++ {
		prog.K[i] = p[i/8]&(1<<(i%8)) != 0
	}
	// padding bits of the last octet
	if nc%8 != 0 {
		if p[kbytes-1]>>(nc%8) != 0 {
			status = 2
		}
	}
	prog.NJ = nj
	if z == 0 {
		return prog, status
	}
	prog.J = make([]uint64, nj)
	for i := uint64(0); i < nj; i++ {
		if z > 8 {
			// entry does not fit 64 bits: can only be a valid target if the high bytes are zero
			var v uint64
			big := false
			for b := 0; b < z; b++ {
				x := jt[int(i)*z+b]
				if b < 8 {
					v |= uint64(x) << (8 * uint(b))
				} else if x != 0 {
					big = true
				}
			}
			if big {
				v = ^uint64(0)
			}
			prog.J[i] = v
			continue
		}
		var v uint64
		for b := 0; b < z; b++ {
			v |= uint64(jt[int(i)*z+b]) << (8 * uint(b))
		}
		prog.J[i] = v
	}
	return prog, status
}

// zeta: c zero-extended
func (p *Program) zeta(i uint64) byte {
	if i < uint64(len(p.Code)) {
		return p.Code[i]
	}
	return 0
}

// kext: k ‖ [1,1,...]
func (p *Program) kext(i uint64) bool {
	if i < uint64(len(p.K)) {
		return p.K[i]
	}
	return true
}

// Skip (A.3): min(24, j : (k‖1…)_{i+1+j} = 1)
func (p *Program) Skip(i uint64) int {
	for j := 0; j < 24; j++ {
		if p.kext(i + 1 + uint64(j)) {
			return j
		}
	}
	return 24
}

var validOpcode [256]bool
var terminator [256]bool

func init() {
	rng := func(a, b int) {
		for i := a; i <= b; i++ {
			validOpcode[i] = true
		}
	}
	rng(0, 1)
	rng(10, 10)
	rng(20, 20)
	rng(30, 33)
	rng(40, 40)
	rng(50, 62)
	rng(70, 73)
	rng(80, 90)
	rng(100, 111)
	rng(120, 161)
	rng(170, 175)
	rng(180, 180)
	rng(190, 230)
	// T: trap, fallthrough, jump, jump_ind, load_imm_jump, branch_*_imm, branch_*, load_imm_jump_ind
	for _, t := range []int{0, 1, 40, 50, 80, 81, 82, 83, 84, 85, 86, 87, 88, 89, 90, 170, 171, 172, 173, 174, 175, 180} {
		terminator[t] = true
	}
}

func ValidOpcode(b byte) bool { return validOpcode[b] }
func Terminator(b byte) bool  { return terminator[b] }

// IsBlockStart: membership in ϖ (A.5):
// ({0} ∪ {n+1+skip(n) | n<|c|, k_n=1, c_n ∈ T}) ∩ {n | k_n = 1 ∧ c_n ∈ U}
func (p *Program) IsBlockStart(t uint64) bool {
	if t >= uint64(len(p.Code)) {
		return false
	}
	if !p.K[t] || !validOpcode[p.Code[t]] {
		return false
	}
	if t == 0 {
		return true
	}
	// is there n with k_n=1, c_n ∈ T, n+1+skip(n) = t ?  n ranges over t-1-skip.. so n ∈ [t-25, t-1]
	lo := int64(t) - 25
	if lo < 0 {
		lo = 0
	}
	for n := lo; n < int64(t); n++ {
		if p.K[n] && terminator[p.Code[n]] && uint64(n)+1+uint64(p.Skip(uint64(n))) == t {
			return true
		}
	}
	return false
}

type ExitKind int

const (
	Continue ExitKind = iota
	Halt
	Panic
	OOG
	Fault
	Host
	Unsupported // reference declines to judge (sbrk)
)

func (k ExitKind) String() string {
	return [...]string{"continue", "halt", "panic", "oog", "fault", "host", "unsupported"}[k]
}

type Exit struct {
	Kind ExitKind
	Arg  uint64 // fault: page-aligned address; host: full 64-bit identifier
}

type Machine struct {
	P    *Program
	PC   uint64
	Gas  int64
	Regs [13]uint64
	Mem  Memory

	Steps      int // instructions attempted (gas charged)
	NonTrap    int // executed instructions other than trap
	Flags      map[string]bool
	FaultLo    uint64 // lowest inaccessible address of the faulting access
	FaultStart uint64 // first byte address of the faulting access
	FaultLen   int
}

func (m *Machine) flag(s string) {
	if m.Flags == nil {
		m.Flags = map[string]bool{}
	}
	m.Flags[s] = true
}

func sext(n int, v uint64) uint64 {
	if n == 0 {
		return 0
	}
	if n >= 8 {
		return v
	}
	sh := uint(64 - 8*n)
	return uint64(int64(v<<sh) >> sh)
}

// le reads n bytes of ζ from i.
func (m *Machine) le(i uint64, n int) uint64 {
	var v uint64
	for b := 0; b < n; b++ {
		v |= uint64(m.P.zeta(i+uint64(b))) << (8 * uint(b))
	}
	return v
}

func min(a, b int) int {
	if a < b {
		return a
	}
	return b
}
func max(a, b int) int {
	if a > b {
		return a
	}
	return b
}

// memory access helpers: return ok=false with an Exit when the access is invalid.
func (m *Machine) checkAccess(addr uint64, n int, write bool) (Exit, bool) {
	lowest := uint64(0)
	bad := false
	for i := 0; i < n; i++ {
		a := uint32(addr + uint64(i))
		acc := m.Mem.access(a)
		ok := acc == AccW || (!write && acc == AccR)
		if !ok {
			if !bad || uint64(a) < lowest {
				lowest = uint64(a)
			}
			bad = true
		}
	}
	if !bad {
		return Exit{}, true
	}
	m.FaultLo, m.FaultStart, m.FaultLen = lowest, uint64(uint32(addr)), n
	if lowest < ZZ {
		return Exit{Kind: Panic}, false
	}
	return Exit{Kind: Fault, Arg: lowest / PageSize * PageSize}, false
}

func (m *Machine) load(addr uint64, n int) (uint64, Exit, bool) {
	if e, ok := m.checkAccess(addr, n, false); !ok {
		return 0, e, false
	}
	var v uint64
	for i := 0; i < n; i++ {
		a := uint32(addr + uint64(i))
		v |= uint64(m.Mem[a/PageSize].Data[a%PageSize]) << (8 * uint(i))
	}
	return v, Exit{}, true
}

func (m *Machine) store(addr uint64, n int, v uint64) (Exit, bool) {
	if e, ok := m.checkAccess(addr, n, true); !ok {
		return e, false
	}
	for i := 0; i < n; i++ {
		a := uint32(addr + uint64(i))
		m.Mem[a/PageSize].Data[a%PageSize] = byte(v >> (8 * uint(i)))
	}
	return Exit{}, true
}

func (m *Machine) branch(target int64, cond bool) (Exit, uint64, bool) {
	// returns exit, new pc, taken
	if !cond {
		return Exit{}, 0, false
	}
	if target < 0 || !m.P.IsBlockStart(uint64(target)) {
		return Exit{Kind: Panic}, 0, true
	}
	if uint64(target) == m.PC {
		m.flag("self_branch_taken")
	}
	return Exit{}, uint64(target), true
}

func (m *Machine) djump(a uint64) (Exit, uint64) {
	a &= 0xFFFFFFFF
	if a == (1<<32)-(1<<16) {
		return Exit{Kind: Halt}, 0
	}
	if a == 0 || a/ZA > m.P.NJ || (a/ZA == m.P.NJ && a%ZA != 0) || a%ZA != 0 {
		return Exit{Kind: Panic}, 0
	}
	t := m.P.jentry(a/ZA - 1)
	if !m.P.IsBlockStart(t) {
		return Exit{Kind: Panic}, 0
	}
	if t == m.PC {
		m.flag("self_branch_taken")
	}
	return Exit{}, t
}

func b2u(b bool) uint64 {
	if b {
		return 1
	}
	return 0
}

func z4(x uint64) int64 { return int64(int32(uint32(x))) }

func mulUpperSS(a, b uint64) uint64 {
	x := new(big.Int).Mul(big.NewInt(int64(a)), big.NewInt(int64(b)))
	x.Rsh(x, 64) // arithmetic (floor) shift for big.Int
	return uint64(x.Int64())
}
func mulUpperSU(a, b uint64) uint64 {
	x := new(big.Int).Mul(big.NewInt(int64(a)), new(big.Int).SetUint64(b))
	x.Rsh(x, 64)
	return uint64(x.Int64())
}
func mulUpperUU(a, b uint64) uint64 {
	x := new(big.Int).Mul(new(big.Int).SetUint64(a), new(big.Int).SetUint64(b))
	x.Rsh(x, 64)
	return x.Uint64()
}

// Step executes Ψ1 once (with the gas rule of Ψ): returns Continue or an exit.
// On Host exit the PC has been advanced to the next instruction (resume point);
// on Fault/OOG it stays at the instruction; on Panic/Halt it is left untouched
// (GP reports 0).
func (m *Machine) Step() Exit {
	if m.Gas < 1 {
		return Exit{Kind: OOG}
	}
	m.Gas--
	m.Steps++
	i := m.PC
	p := m.P
	op := p.zeta(i)
	if i < uint64(len(p.Code)) && !p.K[i] {
		m.flag("pc_not_instr_start")
	}
	if !(p.kext(i) && validOpcode[op]) {
		if i < uint64(len(p.Code)) {
			m.flag("invalid_opcode_reached")
		} else {
			m.flag("pc_past_end")
		}
		op = 0
	}
	l := p.Skip(i)
	if i < uint64(len(p.Code)) && i+1+uint64(l) > uint64(len(p.Code)) {
		m.flag("instr_at_end_of_code")
	}
	next := i + 1 + uint64(l)
	w := &m.Regs
	if op != 0 {
		m.NonTrap++
	}
	reg := func(b byte) int { return min(12, int(b)) }
	lo4 := func(b byte) int { return reg(b % 16) }
	hi4 := func(b byte) int { return reg(b / 16) }
	b1 := p.zeta(i + 1)

	switch {
	case op == 0:
		return Exit{Kind: Panic}
	case op == 1:
		m.PC = next
		return Exit{}
	case op == 10:
		lX := min(4, l)
		vX := sext(lX, m.le(i+1, lX))
		m.PC = next
		return Exit{Kind: Host, Arg: vX}
	case op == 20:
		rA := lo4(b1)
		w[rA] = m.le(i+2, 8)
		m.PC = next
		return Exit{}
	case op >= 30 && op <= 33:
		lX := min(4, int(b1%8))
		lY := min(4, max(0, l-lX-1))
		vX := sext(lX, m.le(i+2, lX))
		vY := sext(lY, m.le(i+2+uint64(lX), lY))
		if l < lX+1 {
			m.flag("skip_shorter_than_operands")
		}
		n := 1 << (op - 30)
		if e, ok := m.store(vX, n, vY); !ok {
			return e
		}
		m.PC = next
		return Exit{}
	case op == 40:
		lX := min(4, l)
		t := int64(i) + int64(sext(lX, m.le(i+1, lX)))
		e, npc, _ := m.branch(t, true)
		if e.Kind != Continue {
			return e
		}
		m.PC = npc
		return Exit{}
	case op >= 50 && op <= 62:
		rA := lo4(b1)
		lX := min(4, max(0, l-1))
		vX := sext(lX, m.le(i+2, lX))
		switch op {
		case 50:
			e, t := m.djump(w[rA] + vX)
			if e.Kind != Continue {
				return e
			}
			m.PC = t
			return Exit{}
		case 51:
			w[rA] = vX
		case 52, 53, 54, 55, 56, 57, 58:
			n := map[byte]int{52: 1, 53: 1, 54: 2, 55: 2, 56: 4, 57: 4, 58: 8}[op]
			v, e, ok := m.load(vX, n)
			if !ok {
				return e
			}
			if op == 53 || op == 55 || op == 57 {
				v = sext(n, v)
			}
			w[rA] = v
		case 59, 60, 61, 62:
			n := 1 << (op - 59)
			if e, ok := m.store(vX, n, w[rA]); !ok {
				return e
			}
		}
		m.PC = next
		return Exit{}
	case op >= 70 && op <= 73:
		rA := lo4(b1)
		lX := min(4, int(b1/16)%8)
		lY := min(4, max(0, l-lX-1))
		vX := sext(lX, m.le(i+2, lX))
		vY := sext(lY, m.le(i+2+uint64(lX), lY))
		n := 1 << (op - 70)
		if e, ok := m.store(w[rA]+vX, n, vY); !ok {
			return e
		}
		m.PC = next
		return Exit{}
	case op >= 80 && op <= 90:
		rA := lo4(b1)
		lX := min(4, int(b1/16)%8)
		lY := min(4, max(0, l-lX-1))
		vX := sext(lX, m.le(i+2, lX))
		t := int64(i) + int64(sext(lY, m.le(i+2+uint64(lX), lY)))
		a := w[rA]
		var cond bool
		switch op {
		case 80:
			cond = true
			w[rA] = vX // applies even when the jump panics
		case 81:
			cond = a == vX
		case 82:
			cond = a != vX
		case 83:
			cond = a < vX
		case 84:
			cond = a <= vX
		case 85:
			cond = a >= vX
		case 86:
			cond = a > vX
		case 87:
			cond = int64(a) < int64(vX)
		case 88:
			cond = int64(a) <= int64(vX)
		case 89:
			cond = int64(a) >= int64(vX)
		case 90:
			cond = int64(a) > int64(vX)
		}
		e, npc, taken := m.branch(t, cond)
		if e.Kind != Continue {
			return e
		}
		if taken {
			m.PC = npc
		} else {
			m.PC = next
		}
		return Exit{}
	case op >= 100 && op <= 111:
		rD := lo4(b1)
		rA := hi4(b1)
		a := w[rA]
		switch op {
		case 100:
			w[rD] = a
		case 101:
			return Exit{Kind: Unsupported}
		case 102:
			w[rD] = uint64(bits.OnesCount64(a))
		case 103:
			w[rD] = uint64(bits.OnesCount32(uint32(a)))
		case 104:
			w[rD] = uint64(bits.LeadingZeros64(a))
		case 105:
			w[rD] = uint64(bits.LeadingZeros32(uint32(a)))
		case 106:
			w[rD] = uint64(bits.TrailingZeros64(a))
		case 107:
			w[rD] = uint64(bits.TrailingZeros32(uint32(a)))
		case 108:
			w[rD] = sext(1, a&0xFF)
		case 109:
			w[rD] = sext(2, a&0xFFFF)
		case 110:
			w[rD] = a & 0xFFFF
		case 111:
			w[rD] = bits.ReverseBytes64(a)
		}
		m.PC = next
		return Exit{}
	case op >= 120 && op <= 161:
		rA := lo4(b1)
		rB := hi4(b1)
		lX := min(4, max(0, l-1))
		vX := sext(lX, m.le(i+2, lX))
		a, b := w[rA], w[rB]
		switch op {
		case 120, 121, 122, 123:
			n := 1 << (op - 120)
			if e, ok := m.store(b+vX, n, a); !ok {
				return e
			}
		case 124, 125, 126, 127, 128, 129, 130:
			n := map[byte]int{124: 1, 125: 1, 126: 2, 127: 2, 128: 4, 129: 4, 130: 8}[op]
			v, e, ok := m.load(b+vX, n)
			if !ok {
				return e
			}
			if op == 125 || op == 127 || op == 129 {
				v = sext(n, v)
			}
			w[rA] = v
		case 131:
			w[rA] = sext(4, uint64(uint32(b+vX)))
		case 132:
			w[rA] = b & vX
		case 133:
			w[rA] = b ^ vX
		case 134:
			w[rA] = b | vX
		case 135:
			w[rA] = sext(4, uint64(uint32(b*vX)))
		case 136:
			w[rA] = b2u(b < vX)
		case 137:
			w[rA] = b2u(int64(b) < int64(vX))
		case 138:
			w[rA] = sext(4, uint64(uint32(b)<<(vX%32)))
		case 139:
			w[rA] = sext(4, uint64(uint32(b)>>(vX%32)))
		case 140:
			w[rA] = uint64(z4(b) >> (vX % 32))
		case 141:
			w[rA] = sext(4, uint64(uint32(vX)-uint32(b)))
		case 142:
			w[rA] = b2u(b > vX)
		case 143:
			w[rA] = b2u(int64(b) > int64(vX))
		case 144:
			w[rA] = sext(4, uint64(uint32(vX)<<(b%32)))
		case 145:
			w[rA] = sext(4, uint64(uint32(vX)>>(b%32)))
		case 146:
			w[rA] = uint64(z4(vX) >> (b % 32))
		case 147:
			if b == 0 {
				w[rA] = vX
			}
		case 148:
			if b != 0 {
				w[rA] = vX
			}
		case 149:
			w[rA] = b + vX
		case 150:
			w[rA] = b * vX
		case 151:
			w[rA] = b << (vX % 64)
		case 152:
			w[rA] = b >> (vX % 64)
		case 153:
			w[rA] = uint64(int64(b) >> (vX % 64))
		case 154:
			w[rA] = vX - b
		case 155:
			w[rA] = vX << (b % 64)
		case 156:
			w[rA] = vX >> (b % 64)
		case 157:
			w[rA] = uint64(int64(vX) >> (b % 64))
		case 158:
			w[rA] = bits.RotateLeft64(b, -int(vX%64))
		case 159:
			w[rA] = bits.RotateLeft64(vX, -int(b%64))
		case 160:
			w[rA] = sext(4, uint64(bits.RotateLeft32(uint32(b), -int(vX%32))))
		case 161:
			w[rA] = sext(4, uint64(bits.RotateLeft32(uint32(vX), -int(b%32))))
		}
		m.PC = next
		return Exit{}
	case op >= 170 && op <= 175:
		rA := lo4(b1)
		rB := hi4(b1)
		lX := min(4, max(0, l-1))
		t := int64(i) + int64(sext(lX, m.le(i+2, lX)))
		a, b := w[rA], w[rB]
		var cond bool
		switch op {
		case 170:
			cond = a == b
		case 171:
			cond = a != b
		case 172:
			cond = a < b
		case 173:
			cond = int64(a) < int64(b)
		case 174:
			cond = a >= b
		case 175:
			cond = int64(a) >= int64(b)
		}
		e, npc, taken := m.branch(t, cond)
		if e.Kind != Continue {
			return e
		}
		if taken {
			m.PC = npc
		} else {
			m.PC = next
		}
		return Exit{}
	case op == 180:
		rA := lo4(b1)
		rB := hi4(b1)
		b2 := p.zeta(i + 2)
		lX := min(4, int(b2%8))
		lY := min(4, max(0, l-lX-2))
		vX := sext(lX, m.le(i+3, lX))
		vY := sext(lY, m.le(i+3+uint64(lX), lY))
		dest := w[rB] + vY
		w[rA] = vX // applies even when the jump panics
		e, t := m.djump(dest)
		if e.Kind != Continue {
			return e
		}
		m.PC = t
		return Exit{}
	case op >= 190 && op <= 230:
		rA := lo4(b1)
		rB := hi4(b1)
		rD := reg(p.zeta(i + 2))
		a, b := w[rA], w[rB]
		var d uint64
		set := true
		switch op {
		case 190:
			d = sext(4, uint64(uint32(a+b)))
		case 191:
			d = sext(4, uint64(uint32(a)-uint32(b)))
		case 192:
			d = sext(4, uint64(uint32(a*b)))
		case 193:
			if uint32(b) == 0 {
				d = ^uint64(0)
			} else {
				d = sext(4, uint64(uint32(a)/uint32(b)))
			}
		case 194:
			x, y := z4(a), z4(b)
			switch {
			case y == 0:
				d = ^uint64(0)
			case x == -(1<<31) && y == -1:
				d = uint64(x)
			default:
				d = uint64(x / y)
			}
		case 195:
			if uint32(b) == 0 {
				d = sext(4, uint64(uint32(a)))
			} else {
				d = sext(4, uint64(uint32(a)%uint32(b)))
			}
		case 196:
			x, y := z4(a), z4(b)
			switch {
			case x == -(1<<31) && y == -1:
				d = 0
			case y == 0:
				d = uint64(x)
			default:
				d = uint64(x % y)
			}
		case 197:
			d = sext(4, uint64(uint32(a)<<(b%32)))
		case 198:
			d = sext(4, uint64(uint32(a)>>(b%32)))
		case 199:
			d = uint64(z4(a) >> (b % 32))
		case 200:
			d = a + b
		case 201:
			d = a - b
		case 202:
			d = a * b
		case 203:
			if b == 0 {
				d = ^uint64(0)
			} else {
				d = a / b
			}
		case 204:
			switch {
			case b == 0:
				d = ^uint64(0)
			case int64(a) == -(1<<63) && int64(b) == -1:
				d = a
			default:
				d = uint64(int64(a) / int64(b))
			}
		case 205:
			if b == 0 {
				d = a
			} else {
				d = a % b
			}
		case 206:
			switch {
			case int64(a) == -(1<<63) && int64(b) == -1:
				d = 0
			case b == 0:
				d = a
			default:
				d = uint64(int64(a) % int64(b))
			}
		case 207:
			d = a << (b % 64)
		case 208:
			d = a >> (b % 64)
		case 209:
			d = uint64(int64(a) >> (b % 64))
		case 210:
			d = a & b
		case 211:
			d = a ^ b
		case 212:
			d = a | b
		case 213:
			d = mulUpperSS(a, b)
		case 214:
			d = mulUpperUU(a, b)
		case 215:
			d = mulUpperSU(a, b)
		case 216:
			d = b2u(a < b)
		case 217:
			d = b2u(int64(a) < int64(b))
		case 218:
			if b == 0 {
				d = a
			} else {
				set = false
			}
		case 219:
			if b != 0 {
				d = a
			} else {
				set = false
			}
		case 220:
			d = bits.RotateLeft64(a, int(b%64))
		case 221:
			d = sext(4, uint64(bits.RotateLeft32(uint32(a), int(b%32))))
		case 222:
			d = bits.RotateLeft64(a, -int(b%64))
		case 223:
			d = sext(4, uint64(bits.RotateLeft32(uint32(a), -int(b%32))))
		case 224:
			d = a &^ b
		case 225:
			d = a | ^b
		case 226:
			d = ^(a ^ b)
		case 227:
			if int64(a) > int64(b) {
				d = a
			} else {
				d = b
			}
		case 228:
			if a > b {
				d = a
			} else {
				d = b
			}
		case 229:
			if int64(a) < int64(b) {
				d = a
			} else {
				d = b
			}
		case 230:
			if a < b {
				d = a
			} else {
				d = b
			}
		}
		if set {
			w[rD] = d
		}
		m.PC = next
		return Exit{}
	}
	// unreachable: every valid opcode is handled above
	return Exit{Kind: Panic}
}

// Run executes until a non-continue exit or maxSteps attempted steps (returns
// Continue in that case).
func (m *Machine) Run(maxSteps int) Exit {
	for n := 0; n < maxSteps; n++ {
		e := m.Step()
		if e.Kind != Continue {
			return e
		}
	}
	return Exit{Kind: Continue}
}
