package typegen

// Layout: an independent reference serialiser that also records WHERE things
// are in the byte string (length prefixes, optional flags, variant tags, bools,
// compact integers, field boundaries). It is written from the wire format of
// Gray Paper appendix C as the repository's types lay it out, by reflection plus
// a table of per-type rules — it shares no code with encode.go.
//
// Use: mutation-based checks (C13, C14) need the positions. They MUST compare
// Layout's bytes with the implementation's encoding of the same value and use
// the marks only when the two agree (otherwise fall back to unstructured
// mutations): the marks are then facts about the implementation's own bytes and
// a mistake in this file cannot turn into a false alarm.

import (
	"bytes"
	"encoding/binary"
	"fmt"
	"reflect"
	"sort"

	"github.com/New-JAMneration/JAM-Protocol/internal/types"
)

// Mark kinds.
const (
	MarkLen   = "len"   // compact length prefix of a sequence / map / byte string (Val = count)
	MarkOpt   = "opt"   // optional flag byte (valid: 0, 1)
	MarkTag   = "tag"   // variant discriminator byte (valid: 0..Valid-1, or ValidSet)
	MarkBool  = "bool"  // boolean byte (valid: 0, 1)
	MarkCInt  = "cint"  // compact (variable-length) natural that is a VALUE, not a length
	MarkField = "field" // start of a struct field / sequence element (Len = 0)
	MarkBytes = "bytes" // content of a variable-length byte string
	MarkBits  = "bits"  // packed bitfield octets (Val = number of meaningful bits)
	MarkKey   = "key"   // an encoded dictionary key
	MarkFrame = "frame" // 4-byte little-endian frame length (fuzz protocol)
)

// Mark is one located item of the encoding.
type Mark struct {
	Off      int    `json:"off"`
	Len      int    `json:"len"`
	Kind     string `json:"kind"`
	Path     string `json:"path"`
	Val      uint64 `json:"val,omitempty"`
	Valid    int    `json:"valid,omitempty"`     // tag: number of valid values 0..Valid-1 (0 = see ValidSet)
	ValidSet []byte `json:"valid_set,omitempty"` // tag: explicit valid values
	ElemSize int    `json:"elem_size,omitempty"` // len: Go size in bytes of one element the decoder allocates
	ElemMin  int    `json:"elem_min,omitempty"`  // len: minimum encoded size of one element
	MaxBits  int    `json:"max_bits,omitempty"`  // cint: width in bits of the field the value is stored in
	IsMap    bool   `json:"is_map,omitempty"`    // len: the count of a dictionary (the decoder passes it to make(map, n))
}

// Writer accumulates bytes and marks.
type Writer struct {
	Buf   bytes.Buffer
	Marks []Mark
	Seg   types.HashSegmentMap
	// Hook lets a harness add rules for types typegen cannot import. It returns
	// true when it has written v.
	Hook func(w *Writer, v reflect.Value, path string) bool
	err  error
}

func (w *Writer) mark(kind, path string, off, n int) *Mark {
	w.Marks = append(w.Marks, Mark{Off: off, Len: n, Kind: kind, Path: path})
	return &w.Marks[len(w.Marks)-1]
}

// Compact appends the canonical GP C.6 encoding of x.
func Compact(x uint64) []byte {
	if x < 1<<7 {
		return []byte{byte(x)}
	}
	for l := 1; l <= 7; l++ {
		if x < uint64(1)<<(7*uint(l+1)) {
			out := make([]byte, 1+l)
			out[0] = byte(256 - (1 << uint(8-l)) + int(x>>(8*uint(l))))
			for i := 0; i < l; i++ {
				out[1+i] = byte(x >> (8 * uint(i)))
			}
			return out
		}
	}
	out := make([]byte, 9)
	out[0] = 0xFF
	binary.LittleEndian.PutUint64(out[1:], x)
	return out
}

// NonMinimal returns well-formed but non-canonical encodings of x (longer
// l-forms whose prefix field still fits, and the 9-byte form).
func NonMinimal(x uint64) [][]byte {
	var out [][]byte
	canon := len(Compact(x))
	for l := 1; l <= 7; l++ {
		if 1+l <= canon {
			continue
		}
		hi := x >> (8 * uint(l))
		if hi >= uint64(1)<<uint(7-l) {
			continue
		}
		b := make([]byte, 1+l)
		b[0] = byte(256 - (1 << uint(8-l)) + int(hi))
		for i := 0; i < l; i++ {
			b[1+i] = byte(x >> (8 * uint(i)))
		}
		out = append(out, b)
	}
	if canon < 9 {
		b := make([]byte, 9)
		b[0] = 0xFF
		binary.LittleEndian.PutUint64(b[1:], x)
		out = append(out, b)
	}
	return out
}

// Len writes a compact length prefix and marks it.
func (w *Writer) Len(path string, n int, elem reflect.Type) {
	off := w.Buf.Len()
	b := Compact(uint64(n))
	w.Buf.Write(b)
	m := w.mark(MarkLen, path, off, len(b))
	m.Val = uint64(n)
	if elem != nil {
		m.ElemSize = int(elem.Size())
		m.ElemMin = minSize(elem)
	} else {
		m.ElemSize, m.ElemMin = 1, 1
	}
}

// CInt writes a compact integer value.
func (w *Writer) CInt(path string, x uint64, bits int) {
	off := w.Buf.Len()
	b := Compact(x)
	w.Buf.Write(b)
	m := w.mark(MarkCInt, path, off, len(b))
	m.Val, m.MaxBits = x, bits
}

// Tag writes a discriminator byte with `valid` legal values 0..valid-1.
func (w *Writer) Tag(path string, b byte, valid int, set []byte) {
	off := w.Buf.Len()
	w.Buf.WriteByte(b)
	m := w.mark(MarkTag, path, off, 1)
	m.Val, m.Valid, m.ValidSet = uint64(b), valid, set
}

func (w *Writer) flag(kind, path string, on bool) {
	off := w.Buf.Len()
	if on {
		w.Buf.WriteByte(1)
	} else {
		w.Buf.WriteByte(0)
	}
	m := w.mark(kind, path, off, 1)
	if on {
		m.Val = 1
	}
}

// Raw writes bytes without a mark.
func (w *Writer) Raw(b []byte) { w.Buf.Write(b) }

// Fixed writes x little-endian on n bytes.
func (w *Writer) Fixed(x uint64, n int) {
	var b [8]byte
	binary.LittleEndian.PutUint64(b[:], x)
	w.Buf.Write(b[:n])
}

// Blob writes a length-prefixed byte string.
func (w *Writer) Blob(path string, b []byte) {
	w.Len(path, len(b), nil)
	off := w.Buf.Len()
	w.Buf.Write(b)
	if len(b) > 0 {
		w.mark(MarkBytes, path, off, len(b))
	}
}

// Field marks the start of a field/element.
func (w *Writer) Field(path string) { w.mark(MarkField, path, w.Buf.Len(), 0) }

// Layout serialises v (a value, not a pointer) and returns bytes and marks.
func Layout(v reflect.Value, seg types.HashSegmentMap, hook func(w *Writer, v reflect.Value, path string) bool) (b []byte, marks []Mark, err error) {
	w := &Writer{Seg: seg, Hook: hook}
	defer func() {
		if r := recover(); r != nil {
			err = fmt.Errorf("layout: %v", r)
		}
	}()
	w.Value(v, "")
	if w.err != nil {
		return nil, nil, w.err
	}
	return w.Buf.Bytes(), w.Marks, nil
}

var (
	tTicketAttempt   = typeOf[types.TicketAttempt]()
	tRefineLoad      = typeOf[types.RefineLoad]()
	tCoreActivity    = typeOf[types.CoreActivityRecord]()
	tServiceActivity = typeOf[types.ServiceActivityRecord]()
	tWorkReport      = typeOf[types.WorkReport]()
	tOperand         = typeOf[types.Operand]()
	tWorkExecResult  = typeOf[types.WorkExecResult]()
	tTicketsOrKeys   = typeOf[types.TicketsOrKeys]()
	tOperandOrXfer   = typeOf[types.OperandOrDeferredTransfer]()
	tBitfield        = typeOf[types.Bitfield]()
	tStorage         = typeOf[types.Storage]()
	tMetaCode        = typeOf[types.MetaCode]()
	tImportSpec      = typeOf[types.ImportSpec]()
	tState           = typeOf[types.State]()
	tEpochMark       = typeOf[types.EpochMark]()
	tVerdict         = typeOf[types.Verdict]()
	tAccOutput       = typeOf[types.AccumulatedServiceOutput]()

	// sequences whose length is fixed by the protocol parameters: no prefix
	noPrefix = map[reflect.Type]bool{
		typeOf[types.ValidatorsData](): true, typeOf[types.ValidatorsStatistics](): true,
		typeOf[types.CoresStatistics](): true, typeOf[types.AvailabilityAssignments](): true,
		typeOf[types.AuthPools](): true, typeOf[types.AuthQueues](): true, typeOf[types.AuthQueue](): true,
		typeOf[types.ServiceIDList](): true, typeOf[types.TicketsMark](): true,
		typeOf[types.ReadyQueue](): true, typeOf[types.AccumulatedQueue](): true,
	}
)

// minSize: minimum number of bytes of an encoded value of type t.
func minSize(t reflect.Type) int {
	switch t {
	case tTicketAttempt:
		return 1
	case tRefineLoad:
		return 5
	case tCoreActivity:
		return 8
	case tServiceActivity:
		return 10
	case tWorkExecResult, tTicketsOrKeys, tOperandOrXfer, tStorage, tMetaCode:
		return 1
	case tWorkReport: // spec 102 + context 133 + compact core + hash 32 + compact gas + 3 empty sequences
		return 102 + 133 + 1 + 32 + 1 + 1 + 1 + 1
	case tOperand:
		return 128 + 1 + 1 + 1
	case tBitfield:
		return types.AvailBitfieldBytes
	}
	switch t.Kind() {
	case reflect.Bool, reflect.Uint8, reflect.Int8:
		return 1
	case reflect.Uint16, reflect.Int16:
		return 2
	case reflect.Uint32, reflect.Int32:
		return 4
	case reflect.Uint64, reflect.Int64, reflect.Uint, reflect.Int:
		return 8
	case reflect.Array:
		return t.Len() * minSize(t.Elem())
	case reflect.Slice, reflect.Map, reflect.Pointer, reflect.String:
		if noPrefix[t] {
			return 0
		}
		return 1
	case reflect.Struct:
		n := 0
		for i := 0; i < t.NumField(); i++ {
			if t.Field(i).IsExported() {
				n += minSize(t.Field(i).Type)
			}
		}
		if n == 0 {
			n = 1
		}
		return n
	}
	return 1
}

func rawBytes(v reflect.Value) []byte {
	n := v.Len()
	out := make([]byte, n)
	for i := 0; i < n; i++ {
		out[i] = byte(v.Index(i).Uint())
	}
	return out
}

func (w *Writer) cintFields(v reflect.Value, path string) {
	t := v.Type()
	for i := 0; i < t.NumField(); i++ {
		w.Field(path + "." + t.Field(i).Name)
		w.CInt(path+"."+t.Field(i).Name, v.Field(i).Uint(), v.Field(i).Type().Bits())
	}
}

func (w *Writer) seq(v reflect.Value, path string, prefix bool) {
	if prefix {
		w.Len(path, v.Len(), v.Type().Elem())
	}
	for i := 0; i < v.Len(); i++ {
		p := fmt.Sprintf("%s[%d]", path, i)
		w.Field(p)
		w.Value(v.Index(i), p)
	}
}

// Value writes v by the rules.
func (w *Writer) Value(v reflect.Value, path string) {
	if w.Hook != nil && w.Hook(w, v, path) {
		return
	}
	t := v.Type()
	switch t {
	case tTicketAttempt:
		w.CInt(path, v.Uint(), 64)
		return
	case tRefineLoad, tCoreActivity, tServiceActivity:
		w.cintFields(v, path)
		return
	case tWorkReport:
		r := v.Interface().(types.WorkReport)
		w.Field(path + ".PackageSpec")
		w.Value(v.FieldByName("PackageSpec"), path+".PackageSpec")
		w.Field(path + ".Context")
		w.Value(v.FieldByName("Context"), path+".Context")
		w.Field(path + ".CoreIndex")
		w.CInt(path+".CoreIndex", uint64(r.CoreIndex), 16)
		w.Field(path + ".AuthorizerHash")
		w.Raw(r.AuthorizerHash[:])
		w.Field(path + ".AuthGasUsed")
		w.CInt(path+".AuthGasUsed", uint64(r.AuthGasUsed), 64)
		w.Field(path + ".AuthOutput")
		w.Blob(path+".AuthOutput", r.AuthOutput)
		w.Field(path + ".SegmentRootLookup")
		w.Value(v.FieldByName("SegmentRootLookup"), path+".SegmentRootLookup")
		w.Field(path + ".Results")
		w.Value(v.FieldByName("Results"), path+".Results")
		return
	case tOperand:
		o := v.Interface().(types.Operand)
		w.Raw(o.Hash[:])
		w.Raw(o.ExportsRoot[:])
		w.Raw(o.AuthorizerHash[:])
		w.Raw(o.PayloadHash[:])
		w.Field(path + ".GasLimit")
		w.CInt(path+".GasLimit", uint64(o.GasLimit), 64)
		w.Field(path + ".Result")
		w.Value(v.FieldByName("Result"), path+".Result")
		w.Field(path + ".AuthOutput")
		w.Blob(path+".AuthOutput", o.AuthOutput)
		return
	case tWorkExecResult:
		r := v.Interface().(types.WorkExecResult)
		k := -1
		for i, name := range WorkExecResultTypes {
			if string(r.Type) == name {
				k = i
			}
		}
		if k < 0 {
			panic("WorkExecResult type outside the domain")
		}
		w.Tag(path+".Type", byte(k), 7, nil)
		if k == 0 {
			w.Blob(path+".Data", r.Data)
		}
		return
	case tTicketsOrKeys:
		tk := v.Interface().(types.TicketsOrKeys)
		if (tk.Tickets == nil) == (tk.Keys == nil) {
			panic("TicketsOrKeys outside the domain")
		}
		if tk.Tickets != nil {
			w.Tag(path+".tag", 0, 2, nil)
			w.seq(v.FieldByName("Tickets"), path+".Tickets", false)
		} else {
			w.Tag(path+".tag", 1, 2, nil)
			w.seq(v.FieldByName("Keys"), path+".Keys", false)
		}
		return
	case tOperandOrXfer:
		o := v.Interface().(types.OperandOrDeferredTransfer)
		if (o.Operand == nil) == (o.DeferredTransfer == nil) {
			panic("OperandOrDeferredTransfer outside the domain")
		}
		if o.Operand != nil {
			w.Tag(path+".tag", 0, 2, nil)
			w.Value(v.FieldByName("Operand").Elem(), path+".Operand")
		} else {
			w.Tag(path+".tag", 1, 2, nil)
			w.Value(v.FieldByName("DeferredTransfer").Elem(), path+".DeferredTransfer")
		}
		return
	case tBitfield:
		bf := v.Interface().(types.Bitfield)
		out := make([]byte, types.AvailBitfieldBytes)
		for i, b := range bf {
			if b != 0 {
				out[i/8] |= 1 << uint(i%8)
			}
		}
		off := w.Buf.Len()
		w.Raw(out)
		m := w.mark(MarkBits, path, off, len(out))
		m.Val = uint64(len(bf))
		return
	case tStorage:
		st := v.Interface().(types.Storage)
		keys := make([]string, 0, len(st))
		for k := range st {
			keys = append(keys, k)
		}
		sort.Strings(keys)
		w.Len(path, len(keys), typeOf[types.ByteSequence]())
		w.Marks[len(w.Marks)-1].IsMap = true
		w.Marks[len(w.Marks)-1].ElemSize = 40
		for _, k := range keys {
			p := fmt.Sprintf("%s[%x]", path, trunc(k))
			w.Field(p)
			// jamtestnet layout: the key length is written twice
			w.Len(p+".keylen", len(k), nil)
			koff := w.Buf.Len()
			w.Blob(p+".key", []byte(k))
			w.mark(MarkKey, p, koff, w.Buf.Len()-koff)
			w.Blob(p+".value", st[k])
		}
		return
	case tMetaCode:
		mc := v.Interface().(types.MetaCode)
		w.Blob(path+".Metadata", mc.Metadata)
		w.Raw(mc.Code)
		return
	case tImportSpec:
		is := v.Interface().(types.ImportSpec)
		w.Raw(is.TreeRoot[:])
		idx := uint64(is.Index)
		if _, ok := w.Seg[is.TreeRoot]; ok {
			idx = uint64(uint16(is.Index + 1<<15))
		}
		w.Fixed(idx, 2)
		return
	case tState:
		for i := 0; i < t.NumField(); i++ {
			name := t.Field(i).Name
			if name == "Theta" {
				continue // the repository's State codec has no Theta
			}
			w.Field(path + "." + name)
			w.Value(v.Field(i), path+"."+name)
		}
		return
	case tEpochMark, tVerdict:
		for i := 0; i < t.NumField(); i++ {
			name := t.Field(i).Name
			w.Field(path + "." + name)
			if name == "Validators" || name == "Votes" {
				w.seq(v.Field(i), path+"."+name, false)
			} else {
				w.Value(v.Field(i), path+"."+name)
			}
		}
		return
	}
	switch t.Kind() {
	case reflect.Bool:
		w.flag(MarkBool, path, v.Bool())
	case reflect.Uint8, reflect.Uint16, reflect.Uint32, reflect.Uint64, reflect.Uint:
		w.Fixed(v.Uint(), minSize(t))
	case reflect.Int8, reflect.Int16, reflect.Int32, reflect.Int64, reflect.Int:
		w.Fixed(uint64(v.Int()), minSize(t))
	case reflect.String:
		w.Blob(path, []byte(v.String()))
	case reflect.Array:
		if isByteKind(t.Elem()) {
			w.Raw(rawBytes(v))
			return
		}
		w.seq(v, path, false)
	case reflect.Slice:
		if isByteKind(t.Elem()) {
			w.Blob(path, rawBytes(v))
			return
		}
		w.seq(v, path, !noPrefix[t])
	case reflect.Map:
		w.mapValue(v, path)
	case reflect.Pointer:
		w.flag(MarkOpt, path, !v.IsNil())
		if !v.IsNil() {
			w.Value(v.Elem(), path)
		}
	case reflect.Struct:
		for i := 0; i < t.NumField(); i++ {
			if !t.Field(i).IsExported() {
				continue
			}
			p := path + "." + t.Field(i).Name
			w.Field(p)
			w.Value(v.Field(i), p)
		}
	default:
		panic(fmt.Sprintf("no layout rule for kind %s", t.Kind()))
	}
}

func (w *Writer) mapValue(v reflect.Value, path string) {
	t := v.Type()
	type entry struct {
		kb []byte
		k  reflect.Value
		kn uint64
	}
	numeric := false
	switch t.Key().Kind() {
	case reflect.Uint8, reflect.Uint16, reflect.Uint32, reflect.Uint64:
		numeric = true
	}
	var es []entry
	for _, k := range v.MapKeys() {
		sub := &Writer{Seg: w.Seg}
		sub.Value(k, "")
		e := entry{kb: append([]byte{}, sub.Buf.Bytes()...), k: k}
		if numeric {
			e.kn = k.Uint()
		}
		es = append(es, e)
	}
	if t.Key() == typeOf[types.LookupMetaMapkey]() {
		// ordered by hash, then by NUMERIC length
		sort.Slice(es, func(i, j int) bool {
			a := es[i].k.Interface().(types.LookupMetaMapkey)
			b := es[j].k.Interface().(types.LookupMetaMapkey)
			if c := bytes.Compare(a.Hash[:], b.Hash[:]); c != 0 {
				return c < 0
			}
			return a.Length < b.Length
		})
	} else if t == tAccOutput {
		// ordered by NUMERIC service id, then by hash (the order AccumulatedServiceOutput.Encode uses since bedc373)
		sort.Slice(es, func(i, j int) bool {
			if a, b := leUint(es[i].kb[:4]), leUint(es[j].kb[:4]); a != b {
				return a < b
			}
			return bytes.Compare(es[i].kb[4:], es[j].kb[4:]) < 0
		})
	} else if numeric {
		sort.Slice(es, func(i, j int) bool { return es[i].kn < es[j].kn })
	} else {
		sort.Slice(es, func(i, j int) bool { return bytes.Compare(es[i].kb, es[j].kb) < 0 })
	}
	w.Len(path, len(es), t.Elem())
	w.Marks[len(w.Marks)-1].IsMap = true
	w.Marks[len(w.Marks)-1].ElemSize = int(t.Key().Size() + t.Elem().Size())
	for _, e := range es {
		p := fmt.Sprintf("%s[%x]", path, e.kb[:min(len(e.kb), 8)])
		w.Field(p)
		off := w.Buf.Len()
		w.Raw(e.kb)
		w.mark(MarkKey, p, off, len(e.kb))
		if t == tAccOutput {
			continue // a set: the value (true) is not encoded
		}
		w.Value(v.MapIndex(e.k), p)
	}
}
