package typegen

// Go reflection cannot enumerate a package's types. Registry() is a generated
// list (registry_gen.go, produced by gen_registry.py); ScanRepo re-derives the
// list from the CURRENT repository sources with go/parser at run time so that a
// harness can detect that the generated file is out of date and stop as
// "inconclusive" instead of silently skipping new types.

import (
	"fmt"
	"go/ast"
	"go/parser"
	"go/token"
	"path/filepath"
	"reflect"
	"sort"
)

// Entry is one registered type of internal/types.
type Entry struct {
	Name string
	Type reflect.Type
}

// Dir tells which codec directions the sources define for a type.
type Dir struct{ Enc, Dec bool }

// Methods maps type name -> set of method names declared on it (value or
// pointer receiver) in one file.
func Methods(file string) (map[string]map[string]bool, error) {
	fset := token.NewFileSet()
	f, err := parser.ParseFile(fset, file, nil, parser.SkipObjectResolution)
	if err != nil {
		return nil, err
	}
	out := map[string]map[string]bool{}
	for _, d := range f.Decls {
		fd, ok := d.(*ast.FuncDecl)
		if !ok || fd.Recv == nil || len(fd.Recv.List) != 1 {
			continue
		}
		rt := fd.Recv.List[0].Type
		if st, ok := rt.(*ast.StarExpr); ok {
			rt = st.X
		}
		id, ok := rt.(*ast.Ident)
		if !ok {
			continue
		}
		if out[id.Name] == nil {
			out[id.Name] = map[string]bool{}
		}
		out[id.Name][fd.Name.Name] = true
	}
	return out, nil
}

// ScanRepo lists the types of <repo>/internal/types that have an Encode method
// in encode.go and/or a Decode method in decode.go.
func ScanRepo(repo string) (map[string]Dir, error) {
	enc, err := Methods(filepath.Join(repo, "internal/types/encode.go"))
	if err != nil {
		return nil, fmt.Errorf("scan encode.go: %w", err)
	}
	dec, err := Methods(filepath.Join(repo, "internal/types/decode.go"))
	if err != nil {
		return nil, fmt.Errorf("scan decode.go: %w", err)
	}
	out := map[string]Dir{}
	for name, ms := range enc {
		if ms["Encode"] {
			d := out[name]
			d.Enc = true
			out[name] = d
		}
	}
	for name, ms := range dec {
		if ms["Decode"] {
			d := out[name]
			d.Dec = true
			out[name] = d
		}
	}
	return out, nil
}

// CheckRegistry compares the generated registry with a scan: missing = in the
// sources but not registered (registry out of date), stale = registered but no
// longer in the sources (would normally already fail to compile).
func CheckRegistry(scan map[string]Dir) (missing, stale []string) {
	reg := map[string]bool{}
	for _, e := range Registry() {
		reg[e.Name] = true
		if _, ok := scan[e.Name]; !ok {
			stale = append(stale, e.Name)
		}
	}
	for name := range scan {
		if !reg[name] {
			missing = append(missing, name)
		}
	}
	sort.Strings(missing)
	sort.Strings(stale)
	return
}

// Lookup returns the registered type by name.
func Lookup(name string) (reflect.Type, bool) {
	for _, e := range Registry() {
		if e.Name == name {
			return e.Type, true
		}
	}
	return nil, false
}
