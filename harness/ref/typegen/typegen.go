// Package typegen is the shared, reflection-driven value generator of the /verif
// property harnesses (C11, C13, C14; reused by C15/C17). It is injected as the
// virtual package
//
//	github.com/New-JAMneration/JAM-Protocol/internal/verifref/typegen
//
// by a spec that lists `"refs": ["typegen"]`. Only dependencies: the standard
// library, internal/types, x/crypto/blake2b and pgregory.net/rapid.
//
// # API (deliberately small)
//
//	Gen(rt, t)            *Node          draw a recipe for a value of reflect.Type t
//	GenWith(rt, t, opt)   *Node          same with Options{WellFormed: true, …}
//	Build(t, n, variant)  reflect.Value  turn a recipe into the Go value (pure, no randomness);
//	                                     variant 0/1/2 = three different map insertion orders
//	BuildInto(ptr, n, variant)           convenience: fill *T
//	Equal(a, b)           string         semantic equality (nil ≡ empty slice/map, pointers by
//	                                     pointee); "" when equal, else the path of the first difference
//	NonTrivial(n)         bool           recipe has a non-empty variable-length field, a map with
//	                                     >= 2 entries or a present optional
//	GenState(rt)          types.State    well-formed full state (see state.go)
//	GenStateNode(rt)      *Node          its recipe (JSON-serialisable, for replay files);
//	BuildState(n)         types.State
//	SetMode("tiny"|"full")               select the protocol-parameter mode (internal/types/const.go)
//	Registry()            []Entry        every type of internal/types having Encode and/or Decode
//	ScanRepo(dir)         map[string]Dir go/parser scan of <dir>/internal/types/{encode,decode}.go
//	CheckRegistry(scan)   (missing, stale []string)
//	Walk(v, t, f)                        visit every sub-value of type t
//	Layout(v, seg, hook)  (bytes, marks) independent reference serialiser with positions (layout.go)
//	RefDecode(t, b, seg, hook) (n, *Reject)  strict reference parser, classification only (refdec.go)
//
// # Why recipes
//
// The kit needs the *input* of a case to be JSON-serialisable (it is the replay
// file) and the check to be a pure function of it. The types under test have
// hand-written, lossy JSON marshalers, so a case does not carry the Go value but a
// Node tree: a generic, faithful description (struct = list of field nodes, slice
// = list or "nil", map = list of key/value nodes IN THE DRAWN INSERTION ORDER,
// pointer = "nil" or one child, byte strings = length + pattern + 64-bit seed so
// that a 1023-validator set stays small). All randomness of Gen goes through
// rapid draws; Build is deterministic.
//
// # Domain respected by Gen (caller preconditions of the encoders)
//
// Lengths fixed by the current parameter mode: ValidatorsData, ValidatorsStatistics,
// EpochMark.Validators = ValidatorsCount; AuthPools, AuthQueues, CoresStatistics,
// AvailabilityAssignments, ServiceIDList, Bitfield (one 0/1 byte per core) =
// CoresCount; AuthQueue = AuthQueueSize; AuthPool <= AuthPoolMaxSize;
// TicketsMark, ReadyQueue, AccumulatedQueue, the non-nil arm of TicketsOrKeys =
// EpochLength; Verdict.Votes = ValidatorsSuperMajority; BlocksHistory <=
// MaxBlocksHistory; Ancestry <= MaxLookupAge. Variants: TicketsOrKeys and
// OperandOrDeferredTransfer have exactly one arm; WorkExecResult.Type is one of
// the seven defined constants and Data is nil unless Type == "ok";
// AccumulatedServiceOutput values are all true (it is a set).
package typegen

import (
	"encoding/hex"
	"fmt"
	"reflect"
	"sort"

	"github.com/New-JAMneration/JAM-Protocol/internal/types"
	"github.com/New-JAMneration/JAM-Protocol/logger"
	"pgregory.net/rapid"
)

// Node is the JSON-serialisable recipe of a value. Kinds (K):
//
//	"u"   unsigned integer U (any width; bool as 0/1)
//	"s"   string, bytes in H (hex)
//	"x"   byte string / byte array of N bytes: P=0 zeros, 1 0xFF.., 2 splitmix64 stream of seed U, 3 literal H
//	"st"  struct, C = exported fields in declaration order
//	"sl"  slice or array of non-byte elements, C = elements
//	"nil" nil slice / map / pointer
//	"m"   map, C = k0,v0,k1,v1,… in insertion order
//	"p"   non-nil pointer, C[0] = pointee
//
// V marks a variable-length container or optional (used by NonTrivial).
type Node struct {
	K string  `json:"k"`
	U uint64  `json:"u,omitempty"`
	N int     `json:"n,omitempty"`
	P int     `json:"p,omitempty"`
	H string  `json:"h,omitempty"`
	V bool    `json:"v,omitempty"`
	C []*Node `json:"c,omitempty"`
}

// Options tune Gen. The zero value is the codec-oriented default (maximal
// syntactic diversity inside the encoders' domain).
type Options struct {
	// WellFormed additionally keeps semantic invariants the STF relies on: work
	// reports have 1..3 results, block infos report at most CoresCount packages,
	// dispute sets and last-accumulation outputs are sorted and duplicate free.
	WellFormed bool
	// MaxLen caps drawn lengths of variable-length slices and maps (default 5).
	MaxLen int
	// NoEmptyStorageKey removes the empty string from generated Storage keys.
	NoEmptyStorageKey bool
}

// SetMode selects the protocol parameter mode and keeps the repository logger
// quiet. It must not be called concurrently with encoding/decoding.
func SetMode(mode string) {
	logger.Disable()
	if mode == "full" {
		if types.TEST_MODE != "full" || types.ValidatorsCount != 1023 {
			types.SetFullMode()
		}
		return
	}
	if types.TEST_MODE != "tiny" || types.ValidatorsCount != 6 {
		types.SetTinyMode()
	}
}

type gen struct {
	rt  *rapid.T
	opt Options
}

// Gen draws a recipe for a value of type t under the current parameter mode.
func Gen(rt *rapid.T, t reflect.Type) *Node { return GenWith(rt, t, Options{}) }

// GenWith is Gen with options.
func GenWith(rt *rapid.T, t reflect.Type, opt Options) *Node {
	if opt.MaxLen <= 0 {
		opt.MaxLen = 5
	}
	g := &gen{rt: rt, opt: opt}
	return g.value(t, 0)
}

var (
	uintBoundaries = []uint64{0, 1, 2, 0x7F, 0x80, 0xFF, 0x100, 0x3FFF, 0x4000, 0x7FFF, 0x8000, 0xFFFF, 0x10000,
		0x1FFFFF, 0x200000, 0xFFFFFFF, 0x10000000, 0x7FFFFFFF, 0x80000000, 0xFFFFFFFF, 0x100000000,
		0x7FFFFFFFF, 0x800000000, 0x3FFFFFFFFFF, 0x40000000000, 0x1FFFFFFFFFFFF, 0x2000000000000,
		0xFFFFFFFFFFFFFF, 0x100000000000000, 0x7FFFFFFFFFFFFFFF, 0x8000000000000000, 0xFFFFFFFFFFFFFFFF}
	genUintBoundary = rapid.SampledFrom(uintBoundaries)
	genUint64       = rapid.Uint64()
	genSmall        = rapid.Uint64Range(0, 300)
	genChoice4      = rapid.IntRange(0, 3)
	genChoice8      = rapid.IntRange(0, 7)
	genChoice16     = rapid.IntRange(0, 15)
	genBool         = rapid.Bool()
	genByte         = rapid.Byte()
	byteLens        = rapid.SampledFrom([]int{1, 1, 2, 3, 4, 8, 16, 31, 32, 33, 40, 63, 64, 65, 100, 127, 128, 129, 300})
)

func widthMask(bits int) uint64 {
	if bits >= 64 {
		return ^uint64(0)
	}
	return (uint64(1) << uint(bits)) - 1
}

func (g *gen) uintNode(bits int) *Node {
	var v uint64
	switch genChoice4.Draw(g.rt, "uk") {
	case 0:
		v = genUintBoundary.Draw(g.rt, "ub")
	case 1:
		v = genSmall.Draw(g.rt, "us")
	default:
		v = genUint64.Draw(g.rt, "ur")
		// spread over magnitudes: shift right by a drawn amount
		v >>= uint(rapid.IntRange(0, 63).Draw(g.rt, "ush"))
	}
	return &Node{K: "u", U: v & widthMask(bits)}
}

// bytesNode draws an n-byte pattern.
func (g *gen) bytesNode(n int) *Node {
	nd := &Node{K: "x", N: n}
	if n == 0 {
		return nd
	}
	switch genChoice8.Draw(g.rt, "bp") {
	case 0:
		nd.P = 0
	case 1:
		nd.P = 1
	default:
		nd.P = 2
		nd.U = genUint64.Draw(g.rt, "bseed")
	}
	return nd
}

// varLen draws a length for a variable-length container: (isNil, n).
func (g *gen) varLen(depth int, cheap bool) (bool, int) {
	max := g.opt.MaxLen
	if depth >= 2 && max > 3 {
		max = 3
	}
	if depth >= 4 && max > 2 {
		max = 2
	}
	switch genChoice8.Draw(g.rt, "lk") {
	case 0:
		return true, 0
	case 1:
		return false, 0
	case 2, 3:
		return false, 1
	case 4:
		if cheap && depth <= 1 && genChoice4.Draw(g.rt, "lbigk") == 0 {
			// counts around the 1-byte/2-byte length-prefix boundary
			return false, rapid.SampledFrom([]int{127, 128, 129, 200}).Draw(g.rt, "lbig")
		}
		return false, 2
	default:
		if max < 1 {
			max = 1
		}
		return false, rapid.IntRange(1, max).Draw(g.rt, "ln")
	}
}

func isByteKind(t reflect.Type) bool { return t.Kind() == reflect.Uint8 }

// cheapElem reports whether elements of t are small fixed-size values.
func cheapElem(t reflect.Type) bool {
	switch t.Kind() {
	case reflect.Array:
		return isByteKind(t.Elem()) && t.Len() <= 64
	case reflect.Uint8, reflect.Uint16, reflect.Uint32, reflect.Uint64:
		return true
	}
	return false
}

func (g *gen) value(t reflect.Type, depth int) *Node {
	if f, ok := overrides[t]; ok {
		return f(g, t, depth)
	}
	return g.generic(t, depth)
}

func (g *gen) generic(t reflect.Type, depth int) *Node {
	switch t.Kind() {
	case reflect.Bool:
		if genBool.Draw(g.rt, "b") {
			return &Node{K: "u", U: 1}
		}
		return &Node{K: "u", U: 0}
	case reflect.Uint8:
		return g.uintNode(8)
	case reflect.Uint16:
		return g.uintNode(16)
	case reflect.Uint32:
		return g.uintNode(32)
	case reflect.Uint64, reflect.Uint:
		return g.uintNode(64)
	case reflect.Int8:
		return g.uintNode(7)
	case reflect.Int16:
		return g.uintNode(15)
	case reflect.Int32:
		return g.uintNode(31)
	case reflect.Int64, reflect.Int:
		return g.uintNode(63)
	case reflect.String:
		return g.stringNode(true)
	case reflect.Array:
		if isByteKind(t.Elem()) {
			return g.bytesNode(t.Len())
		}
		nd := &Node{K: "sl"}
		for i := 0; i < t.Len(); i++ {
			nd.C = append(nd.C, g.value(t.Elem(), depth+1))
		}
		return nd
	case reflect.Slice:
		if isByteKind(t.Elem()) {
			return g.byteSliceNode(depth)
		}
		isNil, n := g.varLen(depth, cheapElem(t.Elem()))
		if isNil {
			return &Node{K: "nil", V: true}
		}
		return g.sliceOfN(t.Elem(), n, depth, true)
	case reflect.Map:
		return g.mapNode(t, depth, nil, nil)
	case reflect.Pointer:
		if genBool.Draw(g.rt, "pn") {
			return &Node{K: "nil", V: true}
		}
		return &Node{K: "p", V: true, C: []*Node{g.value(t.Elem(), depth+1)}}
	case reflect.Struct:
		nd := &Node{K: "st"}
		for i := 0; i < t.NumField(); i++ {
			f := t.Field(i)
			if !f.IsExported() {
				nd.C = append(nd.C, &Node{K: "nil"})
				continue
			}
			nd.C = append(nd.C, g.value(f.Type, depth+1))
		}
		return nd
	}
	panic(fmt.Sprintf("typegen: unsupported kind %s (%s)", t.Kind(), t))
}

func (g *gen) stringNode(allowEmpty bool) *Node {
	n := 0
	k := genChoice8.Draw(g.rt, "sk")
	if k == 0 && allowEmpty {
		n = 0
	} else {
		n = byteLens.Draw(g.rt, "sn")
		if n > 64 && k < 6 {
			n = n%40 + 1
		}
	}
	b := g.bytesNode(n)
	return &Node{K: "s", H: hex.EncodeToString(fill(b))}
}

// byteSliceNode: nil, empty, or a drawn length (boundary-biased around the
// compact-length breakpoints 127/128 and, rarely, 16383/16384).
func (g *gen) byteSliceNode(depth int) *Node {
	switch genChoice16.Draw(g.rt, "xk") {
	case 0:
		return &Node{K: "nil", V: true}
	case 1:
		return &Node{K: "x", N: 0, V: true}
	case 2:
		n := byteLens.Draw(g.rt, "xn")
		if depth <= 2 && genChoice4.Draw(g.rt, "xbigk") == 0 {
			// 2-byte/3-byte length-prefix boundary
			n = rapid.SampledFrom([]int{16383, 16384, 16385}).Draw(g.rt, "xbig")
		}
		nd := g.bytesNode(n)
		nd.V = true
		return nd
	default:
		nd := g.bytesNode(byteLens.Draw(g.rt, "xn"))
		nd.V = true
		return nd
	}
}

func (g *gen) sliceOfN(elem reflect.Type, n int, depth int, variable bool) *Node {
	nd := &Node{K: "sl", V: variable && n > 0}
	nd.C = make([]*Node, 0, n)
	for i := 0; i < n; i++ {
		nd.C = append(nd.C, g.value(elem, depth+1))
	}
	if n == 0 {
		nd.V = variable
	}
	return nd
}

// mapNode draws 0..MaxLen distinct keys. keyGen/valGen override the element
// generators when not nil.
func (g *gen) mapNode(t reflect.Type, depth int, keyGen, valGen func() *Node) *Node {
	isNil, n := g.varLen(depth, false)
	if isNil {
		return &Node{K: "nil", V: true}
	}
	if n > g.opt.MaxLen {
		n = g.opt.MaxLen
	}
	nd := &Node{K: "m", V: true}
	seen := map[any]bool{}
	for i := 0; i < n; i++ {
		var kn *Node
		if keyGen != nil {
			kn = keyGen()
		} else if prev := len(nd.C); prev > 0 && t.Key().Kind() == reflect.Struct && nd.C[prev-2].K == "st" && genBool.Draw(g.rt, "ksib") {
			// composite key: a sibling of the previous key that differs in ONE field only (the
			// order of such keys is decided by the later fields, e.g. same hash, other length)
			kt := t.Key()
			kn = &Node{K: "st", C: append([]*Node(nil), nd.C[prev-2].C...)}
			var exported []int
			for f := 0; f < kt.NumField(); f++ {
				if kt.Field(f).IsExported() {
					exported = append(exported, f)
				}
			}
			if len(exported) > 0 {
				f := exported[rapid.IntRange(0, len(exported)-1).Draw(g.rt, "ksibf")]
				kn.C[f] = g.value(kt.Field(f).Type, depth+2)
			}
		} else {
			kn = g.value(t.Key(), depth+1)
		}
		kv := Build(t.Key(), kn, 0).Interface()
		if seen[kv] {
			continue
		}
		seen[kv] = true
		var vn *Node
		if valGen != nil {
			vn = valGen()
		} else {
			vn = g.value(t.Elem(), depth+1)
		}
		nd.C = append(nd.C, kn, vn)
	}
	return nd
}

// splitmix64 stream
func fillStream(dst []byte, seed uint64) {
	x := seed
	for i := 0; i < len(dst); i += 8 {
		x += 0x9E3779B97F4A7C15
		z := x
		z = (z ^ (z >> 30)) * 0xBF58476D1CE4E5B9
		z = (z ^ (z >> 27)) * 0x94D049BB133111EB
		z ^= z >> 31
		for j := 0; j < 8 && i+j < len(dst); j++ {
			dst[i+j] = byte(z >> (8 * uint(j)))
		}
	}
}

// fill materialises an "x" node.
func fill(n *Node) []byte {
	if n.K == "nil" {
		return nil
	}
	out := make([]byte, n.N)
	switch n.P {
	case 1:
		for i := range out {
			out[i] = 0xFF
		}
	case 2:
		fillStream(out, n.U)
	case 3:
		b, _ := hex.DecodeString(n.H)
		copy(out, b)
	}
	return out
}

// Bytes returns the bytes described by an "x" or "s" node (nil for "nil").
func Bytes(n *Node) []byte {
	if n == nil {
		return nil
	}
	if n.K == "s" {
		b, _ := hex.DecodeString(n.H)
		return b
	}
	return fill(n)
}

// Lit makes a literal byte-string node.
func Lit(b []byte) *Node { return &Node{K: "x", N: len(b), P: 3, H: hex.EncodeToString(b)} }

// Build turns a recipe into a value of type t. variant selects the insertion
// order of every map: 0 as drawn, 1 reversed, 2 odd positions first.
func Build(t reflect.Type, n *Node, variant int) reflect.Value {
	v := reflect.New(t).Elem()
	build(v, n, variant)
	return v
}

// BuildInto fills *ptr (ptr must be a non-nil pointer).
func BuildInto(ptr any, n *Node, variant int) {
	build(reflect.ValueOf(ptr).Elem(), n, variant)
}

func build(v reflect.Value, n *Node, variant int) {
	if n == nil {
		return
	}
	t := v.Type()
	switch t.Kind() {
	case reflect.Bool:
		v.SetBool(n.U != 0)
	case reflect.Uint8, reflect.Uint16, reflect.Uint32, reflect.Uint64, reflect.Uint:
		v.SetUint(n.U & widthMask(t.Bits()))
	case reflect.Int8, reflect.Int16, reflect.Int32, reflect.Int64, reflect.Int:
		v.SetInt(int64(n.U & widthMask(t.Bits()-1)))
	case reflect.String:
		v.SetString(string(Bytes(n)))
	case reflect.Array:
		if isByteKind(t.Elem()) {
			b := fill(n)
			for i := 0; i < t.Len() && i < len(b); i++ {
				v.Index(i).SetUint(uint64(b[i]))
			}
			return
		}
		for i := 0; i < t.Len() && i < len(n.C); i++ {
			build(v.Index(i), n.C[i], variant)
		}
	case reflect.Slice:
		if n.K == "nil" {
			return
		}
		if isByteKind(t.Elem()) {
			b := fill(n)
			s := reflect.MakeSlice(t, len(b), len(b))
			if t.Elem() == reflect.TypeOf(byte(0)) {
				reflect.Copy(s, reflect.ValueOf(b))
			} else {
				for i := range b {
					s.Index(i).SetUint(uint64(b[i]))
				}
			}
			v.Set(s)
			return
		}
		s := reflect.MakeSlice(t, len(n.C), len(n.C))
		for i := range n.C {
			build(s.Index(i), n.C[i], variant)
		}
		v.Set(s)
	case reflect.Map:
		if n.K == "nil" {
			return
		}
		m := reflect.MakeMap(t)
		cnt := len(n.C) / 2
		for _, i := range order(cnt, variant) {
			k := reflect.New(t.Key()).Elem()
			build(k, n.C[2*i], variant)
			e := reflect.New(t.Elem()).Elem()
			build(e, n.C[2*i+1], variant)
			m.SetMapIndex(k, e)
		}
		v.Set(m)
	case reflect.Pointer:
		if n.K == "nil" || len(n.C) == 0 {
			return
		}
		p := reflect.New(t.Elem())
		build(p.Elem(), n.C[0], variant)
		v.Set(p)
	case reflect.Struct:
		for i := 0; i < t.NumField() && i < len(n.C); i++ {
			if !t.Field(i).IsExported() {
				continue
			}
			build(v.Field(i), n.C[i], variant)
		}
	default:
		panic(fmt.Sprintf("typegen: cannot build kind %s", t.Kind()))
	}
}

func order(n, variant int) []int {
	idx := make([]int, 0, n)
	switch variant % 3 {
	case 0:
		for i := 0; i < n; i++ {
			idx = append(idx, i)
		}
	case 1:
		for i := n - 1; i >= 0; i-- {
			idx = append(idx, i)
		}
	default:
		for i := 1; i < n; i += 2 {
			idx = append(idx, i)
		}
		for i := 0; i < n; i += 2 {
			idx = append(idx, i)
		}
	}
	return idx
}

// NonTrivial implements the C11 rule: at least one non-empty variable-length
// field, a map with >= 2 entries, or a present optional.
func NonTrivial(n *Node) bool {
	if n == nil {
		return false
	}
	switch n.K {
	case "x":
		if n.V && n.N > 0 {
			return true
		}
	case "s":
		if len(n.H) > 0 {
			return true
		}
	case "sl":
		if n.V && len(n.C) > 0 {
			return true
		}
	case "m":
		if len(n.C) >= 4 {
			return true
		}
	case "p":
		return true
	}
	for _, c := range n.C {
		if NonTrivial(c) {
			return true
		}
	}
	return false
}

// Equal is semantic equality of two values of the same type: nil and empty
// slices/maps are equal, pointers are compared by pointee. It returns "" when
// equal and otherwise a description of the first difference found.
func Equal(a, b reflect.Value) string { return equal(a, b, "") }

func equal(a, b reflect.Value, path string) string {
	if a.Type() != b.Type() {
		return fmt.Sprintf("%s: type %s vs %s", path, a.Type(), b.Type())
	}
	switch a.Kind() {
	case reflect.Bool:
		if a.Bool() != b.Bool() {
			return fmt.Sprintf("%s: %v vs %v", path, a.Bool(), b.Bool())
		}
	case reflect.Uint8, reflect.Uint16, reflect.Uint32, reflect.Uint64, reflect.Uint:
		if a.Uint() != b.Uint() {
			return fmt.Sprintf("%s: %d vs %d", path, a.Uint(), b.Uint())
		}
	case reflect.Int8, reflect.Int16, reflect.Int32, reflect.Int64, reflect.Int:
		if a.Int() != b.Int() {
			return fmt.Sprintf("%s: %d vs %d", path, a.Int(), b.Int())
		}
	case reflect.String:
		if a.String() != b.String() {
			return fmt.Sprintf("%s: %q vs %q", path, trunc(a.String()), trunc(b.String()))
		}
	case reflect.Array:
		for i := 0; i < a.Len(); i++ {
			if d := equal(a.Index(i), b.Index(i), fmt.Sprintf("%s[%d]", path, i)); d != "" {
				return d
			}
		}
	case reflect.Slice:
		if a.Len() != b.Len() {
			return fmt.Sprintf("%s: len %d vs %d", path, a.Len(), b.Len())
		}
		for i := 0; i < a.Len(); i++ {
			if d := equal(a.Index(i), b.Index(i), fmt.Sprintf("%s[%d]", path, i)); d != "" {
				return d
			}
		}
	case reflect.Map:
		if a.Len() != b.Len() {
			return fmt.Sprintf("%s: map len %d vs %d", path, a.Len(), b.Len())
		}
		keys := a.MapKeys()
		sort.Slice(keys, func(i, j int) bool { return fmt.Sprint(keys[i].Interface()) < fmt.Sprint(keys[j].Interface()) })
		for _, k := range keys {
			bv := b.MapIndex(k)
			if !bv.IsValid() {
				return fmt.Sprintf("%s: key %s missing on the right", path, trunc(fmt.Sprint(k.Interface())))
			}
			if d := equal(a.MapIndex(k), bv, fmt.Sprintf("%s[%s]", path, trunc(fmt.Sprint(k.Interface())))); d != "" {
				return d
			}
		}
	case reflect.Pointer:
		if a.IsNil() != b.IsNil() {
			return fmt.Sprintf("%s: nil=%v vs nil=%v", path, a.IsNil(), b.IsNil())
		}
		if !a.IsNil() {
			return equal(a.Elem(), b.Elem(), path+".*")
		}
	case reflect.Struct:
		t := a.Type()
		for i := 0; i < t.NumField(); i++ {
			if !t.Field(i).IsExported() {
				continue
			}
			if d := equal(a.Field(i), b.Field(i), path+"."+t.Field(i).Name); d != "" {
				return d
			}
		}
	default:
		return fmt.Sprintf("%s: unsupported kind %s", path, a.Kind())
	}
	return ""
}

func trunc(s string) string {
	if len(s) > 48 {
		return s[:48] + "…"
	}
	return s
}

// Walk calls f for every sub-value of v whose type is t (used by harnesses to
// find e.g. every types.ImportSpec inside a work package).
func Walk(v reflect.Value, t reflect.Type, f func(reflect.Value)) {
	if !v.IsValid() {
		return
	}
	if v.Type() == t {
		f(v)
	}
	switch v.Kind() {
	case reflect.Array, reflect.Slice:
		if isByteKind(v.Type().Elem()) {
			return
		}
		for i := 0; i < v.Len(); i++ {
			Walk(v.Index(i), t, f)
		}
	case reflect.Map:
		it := v.MapRange()
		for it.Next() {
			Walk(it.Key(), t, f)
			Walk(it.Value(), t, f)
		}
	case reflect.Pointer:
		if !v.IsNil() {
			Walk(v.Elem(), t, f)
		}
	case reflect.Struct:
		for i := 0; i < v.NumField(); i++ {
			if v.Type().Field(i).IsExported() {
				Walk(v.Field(i), t, f)
			}
		}
	}
}
