package typegen

// Per-type overrides: the fixed-length invariants of internal/types/const.go for
// the currently selected parameter mode and the documented domains of the
// hand-written encoders.

import (
	"bytes"
	"reflect"
	"sort"

	"github.com/New-JAMneration/JAM-Protocol/internal/types"
	"pgregory.net/rapid"
)

type overrideFn func(g *gen, t reflect.Type, depth int) *Node

var overrides map[reflect.Type]overrideFn

func typeOf[T any]() reflect.Type { return reflect.TypeOf((*T)(nil)).Elem() }

func fixedLen(n func() int) overrideFn {
	return func(g *gen, t reflect.Type, depth int) *Node {
		return g.sliceOfN(t.Elem(), n(), depth, false)
	}
}

func boundedLen(max func() int) overrideFn {
	return func(g *gen, t reflect.Type, depth int) *Node {
		m := max()
		var n int
		switch genChoice8.Draw(g.rt, "blk") {
		case 0:
			return &Node{K: "nil", V: true}
		case 1:
			n = 0
		case 2:
			n = m
			if m > 64 && genChoice8.Draw(g.rt, "blm") != 0 {
				n = g.opt.MaxLen
			}
		default:
			hi := m
			if hi > g.opt.MaxLen && genChoice4.Draw(g.rt, "blc") != 0 {
				hi = g.opt.MaxLen
			}
			n = rapid.IntRange(0, hi).Draw(g.rt, "bln")
		}
		return g.sliceOfN(t.Elem(), n, depth, true)
	}
}

func init() {
	V := func() int { return types.ValidatorsCount }
	C := func() int { return types.CoresCount }
	E := func() int { return types.EpochLength }
	overrides = map[reflect.Type]overrideFn{
		typeOf[types.ValidatorsData]():          fixedLen(V),
		typeOf[types.ValidatorsStatistics]():    fixedLen(V),
		typeOf[types.CoresStatistics]():         fixedLen(C),
		typeOf[types.AvailabilityAssignments](): fixedLen(C),
		typeOf[types.AuthPools]():               fixedLen(C),
		typeOf[types.AuthQueues]():              fixedLen(C),
		typeOf[types.ServiceIDList]():           fixedLen(C),
		typeOf[types.AuthQueue]():               fixedLen(func() int { return types.AuthQueueSize }),
		typeOf[types.TicketsMark]():             fixedLen(E),
		typeOf[types.ReadyQueue]():              fixedLen(E),
		typeOf[types.AccumulatedQueue]():        fixedLen(E),
		typeOf[types.AuthPool]():                boundedLen(func() int { return types.AuthPoolMaxSize }),
		typeOf[types.BlocksHistory]():           boundedLen(func() int { return types.MaxBlocksHistory }),
		typeOf[types.Ancestry]():                boundedLen(func() int { return types.MaxLookupAge }),
		typeOf[types.TicketsAccumulator]():      boundedLen(E),
		typeOf[types.Bitfield]():                genBitfield,
		typeOf[types.EpochMark]():               genEpochMark,
		typeOf[types.Verdict]():                 genVerdict,
		typeOf[types.TicketsOrKeys]():           genTicketsOrKeys,
		typeOf[types.OperandOrDeferredTransfer](): genOperandOrTransfer,
		typeOf[types.WorkExecResult]():          genWorkExecResult,
		typeOf[types.AccumulatedServiceOutput](): genAccumulatedServiceOutput,
		typeOf[types.Storage]():                 genStorage,
		typeOf[types.WorkReport]():              genWorkReport,
		typeOf[types.BlockInfo]():               genBlockInfo,
		typeOf[types.DisputesRecords]():         genDisputesRecords,
		typeOf[types.LastAccOut]():              genLastAccOut,
		typeOf[types.TimeSlotSet]():             genTimeSlotSet,
	}
}

// Bitfield: one byte per core, each 0 or 1 (Bitfield.GetBit "returns either 1 or 0").
func genBitfield(g *gen, t reflect.Type, depth int) *Node {
	n := types.CoresCount
	b := make([]byte, n)
	switch genChoice4.Draw(g.rt, "bfk") {
	case 0: // all zero
	case 1:
		for i := range b {
			b[i] = 1
		}
	default:
		seed := genUint64.Draw(g.rt, "bfs")
		tmp := make([]byte, n)
		fillStream(tmp, seed)
		for i := range b {
			b[i] = tmp[i] & 1
		}
	}
	return Lit(b)
}

func (g *gen) structWith(t reflect.Type, depth int, field map[string]func() *Node) *Node {
	nd := &Node{K: "st"}
	for i := 0; i < t.NumField(); i++ {
		f := t.Field(i)
		if fn, ok := field[f.Name]; ok {
			nd.C = append(nd.C, fn())
			continue
		}
		if !f.IsExported() {
			nd.C = append(nd.C, &Node{K: "nil"})
			continue
		}
		nd.C = append(nd.C, g.value(f.Type, depth+1))
	}
	return nd
}

func fieldType(t reflect.Type, name string) reflect.Type {
	f, ok := t.FieldByName(name)
	if !ok {
		panic("typegen: " + t.String() + " has no field " + name + " (registry/overrides out of date)")
	}
	return f.Type
}

func genEpochMark(g *gen, t reflect.Type, depth int) *Node {
	return g.structWith(t, depth, map[string]func() *Node{
		"Validators": func() *Node {
			return g.sliceOfN(fieldType(t, "Validators").Elem(), types.ValidatorsCount, depth+1, false)
		},
	})
}

func genVerdict(g *gen, t reflect.Type, depth int) *Node {
	return g.structWith(t, depth, map[string]func() *Node{
		"Votes": func() *Node {
			return g.sliceOfN(fieldType(t, "Votes").Elem(), types.ValidatorsSuperMajority, depth+1, false)
		},
	})
}

func genTicketsOrKeys(g *gen, t reflect.Type, depth int) *Node {
	tickets := genBool.Draw(g.rt, "tok")
	return g.structWith(t, depth, map[string]func() *Node{
		"Tickets": func() *Node {
			if !tickets {
				return &Node{K: "nil"}
			}
			return g.sliceOfN(fieldType(t, "Tickets").Elem(), types.EpochLength, depth+1, false)
		},
		"Keys": func() *Node {
			if tickets {
				return &Node{K: "nil"}
			}
			return g.sliceOfN(fieldType(t, "Keys").Elem(), types.EpochLength, depth+1, false)
		},
	})
}

func genOperandOrTransfer(g *gen, t reflect.Type, depth int) *Node {
	op := genBool.Draw(g.rt, "oot")
	return g.structWith(t, depth, map[string]func() *Node{
		"Operand": func() *Node {
			if !op {
				return &Node{K: "nil"}
			}
			return &Node{K: "p", C: []*Node{g.value(fieldType(t, "Operand").Elem(), depth+1)}}
		},
		"DeferredTransfer": func() *Node {
			if op {
				return &Node{K: "nil"}
			}
			return &Node{K: "p", C: []*Node{g.value(fieldType(t, "DeferredTransfer").Elem(), depth+1)}}
		},
	})
}

// WorkExecResultTypes in discriminator order 0..6.
var WorkExecResultTypes = []string{
	string(types.WorkExecResultOk), types.WorkExecResultOutOfGas, types.WorkExecResultPanic,
	types.WorkExecResultBadExports, types.WorkExecResultReportOversize, types.WorkExecResultBadCode,
	types.WorkExecResultCodeOversize,
}

func genWorkExecResult(g *gen, t reflect.Type, depth int) *Node {
	k := 0
	if genChoice4.Draw(g.rt, "werk") == 0 {
		k = rapid.IntRange(1, 6).Draw(g.rt, "wer")
	}
	return g.structWith(t, depth, map[string]func() *Node{
		"Type": func() *Node { return &Node{K: "s", H: hexOf([]byte(WorkExecResultTypes[k]))} },
		"Data": func() *Node {
			if k != 0 {
				return &Node{K: "nil"}
			}
			return g.byteSliceNode(depth)
		},
	})
}

func genAccumulatedServiceOutput(g *gen, t reflect.Type, depth int) *Node {
	return g.mapNode(t, depth, nil, func() *Node { return &Node{K: "u", U: 1} })
}

// Storage keys are raw service-chosen byte strings (host call write: any
// length, including 0).
func genStorage(g *gen, t reflect.Type, depth int) *Node {
	return g.mapNode(t, depth, func() *Node {
		return g.stringNode(!g.opt.NoEmptyStorageKey && !g.opt.WellFormed)
	}, nil)
}

func genTimeSlotSet(g *gen, t reflect.Type, depth int) *Node {
	if !g.opt.WellFormed {
		return g.generic(t, depth)
	}
	// GP 9.4: up to three ascending timeslots
	n := rapid.IntRange(0, 3).Draw(g.rt, "tss")
	vals := make([]uint64, n)
	for i := range vals {
		vals[i] = uint64(rapid.Uint32().Draw(g.rt, "ts"))
	}
	sort.Slice(vals, func(i, j int) bool { return vals[i] < vals[j] })
	nd := &Node{K: "sl", V: true}
	for _, v := range vals {
		nd.C = append(nd.C, &Node{K: "u", U: v})
	}
	return nd
}

func genWorkReport(g *gen, t reflect.Type, depth int) *Node {
	if !g.opt.WellFormed {
		return g.generic(t, depth)
	}
	return g.structWith(t, depth, map[string]func() *Node{
		"Results": func() *Node {
			n := rapid.IntRange(1, 3).Draw(g.rt, "wrn")
			return g.sliceOfN(fieldType(t, "Results").Elem(), n, depth+1, true)
		},
		"CoreIndex": func() *Node {
			return &Node{K: "u", U: uint64(rapid.IntRange(0, types.CoresCount-1).Draw(g.rt, "wrc"))}
		},
	})
}

func genBlockInfo(g *gen, t reflect.Type, depth int) *Node {
	if !g.opt.WellFormed {
		return g.generic(t, depth)
	}
	return g.structWith(t, depth, map[string]func() *Node{
		"Reported": func() *Node {
			hi := types.CoresCount
			if hi > 3 {
				hi = 3
			}
			n := rapid.IntRange(0, hi).Draw(g.rt, "bir")
			return g.sliceOfN(fieldType(t, "Reported").Elem(), n, depth+1, true)
		},
	})
}

// sortedUnique sorts "sl" children by their built bytes (fixed-size byte
// arrays) and removes duplicates.
func sortedUnique(nd *Node, key func(*Node) []byte) *Node {
	if nd.K != "sl" {
		return nd
	}
	sort.SliceStable(nd.C, func(i, j int) bool { return bytes.Compare(key(nd.C[i]), key(nd.C[j])) < 0 })
	out := nd.C[:0]
	for i, c := range nd.C {
		if i > 0 && bytes.Equal(key(c), key(nd.C[i-1])) {
			continue
		}
		out = append(out, c)
	}
	nd.C = out
	return nd
}

func genDisputesRecords(g *gen, t reflect.Type, depth int) *Node {
	nd := g.generic(t, depth)
	if !g.opt.WellFormed {
		return nd
	}
	for _, c := range nd.C {
		sortedUnique(c, func(n *Node) []byte { return fill(n) })
	}
	return nd
}

func genLastAccOut(g *gen, t reflect.Type, depth int) *Node {
	nd := g.generic(t, depth)
	if !g.opt.WellFormed {
		return nd
	}
	// sorted by service id, one entry per service
	return sortedUnique(nd, func(n *Node) []byte {
		id := n.C[0].U
		return []byte{byte(id >> 24), byte(id >> 16), byte(id >> 8), byte(id)}
	})
}

func hexOf(b []byte) string {
	const hx = "0123456789abcdef"
	out := make([]byte, 2*len(b))
	for i, c := range b {
		out[2*i] = hx[c>>4]
		out[2*i+1] = hx[c&15]
	}
	return string(out)
}
