package typegen

// RefDecode: an independent STRICT reference parser of the wire format (the
// mirror of Layout). It does not build values; it walks the bytes by the type's
// rules and reports the FIRST reason the input is not a canonical encoding
// (truncated, flag/tag/boolean out of range, non-minimal integer, integer too
// wide for its field, dictionary keys not strictly ascending, unused bitfield
// bits, bound exceeded, redundant length mismatch), or how many bytes a
// canonical value occupies.
//
// Harnesses use it to CLASSIFY what is wrong with a mutant (known-finding
// attribution) and for evidence classes. Verdicts stay with oracles that do not
// depend on this file (re-encoding, invalid-by-construction), so an error here
// cannot become a false alarm. Callers should still check that RefDecode accepts
// the unmutated encoding with consumed == len.

import (
	"bytes"
	"fmt"
	"reflect"
	"strings"

	"github.com/New-JAMneration/JAM-Protocol/internal/types"
)

// Reject reasons.
const (
	RTruncated   = "truncated"     // input ends before the value does
	ROptRange    = "opt-range"     // optional flag not 0/1
	RTagRange    = "tag-range"     // variant tag outside its range
	RBoolRange   = "bool-range"    // boolean octet not 0/1
	RNonMinimal  = "non-minimal"   // compact integer not in canonical form
	RCIntWide    = "cint-overflow" // compact integer does not fit the field it is stored in
	RKeyOrder    = "key-order"     // dictionary keys not strictly ascending (includes duplicates)
	RUnusedBits  = "unused-bits"   // bitfield bits above the core count set
	RBound       = "bound"         // more entries than the encoder allows
	RKeyLen      = "storage-keylen" // Storage: the redundant key length disagrees with the key
	RTrailing    = "trailing"      // bytes left over inside a delimited frame
	RCountTooBig = "count-exceeds-input" // a length prefix announces more elements than bytes remain
)

// Reject describes the first deviation.
type Reject struct {
	Reason string
	Off    int    // offset of the offending item
	Path   string // where in the value
	Detail string
	// InBlob: for RTruncated, set when the input ended inside the CONTENT of a
	// length-prefixed byte string after at least one content byte.
	InBlob bool
	// NineByte: for RNonMinimal, the offending form is 0xFF ‖ E_8(x).
	NineByte bool
	// Count/ElemSize: for RCountTooBig, the announced count and the Go size of one element.
	Count    uint64
	ElemSize int
}

func (r *Reject) String() string {
	if r == nil {
		return "accepted"
	}
	return fmt.Sprintf("%s at %d (%s) %s", r.Reason, r.Off, r.Path, r.Detail)
}

// Reader walks the input.
type Reader struct {
	Data []byte
	Pos  int
	Seg  types.HashSegmentMap
	Hook func(r *Reader, t reflect.Type, path string) bool
	// Lax makes the reader follow ONE known defect of the implementation instead
	// of the format, so that a harness can ask "does defect D explain what the
	// implementation consumed?": "workitem" = WorkItem ends after an import-segment
	// count of 0; "storage" = Storage ends at a zero key length; "operand" = Operand reads 8 more
	// bytes after the compact gas limit.
	Lax string
}

// tol: any Lax mode also tolerates everything the implementation is known to
// tolerate (it models the implementation's actual grammar): flags/booleans of any
// value, variant tags >= 2 (nothing decoded), 9-byte integers below 2^56,
// over-wide compact integers, unordered keys, the unchecked redundant key length,
// unused bitfield bits, encoder-only bounds and short reads of byte strings
// (a count larger than the input is still reported: it is what reaches make()). Lax "impl" = only these tolerances.
func (r *Reader) tol() bool { return r.Lax != "" }

// mode is Lax without the "+alloc" option. With "+alloc" a count or byte-string
// length larger than the remaining input is still reported although the
// implementation goes on (to an EOF error or a short read): the announced size is
// what it passes to make().
func (r *Reader) mode() string { return strings.TrimSuffix(r.Lax, "+alloc") }

type rejectPanic struct{ r *Reject }

func (r *Reader) fail(reason, path, detail string, off int) {
	panic(rejectPanic{&Reject{Reason: reason, Off: off, Path: path, Detail: detail}})
}

// Need makes sure n more bytes exist.
func (r *Reader) Need(n int, path string) {
	if n < 0 || r.Pos+n > len(r.Data) {
		r.fail(RTruncated, path, fmt.Sprintf("need %d bytes, %d remain", n, len(r.Data)-r.Pos), r.Pos)
	}
}

// Take consumes n bytes.
func (r *Reader) Take(n int, path string) []byte {
	r.Need(n, path)
	b := r.Data[r.Pos : r.Pos+n]
	r.Pos += n
	return b
}

// CompactInt reads a canonical GP C.6 natural.
func (r *Reader) CompactInt(path string) uint64 {
	start := r.Pos
	p := r.Take(1, path)[0]
	l := 0
	for l < 8 && p&(0x80>>uint(l)) != 0 {
		l++
	}
	rest := r.Take(l, path)
	var x uint64
	for i := 0; i < l; i++ {
		x |= uint64(rest[i]) << (8 * uint(i))
	}
	if l < 8 {
		x |= uint64(p&(0xFF>>uint(l+1))) << (8 * uint(l))
	}
	if !bytes.Equal(Compact(x), r.Data[start:r.Pos]) && !(r.tol() && l == 8) {
		rej := &Reject{Reason: RNonMinimal, Off: start, Path: path, Detail: fmt.Sprintf("%x encodes %d", r.Data[start:r.Pos], x), NineByte: l == 8}
		panic(rejectPanic{rej})
	}
	return x
}

// Count reads a length prefix and checks it against the remaining input.
func (r *Reader) Count(path string, elemMin, elemSize int) int {
	off := r.Pos
	n := r.CompactInt(path)
	remain := uint64(len(r.Data) - r.Pos)
	if r.tol() && !strings.HasSuffix(r.Lax, "+alloc") {
		if n > 1<<24 {
			n = 1 << 24 // the element loop ends at the first missing byte anyway
		}
		return int(n)
	}
	if elemMin > 0 && (n > remain || n*uint64(elemMin) > remain) {
		panic(rejectPanic{&Reject{Reason: RCountTooBig, Off: off, Path: path,
			Detail: fmt.Sprintf("count %d x >=%d bytes, %d remain", n, elemMin, remain), Count: n, ElemSize: elemSize}})
	}
	if elemMin == 0 && n > 1<<24 {
		panic(rejectPanic{&Reject{Reason: RCountTooBig, Off: off, Path: path, Detail: fmt.Sprintf("count %d of zero-size elements", n), Count: n, ElemSize: elemSize}})
	}
	return int(n)
}

// Blob reads a length-prefixed byte string.
func (r *Reader) Blob(path string) []byte {
	off := r.Pos
	n := r.CompactInt(path)
	remain := len(r.Data) - r.Pos
	if n > uint64(remain) && r.tol() && !strings.HasSuffix(r.Lax, "+alloc") && remain > 0 && n < 1<<26 {
		return r.Take(remain, path) // short read accepted by the implementation
	}
	if n > uint64(remain) {
		rej := &Reject{Reason: RCountTooBig, Off: off, Path: path, Detail: fmt.Sprintf("byte string of %d, %d remain", n, remain),
			InBlob: remain > 0, Count: n, ElemSize: 1}
		panic(rejectPanic{rej})
	}
	return r.Take(int(n), path)
}

func (r *Reader) flag(reason, path string) bool {
	b := r.Take(1, path)[0]
	if b > 1 && !r.tol() {
		r.fail(reason, path, fmt.Sprintf("octet %#x", b), r.Pos-1)
	}
	return b != 0
}

// RefDecode parses one value of type t from data. rej == nil means canonical,
// consumed tells how long the value is.
func RefDecode(t reflect.Type, data []byte, seg types.HashSegmentMap, hook func(r *Reader, t reflect.Type, path string) bool) (consumed int, rej *Reject) {
	return RefDecodeLax(t, data, seg, hook, "")
}

// RefDecodeLax is RefDecode following one known implementation defect (see Reader.Lax).
func RefDecodeLax(t reflect.Type, data []byte, seg types.HashSegmentMap, hook func(r *Reader, t reflect.Type, path string) bool, lax string) (consumed int, rej *Reject) {
	r := &Reader{Data: data, Seg: seg, Hook: hook, Lax: lax}
	defer func() {
		if p := recover(); p != nil {
			if rp, ok := p.(rejectPanic); ok {
				consumed, rej = r.Pos, rp.r
				return
			}
			panic(p)
		}
	}()
	r.Value(t, "")
	return r.Pos, nil
}

func (r *Reader) cintFields(t reflect.Type, path string) {
	for i := 0; i < t.NumField(); i++ {
		off := r.Pos
		p := path + "." + t.Field(i).Name
		x := r.CompactInt(p)
		bits := t.Field(i).Type.Bits()
		if bits < 64 && x >= uint64(1)<<uint(bits) && !r.tol() {
			r.fail(RCIntWide, p, fmt.Sprintf("%d does not fit %d bits", x, bits), off)
		}
	}
}

func (r *Reader) seqN(elem reflect.Type, n int, path string) {
	for i := 0; i < n; i++ {
		r.Value(elem, fmt.Sprintf("%s[%d]", path, i))
	}
}

func fixedCount(t reflect.Type) int {
	switch t {
	case typeOf[types.ValidatorsData](), typeOf[types.ValidatorsStatistics]():
		return types.ValidatorsCount
	case typeOf[types.CoresStatistics](), typeOf[types.AvailabilityAssignments](), typeOf[types.AuthPools](),
		typeOf[types.AuthQueues](), typeOf[types.ServiceIDList]():
		return types.CoresCount
	case typeOf[types.AuthQueue]():
		return types.AuthQueueSize
	case typeOf[types.TicketsMark](), typeOf[types.ReadyQueue](), typeOf[types.AccumulatedQueue]():
		return types.EpochLength
	}
	return -1
}

// Value parses one value of type t.
func (r *Reader) Value(t reflect.Type, path string) {
	if r.Hook != nil && r.Hook(r, t, path) {
		return
	}
	switch t {
	case tTicketAttempt:
		r.CompactInt(path)
		return
	case tRefineLoad, tCoreActivity, tServiceActivity:
		r.cintFields(t, path)
		return
	case tWorkReport:
		r.Value(fieldType(t, "PackageSpec"), path+".PackageSpec")
		r.Value(fieldType(t, "Context"), path+".Context")
		off := r.Pos
		if x := r.CompactInt(path + ".CoreIndex"); x >= 1<<16 && !r.tol() {
			r.fail(RCIntWide, path+".CoreIndex", fmt.Sprintf("%d does not fit 16 bits", x), off)
		}
		r.Take(32, path+".AuthorizerHash")
		r.CompactInt(path + ".AuthGasUsed")
		r.Blob(path + ".AuthOutput")
		r.Value(fieldType(t, "SegmentRootLookup"), path+".SegmentRootLookup")
		r.Value(fieldType(t, "Results"), path+".Results")
		return
	case tOperand:
		r.Take(128, path)
		r.CompactInt(path + ".GasLimit")
		if r.mode() == "operand" {
			r.Take(8, path+".GasLimit#second-read") // the implementation reads the gas limit a second time
		}
		r.Value(tWorkExecResult, path+".Result")
		r.Blob(path + ".AuthOutput")
		return
	case tWorkExecResult:
		b := r.Take(1, path+".Type")[0]
		if b > 6 {
			r.fail(RTagRange, path+".Type", fmt.Sprintf("tag %#x", b), r.Pos-1)
		}
		if b == 0 {
			r.Blob(path + ".Data")
		}
		return
	case tTicketsOrKeys:
		b := r.Take(1, path+".tag")[0]
		if b > 1 && r.tol() {
			return
		}
		if b > 1 {
			r.fail(RTagRange, path+".tag", fmt.Sprintf("tag %#x", b), r.Pos-1)
		}
		if b == 0 {
			r.seqN(fieldType(t, "Tickets").Elem(), types.EpochLength, path+".Tickets")
		} else {
			r.seqN(fieldType(t, "Keys").Elem(), types.EpochLength, path+".Keys")
		}
		return
	case tOperandOrXfer:
		b := r.Take(1, path+".tag")[0]
		if b > 1 && r.tol() {
			return
		}
		if b > 1 {
			r.fail(RTagRange, path+".tag", fmt.Sprintf("tag %#x", b), r.Pos-1)
		}
		if b == 0 {
			r.Value(fieldType(t, "Operand").Elem(), path+".Operand")
		} else {
			r.Value(fieldType(t, "DeferredTransfer").Elem(), path+".DeferredTransfer")
		}
		return
	case tBitfield:
		off := r.Pos
		if remain := len(r.Data) - r.Pos; remain > 0 && remain < types.AvailBitfieldBytes {
			// Bitfield.Decode uses Read and ignores the count: a short read is accepted
			if r.tol() {
				r.Take(remain, path)
				return
			}
			panic(rejectPanic{&Reject{Reason: RTruncated, Off: off, Path: path, InBlob: true,
				Detail: fmt.Sprintf("bitfield of %d octets, %d remain", types.AvailBitfieldBytes, remain)}})
		}
		b := r.Take(types.AvailBitfieldBytes, path)
		for i := types.CoresCount; i < 8*len(b); i++ {
			if b[i/8]&(1<<uint(i%8)) != 0 && !r.tol() {
				r.fail(RUnusedBits, path, fmt.Sprintf("bit %d set, %d cores", i, types.CoresCount), off+i/8)
			}
		}
		return
	case typeOf[types.WorkItem]():
		for i := 0; i < t.NumField(); i++ {
			name := t.Field(i).Name
			if name == "ImportSegments" && r.mode() == "workitem" {
				save := r.Pos
				if r.CompactInt(path+"."+name) == 0 {
					return // the implementation returns here
				}
				r.Pos = save
			}
			r.Value(t.Field(i).Type, path+"."+name)
		}
		return
	case tStorage:
		n := r.Count(path, 3, 40)
		var prev []byte
		for i := 0; i < n; i++ {
			p := fmt.Sprintf("%s[%d]", path, i)
			off := r.Pos
			kl := r.CompactInt(p + ".keylen")
			if kl == 0 && r.mode() == "storage" {
				return // the implementation returns here
			}
			koff := r.Pos
			k := r.Blob(p + ".key")
			if uint64(len(k)) != kl && !r.tol() {
				r.fail(RKeyLen, p+".keylen", fmt.Sprintf("announces %d, key has %d bytes", kl, len(k)), off)
			}
			if i > 0 && bytes.Compare(prev, k) >= 0 && !r.tol() {
				r.fail(RKeyOrder, p+".key", "not strictly ascending", koff)
			}
			prev = k
			r.Blob(p + ".value")
		}
		return
	case tMetaCode:
		r.Blob(path + ".Metadata")
		r.Pos = len(r.Data) // the code is the rest of the input
		return
	case tImportSpec:
		r.Take(34, path)
		return
	case tState:
		for i := 0; i < t.NumField(); i++ {
			if t.Field(i).Name == "Theta" {
				continue
			}
			r.Value(t.Field(i).Type, path+"."+t.Field(i).Name)
		}
		return
	case tEpochMark:
		r.Take(64, path)
		r.seqN(fieldType(t, "Validators").Elem(), types.ValidatorsCount, path+".Validators")
		return
	case tVerdict:
		r.Take(36, path)
		r.seqN(fieldType(t, "Votes").Elem(), types.ValidatorsSuperMajority, path+".Votes")
		return
	}
	switch t.Kind() {
	case reflect.Bool:
		r.flag(RBoolRange, path)
	case reflect.Uint8, reflect.Uint16, reflect.Uint32, reflect.Uint64, reflect.Uint,
		reflect.Int8, reflect.Int16, reflect.Int32, reflect.Int64, reflect.Int:
		r.Take(minSize(t), path)
	case reflect.String:
		r.Blob(path)
	case reflect.Array:
		if isByteKind(t.Elem()) {
			r.Take(t.Len(), path)
			return
		}
		r.seqN(t.Elem(), t.Len(), path)
	case reflect.Slice:
		if isByteKind(t.Elem()) {
			r.Blob(path)
			return
		}
		if n := fixedCount(t); n >= 0 {
			r.seqN(t.Elem(), n, path)
			return
		}
		off := r.Pos
		n := r.Count(path, minSize(t.Elem()), int(t.Elem().Size()))
		switch t {
		case typeOf[types.AuthPool]():
			if n > types.AuthPoolMaxSize && !r.tol() {
				r.fail(RBound, path, fmt.Sprintf("%d entries, at most %d", n, types.AuthPoolMaxSize), off)
			}
		case typeOf[types.BlocksHistory]():
			if n > types.MaxBlocksHistory && !r.tol() {
				r.fail(RBound, path, fmt.Sprintf("%d entries, at most %d", n, types.MaxBlocksHistory), off)
			}
		case typeOf[types.Ancestry]():
			if n > types.MaxLookupAge {
				r.fail(RBound, path, fmt.Sprintf("%d entries, at most %d", n, types.MaxLookupAge), off)
			}
		}
		r.seqN(t.Elem(), n, path)
	case reflect.Map:
		r.mapValue(t, path)
	case reflect.Pointer:
		if r.flag(ROptRange, path) {
			r.Value(t.Elem(), path)
		}
	case reflect.Struct:
		for i := 0; i < t.NumField(); i++ {
			if t.Field(i).IsExported() {
				r.Value(t.Field(i).Type, path+"."+t.Field(i).Name)
			}
		}
	default:
		panic(fmt.Sprintf("refdec: no rule for kind %s", t.Kind()))
	}
}

func (r *Reader) mapValue(t reflect.Type, path string) {
	kmin := minSize(t.Key())
	vmin := minSize(t.Elem())
	if t == tAccOutput {
		vmin = 0
	}
	n := r.Count(path, kmin+vmin, int(t.Key().Size()+t.Elem().Size()))
	numeric := false
	switch t.Key().Kind() {
	case reflect.Uint8, reflect.Uint16, reflect.Uint32, reflect.Uint64:
		numeric = true
	}
	var prev []byte
	for i := 0; i < n; i++ {
		p := fmt.Sprintf("%s[%d]", path, i)
		koff := r.Pos
		r.Value(t.Key(), p+".key")
		k := r.Data[koff:r.Pos]
		if i > 0 {
			less := false
			switch {
			case numeric:
				less = leUint(prev) < leUint(k)
			case t == tAccOutput:
				// service id (numeric), then hash
				if a, b := leUint(prev[:4]), leUint(k[:4]); a != b {
					less = a < b
				} else {
					less = bytes.Compare(prev[4:], k[4:]) < 0
				}
			case t.Key() == typeOf[types.LookupMetaMapkey]():
				if c := bytes.Compare(prev[:32], k[:32]); c != 0 {
					less = c < 0
				} else {
					less = leUint(prev[32:]) < leUint(k[32:])
				}
			default:
				less = bytes.Compare(prev, k) < 0
			}
			if !less && !r.tol() {
				r.fail(RKeyOrder, p+".key", "not strictly ascending", koff)
			}
		}
		prev = k
		if t != tAccOutput {
			r.Value(t.Elem(), p)
		}
	}
}

func leUint(b []byte) uint64 {
	var x uint64
	for i := len(b) - 1; i >= 0; i-- {
		x = x<<8 | uint64(b[i])
	}
	return x
}
