package typegen

// GenState: a well-formed full state for the currently selected parameter mode.
//
// "Well-formed" means here:
//   - all 16 chapter components are present with the lengths const.go fixes
//     (alpha/varphi/rho/pi_C = CoresCount, iota/kappa/lambda/gamma_k/pi_V/pi_L =
//     ValidatorsCount, vartheta/xi = EpochLength, varphi[c] = AuthQueueSize,
//     alpha[c] <= AuthPoolMaxSize, beta <= MaxBlocksHistory, gamma_a <=
//     EpochLength, gamma_s one arm of EpochLength entries);
//   - work reports (rho, vartheta) have 1..3 results and a core index < CoresCount;
//   - psi sets and theta are sorted and duplicate free;
//   - delta holds 0..8 services with distinct ids. Each service has 0..4 storage
//     entries (raw keys of 1..40 bytes, values 0..129 bytes), 0..3 preimages
//     stored under h = Blake2b-256(blob), and lookup entries of three sorts:
//     (h,|blob|) for a stored preimage ("matching"), (h,l) for a requested but
//     not supplied preimage (no blob), each with 0..3 ascending timeslots. Every
//     stored preimage has its matching lookup entry (GP 9.6). ServiceInfo.Items
//     = 2·|a_l| + |a_s| and ServiceInfo.Bytes = Σ(81+z) + Σ(34+|k|+|v|) (GP 9.8);
//     CodeHash is the hash of one of the stored preimages when there is one and
//     the drawn flag says so.
//
// GenStateNode returns the recipe (keep it in the harness input for replay),
// BuildState turns it into the value, GenState does both.

import (
	"reflect"

	"github.com/New-JAMneration/JAM-Protocol/internal/types"
	"golang.org/x/crypto/blake2b"
	"pgregory.net/rapid"
)

// GenState draws a well-formed state.
func GenState(rt *rapid.T) types.State { return BuildState(GenStateNode(rt)) }

// BuildState materialises a recipe drawn by GenStateNode.
func BuildState(n *Node) types.State {
	var s types.State
	BuildInto(&s, n, 0)
	return s
}

// GenStateNode draws the recipe of a well-formed state.
func GenStateNode(rt *rapid.T) *Node {
	g := &gen{rt: rt, opt: Options{WellFormed: true, MaxLen: 3, NoEmptyStorageKey: true}}
	t := typeOf[types.State]()
	return g.structWith(t, 0, map[string]func() *Node{
		"Delta": func() *Node { return g.delta() },
	})
}

func (g *gen) delta() *Node {
	n := rapid.IntRange(0, 8).Draw(g.rt, "nsvc")
	nd := &Node{K: "m", V: true}
	seen := map[uint64]bool{}
	for i := 0; i < n; i++ {
		var id uint64
		switch genChoice4.Draw(g.rt, "sidk") {
		case 0:
			id = uint64(rapid.IntRange(0, 300).Draw(g.rt, "sid"))
		case 1:
			id = uint64(types.MinimumServiceIndex) + uint64(rapid.IntRange(0, 300).Draw(g.rt, "sid"))
		default:
			id = uint64(rapid.Uint32().Draw(g.rt, "sid"))
		}
		if seen[id] {
			continue
		}
		seen[id] = true
		nd.C = append(nd.C, &Node{K: "u", U: id}, g.serviceAccount())
	}
	return nd
}

func (g *gen) serviceAccount() *Node {
	// storage
	storage := &Node{K: "m", V: true}
	var items, octets uint64
	nst := rapid.IntRange(0, 4).Draw(g.rt, "nst")
	seenK := map[string]bool{}
	for i := 0; i < nst; i++ {
		kl := rapid.SampledFrom([]int{1, 2, 4, 8, 31, 32, 33, 40}).Draw(g.rt, "skl")
		kn := g.bytesNode(kl)
		kb := fill(kn)
		if seenK[string(kb)] {
			continue
		}
		seenK[string(kb)] = true
		vl := rapid.SampledFrom([]int{0, 1, 4, 31, 32, 33, 64, 129}).Draw(g.rt, "svl")
		vn := g.bytesNode(vl)
		vn.V = true
		storage.C = append(storage.C, &Node{K: "s", H: hexOf(kb)}, vn)
		items++
		octets += 34 + uint64(kl) + uint64(vl)
	}
	// preimages + lookups
	preimages := &Node{K: "m", V: true}
	lookups := &Node{K: "m", V: true}
	seenL := map[string]bool{}
	var hashes [][]byte
	npre := rapid.IntRange(0, 3).Draw(g.rt, "npre")
	for i := 0; i < npre; i++ {
		bl := rapid.SampledFrom([]int{0, 1, 5, 32, 33, 100, 300}).Draw(g.rt, "pbl")
		bn := g.bytesNode(bl)
		blob := fill(bn)
		h := blake2b.Sum256(blob)
		lk := string(h[:]) + string([]byte{byte(bl), byte(bl >> 8), byte(bl >> 16), byte(bl >> 24)})
		if seenL[lk] {
			continue
		}
		seenL[lk] = true
		hashes = append(hashes, h[:])
		lit := Lit(blob)
		lit.V = true
		preimages.C = append(preimages.C, Lit(h[:]), lit)
		lookups.C = append(lookups.C, lookupKey(h[:], uint64(bl)), g.value(typeOf[types.TimeSlotSet](), 3))
		items += 2
		octets += 81 + uint64(bl)
	}
	nreq := rapid.IntRange(0, 2).Draw(g.rt, "nreq")
	for i := 0; i < nreq; i++ {
		hn := g.bytesNode(32)
		h := fill(hn)
		l := uint64(rapid.SampledFrom([]int{0, 1, 32, 1000, 70000}).Draw(g.rt, "rql"))
		lk := string(h) + string([]byte{byte(l), byte(l >> 8), byte(l >> 16), byte(l >> 24)})
		if seenL[lk] {
			continue
		}
		seenL[lk] = true
		lookups.C = append(lookups.C, lookupKey(h, l), g.value(typeOf[types.TimeSlotSet](), 3))
		items += 2
		octets += 81 + l
	}
	useCode := len(hashes) > 0 && genBool.Draw(g.rt, "usecode")
	info := g.structWith(typeOf[types.ServiceInfo](), 2, map[string]func() *Node{
		"Version": func() *Node { return &Node{K: "u", U: uint64(types.ServiceInfoVersion)} },
		"Items":   func() *Node { return &Node{K: "u", U: items} },
		"Bytes":   func() *Node { return &Node{K: "u", U: octets} },
		"CodeHash": func() *Node {
			if useCode {
				return Lit(hashes[0])
			}
			return g.bytesNode(32)
		},
	})
	t := typeOf[types.ServiceAccount]()
	return g.structWith(t, 1, map[string]func() *Node{
		"ServiceInfo":    func() *Node { return info },
		"PreimageLookup": func() *Node { return preimages },
		"LookupDict":     func() *Node { return lookups },
		"StorageDict":    func() *Node { return storage },
	})
}

func lookupKey(h []byte, l uint64) *Node {
	t := typeOf[types.LookupMetaMapkey]()
	nd := &Node{K: "st"}
	for i := 0; i < t.NumField(); i++ {
		switch t.Field(i).Name {
		case "Hash":
			nd.C = append(nd.C, Lit(h))
		case "Length":
			nd.C = append(nd.C, &Node{K: "u", U: l})
		default:
			nd.C = append(nd.C, &Node{K: "nil"})
		}
	}
	return nd
}

var _ = reflect.TypeOf
