package database_test

// C27: the memory, pebble and redis(miniredis) providers implement ONE ordered
// key-value semantics.
//
// The harness lives in internal/database as an *external* test package so that
// all three providers can be imported without an import cycle (they import
// internal/database; nothing imports them back).
//
// A case is an operation history given as DATA (c27Input, hex strings), so a
// saved case replays from JSON without rapid. Oracle: a sorted map written
// here. After every call the harness overwrites ("scribbles") the buffers it
// passed; returned Get slices are either scribbled at once or held and
// re-compared at the end of the history.

import (
	"bytes"
	"encoding/hex"
	"fmt"
	"os"
	"regexp"
	"sort"
	"strings"
	"sync"
	"testing"

	"github.com/New-JAMneration/JAM-Protocol/internal/database"
	"github.com/New-JAMneration/JAM-Protocol/internal/database/provider/memory"
	pebbledb "github.com/New-JAMneration/JAM-Protocol/internal/database/provider/pebble"
	redisdb "github.com/New-JAMneration/JAM-Protocol/internal/database/provider/redis"
	kit "github.com/New-JAMneration/JAM-Protocol/internal/verifkit"
	"github.com/alicebob/miniredis/v2"
	"pgregory.net/rapid"
)

// ---------------------------------------------------------------- input (data)

type c27BOp struct {
	Del bool   `json:"del,omitempty"`
	K   string `json:"k"` // hex
	V   string `json:"v,omitempty"`
}

type c27Op struct {
	Kind string `json:"kind"` // put | del | get | has | batch | iter
	K    string `json:"k,omitempty"`
	V    string `json:"v,omitempty"`
	// batch
	Ops    []c27BOp `json:"ops,omitempty"`
	Commit bool     `json:"commit,omitempty"`
	// get: scribble the returned slice at once (otherwise it is held and
	// re-compared at the end). batch: scribble the key/value buffers right
	// after each batch.Put/Delete, i.e. BEFORE Commit (otherwise after it).
	Scribble bool `json:"scribble,omitempty"`
	// iter
	Prefix string `json:"prefix,omitempty"`
	Start  string `json:"start,omitempty"`
	// fill: N keys K‖be16(j), j < N, are put one by one (ranges of more than a hundred keys)
	N int `json:"n,omitempty"`
}

func c27FillKey(prefix []byte, j int) []byte {
	return append(append([]byte(nil), prefix...), byte(j>>8), byte(j))
}

func c27FillVal(j int) []byte { return []byte{byte(j), byte(j >> 8), 0x5A} }

type c27Input struct {
	Ops []c27Op `json:"ops"`
}

func c27Hex(b []byte) string { return hex.EncodeToString(b) }

func c27Un(s string) []byte {
	b, err := hex.DecodeString(s)
	if err != nil {
		return nil
	}
	return b
}

// ---------------------------------------------------------------- generator


func c27GenByte(rt *rapid.T) byte {
	// bias towards 'a','b' so that keys collide and share prefixes
	return rapid.SampledFrom([]byte{0x00, 'a', 'a', 'a', 'b', 'b', 'b', '*', '?', '[', '\\', 0xFF}).Draw(rt, "byte")
}

func c27GenRaw(rt *rapid.T, maxLen int) []byte {
	n := rapid.SampledFrom([]int{0, 1, 1, 2, 2, 2, 3, 3, 3, 4, 4}).Draw(rt, "len")
	if n > maxLen {
		n = maxLen
	}
	b := make([]byte, n)
	for i := range b {
		b[i] = c27GenByte(rt)
	}
	return b
}

// c27GenKey draws a key of length 0..4, half of the time derived from a key
// used earlier in the history (same / extended / truncated / last byte changed).
func c27GenKey(rt *rapid.T, pool *[][]byte) []byte {
	var k []byte
	if len(*pool) > 0 && rapid.IntRange(0, 1).Draw(rt, "fromPool") == 1 {
		base := (*pool)[rapid.IntRange(0, len(*pool)-1).Draw(rt, "poolIdx")]
		k = append([]byte(nil), base...)
		switch rapid.IntRange(0, 3).Draw(rt, "derive") {
		case 0: // same
		case 1:
			if len(k) < 4 {
				k = append(k, c27GenByte(rt))
			}
		case 2:
			if len(k) > 0 {
				k = k[:len(k)-1]
			}
		case 3:
			if len(k) > 0 {
				k[len(k)-1] = c27GenByte(rt)
			}
		}
	} else {
		k = c27GenRaw(rt, 4)
	}
	*pool = append(*pool, append([]byte(nil), k...))
	return k
}

func c27GenVal(rt *rapid.T) []byte {
	n := rapid.SampledFrom([]int{0, 0, 1, 1, 2, 3, 5, 8}).Draw(rt, "vlen")
	return rapid.SliceOfN(rapid.Byte(), n, n).Draw(rt, "val")
}

func c27GenIter(rt *rapid.T, pool [][]byte) (prefix, start []byte) {
	var base []byte
	if len(pool) > 0 && rapid.IntRange(0, 7).Draw(rt, "iterFromPool") != 0 {
		base = append([]byte(nil), pool[rapid.IntRange(0, len(pool)-1).Draw(rt, "iterBase")]...)
	} else {
		base = c27GenRaw(rt, 4)
	}
	p := rapid.IntRange(0, len(base)).Draw(rt, "split")
	if rapid.IntRange(0, 2).Draw(rt, "shortPrefix") == 0 && p > 1 {
		p = 1
	}
	prefix = append([]byte(nil), base[:p]...)
	rest := append([]byte(nil), base[p:]...)
	switch rapid.IntRange(0, 6).Draw(rt, "startKind") {
	case 0: // no start
		start = nil
	case 1: // prefix+start is an existing key
		start = rest
	case 2: // proper prefix of the rest
		if len(rest) > 0 {
			start = rest[:rapid.IntRange(0, len(rest)-1).Draw(rt, "cut")]
		}
	case 3, 4: // last byte replaced: usually NOT a prefix of any key, lies between keys
		if len(rest) > 0 {
			start = rest
			start[len(start)-1] = c27GenByte(rt)
		} else {
			start = []byte{c27GenByte(rt)}
		}
	case 5: // one byte longer than an existing key
		start = append(rest, c27GenByte(rt))
	case 6:
		start = c27GenRaw(rt, 3)
	}
	return prefix, start
}

func c27Gen(rt *rapid.T) c27Input {
	n := rapid.OneOf(rapid.IntRange(1, 12), rapid.IntRange(1, 40)).Draw(rt, "nops")
	var pool [][]byte
	var in c27Input
	for i := 0; i < n; i++ {
		var op c27Op
		w := rapid.IntRange(0, 99).Draw(rt, "kind")
		if len(pool) < 3 && w >= 73 {
			w = 0 // no iteration over a (nearly) empty store: write first
		}
		switch {
		case w < 34:
			op = c27Op{Kind: "put", K: c27Hex(c27GenKey(rt, &pool)), V: c27Hex(c27GenVal(rt))}
		case w < 44:
			op = c27Op{Kind: "del", K: c27Hex(c27GenKey(rt, &pool))}
		case w < 54:
			op = c27Op{Kind: "get", K: c27Hex(c27GenKey(rt, &pool)), Scribble: rapid.Bool().Draw(rt, "scribbleRet")}
		case w < 58:
			op = c27Op{Kind: "has", K: c27Hex(c27GenKey(rt, &pool))}
		case w < 73:
			op = c27Op{Kind: "batch", Commit: rapid.IntRange(0, 2).Draw(rt, "commit") != 0,
				Scribble: rapid.IntRange(0, 2).Draw(rt, "scribbleBeforeCommit") == 0}
			m := rapid.IntRange(0, 5).Draw(rt, "nbatch")
			for j := 0; j < m; j++ {
				if rapid.IntRange(0, 3).Draw(rt, "bdel") == 0 {
					op.Ops = append(op.Ops, c27BOp{Del: true, K: c27Hex(c27GenKey(rt, &pool))})
				} else {
					op.Ops = append(op.Ops, c27BOp{K: c27Hex(c27GenKey(rt, &pool)), V: c27Hex(c27GenVal(rt))})
				}
			}
		case w == 99 || (w == 98 && i == 0):
			p := c27GenRaw(rt, 2)
			op = c27Op{Kind: "fill", K: c27Hex(p), N: rapid.SampledFrom([]int{99, 100, 101, 128, 201, 260}).Draw(rt, "fill_n")}
			pool = append(pool, c27FillKey(p, 0), c27FillKey(p, op.N-1))
		case w < 76 && len(pool) >= 2:
			// close and reopen the store (on-disk providers flush; model unchanged)
			op = c27Op{Kind: "reopen"}
		default:
			p, s := c27GenIter(rt, pool)
			op = c27Op{Kind: "iter", Prefix: c27Hex(p), Start: c27Hex(s)}
		}
		in.Ops = append(in.Ops, op)
	}
	return in
}

// ---------------------------------------------------------------- model

type c27Model map[string][]byte

func (m c27Model) clone() c27Model {
	o := make(c27Model, len(m))
	for k, v := range m {
		o[k] = append([]byte(nil), v...)
	}
	return o
}

func (m c27Model) sortedKeys() []string {
	ks := make([]string, 0, len(m))
	for k := range m {
		ks = append(ks, k)
	}
	sort.Strings(ks) // Go string comparison is bytewise
	return ks
}

func (m c27Model) equal(o c27Model) bool {
	if len(m) != len(o) {
		return false
	}
	for k, v := range m {
		ov, ok := o[k]
		if !ok || !bytes.Equal(v, ov) {
			return false
		}
	}
	return true
}

func (m c27Model) String() string {
	var sb strings.Builder
	sb.WriteString("{")
	for i, k := range m.sortedKeys() {
		if i > 0 {
			sb.WriteString(" ")
		}
		fmt.Fprintf(&sb, "%x=%x", k, m[k])
	}
	sb.WriteString("}")
	return sb.String()
}

type c27KV struct{ k, v []byte }

func c27KVsEqual(a, b []c27KV) bool {
	if len(a) != len(b) {
		return false
	}
	for i := range a {
		if !bytes.Equal(a[i].k, b[i].k) || !bytes.Equal(a[i].v, b[i].v) {
			return false
		}
	}
	return true
}

func c27KVsString(a []c27KV) string {
	var sb strings.Builder
	sb.WriteString("[")
	for i, e := range a {
		if i > 0 {
			sb.WriteString(" ")
		}
		fmt.Fprintf(&sb, "%x=%x", e.k, e.v)
	}
	sb.WriteString("]")
	return sb.String()
}

// c27Expected: exactly the keys with the given prefix at or after prefix||start,
// ascending byte order (the property statement).
func (m c27Model) expectedIter(prefix, start []byte) []c27KV {
	lower := string(prefix) + string(start)
	var out []c27KV
	for _, k := range m.sortedKeys() {
		if strings.HasPrefix(k, string(prefix)) && k >= lower {
			out = append(out, c27KV{[]byte(k), m[k]})
		}
	}
	return out
}

// startAsPrefix is the behaviour of the known finding KF-C27-1/2 (classifier
// only, never the oracle): keys having prefix||start as a prefix.
func (m c27Model) startAsPrefix(prefix, start []byte) []c27KV {
	ps := string(prefix) + string(start)
	var out []c27KV
	for _, k := range m.sortedKeys() {
		if strings.HasPrefix(k, ps) {
			out = append(out, c27KV{[]byte(k), m[k]})
		}
	}
	return out
}

func c27Scribble(b []byte) {
	for i := range b {
		b[i] ^= 0xFF
	}
}

func c27Scribbled(b []byte) []byte {
	o := append([]byte(nil), b...)
	c27Scribble(o)
	return o
}

// ---------------------------------------------------------------- the fake's glob

// c27FakeGlobRE reproduces how miniredis v2.34.0 (keys.go:patternRE) turns a
// SCAN MATCH pattern into a regular expression. It is used for two things only:
// (1) to avoid sending miniredis a pattern on which its regexp.MustCompile
// would panic and kill the test process (a limitation of the fake: invalid
// UTF-8, or an invalid character class); (2) inside the *classifier* of
// KF-C27-3. It is never part of the oracle.
// Returns (nil, nil) when the fake answers "matches nothing".
func c27FakeGlobRE(k string) (*regexp.Regexp, error) {
	var re bytes.Buffer
	re.WriteString(`(?s)^\Q`)
	for i := 0; i < len(k); i++ {
		p := k[i]
		switch p {
		case '*':
			re.WriteString(`\E.*\Q`)
		case '?':
			re.WriteString(`\E.\Q`)
		case '[':
			var cc bytes.Buffer
			i++
			for ; i < len(k); i++ {
				if k[i] == ']' {
					break
				}
				if k[i] == '\\' {
					if i == len(k)-1 {
						return nil, nil
					}
					cc.WriteByte(k[i])
					i++
					cc.WriteByte(k[i])
					continue
				}
				cc.WriteByte(k[i])
			}
			if cc.Len() == 0 {
				return nil, nil
			}
			re.WriteString(`\E[`)
			re.Write(cc.Bytes())
			re.WriteString(`]\Q`)
		case '\\':
			if i == len(k)-1 {
				return nil, nil
			}
			i++
			re.WriteByte(k[i])
			continue
		default:
			re.WriteByte(p)
		}
	}
	re.WriteString(`\E$`)
	return regexp.Compile(re.String())
}

// ---------------------------------------------------------------- providers

type c27Provider struct {
	name string
	open func() (database.Database, error)
}

var (
	c27MrOnce sync.Once
	c27Mr     *miniredis.Miniredis
	c27MrErr  error
)

func c27Providers() []c27Provider {
	return []c27Provider{
		{"memory", func() (database.Database, error) { return memory.NewDatabase(), nil }},
		{"pebble", func() (database.Database, error) { return pebbledb.NewTestDatabase() }},
		{"redis", func() (database.Database, error) {
			// one miniredis server per process, emptied at the start of every case
			c27MrOnce.Do(func() { c27Mr, c27MrErr = miniredis.Run() })
			if c27MrErr != nil {
				return nil, c27MrErr
			}
			c27Mr.FlushAll()
			return redisdb.NewDatabase(c27Mr.Addr(), "", 0), nil
		}},
	}
}

// ---------------------------------------------------------------- check

type c27Held struct {
	ret  []byte // the slice the provider returned
	snap []byte // its content when it was returned
	op   int
}

type c27Run struct {
	c     *kit.Case
	prov  string
	db    database.Database
	model c27Model
	held  []c27Held
	// reopen closes and reopens the same store (nil when the provider has no persistent form here)
	reopen func() (database.Database, error)
}

func (r *c27Run) failf(i int, format string, a ...any) {
	r.c.Failf("[%s] op %d: %s", r.prov, i, fmt.Sprintf(format, a...))
}

// iterate reads a whole iteration, copying key and value at Key()/Value() time;
// the argument buffers are scribbled right after NewIterator returns.
func (r *c27Run) iterate(i int, prefix, start []byte) []c27KV {
	pb, sb := append([]byte(nil), prefix...), append([]byte(nil), start...)
	if len(prefix) == 0 && i%2 == 0 {
		pb = nil
	}
	if len(start) == 0 && i%3 == 0 {
		sb = nil
	}
	it, err := r.db.NewIterator(pb, sb)
	c27Scribble(pb)
	c27Scribble(sb)
	if err != nil {
		r.failf(i, "NewIterator(%x,%x) error: %v", prefix, start, err)
	}
	var out []c27KV
	for n := 0; it.Next(); n++ {
		if n > 10000 {
			r.failf(i, "iterator does not terminate")
		}
		k := append([]byte(nil), it.Key()...)
		rv := it.Value()
		v := append([]byte(nil), rv...)
		out = append(out, c27KV{k, v})
		if i%2 == 1 && len(v) > 0 {
			// the interface keeps Value() valid until the next Next(): a write to the same key in
			// between (same length, other content; undone at once) must not change the held slice
			other := c27Scribbled(v)
			if err := r.db.Put(append([]byte(nil), k...), other); err != nil {
				r.failf(i, "Put during iteration: %v", err)
			}
			changed := !bytes.Equal(rv, v)
			if err := r.db.Put(append([]byte(nil), k...), append([]byte(nil), v...)); err != nil {
				r.failf(i, "Put during iteration: %v", err)
			}
			if changed {
				r.failf(i, "slice returned by iterator Value() for key %x changed when the key was overwritten before the next Next(): was %x", k, v)
			}
		}
	}
	if err := it.Error(); err != nil {
		r.failf(i, "iterator error: %v", err)
	}
	if err := it.Close(); err != nil {
		r.failf(i, "iterator Close error: %v", err)
	}
	return out
}

// observe reads the provider's whole content with the full iteration
// (nil, nil), which none of the known findings affects.
func (r *c27Run) observe(i int) c27Model {
	got := r.iterate(i, nil, nil)
	m := c27Model{}
	for j, e := range got {
		if j > 0 && bytes.Compare(got[j-1].k, e.k) >= 0 {
			r.failf(i, "full iteration not strictly ascending: %s", c27KVsString(got))
		}
		m[string(e.k)] = e.v
	}
	return m
}

// checkReads compares Get/Has on every key of `universe` with the model.
func (r *c27Run) checkReads(i int, universe []string, why string) {
	for _, k := range universe {
		kb := []byte(k)
		v, found, err := r.db.Get(kb)
		c27Scribble(kb)
		if err != nil {
			r.failf(i, "%s: Get(%x) error: %v", why, k, err)
		}
		mv, ok := r.model[k]
		if found != ok || (ok && !bytes.Equal(v, mv)) {
			r.failf(i, "%s: Get(%x) = (%x,%v), ordered-map model has (%x,%v); model=%s", why, k, v, found, mv, ok, r.model)
		}
		kb = []byte(k)
		has, err := r.db.Has(kb)
		c27Scribble(kb)
		if err != nil {
			r.failf(i, "%s: Has(%x) error: %v", why, k, err)
		}
		if has != ok {
			r.failf(i, "%s: Has(%x) = %v, model %v", why, k, has, ok)
		}
	}
}

func c27Check(c *kit.Case, in c27Input) {
	if len(in.Ops) == 0 {
		return
	}
	// universe of keys that may ever be present: every key of the history and
	// its scribbled form (the latter only appears through KF-C27-4).
	uni := map[string]bool{}
	add := func(h string) {
		b := c27Un(h)
		uni[string(b)] = true
		uni[string(c27Scribbled(b))] = true
	}
	for _, op := range in.Ops {
		switch op.Kind {
		case "put", "del", "get", "has":
			add(op.K)
		case "batch":
			for _, b := range op.Ops {
				add(b.K)
			}
		case "fill":
			if op.N > 0 && op.N <= 1000 {
				add(c27Hex(c27FillKey(c27Un(op.K), 0)))
				add(c27Hex(c27FillKey(c27Un(op.K), op.N-1)))
			}
		}
	}
	universe := make([]string, 0, len(uni))
	for k := range uni {
		universe = append(universe, k)
	}
	sort.Strings(universe)

	// classes / non-triviality are a function of the input and the IDEAL model
	c27Classify(c, in)

	hasReopen := false
	for _, op := range in.Ops {
		hasReopen = hasReopen || op.Kind == "reopen"
	}
	for _, p := range c27Providers() {
		var db database.Database
		var err error
		var reopen func() (database.Database, error)
		if p.name == "pebble" && hasReopen {
			// a history that reopens the store runs pebble on disk (in the shard's scratch cwd)
			// (an environment failure to create the scratch directory says nothing about the
			// property: retried, then the history runs on the in-memory store and is counted)
			var dir string
			var derr error
			for try := 0; try < 5; try++ {
				if dir, derr = os.MkdirTemp(".", "c27pebble"); derr == nil {
					break
				}
			}
			if derr != nil {
				c.Class("pebble_scratch_dir_unavailable_ran_in_memory")
				db, err = p.open()
			} else {
				defer os.RemoveAll(dir)
				db, err = pebbledb.NewDatabase(dir, false)
				reopen = func() (database.Database, error) { return pebbledb.NewDatabase(dir, false) }
			}
		} else {
			db, err = p.open()
		}
		if err != nil {
			c.Failf("[%s] cannot open provider: %v", p.name, err)
		}
		r := &c27Run{c: c, prov: p.name, db: db, model: c27Model{}, reopen: reopen}
		func() {
			defer func() { r.db.Close() }()
			for i, op := range in.Ops {
				r.step(i, op, universe)
			}
			last := len(in.Ops)
			// end of history: whole content, all reads, held Get results
			if obs := r.observe(last); !obs.equal(r.model) {
				r.failf(last, "final content %s differs from the ordered-map model %s", obs, r.model)
			}
			r.checkReads(last, universe, "final")
			for _, h := range r.held {
				if !bytes.Equal(h.ret, h.snap) {
					r.failf(last, "slice returned by Get at op %d changed afterwards: was %x now %x", h.op, h.snap, h.ret)
				}
			}
		}()
	}
}

func (r *c27Run) step(i int, op c27Op, universe []string) {
	switch op.Kind {
	case "fill":
		if op.N <= 0 || op.N > 1000 {
			return
		}
		p := c27Un(op.K)
		for j := 0; j < op.N; j++ {
			k, v := c27FillKey(p, j), c27FillVal(j)
			if err := r.db.Put(append([]byte(nil), k...), append([]byte(nil), v...)); err != nil {
				r.failf(i, "Put(%x,%x) error: %v", k, v, err)
			}
			r.model[string(k)] = v
		}
	case "put":
		k, v := c27Un(op.K), c27Un(op.V)
		kb, vb := append([]byte(nil), k...), append([]byte(nil), v...)
		err := r.db.Put(kb, vb)
		c27Scribble(kb)
		c27Scribble(vb)
		if err != nil {
			r.failf(i, "Put(%x,%x) error: %v", k, v, err)
		}
		r.model[string(k)] = v
		r.checkReads(i, []string{string(k)}, "after Put")
	case "del":
		k := c27Un(op.K)
		kb := append([]byte(nil), k...)
		err := r.db.Delete(kb)
		c27Scribble(kb)
		if err != nil {
			r.failf(i, "Delete(%x) error: %v", k, err)
		}
		delete(r.model, string(k))
		r.checkReads(i, []string{string(k)}, "after Delete")
	case "has":
		r.checkReads(i, []string{string(c27Un(op.K))}, "Has")
	case "get":
		k := c27Un(op.K)
		kb := append([]byte(nil), k...)
		v, found, err := r.db.Get(kb)
		c27Scribble(kb)
		if err != nil {
			r.failf(i, "Get(%x) error: %v", k, err)
		}
		mv, ok := r.model[string(k)]
		if found != ok || (ok && !bytes.Equal(v, mv)) {
			r.failf(i, "Get(%x) = (%x,%v), model (%x,%v)", k, v, found, mv, ok)
		}
		if found {
			if op.Scribble {
				// caller mutation of a returned slice must not reach the store
				c27Scribble(v)
				r.checkReads(i, []string{string(k)}, "after scribbling the slice returned by Get")
			} else {
				r.held = append(r.held, c27Held{ret: v, snap: append([]byte(nil), v...), op: i})
			}
		}
	case "batch":
		r.batch(i, op, universe)
	case "iter":
		r.iter(i, op)
	case "reopen":
		if r.reopen != nil {
			if err := r.db.Close(); err != nil {
				r.failf(i, "Close before reopen: %v", err)
			}
			db, err := r.reopen()
			if err != nil {
				r.failf(i, "reopen: %v", err)
			}
			r.db = db
			r.c.Class("pebble_reopened")
			if obs := r.observe(i); !obs.equal(r.model) {
				r.failf(i, "content after close+reopen %s differs from the ordered-map model %s", obs, r.model)
			}
		}
	}
}

func c27Apply(m c27Model, ops []c27BOp, aliasKey, aliasVal bool) c27Model {
	o := m.clone()
	for _, b := range ops {
		k, v := c27Un(b.K), c27Un(b.V)
		if aliasKey {
			k = c27Scribbled(k)
		}
		if aliasVal {
			v = c27Scribbled(v)
		}
		if b.Del {
			delete(o, string(k))
		} else {
			o[string(k)] = v
		}
	}
	return o
}

func (r *c27Run) batch(i int, op c27Op, universe []string) {
	b := r.db.NewBatch()
	type bufs struct{ k, v []byte }
	var passed []bufs
	for _, bo := range op.Ops {
		kb, vb := c27Un(bo.K), c27Un(bo.V)
		var err error
		if bo.Del {
			err = b.Delete(kb)
		} else {
			err = b.Put(kb, vb)
		}
		if err != nil {
			r.failf(i, "batch write error: %v", err)
		}
		if op.Scribble {
			c27Scribble(kb)
			c27Scribble(vb)
		}
		passed = append(passed, bufs{kb, vb})
	}
	// buffered writes must not be visible before Commit
	if obs := r.observe(i); !obs.equal(r.model) {
		r.failf(i, "uncommitted batch is visible: content %s, model %s", obs, r.model)
	}
	if op.Commit {
		if err := b.Commit(); err != nil {
			r.failf(i, "batch Commit error: %v", err)
		}
	}
	_ = b.Close() // repository usage: `defer batch.Close()` around Commit
	if !op.Scribble {
		for _, p := range passed {
			c27Scribble(p.k)
			c27Scribble(p.v)
		}
	}
	obs := r.observe(i)
	if !op.Commit {
		if !obs.equal(r.model) {
			r.failf(i, "discarded batch had an effect: content %s, model %s", obs, r.model)
		}
		r.checkReads(i, universe, "after discarded batch")
		return
	}
	ideal := c27Apply(r.model, op.Ops, false, false)
	switch {
	case obs.equal(ideal):
		r.model = ideal
	case r.prov == "memory" && op.Scribble && obs.equal(c27Apply(r.model, op.Ops, true, false)):
		// KF-C27-4: memory batch keeps the caller's key slice until Commit; the
		// content is exactly what results from using the scribbled key bytes.
		r.c.KnownNote("KF-C27-4", fmt.Sprintf("memory batch: key buffer mutated between batch write and Commit; content %s, ordered-map model %s", obs, ideal))
		r.model = c27Apply(r.model, op.Ops, true, false)
	case r.prov == "redis" && op.Scribble && obs.equal(c27Apply(r.model, op.Ops, false, true)):
		// KF-C27-5: redis batch keeps the caller's value slice in the pipeline
		// until Exec; the content is exactly what the scribbled value bytes give.
		r.c.KnownNote("KF-C27-5", fmt.Sprintf("redis batch: value buffer mutated between batch.Put and Commit; content %s, ordered-map model %s", obs, ideal))
		r.model = c27Apply(r.model, op.Ops, false, true)
	default:
		r.failf(i, "committed batch (scribbleBeforeCommit=%v): content %s, ordered-map model %s", op.Scribble, obs, ideal)
	}
	r.checkReads(i, universe, "after committed batch")
}

func (r *c27Run) iter(i int, op c27Op) {
	prefix, start := c27Un(op.Prefix), c27Un(op.Start)
	ps := string(prefix) + string(start)
	var fakeRE *regexp.Regexp
	if r.prov == "redis" {
		// Limitation of the miniredis fake, not of the code under test: its
		// glob->regexp translation panics (regexp.MustCompile in the server
		// goroutine, killing the process) on invalid UTF-8 and on invalid
		// character classes. Such iterations are not run against redis.
		re, err := c27FakeGlobRE(ps + "*")
		if err != nil {
			return
		}
		fakeRE = re
	}
	exp := r.model.expectedIter(prefix, start)
	got := r.iterate(i, prefix, start)
	if c27KVsEqual(got, exp) {
		return
	}
	sap := r.model.startAsPrefix(prefix, start)
	detail := fmt.Sprintf("NewIterator(prefix=%x,start=%x) over %s yields %s; ordered-map semantics (prefix ⊑ k ∧ k ≥ prefix‖start, ascending) gives %s",
		prefix, start, r.model, c27KVsString(got), c27KVsString(exp))
	switch r.prov {
	case "memory":
		if len(start) > 0 && c27KVsEqual(got, sap) {
			r.c.KnownNote("KF-C27-1", detail)
			return
		}
	case "redis":
		if len(start) > 0 && c27KVsEqual(got, sap) {
			r.c.KnownNote("KF-C27-2", detail)
			return
		}
		if strings.ContainsAny(ps, "[\\") {
			// what the unescaped pattern prefix||start||"*" selects out of the
			// start-as-prefix set under the fake's glob rules
			var globbed []c27KV
			for _, e := range sap {
				if fakeRE != nil && fakeRE.MatchString(string(e.k)) {
					globbed = append(globbed, e)
				}
			}
			if c27KVsEqual(got, globbed) {
				r.c.KnownNote("KF-C27-3", detail)
				if len(start) > 0 && !c27KVsEqual(sap, exp) {
					r.c.KnownNote("KF-C27-2", detail)
				}
				return
			}
		}
	}
	r.failf(i, "%s", detail)
}

// c27Classify records the distribution of the generated histories and applies
// the non-trivial rule: an iteration whose result under "start is a lower
// bound" differs from "start is a prefix" on the ideal model at that point (a
// present key with the prefix lies above prefix||start without extending it),
// or a committed batch whose non-empty key buffer is scribbled before Commit.
func c27Classify(c *kit.Case, in c27Input) {
	m := c27Model{}
	nt := false
	seen := map[string]bool{}
	cl := func(s string) {
		if !seen[s] {
			seen[s] = true
			c.Class(s)
		}
	}
	for _, op := range in.Ops {
		switch op.Kind {
		case "fill":
			if op.N > 0 && op.N <= 1000 {
				for j := 0; j < op.N; j++ {
					m[string(c27FillKey(c27Un(op.K), j))] = c27FillVal(j)
				}
				if op.N > 100 {
					cl("fill_more_than_100_keys_under_one_prefix")
				}
			}
		case "put":
			m[string(c27Un(op.K))] = c27Un(op.V)
			if len(op.K) == 0 {
				cl("put_empty_key")
			}
			if len(op.V) == 0 {
				cl("put_empty_value")
			}
		case "del":
			if _, ok := m[string(c27Un(op.K))]; ok {
				cl("delete_present")
			} else {
				cl("delete_absent")
			}
			delete(m, string(c27Un(op.K)))
		case "get", "has":
			if _, ok := m[string(c27Un(op.K))]; ok {
				cl("read_present")
			} else {
				cl("read_absent")
			}
		case "batch":
			if op.Commit {
				cl("batch_commit")
				scr := false
				for _, b := range op.Ops {
					if len(b.K) > 0 {
						scr = true
					}
				}
				if op.Scribble && scr {
					cl("batch_commit_key_scribbled_before_commit")
					nt = true
				}
				m = c27Apply(m, op.Ops, false, false)
			} else if len(op.Ops) > 0 {
				cl("batch_discard_nonempty")
			}
		case "iter":
			prefix, start := c27Un(op.Prefix), c27Un(op.Start)
			exp, sap := m.expectedIter(prefix, start), m.startAsPrefix(prefix, start)
			switch {
			case !c27KVsEqual(exp, sap):
				cl("iter_start_not_prefix_of_a_selected_key")
				nt = true
			case len(exp) == 0:
				cl("iter_empty_result")
			case len(start) == 0:
				cl("iter_no_start")
			default:
				cl("iter_start_is_prefix_of_all_selected")
			}
			if len(exp) >= 2 {
				cl("iter_result_ge2")
			}
			if strings.ContainsAny(string(prefix)+string(start), "*?[\\") {
				cl("iter_glob_metachar_in_bounds")
			}
			if _, err := c27FakeGlobRE(string(prefix) + string(start) + "*"); err != nil {
				cl("iter_not_run_on_redis_fake_limit")
			}
		}
	}
	if nt {
		c.NonTrivial()
	}
}

func TestVerif_C27(t *testing.T) {
	s := kit.Begin(t, "C27")
	defer s.Finish()
	kit.Run(s, "ordered_map_model", kit.N{Quick: 10000, Thorough: 200000}, c27Gen, c27Check)
}
