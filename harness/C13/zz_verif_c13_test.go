package fuzz

// C13: decoding is strict and canonical.
//
// A valid encoding of a generated value is mutated (truncation at field
// boundaries and random offsets, byte flips, discriminator substitution,
// length-prefix edits, non-minimal re-encodings of lengths and compact integers,
// over-wide compact integers, unused bitfield bits, duplicated dictionary keys,
// trailing bytes). Oracle:
//   (1) inverse: if the decoder accepts s consuming n bytes and yields v, then
//       Encode(v) == s[:n] (for the UnmarshalBinary entry points n = len(s));
//   (2) mutants that are invalid by construction (proper prefix of a prefix-free
//       encoding, discriminator outside its range, non-minimal integer) must be
//       rejected with an error.
// The positions come from typegen.Layout, an independent reference serialiser;
// they are used only when its bytes equal the implementation's encoding.
// Decoding runs in the worker process (see the common file). A Go panic or a
// dead worker is C14's subject: counted in a class here, not judged.

import (
	"bytes"
	"encoding/binary"
	"fmt"
	"os"
	"reflect"
	"runtime/debug"
	"strings"
	"testing"

	"github.com/New-JAMneration/JAM-Protocol/internal/types"
	"github.com/New-JAMneration/JAM-Protocol/internal/verifref/typegen"
	kit "github.com/New-JAMneration/JAM-Protocol/internal/verifkit"
	"pgregory.net/rapid"
)

type c13Mut struct {
	Kind string `json:"kind"`
	Sel  uint64 `json:"sel"` // which applicable site: Sel % count
	Val  uint64 `json:"val"` // which substitute value
}

type c13Input struct {
	Type string        `json:"type"`
	Mode string        `json:"mode"`
	Seg  bool          `json:"seg"`
	Node *typegen.Node `json:"node"`
	Mut  c13Mut        `json:"mut"`
}

var (
	c13Both   []*cdcCodec
	c13Names  []string
	c13Worker *cdcWorker
	c13Kinds  = []string{"trunc_field", "trunc_field", "trunc_any", "flip", "flip", "disc", "disc", "disc", "len_pm", "nonmin", "nonmin",
		"cint_wide", "append", "bits", "keydup", "frame_grow"}
)

func c13Gen(rt *rapid.T) c13Input {
	in := c13Input{Mode: "tiny"}
	if cdcUniform(rt, "modek", 60) == 0 {
		in.Mode = "full"
	}
	in.Type = c13Names[cdcUniform(rt, "type", len(c13Names))]
	in.Seg = rapid.Bool().Draw(rt, "seg")
	typegen.SetMode(in.Mode)
	in.Node = cdcGenNode(rt, cdcFind(c13Both, in.Type))
	typegen.SetMode("tiny")
	in.Mut.Kind = c13Kinds[cdcUniform(rt, "mkind", len(c13Kinds))]
	in.Mut.Sel = rapid.Uint64().Draw(rt, "msel")
	in.Mut.Val = rapid.Uint64().Draw(rt, "mval")
	return in
}

// c13Applied describes the concrete mutation.
type c13Applied struct {
	Kind       string
	Off        int           // first modified offset (len(s) for pure truncation = cut point)
	Mark       *typegen.Mark // the located item that was edited, if any
	MustReject bool
	What       string
	NewVal     uint64
}

func c13Marks(marks []typegen.Mark, pred func(*typegen.Mark) bool) []*typegen.Mark {
	var out []*typegen.Mark
	for i := range marks {
		if pred(&marks[i]) {
			out = append(out, &marks[i])
		}
	}
	return out
}

func c13Splice(enc []byte, off, n int, repl []byte) []byte {
	out := make([]byte, 0, len(enc)-n+len(repl))
	out = append(out, enc[:off]...)
	out = append(out, repl...)
	return append(out, enc[off+n:]...)
}

// c13MarkAt: the innermost non-field mark covering offset off.
func c13MarkAt(marks []typegen.Mark, off int) *typegen.Mark {
	var best *typegen.Mark
	for i := range marks {
		m := &marks[i]
		if m.Kind == typegen.MarkField || m.Len == 0 {
			continue
		}
		if off >= m.Off && off < m.Off+m.Len {
			if best == nil || m.Len <= best.Len {
				best = m
			}
		}
	}
	return best
}

const c13AllocCap = 1 << 22 // counts are kept below this many elements*size (C14 owns the rest)

// c13Mutate applies the drawn kind, or — when the value has no site for it — the
// next kind of the list that has one (flip always applies).
func c13Mutate(in c13Input, cdc *cdcCodec, enc []byte, marks []typegen.Mark, prefixFree bool) ([]byte, c13Applied) {
	start := 0
	for i, k := range c13Kinds {
		if k == in.Mut.Kind {
			start = i
			break
		}
	}
	for d := 0; d < len(c13Kinds); d++ {
		in.Mut.Kind = c13Kinds[(start+d)%len(c13Kinds)]
		if in.Mut.Kind == "flip" && d > 0 && d < len(c13Kinds)-1 && marks != nil {
			continue // prefer a structured kind while searching
		}
		if s, ap, ok := c13Mutate1(in, cdc, enc, marks, prefixFree); ok {
			return s, ap
		}
	}
	in.Mut.Kind = "flip"
	s, ap, _ := c13Mutate1(in, cdc, enc, marks, prefixFree)
	return s, ap
}

func c13Mutate1(in c13Input, cdc *cdcCodec, enc []byte, marks []typegen.Mark, prefixFree bool) ([]byte, c13Applied, bool) {
	mu := in.Mut
	pick := func(ms []*typegen.Mark) *typegen.Mark { return ms[int(mu.Sel%uint64(len(ms)))] }
	flip := func(kind string) ([]byte, c13Applied) {
		if len(enc) == 0 {
			return []byte{byte(mu.Val)}, c13Applied{Kind: "append", Off: 0, What: "one byte instead of the empty encoding"}
		}
		off := int(mu.Sel % uint64(len(enc)))
		out := append([]byte{}, enc...)
		out[off] ^= byte(mu.Val%255) + 1
		return out, c13Applied{Kind: kind, Off: off, Mark: c13MarkAt(marks, off), NewVal: uint64(out[off]),
			What: fmt.Sprintf("byte %d: %02x -> %02x", off, enc[off], out[off])}
	}
	switch mu.Kind {
	case "trunc_field":
		fs := c13Marks(marks, func(m *typegen.Mark) bool { return m.Kind == typegen.MarkField && m.Off > 0 && m.Off < len(enc) })
		if len(fs) == 0 {
			break
		}
		m := pick(fs)
		return append([]byte{}, enc[:m.Off]...), c13Applied{Kind: "trunc", Off: m.Off, Mark: c13MarkAt(marks, m.Off), MustReject: prefixFree,
			What: fmt.Sprintf("cut before field %s (keep %d of %d bytes)", m.Path, m.Off, len(enc))}, true
	case "trunc_any":
		if len(enc) == 0 {
			break
		}
		off := int(mu.Sel % uint64(len(enc)))
		return append([]byte{}, enc[:off]...), c13Applied{Kind: "trunc", Off: off, Mark: c13MarkAt(marks, off), MustReject: prefixFree,
			What: fmt.Sprintf("keep %d of %d bytes", off, len(enc))}, true
	case "disc":
		ds := c13Marks(marks, func(m *typegen.Mark) bool {
			return m.Kind == typegen.MarkOpt || m.Kind == typegen.MarkBool || m.Kind == typegen.MarkTag
		})
		if len(ds) == 0 {
			break
		}
		m := pick(ds)
		cands := []byte{2, 0x7F, 0x80, 0xFF}
		if m.Kind == typegen.MarkTag {
			cands = nil
			for _, c := range []int{m.Valid, m.Valid + 1, 0x7F, 0x80, 0xFE, 0xFF} {
				ok := c >= m.Valid && c <= 255
				for _, v := range m.ValidSet {
					if int(v) == c {
						ok = false
					}
				}
				if ok {
					cands = append(cands, byte(c))
				}
			}
		}
		nv := cands[int(mu.Val%uint64(len(cands)))]
		out := append([]byte{}, enc...)
		out[m.Off] = nv
		return out, c13Applied{Kind: "disc", Off: m.Off, Mark: m, MustReject: true, NewVal: uint64(nv),
			What: fmt.Sprintf("%s %s at %d: %02x -> %02x", m.Kind, m.Path, m.Off, enc[m.Off], nv)}, true
	case "len_pm":
		ls := c13Marks(marks, func(m *typegen.Mark) bool { return m.Kind == typegen.MarkLen })
		if len(ls) == 0 {
			break
		}
		m := pick(ls)
		nv := m.Val + 1
		switch mu.Val % 3 {
		case 1:
			if m.Val > 0 {
				nv = m.Val - 1
			}
		case 2:
			nv = m.Val*2 + 1
		}
		if nv*uint64(m.ElemSize+1) > c13AllocCap {
			nv = m.Val + 1
		}
		return c13Splice(enc, m.Off, m.Len, typegen.Compact(nv)), c13Applied{Kind: "len_pm", Off: m.Off, Mark: m, NewVal: nv,
			What: fmt.Sprintf("length prefix %s at %d: %d -> %d", m.Path, m.Off, m.Val, nv)}, true
	case "nonmin":
		ls := c13Marks(marks, func(m *typegen.Mark) bool { return m.Kind == typegen.MarkLen || m.Kind == typegen.MarkCInt })
		if len(ls) == 0 {
			break
		}
		m := pick(ls)
		forms := typegen.NonMinimal(m.Val)
		if len(forms) == 0 {
			break
		}
		f := forms[int(mu.Val%uint64(len(forms)))]
		return c13Splice(enc, m.Off, m.Len, f), c13Applied{Kind: "nonmin", Off: m.Off, Mark: m, MustReject: true, NewVal: uint64(len(f)),
			What: fmt.Sprintf("%s %s = %d re-encoded non-minimally as %x", m.Kind, m.Path, m.Val, f)}, true
	case "cint_wide":
		cs := c13Marks(marks, func(m *typegen.Mark) bool { return m.Kind == typegen.MarkCInt && m.MaxBits > 0 && m.MaxBits < 64 })
		if len(cs) == 0 {
			break
		}
		m := pick(cs)
		nv := m.Val + uint64(1)<<uint(m.MaxBits)*(1+mu.Val%3)
		return c13Splice(enc, m.Off, m.Len, typegen.Compact(nv)), c13Applied{Kind: "cint_wide", Off: m.Off, Mark: m, NewVal: nv,
			What: fmt.Sprintf("compact integer %s (a %d-bit field) = %d replaced by %d", m.Path, m.MaxBits, m.Val, nv)}, true
	case "append":
		n := int(mu.Val%4) + 1
		junk := make([]byte, n)
		for i := range junk {
			junk[i] = byte(mu.Sel >> (8 * uint(i)))
		}
		return append(append([]byte{}, enc...), junk...), c13Applied{Kind: "append", Off: len(enc), What: fmt.Sprintf("%d trailing bytes %x", n, junk)}, true
	case "bits":
		bs := c13Marks(marks, func(m *typegen.Mark) bool { return m.Kind == typegen.MarkBits && uint64(8*m.Len) > m.Val })
		if len(bs) == 0 {
			break
		}
		m := pick(bs)
		bit := int(m.Val) + int(mu.Val%uint64(8*m.Len-int(m.Val)))
		out := append([]byte{}, enc...)
		out[m.Off+bit/8] |= 1 << uint(bit%8)
		return out, c13Applied{Kind: "bits", Off: m.Off + bit/8, Mark: m, NewVal: uint64(bit),
			What: fmt.Sprintf("bitfield %s has %d cores: unused bit %d set", m.Path, m.Val, bit)}, true
	case "keydup":
		var pairs [][2]*typegen.Mark
		var prev *typegen.Mark
		for i := range marks {
			m := &marks[i]
			if m.Kind != typegen.MarkKey {
				continue
			}
			if prev != nil && prev.Len == m.Len && c13Parent(prev.Path) == c13Parent(m.Path) {
				pairs = append(pairs, [2]*typegen.Mark{prev, m})
			}
			prev = m
		}
		if len(pairs) == 0 {
			break
		}
		p := pairs[int(mu.Sel%uint64(len(pairs)))]
		out := append([]byte{}, enc...)
		if mu.Val%2 == 0 {
			copy(out[p[1].Off:p[1].Off+p[1].Len], enc[p[0].Off:p[0].Off+p[0].Len]) // duplicate key
			return out, c13Applied{Kind: "keydup", Off: p[1].Off, Mark: p[1], What: "dictionary key " + p[1].Path + " overwritten with the preceding key (duplicate)"}, true
		}
		copy(out[p[1].Off:p[1].Off+p[1].Len], enc[p[0].Off:p[0].Off+p[0].Len]) // swap keys: order violated
		copy(out[p[0].Off:p[0].Off+p[0].Len], enc[p[1].Off:p[1].Off+p[1].Len])
		return out, c13Applied{Kind: "keyswap", Off: p[0].Off, Mark: p[0], What: "dictionary keys " + p[0].Path + " and " + p[1].Path + " exchanged (descending order)"}, true
	case "frame_grow":
		fs := c13Marks(marks, func(m *typegen.Mark) bool { return m.Kind == typegen.MarkFrame })
		if len(fs) == 0 {
			break
		}
		m := fs[0]
		n := int(mu.Val%4) + 1
		out := append([]byte{}, enc...)
		binary.LittleEndian.PutUint32(out[m.Off:], uint32(m.Val)+uint32(n))
		for i := 0; i < n; i++ {
			out = append(out, byte(mu.Sel>>(8*uint(i))))
		}
		return out, c13Applied{Kind: "frame_grow", Off: len(enc), Mark: m, What: fmt.Sprintf("frame length +%d with %d bytes appended to the payload", n, n)}, true
	}
	if mu.Kind == "flip" {
		s, ap := flip("flip")
		return s, ap, true
	}
	return nil, c13Applied{}, false
}

func c13Parent(path string) string {
	if i := strings.LastIndex(path, "["); i >= 0 {
		return path[:i]
	}
	return path
}

func c13HasType(t reflect.Type, target reflect.Type, seen map[reflect.Type]bool) bool {
	if t == target {
		return true
	}
	if seen[t] {
		return false
	}
	seen[t] = true
	switch t.Kind() {
	case reflect.Array, reflect.Slice, reflect.Pointer:
		return c13HasType(t.Elem(), target, seen)
	case reflect.Map:
		return c13HasType(t.Key(), target, seen) || c13HasType(t.Elem(), target, seen)
	case reflect.Struct:
		for i := 0; i < t.NumField(); i++ {
			if c13HasType(t.Field(i).Type, target, seen) {
				return true
			}
		}
	}
	return false
}

func c13Has(cdc *cdcCodec, target any) bool {
	return c13HasType(cdc.Type, reflect.TypeOf(target), map[reflect.Type]bool{})
}

// c13Known: narrow classifiers (mutated site + observed divergence).
// c13Known: classifiers of the listed known findings. First by the reference
// parser's FIRST reason the mutant is not canonical (the implementation accepted
// it, so it tolerated exactly that), then by features of the value for decoder
// defects that already show on valid input (C11 findings).
func c13Known(cdc *cdcCodec, v0 reflect.Value, ap c13Applied, obs, detail string, s []byte, rej *typegen.Reject, consumed int, seg types.HashSegmentMap) (string, string) {
	name := cdcShort(cdc.Name)
	// does a known early-return defect explain what the implementation consumed?
	laxExplains := func(mode string) bool {
		n, lr := cdcRefDecode(cdc, s, seg, mode)
		if (lr != nil && lr.Reason != typegen.RTrailing) || n != consumed {
			return false
		}
		// ... and the implementation's grammar WITHOUT that early return does not
		sn, sr := cdcRefDecode(cdc, s, seg, "impl")
		return (sr != nil && sr.Reason != typegen.RTrailing) || sn != consumed
	}
	mpath := ""
	if ap.Mark != nil {
		mpath = ap.Mark.Path
	}
	baseHasEmptyImports := c13Has(cdc, types.WorkItem{}) && cdcContains(v0, reflect.TypeOf(types.WorkItem{}), func(x reflect.Value) bool {
		return len(x.Interface().(types.WorkItem).ImportSegments) == 0
	})
	baseHasEmptyKey := c13Has(cdc, types.Storage{}) && cdcContains(v0, reflect.TypeOf(types.Storage{}), func(x reflect.Value) bool {
		_, ok := x.Interface().(types.Storage)[""]
		return ok
	})
	// the UNMUTATED encoding is already mis-decoded by a known early return: everything behind that point is parsed out of step
	// (KF-C11-2 / KF-C11-7 are repaired, 0c0a5d3 / da65e5d: a base value with these features decodes in step now, so a failure
	// on it is attributed by the reference parser's reason below; the pre-attribution is kept only when the lax grammar really explains it)
	if baseHasEmptyImports && strings.HasPrefix(cdc.Name, "types.") && laxExplains("workitem") {
		return "KF-C13-11", "the base value has a work item with no import segments; WorkItem.Decode returns early there (see KF-C11-2): " + detail
	}
	if baseHasEmptyKey && strings.HasPrefix(cdc.Name, "types.") && laxExplains("storage") {
		return "KF-C13-12", "the base value has a zero-length storage key; Storage.Decode returns early there (see KF-C11-7): " + detail
	}
	// decoders that mis-parse even valid input: the strict parser's view of the bytes is not theirs
	switch {
	case name == "MetaCode" && len(s) == 0:
		// (narrowed after 2221af9 repaired the early returns / short reads: only the empty-input shortcut is left)
		return "KF-C13-13", "MetaCode.Decode accepts the empty input as the empty MetaCode: " + detail
	case name == "Operand":
		return "KF-C13-16", "Operand.Decode reads the gas limit twice (see KF-C11-5): " + detail
	// (KF-C13-17 / KF-C11-1 repaired by bedc373: AccumulatedServiceOutput.Encode is deterministic, its mutants are attributed by the reference reason below)
	}
	if rej != nil {
		d := "reference parser: " + rej.String() + "; " + detail
		switch {
		case rej.Reason == typegen.ROptRange:
			return "KF-C13-1", d
		case rej.Reason == typegen.RTagRange && strings.HasSuffix(rej.Path, ".tag"):
			return "KF-C13-2", d
		case rej.Reason == typegen.RBoolRange:
			return "KF-C13-3", d
		case (rej.Reason == typegen.RCountTooBig || rej.Reason == typegen.RTruncated) && rej.InBlob:
			return "KF-C13-4", d
		case rej.Reason == typegen.RCIntWide:
			return "KF-C13-5", d
		case rej.Reason == typegen.RNonMinimal && rej.NineByte:
			return "KF-C13-6", d
		case rej.Reason == typegen.RNonMinimal && strings.HasPrefix(cdc.Name, "fuzz.") && (strings.HasSuffix(rej.Path, ".AppName") || strings.HasSuffix(rej.Path, ".Error")):
			return "KF-C13-15", d
		case rej.Reason == typegen.RTruncated && len(s) == 0 && name == "TicketsOrKeys":
			return "KF-C13-7", d
		case rej.Reason == typegen.RKeyOrder:
			return "KF-C13-8", d
		case rej.Reason == typegen.RUnusedBits:
			return "KF-C13-9", d
		case rej.Reason == typegen.RTrailing:
			return "KF-C13-10", d
		case rej.Reason == typegen.RKeyLen:
			return "KF-C13-12", d
		case rej.Reason == typegen.RBound && (strings.Contains(detail, "AuthPoolMaxSize") || strings.Contains(detail, "MaxBlocksHistory")):
			return "KF-C13-14", d
		}
	}
	switch {
	case c13Has(cdc, types.WorkItem{}) && strings.HasPrefix(cdc.Name, "types.") && (strings.HasSuffix(mpath, ".ImportSegments") || laxExplains("workitem")):
		return "KF-C13-11", "the input parses to exactly the consumed length only under 'WorkItem ends after an import-segment count of 0' (see KF-C11-2): " + detail
	case c13Has(cdc, types.Storage{}) && strings.HasPrefix(cdc.Name, "types.") && (strings.HasSuffix(mpath, ".keylen") || laxExplains("storage")):
		return "KF-C13-12", "the input parses to exactly the consumed length only under 'Storage ends at a zero key length' (see KF-C11-7): " + detail
	}
	return "", ""
}

// c13CompactAt decodes (reference, GP C.6) the compact integer at s[off:]; 0 when truncated.
func c13CompactAt(s []byte, off int) uint64 {
	if off >= len(s) {
		return 0
	}
	p := s[off]
	l := 0
	for l < 8 && p&(0x80>>uint(l)) != 0 {
		l++
	}
	if off+1+l > len(s) {
		return 0
	}
	var x uint64
	for i := 0; i < l; i++ {
		x |= uint64(s[off+1+i]) << (8 * uint(i))
	}
	if l < 8 {
		x |= uint64(p&(0xFF>>uint(l+1))) << (8 * uint(l))
	}
	return x
}

func c13Fail(c *kit.Case, cdc *cdcCodec, v0 reflect.Value, ap c13Applied, obs, detail string, s []byte, rej *typegen.Reject, consumed int, seg types.HashSegmentMap) {
	if id, d := c13Known(cdc, v0, ap, obs, detail, s, rej, consumed, seg); id != "" {
		c.Known(id, cdc.Name+": "+d)
	}
	c.Failf("%s [%s] mutation %s (%s): %s", cdc.Name, obs, ap.Kind, ap.What, detail)
}

func c13Check(c *kit.Case, in c13Input) {
	cdc := cdcFind(c13Both, in.Type)
	if cdc == nil || in.Node == nil {
		return
	}
	typegen.SetMode(in.Mode)
	defer typegen.SetMode("tiny")
	v0 := typegen.Build(cdc.Type, in.Node, 0)
	seg := cdcSegMap(v0, in.Seg)
	enc0, err := cdc.Enc(cdcPtr(v0), seg, false)
	if err != nil {
		c.Failf("%s: Encode of an in-domain value failed: %v", cdc.Name, err)
	}
	ref, marks, lerr := typegen.Layout(v0, seg, cdcLayoutHook)
	if lerr != nil || !bytes.Equal(ref, enc0) {
		// positions unknown for this value (e.g. KF-C11-1 ordering): unstructured mutations only
		c.Class("layout_unavailable")
		marks = nil
		if in.Mut.Kind != "trunc_any" && in.Mut.Kind != "append" {
			in.Mut.Kind = "flip"
		}
	}
	prefixFree := cdc.SelfDelimiting || (strings.HasPrefix(cdc.Name, "fuzz.") && cdc.Name != "fuzz.Features")
	if cdcShort(cdc.Name) == "MetaCode" {
		prefixFree = false
	}
	s, ap := c13Mutate(in, cdc, enc0, marks, prefixFree)
	c.Class("mut_" + ap.Kind)
	if bytes.Equal(s, enc0) {
		c.Class("mutant_equals_original")
		return
	}
	r := c13Worker.call(&cdcReq{Codec: cdc.Name, Mode: in.Mode, Seg: cdcSegKeys(seg), Data: s, Reenc: true})
	if r.Died != "" || r.Panic != "" {
		c.Class("panic_or_death_is_c14")
		return
	}
	if r.Err != "" {
		c.Class("rejected")
		// non-trivial: rejected after at least one field was consumed
		if ap.Off > 0 && len(c13Marks(marks, func(m *typegen.Mark) bool { return m.Kind == typegen.MarkField && m.Off > 0 && m.Off <= ap.Off })) > 0 {
			c.NonTrivial()
		}
		return
	}
	c.Class("accepted")
	c.NonTrivial()
	consumed := r.Consumed
	if consumed < 0 {
		consumed = len(s)
	}
	// what does the strict reference parser say about the mutant? (classification only)
	var rej *typegen.Reject
	if n0, rej0 := cdcRefDecode(cdc, enc0, seg, ""); rej0 == nil && n0 == len(enc0) {
		_, rej = cdcRefDecode(cdc, s, seg, "")
		if rej == nil {
			c.Class("accepted_and_reference_accepts")
		} else {
			c.Class("accepted_but_reference_rejects_" + rej.Reason)
		}
	} else {
		c.Class("reference_parser_unusable")
		c.Class("reference_parser_unusable_" + cdcShort(cdc.Name))
	}
	if rej != nil && rej.Off >= consumed && rej.Reason != typegen.RTrailing {
		// the implementation stopped before the first thing the strict parser objects to
		c.Class("reference_objection_lies_beyond_consumed")
		rej = nil
	}
	if consumed > len(s) {
		c13Fail(c, cdc, v0, ap, "consumed", fmt.Sprintf("decoder reports %d bytes consumed of a %d-byte input", consumed, len(s)), s, rej, consumed, seg)
	}
	detail := fmt.Sprintf("input %s", cdcHex(s))
	if r.ReencErr != "" {
		c13Fail(c, cdc, v0, ap, "reencode-error", "accepted, but the decoded value has no encoding: "+r.ReencErr+"; "+detail, s, rej, consumed, seg)
	}
	if !bytes.Equal(r.Reenc, s[:consumed]) {
		c13Fail(c, cdc, v0, ap, "non-canonical", fmt.Sprintf("accepted (consumed %d), re-encoding differs: %s; %s", consumed, cdcHex(r.Reenc), detail), s, rej, consumed, seg)
	}
	if ap.MustReject {
		c13Fail(c, cdc, v0, ap, "accepted-invalid", "mutant is invalid by construction but was accepted; "+detail, s, rej, consumed, seg)
	}
}

func TestVerif_C13(t *testing.T) {
	if os.Getenv(cdcWorkerEnv) != "" {
		cdcWorkerMain()
		return
	}
	s := kit.Begin(t, "C13")
	defer s.Finish()
	debug.SetGCPercent(400)
	typegen.SetMode("tiny")
	c13Both, _ = cdcLoadCodecs(s)
	for _, cdc := range c13Both {
		c13Names = append(c13Names, cdc.Name)
	}
	c13Worker = cdcNewWorker("TestVerif_C13")
	c13Worker.Single = s.Replaying()
	defer c13Worker.stop()
	n := len(c13Names)
	kit.Run(s, "mutants", kit.N{Quick: n * 250, Thorough: n * 8000}, c13Gen, c13Check)
	s.Note("decode worker restarts in this shard: %d; native `go test -fuzz` targets are not run (no driver support)", c13Worker.Deaths)
}
