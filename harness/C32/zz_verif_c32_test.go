package work_package

// C32: work digest (GP 14.8) and package specification (GP 14.16) fields.
//
// Oracle: field-by-field, written from the equations as restated in the
// property: C(w, l, u) = (s: w_s, c: w_c, y: H(w_y), g: w_a, l, u,
// i: |w_i|, x: |w_x|, z: sum of extrinsic lengths, e: w_e) and
// A(p, bundle, exports) = (hash p, length |bundle|, exports root M(exports),
// count |exports|). The erasure root is NOT asserted (the codec is a stand-in).
// The only shared code with the implementation is golang.org/x/crypto blake2b.

import (
	"bytes"
	"fmt"
	"strings"
	"testing"

	"github.com/New-JAMneration/JAM-Protocol/PVM"
	"github.com/New-JAMneration/JAM-Protocol/internal/types"
	kit "github.com/New-JAMneration/JAM-Protocol/internal/verifkit"
	"golang.org/x/crypto/blake2b"
	"pgregory.net/rapid"
)

// ---------------------------------------------------------------- reference

func c32H(b []byte) [32]byte { return blake2b.Sum256(b) }

// c32RefN: GP E.1 node function over 32-byte items (only used on power-of-two lists).
func c32RefN(v [][]byte) []byte {
	switch len(v) {
	case 0:
		return make([]byte, 32)
	case 1:
		return v[0]
	}
	mid := (len(v) + 1) / 2
	buf := append([]byte("node"), c32RefN(v[:mid])...)
	buf = append(buf, c32RefN(v[mid:])...)
	h := c32H(buf)
	return h[:]
}

// c32RefM: GP E.4 constant-depth Merkle root: leaves H("leaf"||v_i), padded with
// zero hashes to the next power of two (at least one), then N.
func c32RefM(items [][]byte) [32]byte {
	sz := 1
	for sz < len(items) {
		sz *= 2
	}
	leaves := make([][]byte, sz)
	for i := range leaves {
		if i < len(items) {
			h := c32H(append([]byte("leaf"), items[i]...))
			leaves[i] = h[:]
		} else {
			leaves[i] = make([]byte, 32)
		}
	}
	var out [32]byte
	copy(out[:], c32RefN(leaves))
	return out
}

var c32Kinds = []types.WorkExecResultType{
	types.WorkExecResultOk, types.WorkExecResultOutOfGas, types.WorkExecResultPanic,
	types.WorkExecResultBadExports, types.WorkExecResultReportOversize,
	types.WorkExecResultBadCode, types.WorkExecResultCodeOversize,
}

// ---------------------------------------------------------------- inputs

// c32Item is a work item plus a refinement outcome, in domain terms.
type c32Item struct {
	Service     uint32   `json:"service"`
	CodeHash    []byte   `json:"code_hash"` // 32
	Payload     []byte   `json:"payload"`
	RefineGas   uint64   `json:"refine_gas"`
	AccGas      uint64   `json:"acc_gas"`
	ExportCount uint16   `json:"export_count"`
	ImportIdx   []uint16 `json:"import_idx"`     // one entry per import spec
	ExtrLens    []uint32 `json:"extrinsic_lens"` // one entry per extrinsic spec
	Kind        int      `json:"kind"`           // index into c32Kinds
	Data        []byte   `json:"data"`           // refinement output
	GasUsed     uint64   `json:"gas_used"`
}

func (it c32Item) valid() bool {
	return len(it.CodeHash) == 32 && it.Kind >= 0 && it.Kind < len(c32Kinds)
}

func (it c32Item) workItem() types.WorkItem {
	w := types.WorkItem{
		Service:            types.ServiceID(it.Service),
		RefineGasLimit:     types.Gas(it.RefineGas),
		AccumulateGasLimit: types.Gas(it.AccGas),
		ExportCount:        types.U16(it.ExportCount),
		Payload:            append(types.ByteSequence(nil), it.Payload...),
	}
	copy(w.CodeHash[:], it.CodeHash)
	for i, idx := range it.ImportIdx {
		var r types.OpaqueHash
		for j := range r {
			r[j] = byte(i*7 + j)
		}
		w.ImportSegments = append(w.ImportSegments, types.ImportSpec{TreeRoot: r, Index: types.U16(idx)})
	}
	for i, l := range it.ExtrLens {
		var h types.OpaqueHash
		for j := range h {
			h[j] = byte(i*13 + j + 1)
		}
		w.Extrinsic = append(w.Extrinsic, types.ExtrinsicSpec{Hash: h, Len: types.U32(l)})
	}
	return w
}

func c32GenU64(rt *rapid.T, label string) uint64 {
	return rapid.OneOf(
		rapid.Uint64Range(0, 70000),
		rapid.SampledFrom([]uint64{0, 1, 65535, 65536, 1<<32 - 1, 1 << 32, 1<<63 - 1, 1 << 63, 1<<64 - 1}),
		rapid.Uint64(),
	).Draw(rt, label)
}

func c32GenItem(rt *rapid.T, maxExport int) c32Item {
	it := c32Item{
		Service:   rapid.OneOf(rapid.Uint32Range(0, 300), rapid.Uint32()).Draw(rt, "service"),
		CodeHash:  rapid.SliceOfN(rapid.Byte(), 32, 32).Draw(rt, "code_hash"),
		Payload:   rapid.SliceOfN(rapid.Byte(), 0, 96).Draw(rt, "payload"),
		RefineGas: c32GenU64(rt, "refine_gas"),
		AccGas:    c32GenU64(rt, "acc_gas"),
		GasUsed:   c32GenU64(rt, "gas_used"),
		Kind:      rapid.OneOf(rapid.Just(0), rapid.IntRange(0, len(c32Kinds)-1)).Draw(rt, "kind"),
		Data:      rapid.SliceOfN(rapid.Byte(), 0, 48).Draw(rt, "data"),
	}
	it.ExportCount = uint16(rapid.OneOf(
		rapid.IntRange(0, 20), rapid.IntRange(0, maxExport),
		rapid.SampledFrom([]int{0, 1, maxExport}),
	).Draw(rt, "export_count"))
	nImp := rapid.OneOf(rapid.IntRange(0, 16), rapid.IntRange(0, 16), rapid.IntRange(0, 3072)).Draw(rt, "n_imports")
	if nImp > 0 {
		it.ImportIdx = make([]uint16, nImp)
		base := rapid.Uint16().Draw(rt, "import_base")
		for i := range it.ImportIdx {
			it.ImportIdx[i] = base + uint16(i)
		}
	}
	nExt := rapid.OneOf(rapid.IntRange(0, 16), rapid.IntRange(0, 16), rapid.IntRange(0, 128)).Draw(rt, "n_extrinsics")
	lenGen := rapid.OneOf(
		rapid.Uint32Range(0, 300),
		rapid.Uint32Range(0, 1<<20),
		rapid.SampledFrom([]uint32{0, 1, 4095, 4096, 65535, 65536, 65537, 1 << 20}),
	)
	for i := 0; i < nExt; i++ {
		it.ExtrLens = append(it.ExtrLens, lenGen.Draw(rt, "extrinsic_len"))
	}
	return it
}

// ---------------------------------------------------------------- C (14.8)

// c32CheckDigest compares the digest got for item it with GP 14.8. wantType /
// wantData describe the result l expected in the digest. It returns "" or a
// description of the first mismatch; a refine-load (x, z, e) mismatch that is
// exactly the catalogued field mix-up is reported through known=true.
func c32CheckDigest(it c32Item, got types.WorkResult, wantType types.WorkExecResultType, wantData []byte, checkData bool) (msg string, known bool) {
	if uint32(got.ServiceID) != it.Service {
		return fmt.Sprintf("s: got %d want %d", got.ServiceID, it.Service), false
	}
	if !bytes.Equal(got.CodeHash[:], it.CodeHash) {
		return fmt.Sprintf("c: got %x want %x", got.CodeHash, it.CodeHash), false
	}
	if ph := c32H(it.Payload); !bytes.Equal(got.PayloadHash[:], ph[:]) {
		return fmt.Sprintf("y: got %x want H(payload)=%x", got.PayloadHash, ph), false
	}
	if uint64(got.AccumulateGas) != it.AccGas {
		return fmt.Sprintf("g: got %d want accumulate gas limit %d", got.AccumulateGas, it.AccGas), false
	}
	if got.Result.Type != wantType {
		return fmt.Sprintf("l: result kind got %q want %q", got.Result.Type, wantType), false
	}
	if checkData && !bytes.Equal(got.Result.Data, wantData) {
		return fmt.Sprintf("l: result data got %x want %x", got.Result.Data, wantData), false
	}
	if uint64(got.RefineLoad.GasUsed) != it.GasUsed {
		return fmt.Sprintf("u: got %d want %d", got.RefineLoad.GasUsed, it.GasUsed), false
	}
	if int(got.RefineLoad.Imports) != len(it.ImportIdx) {
		return fmt.Sprintf("i: got %d want |imports|=%d", got.RefineLoad.Imports, len(it.ImportIdx)), false
	}
	var zsum uint64
	for _, l := range it.ExtrLens {
		zsum += uint64(l)
	}
	wantX, wantZ, wantE := uint64(len(it.ExtrLens)), zsum, uint64(it.ExportCount)
	gotX, gotZ, gotE := uint64(got.RefineLoad.ExtrinsicCount), uint64(got.RefineLoad.ExtrinsicSize), uint64(got.RefineLoad.Exports)
	if gotX == wantX && gotZ == wantZ && gotE == wantE {
		return "", false
	}
	msg = fmt.Sprintf("refine load (x,z,e): got (%d,%d,%d) want (|x|=%d, sum z=%d, e=%d)", gotX, gotZ, gotE, wantX, wantZ, wantE)
	// KF-C32-1: x <- export count, z <- number of extrinsics, e <- sum of sizes mod 2^16.
	if gotX == wantE && gotZ == wantX && gotE == wantZ&0xFFFF {
		return msg, true
	}
	return msg, false
}

func c32GenDigest(rt *rapid.T) c32Item { return c32GenItem(rt, 3072) }

func c32ClassifyItem(c *kit.Case, it c32Item) {
	var zsum uint64
	for _, l := range it.ExtrLens {
		zsum += uint64(l)
	}
	nx, e := uint64(len(it.ExtrLens)), uint64(it.ExportCount)
	if nx != e && zsum != nx {
		c.NonTrivial()
	}
	if zsum >= 1<<16 {
		c.Class("zsum_ge_2^16")
	}
	if nx == 0 {
		c.Class("no_extrinsics")
	}
	if len(it.ImportIdx) == 0 {
		c.Class("no_imports")
	}
	if len(it.ImportIdx) > 16 {
		c.Class("imports_gt_16")
	}
	if nx > 16 {
		c.Class("extrinsics_gt_16")
	}
	if e == 0 {
		c.Class("export_count_0")
	}
	c.Class("result_" + string(c32Kinds[it.Kind]))
}

func c32CheckDigestCase(c *kit.Case, it c32Item) {
	if !it.valid() {
		return
	}
	c32ClassifyItem(c, it)
	w := it.workItem()
	res := types.WorkExecResult{Type: c32Kinds[it.Kind], Data: append([]byte(nil), it.Data...)}
	got := C(w, res, types.Gas(it.GasUsed))
	msg, known := c32CheckDigest(it, got, c32Kinds[it.Kind], it.Data, true)
	if msg == "" {
		return
	}
	if known {
		c.Known("KF-C32-1", msg)
	}
	c.Failf("C (14.8): %s", msg)
}

// ---------------------------------------------------------------- A (14.16)

type c32Seg struct {
	Zero bool   `json:"zero"`
	Seed uint32 `json:"seed"`
}

func (s c32Seg) segment() types.ExportSegment {
	var seg types.ExportSegment
	if s.Zero {
		return seg
	}
	x := s.Seed
	for i := range seg {
		// deterministic expansion of the drawn seed (content only has to differ between segments)
		x = x*1664525 + 1013904223
		seg[i] = byte(x >> 24)
	}
	return seg
}

type c32SpecInput struct {
	Hash       []byte   `json:"hash"` // 32
	BundleLen  int      `json:"bundle_len"`
	BundleFill byte     `json:"bundle_fill"`
	Exports    []c32Seg `json:"exports"`
}

func c32Bundle(n int, fill byte) []byte {
	b := make([]byte, n)
	for i := range b {
		b[i] = fill + byte(i*7)
	}
	return b
}

func c32GenSegs(rt *rapid.T, n int) []c32Seg {
	var segs []c32Seg
	for i := 0; i < n; i++ {
		s := c32Seg{Zero: rapid.IntRange(0, 7).Draw(rt, "zero") == 0}
		if !s.Zero {
			// small seed range on purpose: duplicates among segments happen
			s.Seed = rapid.OneOf(rapid.Uint32Range(0, 3), rapid.Uint32()).Draw(rt, "seed")
		}
		segs = append(segs, s)
	}
	return segs
}

func c32GenSpec(rt *rapid.T) c32SpecInput {
	in := c32SpecInput{
		Hash:       rapid.SliceOfN(rapid.Byte(), 32, 32).Draw(rt, "hash"),
		BundleFill: rapid.Byte().Draw(rt, "fill"),
	}
	in.BundleLen = rapid.OneOf(
		rapid.IntRange(1, 700),
		rapid.SampledFrom([]int{0, 1, 683, 684, 685, 1367, 1368, 1369, 4104}),
		rapid.IntRange(1, 8192),
		rapid.IntRange(1, 65536),
	).Draw(rt, "bundle_len")
	n := rapid.OneOf(
		rapid.IntRange(0, 5), rapid.IntRange(0, 5),
		rapid.SampledFrom([]int{0, 1, 2, 3, 4, 5, 7, 8, 9}),
		rapid.IntRange(0, 20),
		rapid.SampledFrom([]int{15, 16, 17, 31, 32, 33, 63, 64, 65, 70}),
	).Draw(rt, "n_exports")
	in.Exports = c32GenSegs(rt, n)
	return in
}

// c32CallA calls A and converts the catalogued zero-export crash into kf=true.
func c32CallA(h types.OpaqueHash, bundle []byte, segs []types.ExportSegment) (spec types.WorkPackageSpec, err error, kf string) {
	defer func() {
		if r := recover(); r != nil {
			s := fmt.Sprint(r)
			if len(segs) == 0 && len(bundle) > 0 && strings.Contains(s, "index out of range [0] with length 0") {
				kf = s
				return
			}
			panic(r)
		}
	}()
	spec, err = A(h, bundle, segs)
	return
}

func c32RefExportsRoot(segs []types.ExportSegment) [32]byte {
	items := make([][]byte, len(segs))
	for i := range segs {
		items[i] = append([]byte(nil), segs[i][:]...)
	}
	return c32RefM(items)
}

func c32CheckSpecFields(c *kit.Case, what string, spec types.WorkPackageSpec, h types.OpaqueHash, bundleLen int, segs []types.ExportSegment) {
	if types.OpaqueHash(spec.Hash) != h {
		c.Failf("%s: spec hash %x want %x", what, spec.Hash, h)
	}
	if int64(spec.Length) != int64(bundleLen) {
		c.Failf("%s: spec length %d want |bundle|=%d", what, spec.Length, bundleLen)
	}
	if int(spec.ExportsCount) != len(segs) {
		c.Failf("%s: spec exports count %d want %d", what, spec.ExportsCount, len(segs))
	}
	want := c32RefExportsRoot(segs)
	if !bytes.Equal(spec.ExportsRoot[:], want[:]) {
		c.Failf("%s: exports root %x want M(exports)=%x (%d segments)", what, spec.ExportsRoot, want, len(segs))
	}
}

func c32CheckSpec(c *kit.Case, in c32SpecInput) {
	if len(in.Hash) != 32 || in.BundleLen < 0 || in.BundleLen > 1<<22 || len(in.Exports) > 3072 {
		return
	}
	var h types.OpaqueHash
	copy(h[:], in.Hash)
	bundle := c32Bundle(in.BundleLen, in.BundleFill)
	segs := make([]types.ExportSegment, len(in.Exports))
	for i, s := range in.Exports {
		segs[i] = s.segment()
	}
	n := len(segs)
	switch {
	case n == 0:
		c.Class("exports_0")
	case n == 1:
		c.Class("exports_1")
	case n&(n-1) == 0:
		c.Class("exports_pow2")
	default:
		c.Class("exports_non_pow2")
	}
	if n > 64 {
		c.Class("exports_gt_64")
	}
	if in.BundleLen%684 == 0 {
		c.Class("bundle_multiple_of_684")
	}
	if in.BundleLen == 0 {
		// an encoded bundle is never empty; the codec (real and stand-in) refuses
		// empty input, so nothing is stated about this case.
		c.Class("empty_bundle_out_of_domain")
		_, _, _ = c32CallA(h, bundle, segs)
		return
	}
	if n >= 2 && n&(n-1) != 0 {
		c.NonTrivial() // padding of the constant-depth tree is exercised
	}
	snapshot := append([]byte(nil), bundle...)
	spec, err, kf := c32CallA(h, bundle, segs)
	if kf != "" {
		c.Known("KF-C32-2", "A panics for a package without exports: "+kf)
	}
	if err != nil {
		c.Failf("A returned an error for a %d-byte bundle and %d exports: %v", in.BundleLen, n, err)
	}
	c32CheckSpecFields(c, "A (14.16)", spec, h, in.BundleLen, segs)
	if !bytes.Equal(bundle, snapshot) {
		c.Failf("A modified its caller's bundle")
	}
}

// ---------------------------------------------------------------- WorkReportCompute

// The guarantor path: digests and specification as assembled into a report,
// with a harness-owned executor standing in for the PVM. The expected digest result
// follows GP 14.11 in its order: with z = |o| + the output sizes of the EARLIER items
// whose final result is a blob, item j is report-oversize when |r| + z > W_R, else
// bad-exports when the number of returned segments differs from the declared count,
// else the executor's error, else ok with r and the returned segments; every non-ok
// item contributes its declared number of zero segments. Pad (extra output octets)
// and a returned-segment count that differs from the declared one reach the first
// two clauses.

type c32ReportInput struct {
	Core       uint16     `json:"core"`
	AuthOutput []byte     `json:"auth_output"`
	AuthGas    uint64     `json:"auth_gas"`
	Hash       []byte     `json:"hash"`
	BundleLen  int        `json:"bundle_len"`
	Items      []c32Item  `json:"items"`
	Exports    [][]c32Seg `json:"exports"` // per item: the segments the refinement returns (len != ExportCount: bad exports)
	Pad        []int      `json:"pad,omitempty"` // per item: extra output octets appended to Data (ok results)
}

func (in *c32ReportInput) output(j int) []byte {
	out := append([]byte(nil), in.Items[j].Data...)
	if j < len(in.Pad) {
		for k := 0; k < in.Pad[j]; k++ {
			out = append(out, byte(k*7+j))
		}
	}
	return out
}

type c32Exec struct {
	in    c32ReportInput
	calls []uint
}

func (e *c32Exec) Psi_I(p types.WorkPackage, core types.CoreIndex, code types.ByteSequence) PVM.Psi_I_ReturnType {
	return PVM.Psi_I_ReturnType{WorkExecResult: types.WorkExecResultOk, WorkOutput: append([]byte(nil), e.in.AuthOutput...), Gas: types.Gas(e.in.AuthGas)}
}

func (e *c32Exec) RefineInvoke(input PVM.RefineInput) PVM.RefineOutput {
	j := int(input.WorkItemIndex)
	e.calls = append(e.calls, input.WorkItemIndex)
	it := e.in.Items[j]
	out := PVM.RefineOutput{WorkResult: c32Kinds[it.Kind], Gas: types.Gas(it.GasUsed)}
	if it.Kind == 0 {
		out.RefineOutput = e.in.output(j)
	}
	for _, s := range e.in.Exports[j] {
		out.ExportSegment = append(out.ExportSegment, s.segment())
	}
	return out
}

func c32GenReport(rt *rapid.T) c32ReportInput {
	in := c32ReportInput{
		Core:       rapid.Uint16Range(0, 1).Draw(rt, "core"),
		AuthOutput: rapid.SliceOfN(rapid.Byte(), 0, 40).Draw(rt, "auth_output"),
		AuthGas:    c32GenU64(rt, "auth_gas"),
		Hash:       rapid.SliceOfN(rapid.Byte(), 32, 32).Draw(rt, "hash"),
		BundleLen:  rapid.OneOf(rapid.IntRange(1, 700), rapid.IntRange(1, 4000)).Draw(rt, "bundle_len"),
	}
	n := rapid.IntRange(1, 4).Draw(rt, "n_items")
	for j := 0; j < n; j++ {
		it := c32GenItem(rt, 4)
		if it.ExportCount > 4 {
			it.ExportCount = 4
		}
		// only error kinds a refinement can return by itself, so that the digest's
		// result is the executor's result whatever the order of the 14.11 clauses
		if it.Kind == 3 || it.Kind == 4 {
			it.Kind = 2
		}
		in.Items = append(in.Items, it)
		got := int(it.ExportCount)
		if rapid.IntRange(0, 5).Draw(rt, "wrong_export_count") == 0 {
			got = rapid.IntRange(0, 5).Draw(rt, "returned_exports")
		}
		in.Exports = append(in.Exports, c32GenSegs(rt, got))
		pad := 0
		if rapid.IntRange(0, 2).Draw(rt, "big_output") == 0 {
			// around W_R = 48 KiB in total: a quarter, a half, all of it, one more
			pad = rapid.SampledFrom([]int{12 * 1024, 16 * 1024, 24 * 1024, 30 * 1024, 40 * 1024, 48*1024 - 41, 48 * 1024, 48*1024 + 1}).Draw(rt, "pad")
			pad -= rapid.IntRange(0, 60).Draw(rt, "pad_minus")
		}
		in.Pad = append(in.Pad, pad)
	}
	return in
}

func c32CheckReport(c *kit.Case, in c32ReportInput) {
	if len(in.Hash) != 32 || len(in.Items) == 0 || len(in.Items) != len(in.Exports) || in.BundleLen <= 0 || in.BundleLen > 1<<20 {
		return
	}
	total := 0
	for j, it := range in.Items {
		if !it.valid() || it.Kind == 3 || it.Kind == 4 || it.ExportCount > 8 || len(in.Exports[j]) > 8 || len(it.Data) > 1024 {
			return
		}
		if j < len(in.Pad) && (in.Pad[j] < 0 || in.Pad[j] > 64*1024) {
			return
		}
		total += int(it.ExportCount)
	}
	if len(in.AuthOutput) > 1024 || total > 64 {
		return
	}
	wp := types.WorkPackage{}
	nt := false
	for _, it := range in.Items {
		wp.Items = append(wp.Items, it.workItem())
		var zsum uint64
		for _, l := range it.ExtrLens {
			zsum += uint64(l)
		}
		if uint64(len(it.ExtrLens)) != uint64(it.ExportCount) && zsum != uint64(len(it.ExtrLens)) {
			nt = true
		}
	}
	if nt && len(in.Items) >= 2 {
		c.NonTrivial()
	}
	c.Class(fmt.Sprintf("report_items_%d", len(in.Items)))
	if total == 0 {
		c.Class("report_exports_0")
	}
	var h types.OpaqueHash
	copy(h[:], in.Hash)
	bundle := c32Bundle(in.BundleLen, 3)
	exec := &c32Exec{in: in}

	var report types.WorkReport
	var err error
	kf := ""
	func() {
		defer func() {
			if r := recover(); r != nil {
				s := fmt.Sprint(r)
				if total == 0 && strings.Contains(s, "index out of range [0] with length 0") {
					kf = s
					return
				}
				panic(r)
			}
		}()
		report, err = WorkReportCompute(&wp, types.CoreIndex(in.Core), types.OpaqueHash{1}, nil, PVM.ExtrinsicDataMap{}, nil, nil, bundle, h, exec)
	}()
	if kf != "" {
		c.Known("KF-C32-2", "WorkReportCompute panics (in A) for a package without exports: "+kf)
	}
	if err != nil {
		c.Failf("WorkReportCompute returned an error: %v", err)
	}
	if len(report.Results) != len(in.Items) {
		c.Failf("report has %d digests for %d items", len(report.Results), len(in.Items))
	}
	for j := range exec.calls {
		if exec.calls[j] != uint(j) {
			c.Failf("refinement invoked for item indices %v", exec.calls)
		}
	}
	var segs []types.ExportSegment
	knownMsg := ""
	z := len(in.AuthOutput) // |o| + outputs of the earlier items that stayed blobs
	for j, it := range in.Items {
		var r []byte
		if it.Kind == 0 {
			r = in.output(j)
		}
		wantType, wantData := c32Kinds[it.Kind], r
		switch {
		case len(r)+z > types.WorkReportOutputBlobsMaximumSize:
			wantType, wantData = types.WorkExecResultReportOversize, nil
			c.Class("report_item_oversize")
			if j+1 < len(in.Items) {
				c.Class("report_item_oversize_not_last")
			}
		case len(in.Exports[j]) != int(it.ExportCount):
			wantType, wantData = types.WorkExecResultBadExports, nil
			c.Class("report_item_bad_exports")
		case it.Kind != 0:
			wantData = nil
		}
		ok := wantType == types.WorkExecResultOk
		if ok {
			z += len(r)
		}
		// data is compared for ok results only: for an error the digest carries no blob
		msg, known := c32CheckDigest(it, report.Results[j], wantType, wantData, ok)
		if msg != "" {
			if !known {
				c.Failf("digest %d of the report (item returned kind %d, %d output octets, %d of %d declared exports; z before it = %d): %s",
					j, it.Kind, len(r), len(in.Exports[j]), it.ExportCount, z-map[bool]int{true: len(r), false: 0}[ok], msg)
			}
			knownMsg = fmt.Sprintf("digest %d of the report: %s", j, msg)
		}
		if ok {
			for _, s := range in.Exports[j] {
				segs = append(segs, s.segment())
			}
		} else {
			for k := 0; k < int(it.ExportCount); k++ {
				segs = append(segs, types.ExportSegment{})
			}
		}
	}
	c32CheckSpecFields(c, "report specification", report.PackageSpec, h, in.BundleLen, segs)
	if knownMsg != "" {
		c.Known("KF-C32-1", knownMsg)
	}
}

// ---- several packages assembled one after the other in ONE process (a guarantor's life): a
// report depends on its own package only, not on the packages assembled before it
type c32ReportSeqInput struct {
	Reports []c32ReportInput `json:"reports"`
}

func c32GenReportSeq(rt *rapid.T) c32ReportSeqInput {
	var in c32ReportSeqInput
	n := rapid.IntRange(2, 4).Draw(rt, "n_packages")
	for i := 0; i < n; i++ {
		in.Reports = append(in.Reports, c32GenReport(rt))
	}
	return in
}

func c32CheckReportSeq(c *kit.Case, in c32ReportSeqInput) {
	if len(in.Reports) > 8 {
		return
	}
	for _, r := range in.Reports {
		c32CheckReport(c, r)
	}
}

func TestVerif_C32(t *testing.T) {
	s := kit.Begin(t, "C32")
	defer s.Finish()
	kit.Run(s, "digest_fields_14_8", kit.N{Quick: 20000, Thorough: 1000000}, c32GenDigest, c32CheckDigestCase)
	kit.Run(s, "package_spec_14_16", kit.N{Quick: 2400, Thorough: 40000}, c32GenSpec, c32CheckSpec)
	kit.Run(s, "report_assembly", kit.N{Quick: 1600, Thorough: 24000}, c32GenReport, c32CheckReport)
	kit.Run(s, "report_assembly_sequences", kit.N{Quick: 800, Thorough: 12000}, c32GenReportSeq, c32CheckReportSeq)
}
