package stf

// C34: activity statistics accounting (GP 13.3-13.16) over block histories on
// the blockchain singleton. Code under test: stf.UpdateStatistics ->
// statistics.UpdateValidatorActivityStatistics (validator, core and service
// records).
//
// The input is a history AS DATA. Every block carries the prepared posterior
// tau'/kappa'/lambda'/psi'_o/eta', the intermediate values the other STF
// stages would have produced (incoming reports = the reports of E_G, newly
// available reports W, accumulation statistics S) and the extrinsic. The
// oracle is a literal model of 13.3-13.16 computed from the same data; pi is
// carried from block to block exactly as ChainState.StateCommit copies it.
//
// Mode covered: tiny (V=6, C=2, E=12, R=4, K=3), the package default.

import (
	"crypto/sha256"
	"fmt"
	"sort"
	"testing"

	"github.com/New-JAMneration/JAM-Protocol/internal/blockchain"
	"github.com/New-JAMneration/JAM-Protocol/internal/types"
	kit "github.com/New-JAMneration/JAM-Protocol/internal/verifkit"
	"github.com/New-JAMneration/JAM-Protocol/logger"
	"pgregory.net/rapid"
)

const (
	c34V  = 6
	c34C  = 2
	c34E  = 12
	c34R  = 4
	c34K  = 3
	c34WG = 4104
)

type c34Result struct {
	Service uint32 `json:"s"`
	Gas     uint64 `json:"u"`
	Imports uint16 `json:"i"`
	XCount  uint16 `json:"x"`
	XSize   uint32 `json:"z"`
	Exports uint16 `json:"e"`
}

type c34Report struct {
	Core         int         `json:"core"`
	Length       uint32      `json:"len"`
	ExportsCount uint16      `json:"n"`
	Results      []c34Result `json:"results"`
}

type c34Guarantee struct {
	Report  c34Report `json:"report"`
	Slot    uint32    `json:"slot"`
	Signers []int     `json:"signers"`
}

type c34Assurance struct {
	Validator int    `json:"v"`
	Bits      []byte `json:"bits"` // one 0/1 per core
}

type c34Preimage struct {
	Requester uint32 `json:"s"`
	Size      int    `json:"size"`
}

type c34Acc struct {
	Service uint32 `json:"s"`
	Gas     uint64 `json:"gas"`
	Count   uint32 `json:"n"`
}

type c34Block struct {
	Gap        uint32         `json:"gap"` // tau' = tau + gap
	Author     int            `json:"author"`
	Tickets    int            `json:"tickets"`
	Preimages  []c34Preimage  `json:"preimages"`
	Guarantees []c34Guarantee `json:"guarantees"`
	Assurances []c34Assurance `json:"assurances"`
	Available  []c34Report    `json:"available"`
	AccStats   []c34Acc       `json:"acc"`
	Kappa      []int          `json:"kappa"`     // key ids of kappa'
	Lambda     []int          `json:"lambda"`    // key ids of lambda'
	Offenders  []int          `json:"offenders"` // key ids in psi'_o
	Eta        byte           `json:"eta"`
}

type c34Rec [6]uint32 // b t p d g a

type c34Input struct {
	Mode   string     `json:"mode"`
	Tau0   uint32     `json:"tau0"`
	Curr   []c34Rec   `json:"curr"`
	Last   []c34Rec   `json:"last"`
	Blocks []c34Block `json:"blocks"`
}

func c34Pub(id int) types.Ed25519Public {
	return types.Ed25519Public(sha256.Sum256([]byte(fmt.Sprintf("verif-c34-key-%d", id))))
}

func c34Vals(ids []int) types.ValidatorsData {
	vd := make(types.ValidatorsData, len(ids))
	for i, id := range ids {
		vd[i].Ed25519 = c34Pub(id)
		vd[i].Bandersnatch = types.BandersnatchPublic(sha256.Sum256([]byte(fmt.Sprintf("verif-c34-bs-%d", id))))
	}
	return vd
}

func c34MkReport(r c34Report) types.WorkReport {
	h := sha256.Sum256([]byte(fmt.Sprintf("c34r-%d-%d-%d", r.Core, r.Length, r.ExportsCount)))
	wr := types.WorkReport{
		PackageSpec: types.WorkPackageSpec{Hash: types.WorkPackageHash(h), Length: types.U32(r.Length), ExportsCount: types.U16(r.ExportsCount)},
		CoreIndex:   types.CoreIndex(r.Core),
	}
	for _, d := range r.Results {
		wr.Results = append(wr.Results, types.WorkResult{
			ServiceID: types.ServiceID(d.Service),
			Result:    types.WorkExecResult{Type: types.WorkExecResultOk},
			RefineLoad: types.RefineLoad{GasUsed: types.Gas(d.Gas), Imports: types.U16(d.Imports), ExtrinsicCount: types.U16(d.XCount),
				ExtrinsicSize: types.U32(d.XSize), Exports: types.U16(d.Exports)},
		})
	}
	return wr
}

func c34ToStats(r []c34Rec) types.ValidatorsStatistics {
	out := make(types.ValidatorsStatistics, len(r))
	for i, x := range r {
		out[i] = types.ValidatorActivityRecord{Blocks: types.U32(x[0]), Tickets: types.U32(x[1]), PreImages: types.U32(x[2]),
			PreImagesSize: types.U32(x[3]), Guarantees: types.U32(x[4]), Assurances: types.U32(x[5])}
	}
	return out
}

func c34FromStats(s types.ValidatorsStatistics) []c34Rec {
	out := make([]c34Rec, len(s))
	for i, x := range s {
		out[i] = c34Rec{uint32(x.Blocks), uint32(x.Tickets), uint32(x.PreImages), uint32(x.PreImagesSize), uint32(x.Guarantees), uint32(x.Assurances)}
	}
	return out
}

// model-side core / service records (exact integers; the domain keeps every
// sum far below the widths of the implementation's fields)
type c34Core struct{ d, p, i, x, z, e, b, u uint64 }
type c34Svc struct{ pc, ps, rn, ru, i, x, z, e, an, au uint64 }

// applicable key set for a guarantee with slot t (GP 11.21/11.22: M or M*), as key ids
func c34KeySet(blk *c34Block, tauP, t uint32) []int {
	if tauP/c34R == t/c34R {
		return blk.Kappa
	}
	if tauP >= c34R && (tauP-c34R)/c34E == tauP/c34E {
		return blk.Kappa
	}
	return blk.Lambda
}

func c34Check(c *kit.Case, in c34Input) {
	if types.ValidatorsCount != c34V || types.CoresCount != c34C || types.EpochLength != c34E || types.RotationPeriod != c34R {
		c.Failf("harness expects tiny parameters, package has V=%d C=%d E=%d R=%d", types.ValidatorsCount, types.CoresCount, types.EpochLength, types.RotationPeriod)
	}
	if len(in.Curr) != c34V || len(in.Last) != c34V || len(in.Blocks) == 0 {
		return
	}
	// ---- domain validation (replays)
	tau := in.Tau0
	for bi := range in.Blocks {
		b := &in.Blocks[bi]
		if b.Gap < 1 || b.Gap > 1000 || b.Author < 0 || b.Author >= c34V || b.Tickets < 0 || b.Tickets > c34K ||
			len(b.Kappa) != c34V || len(b.Lambda) != c34V {
			return
		}
		tauP := tau + b.Gap
		off := map[int]bool{}
		for _, o := range b.Offenders {
			off[o] = true
		}
		for _, set := range [][]int{b.Kappa, b.Lambda} {
			seen := map[int]bool{}
			for _, id := range set {
				if id < 0 || seen[id] {
					return
				}
				seen[id] = true
			}
		}
		lastCore := -1
		for _, g := range b.Guarantees {
			if g.Report.Core <= lastCore || g.Report.Core >= c34C || len(g.Report.Results) < 1 || len(g.Report.Results) > 16 {
				return
			}
			lastCore = g.Report.Core
			lo := uint32(0)
			if tauP/c34R >= 1 {
				lo = c34R * (tauP/c34R - 1)
			}
			if g.Slot < lo || g.Slot > tauP {
				return
			}
			ks := c34KeySet(b, tauP, g.Slot)
			seen := map[int]bool{}
			if len(g.Signers) < 2 || len(g.Signers) > 3 {
				return
			}
			for _, v := range g.Signers {
				if v < 0 || v >= c34V || seen[v] || off[ks[v]] {
					return // an offender's credential cannot verify (key nulled by Phi): E_G would be invalid
				}
				seen[v] = true
			}
		}
		lastCore = -1
		for _, r := range b.Available {
			if r.Core <= lastCore || r.Core >= c34C {
				return
			}
			lastCore = r.Core
		}
		lastV := -1
		for _, a := range b.Assurances {
			if a.Validator <= lastV || a.Validator >= c34V || len(a.Bits) != c34C {
				return
			}
			lastV = a.Validator
			for _, bit := range a.Bits {
				if bit > 1 {
					return
				}
			}
		}
		seenS := map[uint32]bool{}
		for _, a := range b.AccStats {
			if seenS[a.Service] {
				return
			}
			seenS[a.Service] = true
		}
		for _, p := range b.Preimages {
			if p.Size < 0 || p.Size > 4096 {
				return
			}
		}
		tau = tauP
	}

	blockchain.ResetInstance()
	cs := blockchain.GetInstance()
	// model pi_V, pi_L
	mCurr := append([]c34Rec(nil), in.Curr...)
	mLast := append([]c34Rec(nil), in.Last...)
	// implementation's carried pi
	implPi := types.Statistics{ValsCurr: c34ToStats(in.Curr), ValsLast: c34ToStats(in.Last),
		Cores: make(types.CoresStatistics, c34C), Services: types.ServicesStatistics{}}
	tau = in.Tau0
	nontrivial := false

	for bi := range in.Blocks {
		b := &in.Blocks[bi]
		tauP := tau + b.Gap

		// ---- concrete block
		var ext types.Extrinsic
		for i := 0; i < b.Tickets; i++ {
			ext.Tickets = append(ext.Tickets, types.TicketEnvelope{Attempt: types.TicketAttempt(i % 3)})
		}
		for _, p := range b.Preimages {
			ext.Preimages = append(ext.Preimages, types.Preimage{Requester: types.ServiceID(p.Requester), Blob: make(types.ByteSequence, p.Size)})
		}
		var present []types.WorkReport
		for _, g := range b.Guarantees {
			wr := c34MkReport(g.Report)
			rg := types.ReportGuarantee{Report: wr, Slot: types.TimeSlot(g.Slot)}
			for _, v := range g.Signers {
				rg.Signatures = append(rg.Signatures, types.ValidatorSignature{ValidatorIndex: types.ValidatorIndex(v)})
			}
			ext.Guarantees = append(ext.Guarantees, rg)
			present = append(present, wr)
		}
		for _, a := range b.Assurances {
			ext.Assurances = append(ext.Assurances, types.AvailAssurance{ValidatorIndex: types.ValidatorIndex(a.Validator),
				Bitfield: append(types.Bitfield(nil), a.Bits...)})
		}
		var avail []types.WorkReport
		for _, r := range b.Available {
			avail = append(avail, c34MkReport(r))
		}
		acc := types.AccumulationStatistics{}
		for _, a := range b.AccStats {
			acc[types.ServiceID(a.Service)] = types.GasAndNumAccumulatedReports{Gas: types.Gas(a.Gas), NumAccumulatedReports: types.U64(a.Count)}
		}

		// ---- prime the singleton for this block (nothing inherited except the carried pi)
		prior, post, mid := cs.GetPriorStates(), cs.GetPosteriorStates(), cs.GetIntermediateStates()
		prior.SetTau(types.TimeSlot(tau))
		prior.SetPi(implPi)
		post.SetPi(types.Statistics{ValsCurr: types.ValidatorsStatistics{}, ValsLast: types.ValidatorsStatistics{}, Cores: types.CoresStatistics{}, Services: types.ServicesStatistics{}})
		post.SetTau(types.TimeSlot(tauP))
		kappaP := c34Vals(b.Kappa)
		post.SetKappa(kappaP)
		post.SetLambda(c34Vals(b.Lambda))
		var eta types.EntropyBuffer
		for i := range eta {
			eta[i] = types.Entropy(sha256.Sum256([]byte{b.Eta, byte(i)}))
		}
		post.SetEta(eta)
		var psiO []types.Ed25519Public
		for _, o := range b.Offenders {
			psiO = append(psiO, c34Pub(o))
		}
		sort.Slice(psiO, func(i, j int) bool { return string(psiO[i][:]) < string(psiO[j][:]) })
		post.SetPsiO(psiO)
		mid.SetPresentWorkReports(present)
		mid.SetAvailableWorkReports(avail)
		mid.SetAccumulationStatistics(acc)
		cs.AddBlock(types.Block{Header: types.Header{Slot: types.TimeSlot(tauP), AuthorIndex: types.ValidatorIndex(b.Author)}, Extrinsic: ext})

		// ---- model (GP 13.3-13.16)
		var a []c34Rec
		var wantLast []c34Rec
		epochChange := tauP/c34E != tau/c34E
		if !epochChange {
			a = append([]c34Rec(nil), mCurr...)
			wantLast = append([]c34Rec(nil), mLast...)
		} else {
			a = make([]c34Rec, c34V)
			wantLast = append([]c34Rec(nil), mCurr...)
		}
		a[b.Author][0]++
		a[b.Author][1] += uint32(b.Tickets)
		a[b.Author][2] += uint32(len(b.Preimages))
		for _, p := range b.Preimages {
			a[b.Author][3] += uint32(p.Size)
		}
		off := map[int]bool{}
		for _, o := range b.Offenders {
			off[o] = true
		}
		reporters := map[types.Ed25519Public]bool{}
		for _, g := range b.Guarantees {
			ks := c34KeySet(b, tauP, g.Slot)
			for _, v := range g.Signers {
				if off[ks[v]] {
					reporters[types.Ed25519Public{}] = true // Phi: nulled key (excluded from the domain above)
				} else {
					reporters[c34Pub(ks[v])] = true
				}
			}
		}
		for v := 0; v < c34V; v++ {
			if reporters[c34Pub(b.Kappa[v])] {
				a[v][4]++
			}
		}
		for _, as := range b.Assurances {
			a[as.Validator][5]++
		}
		wantCores := make([]c34Core, c34C)
		for _, g := range b.Guarantees {
			k := &wantCores[g.Report.Core]
			for _, d := range g.Report.Results {
				k.i += uint64(d.Imports)
				k.x += uint64(d.XCount)
				k.z += uint64(d.XSize)
				k.e += uint64(d.Exports)
				k.u += d.Gas
			}
			k.b += uint64(g.Report.Length)
		}
		for _, r := range b.Available {
			n := uint64(r.ExportsCount)
			wantCores[r.Core].d += uint64(r.Length) + c34WG*((n*65+63)/64)
		}
		for _, as := range b.Assurances {
			for core := 0; core < c34C; core++ {
				wantCores[core].p += uint64(as.Bits[core])
			}
		}
		wantSvc := map[uint32]*c34Svc{}
		svc := func(s uint32) *c34Svc {
			if wantSvc[s] == nil {
				wantSvc[s] = &c34Svc{}
			}
			return wantSvc[s]
		}
		for _, g := range b.Guarantees {
			for _, d := range g.Report.Results {
				k := svc(d.Service)
				k.rn++
				k.ru += d.Gas
				k.i += uint64(d.Imports)
				k.x += uint64(d.XCount)
				k.z += uint64(d.XSize)
				k.e += uint64(d.Exports)
			}
		}
		for _, p := range b.Preimages {
			k := svc(p.Requester)
			k.pc++
			k.ps += uint64(p.Size)
		}
		for _, ac := range b.AccStats {
			k := svc(ac.Service)
			k.an += uint64(ac.Count)
			k.au += ac.Gas
		}

		// ---- run
		kappaBefore := append(types.ValidatorsData(nil), kappaP...)
		if err := UpdateStatistics(); err != nil {
			c.Failf("block %d: UpdateStatistics returned %v", bi, err)
		}
		got := post.GetPi()

		// ---- compare
		if len(got.ValsCurr) != c34V || len(got.ValsLast) != c34V {
			c.Failf("block %d: pi'_V has %d records, pi'_L %d (V=%d)", bi, len(got.ValsCurr), len(got.ValsLast), c34V)
		}
		names := []string{"blocks", "tickets", "preimages", "preimage_octets", "guarantees", "assurances"}
		gc, gl := c34FromStats(got.ValsCurr), c34FromStats(got.ValsLast)
		for v := 0; v < c34V; v++ {
			for f := 0; f < 6; f++ {
				if gc[v][f] != a[v][f] {
					c.Failf("block %d (tau %d -> %d, epoch change %v, author %d): pi'_V[%d].%s = %d, GP 13.4/13.5 give %d", bi, tau, tauP, epochChange, b.Author, v, names[f], gc[v][f], a[v][f])
				}
				if gl[v][f] != wantLast[v][f] {
					c.Failf("block %d (tau %d -> %d, epoch change %v): pi'_L[%d].%s = %d, GP 13.3 gives %d", bi, tau, tauP, epochChange, v, names[f], gl[v][f], wantLast[v][f])
				}
			}
		}
		if len(got.Cores) != c34C {
			c.Failf("block %d: pi'_C has %d records", bi, len(got.Cores))
		}
		for core := 0; core < c34C; core++ {
			g := got.Cores[core]
			have := c34Core{uint64(g.DALoad), uint64(g.Popularity), uint64(g.Imports), uint64(g.ExtrinsicCount), uint64(g.ExtrinsicSize), uint64(g.Exports), uint64(g.BundleSize), uint64(g.GasUsed)}
			if have != wantCores[core] {
				c.Failf("block %d: pi'_C[%d] = %+v (d p i x z e b u), GP 13.8-13.10 give %+v", bi, core, have, wantCores[core])
			}
		}
		if len(got.Services) != len(wantSvc) {
			c.Failf("block %d: pi'_S has %d services, GP 13.13 gives %d", bi, len(got.Services), len(wantSvc))
		}
		for s, w := range wantSvc {
			g, ok := got.Services[types.ServiceID(s)]
			if !ok {
				c.Failf("block %d: pi'_S lacks service %d", bi, s)
			}
			have := c34Svc{uint64(g.ProvidedCount), uint64(g.ProvidedSize), uint64(g.RefinementCount), uint64(g.RefinementGasUsed), uint64(g.Imports),
				uint64(g.ExtrinsicCount), uint64(g.ExtrinsicSize), uint64(g.Exports), uint64(g.AccumulateCount), uint64(g.AccumulateGasUsed)}
			if have != *w {
				c.Failf("block %d: pi'_S[%d] = %+v (pc ps rn ru i x z e an au), GP 13.12-13.16 give %+v", bi, s, have, *w)
			}
		}
		// observation outside the stated property: is the prepared kappa' left alone?
		nowKappa := post.GetKappa()
		for i := range kappaBefore {
			if i < len(nowKappa) && nowKappa[i].Ed25519 != kappaBefore[i].Ed25519 {
				c.Class("obs_posterior_kappa_key_nulled_in_place")
				break
			}
		}

		// ---- classes
		if epochChange {
			c.Class("blk_epoch_change")
			if b.Gap > c34E {
				c.Class("blk_skips_whole_epoch")
			}
		}
		if len(b.Guarantees) > 0 {
			c.Class("blk_with_guarantees")
			for _, g := range b.Guarantees {
				if tauP/c34R != g.Slot/c34R {
					c.Class("guarantee_prev_rotation")
					if !(tauP >= c34R && (tauP-c34R)/c34E == tauP/c34E) {
						c.Class("guarantee_prev_rotation_uses_lambda")
					}
				}
			}
		}
		if len(b.Assurances) > 0 {
			c.Class("blk_with_assurances")
		}
		if len(b.Available) > 0 {
			c.Class("blk_with_available_reports")
		}
		if len(wantSvc) > 0 {
			c.Class("blk_with_service_records")
		}
		if epochChange || (len(b.Guarantees) > 0 && len(b.Assurances) > 0) {
			nontrivial = true
		}

		// ---- commit as ChainState.StateCommit does (posterior -> prior), model likewise
		implPi = got
		mCurr, mLast = a, wantLast
		tau = tauP
	}
	if nontrivial {
		c.NonTrivial()
	}
}

// ---------------------------------------------------------------- generator

func c34GenReport(rt *rapid.T, core int, services []uint32) c34Report {
	r := c34Report{Core: core,
		Length:       rapid.OneOf(rapid.Uint32Range(0, 300), rapid.Uint32Range(0, 13_000_000)).Draw(rt, "len"),
		ExportsCount: uint16(rapid.OneOf(rapid.IntRange(0, 3), rapid.SampledFrom([]int{63, 64, 65, 127, 128, 3072}), rapid.IntRange(0, 3072)).Draw(rt, "nexports"))}
	nres := rapid.IntRange(1, 4).Draw(rt, "nresults")
	for i := 0; i < nres; i++ {
		r.Results = append(r.Results, c34Result{
			Service: rapid.SampledFrom(services).Draw(rt, "rsvc"),
			Gas:     rapid.OneOf(rapid.Uint64Range(0, 1000), rapid.Uint64Range(0, 1<<40)).Draw(rt, "gas"),
			Imports: uint16(rapid.IntRange(0, 700).Draw(rt, "imports")),
			XCount:  uint16(rapid.IntRange(0, 128).Draw(rt, "xcount")),
			XSize:   rapid.Uint32Range(0, 1<<20).Draw(rt, "xsize"),
			Exports: uint16(rapid.IntRange(0, 700).Draw(rt, "exports")),
		})
	}
	return r
}

func c34Gen(rt *rapid.T) c34Input {
	in := c34Input{Mode: "tiny"}
	in.Tau0 = rapid.OneOf(rapid.Uint32Range(0, 40), rapid.Uint32Range(0, 100000)).Draw(rt, "tau0")
	rec := func(label string) c34Rec {
		var r c34Rec
		if rapid.Bool().Draw(rt, label+"zero") {
			return r
		}
		for f := range r {
			r[f] = rapid.Uint32Range(0, 50).Draw(rt, label)
		}
		return r
	}
	for v := 0; v < c34V; v++ {
		in.Curr = append(in.Curr, rec("curr"))
		in.Last = append(in.Last, rec("last"))
	}
	services := []uint32{0, 1, 5, 70000, 0xFFFFFFFF}
	const pool = 10
	seq := make([]int, pool)
	for i := range seq {
		seq[i] = i
	}
	kappa := append([]int(nil), rapid.Permutation(seq).Draw(rt, "kappa0")[:c34V]...)
	lambda := append([]int(nil), rapid.Permutation(seq).Draw(rt, "lambda0")[:c34V]...)
	var offenders []int
	isOff := map[int]bool{}
	tau := in.Tau0
	nb := rapid.OneOf(rapid.IntRange(1, 4), rapid.IntRange(2, 14)).Draw(rt, "nblocks")
	for bi := 0; bi < nb; bi++ {
		var b c34Block
		b.Gap = uint32(rapid.SampledFrom([]int{1, 1, 1, 1, 2, 3, 5, c34E - 1, c34E, c34E + 1, 2*c34E + 3}).Draw(rt, "gap"))
		tauP := tau + b.Gap
		if tauP/c34E != tau/c34E {
			// key rotation at the epoch change: lambda' = kappa, kappa' = a (partly) new set
			lambda = kappa
			if rapid.IntRange(0, 3).Draw(rt, "sameSet") != 0 {
				kappa = append([]int(nil), rapid.Permutation(seq).Draw(rt, "kappaN")[:c34V]...)
			}
		}
		if rapid.IntRange(0, 4).Draw(rt, "newOffender") == 0 {
			o := rapid.IntRange(0, pool-1).Draw(rt, "offender")
			if !isOff[o] {
				isOff[o] = true
				offenders = append(offenders, o)
			}
		}
		b.Kappa = append([]int(nil), kappa...)
		b.Lambda = append([]int(nil), lambda...)
		b.Offenders = append([]int(nil), offenders...)
		b.Eta = rapid.Byte().Draw(rt, "eta")
		b.Author = rapid.IntRange(0, c34V-1).Draw(rt, "author")
		b.Tickets = rapid.IntRange(0, c34K).Draw(rt, "tickets")
		np := rapid.SampledFrom([]int{0, 0, 1, 2, 3, 6}).Draw(rt, "npreimages")
		for i := 0; i < np; i++ {
			b.Preimages = append(b.Preimages, c34Preimage{Requester: rapid.SampledFrom(services).Draw(rt, "psvc"),
				Size: rapid.OneOf(rapid.IntRange(0, 3), rapid.IntRange(0, 300)).Draw(rt, "psize")})
		}
		for core := 0; core < c34C; core++ {
			if rapid.IntRange(0, 2).Draw(rt, "hasGuarantee") == 0 {
				continue
			}
			g := c34Guarantee{Report: c34GenReport(rt, core, services)}
			rot := tauP / c34R
			if rot >= 1 && rapid.IntRange(0, 2).Draw(rt, "prevRotation") == 0 {
				g.Slot = c34R*(rot-1) + uint32(rapid.IntRange(0, c34R-1).Draw(rt, "slotInRot"))
			} else {
				g.Slot = c34R*rot + uint32(rapid.IntRange(0, int(tauP-c34R*rot)).Draw(rt, "slotInRot"))
			}
			ks := c34KeySet(&b, tauP, g.Slot)
			var eligible []int
			for v := 0; v < c34V; v++ {
				if !isOff[ks[v]] {
					eligible = append(eligible, v)
				}
			}
			ns := rapid.IntRange(2, 3).Draw(rt, "nsigners")
			if len(eligible) < ns {
				continue
			}
			p := rapid.Permutation(eligible).Draw(rt, "signers")[:ns]
			g.Signers = append([]int(nil), p...)
			sort.Ints(g.Signers)
			b.Guarantees = append(b.Guarantees, g)
		}
		for v := 0; v < c34V; v++ {
			if rapid.IntRange(0, 2).Draw(rt, "assures") == 0 {
				bits := make([]byte, c34C)
				for core := range bits {
					if rapid.Bool().Draw(rt, "bit") {
						bits[core] = 1
					}
				}
				b.Assurances = append(b.Assurances, c34Assurance{Validator: v, Bits: bits})
			}
		}
		for core := 0; core < c34C; core++ {
			if rapid.IntRange(0, 2).Draw(rt, "hasAvailable") == 0 {
				b.Available = append(b.Available, c34GenReport(rt, core, services))
			}
		}
		for _, s := range services {
			if rapid.IntRange(0, 3).Draw(rt, "hasAcc") == 0 {
				b.AccStats = append(b.AccStats, c34Acc{Service: s, Gas: rapid.OneOf(rapid.Uint64Range(0, 1000), rapid.Uint64Range(0, 1<<40)).Draw(rt, "accgas"),
					Count: rapid.Uint32Range(0, 20).Draw(rt, "accn")})
			}
		}
		in.Blocks = append(in.Blocks, b)
		tau = tauP
	}
	return in
}

func TestVerif_C34(t *testing.T) {
	s := kit.Begin(t, "C34")
	defer s.Finish()
	s.EnableSentinel()
	logger.Disable()
	kit.Run(s, "statistics_histories_vs_gp_model", kit.N{Quick: 8000, Thorough: 200000}, c34Gen, c34Check)
}
