package PVM

// C05: guest memory protection. Part 1: load/store programs at page edges of
// mixed RW / RO / present-but-inaccessible / absent pages, judged by the
// reference machine's memory model AND by direct frame invariants. Part 2: sbrk
// sequences on memories produced by SingleInitializer (implementation-only
// invariants; the numeric sbrk result is not asserted, see DESIGN.md C05).

import (
	"bytes"
	"fmt"
	"testing"

	kit "github.com/New-JAMneration/JAM-Protocol/internal/verifkit"
	"pgregory.net/rapid"
)

// ---- part 1 ----

type c05MemOp struct {
	Op   int    `json:"op"`   // opcode (memory instruction)
	RegA int    `json:"ra"`   // low nibble
	RegB int    `json:"rb"`   // high nibble
	Imm  uint32 `json:"imm"`  // 4-byte immediate (address or offset)
	Val  uint32 `json:"val"`  // second immediate for store_imm*
}

type c05Input struct {
	Ops   []c05MemOp `json:"ops"`
	Pages []vpPage   `json:"pages"`
	Regs  [13]uint64 `json:"regs"`
}

var c05MemOpcodes = []int{30, 31, 32, 33, 52, 53, 54, 55, 56, 57, 58, 59, 60, 61, 62, 70, 71, 72, 73,
	120, 121, 122, 123, 124, 125, 126, 127, 128, 129, 130}

func c05Width(op int) int {
	switch op {
	case 30, 52, 53, 59, 70, 120, 124, 125:
		return 1
	case 31, 54, 55, 60, 71, 121, 126, 127:
		return 2
	case 32, 56, 57, 61, 72, 122, 128, 129:
		return 4
	}
	return 8
}

func c05IsStore(op int) bool {
	return (op >= 30 && op <= 33) || (op >= 59 && op <= 62) || (op >= 70 && op <= 73) || (op >= 120 && op <= 123)
}

func c05Gen(rt *rapid.T) c05Input {
	var in c05Input
	// page map around 2^16, a middle pair and the top page
	cands := []uint32{16, 17, 18, 32, 33, 34, 0xFFFFE, 0xFFFFF}
	for _, p := range cands {
		switch rapid.IntRange(0, 4).Draw(rt, "pk") {
		case 0: // absent
		case 1:
			in.Pages = append(in.Pages, vpPage{Page: p, Access: 0, Fill: uint8(rapid.IntRange(1, 255).Draw(rt, "f"))})
		case 2:
			in.Pages = append(in.Pages, vpPage{Page: p, Access: 1, Fill: uint8(rapid.IntRange(1, 255).Draw(rt, "f"))})
		default:
			in.Pages = append(in.Pages, vpPage{Page: p, Access: 2, Fill: uint8(rapid.IntRange(0, 255).Draw(rt, "f"))})
		}
	}
	addr := func(label string) uint64 {
		p := rapid.SampledFrom(append(cands, 15, 19, 0x1000)).Draw(rt, label+"_p")
		off := rapid.SampledFrom([]int64{-8, -7, -4, -3, -2, -1, 0, 1, 2, 3, 4, 7, 8, 2000, 4088, 4089, 4092, 4093, 4094, 4095}).Draw(rt, label+"_o")
		return uint64(int64(uint64(p)*4096)+off) & 0xFFFFFFFF
	}
	for i := range in.Regs {
		if i%2 == 0 {
			in.Regs[i] = addr("r")
			if rapid.IntRange(0, 5).Draw(rt, "hi") == 0 {
				in.Regs[i] |= uint64(rapid.IntRange(1, 1000).Draw(rt, "hib")) << 32
			}
		} else {
			in.Regs[i] = vpGenU64(rt, "rv")
		}
	}
	n := rapid.IntRange(1, 6).Draw(rt, "nops")
	for i := 0; i < n; i++ {
		op := rapid.SampledFrom(c05MemOpcodes).Draw(rt, "op")
		m := c05MemOp{Op: op, RegA: rapid.IntRange(0, 12).Draw(rt, "ra"), RegB: rapid.IntRange(0, 6).Draw(rt, "rb") * 2, Val: uint32(rapid.Uint32().Draw(rt, "val"))}
		switch {
		case op <= 33 || (op >= 52 && op <= 62): // absolute address in the immediate
			m.Imm = uint32(addr("abs"))
		default: // register + offset
			m.Imm = uint32(rapid.SampledFrom([]int32{0, 0, 1, -1, 4, -4, 8, 4095, -4096}).Draw(rt, "off"))
			if op >= 70 && op <= 73 {
				m.RegA = rapid.IntRange(0, 6).Draw(rt, "ra2") * 2
			}
		}
		in.Ops = append(in.Ops, m)
	}
	return in
}

func c05Assemble(in c05Input) []byte {
	var code []byte
	var k []bool
	emit := func(b ...byte) {
		for i, x := range b {
			code = append(code, x)
			k = append(k, i == 0)
		}
	}
	le4 := func(v uint32) []byte { return []byte{byte(v), byte(v >> 8), byte(v >> 16), byte(v >> 24)} }
	for _, m := range in.Ops {
		op := byte(m.Op)
		switch {
		case m.Op >= 30 && m.Op <= 33: // two immediates: lX=4, then lY=4
			emit(append(append([]byte{op, 4}, le4(m.Imm)...), le4(m.Val)...)...)
		case m.Op >= 52 && m.Op <= 62: // reg + imm
			emit(append([]byte{op, byte(m.RegA)}, le4(m.Imm)...)...)
		case m.Op >= 70 && m.Op <= 73: // reg + two imm: lX=4
			emit(append(append([]byte{op, byte(m.RegA) | 4<<4}, le4(m.Imm)...), le4(m.Val)...)...)
		default: // two regs + imm
			emit(append([]byte{op, byte(m.RegA) | byte(m.RegB)<<4}, le4(m.Imm)...)...)
		}
	}
	emit(0)
	return vpAssemble(code, k, nil, 0)
}

func c05Check(c *kit.Case, in c05Input) {
	if len(in.Ops) == 0 || len(in.Ops) > 32 {
		return
	}
	for _, m := range in.Ops {
		ok := false
		for _, o := range c05MemOpcodes {
			ok = ok || o == m.Op
		}
		if !ok || m.RegA < 0 || m.RegA > 12 || m.RegB < 0 || m.RegB > 12 {
			return
		}
	}
	st := vpState{Blob: c05Assemble(in), Pages: in.Pages, Regs: in.Regs, Gas: 100}
	want, m, status := vpRunRef(&st, 1000)
	if status != 0 || m == nil {
		c.Failf("harness bug: assembled blob not accepted by the reference (status %d)", status)
	}
	got := vpRunImpl(&st)
	// classes by the access that ended the run (or the last one)
	if want.Kind == "fault" || (want.Kind == "panic" && m.FaultLen > 0) {
		if (m.FaultStart%4096)+uint64(m.FaultLen) > 4096 {
			c.Class("failing_access_crosses_page")
			c.NonTrivial()
		}
		if p := st.pageOf(uint32(m.FaultLo / 4096)); p != nil && p.Access == 0 {
			c.Class("failing_access_on_present_inaccessible_page")
			c.NonTrivial()
		}
		if p := st.pageOf(uint32(m.FaultLo / 4096)); p != nil && p.Access == 1 {
			c.Class("store_to_read_only")
			c.NonTrivial()
		}
		if m.FaultLo < 1<<16 {
			c.Class("below_2^16")
		}
	}
	c.Class("exit_" + want.Kind)
	if m.Steps > 1 {
		c.Class("some_access_succeeded")
	}
	if d := c01Diff(want, got, m); d != "" {
		c.Failf("%s\nreference: %s\nimplementation: %s", d, c01Show(want), c01Show(got))
	}
	// direct frame invariant, independent of the reference's stepping: a run whose FIRST access
	// fails leaves registers and every page untouched
	if m.Steps == 1 && (want.Kind == "fault" || want.Kind == "panic") {
		if got.Regs != st.Regs {
			c.Failf("failing first access changed registers: %x -> %x", st.Regs, got.Regs)
		}
		if d := vpMemDiff(vpImplMemObs(vpImplMemory(st.Pages)), got.MemDigest); d != "" {
			c.Failf("failing first access changed memory: %s", d)
		}
	}
}

func (st *vpState) pageOf(n uint32) *vpPage {
	for i := range st.Pages {
		if st.Pages[i].Page == n {
			return &st.Pages[i]
		}
	}
	return nil
}

// ---- part 2: sbrk ----

type c05SbrkStep struct {
	Size  uint64 `json:"size"`
	Poke  bool   `json:"poke"`  // store a marker at the last byte below the heap pointer afterwards (if writable)
	Probe bool   `json:"probe"` // load from the heap pointer afterwards (must fault or be zero)
}

type c05SbrkInput struct {
	OLen  int           `json:"o"`
	WLen  int           `json:"w"`
	Z     int           `json:"z"`
	S     int           `json:"s"`
	Steps []c05SbrkStep `json:"steps"`
}

func c05GenSbrk(rt *rapid.T) c05SbrkInput {
	in := c05SbrkInput{
		OLen: rapid.SampledFrom([]int{0, 1, 4096, 5000}).Draw(rt, "o"),
		WLen: rapid.SampledFrom([]int{0, 1, 4095, 4096, 4097, 9000}).Draw(rt, "w"),
		Z:    rapid.SampledFrom([]int{0, 0, 1, 3}).Draw(rt, "z"),
		S:    rapid.SampledFrom([]int{0, 4096, 8192}).Draw(rt, "s"),
	}
	n := rapid.IntRange(1, 12).Draw(rt, "n")
	for i := 0; i < n; i++ {
		sz := rapid.SampledFrom([]uint64{0, 1, 7, 4095, 4096, 4097, 8192, 12288, 1 << 20, 1 << 32, 0xFFFFFFFF, 1 << 63, ^uint64(0), 0xFF000000, 1<<64 - 4096}).Draw(rt, "size")
		in.Steps = append(in.Steps, c05SbrkStep{Size: sz, Poke: rapid.Bool().Draw(rt, "poke"), Probe: rapid.Bool().Draw(rt, "probe")})
	}
	return in
}

func c05CheckSbrk(c *kit.Case, in c05SbrkInput) {
	if in.OLen < 0 || in.WLen < 0 || in.Z < 0 || in.S < 0 || in.OLen > 1<<16 || in.WLen > 1<<16 || in.Z > 64 || in.S > 1<<16 {
		return
	}
	// program: sbrk r1 <- r2 ; trap      (opcode 101, byte = rD | rA<<4)
	code := []byte{101, 1 | 2<<4, 0}
	blob := vpAssemble(code, []bool{true, false, true}, nil, 0)
	var p []byte
	p = append(p, c03ishLE(uint64(in.OLen), 3)...)
	p = append(p, c03ishLE(uint64(in.WLen), 3)...)
	p = append(p, c03ishLE(uint64(in.Z), 2)...)
	p = append(p, c03ishLE(uint64(in.S), 3)...)
	p = append(p, bytes.Repeat([]byte{0xAB}, in.OLen)...)
	p = append(p, bytes.Repeat([]byte{0xCD}, in.WLen)...)
	p = append(p, c03ishLE(uint64(len(blob)), 4)...)
	p = append(p, blob...)
	progBytes, _, mem, er := SingleInitializer(StandardCodeFormat(p), Argument{1, 2, 3})
	if er != ExitContinue {
		c.Failf("harness bug: initializer rejected the blob")
	}
	prog, er2 := DeBlobProgramCode(progBytes)
	if er2 != ExitContinue {
		c.Failf("harness bug: deblob rejected the sbrk program")
	}
	stackStart := uint64(1<<32) - 2*(1<<16) - (1 << 24) - c06P(uint64(in.S))
	type snap struct {
		access MemoryAccess
		data   []byte
	}
	snapshot := func() map[uint32]snap {
		o := map[uint32]snap{}
		for n, pg := range mem.Pages {
			if pg != nil {
				o[n] = snap{pg.Access, append([]byte(nil), pg.Value...)}
			}
		}
		return o
	}
	prevHeap := mem.heapPointer
	grew := false
	for si, stp := range in.Steps {
		before := snapshot()
		var regs Registers
		regs[2] = stp.Size
		interp := NewInterpreter(&prog, regs, &mem, 10)
		var exit ExitReason
		func() {
			defer func() {
				if r := recover(); r != nil {
					c.Failf("step %d: Go runtime panic in sbrk(%#x): %v", si, stp.Size, r)
				}
			}()
			exit, _ = interp.SingleStepInvokeDecodedBlocks(0)
		}()
		if exit.GetReasonType() != PANIC { // sbrk continues, then the trap panics
			c.Failf("step %d: sbrk(%#x) program ended with %v, want the trailing trap", si, stp.Size, exit)
		}
		if interp.Gas != 8 {
			c.Failf("step %d: sbrk charged %d gas, want 1", si, 10-interp.Gas-1)
		}
		heap := mem.heapPointer
		if heap < prevHeap {
			c.Failf("step %d: heap pointer decreased %#x -> %#x", si, prevHeap, heap)
		}
		if heap > stackStart {
			c.Failf("step %d: heap pointer %#x beyond the stack boundary %#x", si, heap, stackStart)
		}
		res := interp.Registers[1]
		if heap == prevHeap && stp.Size != 0 {
			c.Class("sbrk_refused")
			if res != 0 && res != prevHeap {
				c.Failf("step %d: refused sbrk(%#x) returned %#x (neither 0 nor the unchanged heap pointer)", si, stp.Size, res)
			}
			if prevHeap+stp.Size <= stackStart && prevHeap+stp.Size >= prevHeap {
				c.Failf("step %d: sbrk(%#x) refused although %#x+size fits below the stack boundary %#x", si, stp.Size, prevHeap, stackStart)
			}
		} else if stp.Size != 0 {
			if res < uint64(2*(1<<16)) || res > stackStart {
				c.Failf("step %d: sbrk result %#x outside the heap region", si, res)
			}
			if heap-prevHeap != stp.Size {
				c.Failf("step %d: heap grew by %#x for a request of %#x", si, heap-prevHeap, stp.Size)
			}
		}
		after := snapshot()
		for n, b := range before {
			a, ok := after[n]
			if !ok {
				c.Failf("step %d: page %#x disappeared", si, n)
			}
			if b.access != MemoryInaccessible {
				if a.access != b.access {
					c.Failf("step %d: access of page %#x changed %d -> %d", si, n, b.access, a.access)
				}
				if !bytes.Equal(a.data, b.data) {
					c.Failf("step %d: sbrk(%#x) modified already-accessible page %#x (live data zeroed?)", si, stp.Size, n)
				}
			}
		}
		for n, a := range after {
			b, existed := before[n]
			if existed && b.access != MemoryInaccessible {
				continue
			}
			if a.access == MemoryInaccessible {
				continue
			}
			// newly accessible page
			grew = true
			addr := uint64(n) * 4096
			if a.access != MemoryReadWrite {
				c.Failf("step %d: new page %#x has access %d", si, n, a.access)
			}
			if addr+4096 <= prevHeap/4096*4096 || addr >= (heap+4095)/4096*4096 {
				c.Failf("step %d: page %#x became accessible outside the grown range [%#x,%#x)", si, n, prevHeap, heap)
			}
			if addr >= stackStart {
				c.Failf("step %d: page %#x at/after the stack boundary became accessible", si, n)
			}
			for i, x := range a.data {
				if x != 0 {
					c.Failf("step %d: newly exposed page %#x is not zero at offset %d", si, n, i)
				}
			}
		}
		// every byte below the heap pointer (from the heap base) must now be writable
		if heap > prevHeap {
			if pg, ok := mem.Pages[uint32((heap-1)/4096)]; !ok || pg.Access != MemoryReadWrite {
				c.Failf("step %d: byte %#x just below the heap pointer is not writable after sbrk", si, heap-1)
			}
			if (prevHeap+4095)/4096 != (heap+4095)/4096 {
				c.Class("sbrk_crossed_page")
				c.NonTrivial()
			}
		}
		if stp.Poke && heap > uint64(2*(1<<16)) {
			if pg, ok := mem.Pages[uint32((heap-1)/4096)]; ok && pg.Access == MemoryReadWrite {
				pg.Value[(heap-1)%4096] = byte(si + 1)
			}
		}
		prevHeap = heap
	}
	if grew {
		c.Class("heap_grew")
	}
	_ = fmt.Sprint
}

func TestVerif_C05(t *testing.T) {
	s := kit.Begin(t, "C05")
	defer s.Finish()
	kit.Run(s, "load_store_protection", kit.N{Quick: 50000, Thorough: 3000000}, c05Gen, c05Check)
	kit.Run(s, "sbrk_sequences", kit.N{Quick: 6000, Thorough: 300000}, c05GenSbrk, c05CheckSbrk)
}

// FuzzVerif_C05: native coverage-guided fuzzing of the load/store protection check (thorough tier).
func FuzzVerif_C05(f *testing.F) {
	kit.Fuzz(f, "C05", "load_store_protection", c05Gen, c05Check)
}
