package PVM

// C04: gas metering and reported gas usage.
//  (1) gas sweep: generated programs run with EVERY gas limit 0..N+1 (N = steps the
//      reference needs): the exit is out-of-gas exactly when the limit cannot pay
//      and the state then equals the reference state after exactly the paid steps;
//  (2) host-call charges through Psi_M with the real dispatcher (gas, log,
//      undefined identifiers incl. > 255): each costs 1 (ecalli) + 10, `gas`
//      reports the remainder, an unpaid call is out-of-gas;
//  (3) Psi_M reports 0 <= used <= limit for every limit incl. above 2^63, and a
//      program that needs N steps halts for every limit >= its cost.

import (
	"fmt"
	"math"
	"testing"

	"github.com/New-JAMneration/JAM-Protocol/internal/types"
	kit "github.com/New-JAMneration/JAM-Protocol/internal/verifkit"
	"pgregory.net/rapid"
)

type c04SweepIn struct {
	St vpState `json:"st"`
}

func c04GenSweep(rt *rapid.T) c04SweepIn {
	code, k, jt, z := vpGenProgram(rt, false, 10)
	pages := vpGenPages(rt)
	st := vpState{Blob: vpAssembleGen(rt, code, k, jt, z), Pages: pages, Regs: vpGenRegs(rt, pages), Gas: 400, Host: vpGenHost(rt)}
	return c04SweepIn{St: st}
}

func c04CheckSweep(c *kit.Case, in c04SweepIn) {
	st := in.St
	st.Gas = 400
	base, m, status := vpRunRef(&st, 100000)
	if status != 0 || m == nil || base.Kind == "unsupported" || base.Kind == "steplimit" {
		c.Class("out_of_domain")
		return
	}
	if m.Flags["pc_not_instr_start"] {
		c.Class("out_of_domain")
		return
	}
	if prog := m.P; uint64(st.PC) < uint64(len(prog.Code)) && !prog.IsBlockStart(uint64(st.PC)) {
		c.Class("out_of_domain")
		return
	}
	used := 400 - base.Gas // total gas a full run consumes (steps + stub fees), if it ends before 400
	if base.Kind == "oog" || used > 120 {
		used = 120
	}
	if used >= 1 {
		c.NonTrivial()
	}
	c.Class("exit_" + base.Kind)
	for g := int64(0); g <= used+1; g++ {
		s2 := st
		s2.Gas = g
		want, m2, _ := vpRunRef(&s2, 100000)
		got := vpRunImpl(&s2)
		if want.Kind == "oog" {
			c.Class("limit_hits_oog")
		}
		if d := c01Diff(want, got, m2); d != "" {
			c.Failf("gas limit %d of %d: %s\nreference: %s\nimplementation: %s", g, used, d, c01Show(want), c01Show(got))
		}
		if got.Gas < 0 && got.Kind != "oog" {
			c.Failf("gas limit %d: remaining gas %d is negative on exit %s", g, got.Gas, got.Kind)
		}
	}
}

// ---- (2) host-call charges through Psi_M ----

type c04HostIn struct {
	IDs   []uint32 `json:"ids"`   // ecalli immediates, in order
	Limit uint64   `json:"limit"` // 0 = sweep all limits
}

// c04StdBlob wraps an inner program into a standard program blob with no data, a 1-page stack.
func c04StdBlob(inner []byte) []byte {
	var p []byte
	p = append(p, c04LE(0, 3)...)
	p = append(p, c04LE(0, 3)...)
	p = append(p, c04LE(0, 2)...)
	p = append(p, c04LE(4096, 3)...)
	p = append(p, c04LE(uint64(len(inner)), 4)...)
	return append(p, inner...)
}

func c04LE(v uint64, n int) []byte {
	b := make([]byte, n)
	for i := range b {
		b[i] = byte(v >> (8 * uint(i)))
	}
	return b
}

// program: for each id: ecalli id ; store_u64 [slot_i] <- ω7   ... then halt with (ω7,ω8) = (stack page, 8*n)
func c04HostProgram(ids []uint32) []byte {
	var code []byte
	var k []bool
	emit := func(b ...byte) {
		for i, x := range b {
			code = append(code, x)
			k = append(k, i == 0)
		}
	}
	stack := uint32(1<<32 - 2*(1<<16) - (1 << 24) - 4096)
	for i, id := range ids {
		emit(append([]byte{10}, c04LE(uint64(id), 4)...)...)                       // ecalli id
		emit(append([]byte{62, 7}, c04LE(uint64(stack+uint32(8*i)), 4)...)...) // store_u64 [stack+8i] = ω7
	}
	emit(append([]byte{20, 7}, c04LE(uint64(stack), 8)...)...)            // load_imm_64 ω7 = stack
	emit(append([]byte{51, 8}, c04LE(uint64(8*len(ids)), 4)...)...)       // load_imm ω8 = 8n
	emit(50, 0)                                                             // jump_ind ω0 + 0  (ω0 = 2^32-2^16 => halt)
	return vpAssemble(code, k, nil, 0)
}

func c04GenHost(rt *rapid.T) c04HostIn {
	n := rapid.IntRange(1, 6).Draw(rt, "n")
	in := c04HostIn{}
	for i := 0; i < n; i++ {
		in.IDs = append(in.IDs, rapid.SampledFrom([]uint32{0, 0, 0, 100, 7, 26, 50, 99, 101, 255, 256, 1000, 0x7FFFFFFF, 0x80000000, 0xFFFFFFFF}).Draw(rt, "id"))
	}
	return in
}

func c04CheckHost(c *kit.Case, in c04HostIn) {
	if len(in.IDs) == 0 || len(in.IDs) > 16 {
		return
	}
	blob := c04StdBlob(c04HostProgram(in.IDs))
	n := len(in.IDs)
	total := uint64(n*(1+10+1) + 3) // per id: ecalli + 10 + store; then 2 load_imm + jump_ind
	// model of the run for a given limit: returns (oog, gas values reported by `gas` calls)
	model := func(limit uint64) (bool, []uint64) {
		g := int64(limit)
		out := make([]uint64, n)
		for i, id := range in.IDs {
			if g < 1 {
				return true, nil
			}
			g-- // ecalli
			g -= 10
			if g < 0 {
				return true, nil
			}
			switch {
			case id == 0:
				out[i] = uint64(g)
			case id == 100:
				out[i] = 0 // log leaves ω7 untouched; filled below from the previous value
			default:
				out[i] = WHAT
			}
			if g < 1 {
				return true, nil
			}
			g-- // store
		}
		for j := 0; j < 3; j++ {
			if g < 1 {
				return true, nil
			}
			g--
		}
		return false, out
	}
	c.NonTrivial()
	for limit := uint64(0); limit <= total+1; limit++ {
		var res Psi_M_ReturnType
		func() {
			defer func() {
				if r := recover(); r != nil {
					c.Failf("limit %d: Go runtime panic in Psi_M: %v", limit, r)
				}
			}()
			res = Psi_M(StandardCodeFormat(blob), 0, types.Gas(limit), Argument{}, IsAuthorizedOmegas, HostCallArgs{})
		}()
		oog, vals := model(limit)
		if uint64(res.Gas) > limit {
			c.Failf("limit %d: Psi_M reports %d gas used", limit, uint64(res.Gas))
		}
		if oog {
			c.Class("host_sweep_oog")
			if res.ReasonOrBytes != OUT_OF_GAS {
				c.Failf("ids %v limit %d (needs %d): expected out-of-gas, got %v (%T)", in.IDs, limit, total, res.ReasonOrBytes, res.ReasonOrBytes)
			}
			if uint64(res.Gas) != limit {
				c.Failf("ids %v limit %d: out-of-gas but gas used is %d (all of it must be consumed)", in.IDs, limit, uint64(res.Gas))
			}
			continue
		}
		c.Class("host_sweep_halt")
		out, ok := res.ReasonOrBytes.([]byte)
		if !ok {
			if bs, ok2 := res.ReasonOrBytes.(types.ByteSequence); ok2 {
				out, ok = []byte(bs), true
			}
		}
		if !ok {
			c.Failf("ids %v limit %d (needs %d): expected halt with output, got %v (%T)", in.IDs, limit, total, res.ReasonOrBytes, res.ReasonOrBytes)
		}
		if uint64(res.Gas) != total {
			c.Failf("ids %v limit %d: gas used %d, want %d (1 per instruction + 10 per host call)", in.IDs, limit, uint64(res.Gas), total)
		}
		if len(out) != 8*n {
			c.Failf("ids %v: output length %d, want %d", in.IDs, len(out), 8*n)
		}
		prev := uint64(1<<32 - (1 << 16) - (1 << 24)) // initial ω7 (argument base)
		for i, id := range in.IDs {
			var v uint64
			for b := 0; b < 8; b++ {
				v |= uint64(out[8*i+b]) << (8 * uint(b))
			}
			want := vals[i]
			if id == 100 {
				want = prev // log does not touch ω7
			}
			if v != want {
				c.Failf("ids %v limit %d: after call %d (id %#x) ω7 = %#x, want %#x", in.IDs, limit, i, id, v, want)
			}
			prev = v
		}
	}
}

// ---- (3) limits around and above 2^63 ----

type c04BigIn struct {
	Steps int    `json:"steps"` // fallthrough count before halting
	Limit uint64 `json:"limit"`
}

func c04GenBig(rt *rapid.T) c04BigIn {
	return c04BigIn{
		Steps: rapid.IntRange(0, 20).Draw(rt, "steps"),
		Limit: rapid.SampledFrom([]uint64{1 << 31, 1<<32 - 1, 1 << 32, 1<<62 + 5, math.MaxInt64 - 1, math.MaxInt64, 1 << 63, 1<<63 + 1, 1<<63 + 12345, math.MaxUint64 - 1, math.MaxUint64}).Draw(rt, "limit"),
	}
}

func c04CheckBig(c *kit.Case, in c04BigIn) {
	if in.Steps < 0 || in.Steps > 1000 {
		return
	}
	var code []byte
	var k []bool
	for i := 0; i < in.Steps; i++ {
		code = append(code, 1)
		k = append(k, true)
	}
	code = append(code, 50, 0) // jump_ind ω0 => halt
	k = append(k, true, false)
	blob := c04StdBlob(vpAssemble(code, k, nil, 0))
	var res Psi_M_ReturnType
	func() {
		defer func() {
			if r := recover(); r != nil {
				c.Failf("Go runtime panic in Psi_M: %v", r)
			}
		}()
		res = Psi_M(StandardCodeFormat(blob), 0, types.Gas(in.Limit), Argument{}, IsAuthorizedOmegas, HostCallArgs{})
	}()
	if in.Limit >= 1<<63 {
		c.Class("limit_ge_2^63")
		c.NonTrivial()
	}
	need := uint64(in.Steps + 1)
	if uint64(res.Gas) > in.Limit {
		c.Failf("limit %d: reported gas used %d exceeds the limit", in.Limit, uint64(res.Gas))
	}
	if res.ReasonOrBytes == OUT_OF_GAS {
		if in.Limit >= 1<<63 {
			c.Known("KF-C04-gas-above-2^63", fmt.Sprintf("limit %d (>= 2^63) runs out of gas immediately for a %d-step program", in.Limit, need))
		}
		c.Failf("limit %d: out-of-gas for a program that needs %d", in.Limit, need)
	}
	if uint64(res.Gas) != need {
		c.Failf("limit %d: gas used %d, want %d", in.Limit, uint64(res.Gas), need)
	}
}

func TestVerif_C04(t *testing.T) {
	s := kit.Begin(t, "C04")
	defer s.Finish()
	kit.Run(s, "gas_sweep_vs_reference", kit.N{Quick: 4000, Thorough: 120000}, c04GenSweep, c04CheckSweep)
	kit.Run(s, "host_call_charges", kit.N{Quick: 1500, Thorough: 60000}, c04GenHost, c04CheckHost)
	kit.Run(s, "limits_around_2^63", kit.N{Quick: 400, Thorough: 5000}, c04GenBig, c04CheckBig)
}
