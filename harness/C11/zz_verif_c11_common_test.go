package fuzz

// Shared helpers of the codec harnesses C11 / C13 / C14 (in-package test of
// internal/fuzz so that internal/types AND the fuzz-protocol messages are
// reachable from ONE package). Everything is prefixed cdc… .

import (
	"bufio"
	"bytes"
	"encoding/binary"
	"encoding/json"
	"fmt"
	"io"
	"os"
	"os/exec"
	"path/filepath"
	"reflect"
	"runtime/debug"
	"runtime/metrics"
	"sort"
	"strings"
	"sync"
	"time"

	"github.com/New-JAMneration/JAM-Protocol/internal/types"
	"github.com/New-JAMneration/JAM-Protocol/internal/verifref/typegen"
	"github.com/New-JAMneration/JAM-Protocol/logger"
	"pgregory.net/rapid"
)

// cdcCodec is one (type, codec entry point) pair under test.
type cdcCodec struct {
	Name string       // "types.Header", "fuzz.PeerInfo", "fuzz.SetState#codec", …
	Type reflect.Type // type of the value
	// Enc encodes *T (ptr). seg is the HashSegmentMap to install (never nil).
	Enc func(ptr any, seg types.HashSegmentMap, pooled bool) ([]byte, error)
	// Dec decodes into a fresh *T; consumed = -1 when the API does not report it.
	Dec func(data []byte, seg types.HashSegmentMap) (ptr any, consumed int, err error)
	// SelfDelimiting: decoding enc‖junk must still consume len(enc).
	SelfDelimiting bool
	HasEnc, HasDec bool
}

func cdcTypesCodec(name string, t reflect.Type, dir typegen.Dir) *cdcCodec {
	c := &cdcCodec{Name: "types." + name, Type: t, HasEnc: dir.Enc, HasDec: dir.Dec, SelfDelimiting: name != "MetaCode"}
	c.Enc = func(ptr any, seg types.HashSegmentMap, pooled bool) ([]byte, error) {
		if pooled {
			e := types.GetEncoder()
			e.SetHashSegmentMap(seg)
			b, err := e.Encode(ptr)
			types.PutEncoder(e)
			return b, err
		}
		e := types.NewEncoder()
		e.SetHashSegmentMap(seg)
		return e.Encode(ptr)
	}
	c.Dec = func(data []byte, seg types.HashSegmentMap) (any, int, error) {
		p := reflect.New(t).Interface()
		d := types.NewDecoder()
		d.SetHashSegmentMap(seg)
		n, err := d.DecodeWithConsumed(data, p)
		return p, n, err
	}
	return c
}

type cdcMarshaler interface{ MarshalBinary() ([]byte, error) }
type cdcUnmarshaler interface{ UnmarshalBinary([]byte) error }

func cdcBinaryCodec(name string, t reflect.Type) *cdcCodec {
	return &cdcCodec{Name: "fuzz." + name, Type: t, HasEnc: true, HasDec: true,
		Enc: func(ptr any, _ types.HashSegmentMap, _ bool) ([]byte, error) {
			return ptr.(cdcMarshaler).MarshalBinary()
		},
		Dec: func(data []byte, _ types.HashSegmentMap) (any, int, error) {
			p := reflect.New(t).Interface()
			err := p.(cdcUnmarshaler).UnmarshalBinary(data)
			return p, -1, err
		}}
}

// cdcFuzzCodecs: the fuzz-protocol message types and the method names that
// make a type of messages.go "serialisable" for the scan.
var cdcFuzzMethodNames = []string{"MarshalBinary", "UnmarshalBinary", "Encode", "Decode", "ReadFrom", "AppendBinary"}

func cdcFuzzCodecs() []*cdcCodec {
	out := []*cdcCodec{
		cdcBinaryCodec("PeerInfo", reflect.TypeOf(PeerInfo{})),
		cdcBinaryCodec("ImportBlock", reflect.TypeOf(ImportBlock{})),
		cdcBinaryCodec("ErrorMessage", reflect.TypeOf(ErrorMessage{})),
		cdcBinaryCodec("SetState", reflect.TypeOf(SetState{})),
		cdcBinaryCodec("GetState", reflect.TypeOf(GetState{})),
		cdcBinaryCodec("StateRoot", reflect.TypeOf(StateRoot{})),
		cdcBinaryCodec("State", reflect.TypeOf(State{})),
		cdcBinaryCodec("Features", reflect.TypeOf(Features(0))),
	}
	// SetState through the types.Encoder/Decoder entry points
	ss := cdcTypesCodec("SetState", reflect.TypeOf(SetState{}), typegen.Dir{Enc: true, Dec: true})
	ss.Name = "fuzz.SetState#codec"
	out = append(out, ss)
	// Version: AppendBinary / ReadFrom
	out = append(out, &cdcCodec{Name: "fuzz.Version", Type: reflect.TypeOf(Version{}), HasEnc: true, HasDec: true, SelfDelimiting: true,
		Enc: func(ptr any, _ types.HashSegmentMap, _ bool) ([]byte, error) { return ptr.(*Version).AppendBinary(nil) },
		Dec: func(data []byte, _ types.HashSegmentMap) (any, int, error) {
			v := new(Version)
			n, err := v.ReadFrom(bytes.NewReader(data))
			return v, int(n), err
		}})
	// Message: MarshalBinary / ReadFrom (length-prefixed frame)
	out = append(out, &cdcCodec{Name: "fuzz.Message", Type: reflect.TypeOf(Message{}), HasEnc: true, HasDec: true, SelfDelimiting: true,
		Enc: func(ptr any, _ types.HashSegmentMap, _ bool) ([]byte, error) { return ptr.(*Message).MarshalBinary() },
		Dec: func(data []byte, _ types.HashSegmentMap) (any, int, error) {
			m := new(Message)
			n, err := m.ReadFrom(bytes.NewReader(data))
			return m, int(n), err
		}})
	return out
}

// cdcFuzzTypeNames: the type names of messages.go covered by cdcFuzzCodecs.
var cdcFuzzCovered = map[string]bool{"PeerInfo": true, "ImportBlock": true, "ErrorMessage": true, "SetState": true,
	"GetState": true, "StateRoot": true, "State": true, "Features": true, "Version": true, "Message": true}

// cdcInconclusive stops the shard WITHOUT a verdict file: the driver reports
// "inconclusive" (exit 2), never a violation.
func cdcInconclusive(format string, a ...any) {
	fmt.Printf("INCONCLUSIVE (harness precondition): "+format+"\n", a...)
	os.Exit(3)
}

type cdcNoter interface{ Note(string, ...any) }

// cdcLoadCodecs builds the codec table from the generated registry and checks it
// against a go/parser scan of the CURRENT repository sources (VERIF_REPO_DIR).
func cdcLoadCodecs(s cdcNoter) (both []*cdcCodec, all []*cdcCodec) {
	repo := os.Getenv("VERIF_REPO_DIR")
	if repo == "" {
		repo = "/repo"
	}
	if os.Getenv(cdcWorkerEnv) != "" {
		// worker process: the parent has checked the registry against the sources already
		for _, e := range typegen.Registry() {
			all = append(all, cdcTypesCodec(e.Name, e.Type, typegen.Dir{Enc: true, Dec: true}))
		}
		all = append(all, cdcFuzzCodecs()...)
		return all, all
	}
	scan, err := typegen.ScanRepo(repo)
	if err != nil {
		cdcInconclusive("cannot scan %s: %v", repo, err)
	}
	missing, stale := typegen.CheckRegistry(scan)
	if len(missing) > 0 || len(stale) > 0 {
		cdcInconclusive("typegen registry out of date (missing %v, stale %v): run /verif/harness/ref/typegen/gen_registry.py", missing, stale)
	}
	for _, e := range typegen.Registry() {
		c := cdcTypesCodec(e.Name, e.Type, scan[e.Name])
		all = append(all, c)
		if c.HasEnc && c.HasDec {
			both = append(both, c)
		} else if s != nil {
			s.Note("types.%s has only one codec direction (Encode=%v Decode=%v): not round-trippable", e.Name, c.HasEnc, c.HasDec)
		}
	}
	ms, err := typegen.Methods(filepath.Join(repo, "internal/fuzz/messages.go"))
	if err != nil {
		cdcInconclusive("cannot scan messages.go: %v", err)
	}
	var unknown []string
	for name, set := range ms {
		ser := false
		for _, m := range cdcFuzzMethodNames {
			if set[m] {
				ser = true
			}
		}
		if ser && !cdcFuzzCovered[name] {
			unknown = append(unknown, name)
		}
		enc := set["MarshalBinary"] || set["Encode"] || set["AppendBinary"]
		dec := set["UnmarshalBinary"] || set["Decode"] || set["ReadFrom"]
		if ser && enc != dec && s != nil {
			s.Note("fuzz.%s has only one codec direction (encode=%v decode=%v)", name, enc, dec)
		}
	}
	sort.Strings(unknown)
	if len(unknown) > 0 {
		cdcInconclusive("internal/fuzz/messages.go has serialisable types the harness does not know: %v", unknown)
	}
	fz := cdcFuzzCodecs()
	all = append(all, fz...)
	both = append(both, fz...)
	return both, all
}

func cdcFind(list []*cdcCodec, name string) *cdcCodec {
	for _, c := range list {
		if c.Name == name {
			return c
		}
	}
	return nil
}

// cdcGenNode draws a recipe for codec c (Message needs a consistent arm).
func cdcGenNode(rt *rapid.T, c *cdcCodec) *typegen.Node {
	if c.Name == "fuzz.Message" {
		return cdcGenMessage(rt)
	}
	return typegen.Gen(rt, c.Type)
}

var cdcMsgArms = []struct {
	Type  MessageType
	Field string
}{
	{MessageType_PeerInfo, "PeerInfo"}, {MessageType_SetState, "SetState"}, {MessageType_StateRoot, "StateRoot"},
	{MessageType_ImportBlock, "ImportBlock"}, {MessageType_GetState, "GetState"}, {MessageType_State, "State"},
	{MessageType_ErrorMessage, "Error"},
}

func cdcGenMessage(rt *rapid.T) *typegen.Node {
	arm := cdcMsgArms[rapid.IntRange(0, len(cdcMsgArms)-1).Draw(rt, "arm")]
	t := reflect.TypeOf(Message{})
	nd := &typegen.Node{K: "st"}
	for i := 0; i < t.NumField(); i++ {
		f := t.Field(i)
		switch {
		case f.Name == "Type":
			nd.C = append(nd.C, &typegen.Node{K: "u", U: uint64(arm.Type)})
		case f.Name == arm.Field:
			nd.C = append(nd.C, &typegen.Node{K: "p", V: true, C: []*typegen.Node{typegen.Gen(rt, f.Type.Elem())}})
		default:
			nd.C = append(nd.C, &typegen.Node{K: "nil"})
		}
	}
	return nd
}

// cdcSegMap: HashSegmentMap for a value. With useRoots it holds the tree root of
// every ImportSpec whose root is ONLY used with indices < 2^15 (the domain of the
// H⊞ form: the encoder adds 2^15 to a 16-bit index).
func cdcSegMap(v reflect.Value, useRoots bool) types.HashSegmentMap {
	m := types.HashSegmentMap{}
	if !useRoots {
		return m
	}
	ok := map[types.OpaqueHash]bool{}
	typegen.Walk(v, reflect.TypeOf(types.ImportSpec{}), func(x reflect.Value) {
		is := x.Interface().(types.ImportSpec)
		if is.Index < 1<<15 {
			if _, seen := ok[is.TreeRoot]; !seen {
				ok[is.TreeRoot] = true
			}
		} else {
			ok[is.TreeRoot] = false
		}
	})
	for h, good := range ok {
		if good {
			m[h] = h
		}
	}
	return m
}

// cdcCall runs f and converts a Go panic into (panicked=true, message).
func cdcCall(f func()) (panicked bool, msg string) {
	defer func() {
		if r := recover(); r != nil {
			panicked = true
			msg = fmt.Sprint(r)
		}
	}()
	f()
	return
}

func cdcPtr(v reflect.Value) any {
	p := reflect.New(v.Type())
	p.Elem().Set(v)
	return p.Interface()
}

func cdcHex(b []byte) string {
	if len(b) > 96 {
		return fmt.Sprintf("%x…(%d bytes)", b[:96], len(b))
	}
	return fmt.Sprintf("%x", b)
}

func cdcShort(name string) string { return strings.TrimPrefix(strings.TrimPrefix(name, "types."), "fuzz.") }

// ---------------------------------------------------------------------------
// Decode worker: every Decode of the code under test runs in a re-executed copy
// of the test binary under `ulimit -v`, because a wrong length prefix turns into
// `make` of terabytes (fatal "out of memory") or unbounded recursion (fatal
// "stack overflow"): neither can be recovered in-process. The parent observes
// the death, restarts the worker and reports it as the outcome of THAT case.

type cdcReq struct {
	Codec string        `json:"codec"`
	Mode  string        `json:"mode"`
	Seg   [][]byte      `json:"seg,omitempty"`  // keys of the HashSegmentMap
	Data  []byte        `json:"data"`           // bytes handed to the decoder
	Junk  []byte        `json:"junk,omitempty"` // when set: after a clean decode of Data, decode Data‖Junk as well (must behave the same)
	Node  *typegen.Node `json:"node,omitempty"` // expected value: the worker reports Equal(expected, decoded)
	Reenc bool          `json:"reenc,omitempty"` // re-encode the decoded value and return the bytes
}

type cdcResp struct {
	Panic    string `json:"panic,omitempty"`
	Err      string `json:"err,omitempty"`
	Consumed int    `json:"consumed"`
	Diff     string `json:"diff,omitempty"`
	Reenc    []byte `json:"reenc,omitempty"`
	ReencErr string `json:"reenc_err,omitempty"`
	Alloc    uint64 `json:"alloc"` // bytes allocated by the Decode call alone
	Pass     int    `json:"pass"`  // 0 = outcome of decoding Data, 1 = outcome of decoding Data‖Junk
	Sys      uint64 `json:"sys"`   // memory the worker has mapped from the OS so far (never shrinks in Go)
	// set by the parent:
	Died string `json:"died,omitempty"` // non-empty: the worker process ended while handling the request
}

const cdcWorkerEnv = "VERIF_CDC_WORKER"

// cdcWorkerMain is the child side (called from the Test function when the env
// var is set). Frames: 4-byte little-endian length + JSON, both directions.
func cdcWorkerMain() {
	debug.SetMaxStack(4 << 20) // decoders recurse a few frames deep; unbounded recursion then dies fast
	logger.Disable()
	typegen.SetMode("tiny")
	_, all := cdcLoadCodecs(nil)
	in := bufio.NewReaderSize(os.Stdin, 1<<20)
	// answers go to fd 3 so that anything the repository prints to stdout cannot corrupt the framing
	out := bufio.NewWriterSize(os.NewFile(3, "answers"), 1<<20)
	sample := []metrics.Sample{{Name: "/gc/heap/allocs:bytes"}}
	sysSample := []metrics.Sample{{Name: "/memory/classes/total:bytes"}}
	for {
		var hdr [4]byte
		if _, err := io.ReadFull(in, hdr[:]); err != nil {
			os.Exit(0)
		}
		body := make([]byte, binary.LittleEndian.Uint32(hdr[:]))
		if _, err := io.ReadFull(in, body); err != nil {
			os.Exit(0)
		}
		var req cdcReq
		var resp cdcResp
		if err := json.Unmarshal(body, &req); err != nil {
			resp.Err = "worker: bad request: " + err.Error()
		} else if cdc := cdcFind(all, req.Codec); cdc == nil {
			resp.Err = "worker: unknown codec " + req.Codec
		} else {
			typegen.SetMode(req.Mode)
			seg := types.HashSegmentMap{}
			for _, k := range req.Seg {
				var h types.OpaqueHash
				copy(h[:], k)
				seg[h] = h
			}
			passes := [][]byte{req.Data}
			if len(req.Junk) > 0 {
				passes = append(passes, append(append([]byte{}, req.Data...), req.Junk...))
			}
			for pass, data := range passes {
				resp = cdcResp{Pass: pass}
				var ptr any
				var derr error
				metrics.Read(sample)
				before := sample[0].Value.Uint64()
				p, msg := cdcCall(func() { ptr, resp.Consumed, derr = cdc.Dec(data, seg) })
				metrics.Read(sample)
				resp.Alloc = sample[0].Value.Uint64() - before
				// The runtime publishes allocation statistics per processor, lazily: bytes allocated
				// shortly BEFORE the window (request parsing, an earlier large request) can be
				// accounted inside it. What a decoder allocates for an input is deterministic, so a
				// large reading is taken again and the smallest reading counts.
				if !p && resp.Alloc > 128<<10 {
					for k := 0; k < 2; k++ {
						metrics.Read(sample)
						b2 := sample[0].Value.Uint64()
						if p2, _ := cdcCall(func() { _, _, _ = cdc.Dec(data, seg) }); p2 {
							break
						}
						metrics.Read(sample)
						if a2 := sample[0].Value.Uint64() - b2; a2 < resp.Alloc {
							resp.Alloc = a2
						}
					}
				}
				if p {
					resp.Panic = msg
				} else if derr != nil {
					resp.Err = derr.Error()
					if resp.Err == "" {
						resp.Err = "(empty error text)"
					}
				} else {
					if req.Node != nil {
						want := typegen.Build(cdc.Type, req.Node, 0)
						resp.Diff = typegen.Equal(want, reflect.ValueOf(ptr).Elem())
						if resp.Diff == "" {
							// the decoded value owns its memory: the caller re-uses its input buffer
							for i := range data {
								data[i] ^= 0xFF
							}
							if d := typegen.Equal(want, reflect.ValueOf(ptr).Elem()); d != "" {
								resp.Diff = "after the input buffer was overwritten by its owner the decoded value changed (it aliases the input): " + d
							}
							for i := range data {
								data[i] ^= 0xFF
							}
						}
					}
					if req.Reenc {
						var b []byte
						var e error
						if p2, m2 := cdcCall(func() { b, e = cdc.Enc(ptr, seg, false) }); p2 {
							resp.ReencErr = "panic: " + m2
						} else if e != nil {
							resp.ReencErr = e.Error()
						} else {
							resp.Reenc = b
						}
					}
				}
				if resp.Panic != "" || resp.Err != "" || resp.Diff != "" || (resp.Consumed >= 0 && resp.Consumed != len(req.Data)) {
					break
				}
			}
		}
		metrics.Read(sysSample)
		resp.Sys = sysSample[0].Value.Uint64()
		b, _ := json.Marshal(&resp)
		binary.LittleEndian.PutUint32(hdr[:], uint32(len(b)))
		out.Write(hdr[:])
		out.Write(b)
		out.Flush()
	}
}

type cdcWorker struct {
	test   string // -test.run pattern of the Test function that dispatches to cdcWorkerMain
	memKB  int
	cmd    *exec.Cmd
	stdin  io.WriteCloser
	stdout *bufio.Reader
	stderr *cdcTail
	rpipe  *os.File
	Deaths int
	Recycled int
	// per codec: consecutive deaths before any success, and the last reason
	deadRuns map[string]int
	deadWhy  map[string]string
	Single   bool // replay mode: never use the always-dies shortcut
	Timeout  time.Duration
}

type cdcTail struct {
	mu  sync.Mutex
	buf []byte
}

func (t *cdcTail) Write(p []byte) (int, error) {
	t.mu.Lock()
	t.buf = append(t.buf, p...)
	if len(t.buf) > 1<<16 {
		// keep the head: the fatal error line comes first
		t.buf = t.buf[:1<<16]
	}
	t.mu.Unlock()
	return len(p), nil
}

func (t *cdcTail) String() string { t.mu.Lock(); defer t.mu.Unlock(); return string(t.buf) }

func cdcNewWorker(testName string) *cdcWorker {
	return &cdcWorker{test: testName, memKB: 3 * 1024 * 1024, Timeout: 90 * time.Second}
}

func (w *cdcWorker) start() {
	script := fmt.Sprintf("ulimit -v %d 2>/dev/null; exec \"$0\" \"$@\"", w.memKB)
	cmd := exec.Command("bash", "-c", script, os.Args[0], "-test.run", "^"+w.test+"$", "-test.count", "1", "-test.timeout", "0")
	cmd.Env = append(os.Environ(), cdcWorkerEnv+"=1", "GOMAXPROCS=2", "GOTRACEBACK=single")
	stdin, err := cmd.StdinPipe()
	if err != nil {
		cdcInconclusive("worker: %v", err)
	}
	pr, pw, err := os.Pipe()
	if err != nil {
		cdcInconclusive("worker: %v", err)
	}
	cmd.ExtraFiles = []*os.File{pw}
	w.stderr = &cdcTail{}
	cmd.Stderr = w.stderr
	if err := cmd.Start(); err != nil {
		cdcInconclusive("cannot start decode worker: %v", err)
	}
	pw.Close()
	w.cmd, w.stdin, w.stdout = cmd, stdin, bufio.NewReaderSize(pr, 1<<20)
	w.rpipe = pr
}

func (w *cdcWorker) stop() {
	if w.cmd != nil {
		w.stdin.Close()
		w.cmd.Process.Kill()
		w.cmd.Wait()
		w.rpipe.Close()
		w.cmd = nil
	}
}

// call sends one request; on worker death resp.Died holds the reason. A codec
// whose first three requests all killed the worker (e.g. unconditional infinite
// recursion) is not sent again in this session: the cached reason is returned,
// prefixed with "(cached) " — restarting a process per case would eat the budget.
func (w *cdcWorker) call(req *cdcReq) cdcResp {
	if w.deadRuns == nil {
		w.deadRuns, w.deadWhy = map[string]int{}, map[string]string{}
	}
	if !w.Single && w.deadRuns[req.Codec] >= 3 {
		return cdcResp{Died: "(cached) " + w.deadWhy[req.Codec]}
	}
	r := w.call1(req)
	if r.Died == "" && r.Sys > 1<<30 {
		// a survived giant allocation keeps its address space mapped for the life of the
		// process; under ulimit -v the NEXT innocent case would then die of "out of
		// memory". Start from a fresh worker instead.
		w.stop()
		w.Recycled++
	}
	if r.Died != "" && !strings.Contains(r.Died, "stack overflow") {
		w.deadRuns[req.Codec] = -1 << 30 // only unconditional recursion is worth caching
	} else if r.Died != "" {
		if w.deadRuns[req.Codec] >= 0 {
			w.deadRuns[req.Codec]++
			w.deadWhy[req.Codec] = r.Died
		}
	} else {
		w.deadRuns[req.Codec] = -1 << 30 // it can answer: never shortcut this codec
	}
	return r
}

func (w *cdcWorker) call1(req *cdcReq) cdcResp {
	if w.cmd == nil {
		w.start()
	}
	body, err := json.Marshal(req)
	if err != nil {
		cdcInconclusive("worker: cannot marshal request: %v", err)
	}
	type result struct {
		resp cdcResp
		err  error
	}
	done := make(chan result, 1)
	go func() {
		var hdr [4]byte
		binary.LittleEndian.PutUint32(hdr[:], uint32(len(body)))
		if _, err := w.stdin.Write(append(hdr[:], body...)); err != nil {
			done <- result{err: err}
			return
		}
		if _, err := io.ReadFull(w.stdout, hdr[:]); err != nil {
			done <- result{err: err}
			return
		}
		rb := make([]byte, binary.LittleEndian.Uint32(hdr[:]))
		if _, err := io.ReadFull(w.stdout, rb); err != nil {
			done <- result{err: err}
			return
		}
		var r cdcResp
		uerr := json.Unmarshal(rb, &r)
		done <- result{resp: r, err: uerr}
	}()
	var res result
	select {
	case res = <-done:
	case <-time.After(w.Timeout):
		w.cmd.Process.Kill()
		res = <-done
		w.cmd.Wait()
		w.rpipe.Close()
		w.cmd = nil
		w.Deaths++
		return cdcResp{Died: fmt.Sprintf("no answer within %v (worker killed)", w.Timeout)}
	}
	if res.err == nil {
		return res.resp
	}
	// the worker died: collect the reason
	w.stdin.Close()
	werr := w.cmd.Wait()
	text := w.stderr.String()
	w.rpipe.Close()
	w.cmd = nil
	w.Deaths++
	why := fmt.Sprintf("worker exited (%v)", werr)
	if i := strings.Index(text, "fatal error:"); i >= 0 {
		why = strings.SplitN(text[i:], "\n", 2)[0]
		if j := strings.Index(text, "runtime: out of memory:"); j >= 0 {
			why += " [" + strings.SplitN(text[j:], "\n", 2)[0] + "]"
		}
		if j := strings.Index(text, "goroutine stack exceeds"); j >= 0 {
			why += " [" + strings.SplitN(text[j:], "\n", 2)[0] + "]"
		}
		// name the repository frame closest to the fault
		for _, line := range strings.Split(text, "\n") {
			if strings.Contains(line, "JAM-Protocol/internal/types.") || strings.Contains(line, "JAM-Protocol/internal/fuzz.(") {
				why += " in " + strings.TrimSpace(strings.SplitN(line, "(0x", 2)[0])
				break
			}
		}
	} else if len(text) > 0 {
		why += ": " + tailOfStr(text, 300)
	}
	return cdcResp{Died: why}
}

func tailOfStr(s string, n int) string {
	if len(s) > n {
		return s[len(s)-n:]
	}
	return s
}

func cdcSegKeys(m types.HashSegmentMap) [][]byte {
	keys := make([][]byte, 0, len(m))
	for k := range m {
		kk := k
		keys = append(keys, kk[:])
	}
	sort.Slice(keys, func(i, j int) bool { return bytes.Compare(keys[i], keys[j]) < 0 })
	return keys
}

// cdcUniform draws an (almost) uniform index in [0,n): rapid's integer
// generators favour small values on purpose, which would over-sample the first
// entries of a list; the draw is therefore passed through a mixing function.
func cdcUniform(rt *rapid.T, label string, n int) int {
	x := rapid.Uint64().Draw(rt, label)
	x += 0x9E3779B97F4A7C15
	x = (x ^ (x >> 30)) * 0xBF58476D1CE4E5B9
	x = (x ^ (x >> 27)) * 0x94D049BB133111EB
	x ^= x >> 31
	return int(x % uint64(n))
}

func cdcHasMap(n *typegen.Node) bool {
	if n == nil {
		return false
	}
	if n.K == "m" && len(n.C) >= 4 {
		return true
	}
	for _, c := range n.C {
		if cdcHasMap(c) {
			return true
		}
	}
	return false
}

// cdcContains reports whether v holds a sub-value of type t satisfying pred.
func cdcContains(v reflect.Value, t reflect.Type, pred func(reflect.Value) bool) bool {
	found := false
	typegen.Walk(v, t, func(x reflect.Value) {
		if pred(x) {
			found = true
		}
	})
	return found
}

// cdcLayoutHook: layout rule for the fuzz-protocol frame (typegen cannot import fuzz).
func cdcLayoutHook(w *typegen.Writer, v reflect.Value, path string) bool {
	if v.Type() != reflect.TypeOf(Message{}) {
		return false
	}
	m := v.Interface().(Message)
	var arm reflect.Value
	for _, a := range cdcMsgArms {
		if a.Type == m.Type {
			arm = v.FieldByName(a.Field)
		}
	}
	if !arm.IsValid() || arm.IsNil() {
		panic("message arm missing")
	}
	sub := &typegen.Writer{Seg: w.Seg, Hook: cdcLayoutHook}
	sub.Value(arm.Elem(), path+".payload")
	base := w.Buf.Len()
	w.Marks = append(w.Marks, typegen.Mark{Off: base, Len: 4, Kind: typegen.MarkFrame, Path: path + ".length", Val: uint64(sub.Buf.Len() + 1)})
	w.Fixed(uint64(sub.Buf.Len()+1), 4)
	w.Tag(path+".Type", byte(m.Type), 0, []byte{0, 1, 2, 3, 4, 5, 255})
	off := w.Buf.Len()
	w.Raw(sub.Buf.Bytes())
	for _, mk := range sub.Marks {
		mk.Off += off
		w.Marks = append(w.Marks, mk)
	}
	return true
}


// cdcRefHook: strict reference parse of the fuzz-protocol frame.
func cdcRefHook(r *typegen.Reader, t reflect.Type, path string) bool {
	if t != reflect.TypeOf(Message{}) {
		return false
	}
	start := r.Pos
	hdr := r.Take(4, path+".length")
	l := int(binary.LittleEndian.Uint32(hdr))
	if l < 1 {
		panic(fmt.Sprintf("frame length %d", l)) // converted below
	}
	tag := r.Take(1, path+".Type")[0]
	var arm reflect.Type
	mt := reflect.TypeOf(Message{})
	for _, a := range cdcMsgArms {
		if byte(a.Type) == tag {
			f, _ := mt.FieldByName(a.Field)
			arm = f.Type.Elem()
		}
	}
	r.Need(l-1, path+".payload") // the implementation reads the payload before looking at the type
	if arm == nil {
		r.Pos = start + 4
		r.Need(1<<30, path+".Type#invalid-tag") // reported as a reject below
	}
	sub := &typegen.Reader{Data: r.Data[r.Pos : r.Pos+l-1], Seg: r.Seg, Hook: cdcRefHook}
	subN, rej := 0, (*typegen.Reject)(nil)
	func() {
		subN, rej = typegen.RefDecodeLax(arm, sub.Data, r.Seg, cdcRefHook, r.Lax)
	}()
	if rej != nil {
		rej.Off += r.Pos
		rej.Path = path + ".payload" + rej.Path
		panic(cdcRejectCarrier{rej})
	}
	if subN != l-1 {
		panic(cdcRejectCarrier{&typegen.Reject{Reason: typegen.RTrailing, Off: r.Pos + subN, Path: path + ".payload", Detail: fmt.Sprintf("%d bytes of the frame left over", l-1-subN)}})
	}
	r.Pos += l - 1
	return true
}

type cdcRejectCarrier struct{ r *typegen.Reject }

// cdcRefDecode wraps typegen.RefDecode: frame-level rejects travel as a panic
// through the generic reader; UnmarshalBinary entry points must use the whole input.
func cdcRefDecode(cdc *cdcCodec, data []byte, seg types.HashSegmentMap, lax string) (n int, rej *typegen.Reject) {
	defer func() {
		if p := recover(); p != nil {
			switch x := p.(type) {
			case cdcRejectCarrier:
				n, rej = x.r.Off, x.r
			default:
				n, rej = 0, &typegen.Reject{Reason: "frame", Detail: fmt.Sprint(p)}
			}
		}
	}()
	n, rej = typegen.RefDecodeLax(cdc.Type, data, seg, cdcRefHook, lax)
	if rej != nil && strings.HasSuffix(rej.Path, "#invalid-tag") {
		rej.Reason = typegen.RTagRange
	}
	if rej == nil && cdc.wholeInput() && n != len(data) {
		rej = &typegen.Reject{Reason: typegen.RTrailing, Off: n, Detail: fmt.Sprintf("%d trailing bytes", len(data)-n)}
	}
	return
}

// wholeInput: entry points without a consumed count must be given exactly one value.
func (c *cdcCodec) wholeInput() bool {
	return strings.HasPrefix(c.Name, "fuzz.") && c.Name != "fuzz.SetState#codec" && c.Name != "fuzz.Version" && c.Name != "fuzz.Message"
}

