package fuzz

// C11: codec round trip + encoding determinism for every type of internal/types
// that has Encode and Decode, and for the fuzz-protocol message types.
//
// Oracle: inverse (decode(encode(v)) ≡ v, consumed = len, also with trailing
// bytes appended) + metamorphic determinism (same value built with three map
// insertion orders, fresh / pooled / re-used encoders, 8 encodings) + pool safety
// under 16 goroutines. No reference encoder is needed: the property is stated as
// an inverse.

import (
	"bytes"
	"fmt"
	"os"
	"reflect"
	"runtime/debug"
	"strings"
	"sync"
	"testing"

	"github.com/New-JAMneration/JAM-Protocol/internal/types"
	"github.com/New-JAMneration/JAM-Protocol/internal/verifref/typegen"
	kit "github.com/New-JAMneration/JAM-Protocol/internal/verifkit"
	"pgregory.net/rapid"
)

type c11Input struct {
	Type string        `json:"type"`
	Mode string        `json:"mode"`
	Seg  bool          `json:"seg"`  // tree roots of import specs (index < 2^15) are in the HashSegmentMap
	Junk []byte        `json:"junk"` // trailing bytes appended for the "consumes exactly" check
	Node *typegen.Node `json:"node"`
}

var (
	c11Both    []*cdcCodec
	c11All     []*cdcCodec
	c11Worker  *cdcWorker
	c11Names   []string
)

func c11Gen(rt *rapid.T) c11Input {
	in := c11Input{Mode: "tiny"}
	if cdcUniform(rt, "modek", 40) == 0 {
		in.Mode = "full"
	}
	in.Type = c11Names[cdcUniform(rt, "type", len(c11Names))]
	in.Seg = rapid.Bool().Draw(rt, "seg")
	in.Junk = rapid.SliceOfN(rapid.Byte(), 1, 12).Draw(rt, "junk")
	typegen.SetMode(in.Mode)
	in.Node = cdcGenNode(rt, cdcFind(c11Both, in.Type))
	typegen.SetMode("tiny")
	return in
}

// c11Known: narrow classifiers of the listed known findings (input feature +
// observed divergence). Returns "" when the failure is not a known one.
func c11Known(cdc *cdcCodec, v reflect.Value, kind, detail string) (string, string) {
	name := cdcShort(cdc.Name)
	switch {
	// (first: the value-feature classifiers below would otherwise claim a .Theta mismatch of a State that also holds an empty storage key)
	case (name == "State" && cdc.Type == reflect.TypeOf(types.State{})) && kind == "mismatch" && strings.HasPrefix(detail, ".Theta"):
		return "KF-C11-8", "State.Encode/Decode skip Theta (7.4 last accumulation outputs): " + detail
	case name == "AccumulatedServiceOutput" && kind == "nondeterministic" && v.Len() >= 2:
		return "KF-C11-1", "AccumulatedServiceOutput.Encode ranges over the map without sorting: " + detail
	case kind != "nondeterministic" && kind != "encode" &&
		cdcContains(v, reflect.TypeOf(types.WorkItem{}), func(x reflect.Value) bool {
			return len(x.Interface().(types.WorkItem).ImportSegments) == 0
		}):
		return "KF-C11-2", "WorkItem.Decode returns before reading the extrinsic-count when import_segments is empty: " + detail
	case name == "MetaCode" && kind != "nondeterministic" && kind != "encode":
		mc := v.Interface().(types.MetaCode)
		if (len(mc.Metadata) == 0) != (len(mc.Code) == 0) {
			return "KF-C11-3", "MetaCode.Decode drops the code when the metadata is empty and fails with EOF when the code is empty: " + detail
		}
	case name == "Operand" && kind != "nondeterministic" && kind != "encode":
		return "KF-C11-5", "Operand.Decode reads the gas limit twice (compact, then 8 fixed bytes): " + detail
	case name == "AuthorizerHash" && kind == "process-death" && strings.Contains(detail, "stack overflow"):
		return "KF-C11-4", "AuthorizerHash.Decode calls itself on a local of the same type: " + detail
	case name == "OperandOrDeferredTransfer" && kind == "decode-panic" && strings.Contains(detail, "nil pointer"):
		return "KF-C11-6", "OperandOrDeferredTransfer.Decode decodes through the nil arm pointer: " + detail
	case kind != "nondeterministic" && kind != "encode" &&
		cdcContains(v, reflect.TypeOf(types.Storage{}), func(x reflect.Value) bool {
			_, ok := x.Interface().(types.Storage)[""]
			return ok
		}):
		return "KF-C11-7", "Storage.Decode returns in the middle of the dictionary at a zero-length key: " + detail
	}
	return "", ""
}

func c11Fail(c *kit.Case, cdc *cdcCodec, v reflect.Value, kind, detail string) {
	if id, d := c11Known(cdc, v, kind, detail); id != "" {
		c.Known(id, cdc.Name+": "+d)
	}
	c.Failf("%s [%s]: %s", cdc.Name, kind, detail)
}

func c11Check(c *kit.Case, in c11Input) {
	cdc := cdcFind(c11Both, in.Type)
	if cdc == nil || in.Node == nil {
		return // replay of a type that no longer exists
	}
	typegen.SetMode(in.Mode)
	defer typegen.SetMode("tiny")
	c.Class("mode_" + in.Mode)
	if typegen.NonTrivial(in.Node) {
		c.NonTrivial()
	}
	v0 := typegen.Build(cdc.Type, in.Node, 0)
	seg := cdcSegMap(v0, in.Seg)
	if len(seg) > 0 {
		c.Class("segment_map_nonempty")
	}
	var enc0 []byte
	var err error
	if p, msg := cdcCall(func() { enc0, err = cdc.Enc(cdcPtr(v0), seg, false) }); p {
		c11Fail(c, cdc, v0, "encode", "Encode panicked: "+msg)
	}
	if err != nil {
		c11Fail(c, cdc, v0, "encode", "Encode of an in-domain value failed: "+err.Error())
	}
	// --- cross-check of the independent reference serialiser (informative: it is what C13/C14 take positions from)
	if ref, _, lerr := typegen.Layout(v0, seg, cdcLayoutHook); lerr != nil || !bytes.Equal(ref, enc0) {
		c.Class("reference_serialiser_differs")
		c.Class("reference_serialiser_differs_" + cdcShort(cdc.Name))
	} else {
		c.Class("reference_serialiser_agrees")
	}
	// --- determinism: 3 insertion orders x (fresh, pooled) + a re-used encoder = 8 encodings
	hasMap := cdcHasMap(in.Node)
	if hasMap {
		c.Class("map_ge2_entries")
	}
	for variant := 0; variant < 3; variant++ {
		vi := v0
		if hasMap {
			vi = typegen.Build(cdc.Type, in.Node, variant)
		}
		for _, pooled := range []bool{false, true} {
			b, e := cdc.Enc(cdcPtr(vi), seg, pooled)
			if e != nil {
				c11Fail(c, cdc, v0, "encode", "Encode failed on a re-built value: "+e.Error())
			}
			if !bytes.Equal(b, enc0) {
				c11Fail(c, cdc, v0, "nondeterministic", fmt.Sprintf("map order variant %d pooled=%v: %s vs %s", variant, pooled, cdcHex(b), cdcHex(enc0)))
			}
		}
	}
	if strings.HasPrefix(cdc.Name, "types.") {
		e := types.NewEncoder()
		e.SetHashSegmentMap(seg)
		b1, e1 := e.Encode(cdcPtr(v0))
		b2, e2 := e.Encode(cdcPtr(v0))
		if e1 != nil || e2 != nil || !bytes.Equal(b1, enc0) || !bytes.Equal(b2, enc0) {
			c11Fail(c, cdc, v0, "nondeterministic", fmt.Sprintf("re-used encoder: 1st %s 2nd %s fresh %s", cdcHex(b1), cdcHex(b2), cdcHex(enc0)))
		}
	}
	// --- an Encode that fails part-way must not leak into the next use of that encoder
	// (the same object, EncodeMany, and through the pool)
	if strings.HasPrefix(cdc.Name, "types.") {
		broken := &types.WorkReport{AuthorizerHash: types.OpaqueHash{0xAA}, AuthOutput: types.ByteSequence{1, 2, 3},
			Results: []types.WorkResult{{ServiceID: 7}}} // the zero WorkExecResult has no valid type
		e := types.NewEncoder()
		e.SetHashSegmentMap(seg)
		if _, ferr := e.Encode(broken); ferr == nil {
			c.Class("broken_value_encoded_without_error")
		} else {
			c.Class("encode_after_failed_encode")
			if b, e1 := e.Encode(cdcPtr(v0)); e1 != nil || !bytes.Equal(b, enc0) {
				c11Fail(c, cdc, v0, "nondeterministic", fmt.Sprintf("encoder re-used after an Encode that failed: %s (err %v), fresh %s", cdcHex(b), e1, cdcHex(enc0)))
			}
			e.EncodeMany(broken)
			if b, e1 := e.EncodeMany(cdcPtr(v0)); e1 != nil || !bytes.Equal(b, enc0) {
				c11Fail(c, cdc, v0, "nondeterministic", fmt.Sprintf("encoder re-used after an EncodeMany that failed: %s (err %v), fresh %s", cdcHex(b), e1, cdcHex(enc0)))
			}
			for k := 0; k < 3; k++ {
				pe := types.GetEncoder()
				pe.Encode(broken)
				types.PutEncoder(pe)
				if b, e1 := cdc.Enc(cdcPtr(v0), seg, true); e1 != nil || !bytes.Equal(b, enc0) {
					c11Fail(c, cdc, v0, "nondeterministic", fmt.Sprintf("pooled encoder after another user's failed Encode: %s (err %v), fresh %s", cdcHex(b), e1, cdcHex(enc0)))
				}
			}
		}
	}
	// --- one Message value that receives several frames (a connection loop): what an earlier
	// frame left in it must not show through a later frame whose parts are empty or absent
	if cdc.Name == "fuzz.Message" {
		if mv, ok := v0.Interface().(Message); ok {
			poor := Message{Type: mv.Type}
			switch mv.Type {
			case MessageType_PeerInfo:
				poor.PeerInfo = &PeerInfo{}
			case MessageType_ImportBlock:
				poor.ImportBlock = &ImportBlock{}
			case MessageType_SetState:
				poor.SetState = &SetState{}
			case MessageType_GetState:
				poor.GetState = &GetState{}
			case MessageType_StateRoot:
				poor.StateRoot = &StateRoot{}
			case MessageType_ErrorMessage:
				poor.Error = &ErrorMessage{}
			case MessageType_State:
				poor.State = &State{}
			}
			var pe []byte
			var perr error
			if p, _ := cdcCall(func() { pe, perr = poor.MarshalBinary() }); !p && perr == nil {
				var m Message
				if _, e1 := m.ReadFrom(bytes.NewReader(enc0)); e1 == nil {
					if _, e2 := m.ReadFrom(bytes.NewReader(pe)); e2 != nil {
						c11Fail(c, cdc, v0, "decode-error", "second frame read into the same Message failed: "+e2.Error())
					}
					back, e3 := m.MarshalBinary()
					if e3 != nil || !bytes.Equal(back, pe) {
						c11Fail(c, cdc, v0, "mismatch", fmt.Sprintf("a Message that had received this frame, then an all-empty frame of the same type (%s), re-encodes to %s (err %v): parts of the earlier frame show through", cdcHex(pe), cdcHex(back), e3))
					}
					c.Class("message_reused_for_a_second_frame")
				}
			}
		}
	}
	// --- round trip (Decode runs in the worker process, see common file)
	req := &cdcReq{Codec: cdc.Name, Mode: in.Mode, Seg: cdcSegKeys(seg), Data: enc0, Node: in.Node}
	if cdc.SelfDelimiting {
		req.Junk = in.Junk
	}
	r := c11Worker.call(req)
	what := "exact"
	if r.Pass == 1 {
		what = "with trailing bytes appended"
	}
	switch {
	case r.Died != "":
		c.Class("decode_killed_worker")
		c11Fail(c, cdc, v0, "process-death", "decoding a valid encoding ended the process: "+r.Died)
	case r.Panic != "":
		c11Fail(c, cdc, v0, "decode-panic", what+": Decode panicked: "+r.Panic)
	case r.Err != "":
		c11Fail(c, cdc, v0, "decode-error", fmt.Sprintf("%s: Decode(Encode(v)) failed: %s (encoding %s)", what, r.Err, cdcHex(enc0)))
	case r.Consumed >= 0 && r.Consumed != len(enc0):
		c11Fail(c, cdc, v0, "consumed", fmt.Sprintf("%s: consumed %d bytes of a %d-byte encoding %s", what, r.Consumed, len(enc0), cdcHex(enc0)))
	case r.Diff != "":
		c11Fail(c, cdc, v0, "mismatch", r.Diff+" ("+what+")")
	}
}

// ---------------------------------------------------------------- pool safety

type c11PoolInput struct {
	Items []c11Input `json:"items"`
}

func c11PoolGen(rt *rapid.T) c11PoolInput {
	var in c11PoolInput
	typegen.SetMode("tiny")
	for i := 0; i < 16; i++ {
		var it c11Input
		it.Mode = "tiny"
		for {
			it.Type = c11Names[cdcUniform(rt, "type", len(c11Names))]
			if strings.HasPrefix(it.Type, "types.") {
				break
			}
		}
		it.Seg = rapid.Bool().Draw(rt, "seg")
		it.Node = cdcGenNode(rt, cdcFind(c11Both, it.Type))
		in.Items = append(in.Items, it)
	}
	return in
}

func c11PoolCheck(c *kit.Case, in c11PoolInput) {
	typegen.SetMode("tiny")
	type job struct {
		cdc  *cdcCodec
		v    reflect.Value
		seg  types.HashSegmentMap
		want []byte
	}
	var jobs []job
	nt := false
	for _, it := range in.Items {
		cdc := cdcFind(c11Both, it.Type)
		if cdc == nil || it.Node == nil {
			continue
		}
		v := typegen.Build(cdc.Type, it.Node, 0)
		if cdcShort(cdc.Name) == "AccumulatedServiceOutput" && v.Len() >= 2 {
			continue // KF-C11-1: not deterministic even single-threaded
		}
		seg := cdcSegMap(v, it.Seg)
		want, err := cdc.Enc(cdcPtr(v), seg, false)
		if err != nil {
			c.Failf("%s: Encode failed: %v", cdc.Name, err)
		}
		nt = nt || typegen.NonTrivial(it.Node)
		jobs = append(jobs, job{cdc, v, seg, want})
	}
	if nt {
		c.NonTrivial()
	}
	var wg sync.WaitGroup
	errs := make([]string, len(jobs))
	for i := range jobs {
		wg.Add(1)
		go func(i int) {
			defer wg.Done()
			j := jobs[i]
			for round := 0; round < 4; round++ {
				var got []byte
				var err error
				if p, msg := cdcCall(func() { got, err = j.cdc.Enc(cdcPtr(j.v), j.seg, true) }); p {
					errs[i] = "panic: " + msg
					return
				}
				if err != nil || !bytes.Equal(got, j.want) {
					errs[i] = fmt.Sprintf("%s round %d: pooled encoder gave %s (err %v), single-threaded %s", j.cdc.Name, round, cdcHex(got), err, cdcHex(j.want))
					return
				}
			}
		}(i)
	}
	wg.Wait()
	for _, e := range errs {
		if e != "" {
			c.Failf("concurrent GetEncoder/PutEncoder: %s", e)
		}
	}
}

func TestVerif_C11(t *testing.T) {
	if os.Getenv(cdcWorkerEnv) != "" {
		cdcWorkerMain()
		return
	}
	s := kit.Begin(t, "C11")
	defer s.Finish()
	debug.SetGCPercent(400)
	typegen.SetMode("tiny")
	c11Both, c11All = cdcLoadCodecs(s)
	for _, cdc := range c11Both {
		c11Names = append(c11Names, cdc.Name)
	}
	s.Note("%d codecs with both directions (%d types of internal/types in the registry, %d fuzz-protocol entry points)",
		len(c11Both), len(typegen.Registry()), len(cdcFuzzCodecs()))
	c11Worker = cdcNewWorker("TestVerif_C11")
	c11Worker.Single = s.Replaying()
	defer c11Worker.stop()
	// 1. round trip + determinism
	n := len(c11Names)
	kit.Run(s, "roundtrip_determinism", kit.N{Quick: n * 200, Thorough: n * 5000}, c11Gen, c11Check)
	// 2. pool safety under concurrency
	kit.Run(s, "pool_concurrent", kit.N{Quick: 300, Thorough: 10000}, c11PoolGen, c11PoolCheck)
	s.Note("decode worker restarts in this shard: %d", c11Worker.Deaths)
}
