package fuzz

// C17: state export/import round trip.
//
//	K        = StateEncoder(s)                     s a well-formed full state
//	(s',raw) = StateKeyValsToState(order(K))       for a drawn order of K
//	set(StateEncoder(s') ∪ raw) == set(K), no key twice, equal state roots.
//
// The same relation is then demanded of the three places where the node uses the
// parser: ChainState.BuildStateRootInputKeyValsAndRoot, the fuzz service
// SetState -> GetState, and ChainState.RestoreBlockAndState.
//
// In-package test of internal/fuzz (the only package from which the fuzz service,
// internal/blockchain and internal/utilities/merklization are all reachable without
// an import cycle). Only exported functions of merklization are used.

import (
	"bytes"
	"encoding/binary"
	"fmt"
	"runtime"
	"sort"
	"testing"

	"github.com/New-JAMneration/JAM-Protocol/internal/blockchain"
	"github.com/New-JAMneration/JAM-Protocol/internal/types"
	"github.com/New-JAMneration/JAM-Protocol/internal/utilities/hash"
	m "github.com/New-JAMneration/JAM-Protocol/internal/utilities/merklization"
	kit "github.com/New-JAMneration/JAM-Protocol/internal/verifkit"
	"github.com/New-JAMneration/JAM-Protocol/internal/verifref/typegen"
	"golang.org/x/crypto/blake2b"
	"pgregory.net/rapid"
)

// ---------------------------------------------------------------------------
// input

// c17Extra adds one lookup request (or a shared preimage) on top of the state drawn
// by typegen.GenStateNode. Indices are taken modulo the number of candidates, an
// extra without candidates is a no-op.
//
//	kind 0  "foreign": service Svc requests (H(blob), |blob|) of a preimage that is stored in
//	        service From only (Svc does not hold the blob) -> not attributable in Svc
//	kind 1  "wrong length": service Svc holds blob Pre and ALSO requests (H(blob), |blob|+LenDelta)
//	kind 2  "shared": blob Pre of service From is stored in service Svc as well, with its lookup entry
//	kind 3  "bare request": service Svc requests (Hash, Len) for which nobody holds a blob
//	kind 4  "empty storage key": service Svc stores a value under the zero-length key (legal: host
//	        call write with k_z = 0; the shared generator leaves it out because of the Storage codec)
//	kind 5  "special id": service Svc is copied under an id whose little-endian bytes collide with
//	        chapter / service-info key prefixes (0, 1..16, 255, 0xFF.., 2^32-1 ...)
type c17Extra struct {
	Kind     int      `json:"kind"`
	Svc      int      `json:"svc"`
	From     int      `json:"from"`
	Pre      int      `json:"pre"`
	LenDelta int      `json:"len_delta"`
	Slots    []uint32 `json:"slots"`
	HashSeed uint64   `json:"hash_seed"`
}

type c17Input struct {
	State  *typegen.Node `json:"state"`
	Extras []c17Extra    `json:"extras"`
	// Order of the key-value list given to the parser:
	// 0 PermKeys (entry i of ascending K gets sort key PermKeys[i mod len], ties by i)
	// 1 ascending key  2 descending key
	// 3 by kind: lookups, storage, chapters, preimages, service infos (PermKeys inside a kind)
	// 4 by kind, reversed
	Order    int      `json:"order"`
	PermKeys []uint16 `json:"perm_keys"`
	// header of the SetState message
	HdrSlot uint32 `json:"hdr_slot"`
	HdrSeed uint64 `json:"hdr_seed"`
	// Chain: also run the ChainState / fuzz-service stage
	Chain bool `json:"chain"`
	// FailedFirst: an import of ANOTHER key-value list (foreign service entries plus a chapter
	// value cut short, so that it is refused part-way) runs right before the import under test
	FailedFirst bool `json:"failed_first,omitempty"`
}

func c17Gen(rt *rapid.T) c17Input {
	in := c17Input{State: typegen.GenStateNode(rt)}
	ne := rapid.SampledFrom([]int{0, 0, 1, 2, 3, 4, 6}).Draw(rt, "nextras")
	for i := 0; i < ne; i++ {
		e := c17Extra{
			Kind:     rapid.IntRange(0, 5).Draw(rt, "ekind"),
			Svc:      rapid.IntRange(0, 7).Draw(rt, "esvc"),
			From:     rapid.IntRange(0, 7).Draw(rt, "efrom"),
			Pre:      rapid.IntRange(0, 3).Draw(rt, "epre"),
			LenDelta: rapid.SampledFrom([]int{1, -1, 2, 256, 65536}).Draw(rt, "edelta"),
			HashSeed: rapid.Uint64().Draw(rt, "ehash"),
		}
		ns := rapid.IntRange(0, 3).Draw(rt, "enslots")
		t := uint32(0)
		for j := 0; j < ns; j++ {
			t += uint32(rapid.IntRange(1, 1000).Draw(rt, "eslot"))
			e.Slots = append(e.Slots, t)
		}
		in.Extras = append(in.Extras, e)
	}
	in.Order = rapid.SampledFrom([]int{0, 0, 0, 0, 1, 2, 3, 4}).Draw(rt, "order")
	in.PermKeys = rapid.SliceOfN(rapid.Uint16(), 96, 96).Draw(rt, "permkeys")
	in.HdrSlot = uint32(rapid.IntRange(0, 5000).Draw(rt, "hdrslot"))
	in.HdrSeed = rapid.Uint64().Draw(rt, "hdrseed")
	in.Chain = true
	in.FailedFirst = rapid.IntRange(0, 2).Draw(rt, "failed_first") == 0
	return in
}

// ---------------------------------------------------------------------------
// reference state-key construction (GP D.1), used for CLASSIFICATION and ordering only

func c17RefServiceKey(id types.ServiceID, h []byte) types.StateKey {
	a := blake2b.Sum256(h)
	var n [4]byte
	binary.LittleEndian.PutUint32(n[:], uint32(id))
	var k types.StateKey
	for i := 0; i < 4; i++ {
		k[2*i] = n[i]
		k[2*i+1] = a[i]
	}
	copy(k[8:], a[4:27])
	return k
}

func c17RefStorageKey(id types.ServiceID, key string) types.StateKey {
	return c17RefServiceKey(id, append([]byte{0xFF, 0xFF, 0xFF, 0xFF}, key...))
}

func c17RefPreimageKey(id types.ServiceID, h types.OpaqueHash) types.StateKey {
	return c17RefServiceKey(id, append([]byte{0xFE, 0xFF, 0xFF, 0xFF}, h[:]...))
}

func c17RefLookupKey(id types.ServiceID, lk types.LookupMetaMapkey) types.StateKey {
	var l [4]byte
	binary.LittleEndian.PutUint32(l[:], uint32(lk.Length))
	return c17RefServiceKey(id, append(l[:], lk.Hash[:]...))
}

func c17RefInfoKey(id types.ServiceID) types.StateKey {
	var n [4]byte
	binary.LittleEndian.PutUint32(n[:], uint32(id))
	var k types.StateKey
	k[0] = 255
	k[1], k[3], k[5], k[7] = n[0], n[1], n[2], n[3]
	return k
}

const (
	c17KLookupMatched = iota // lookup whose preimage (same hash AND length) is stored in the same service
	c17KLookupBare           // lookup that cannot be attributed
	c17KStorage
	c17KChapter
	c17KPreimage
	c17KInfo
	c17KUnknown
)

// ---------------------------------------------------------------------------
// helpers

func c17SortedIDs(d types.ServiceAccountState) []types.ServiceID {
	ids := make([]types.ServiceID, 0, len(d))
	for id := range d {
		ids = append(ids, id)
	}
	sort.Slice(ids, func(i, j int) bool { return ids[i] < ids[j] })
	return ids
}

func c17SortedPreimages(a types.ServiceAccount) []types.OpaqueHash {
	hs := make([]types.OpaqueHash, 0, len(a.PreimageLookup))
	for h := range a.PreimageLookup {
		hs = append(hs, h)
	}
	sort.Slice(hs, func(i, j int) bool { return bytes.Compare(hs[i][:], hs[j][:]) < 0 })
	return hs
}

// c17ApplyExtras mutates s (fresh value built from the recipe) and keeps a_i / a_o in
// step (GP 9.8: two items and 81+z octets per lookup entry).
var c17SpecialIDs = []types.ServiceID{0, 1, 2, 15, 16, 17, 255, 256, 0xFF00, 0xFFFF, 65536, 0x00FF00FF, 0xFF0000FF,
	0xFFFFFF00, 0xFFFFFFFE, 0xFFFFFFFF}

func c17ApplyExtras(s *types.State, extras []c17Extra) (applied [6]int) {
	for _, e := range extras {
		ids := c17SortedIDs(s.Delta)
		if len(ids) == 0 {
			return
		}
		sid := ids[((e.Svc%len(ids))+len(ids))%len(ids)]
		fid := ids[((e.From%len(ids))+len(ids))%len(ids)]
		acc := s.Delta[sid]
		if acc.LookupDict == nil {
			acc.LookupDict = types.LookupMetaMapEntry{}
		}
		if acc.PreimageLookup == nil {
			acc.PreimageLookup = types.PreimagesMapEntry{}
		}
		slots := types.TimeSlotSet{}
		for _, t := range e.Slots {
			slots = append(slots, types.TimeSlot(t))
		}
		addLookup := func(lk types.LookupMetaMapkey) bool {
			if _, dup := acc.LookupDict[lk]; dup {
				return false
			}
			acc.LookupDict[lk] = slots
			acc.ServiceInfo.Items += 2
			acc.ServiceInfo.Bytes += 81 + types.U64(lk.Length)
			return true
		}
		switch e.Kind {
		case 0: // foreign
			from := s.Delta[fid]
			hs := c17SortedPreimages(from)
			if fid == sid || len(hs) == 0 || e.Pre < 0 {
				continue
			}
			h := hs[e.Pre%len(hs)]
			if _, has := acc.PreimageLookup[h]; has {
				continue
			}
			if addLookup(types.LookupMetaMapkey{Hash: h, Length: types.U32(len(from.PreimageLookup[h]))}) {
				applied[0]++
			}
		case 1: // wrong length
			hs := c17SortedPreimages(acc)
			if len(hs) == 0 || e.Pre < 0 {
				continue
			}
			h := hs[e.Pre%len(hs)]
			l := int64(len(acc.PreimageLookup[h])) + int64(e.LenDelta)
			if l < 0 || l > 0xFFFFFFFF || l == int64(len(acc.PreimageLookup[h])) {
				continue
			}
			if addLookup(types.LookupMetaMapkey{Hash: h, Length: types.U32(l)}) {
				applied[1]++
			}
		case 2: // shared blob
			from := s.Delta[fid]
			hs := c17SortedPreimages(from)
			if fid == sid || len(hs) == 0 || e.Pre < 0 {
				continue
			}
			h := hs[e.Pre%len(hs)]
			if _, has := acc.PreimageLookup[h]; has {
				continue
			}
			blob := from.PreimageLookup[h]
			lk := types.LookupMetaMapkey{Hash: h, Length: types.U32(len(blob))}
			if _, dup := acc.LookupDict[lk]; dup {
				continue
			}
			acc.PreimageLookup[h] = append(types.ByteSequence{}, blob...)
			addLookup(lk)
			applied[2]++
		case 3: // bare request
			var hb [8]byte
			binary.LittleEndian.PutUint64(hb[:], e.HashSeed)
			h := types.OpaqueHash(blake2b.Sum256(hb[:]))
			l := e.LenDelta
			if l < 0 {
				l = 0
			}
			if addLookup(types.LookupMetaMapkey{Hash: h, Length: types.U32(l)}) {
				applied[3]++
			}
		case 4: // empty storage key
			if acc.StorageDict == nil {
				acc.StorageDict = types.Storage{}
			}
			if _, dup := acc.StorageDict[""]; dup {
				continue
			}
			n := int(e.HashSeed % 70)
			v := make(types.ByteSequence, n)
			for i := range v {
				v[i] = byte(e.HashSeed>>(8*uint(i%8))) + byte(i)
			}
			acc.StorageDict[""] = v
			acc.ServiceInfo.Items++
			acc.ServiceInfo.Bytes += 34 + types.U64(n)
			applied[4]++
		case 5: // special id
			nid := c17SpecialIDs[e.HashSeed%uint64(len(c17SpecialIDs))]
			if _, exists := s.Delta[nid]; exists {
				continue
			}
			cp := types.ServiceAccount{ServiceInfo: acc.ServiceInfo, PreimageLookup: types.PreimagesMapEntry{},
				LookupDict: types.LookupMetaMapEntry{}, StorageDict: types.Storage{}}
			for k, v := range acc.PreimageLookup {
				cp.PreimageLookup[k] = append(types.ByteSequence{}, v...)
			}
			for k, v := range acc.LookupDict {
				cp.LookupDict[k] = append(types.TimeSlotSet{}, v...)
			}
			for k, v := range acc.StorageDict {
				cp.StorageDict[k] = append(types.ByteSequence{}, v...)
			}
			s.Delta[nid] = cp
			applied[5]++
			continue
		}
		s.Delta[sid] = acc
	}
	return
}

func c17CopyKV(kvs types.StateKeyVals) types.StateKeyVals {
	out := make(types.StateKeyVals, len(kvs))
	for i, kv := range kvs {
		out[i] = types.StateKeyVal{Key: kv.Key, Value: append(types.ByteSequence{}, kv.Value...)}
	}
	return out
}

// c17SameSet demands: got has no key twice and got == want as key -> value maps.
func c17SameSet(c *kit.Case, what string, want map[types.StateKey][]byte, got types.StateKeyVals, kindOf map[types.StateKey]int) {
	seen := make(map[types.StateKey]bool, len(got))
	for _, kv := range got {
		if seen[kv.Key] {
			c.Failf("%s: key %x (%s) appears twice in the re-serialised state", what, kv.Key, c17KindName(kindOf[kv.Key], kindOf, kv.Key))
		}
		seen[kv.Key] = true
		w, ok := want[kv.Key]
		if !ok {
			c.Failf("%s: key %x (value %d bytes) is not in the original key-value set", what, kv.Key, len(kv.Value))
		}
		if !bytes.Equal(w, kv.Value) {
			c.Failf("%s: key %x (%s): value differs from the original: got %d bytes %x.. want %d bytes %x..", what, kv.Key,
				c17KindName(kindOf[kv.Key], kindOf, kv.Key), len(kv.Value), c17Head(kv.Value), len(w), c17Head(w))
		}
	}
	if len(seen) != len(want) {
		// name one lost key (smallest, for a deterministic message)
		var lost []types.StateKey
		for k := range want {
			if !seen[k] {
				lost = append(lost, k)
			}
		}
		sort.Slice(lost, func(i, j int) bool { return bytes.Compare(lost[i][:], lost[j][:]) < 0 })
		c.Failf("%s: %d of %d original entries are lost, first %x (%s)", what, len(lost), len(want), lost[0], c17KindName(kindOf[lost[0]], kindOf, lost[0]))
	}
}

func c17Head(b []byte) []byte {
	if len(b) > 12 {
		return b[:12]
	}
	return b
}

func c17KindName(k int, kindOf map[types.StateKey]int, key types.StateKey) string {
	if _, ok := kindOf[key]; !ok {
		return "unclassified"
	}
	return [...]string{"lookup with preimage", "lookup without preimage", "storage", "chapter", "preimage", "service info", "unknown"}[k]
}

// ---------------------------------------------------------------------------
// check

func c17Check(c *kit.Case, in c17Input) {
	if in.State == nil {
		return
	}
	s := typegen.BuildState(in.State)
	if s.Delta == nil {
		s.Delta = types.ServiceAccountState{}
	}
	applied := c17ApplyExtras(&s, in.Extras)

	// ---- export
	K, err := m.StateEncoder(s)
	if err != nil {
		c.Failf("StateEncoder(s) failed on a well-formed state: %v", err)
	}
	want := make(map[types.StateKey][]byte, len(K))
	for _, kv := range K {
		if _, dup := want[kv.Key]; dup {
			c.Failf("StateEncoder(s) emitted key %x twice", kv.Key)
		}
		want[kv.Key] = append([]byte{}, kv.Value...)
	}
	rootK := m.MerklizationSerializedState(c17CopyKV(K))

	// ---- classification of K by the reference key construction (never decides pass/fail)
	kindOf := make(map[types.StateKey]int, len(K))
	for i := 1; i <= 16; i++ {
		var k types.StateKey
		k[0] = byte(i)
		kindOf[k] = c17KChapter
	}
	ids := c17SortedIDs(s.Delta)
	nStorage, nPre, nMatched, nBare := 0, 0, 0, 0
	svcFull := false // a service with a matched lookup, a bare lookup and a storage item
	sameBlobTwoServices := false
	blobOwners := map[types.OpaqueHash]int{}
	lookupOf := map[types.StateKey]types.StateKey{} // matched lookup key -> its preimage key
	for _, id := range ids {
		a := s.Delta[id]
		kindOf[c17RefInfoKey(id)] = c17KInfo
		for k := range a.StorageDict {
			kindOf[c17RefStorageKey(id, k)] = c17KStorage
			nStorage++
		}
		for h := range a.PreimageLookup {
			kindOf[c17RefPreimageKey(id, h)] = c17KPreimage
			nPre++
			blobOwners[h]++
			if blobOwners[h] > 1 {
				sameBlobTwoServices = true
			}
		}
		mHere, bHere := 0, 0
		for lk := range a.LookupDict {
			key := c17RefLookupKey(id, lk)
			if blob, ok := a.PreimageLookup[lk.Hash]; ok && int(lk.Length) == len(blob) {
				kindOf[key] = c17KLookupMatched
				lookupOf[key] = c17RefPreimageKey(id, lk.Hash)
				nMatched++
				mHere++
			} else {
				kindOf[key] = c17KLookupBare
				nBare++
				bHere++
			}
		}
		if mHere > 0 && bHere > 0 && len(a.StorageDict) > 0 {
			svcFull = true
		}
	}
	refKeysOK := len(kindOf) == len(K)
	for _, kv := range K {
		if _, ok := kindOf[kv.Key]; !ok {
			refKeysOK = false
		}
	}
	if !refKeysOK {
		c.Class("note_reference_keys_differ_from_StateEncoder_keys")
	}

	// ---- drawn presentation of K
	asc := c17CopyKV(K)
	sort.Slice(asc, func(i, j int) bool { return bytes.Compare(asc[i].Key[:], asc[j].Key[:]) < 0 })
	pk := func(i int) int {
		if len(in.PermKeys) == 0 {
			return 0
		}
		return int(in.PermKeys[i%len(in.PermKeys)])
	}
	idx := make([]int, len(asc))
	for i := range idx {
		idx[i] = i
	}
	rank := func(i int) int {
		k, ok := kindOf[asc[i].Key]
		if !ok {
			return c17KUnknown
		}
		if k == c17KLookupBare {
			return c17KLookupMatched // both sorts of lookups together
		}
		return k
	}
	switch in.Order {
	case 1:
	case 2:
		for i, j := 0, len(idx)-1; i < j; i, j = i+1, j-1 {
			idx[i], idx[j] = idx[j], idx[i]
		}
	case 3, 4:
		sort.SliceStable(idx, func(a, b int) bool {
			ra, rb := rank(idx[a]), rank(idx[b])
			if ra != rb {
				if in.Order == 3 {
					return ra < rb
				}
				return ra > rb
			}
			if pk(idx[a]) != pk(idx[b]) {
				return pk(idx[a]) < pk(idx[b])
			}
			return idx[a] < idx[b]
		})
	default:
		sort.SliceStable(idx, func(a, b int) bool {
			if pk(idx[a]) != pk(idx[b]) {
				return pk(idx[a]) < pk(idx[b])
			}
			return idx[a] < idx[b]
		})
	}
	list := make(types.StateKeyVals, len(asc))
	pos := make(map[types.StateKey]int, len(asc))
	for i, j := range idx {
		list[i] = asc[j]
		pos[asc[j].Key] = i
	}
	lookupBeforePreimage, lookupAfterPreimage := false, false
	for lkKey, preKey := range lookupOf {
		pl, ok1 := pos[lkKey]
		pp, ok2 := pos[preKey]
		if ok1 && ok2 {
			if pl < pp {
				lookupBeforePreimage = true
			} else {
				lookupAfterPreimage = true
			}
		}
	}

	// ---- an import that is refused part-way must leave nothing behind for the next one
	if in.FailedFirst {
		other := c17CopyKV(list)
		cut := -1
		for i, kv := range other {
			chapter := kv.Key[0] >= 1 && kv.Key[0] <= 16
			for _, b := range kv.Key[1:] {
				chapter = chapter && b == 0
			}
			if chapter && len(kv.Value) >= 2 {
				cut = i
			}
		}
		if cut >= 0 {
			other[cut].Value = other[cut].Value[:len(other[cut].Value)/2]
			for j := 0; j < 8; j++ { // entries of a service the state under test does not know
				var k types.StateKey
				k[0], k[1], k[2], k[3], k[4], k[5], k[6], k[7] = 0xAD, 0xFF, 0xDE, 0xFF, 0x0B, 0xFF, 0x00, 0xFF
				k[8], k[30] = byte(j+1), byte(j)
				// in front: they are seen before the damaged chapter is
				other = append(types.StateKeyVals{{Key: k, Value: types.ByteSequence{byte(j), 1, 2, 3}}}, other...)
			}
			if _, _, ferr := m.StateKeyValsToState(other); ferr != nil {
				c.Class("failed_import_before")
			} else {
				c.Class("damaged_import_was_accepted")
			}
		}
	}

	// ---- import + re-export (the property)
	s2, raw, err := m.StateKeyValsToState(c17CopyKV(list))
	if err != nil {
		c.Failf("StateKeyValsToState failed on StateEncoder output (%d entries, order %d): %v", len(list), in.Order, err)
	}
	K2, err := m.StateEncoder(s2)
	if err != nil {
		c.Failf("StateEncoder(parsed state) failed: %v", err)
	}
	all := append(c17CopyKV(K2), c17CopyKV(raw)...)
	c17SameSet(c, "StateEncoder(parse(K)) ∪ raw", want, all, kindOf)
	if root2 := m.MerklizationSerializedState(c17CopyKV(all)); root2 != rootK {
		c.Failf("state root of the re-serialised state %x differs from the root of K %x", root2, rootK)
	}

	// attribution as one would expect from the parser's documentation: classes only
	attrOK := len(raw) == nStorage+nBare
	for _, id := range ids {
		a, b := s.Delta[id], s2.Delta[id]
		if len(b.PreimageLookup) != len(a.PreimageLookup) || len(b.StorageDict) != 0 {
			attrOK = false
		}
		nm := 0
		for lk := range a.LookupDict {
			if blob, ok := a.PreimageLookup[lk.Hash]; ok && int(lk.Length) == len(blob) {
				nm++
			}
		}
		if len(b.LookupDict) != nm {
			attrOK = false
		}
	}
	if len(s2.Delta) != len(s.Delta) {
		attrOK = false
	}
	if attrOK {
		c.Class("attribution_as_documented")
	} else {
		c.Class("note_attribution_differs_from_documentation")
	}

	// ---- the same relation where the node uses the parser
	if in.Chain {
		c17Chain(c, in, list, want, rootK, kindOf)
	}

	// ---- evidence
	if svcFull {
		c.NonTrivial()
		c.Class("service_with_matched+bare_lookup+storage")
	}
	switch n := len(ids); {
	case n == 0:
		c.Class("services_0")
	case n <= 2:
		c.Class("services_1_2")
	default:
		c.Class("services_3_8")
	}
	if nBare > 0 {
		c.Class("has_lookup_without_preimage")
	}
	if nMatched > 0 {
		c.Class("has_lookup_with_preimage")
	}
	if nStorage > 0 {
		c.Class("has_storage")
	}
	if lookupBeforePreimage {
		c.Class("lookup_listed_before_its_preimage")
	}
	if lookupAfterPreimage {
		c.Class("lookup_listed_after_its_preimage")
	}
	if applied[0] > 0 {
		c.Class("extra_foreign_lookup")
	}
	if applied[1] > 0 {
		c.Class("extra_wrong_length_lookup")
	}
	if applied[2] > 0 || sameBlobTwoServices {
		c.Class("same_blob_in_two_services")
	}
	if applied[3] > 0 {
		c.Class("extra_bare_request")
	}
	if applied[4] > 0 {
		c.Class("extra_empty_storage_key")
	}
	if applied[5] > 0 {
		c.Class("extra_special_service_id")
	}
	c.Class(fmt.Sprintf("order_%d", in.Order))
	_ = nPre
}

// c17Chain: BuildStateRootInputKeyValsAndRoot, SetState -> GetState, RestoreBlockAndState.
func c17Chain(c *kit.Case, in c17Input, list types.StateKeyVals, want map[types.StateKey][]byte, rootK types.StateRoot, kindOf map[types.StateKey]int) {
	// (1) ChainState.BuildStateRootInputKeyValsAndRoot on a fresh instance
	blockchain.ResetInstance()
	cs := blockchain.GetInstance()
	merkleIn, root, err := cs.BuildStateRootInputKeyValsAndRoot(c17CopyKV(list))
	if err != nil {
		c.Failf("BuildStateRootInputKeyValsAndRoot: %v", err)
	}
	c17SameSet(c, "BuildStateRootInputKeyValsAndRoot", want, merkleIn, kindOf)
	if root != rootK {
		c.Failf("BuildStateRootInputKeyValsAndRoot root %x != root of K %x", root, rootK)
	}
	// (1b) a SECOND import on the same node (the same key-values with every value perturbed, so it
	// has the same size) must not disturb what the first import handed out: the first result is
	// looked at again afterwards (an aliased/reused output buffer shows only now), and the second
	// result must be right for the second input (a stale per-key cache shows here)
	list2 := c17CopyKV(list)
	want2 := make(map[types.StateKey][]byte, len(list2))
	for i := range list2 {
		v := append([]byte(nil), list2[i].Value...)
		if kindOf[list2[i].Key] == 2 { // storage items are opaque to the parser: perturb only those
			if len(v) < 32 && i%2 == 0 {
				v = append(v, 0) // same content plus a trailing zero byte (still an embedded trie value)
			} else if len(v) > 0 {
				v[len(v)-1] ^= 0x5A
			}
		}
		list2[i].Value = v
		want2[list2[i].Key] = v
	}
	merkleIn2, root2, err2 := cs.BuildStateRootInputKeyValsAndRoot(c17CopyKV(list2))
	c17SameSet(c, "first import's result, re-read after a second import on the same node", want, merkleIn, kindOf)
	if err2 == nil {
		// the perturbed values need not parse as the same components, so only the serialised
		// state's integrity is judged when the parser accepted them
		c17SameSet(c, "second import on the same node", want2, merkleIn2, kindOf)
		if wantRoot2 := m.MerklizationSerializedState(list2); root2 != wantRoot2 {
			c.Failf("second import on the same node: root %x, uncached root of its key-values %x", root2, wantRoot2)
		}
		c.Class("second_import_accepted")
	} else {
		c.Class("second_import_rejected_by_parser")
	}

	// (2) fuzz service SetState -> GetState (SetState resets the singleton itself)
	var parent types.HeaderHash
	binary.LittleEndian.PutUint64(parent[:], in.HdrSeed)
	header := types.Header{Parent: parent, Slot: types.TimeSlot(in.HdrSlot)}
	hh, err := hash.ComputeBlockHeaderHash(header)
	if err != nil {
		return // header not encodable: nothing to check here
	}
	svc := &FuzzServiceStub{}
	rootSet, err := svc.SetState(header, c17CopyKV(list), nil)
	if err != nil {
		c.Failf("SetState failed on StateEncoder output: %v", err)
	}
	if rootSet != rootK {
		c.Failf("SetState returned root %x, root of K is %x", rootSet, rootK)
	}
	got, err := svc.GetState(hh)
	if err != nil {
		c.Failf("GetState(header hash of the SetState header) failed: %v", err)
	}
	c17SameSet(c, "SetState -> GetState", want, got, kindOf)

	// (3) RestoreBlockAndState reads the persisted key-values back and parses them again
	cs = blockchain.GetInstance()
	cs.GetPriorStates().SetState(types.State{})
	cs.SetPriorStateUnmatchedKeyVals(nil)
	if err := cs.RestoreBlockAndState(hh); err != nil {
		c.Failf("RestoreBlockAndState failed: %v", err)
	}
	K3, err := m.StateEncoder(cs.GetPriorStates().GetState())
	if err != nil {
		c.Failf("StateEncoder(restored prior state): %v", err)
	}
	all3 := append(c17CopyKV(K3), cs.GetPriorStateUnmatchedKeyVals()...)
	c17SameSet(c, "RestoreBlockAndState (prior state ∪ prior unmatched)", want, all3, kindOf)
	c17SameSet(c, "RestoreBlockAndState (prior state ∪ post unmatched)", want, append(c17CopyKV(K3), cs.GetPostStateUnmatchedKeyVals()...), kindOf)
	if r := m.MerklizationSerializedState(c17CopyKV(all3)); r != rootK {
		c.Failf("root after RestoreBlockAndState %x != root of K %x", r, rootK)
	}
}

func TestVerif_C17(t *testing.T) {
	s := kit.Begin(t, "C17")
	defer s.Finish()
	runtime.MemProfileRate = 0
	typegen.SetMode("tiny")
	kit.Run(s, "export_import_roundtrip", kit.N{Quick: 6000, Thorough: 150000}, c17Gen, c17Check)
}
