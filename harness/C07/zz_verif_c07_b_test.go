package PVM

// C07 file b: generator. All randomness through rapid; the result is pure data.

import (
	"encoding/binary"
	"sort"

	"github.com/New-JAMneration/JAM-Protocol/internal/types"
	"pgregory.net/rapid"
)

type c07G struct {
	rt     *rapid.T
	in     *c07Input
	caller uint64
	other  uint64
}

func (g *c07G) pick(label string, vals ...uint64) uint64 {
	return rapid.SampledFrom(vals).Draw(g.rt, label)
}

func (g *c07G) n(label string, lo, hi int) int { return rapid.IntRange(lo, hi).Draw(g.rt, label) }

func c07GenPages(rt *rapid.T) []vpPage {
	var out []vpPage
	for p := uint32(16); p <= 21; p++ {
		a := rapid.SampledFrom([]int{-1, 0, 1, 1, 2, 2, 2, 2}).Draw(rt, "page_acc")
		if a < 0 {
			continue
		}
		out = append(out, vpPage{Page: p, Access: a, Fill: uint8(rapid.IntRange(0, 255).Draw(rt, "fill"))})
	}
	if rapid.IntRange(0, 3).Draw(rt, "top_pages") == 0 {
		for _, p := range []uint32{0xFFFFE, 0xFFFFF} {
			a := rapid.SampledFrom([]int{-1, 1, 2, 2}).Draw(rt, "top_acc")
			if a >= 0 {
				out = append(out, vpPage{Page: p, Access: a, Fill: uint8(rapid.IntRange(0, 255).Draw(rt, "fill"))})
			}
		}
	}
	sort.Slice(out, func(i, j int) bool { return out[i].Page < out[j].Page })
	return out
}

// maximal runs [S,E) of consecutive pages with access >= need
func (g *c07G) runs(need int) [][2]uint64 {
	var out [][2]uint64
	pg := g.in.Pages
	for i := 0; i < len(pg); {
		if pg[i].Access < need {
			i++
			continue
		}
		j := i
		for j+1 < len(pg) && pg[j+1].Access >= need && pg[j+1].Page == pg[j].Page+1 {
			j++
		}
		out = append(out, [2]uint64{uint64(pg[i].Page) * ZP, (uint64(pg[j].Page) + 1) * ZP})
		i = j + 1
	}
	return out
}

func (g *c07G) badAddr(label string, n uint64, write bool) uint64 {
	cands := []uint64{0, 1<<32 - 1, 1 << 32, ^uint64(0)}
	if n <= 1<<32 {
		cands = append(cands, (1<<32)-n)
	}
	for _, p := range g.in.Pages {
		base := uint64(p.Page) * ZP
		cands = append(cands, base-1, base+ZP-1, base+ZP)
		if n >= 2 {
			cands = append(cands, base+ZP-n/2)
		}
		if n >= 1 && n <= ZP {
			cands = append(cands, base+ZP-n+1)
		}
		if p.Access == 0 || (write && p.Access == 1) {
			cands = append(cands, base, base+8)
		}
	}
	return rapid.SampledFrom(cands).Draw(g.rt, label+"_bad")
}

// place chooses where an argument of n octets lives (mostly inside accessible memory, biased to the
// edges of a run and to page boundaries; sometimes deliberately leaking out) and records its bytes.
func (g *c07G) place(label string, n uint64, data []byte, write bool) uint64 {
	need := 1
	if write {
		need = 2
	}
	var fit [][2]uint64
	for _, r := range g.runs(need) {
		if r[1]-r[0] >= n {
			fit = append(fit, r)
		}
	}
	var addr uint64
	if len(fit) == 0 || g.n(label+"_miss", 0, 7) == 0 {
		addr = g.badAddr(label, n, write)
	} else {
		r := rapid.SampledFrom(fit).Draw(g.rt, label+"_run")
		S, E := r[0], r[1]
		cands := []uint64{S, E - n, S + (E-S-n)/2}
		if E-S > ZP && n >= 2 {
			a := (S/ZP+1)*ZP - n/2
			if a < S {
				a = S
			}
			if a+n > E {
				a = E - n
			}
			cands = append(cands, a, a)
		}
		addr = rapid.SampledFrom(cands).Draw(g.rt, label+"_at")
	}
	if data != nil {
		g.in.Writes = append(g.in.Writes, c07Write{Addr: addr, Data: data})
	}
	return addr
}

func (g *c07G) svc(label string) uint64 {
	return g.pick(label, g.caller, g.caller, g.other, g.other, c09AbsentID, ^uint64(0), ^uint64(0), g.caller|1<<32, 0, 7)
}

// reg: a boundary-biased register value
func (g *c07G) reg(label string) uint64 {
	switch g.n(label+"_k", 0, 9) {
	case 0, 1, 2:
		if len(g.in.Pages) == 0 {
			return g.pick(label+"_fx", 0, 0xFFFF, 0x10000, 0xFFFFFFFF, 0xFFFF0000)
		}
		p := rapid.SampledFrom(g.in.Pages).Draw(g.rt, label+"_pg")
		off := rapid.SampledFrom([]int64{-33, -32, -1, 0, 1, 100, ZP - 128, ZP - 112, ZP - 33, ZP - 32, ZP - 31, ZP - 1, ZP, ZP + 1}).Draw(g.rt, label+"_off")
		return uint64(int64(uint64(p.Page)*ZP) + off)
	case 3:
		return g.pick(label+"_sp", 0, 1<<32-1, 1<<32, ^uint64(0), ^uint64(0)-1, ^uint64(0)-8, 1<<63, 1<<31, 1<<32+0x10000)
	case 4:
		return g.pick(label+"_len", 0, 1, 32, 112, 128, 4096, 4097, 8192, 1<<32, ^uint64(0))
	case 5:
		return g.svc(label + "_svc")
	case 6, 7:
		return uint64(g.n(label+"_sm", 0, 40))
	case 8:
		return rapid.Uint64().Draw(g.rt, label+"_u64")
	}
	return uint64(rapid.Uint32().Draw(g.rt, label+"_u32"))
}

func (g *c07G) hashAddr(label string, idx int) uint64 {
	h := g.in.Seq.hash(idx)
	return g.place(label, 32, h[:], false)
}

func (g *c07G) anyHash(label string) int { return g.n(label, 0, g.in.Seq.nHashes()-1) }

// hash indices whose preimage blob is present in the account (see c09BuildAccount)
func (g *c07G) availPre(a c09Acct) []int {
	var out []int
	for _, l := range a.Lookups {
		if l.HashIdx < len(g.in.Seq.Blobs) && int(l.Z) == len(g.in.Seq.Blobs[l.HashIdx]) && (len(l.Slots) == 1 || len(l.Slots) == 3) {
			out = append(out, l.HashIdx)
		}
	}
	return out
}

func c07AcctFree(seq *c09SeqInput, a c09Acct) uint64 {
	items, octets := uint64(0), uint64(0)
	for _, s := range a.Storage {
		items++
		octets += 34 + uint64(len(seq.Keys[s.KeyIdx])) + uint64(s.ValLen)
	}
	for _, l := range a.Lookups {
		items += 2
		octets += 81 + uint64(l.Z)
	}
	raw := c09BS + c09BI*items + c09BL*octets
	t := uint64(0)
	if raw > a.Gratis {
		t = raw - a.Gratis
	}
	if a.Balance < t {
		return 0
	}
	return a.Balance - t
}

func (g *c07G) target(label string) (uint64, c09Acct) {
	switch g.n(label, 0, 5) {
	case 0, 1:
		return ^uint64(0), g.in.Seq.Caller
	case 2:
		return g.caller, g.in.Seq.Caller
	case 3, 4:
		return g.other, g.in.Seq.Other
	}
	return c09AbsentID, c09Acct{}
}

func (g *c07G) lookupPair(label string, a c09Acct) (int, uint64) {
	if len(a.Lookups) > 0 && g.n(label+"_known", 0, 3) != 0 {
		l := rapid.SampledFrom(a.Lookups).Draw(g.rt, label+"_l")
		return l.HashIdx, uint64(l.Z)
	}
	h := g.anyHash(label + "_h")
	z := g.pick(label+"_z", 0, 1, 5, 40, 1<<16, 1<<32-1, 1<<32, 1<<32+5)
	if h < len(g.in.Seq.Blobs) && g.n(label+"_zl", 0, 1) == 0 {
		z = uint64(len(g.in.Seq.Blobs[h]))
	}
	return h, z
}

func (g *c07G) machineID(label string) uint64 {
	c := []uint64{0, 0, 0, 0, 0, 0, 1, 1, 2, 7, 1 << 32, ^uint64(0)}
	if g.in.Ref.Expunge0 {
		c = append(c, 1, 1, 1, 1)
	}
	return g.pick(label, c...)
}

func (g *c07G) bytesN(n int, seed byte) []byte {
	b := make([]byte, n)
	for i := range b {
		b[i] = seed + byte(i*7)
	}
	return b
}

// guided fills ω7..ω12 (and guest memory) with plausible arguments of call id.
func (g *c07G) guided(id uint64) {
	r := &g.in.Regs
	seq := &g.in.Seq
	wantLen := func(label string) uint64 { return g.pick(label, 0, 1, 8, 32, 96, 100, 200, 5000) }
	reqLen := func(label string, w uint64) uint64 {
		return g.pick(label, w, w, w, w+1, 1<<32, ^uint64(0))
	}
	off := func(label string) uint64 { return g.pick(label, 0, 0, 0, 1, 5, 95, 96, 1000, ^uint64(0)) }
	switch id {
	case 1:
		w := wantLen("f_w")
		r[7] = g.place("f_o", w, nil, true)
		r[8], r[9] = off("f_f"), reqLen("f_l", w)
		if g.in.Kind == 1 {
			r[10] = g.pick("f_mode", 0, 2, 3, 4, 5, 6, 7, 8, 9, 10, 11, 12, 13, 1, 14, 16)
		} else {
			r[10] = g.pick("f_mode", 0, 0, 1, 1, 14, 14, 15, 15, 7, 12, 16, 1<<32, ^uint64(0))
		}
		r[11], r[12] = uint64(g.n("f_i", 0, 3)), uint64(g.n("f_j", 0, 3))
	case 2, 6:
		var acct c09Acct
		r[7], acct = g.target("l_t")
		h := g.anyHash("l_h")
		if av := g.availPre(acct); len(av) > 0 && g.n("l_av", 0, 3) != 0 {
			h = rapid.SampledFrom(av).Draw(g.rt, "l_avh")
		}
		r[8] = g.hashAddr("l_ha", h)
		w := wantLen("l_w")
		r[9] = g.place("l_o", w, nil, true)
		r[10], r[11] = off("l_f"), reqLen("l_l", w)
	case 3:
		r[7], _ = g.target("r_t")
		k := seq.Keys[g.n("r_k", 0, len(seq.Keys)-1)]
		r[8], r[9] = g.place("r_ko", uint64(len(k)), k, false), uint64(len(k))
		w := wantLen("r_w")
		r[10] = g.place("r_o", w, nil, true)
		r[11], r[12] = off("r_f"), reqLen("r_l", w)
	case 4:
		k := seq.Keys[g.n("w_k", 0, len(seq.Keys)-1)]
		r[7], r[8] = g.place("w_ko", uint64(len(k)), k, false), uint64(len(k))
		vl := int(g.pick("w_vl", 0, 0, 1, 10, 100, 100, 3000))
		v := c09Value(vl, byte(g.n("w_fill", 0, 255)))
		r[9], r[10] = g.place("w_vo", uint64(vl), v, false), uint64(vl)
	case 5:
		r[7], _ = g.target("i_t")
		w := g.pick("i_w", 0, 8, 96, 96, 96, 200)
		r[8] = g.place("i_o", w, nil, true)
		r[9], r[10] = g.pick("i_f", 0, 0, 0, 10, 95, 96, 97), reqLen("i_l", w)
	case 7:
		z := g.pick("e_z", 0, 1, 100, 4104, 4104, 4105, 5000, 1<<32)
		m := z
		if m > types.SegmentSize {
			m = types.SegmentSize
		}
		r[7], r[8] = g.place("e_p", m, g.bytesN(int(m), 0x33), false), z
	case 8:
		var blob []byte
		switch g.n("m_b", 0, 7) {
		case 0:
			blob = []byte{0xFF}
		case 1:
			blob = []byte{}
		case 2:
			blob = []byte{0, 0, 200, 1, 2}
		default:
			blob = c07InnerProgs[g.n("m_p", 0, len(c07InnerProgs)-1)]
		}
		r[7] = g.place("m_po", uint64(len(blob)), blob, false)
		r[8] = uint64(len(blob))
		if g.n("m_lie", 0, 9) == 0 {
			r[8] = g.pick("m_pz", 0, 1, ZP, 2*ZP, 1<<32, ^uint64(0))
		}
		r[9] = g.pick("m_pc", 0, 0, 5, 13, 1000, 1<<32)
	case 9, 10:
		r[7] = g.machineID("pk_n")
		z := g.pick("pk_z", 0, 1, 4, 21, 100, ZP, ZP+1)
		inner := g.pick("pk_in", 16*ZP, 16*ZP+5, 16*ZP+100, 17*ZP-2, 15*ZP, 17*ZP, 18*ZP, 0, 1<<32-1)
		if id == 9 {
			r[8], r[9], r[10] = g.place("pk_o", z, nil, true), inner, z
		} else {
			r[8], r[9], r[10] = g.place("pk_s", z, g.bytesN(int(z), 0x11), false), inner, z
		}
	case 11:
		r[7] = g.machineID("pg_n")
		r[8] = g.pick("pg_p", 16, 16, 16, 16, 17, 17, 18, 15, 0, 0xFFFFE, 0xFFFFF, 0x100000, 1<<32, ^uint64(0))
		r[9] = g.pick("pg_c", 0, 1, 1, 1, 2, 2, 3, 0xFFFFF, 1<<20, ^uint64(0))
		r[10] = g.pick("pg_r", 0, 1, 1, 2, 2, 2, 3, 4, 5, 255, 1<<32)
	case 12:
		r[7] = g.machineID("iv_n")
		blk := make([]byte, 112)
		binary.LittleEndian.PutUint64(blk, g.pick("iv_g", 0, 1, 2, 3, 5, 100, 1000000))
		for i := 0; i < 13; i++ {
			v := g.pick("iv_r", 0, 1, 16*ZP, 16*ZP+3, 1<<32-1<<16, ^uint64(0), 0x20000)
			binary.LittleEndian.PutUint64(blk[8+8*i:], v)
		}
		r[8] = g.place("iv_o", 112, blk, true)
	case 13:
		r[7] = g.machineID("ex_n")
	case 14:
		C := types.CoresCount
		a := make([]byte, 4*C)
		for i := 0; i < C; i++ {
			binary.LittleEndian.PutUint32(a[4*i:], uint32(g.pick("b_a", g.caller, g.other, c09AbsentID, 0)))
		}
		id32 := func(label string) uint64 {
			return g.pick(label, g.caller, g.other, c09AbsentID, 0, 1<<32-1, 1<<32-1, 1<<32, ^uint64(0))
		}
		n := g.n("b_n", 0, 3)
		z := make([]byte, 12*n)
		for i := 0; i < n; i++ {
			binary.LittleEndian.PutUint32(z[12*i:], uint32(800+i))
			binary.LittleEndian.PutUint64(z[12*i+4:], uint64(50+i))
		}
		r[7], r[8], r[9], r[10] = id32("b_m"), g.place("b_ao", uint64(len(a)), a, false), id32("b_v"), id32("b_r")
		r[11], r[12] = g.place("b_o", uint64(len(z)), z, false), uint64(n)
		if g.n("b_nlie", 0, 9) == 0 {
			r[12] = g.pick("b_nbig", 400, 1<<32, 1<<61, (1<<64-1)/12+1, ^uint64(0))
		}
	case 15:
		q := g.bytesN(32*types.AuthQueueSize, byte(g.n("as_seed", 0, 255)))
		r[7] = g.pick("as_c", 0, 0, 0, 1, 1, 1, uint64(types.CoresCount), 2, 1<<32, ^uint64(0))
		r[8] = g.place("as_o", uint64(len(q)), q, false)
		r[9] = g.pick("as_a", g.caller, g.other, c09AbsentID, 0, 1<<32-1, 1<<32, ^uint64(0))
	case 16:
		v := g.bytesN(336*types.ValidatorsCount, byte(g.n("d_seed", 0, 255)))
		r[7] = g.place("d_o", uint64(len(v)), v, false)
	case 18:
		r[7] = g.hashAddr("n_o", g.anyHash("n_h"))
		r[8] = g.pick("n_l", 0, 5, 100, 200, 1<<20, 1<<32-1, 1<<32, ^uint64(0))
		r[9], r[10] = uint64(g.n("n_g", 0, 100)), uint64(g.n("n_m", 0, 100))
		r[11] = g.pick("n_f", 0, 0, 0, 5)
		r[12] = g.pick("n_i", 0, 100, 65535, g.other, g.other, g.other, g.caller, 65536, 1<<32-1, ^uint64(0))
	case 19:
		r[7] = g.hashAddr("u_o", g.anyHash("u_h"))
		r[8], r[9] = g.reg("u_g"), g.reg("u_m")
	case 20:
		free := c07AcctFree(seq, seq.Caller)
		r[7] = g.pick("t_d", g.other, g.other, g.other, g.caller, c09AbsentID, g.other|1<<32)
		r[8] = g.pick("t_a", 0, 1, 1, free, free, free+1, free-1, seq.Caller.Balance, seq.Caller.Balance+1, 1<<63, ^uint64(0))
		rem := uint64(0)
		if g.in.Gas >= 10 {
			rem = uint64(g.in.Gas - 10)
		}
		r[9] = g.pick("t_l", 0, 8, 9, 9, 10, 100, rem, rem, rem+1, rem-1, 1<<63, ^uint64(0))
		r[10] = g.place("t_o", 128, g.bytesN(128, 0x4D), false)
	case 21:
		r[7] = g.pick("ej_d", g.other, g.other, g.other, g.other, g.caller, c09AbsentID)
		h := g.anyHash("ej_h")
		if len(seq.Other.Lookups) > 0 && g.n("ej_known", 0, 5) != 0 {
			h = seq.Other.Lookups[0].HashIdx
		}
		r[8] = g.hashAddr("ej_o", h)
	case 22, 23, 24:
		h, z := g.lookupPair("q", seq.Caller)
		r[7], r[8] = g.hashAddr("q_o", h), z
	case 25:
		r[7] = g.hashAddr("y_o", g.anyHash("y_h"))
	case 26:
		var pacct c09Acct
		r[7], pacct = g.target("p_t")
		bi := g.n("p_b", 0, len(seq.Blobs)-1)
		var requested []int
		for _, l := range pacct.Lookups {
			if l.HashIdx < len(seq.Blobs) && int(l.Z) == len(seq.Blobs[l.HashIdx]) && len(l.Slots) == 0 {
				requested = append(requested, l.HashIdx)
			}
		}
		if len(requested) > 0 && g.n("p_req", 0, 3) != 0 {
			bi = rapid.SampledFrom(requested).Draw(g.rt, "p_reqb")
		}
		b := seq.Blobs[bi]
		r[8], r[9] = g.place("p_o", uint64(len(b)), b, false), uint64(len(b))
	case 100:
		r[7] = g.pick("lg_lvl", 0, 1, 2, 3, 4, 5, ^uint64(0))
		if g.n("lg_tgt", 0, 1) == 0 {
			r[8], r[9] = 0, 0
		} else {
			r[8], r[9] = g.place("lg_t", 6, []byte("target"), false), 6
		}
		r[10], r[11] = g.place("lg_m", 11, []byte("hello world"), false), 11
	}
}

// c07Boost reshapes the C09 accounts (as data) so that provide / eject can succeed.
func c07HasPair(a *c09Acct, h int, z uint32) bool {
	for _, l := range a.Lookups {
		if l.HashIdx == h && l.Z == z {
			return true
		}
	}
	return false
}

// boostPreimage adds an available preimage (lookup entry [x] with x <= t plus the blob) to one account.
func (g *c07G) boostPreimage() {
	seq := &g.in.Seq
	if g.n("boost_pre", 0, 2) == 0 {
		return
	}
	a := &seq.Caller
	if g.n("bpre_who", 0, 1) == 0 && !g.in.Acc.EjectOther {
		a = &seq.Other
	}
	b := g.n("bpre_b", 0, len(seq.Blobs)-1)
	z := uint32(len(seq.Blobs[b]))
	if !c07HasPair(a, b, z) && len(a.Lookups) < 6 && a.Balance < 1<<62 {
		x := uint32(g.pick("bpre_x", 0, 0, uint64(seq.Timeslot), uint64(seq.Timeslot)))
		a.Lookups = append(a.Lookups, c09Lkp{HashIdx: b, Z: z, Slots: []uint32{x}, Raw: g.n("bpre_raw", 0, 2) == 0})
		a.Balance += 2*c09BI + 81 + uint64(z)
	}
}

func (g *c07G) boost(id uint64) {
	seq := &g.in.Seq
	hasPair := c07HasPair
	doEject := g.n("boost_eject", 0, 7) == 0
	if id == 21 {
		doEject = g.n("boost_eject21", 0, 4) != 0
	}
	if doEject {
		g.in.Acc.EjectOther = true
		if seq.Timeslot < 40 {
			seq.Timeslot = uint32(g.pick("ej_t", 40, 100, 1000, 1<<32-1))
		}
		t := uint64(seq.Timeslot)
		y := g.pick("ej_y", 0, t-33, t-33, t-33, t-34, t-32)
		x := uint64(0)
		if y > 0 {
			x = y - 1
		}
		slots := []uint32{uint32(x), uint32(y)}
		switch g.n("ej_shape", 0, 14) {
		case 0:
			slots = []uint32{}
		case 1:
			slots = []uint32{uint32(x)}
		case 2:
			slots = []uint32{0, uint32(x), uint32(y)}
		}
		z := uint32(g.pick("ej_z", 0, 5, 40))
		seq.Other.Storage = nil
		seq.Other.Lookups = []c09Lkp{{HashIdx: g.anyHash("ej_hidx"), Z: z, Slots: slots}}
		if g.n("ej_two", 0, 11) == 0 {
			seq.Other.Lookups = append(seq.Other.Lookups, c09Lkp{HashIdx: seq.Other.Lookups[0].HashIdx, Z: z + 1, Slots: []uint32{}})
		}
		seq.Other.Gratis = 0
		need := uint64(c09BS)
		for _, l := range seq.Other.Lookups {
			need += 2*c09BI + 81 + uint64(l.Z)
		}
		seq.Other.Balance = need + g.pick("ej_slack", 0, 7, 1000)
	}
	g.boostPreimage()
	if g.n("boost_provide", 0, 1) == 0 || id == 26 {
		a := &seq.Caller
		if g.n("bp_who", 0, 1) == 0 && !g.in.Acc.EjectOther {
			a = &seq.Other
		}
		b := g.n("bp_b", 0, len(seq.Blobs)-1)
		z := uint32(len(seq.Blobs[b]))
		if !hasPair(a, b, z) && len(a.Lookups) < 6 && a.Balance < 1<<62 {
			a.Lookups = append(a.Lookups, c09Lkp{HashIdx: b, Z: z, Slots: []uint32{}, Raw: g.n("bp_raw", 0, 2) == 0})
			a.Balance += 2*c09BI + 81 + uint64(z)
		}
	}
}

func c07GenKind(rt *rapid.T) int {
	return rapid.SampledFrom([]int{0, 0, 0, 0, 0, 0, 0, 0, 0, 0, 0, 1, 1, 1, 1, 1, 1, 1, 2}).Draw(rt, "kind")
}

// c07GenCtx draws the context; id is only a hint used to make that call's success path reachable more often.
func c07GenCtx(rt *rapid.T, in *c07Input, g *c07G, id uint64) {
	if in.Kind != 2 {
		in.Seq = c09GenSeq(rt)
		in.Seq.Ops = nil
		g.caller, g.other = uint64(in.Seq.Caller.ID), uint64(in.Seq.Other.ID)
	}
	switch in.Kind {
	case 0:
		for c := 0; c < types.CoresCount && c < 8; c++ {
			in.Acc.AssignSelf = append(in.Acc.AssignSelf, g.n("assign_self", 0, 2) != 0)
		}
		in.Acc.DesignateSelf = g.n("designate_self", 0, 2) != 0
		in.Acc.Always = g.n("always", 0, 2)
		in.Acc.Operands = g.n("operands", 0, 3)
		in.Acc.Eta = byte(g.pick("eta", 0, 1, 77, 255))
		np := int(g.pick("n_prefix", 0, 0, 1, 2, 3, 4))
		for i := 0; i < np; i++ {
			in.Acc.Prefix = append(in.Acc.Prefix, g.n("prefix_op", 0, 4))
		}
		g.boost(id)
	case 1:
		g.boostPreimage()
		rc := &in.Ref
		rc.Items = g.n("items", 1, 3)
		rc.ItemIdx = g.n("item_idx", 0, rc.Items-1)
		if g.n("has_imports", 0, 3) != 0 {
			rc.Imports = make([]int, rc.Items)
			for i := range rc.Imports {
				rc.Imports[i] = g.n("n_imports", 0, 2)
			}
		}
		rc.Extr = make([]int, rc.Items)
		for i := range rc.Extr {
			rc.Extr[i] = g.n("n_extr", 0, 2)
		}
		rc.AuthOut = int(g.pick("auth_out", 0, 1, 10, 100))
		rc.ExportOff = g.pick("export_off", 0, 0, 0, 5, 3070, 3071, 3072, 3073)
		rc.Exported = g.n("exported", 0, 2)
		nm := int(g.pick("n_machines", 0, 1, 1, 2, 2))
		if id >= 9 && id <= 13 && nm == 0 && g.n("force_machine", 0, 9) != 0 {
			nm = 1
		}
		for i := 0; i < nm; i++ {
			m := c07Machine{Prog: g.n("mprog", 0, len(c07InnerProgs)-1), PC: g.pick("mpc", 0, 0, 0, 13, 1000), Poke: g.n("mpoke", 0, 1) == 0}
			for j, np := 0, g.n("m_npages", 0, 2); j < np; j++ {
				m.Pages = append(m.Pages, [3]uint64{g.pick("mp", 16, 16, 17, 18), g.pick("mc", 1, 1, 2), g.pick("mr", 2, 2, 1)})
			}
			if (id == 9 || id == 10 || id == 12) && i == 0 && g.n("force_pages", 0, 3) != 0 {
				m.Pages = append([][3]uint64{{16, 2, g.pick("fr", 2, 2, 1)}}, m.Pages...)
				if len(m.Pages) > 3 {
					m.Pages = m.Pages[:3]
				}
			}
			rc.Machines = append(rc.Machines, m)
		}
		rc.Expunge0 = nm == 2 && g.n("expunge0", 0, 3) == 0
	}
	in.Pages = c07GenPages(rt)
	in.Gas = int64(g.pick("gas", 1<<40, 1<<40, 1<<40, 1<<40, 1<<40, 1<<40, 1<<40, 1<<40, 10000, 10000, 10000, 1<<62))
	if g.n("gas_low", 0, 19) == 0 {
		in.Gas = int64(g.n("gas_low_val", 0, 25))
	}
}

func (g *c07G) args(id uint64) {
	for i := range g.in.Regs {
		g.in.Regs[i] = g.reg("reg")
	}
	if g.n("guided", 0, 9) < 7 && (g.in.Kind != 2 || c07Defined(2, id)) {
		g.guided(id)
		if g.n("perturb", 0, 3) == 0 {
			g.in.Regs[g.n("perturb_reg", 7, 12)] = g.reg("perturbed")
		}
	}
}

func c07ImmOf(id uint64, n int) []byte {
	b := make([]byte, n)
	for i := range b {
		b[i] = byte(id >> (8 * uint(i)))
	}
	return b
}

func c07GenDirect(rt *rapid.T) c07Input {
	var in c07Input
	g := &c07G{rt: rt, in: &in}
	in.Kind = c07GenKind(rt)
	id := rapid.SampledFrom(c07GenOrder(in.Kind)).Draw(rt, "id")
	in.Imm = c07ImmOf(id, 4)
	c07GenCtx(rt, &in, g, id)
	g.args(id)
	return in
}

func c07GenDispatch(rt *rapid.T) c07Input {
	var in c07Input
	g := &c07G{rt: rt, in: &in}
	in.Kind = c07GenKind(rt)
	in.Via = 1
	other := c07IDs((in.Kind + 1 + g.n("other_kind", 0, 1)) % 3)
	k := rapid.SampledFrom(c07IDs(in.Kind)).Draw(rt, "def_id")
	switch g.n("id_class", 0, 11) {
	case 0, 1, 2: // defined for this kind
		in.Imm = c07ImmOf(k, g.n("imm_len", 1, 4))
		if k == 100 && len(in.Imm) == 1 && g.n("canon", 0, 1) == 0 {
			in.Imm = []byte{100, 0}
		}
	case 3, 4: // defined for another kind (may coincide with this kind's: then it is simply defined)
		in.Imm = c07ImmOf(rapid.SampledFrom(other).Draw(rt, "other_id"), g.n("imm_len", 1, 4))
	case 5: // undefined small
		in.Imm = c07ImmOf(uint64(g.n("small_id", 27, 99)), g.n("imm_len", 1, 4))
	case 6: // 101..255 (needs >= 2 octets from 128 on, or it is negative)
		v := uint64(g.n("mid_id", 101, 255))
		in.Imm = c07ImmOf(v, g.n("imm_len", 2, 4))
	case 7, 8: // >= 256, including k + 256 and k + 2^16
		v := g.pick("big_id", 256, 256+k, 65536+k, 1<<24+k, 1000, 0x7FFFFFFF, 0x7FFFFF00+k)
		in.Imm = c07ImmOf(v, 4)
	case 9, 10: // sign-extended 2^64-j
		switch g.n("neg_form", 0, 5) {
		case 0:
			in.Imm = []byte{0xFF}
		case 1:
			in.Imm = []byte{byte(0x80 + g.n("neg1", 0, 127))}
		case 2:
			in.Imm = []byte{byte(k), 0x80}
		case 3:
			in.Imm = []byte{byte(k), 0, 0xFF}
		case 4:
			in.Imm = []byte{byte(k), 0, 0, 0x80}
		default:
			in.Imm = c07ImmOf(g.pick("neg4", 0xFFFFFFFF, 0xFFFFFFFE, 0x80000000, 0xFFFFFF00+k, 0xFFFFFF9C), 4)
		}
	default: // empty immediate = 0 = gas
		in.Imm = []byte{}
	}
	id := c07Sext(in.Imm)
	c07GenCtx(rt, &in, g, id)
	if g.n("gas_small", 0, 4) == 0 {
		in.Gas = int64(g.n("gas_val", 0, 14))
	}
	g.args(id)
	return in
}

// generation order: rapid favours the first element, so the calls whose success path is hardest to reach come first
func c07GenOrder(kind int) []uint64 {
	switch kind {
	case 0:
		return []uint64{21, 26, 2, 20, 18, 24, 23, 22, 15, 14, 16, 3, 4, 5, 1, 19, 25, 17, 100, 0}
	case 1:
		return []uint64{6, 9, 10, 11, 12, 8, 7, 13, 1, 100, 0}
	}
	return []uint64{1, 100, 0}
}
