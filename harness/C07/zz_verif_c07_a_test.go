package PVM

// C07: host-call register, memory and error discipline (frame / invariant oracle).
// File a: case data types, identifier tables, guest-memory model, context
// builders (accumulate as Psi_A, refine as RefineInvoke, is-authorized as Psi_I)
// and the canonical context observation.

import (
	"bytes"
	"crypto/sha256"
	"encoding/binary"
	"fmt"
	"math/bits"
	"sort"

	"github.com/New-JAMneration/JAM-Protocol/internal/types"
)

// ------------------------------------------------------------------ case data

type c07Write struct {
	Addr uint64 `json:"addr"`
	Data []byte `json:"data"`
}

type c07Machine struct {
	Prog  int         `json:"prog"`
	PC    uint64      `json:"pc"`
	Pages [][3]uint64 `json:"pages"` // p, c, r of `pages` calls
	Poke  bool        `json:"poke"`
}

type c07AccCtx struct {
	AssignSelf    []bool `json:"assign_self"`
	DesignateSelf bool   `json:"designate_self"`
	Always        int    `json:"always"`
	Operands      int    `json:"operands"`
	Eta           byte   `json:"eta"`
	EjectOther    bool   `json:"eject_other"`
	Prefix        []int  `json:"prefix"` // real calls made before the case: 0 yield 1 transfer 2 provide 3 checkpoint 4 write
}

type c07RefCtx struct {
	Items     int          `json:"items"`
	ItemIdx   int          `json:"item_idx"`
	Imports   []int        `json:"imports"` // nil: no import segments at all
	Extr      []int        `json:"extr"`
	AuthOut   int          `json:"auth_out"`
	ExportOff uint64       `json:"export_off"`
	Exported  int          `json:"exported"`
	Machines  []c07Machine `json:"machines"`
	Expunge0  bool         `json:"expunge0"`
}

type c07Input struct {
	Kind   int         `json:"kind"` // 0 accumulate 1 refine 2 is-authorized
	Via    int         `json:"via"`  // 0 direct table call, 1 through Host.HostCall on `ecalli imm; trap`
	Imm    []byte      `json:"imm"`  // ecalli immediate octets (0..4); the identifier is their sign extension
	Regs   [13]uint64  `json:"regs"`
	Gas    int64       `json:"gas"`
	Pages  []vpPage    `json:"pages"`
	Writes []c07Write  `json:"writes"` // argument bytes placed in guest memory (wherever a page is present)
	Seq    c09SeqInput `json:"seq"`    // the two service accounts (C09 generator), ops unused
	Acc    c07AccCtx   `json:"acc"`
	Ref    c07RefCtx   `json:"ref"`
}

// ------------------------------------------------------------------ identifier tables (typed in from GP 0.7.2 / JIP-1)

var c07AccIDs = []uint64{0, 1, 2, 3, 4, 5, 14, 15, 16, 17, 18, 19, 20, 21, 22, 23, 24, 25, 26, 100}
var c07RefIDs = []uint64{0, 1, 6, 7, 8, 9, 10, 11, 12, 13, 100}
var c07AuthIDs = []uint64{0, 1, 100}

var c07Names = map[uint64]string{0: "gas", 1: "fetch", 2: "lookup", 3: "read", 4: "write", 5: "info", 6: "historical_lookup",
	7: "export", 8: "machine", 9: "peek", 10: "poke", 11: "pages", 12: "invoke", 13: "expunge", 14: "bless", 15: "assign",
	16: "designate", 17: "checkpoint", 18: "new", 19: "upgrade", 20: "transfer", 21: "eject", 22: "query", 23: "solicit",
	24: "forget", 25: "yield", 26: "provide", 100: "log"}

var c07KindNames = []string{"acc", "ref", "auth"}

func c07IDs(kind int) []uint64 {
	switch kind {
	case 0:
		return c07AccIDs
	case 1:
		return c07RefIDs
	}
	return c07AuthIDs
}

func c07Defined(kind int, id uint64) bool {
	for _, x := range c07IDs(kind) {
		if x == id {
			return true
		}
	}
	return false
}

func c07Table(kind int) Omegas {
	switch kind {
	case 0:
		return AccumulateOmegas
	case 1:
		return RefineOmegas
	}
	return IsAuthorizedOmegas
}

// c07Sext: the ecalli immediate, n <= 4 octets little-endian, sign-extended to 64 bits (GP A.5.2).
func c07Sext(imm []byte) uint64 {
	n := len(imm)
	if n == 0 {
		return 0
	}
	var v uint64
	for i, b := range imm {
		v |= uint64(b) << (8 * uint(i))
	}
	if imm[n-1]&0x80 != 0 {
		v |= ^uint64(0) << (8 * uint(n))
	}
	return v
}

func c07ErrName(v uint64) string {
	switch v {
	case NONE:
		return "NONE"
	case WHAT:
		return "WHAT"
	case OOB:
		return "OOB"
	case WHO:
		return "WHO"
	case FULL:
		return "FULL"
	case CORE:
		return "CORE"
	case CASH:
		return "CASH"
	case LOW:
		return "LOW"
	case HUH:
		return "HUH"
	}
	return ""
}

// ------------------------------------------------------------------ guest-memory model (from the case data, not from the implementation)

func c07PageMap(pages []vpPage) map[uint32]int {
	m := map[uint32]int{}
	for _, p := range pages {
		m[p.Page] = p.Access
	}
	return m
}

// c07RangeOK: [a, a+n) lies below 2^32 and every page has access >= need (1 readable, 2 writable). n = 0 is always fine.
func c07RangeOK(pm map[uint32]int, a, n uint64, need int) bool {
	if n == 0 {
		return true
	}
	if n > 1<<32 || a > (1<<32)-n {
		return false
	}
	for p := a / ZP; p <= (a+n-1)/ZP; p++ {
		acc, ok := pm[uint32(p)]
		if !ok || acc < need {
			return false
		}
	}
	return true
}

// c07Straddles: the range starts below 2^32, is non-empty, and contains pages of both kinds
// (accessible for `need` and not), or runs over the end of the address space from an accessible page.
func c07Straddles(pm map[uint32]int, a, n uint64, need int) bool {
	if n == 0 || a >= 1<<32 {
		return false
	}
	first := pm[uint32(a/ZP)] >= need
	if _, ok := pm[uint32(a/ZP)]; !ok {
		first = false
	}
	if n > 1<<32 || a > (1<<32)-n {
		return first
	}
	it := 0
	for p := a/ZP + 1; p <= (a+n-1)/ZP && it < 64; p, it = p+1, it+1 {
		acc, ok := pm[uint32(p)]
		if (ok && acc >= need) != first {
			return true
		}
	}
	return false
}

type c07Snap map[uint32]struct {
	acc MemoryAccess
	val []byte
}

func c07Snapshot(m *Memory) c07Snap {
	s := c07Snap{}
	for n, p := range m.Pages {
		if p == nil {
			continue
		}
		s[n] = struct {
			acc MemoryAccess
			val []byte
		}{p.Access, append([]byte(nil), p.Value...)}
	}
	return s
}

// c07MemDiff returns the changed addresses' hull [lo, hi] (inclusive), their count, and a structural complaint
// (page added / removed / access changed / length changed).
func c07MemDiff(a, b c07Snap) (lo, hi uint64, n int, structural string) {
	keys := map[uint32]bool{}
	for k := range a {
		keys[k] = true
	}
	for k := range b {
		keys[k] = true
	}
	ks := make([]uint32, 0, len(keys))
	for k := range keys {
		ks = append(ks, k)
	}
	sort.Slice(ks, func(i, j int) bool { return ks[i] < ks[j] })
	lo = ^uint64(0)
	for _, k := range ks {
		x, okx := a[k]
		y, oky := b[k]
		if okx != oky {
			return 0, 0, 0, fmt.Sprintf("page %#x present before=%v after=%v", k, okx, oky)
		}
		if x.acc != y.acc {
			return 0, 0, 0, fmt.Sprintf("page %#x access changed %d -> %d", k, x.acc, y.acc)
		}
		if len(x.val) != len(y.val) {
			return 0, 0, 0, fmt.Sprintf("page %#x length changed %d -> %d", k, len(x.val), len(y.val))
		}
		for i := range x.val {
			if x.val[i] != y.val[i] {
				ad := uint64(k)*ZP + uint64(i)
				if ad < lo {
					lo = ad
				}
				if ad > hi {
					hi = ad
				}
				n++
			}
		}
	}
	return
}

// c07DiffOutside: first changed address that is outside [o, o+l) or on a page that was not read-write before.
func c07DiffOutside(a, b c07Snap, o, l uint64) (uint64, bool) {
	ks := make([]uint32, 0, len(a))
	for k := range a {
		ks = append(ks, k)
	}
	sort.Slice(ks, func(i, j int) bool { return ks[i] < ks[j] })
	for _, k := range ks {
		x, y := a[k], b[k]
		for i := range x.val {
			if i < len(y.val) && x.val[i] != y.val[i] {
				ad := uint64(k)*ZP + uint64(i)
				inside := l > 0 && ad >= o && ad-o < l
				if !inside || x.acc != MemoryReadWrite {
					return ad, true
				}
			}
		}
	}
	return 0, false
}

func c07BuildMemory(in *c07Input) *Memory {
	m := vpImplMemory(in.Pages)
	for _, w := range in.Writes {
		for i, x := range w.Data {
			ad := w.Addr + uint64(i)
			if ad < w.Addr || ad >= 1<<32 {
				break
			}
			if p, ok := m.Pages[uint32(ad/ZP)]; ok {
				p.Value[ad%ZP] = x
			}
		}
	}
	return m
}

// ------------------------------------------------------------------ ranges of every call, from the GP signatures

type c07Rng struct {
	a, n uint64
	w    bool // must be writable (a destination); otherwise a required readable input
	over bool // length computation overflowed: never accessible
}

// c07Required: ranges whose inaccessibility makes the call panic (GP: the panic clause comes first).
func c07Required(id uint64, r *[13]uint64) []c07Rng {
	C, V, Q := uint64(types.CoresCount), uint64(types.ValidatorsCount), uint64(types.AuthQueueSize)
	switch id {
	case 2, 6:
		return []c07Rng{{a: r[8], n: 32}}
	case 3:
		return []c07Rng{{a: r[8], n: r[9]}}
	case 4:
		return []c07Rng{{a: r[7], n: r[8]}, {a: r[9], n: r[10]}}
	case 7:
		z := r[8]
		if z > types.SegmentSize {
			z = types.SegmentSize
		}
		return []c07Rng{{a: r[7], n: z}}
	case 8:
		return []c07Rng{{a: r[7], n: r[8]}}
	case 9:
		return []c07Rng{{a: r[8], n: r[10], w: true}}
	case 10:
		return []c07Rng{{a: r[8], n: r[10]}}
	case 12:
		return []c07Rng{{a: r[8], n: 112, w: true}}
	case 14:
		hi, lo := bits.Mul64(12, r[12])
		return []c07Rng{{a: r[8], n: 4 * C}, {a: r[11], n: lo, over: hi != 0}}
	case 15:
		return []c07Rng{{a: r[8], n: 32 * Q}}
	case 16:
		return []c07Rng{{a: r[7], n: 336 * V}}
	case 18, 19, 22, 23, 24, 25:
		return []c07Rng{{a: r[7], n: 32}}
	case 20:
		return []c07Rng{{a: r[10], n: types.TransferMemoSize}}
	case 21:
		return []c07Rng{{a: r[8], n: 32}}
	case 26:
		return []c07Rng{{a: r[8], n: r[9]}}
	}
	return nil
}

// c07Dest: destination start register, offset register and requested-length register of the read-like calls
// (written length = min(l, |v| - min(f, |v|))); ok=false for the others.
func c07Dest(id uint64) (o, f, l int, ok bool) {
	switch id {
	case 1:
		return 7, 8, 9, true
	case 2, 6:
		return 9, 10, 11, true
	case 3:
		return 10, 11, 12, true
	case 5:
		return 8, 9, 10, true
	}
	return 0, 0, 0, false
}

// c07AllRanges: every range the call looks at (for the non-triviality rule).
func c07AllRanges(id uint64, r *[13]uint64) []c07Rng {
	out := c07Required(id, r)
	if o, _, l, ok := c07Dest(id); ok {
		out = append(out, c07Rng{a: r[o], n: r[l], w: true})
	}
	if id == 100 {
		out = append(out, c07Rng{a: r[8], n: r[9]}, c07Rng{a: r[10], n: r[11]})
	}
	return out
}

// ------------------------------------------------------------------ inner programs (straight-line only: every invoke terminates)

var c07InnerProgs = [][]byte{
	// store_imm_u8 [0x10003]=0x5A ; load_u8 r3<-[0x10003] ; ecalli 7 ; add_64 ; trap
	vpAssemble([]byte{30, 4, 0x03, 0x00, 0x01, 0x00, 0x5A, 52, 3, 0x03, 0x00, 0x01, 0x00, 10, 7, 200, 0x43, 5, 0},
		[]bool{true, false, false, false, false, false, false, true, false, false, false, false, false, true, false, true, false, false, true}, nil, 0),
	vpAssemble([]byte{0}, []bool{true}, nil, 0),                                                       // trap
	vpAssemble([]byte{1, 1, 10, 3, 0}, []bool{true, true, true, false, true}, nil, 0),                 // fallthrough x2 ; ecalli 3 ; trap
	vpAssemble([]byte{52, 3, 0, 0, 2, 0, 0}, []bool{true, false, false, false, false, false, true}, nil, 0), // load_u8 r3<-[0x20000] (fault) ; trap
	vpAssemble([]byte{50, 0}, []bool{true, false}, nil, 0),                                            // jump_ind r0 (halt if r0 = 2^32-2^16)
}

// ------------------------------------------------------------------ context builders

type c07Env struct {
	add    HostCallArgs
	table  map[types.StateKey]c09RawDesc
	mem    *Memory
	omegas Omegas
}

func c07Scratch() *Memory {
	return &Memory{Pages: map[uint32]*Page{48: {Value: make([]byte, ZP), Access: MemoryReadWrite}, 49: {Value: make([]byte, ZP), Access: MemoryReadWrite}}}
}

const c07ScratchAddr = 48 * ZP

// c07Setup runs one real host call on a scratch memory as part of building the context.
func c07Setup(add *HostCallArgs, omegas Omegas, scratch *Memory, op OperationType, regs Registers) (ret uint64, err string) {
	g := Gas(1 << 40)
	defer func() {
		if r := recover(); r != nil {
			err = fmt.Sprintf("Go runtime panic in set-up call %s%v: %v", c07Names[uint64(op)], regs[7:], r)
		}
	}()
	out := omegas[op](OmegaInput{Operation: op, VM: &VMState{Registers: &regs, Memory: scratch, Gas: &g}, Addition: *add, HostCalls: omegas})
	if out.ExitReason == ExitContinue {
		*add = out.Addition
	}
	return regs[7], ""
}

func c07FillHash(seed byte) (h types.OpaqueHash) {
	for i := range h {
		h[i] = seed + byte(3*i)
	}
	return
}

func c07AcctConsistent(a types.ServiceAccount, src c09Acct) bool {
	t0 := c09ExactThreshold(uint64(a.ServiceInfo.Items), c09Big(uint64(a.ServiceInfo.Bytes)), src.Gratis)
	return t0.Cmp(c09Big(src.Balance)) <= 0
}

func c07BuildAcc(in *c07Input) (*c07Env, string) {
	seq := &in.Seq
	table := map[types.StateKey]c09RawDesc{}
	callerAcc, pool1 := c09BuildAccount(seq, seq.Caller, table)
	otherAcc, pool2 := c09BuildAccount(seq, seq.Other, table)
	if !c07AcctConsistent(callerAcc, seq.Caller) || !c07AcctConsistent(otherAcc, seq.Other) {
		return nil, "skip:inconsistent_account"
	}
	serviceID := types.ServiceID(seq.Caller.ID)
	otherID := types.ServiceID(seq.Other.ID)
	if in.Acc.EjectOther {
		otherAcc.ServiceInfo.CodeHash = types.OpaqueHash{}
		binary.LittleEndian.PutUint32(otherAcc.ServiceInfo.CodeHash[:4], seq.Caller.ID)
	}
	absent := types.ServiceID(c09AbsentID)
	C, V, Q := types.CoresCount, types.ValidatorsCount, types.AuthQueueSize
	ps := types.PartialStateSet{
		ServiceAccounts: types.ServiceAccountState{serviceID: callerAcc, otherID: otherAcc},
		ValidatorKeys:   make(types.ValidatorsData, V),
		Authorizers:     make(types.AuthQueues, C),
		Bless:           absent,
		Assign:          make(types.ServiceIDList, C),
		Designate:       absent,
		CreateAcct:      absent,
		AlwaysAccum:     types.AlwaysAccumulateMap{},
	}
	for i := range ps.ValidatorKeys {
		ps.ValidatorKeys[i].Bandersnatch[0] = byte(i + 1)
		ps.ValidatorKeys[i].Ed25519[1] = byte(i + 2)
		ps.ValidatorKeys[i].Bls[2] = byte(i + 3)
		ps.ValidatorKeys[i].Metadata[3] = byte(i + 4)
	}
	for ci := range ps.Authorizers {
		ps.Authorizers[ci] = make(types.AuthQueue, Q)
		for q := range ps.Authorizers[ci] {
			ps.Authorizers[ci][q] = types.AuthorizerHash(c07FillHash(byte(ci*Q + q)))
		}
		ps.Assign[ci] = otherID
		if ci < len(in.Acc.AssignSelf) && in.Acc.AssignSelf[ci] {
			ps.Assign[ci] = serviceID
		}
	}
	if seq.Manager {
		ps.Bless = serviceID
	}
	if seq.Registrar {
		ps.CreateAcct = serviceID
	}
	if in.Acc.DesignateSelf {
		ps.Designate = serviceID
	}
	for i := 0; i < in.Acc.Always; i++ {
		ps.AlwaysAccum[types.ServiceID(700+i)] = types.Gas(1000 + i)
	}
	storageKeyVal := append(append(types.StateKeyVals{}, pool1...), pool2...)
	timeslot := types.TimeSlot(seq.Timeslot)
	var eta types.Entropy
	if in.Acc.Eta != 0 {
		eta = types.Entropy(c07FillHash(in.Acc.Eta))
	}
	var operands []types.OperandOrDeferredTransfer
	for i := 0; i < in.Acc.Operands; i++ {
		if i%2 == 0 {
			operands = append(operands, types.OperandOrDeferredTransfer{Operand: &types.Operand{
				Hash: types.WorkPackageHash(c07FillHash(byte(i))), AuthorizerHash: c07FillHash(9), PayloadHash: c07FillHash(11), GasLimit: 500,
				Result: types.WorkExecResult{Type: types.WorkExecResultOk, Data: []byte{1, 2, 3}}, AuthOutput: types.ByteSequence{7, 7}}})
		} else {
			operands = append(operands, types.OperandOrDeferredTransfer{DeferredTransfer: &types.DeferredTransfer{
				SenderID: otherID, ReceiverID: serviceID, Balance: 0, GasLimit: 20}})
		}
	}

	// --- exactly what Psi_A does before Psi_M
	newPartialState := ps.DeepCopy()
	newStorageKeyVal := storageKeyVal.DeepCopy()
	serviceAccount := newPartialState.ServiceAccounts[serviceID]
	add := HostCallArgs{
		GeneralArgs: GeneralArgs{
			ServiceAccount:      &serviceAccount,
			ServiceID:           &serviceID,
			ServiceAccountState: &newPartialState.ServiceAccounts,
			CoreID:              nil,
			StorageKeyVal:       &newStorageKeyVal,
		},
		AccumulateArgs: AccumulateArgs{
			ResultContextX:             I(newPartialState, serviceID, timeslot, eta, &newStorageKeyVal),
			ResultContextY:             I(ps, serviceID, timeslot, eta, &storageKeyVal),
			Eta:                        eta,
			OperandOrDeferredTransfers: operands,
			Timeslot:                   timeslot,
		},
	}

	// earlier calls of the same invocation (real calls, plausible arguments, scratch memory)
	scratch := c07Scratch()
	for _, p := range in.Acc.Prefix {
		var regs Registers
		var op OperationType
		switch p {
		case 0:
			h := seq.hash(0)
			scratch.Write(c07ScratchAddr, h[:])
			op, regs[7] = YieldOp, c07ScratchAddr
		case 1:
			scratch.Write(c07ScratchAddr, bytes.Repeat([]byte{0x4D}, 128))
			op = TransferOp
			regs[7], regs[8], regs[9], regs[10] = uint64(otherID), 1, 9, c07ScratchAddr
		case 2:
			scratch.Write(c07ScratchAddr, seq.Blobs[0])
			op = ProvideOp
			regs[7], regs[8], regs[9] = ^uint64(0), c07ScratchAddr, uint64(len(seq.Blobs[0]))
		case 3:
			op = CheckpointOp
		case 4:
			scratch.Write(c07ScratchAddr, []byte("c07-prefix-key"))
			scratch.Write(c07ScratchAddr+64, []byte{1, 2, 3})
			op = WriteOp
			regs[7], regs[8], regs[9], regs[10] = c07ScratchAddr, 14, c07ScratchAddr+64, 3
		default:
			continue
		}
		if _, e := c07Setup(&add, AccumulateOmegas, scratch, op, regs); e != "" {
			return nil, e
		}
	}
	return &c07Env{add: add, table: table, mem: c07BuildMemory(in), omegas: AccumulateOmegas}, ""
}

func c07NoRaw(a c09Acct) c09Acct {
	b := a
	b.Storage = append([]c09Store(nil), a.Storage...)
	b.Lookups = append([]c09Lkp(nil), a.Lookups...)
	for i := range b.Storage {
		b.Storage[i].Raw = false
	}
	for i := range b.Lookups {
		b.Lookups[i].Raw = false
	}
	return b
}

func c07BuildRef(in *c07Input) (*c07Env, string) {
	seq := &in.Seq
	table := map[types.StateKey]c09RawDesc{}
	callerAcc, _ := c09BuildAccount(seq, c07NoRaw(seq.Caller), table)
	otherAcc, _ := c09BuildAccount(seq, c07NoRaw(seq.Other), table)
	callerID, otherID := types.ServiceID(seq.Caller.ID), types.ServiceID(seq.Other.ID)
	state := types.ServiceAccountState{callerID: callerAcc, otherID: otherAcc}
	rc := &in.Ref
	n := rc.Items
	items := make([]types.WorkItem, n)
	extrMap := ExtrinsicDataMap{}
	var imports [][]types.ExportSegment
	if rc.Imports != nil {
		imports = make([][]types.ExportSegment, n)
	}
	for k := 0; k < n; k++ {
		it := types.WorkItem{Service: otherID, CodeHash: c07FillHash(byte(40 + k)), RefineGasLimit: 1000000, AccumulateGasLimit: 100000,
			ExportCount: types.U16(k), Payload: bytes.Repeat([]byte{byte(0x50 + k)}, 3+k)}
		if k == rc.ItemIdx {
			it.Service = callerID
		}
		ni, nx := 0, 0
		if rc.Imports != nil && k < len(rc.Imports) {
			ni = rc.Imports[k]
		}
		if k < len(rc.Extr) {
			nx = rc.Extr[k]
		}
		it.ImportSegments = make([]types.ImportSpec, ni)
		for j := 0; j < ni; j++ {
			it.ImportSegments[j] = types.ImportSpec{TreeRoot: c07FillHash(byte(60 + j)), Index: types.U16(j)}
			var seg types.ExportSegment
			for q := range seg {
				seg[q] = byte(q) + byte(k*7+j)
			}
			imports[k] = append(imports[k], seg)
		}
		it.Extrinsic = make([]types.ExtrinsicSpec, nx)
		for j := 0; j < nx; j++ {
			data := bytes.Repeat([]byte{byte(0x70 + k + j)}, 5+j)
			h := types.OpaqueHash(sha256.Sum256(data))
			it.Extrinsic[j] = types.ExtrinsicSpec{Hash: h, Len: types.U32(len(data))}
			extrMap[h] = data
		}
		items[k] = it
	}
	wp := types.WorkPackage{AuthCodeHost: otherID, AuthCodeHash: c07FillHash(1),
		Context:       types.RefineContext{Anchor: types.HeaderHash(c07FillHash(2)), LookupAnchorSlot: types.TimeSlot(seq.Timeslot), Prerequisites: []types.OpaqueHash{c07FillHash(3)}},
		Authorization: types.ByteSequence{1, 2, 3, 4, 5}, AuthorizerConfig: types.ByteSequence{9, 8, 7}, Items: items}
	extrinsics := make([][]types.ExtrinsicSpec, n)
	for i, it := range items {
		extrinsics[i] = it.Extrinsic
	}
	core := types.CoreIndex(1)
	idx := uint(rc.ItemIdx)
	ao := types.ByteSequence(bytes.Repeat([]byte{0xA5}, rc.AuthOut))
	svc := items[rc.ItemIdx].Service
	// as RefineInvoke builds it
	add := HostCallArgs{
		GeneralArgs: GeneralArgs{ServiceID: &svc, ServiceAccountState: &state, CoreID: &core},
		RefineArgs: RefineArgs{
			WorkItemIndex: &idx, WorkPackage: &wp, AuthOutput: &ao, ImportSegments: imports,
			ExportSegmentOffset: uint(rc.ExportOff), ExtrinsicDataMap: extrMap, IntegratedPVMMap: IntegratedPVMMap{},
			ExportSegment: []types.ExportSegment{}, TimeSlot: wp.Context.LookupAnchorSlot, Extrinsics: extrinsics,
		},
	}
	scratch := c07Scratch()
	for e := 0; e < rc.Exported; e++ {
		var regs Registers
		scratch.Write(c07ScratchAddr, []byte{byte(e), 0xEE})
		regs[7], regs[8] = c07ScratchAddr, 2
		if _, err := c07Setup(&add, RefineOmegas, scratch, ExportOp, regs); err != "" {
			return nil, err
		}
	}
	for _, m := range rc.Machines {
		var regs Registers
		blob := c07InnerProgs[m.Prog]
		scratch.Write(c07ScratchAddr, blob)
		regs[7], regs[8], regs[9] = c07ScratchAddr, uint64(len(blob)), m.PC
		id, err := c07Setup(&add, RefineOmegas, scratch, MachineOp, regs)
		if err != "" {
			return nil, err
		}
		for _, pg := range m.Pages {
			regs = Registers{}
			regs[7], regs[8], regs[9], regs[10] = id, pg[0], pg[1], pg[2]
			if _, err := c07Setup(&add, RefineOmegas, scratch, PagesOp, regs); err != "" {
				return nil, err
			}
		}
		if m.Poke && len(m.Pages) > 0 {
			regs = Registers{}
			scratch.Write(c07ScratchAddr, []byte("inner-data-0123456789"))
			regs[7], regs[8], regs[9], regs[10] = id, c07ScratchAddr, m.Pages[0][0]*ZP+5, 21
			if _, err := c07Setup(&add, RefineOmegas, scratch, PokeOp, regs); err != "" {
				return nil, err
			}
		}
	}
	if rc.Expunge0 && len(rc.Machines) > 0 {
		var regs Registers
		if _, err := c07Setup(&add, RefineOmegas, scratch, ExpungeOp, regs); err != "" {
			return nil, err
		}
	}
	return &c07Env{add: add, table: table, mem: c07BuildMemory(in), omegas: RefineOmegas}, ""
}

func c07BuildAuth(in *c07Input) (*c07Env, string) {
	core := types.CoreIndex(1)
	add := HostCallArgs{GeneralArgs: GeneralArgs{ServiceID: nil, CoreID: &core}} // as Psi_I
	return &c07Env{add: add, table: map[types.StateKey]c09RawDesc{}, mem: c07BuildMemory(in), omegas: IsAuthorizedOmegas}, ""
}

func c07Build(in *c07Input) (*c07Env, string) {
	switch in.Kind {
	case 0:
		return c07BuildAcc(in)
	case 1:
		return c07BuildRef(in)
	}
	return c07BuildAuth(in)
}

// ------------------------------------------------------------------ canonical context observation

type c07Obs struct {
	x, y     c09Obs
	fx, fy   map[string]string // fingerprints of the non-account parts of X and Y
	ref      map[string]string // refine: machines, exports; general-args cache
	hasAccts bool
}

func c07Sum(b []byte) string { s := sha256.Sum256(b); return string(s[:8]) }

func c07FingerRC(rc *ResultContext) map[string]string {
	f := map[string]string{}
	ps := &rc.PartialState
	var b bytes.Buffer
	fmt.Fprintf(&b, "%d|%d|%d|%v", ps.Bless, ps.Designate, ps.CreateAcct, []types.ServiceID(ps.Assign))
	ids := make([]int, 0, len(ps.AlwaysAccum))
	for id := range ps.AlwaysAccum {
		ids = append(ids, int(id))
	}
	sort.Ints(ids)
	for _, id := range ids {
		fmt.Fprintf(&b, "|%d:%d", id, ps.AlwaysAccum[types.ServiceID(id)])
	}
	f["privileges"] = b.String()
	b.Reset()
	for _, v := range ps.ValidatorKeys {
		b.Write(v.Bandersnatch[:])
		b.Write(v.Ed25519[:])
		b.Write(v.Bls[:])
		b.Write(v.Metadata[:])
	}
	f["validator_keys"] = fmt.Sprintf("%d:%s", len(ps.ValidatorKeys), c07Sum(b.Bytes()))
	b.Reset()
	for _, q := range ps.Authorizers {
		fmt.Fprintf(&b, "[%d]", len(q))
		for _, h := range q {
			b.Write(h[:])
		}
	}
	f["auth_queues"] = fmt.Sprintf("%d:%s", len(ps.Authorizers), c07Sum(b.Bytes()))
	b.Reset()
	for _, t := range rc.DeferredTransfers {
		fmt.Fprintf(&b, "%d>%d:%d:%d:%x;", t.SenderID, t.ReceiverID, t.Balance, t.GasLimit, t.Memo[:])
	}
	f["deferred_transfers"] = fmt.Sprintf("%d:%s", len(rc.DeferredTransfers), c07Sum(b.Bytes()))
	if rc.Exception == nil {
		f["yield"] = "none"
	} else {
		f["yield"] = fmt.Sprintf("%x", rc.Exception[:])
	}
	var blobs []string
	for _, sb := range rc.ServiceBlobs {
		blobs = append(blobs, fmt.Sprintf("%d:%x", sb.ServiceID, sb.Blob))
	}
	sort.Strings(blobs)
	f["provided_preimages"] = fmt.Sprint(blobs)
	f["service_and_next_id"] = fmt.Sprintf("%d|%d", rc.ServiceID, rc.ImportServiceID)
	return f
}

func c07ObserveAccounts(accts types.ServiceAccountState, pool *types.StateKeyVals, table map[types.StateKey]c09RawDesc) c09Obs {
	var tmp HostCallArgs
	tmp.AccumulateArgs.ResultContextX.PartialState.ServiceAccounts = accts
	if pool == nil {
		pool = &types.StateKeyVals{}
	}
	tmp.AccumulateArgs.ResultContextX.StorageKeyVal = pool
	return c09Observe(tmp, table)
}

func c07Observe(kind int, add HostCallArgs, table map[types.StateKey]c09RawDesc) (o c07Obs, err string) {
	o.ref = map[string]string{}
	switch kind {
	case 0:
		X, Y := &add.AccumulateArgs.ResultContextX, &add.AccumulateArgs.ResultContextY
		if X.StorageKeyVal == nil || Y.StorageKeyVal == nil || X.PartialState.ServiceAccounts == nil || Y.PartialState.ServiceAccounts == nil ||
			add.GeneralArgs.ServiceAccount == nil || add.GeneralArgs.ServiceAccountState == nil {
			return o, "the returned context lost a part every accumulate call receives (nil X/Y state, key-value pool or general args)"
		}
		o.hasAccts = true
		o.x = c07ObserveAccounts(X.PartialState.ServiceAccounts, X.StorageKeyVal, table)
		o.y = c07ObserveAccounts(Y.PartialState.ServiceAccounts, Y.StorageKeyVal, table)
		o.fx, o.fy = c07FingerRC(X), c07FingerRC(Y)
		o.ref["caller_account_cache_info"] = fmt.Sprintf("%+v", add.GeneralArgs.ServiceAccount.ServiceInfo)
	case 1:
		if add.GeneralArgs.ServiceAccountState == nil || add.RefineArgs.IntegratedPVMMap == nil {
			return o, "the returned context lost the service state or the inner-machine map"
		}
		o.hasAccts = true
		o.x = c07ObserveAccounts(*add.GeneralArgs.ServiceAccountState, nil, table)
		ids := make([]uint64, 0, len(add.RefineArgs.IntegratedPVMMap))
		for id := range add.RefineArgs.IntegratedPVMMap {
			ids = append(ids, id)
		}
		sort.Slice(ids, func(i, j int) bool { return ids[i] < ids[j] })
		o.ref["machine_ids"] = fmt.Sprint(ids)
		for _, id := range ids {
			m := add.RefineArgs.IntegratedPVMMap[id]
			pn := make([]uint32, 0, len(m.Memory.Pages))
			for p := range m.Memory.Pages {
				pn = append(pn, p)
			}
			sort.Slice(pn, func(i, j int) bool { return pn[i] < pn[j] })
			var b bytes.Buffer
			for _, p := range pn {
				pg := m.Memory.Pages[p]
				if pg == nil {
					continue
				}
				fmt.Fprintf(&b, "%d/%d/%s;", p, pg.Access, c07Sum(pg.Value))
			}
			o.ref[fmt.Sprintf("machine_%d", id)] = fmt.Sprintf("pc=%d code=%s mem=%s", m.PC, c07Sum(m.ProgramCode), b.String())
		}
		var b bytes.Buffer
		for _, s := range add.RefineArgs.ExportSegment {
			b.WriteString(c07Sum(s[:]))
		}
		o.ref["export_segments"] = fmt.Sprintf("%d+%d:%s", add.RefineArgs.ExportSegmentOffset, len(add.RefineArgs.ExportSegment), c07Sum(b.Bytes()))
	}
	return o, ""
}

func c07MapDiff(what string, a, b map[string]string) string {
	ks := map[string]bool{}
	for k := range a {
		ks[k] = true
	}
	for k := range b {
		ks[k] = true
	}
	names := make([]string, 0, len(ks))
	for k := range ks {
		names = append(names, k)
	}
	sort.Strings(names)
	for _, k := range names {
		if a[k] != b[k] {
			return fmt.Sprintf("%s %s changed: %.120q -> %.120q", what, k, a[k], b[k])
		}
	}
	return ""
}

func c07AcctDiff(what string, a, b c09Obs) string {
	if d := c09ObsDiff(a, b); d != "" {
		return what + ": " + d
	}
	if d := c09ObsDiff(b, a); d != "" {
		return what + ": (reverse) " + d
	}
	if a.Unk != b.Unk {
		return fmt.Sprintf("%s: raw key-value pool entries not placed by the harness %d -> %d", what, a.Unk, b.Unk)
	}
	return ""
}

// c07ObsDiffX: everything except the Y context. c07ObsDiffY: the Y context.
func c07ObsDiffX(a, b c07Obs) string {
	if a.hasAccts {
		if d := c07AcctDiff("service accounts (X / refine state)", a.x, b.x); d != "" {
			return d
		}
	}
	if d := c07MapDiff("X", a.fx, b.fx); d != "" {
		return d
	}
	return c07MapDiff("context", a.ref, b.ref)
}

func c07ObsDiffY(a, b c07Obs) string {
	if a.fy == nil && b.fy == nil {
		return ""
	}
	if d := c07AcctDiff("service accounts (Y)", a.y, b.y); d != "" {
		return d
	}
	return c07MapDiff("Y", a.fy, b.fy)
}
