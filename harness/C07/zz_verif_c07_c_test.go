package PVM

// C07 file c: the frame / invariant oracle and the test entry point.

import (
	"fmt"
	"runtime/debug"
	"strings"
	"testing"

	kit "github.com/New-JAMneration/JAM-Protocol/internal/verifkit"
)

func c07Valid(in *c07Input) bool {
	if in.Kind < 0 || in.Kind > 2 || in.Via < 0 || in.Via > 1 || len(in.Imm) > 4 || in.Gas < 0 || len(in.Pages) > 16 || len(in.Writes) > 8 {
		return false
	}
	seen := map[uint32]bool{}
	for _, p := range in.Pages {
		if seen[p.Page] || p.Access < 0 || p.Access > 2 || p.Page >= 1<<20 {
			return false
		}
		seen[p.Page] = true
	}
	for _, w := range in.Writes {
		if len(w.Data) > 3*ZP {
			return false
		}
	}
	if in.Kind != 2 {
		in.Seq.Ops = nil
		if !c09ValidSeq(&in.Seq) {
			return false
		}
	}
	if len(in.Acc.AssignSelf) > 400 || in.Acc.Always < 0 || in.Acc.Always > 8 || in.Acc.Operands < 0 || in.Acc.Operands > 8 || len(in.Acc.Prefix) > 8 {
		return false
	}
	if in.Kind == 1 {
		rc := &in.Ref
		if rc.Items < 1 || rc.Items > 4 || rc.ItemIdx < 0 || rc.ItemIdx >= rc.Items || rc.AuthOut < 0 || rc.AuthOut > 4096 ||
			rc.Exported < 0 || rc.Exported > 4 || len(rc.Machines) > 3 || rc.ExportOff > 1<<31 {
			return false
		}
		if rc.Imports != nil && len(rc.Imports) != rc.Items {
			return false
		}
		if len(rc.Extr) > rc.Items {
			return false
		}
		for _, v := range append(append([]int{}, rc.Imports...), rc.Extr...) {
			if v < 0 || v > 3 {
				return false
			}
		}
		for _, m := range rc.Machines {
			if m.Prog < 0 || m.Prog >= len(c07InnerProgs) || len(m.Pages) > 3 {
				return false
			}
			for _, pg := range m.Pages {
				if pg[0] < 16 || pg[0] > 64 || pg[1] > 4 || pg[2] > 4 {
					return false
				}
			}
		}
	}
	return true
}

type c07Res struct {
	env       *c07Env
	exit      ExitReason
	regs      Registers
	gas       Gas
	memPre    c07Snap
	memPost   c07Snap
	pre, post c07Obs
}

func c07Stack() string {
	lines := strings.Split(string(debug.Stack()), "\n")
	var keep []string
	for _, l := range lines {
		if strings.Contains(l, "/PVM/") || strings.Contains(l, "JAM-Protocol/") {
			keep = append(keep, strings.TrimSpace(l))
		}
		if len(keep) >= 8 {
			break
		}
	}
	return strings.Join(keep, " | ")
}

// c07RunDirect: one call of the table entry on a freshly built context.
func c07RunDirect(c *kit.Case, in *c07Input, id uint64, gas Gas) *c07Res {
	env, why := c07Build(in)
	if env == nil {
		if strings.HasPrefix(why, "skip:") {
			c.Class(why)
			return nil
		}
		c.Failf("%s", why)
	}
	res := &c07Res{env: env, regs: Registers(in.Regs), gas: gas}
	var oerr string
	res.pre, oerr = c07Observe(in.Kind, env.add, env.table)
	if oerr != "" {
		c.Failf("set-up context: %s", oerr)
	}
	res.memPre = c07Snapshot(env.mem)
	fn := env.omegas[id]
	if fn == nil {
		c.Failf("identifier %d (%s) is defined for %s invocations but has no entry in the dispatch table", id, c07Names[id], c07KindNames[in.Kind])
	}
	var out OmegaOutput
	func() {
		defer func() {
			if r := recover(); r != nil {
				c.Failf("%s.%s regs[7..12]=%#x gas=%d: Go runtime panic: %v\n%s", c07KindNames[in.Kind], c07Names[id], in.Regs[7:], gas, r, c07Stack())
			}
		}()
		out = fn(OmegaInput{Operation: OperationType(id), VM: &VMState{Registers: &res.regs, Memory: env.mem, Gas: &res.gas}, Addition: env.add, HostCalls: env.omegas})
	}()
	res.exit = out.ExitReason
	res.memPost = c07Snapshot(env.mem)
	res.post, oerr = c07Observe(in.Kind, out.Addition, env.table)
	if oerr != "" {
		c.Failf("%s.%s exit %v: %s", c07KindNames[in.Kind], c07Names[id], out.ExitReason, oerr)
	}
	// what a host call keeps (a stored value, a provided blob, a machine's program) is the host's
	// own copy: the guest overwriting its memory afterwards must not change the host-side state
	scribble := func() {
		for _, pg := range env.mem.Pages {
			if pg != nil {
				for i := range pg.Value {
					pg.Value[i] ^= 0xFF
				}
			}
		}
	}
	scribble()
	again, oerr2 := c07Observe(in.Kind, out.Addition, env.table)
	scribble()
	if oerr2 != "" {
		c.Failf("%s.%s: after the guest overwrote its memory: %s", c07KindNames[in.Kind], c07Names[id], oerr2)
	}
	if d := c07ObsDiffX(res.post, again) + c07ObsDiffY(res.post, again); d != "" {
		c.Failf("%s.%s exit %v: host-side state changed when the guest overwrote its own memory after the call (a retained value aliases guest memory): %s",
			c07KindNames[in.Kind], c07Names[id], out.ExitReason, d)
	}
	return res
}

func c07Outcome(id uint64, exit ExitReason, w7 uint64) string {
	switch exit {
	case ExitContinue:
		if id == 100 {
			return "ok"
		}
		if e := c07ErrName(w7); e != "" && !(id == 4 && w7 == NONE) {
			return e
		}
		return "ok"
	case ExitPanic:
		return "panic"
	case ExitOOG:
		return "oog"
	}
	return fmt.Sprintf("exit_%d", exit.GetReasonType())
}

func c07CheckDirect(c *kit.Case, in *c07Input, id uint64) {
	name := c07KindNames[in.Kind] + "." + c07Names[id]
	r0 := in.Regs
	// out of domain: a legal `pages` request for thousands of pages allocates gigabytes
	if id == 11 && r0[9] > 256 && r0[9] < 1<<20 {
		c.Class("out_of_domain_pages_huge_count")
		return
	}
	res := c07RunDirect(c, in, id, Gas(in.Gas))
	if res == nil {
		return
	}
	pm := c07PageMap(in.Pages)
	desc := fmt.Sprintf("%s(w7..w12=%#x, gas=%d)", name, r0[7:], in.Gas)
	outc := c07Outcome(id, res.exit, res.regs[7])
	c.Class(name + "." + outc)
	if res.exit != ExitContinue && res.exit != ExitPanic && res.exit != ExitOOG {
		c.Failf("%s: a host call can only continue, panic or run out of gas; got exit %v", desc, res.exit)
	}

	// (vi) out of gas
	if in.Gas < 10 {
		if res.exit != ExitOOG {
			c.Failf("%s: fewer than 10 gas remain but the exit is %v, not out-of-gas", desc, res.exit)
		}
	} else if res.exit == ExitOOG {
		if !(id == 20 && uint64(in.Gas-10) < r0[9]) {
			c.Failf("%s: out-of-gas exit although %d >= 10 gas remained", desc, in.Gas)
		}
		c.Class("acc.transfer.oog_on_the_gas_limit_charge")
	}

	// (i) registers
	for i := range res.regs {
		if res.regs[i] == r0[i] {
			continue
		}
		allowed := i == 7 && id != 100
		if i == 8 && (id == 12 || id == 22) {
			allowed = true
		}
		if res.exit == ExitOOG {
			allowed = false
		}
		if res.exit == ExitPanic && i == 7 {
			allowed = true // not observable: every entry point discards the registers on panic
		}
		if !allowed {
			c.Failf("%s: exit %s changed register %d: %#x -> %#x", desc, outc, i, r0[i], res.regs[i])
		}
	}

	// (vi) gas charge
	if res.exit == ExitContinue {
		want := Gas(10)
		if id == 20 && res.regs[7] == OK {
			if r0[9] > uint64(in.Gas-10) {
				c.Failf("%s: transfer returned OK although the gas limit %d exceeds the %d gas left after the base charge", desc, r0[9], in.Gas-10)
			}
			want += Gas(r0[9])
		}
		if Gas(in.Gas)-res.gas != want {
			c.Failf("%s: continue exit (w7=%#x) charged %d gas, want %d", desc, res.regs[7], Gas(in.Gas)-res.gas, want)
		}
	}

	// (ii) guest memory
	_, _, nchg, structural := c07MemDiff(res.memPre, res.memPost)
	if structural != "" {
		c.Failf("%s: guest memory map changed: %s", desc, structural)
	}
	var dO, dL uint64 // destination actually allowed to change
	if res.exit == ExitContinue && outc == "ok" {
		if o, f, l, ok := c07Dest(id); ok {
			n := res.regs[7] // |v|
			ff := r0[f]
			if ff > n {
				ff = n
			}
			ll := r0[l]
			if ll > n-ff {
				ll = n - ff
			}
			dO, dL = r0[o], ll
			if !c07RangeOK(pm, dO, dL, 2) {
				c.Failf("%s: returned |v|=%d, so %d octets go to [%#x,+%d), which is not entirely writable: the call must panic, it continued", desc, n, dL, dO, dL)
			}
		} else if id == 9 {
			dO, dL = r0[8], r0[10]
		} else if id == 12 {
			dO, dL = r0[8], 112
		}
	}
	// read-like calls: l = min(w_l, |v| - f), so a request for the whole tail and a request for
	// "everything from f" (w_l = 2^64-1 or 2^64-2) are one and the same call
	if o, f, l, ok := c07Dest(id); ok && res.exit == ExitContinue && outc == "ok" {
		n := res.regs[7]
		ff := r0[f]
		if ff > n {
			ff = n
		}
		if r0[l] >= n-ff && r0[l] < ^uint64(0)-1 {
			in2 := *in
			in2.Regs[l] = ^uint64(0) - (r0[o] & 1)
			if res2 := c07RunDirect(c, &in2, id, Gas(in.Gas)); res2 != nil {
				c.Class("read_like_whole_tail_vs_max_length")
				if ff > 0 {
					c.Class("read_like_whole_tail_vs_max_length_offset_ge_1")
				}
				if res2.exit != res.exit || res2.regs[7] != n {
					c.Failf("%s: answered |v|=%d and wrote the whole tail from offset %d; the same call with length %#x gives %s (w7=%#x)", desc, n, ff, in2.Regs[l], c07Outcome(id, res2.exit, res2.regs[7]), res2.regs[7])
				} else if _, _, d, st := c07MemDiff(res.memPost, res2.memPost); d != 0 || st != "" {
					c.Failf("%s: the same call with length %#x leaves different guest memory (%d octets differ %s)", desc, in2.Regs[l], d, st)
				}
			}
		}
	}
	if nchg > 0 {
		if res.exit != ExitContinue || outc != "ok" {
			lo, hi, _, _ := c07MemDiff(res.memPre, res.memPost)
			c.Failf("%s: outcome %s but %d octets of guest memory changed (%#x..%#x)", desc, outc, nchg, lo, hi)
		}
		if ad, bad := c07DiffOutside(res.memPre, res.memPost, dO, dL); bad {
			c.Failf("%s: guest memory changed at %#x, outside the destination [%#x,+%d) or on a page that is not read-write", desc, ad, dO, dL)
		}
	}

	// required ranges: inaccessible => panic (GP lists the panic clause first); peek/invoke destination included
	if res.exit != ExitOOG {
		for _, rg := range c07Required(id, &r0) {
			need := 1
			if rg.w {
				need = 2
			}
			if (rg.over || !c07RangeOK(pm, rg.a, rg.n, need)) && res.exit != ExitPanic {
				c.Failf("%s: required range [%#x,+%d) (writable=%v) is not accessible but the exit is %s, not panic", desc, rg.a, rg.n, rg.w, outc)
			}
		}
		if id == 18 && r0[8] >= 1<<32 && res.exit != ExitPanic {
			c.Failf("%s: code length %d is not a 32-bit value but the exit is %s, not panic", desc, r0[8], outc)
		}
	}

	// (iii) (iv) context
	dx, dy := c07ObsDiffX(res.pre, res.post), c07ObsDiffY(res.pre, res.post)
	switch {
	case res.exit == ExitPanic, res.exit == ExitOOG && in.Gas < 10, res.exit == ExitContinue && outc != "ok":
		if dx != "" {
			c.Failf("%s: outcome %s but the context changed: %s", desc, outc, dx)
		}
		if dy != "" {
			c.Failf("%s: outcome %s but the checkpoint context changed: %s", desc, outc, dy)
		}
	case res.exit == ExitOOG:
		// transfer's second charge: X is discarded by the caller on out-of-gas, Y must be intact
		if dy != "" {
			c.Failf("%s: out-of-gas but the checkpoint context changed: %s", desc, dy)
		}
		if dx != "" {
			c.Class("note.transfer_oog_after_mutating_X(unobservable)")
		}
	default:
		if dy != "" && id != 17 {
			c.Class("note.Y_changed_by_non_checkpoint_call")
		}
	}

	// non-triviality
	nt := false
	if res.exit != ExitOOG {
		for _, rg := range c07AllRanges(id, &r0) {
			need := 1
			if rg.w {
				need = 2
			}
			if !rg.over && c07Straddles(pm, rg.a, rg.n, need) {
				nt = true
				c.Class("range_straddles_mapping_boundary")
				break
			}
		}
	}
	if res.exit == ExitContinue && outc != "ok" && in.Kind != 2 {
		nt = true
	}
	if nt {
		c.NonTrivial()
	}
}

// ------------------------------------------------------------------ through the dispatcher

func c07Program(imm []byte) []byte {
	code := append([]byte{10}, imm...)
	k := make([]bool, len(code))
	k[0] = true
	code = append(code, 0) // trap
	k = append(k, true)
	return vpAssemble(code, k, nil, 0)
}

func c07IDClass(kind int, id uint64) string {
	switch {
	case c07Defined(kind, id):
		return "defined"
	case c07Defined(0, id) || c07Defined(1, id):
		return "defined_for_another_kind"
	case id < 100:
		return "undefined_small"
	case id < 256:
		return "undefined_101_255"
	case id < 1<<63:
		return "undefined_ge_256"
	}
	return "undefined_sign_extended"
}

func c07SnapEq(a, b c07Snap) string {
	_, _, n, s := c07MemDiff(a, b)
	if s != "" {
		return s
	}
	if n > 0 {
		lo, hi, _, _ := c07MemDiff(a, b)
		return fmt.Sprintf("%d octets differ (%#x..%#x)", n, lo, hi)
	}
	return ""
}

func c07CheckDispatch(c *kit.Case, in *c07Input, id uint64) {
	defined := c07Defined(in.Kind, id)
	cls := c07IDClass(in.Kind, id)
	desc := fmt.Sprintf("%s ecalli imm=%x (id %#x, %s) w7..w12=%#x gas=%d", c07KindNames[in.Kind], in.Imm, id, cls, in.Regs[7:], in.Gas)
	if defined && id == 11 && in.Regs[9] > 256 && in.Regs[9] < 1<<20 {
		c.Class("out_of_domain_pages_huge_count")
		return
	}
	env, why := c07Build(in)
	if env == nil {
		if strings.HasPrefix(why, "skip:") {
			c.Class(why)
			return
		}
		c.Failf("%s", why)
	}
	pre, oerr := c07Observe(in.Kind, env.add, env.table)
	if oerr != "" {
		c.Failf("set-up context: %s", oerr)
	}
	memPre := c07Snapshot(env.mem)
	prog, er := DeBlobProgramCode(c07Program(in.Imm))
	if er != ExitContinue {
		c.Failf("%s: the two-instruction program was rejected by DeBlobProgramCode", desc)
	}
	var res Psi_H_ReturnType
	func() {
		defer func() {
			if r := recover(); r != nil {
				c.Failf("%s: Go runtime panic in Host.HostCall: %v\n%s", desc, r, c07Stack())
			}
		}()
		res = NewHost(&prog, Registers(in.Regs), env.mem, Gas(in.Gas), env.add, env.omegas).HostCall(0, 0)
	}()
	if res.VM == nil || res.VM.Registers == nil || res.VM.Gas == nil {
		c.Failf("%s: HostCall returned no VM state", desc)
	}
	regs, gas, exit := *res.VM.Registers, *res.VM.Gas, res.ExitReason
	post, oerr := c07Observe(in.Kind, res.Addition, env.table)
	if oerr != "" {
		c.Failf("%s: %s", desc, oerr)
	}
	memPost := c07Snapshot(env.mem)
	unchanged := func(what string, exceptW7 bool) {
		for i := range regs {
			if regs[i] != in.Regs[i] && !(exceptW7 && i == 7) {
				c.Failf("%s: %s but register %d changed %#x -> %#x", desc, what, i, in.Regs[i], regs[i])
			}
		}
		if d := c07SnapEq(memPre, memPost); d != "" {
			c.Failf("%s: %s but guest memory changed: %s", desc, what, d)
		}
		if d := c07ObsDiffX(pre, post) + c07ObsDiffY(pre, post); d != "" {
			c.Failf("%s: %s but the context changed: %s", desc, what, d)
		}
	}
	c.NonTrivial()

	if in.Gas < 1 {
		c.Class("disp." + cls + ".oog_before_ecalli")
		if exit != ExitOOG {
			c.Failf("%s: no gas for ecalli but exit %v", desc, exit)
		}
		unchanged("out of gas before the instruction", false)
		return
	}

	if !defined {
		// (v): WHAT after charging 10, nothing else changes; unpaid => out-of-gas, nothing changes
		if in.Gas-1 < 10 {
			c.Class("disp." + cls + ".oog")
			if exit != ExitOOG {
				c.Failf("%s: %d gas left after ecalli cannot pay 10, exit is %v, not out-of-gas", desc, in.Gas-1, exit)
			}
			unchanged("out of gas", false)
			return
		}
		c.Class("disp." + cls + ".WHAT")
		if regs[7] != WHAT {
			c.Failf("%s: w7 = %#x after an undefined identifier, want WHAT (%#x)", desc, regs[7], WHAT)
		}
		unchanged("undefined identifier", true)
		wantGas, wantExit := Gas(in.Gas-12), ExitPanic // ecalli 1 + call 10 + trap 1
		if in.Gas-11 < 1 {
			wantGas, wantExit = Gas(in.Gas-11), ExitOOG
		}
		if exit != wantExit {
			c.Failf("%s: exit %v, want %v (WHAT continues into the trap)", desc, exit, wantExit)
		}
		if gas != wantGas {
			c.Failf("%s: gas left %d, want %d (1 + 10 + trap)", desc, gas, wantGas)
		}
		return
	}

	// defined: the dispatcher must behave exactly as the table entry called with gas-1, then the trap
	ref := c07RunDirect(c, in, id, Gas(in.Gas-1))
	if ref == nil {
		return
	}
	outc := c07Outcome(id, ref.exit, ref.regs[7])
	c.Class("disp.defined." + outc)
	wantExit, wantGas := ref.exit, ref.gas
	if ref.exit == ExitContinue {
		if ref.gas < 1 {
			wantExit = ExitOOG
		} else {
			wantExit, wantGas = ExitPanic, ref.gas-1
		}
	}
	if exit != wantExit {
		c.Failf("%s: exit %v through the dispatcher, table entry %s gives %v (then trap => %v)", desc, exit, c07Names[id], ref.exit, wantExit)
	}
	if ref.exit != ExitOOG && gas != wantGas {
		c.Failf("%s: gas left %d through the dispatcher, want %d", desc, gas, wantGas)
	}
	if ref.exit == ExitContinue && res.Counter != 0 && wantExit == ExitPanic {
		c.Failf("%s: the call continued, so the exit must be the trap's (counter 0), got counter %d", desc, res.Counter)
	}
	for i := range regs {
		if regs[i] != ref.regs[i] {
			c.Failf("%s: register %d = %#x through the dispatcher, %#x from the table entry %s", desc, i, regs[i], ref.regs[i], c07Names[id])
		}
	}
	if d := c07SnapEq(ref.memPost, memPost); d != "" {
		c.Failf("%s: guest memory differs between dispatcher and table entry %s: %s", desc, c07Names[id], d)
	}
	if d := c07ObsDiffX(ref.post, post) + c07ObsDiffY(ref.post, post); d != "" {
		c.Failf("%s: context differs between dispatcher and table entry %s: %s", desc, c07Names[id], d)
	}
}

func c07Check(c *kit.Case, in c07Input) {
	if !c07Valid(&in) {
		c.Class("invalid_input_skipped")
		return
	}
	id := c07Sext(in.Imm)
	if in.Via == 0 {
		if !c07Defined(in.Kind, id) {
			c.Class("invalid_input_skipped")
			return
		}
		c07CheckDirect(c, &in, id)
		return
	}
	c07CheckDispatch(c, &in, id)
}

func TestVerif_C07(t *testing.T) {
	s := kit.Begin(t, "C07")
	defer s.Finish()
	kit.Run(s, "frame_direct", kit.N{Quick: 72000, Thorough: 2000000}, c07GenDirect, c07Check)
	kit.Run(s, "dispatch", kit.N{Quick: 18000, Thorough: 400000}, c07GenDispatch, c07Check)
}
