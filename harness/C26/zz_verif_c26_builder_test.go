package fuzz

// Chain builder shared by C26 (block import is atomic and repeatable) and C23
// (ticket accumulator / slot-sealer sequence).
//
// It authors blocks on top of a node's head with the deterministic pure-Go VRF
// stand-in that /verif injects for the missing Bandersnatch library. Everything
// the STF checks in ValidateNonVRFHeader / ValidateHeaderVrf is computed here
// from the Gray Paper formulas (6.2, 6.13-6.17, 6.22-6.28, 6.30-6.35), from an
// independent decode of the safrole-relevant state items (own decoders over the
// GetState key-values, NOT merklization.StateKeyValsToState):
//
//	parent   = H(E(previous header))          parent state root = the node's answer
//	H_x      = extrinsic hash                 H_w = Z(gamma_a) when e'=e, m<Y<=m', |gamma_a|=E
//	H_e      = (eta_0, eta_1, keys of Phi(iota)) when e'>e        H_o = []
//	eta'     : rotation on epoch change, eta'_0 = H(eta_0 ++ Y(H_v))
//	kappa'   = gamma_k on epoch change, gamma'_k = Phi(iota)
//	gamma'_s = Z(gamma_a) | gamma_s | F(eta'_2, kappa')
//	H_i      = index in kappa' of the slot's key (or of the ticket's owner)
//	H_s      = sign(EU(H)) with context X_F++eta'_3  (or X_T++eta'_3++attempt)
//	H_v      = sign([])   with context X_E++Y(H_s)
//
// Repository functions are used here only to CONSTRUCT inputs (header/extrinsic
// encoders, StateEncoder for the synthetic genesis). They are never the oracle.

import (
	"bytes"
	"encoding/binary"
	"fmt"
	"os"
	"sort"

	"github.com/New-JAMneration/JAM-Protocol/internal/blockchain"
	"github.com/New-JAMneration/JAM-Protocol/internal/types"
	"github.com/New-JAMneration/JAM-Protocol/internal/utilities"
	jamhash "github.com/New-JAMneration/JAM-Protocol/internal/utilities/hash"
	m "github.com/New-JAMneration/JAM-Protocol/internal/utilities/merklization"
	vrf "github.com/New-JAMneration/JAM-Protocol/pkg/Rust-VRF/vrf-func-ffi/src"
	"golang.org/x/crypto/blake2b"
	"pgregory.net/rapid"
)

// tiny parameters; checked against the package variables by cbCheckParams.
const (
	cbV    = 6  // validators
	cbE    = 12 // epoch length
	cbY    = 10 // ticket submission end
	cbN    = 3  // attempts per validator
	cbK    = 3  // max tickets per extrinsic
	cbC    = 2  // cores
	cbPool = 12 // validator identities known to the harness
	cbSvc  = 7  // the one service of the synthetic genesis
	cbNPre = 6  // preimages solicited by that service at genesis
)

func cbCheckParams() error {
	if types.ValidatorsCount != cbV || types.EpochLength != cbE || types.SlotSubmissionEnd != cbY ||
		types.TicketsPerValidator != cbN || types.MaxTicketsPerBlock != cbK || types.CoresCount != cbC {
		return fmt.Errorf("harness expects tiny parameters V=6 E=12 Y=10 N=3 K=3 C=2, package has V=%d E=%d Y=%d N=%d K=%d C=%d",
			types.ValidatorsCount, types.EpochLength, types.SlotSubmissionEnd, types.TicketsPerValidator,
			types.MaxTicketsPerBlock, types.CoresCount)
	}
	return nil
}

func cbH(parts ...[]byte) [32]byte {
	h, _ := blake2b.New256(nil)
	for _, p := range parts {
		h.Write(p)
	}
	var out [32]byte
	copy(out[:], h.Sum(nil))
	return out
}

// ---- validator identities ---------------------------------------------------

type cbIdent struct {
	SK  []byte
	Val types.Validator
}

var (
	cbIdents   [cbPool]cbIdent
	cbSecretOf = map[[32]byte][]byte{}
)

func init() {
	for i := 0; i < cbPool; i++ {
		sk := cbH([]byte("verif/c26/bandersnatch-secret"), []byte{byte(i)})
		pk, err := vrf.GetPublicKeyFromSecret(sk[:])
		if err != nil {
			panic(err)
		}
		var v types.Validator
		copy(v.Bandersnatch[:], pk)
		ed := cbH([]byte("verif/c26/ed25519"), []byte{byte(i)})
		copy(v.Ed25519[:], ed[:])
		for j := range v.Bls {
			v.Bls[j] = byte(0x40 + i)
		}
		for j := range v.Metadata {
			v.Metadata[j] = byte(0x80 + i)
		}
		cbIdents[i] = cbIdent{SK: sk[:], Val: v}
		cbSecretOf[[32]byte(v.Bandersnatch)] = sk[:]
	}
}

// ---- the safrole view of a state -------------------------------------------------

type cbTicket struct {
	ID      [32]byte
	Attempt byte
}

type cbVal struct {
	B, Ed [32]byte
	Raw   [336]byte
}

type cbView struct {
	Tau       uint32
	Eta       [4][32]byte
	Iota      []cbVal
	Kappa     []cbVal
	Lambda    []cbVal
	GammaK    []cbVal
	GammaZ    [144]byte
	SKeys     [][32]byte // gamma_s when it is a key sequence (len E), else nil
	STickets  []cbTicket // gamma_s when it is a ticket sequence (len E), else nil
	GammaA    []cbTicket
	Offenders [][32]byte
	Solicited [cbNPre]bool // preimage i of the genesis service is requested and not yet provided
}

func cbKey(i byte) types.StateKey {
	var k types.StateKey
	k[0] = i
	return k
}

type cbReader struct {
	b   []byte
	err error
}

func (r *cbReader) take(n int) []byte {
	if r.err != nil {
		return make([]byte, n)
	}
	if len(r.b) < n {
		r.err = fmt.Errorf("short read: want %d have %d", n, len(r.b))
		return make([]byte, n)
	}
	out := r.b[:n]
	r.b = r.b[n:]
	return out
}

// compact natural (GP C.1), enough for the small lengths met here
func (r *cbReader) nat() uint64 {
	b0 := r.take(1)[0]
	if b0 < 0x80 {
		return uint64(b0)
	}
	if b0 == 0xFF {
		return binary.LittleEndian.Uint64(r.take(8))
	}
	l := 0
	for l < 8 && b0&(0x80>>uint(l)) != 0 {
		l++
	}
	rest := r.take(l)
	var v uint64
	for i := l - 1; i >= 0; i-- {
		v = v<<8 | uint64(rest[i])
	}
	hi := uint64(b0) & (0xFF >> uint(l+1))
	return hi<<(8*uint(l)) | v
}

func (r *cbReader) vals(n int) []cbVal {
	out := make([]cbVal, n)
	for i := range out {
		raw := r.take(336)
		copy(out[i].Raw[:], raw)
		copy(out[i].B[:], raw[:32])
		copy(out[i].Ed[:], raw[32:64])
	}
	return out
}

func (r *cbReader) tickets(n int) []cbTicket {
	out := make([]cbTicket, n)
	for i := range out {
		copy(out[i].ID[:], r.take(32))
		out[i].Attempt = r.take(1)[0]
	}
	return out
}

func (r *cbReader) done(what string) error {
	if r.err != nil {
		return fmt.Errorf("%s: %v", what, r.err)
	}
	if len(r.b) != 0 {
		return fmt.Errorf("%s: %d trailing bytes", what, len(r.b))
	}
	return nil
}

// cbDecodeView reads tau, eta, iota, kappa, lambda, gamma and psi_o out of the
// key-values returned by GetState, with decoders written here from GP C/D.
func cbDecodeView(kvs types.StateKeyVals) (*cbView, error) {
	get := func(i byte) ([]byte, error) {
		k := cbKey(i)
		for _, kv := range kvs {
			if kv.Key == k {
				return kv.Value, nil
			}
		}
		return nil, fmt.Errorf("state item C(%d) missing", i)
	}
	v := &cbView{}
	b, err := get(11)
	if err != nil {
		return nil, err
	}
	if len(b) != 4 {
		return nil, fmt.Errorf("tau: %d bytes", len(b))
	}
	v.Tau = binary.LittleEndian.Uint32(b)
	if b, err = get(6); err != nil {
		return nil, err
	}
	if len(b) != 128 {
		return nil, fmt.Errorf("eta: %d bytes", len(b))
	}
	for i := 0; i < 4; i++ {
		copy(v.Eta[i][:], b[32*i:])
	}
	for _, it := range []struct {
		idx byte
		dst *[]cbVal
	}{{7, &v.Iota}, {8, &v.Kappa}, {9, &v.Lambda}} {
		if b, err = get(it.idx); err != nil {
			return nil, err
		}
		r := &cbReader{b: b}
		*it.dst = r.vals(cbV)
		if err := r.done(fmt.Sprintf("validators C(%d)", it.idx)); err != nil {
			return nil, err
		}
	}
	if b, err = get(4); err != nil {
		return nil, err
	}
	r := &cbReader{b: b}
	v.GammaK = r.vals(cbV)
	copy(v.GammaZ[:], r.take(144))
	switch r.take(1)[0] {
	case 0:
		v.STickets = r.tickets(cbE)
	case 1:
		v.SKeys = make([][32]byte, cbE)
		for i := range v.SKeys {
			copy(v.SKeys[i][:], r.take(32))
		}
	default:
		return nil, fmt.Errorf("gamma_s: bad discriminator")
	}
	n := r.nat()
	if n > cbE {
		return nil, fmt.Errorf("gamma_a: length %d > E", n)
	}
	v.GammaA = r.tickets(int(n))
	if err := r.done("gamma"); err != nil {
		return nil, err
	}
	if b, err = get(5); err != nil {
		return nil, err
	}
	r = &cbReader{b: b}
	for i := 0; i < 3; i++ {
		n := r.nat()
		if n > 1<<16 {
			return nil, fmt.Errorf("psi: absurd length")
		}
		r.take(32 * int(n))
	}
	n = r.nat()
	if n > 1<<16 {
		return nil, fmt.Errorf("psi_o: absurd length")
	}
	for i := 0; i < int(n); i++ {
		var k [32]byte
		copy(k[:], r.take(32))
		v.Offenders = append(v.Offenders, k)
	}
	if err := r.done("psi"); err != nil {
		return nil, err
	}
	for i := 0; i < cbNPre; i++ {
		blob := cbPreimageBlob(i)
		k := m.EncodeDelta4Key(cbSvc, types.LookupMetaMapkey{Hash: jamhash.Blake2bHash(blob), Length: types.U32(len(blob))})
		for _, kv := range kvs {
			if kv.Key == k {
				v.Solicited[i] = len(kv.Value) == 1 && kv.Value[0] == 0
			}
		}
	}
	return v, nil
}

// ---- GP 6.x model of one safrole step (used to author; the oracle of C23) -------

func cbPhi(iota []cbVal, offenders [][32]byte) []cbVal {
	out := make([]cbVal, len(iota))
	copy(out, iota)
	for i := range out {
		for _, o := range offenders {
			if out[i].Ed == o {
				out[i] = cbVal{}
			}
		}
	}
	return out
}

func cbFallback(eta2 [32]byte, kappa []cbVal) [][32]byte {
	out := make([][32]byte, cbE)
	for i := 0; i < cbE; i++ {
		var le [4]byte
		binary.LittleEndian.PutUint32(le[:], uint32(i))
		h := cbH(eta2[:], le[:])
		idx := binary.LittleEndian.Uint32(h[:4]) % cbV
		out[i] = kappa[idx].B
	}
	return out
}

func cbOutsideIn(a []cbTicket) []cbTicket {
	out := make([]cbTicket, 0, len(a))
	for i, j := 0, len(a)-1; i <= j; i, j = i+1, j-1 {
		out = append(out, a[i])
		if i != j {
			out = append(out, a[j])
		}
	}
	return out
}

func cbRing(gk []cbVal) []byte {
	ring := make([]byte, 0, 32*len(gk))
	for _, v := range gk {
		ring = append(ring, v.B[:]...)
	}
	return ring
}

func cbTicketCtx(eta [32]byte, attempt byte) []byte {
	ctx := append([]byte(types.JamTicketSeal), eta[:]...)
	return append(ctx, attempt)
}

// cbTicketID is Y of a ring proof / seal of key pk over a ticket context: with the
// stand-in it is a function of (pk, context) only.
func cbTicketID(pk [32]byte, eta [32]byte, attempt byte) [32]byte {
	p := vrf.RingSignPK(nil, pk[:], cbTicketCtx(eta, attempt), nil)
	var id [32]byte
	copy(id[:], p[:32])
	return id
}

// cbPre is the part of the posterior safrole state that does not depend on the
// block's entropy source or tickets (6.13, 6.23, 6.24).
type cbPre struct {
	E, M, E2, M2 uint32
	EpochChange  bool
	Eta123       [3][32]byte // eta'_1..3
	Kappa        []cbVal
	Lambda       []cbVal
	GammaK       []cbVal
	GammaZ       [144]byte
	SKeys        [][32]byte
	STickets     []cbTicket
	Carried      []cbTicket // gamma_a carried into this block (reset at epoch change)
}

func cbPrepare(v *cbView, slot uint32) *cbPre {
	p := &cbPre{E: v.Tau / cbE, M: v.Tau % cbE, E2: slot / cbE, M2: slot % cbE}
	p.EpochChange = p.E2 > p.E
	if p.EpochChange {
		p.Eta123 = [3][32]byte{v.Eta[0], v.Eta[1], v.Eta[2]}
		p.Kappa, p.Lambda = v.GammaK, v.Kappa
		p.GammaK = cbPhi(v.Iota, v.Offenders)
		copy(p.GammaZ[:], vrf.CommitmentOfRing(cbRing(p.GammaK)))
	} else {
		p.Eta123 = [3][32]byte{v.Eta[1], v.Eta[2], v.Eta[3]}
		p.Kappa, p.Lambda, p.GammaK, p.GammaZ = v.Kappa, v.Lambda, v.GammaK, v.GammaZ
		p.Carried = v.GammaA
	}
	switch {
	case p.E2 == p.E+1 && p.M >= cbY && len(v.GammaA) == cbE:
		p.STickets = cbOutsideIn(v.GammaA)
	case p.E2 == p.E:
		p.SKeys, p.STickets = v.SKeys, v.STickets
	default:
		p.SKeys = cbFallback(p.Eta123[1], p.Kappa)
	}
	return p
}

// cbSealer finds who may seal the slot: index into kappa', secret, seal context.
func cbSealer(p *cbPre) (idx int, sk []byte, ctx []byte, ok bool) {
	if p.STickets != nil {
		t := p.STickets[p.M2]
		for i, kv := range p.Kappa {
			s, known := cbSecretOf[kv.B]
			if !known {
				continue
			}
			if cbTicketID(kv.B, p.Eta123[2], t.Attempt) == t.ID {
				return i, s, cbTicketCtx(p.Eta123[2], t.Attempt), true
			}
		}
		return 0, nil, nil, false
	}
	key := p.SKeys[p.M2]
	for i, kv := range p.Kappa {
		if kv.B == key {
			s, known := cbSecretOf[kv.B]
			if !known {
				return 0, nil, nil, false
			}
			return i, s, append([]byte(types.JamFallbackSeal), p.Eta123[2][:]...), true
		}
	}
	return 0, nil, nil, false
}

func cbSortTickets(ts []cbTicket) {
	sort.SliceStable(ts, func(i, j int) bool { return bytes.Compare(ts[i].ID[:], ts[j].ID[:]) < 0 })
}

// cbAccumulate is 6.34: first E of sort(new U carried).
func cbAccumulate(carried, fresh []cbTicket) []cbTicket {
	all := append(append([]cbTicket(nil), fresh...), carried...)
	cbSortTickets(all)
	if len(all) > cbE {
		all = all[:cbE]
	}
	return all
}

// ---- authoring ---------------------------------------------------------------

// cbTicketSpec asks for one ticket envelope: a ring proof by ring member Pos of
// gamma'_k for the given attempt. Defects are explicit.
type cbTicketSpec struct {
	Pos      int  `json:"pos"`
	Attempt  int  `json:"att"`
	BadProof bool `json:"bad_proof,omitempty"` // flip a bit of the proof's MAC
	Outsider bool `json:"outsider,omitempty"`  // signed by an identity that is not in the ring
}

type cbAuthorSpec struct {
	Slot      uint32
	Tickets   []cbTicketSpec
	KeepOrder bool // do not sort/dedupe the tickets (defect injection)
	Preimages []int
	PreOrder  bool // do not sort preimages (defect injection)
	ExtraPre  [][]byte
	Mut       string
	MutArg    int
	Parent    types.HeaderHash
	Root      types.StateRoot
}

type cbAuthored struct {
	Block    types.Block
	Hash     types.HeaderHash
	Pre      *cbPre
	Post     *cbView // predicted posterior safrole view (GP model)
	NewTix   []cbTicket
	Mut      string // effective mutation ("" = authored as valid)
	Sealable bool
}

func cbPreimageBlob(i int) []byte {
	h := cbH([]byte("verif/c26/preimage"), []byte{byte(i)})
	n := 5 + i*7
	out := make([]byte, 0, n)
	for len(out) < n {
		out = append(out, h[:]...)
	}
	return out[:n]
}

func cbMintTicket(p *cbPre, ts cbTicketSpec) (types.TicketEnvelope, cbTicket) {
	pos := ((ts.Pos % cbV) + cbV) % cbV
	pk := p.GammaK[pos].B
	if ts.Outsider {
		// an identity of the pool that is not a member of the ring
		for i := 0; i < cbPool; i++ {
			cand := [32]byte(cbIdents[(i+pos)%cbPool].Val.Bandersnatch)
			member := false
			for _, g := range p.GammaK {
				if g.B == cand {
					member = true
				}
			}
			if !member {
				pk = cand
				break
			}
		}
	}
	att := byte(ts.Attempt)
	ctx := cbTicketCtx(p.Eta123[1], att) // X_T ++ eta'_2 ++ r
	proof := vrf.RingSignPK(p.commitment(), pk[:], ctx, nil)
	if ts.BadProof {
		proof[64+(ts.Pos&15)] ^= 0x10
	}
	var env types.TicketEnvelope
	env.Attempt = types.TicketAttempt(uint64(ts.Attempt)) // the attempt is a natural on the wire: values above 255 keep their upper part (the proof signs the low octet)
	copy(env.Signature[:], proof)
	var t cbTicket
	copy(t.ID[:], proof[:32])
	t.Attempt = att
	return env, t
}

func (p *cbPre) commitment() []byte { return vrf.CommitmentOfRing(cbRing(p.GammaK)) }

func cbFlip(b []byte, arg int) {
	if len(b) == 0 {
		return
	}
	i := ((arg % (8 * len(b))) + 8*len(b)) % (8 * len(b))
	b[i/8] ^= 1 << uint(i%8)
}

// cbAuthor builds a block for spec on top of the state seen as v. With Mut == ""
// the block is valid by the GP formulas above.
func cbAuthor(v *cbView, spec cbAuthorSpec) (*cbAuthored, error) {
	slot := spec.Slot
	mut := spec.Mut
	if mut == "bad_slot" {
		d := uint32(spec.MutArg % 4)
		if d > v.Tau {
			d = v.Tau
		}
		slot = v.Tau - d
	}
	p := cbPrepare(v, slot)
	out := &cbAuthored{Pre: p}

	// tickets extrinsic
	var envs []types.TicketEnvelope
	var tix []cbTicket
	for _, ts := range spec.Tickets {
		e, t := cbMintTicket(p, ts)
		envs = append(envs, e)
		tix = append(tix, t)
	}
	if !spec.KeepOrder {
		// valid form: sorted by identifier, no duplicates, none already accumulated,
		// none useless (6.32-6.35), nothing in the epoch tail, at most K
		type pair struct {
			e types.TicketEnvelope
			t cbTicket
		}
		var ps []pair
		seen := map[[32]byte]bool{}
		for _, c := range p.Carried {
			seen[c.ID] = true
		}
		for i := range tix {
			if seen[tix[i].ID] || p.M2 >= cbY {
				continue
			}
			seen[tix[i].ID] = true
			ps = append(ps, pair{envs[i], tix[i]})
		}
		sort.SliceStable(ps, func(i, j int) bool { return bytes.Compare(ps[i].t.ID[:], ps[j].t.ID[:]) < 0 })
		if len(ps) > cbK {
			ps = ps[:cbK]
		}
		acc := cbAccumulate(p.Carried, func() []cbTicket {
			o := make([]cbTicket, len(ps))
			for i := range ps {
				o[i] = ps[i].t
			}
			return o
		}())
		in := map[[32]byte]bool{}
		for _, a := range acc {
			in[a.ID] = true
		}
		envs, tix = nil, nil
		for _, q := range ps {
			if in[q.t.ID] {
				envs = append(envs, q.e)
				tix = append(tix, q.t)
			}
		}
	}
	if mut == "unsorted_tickets" {
		if len(envs) >= 2 {
			for i, j := 0, len(envs)-1; i < j; i, j = i+1, j-1 {
				envs[i], envs[j] = envs[j], envs[i]
				tix[i], tix[j] = tix[j], tix[i]
			}
		} else {
			mut = "bad_extrinsic_hash"
		}
	}
	out.NewTix = tix

	// preimages extrinsic
	var pre types.PreimagesExtrinsic
	for _, i := range spec.Preimages {
		i = ((i % cbNPre) + cbNPre) % cbNPre
		if !v.Solicited[i] && !spec.PreOrder {
			continue // already provided: a valid block must not carry it again (12.40)
		}
		pre = append(pre, types.Preimage{Requester: cbSvc, Blob: cbPreimageBlob(i)})
	}
	for _, b := range spec.ExtraPre {
		pre = append(pre, types.Preimage{Requester: cbSvc, Blob: b})
	}
	if !spec.PreOrder {
		sort.SliceStable(pre, func(i, j int) bool { return bytes.Compare(pre[i].Blob, pre[j].Blob) < 0 })
		w := 0
		for i := range pre {
			if i == 0 || !bytes.Equal(pre[i].Blob, pre[w-1].Blob) {
				pre[w] = pre[i]
				w++
			}
		}
		pre = pre[:w]
	}
	switch mut {
	case "unsorted_preimages":
		if len(pre) >= 2 {
			for i, j := 0, len(pre)-1; i < j; i, j = i+1, j-1 {
				pre[i], pre[j] = pre[j], pre[i]
			}
		} else {
			mut = "bad_extrinsic_hash"
		}
	case "unneeded_preimage":
		pre = append(pre, types.Preimage{Requester: cbSvc, Blob: []byte{0xFF, 0xFE, byte(spec.MutArg)}})
	}

	ext := types.Extrinsic{Tickets: types.TicketsExtrinsic(envs), Preimages: pre}
	xh, err := utilities.CreateExtrinsicHash(ext)
	if err != nil {
		return nil, fmt.Errorf("extrinsic hash: %v", err)
	}

	hdr := types.Header{Parent: spec.Parent, ParentStateRoot: spec.Root, ExtrinsicHash: xh, Slot: types.TimeSlot(slot)}
	hdr.OffendersMark = types.OffendersMark{}
	if p.EpochChange {
		em := &types.EpochMark{Entropy: types.Entropy(v.Eta[0]), TicketsEntropy: types.Entropy(v.Eta[1])}
		for _, g := range p.GammaK {
			em.Validators = append(em.Validators, types.EpochMarkValidatorKeys{
				Bandersnatch: types.BandersnatchPublic(g.B), Ed25519: types.Ed25519Public(g.Ed)})
		}
		hdr.EpochMark = em
	}
	if p.E2 == p.E && p.M < cbY && p.M2 >= cbY && len(v.GammaA) == cbE {
		tm := make(types.TicketsMark, 0, cbE)
		for _, t := range cbOutsideIn(v.GammaA) {
			tm = append(tm, types.TicketBody{ID: types.TicketID(t.ID), Attempt: types.TicketAttempt(t.Attempt)})
		}
		hdr.TicketsMark = &tm
	}

	// header-level defects that are covered by the seal (so only the named check fails)
	switch mut {
	case "bad_parent_root":
		cbFlip(hdr.ParentStateRoot[:], spec.MutArg)
	case "bad_extrinsic_hash":
		cbFlip(hdr.ExtrinsicHash[:], spec.MutArg)
	case "epoch_mark":
		if hdr.EpochMark == nil {
			em := &types.EpochMark{Entropy: types.Entropy(v.Eta[0]), TicketsEntropy: types.Entropy(v.Eta[1])}
			for _, g := range p.GammaK {
				em.Validators = append(em.Validators, types.EpochMarkValidatorKeys{
					Bandersnatch: types.BandersnatchPublic(g.B), Ed25519: types.Ed25519Public(g.Ed)})
			}
			hdr.EpochMark = em
		} else {
			switch spec.MutArg % 3 {
			case 0:
				hdr.EpochMark = nil
			case 1:
				cbFlip(hdr.EpochMark.Entropy[:], spec.MutArg)
			default:
				cbFlip(hdr.EpochMark.Validators[spec.MutArg%cbV].Ed25519[:], spec.MutArg)
			}
		}
	case "tickets_mark":
		if hdr.TicketsMark == nil {
			tm := make(types.TicketsMark, cbE)
			for i := range tm {
				tm[i].ID[0] = byte(i)
			}
			hdr.TicketsMark = &tm
		} else {
			hdr.TicketsMark = nil
		}
	case "offenders_mark":
		hdr.OffendersMark = types.OffendersMark{types.Ed25519Public(cbIdents[spec.MutArg%cbPool].Val.Ed25519)}
	}

	idx, sk, ctx, ok := cbSealer(p)
	out.Sealable = ok
	if !ok {
		return out, nil
	}
	if mut == "bad_author" {
		// another validator of kappa' seals (valid signatures, wrong author)
		j := (idx + 1 + spec.MutArg%(cbV-1)) % cbV
		s2, known := cbSecretOf[p.Kappa[j].B]
		if known && p.Kappa[j].B != p.Kappa[idx].B {
			idx, sk = j, s2
		} else {
			mut = "bad_seal"
		}
	}
	hdr.AuthorIndex = types.ValidatorIndex(idx)

	// Y(H_s) depends on key and context only: H_v can be made before the seal
	pre0, err := vrf.IETFSign(sk, ctx, nil)
	if err != nil {
		return nil, err
	}
	hv, err := vrf.IETFSign(sk, append([]byte(types.JamEntropy), pre0[:32]...), nil)
	if err != nil {
		return nil, err
	}
	copy(hdr.EntropySource[:], hv)
	if mut == "bad_entropy" {
		cbFlip(hdr.EntropySource[32:64], spec.MutArg) // MAC part: Y(H_v) stays, the signature breaks
	}
	if mut == "author_out_of_range" {
		hdr.AuthorIndex = types.ValidatorIndex(cbV + spec.MutArg%1000)
	}
	unsigned, err := utilities.HeaderUSerialization(hdr)
	if err != nil {
		return nil, fmt.Errorf("unsigned header: %v", err)
	}
	seal, err := vrf.IETFSign(sk, ctx, unsigned)
	if err != nil {
		return nil, err
	}
	copy(hdr.Seal[:], seal)
	if mut == "bad_seal" {
		cbFlip(hdr.Seal[32:64], spec.MutArg)
	}

	out.Block = types.Block{Header: hdr, Extrinsic: ext}
	hh, err := jamhash.ComputeBlockHeaderHash(hdr)
	if err != nil {
		return nil, err
	}
	out.Hash = hh
	out.Mut = mut

	// predicted posterior safrole view (6.22, 6.23, 6.13, 6.24, 6.34)
	post := &cbView{Tau: slot, Iota: v.Iota, Kappa: p.Kappa, Lambda: p.Lambda, GammaK: p.GammaK, GammaZ: p.GammaZ,
		SKeys: p.SKeys, STickets: p.STickets, Offenders: v.Offenders, Solicited: v.Solicited}
	post.Eta[0] = cbH(v.Eta[0][:], hv[:32])
	post.Eta[1], post.Eta[2], post.Eta[3] = p.Eta123[0], p.Eta123[1], p.Eta123[2]
	post.GammaA = cbAccumulate(p.Carried, tix)
	out.Post = post
	return out, nil
}

// ---- synthetic genesis ------------------------------------------------------------

// cbGenesis is the drawn description of the synthetic tiny genesis.
type cbGenesis struct {
	Seed     uint32 `json:"seed"`     // entropy seed
	Tau      uint32 `json:"tau"`      // genesis slot
	Kappa    []int  `json:"kappa"`    // 6 identities (indices into the pool of 12)
	GammaK   []int  `json:"gamma_k"`  // 6 identities
	Iota     []int  `json:"iota"`     // 6 identities
	Lambda   []int  `json:"lambda"`   // 6 identities
	Offender int    `json:"offender"` // -1, or an identity whose Ed25519 key is in psi_o
	Ancestry bool   `json:"ancestry"` // hand the genesis item to SetState as ancestry
	Prefill  []int  `json:"prefill"`  // gamma_a at genesis: ticket combos (ring position*N + attempt) minted under eta_2
}

func cbValSet(ix []int) (types.ValidatorsData, error) {
	if len(ix) != cbV {
		return nil, fmt.Errorf("validator set needs %d identities", cbV)
	}
	out := make(types.ValidatorsData, cbV)
	for i, j := range ix {
		if j < 0 || j >= cbPool {
			return nil, fmt.Errorf("identity %d out of range", j)
		}
		out[i] = cbIdents[j].Val
	}
	return out, nil
}

func cbGenesisState(g cbGenesis) (types.Header, types.StateKeyVals, error) {
	var st types.State
	var err error
	if st.Kappa, err = cbValSet(g.Kappa); err != nil {
		return types.Header{}, nil, err
	}
	if st.Gamma.GammaK, err = cbValSet(g.GammaK); err != nil {
		return types.Header{}, nil, err
	}
	if st.Iota, err = cbValSet(g.Iota); err != nil {
		return types.Header{}, nil, err
	}
	if st.Lambda, err = cbValSet(g.Lambda); err != nil {
		return types.Header{}, nil, err
	}
	var seed [4]byte
	binary.LittleEndian.PutUint32(seed[:], g.Seed)
	for i := 0; i < 4; i++ {
		st.Eta[i] = types.Entropy(cbH([]byte("verif/c26/eta"), seed[:], []byte{byte(i)}))
	}
	st.Tau = types.TimeSlot(g.Tau)
	ring := make([]byte, 0, 32*cbV)
	kap := make([]cbVal, cbV)
	for i, v := range st.Gamma.GammaK {
		ring = append(ring, v.Bandersnatch[:]...)
		_ = i
	}
	for i, v := range st.Kappa {
		kap[i].B = [32]byte(v.Bandersnatch)
	}
	copy(st.Gamma.GammaZ[:], vrf.CommitmentOfRing(ring))
	for _, k := range cbFallback([32]byte(st.Eta[2]), kap) {
		st.Gamma.GammaS.Keys = append(st.Gamma.GammaS.Keys, types.BandersnatchPublic(k))
	}
	st.Gamma.GammaA = types.TicketsAccumulator{}
	{
		var pre []cbTicket
		seen := map[[32]byte]bool{}
		for _, c := range g.Prefill {
			c = ((c % (cbV * cbN)) + cbV*cbN) % (cbV * cbN)
			id := cbTicketID([32]byte(st.Gamma.GammaK[c/cbN].Bandersnatch), [32]byte(st.Eta[2]), byte(c%cbN))
			if !seen[id] {
				seen[id] = true
				pre = append(pre, cbTicket{ID: id, Attempt: byte(c % cbN)})
			}
		}
		cbSortTickets(pre)
		if len(pre) > cbE {
			pre = pre[:cbE]
		}
		for _, t := range pre {
			st.Gamma.GammaA = append(st.Gamma.GammaA, types.TicketBody{ID: types.TicketID(t.ID), Attempt: types.TicketAttempt(t.Attempt)})
		}
	}
	if g.Offender >= 0 && g.Offender < cbPool {
		st.Psi.Offenders = []types.Ed25519Public{cbIdents[g.Offender].Val.Ed25519}
	}
	st.Alpha = make(types.AuthPools, cbC)
	st.Varphi = make(types.AuthQueues, cbC)
	for c := 0; c < cbC; c++ {
		st.Alpha[c] = types.AuthPool{}
		st.Varphi[c] = make(types.AuthQueue, types.AuthQueueSize)
	}
	st.Rho = make(types.AvailabilityAssignments, cbC)
	st.Chi.Assign = make(types.ServiceIDList, cbC)
	st.Chi.AlwaysAccum = types.AlwaysAccumulateMap{}
	st.Pi.ValsCurr = make(types.ValidatorsStatistics, cbV)
	st.Pi.ValsLast = make(types.ValidatorsStatistics, cbV)
	st.Pi.Cores = make(types.CoresStatistics, cbC)
	st.Pi.Services = types.ServicesStatistics{}
	st.Vartheta = make(types.ReadyQueue, cbE)
	st.Xi = make(types.AccumulatedQueue, cbE)
	st.Theta = types.LastAccOut{}
	// one code-less service that has solicited cbNPre preimages
	acc := types.ServiceAccount{
		PreimageLookup: types.PreimagesMapEntry{},
		LookupDict:     types.LookupMetaMapEntry{},
		StorageDict:    types.Storage{},
	}
	acc.ServiceInfo.CodeHash = types.OpaqueHash(cbH([]byte("verif/c26/code")))
	acc.ServiceInfo.Balance = 1 << 40
	var bytesTotal uint64
	for i := 0; i < cbNPre; i++ {
		blob := cbPreimageBlob(i)
		acc.LookupDict[types.LookupMetaMapkey{Hash: jamhash.Blake2bHash(blob), Length: types.U32(len(blob))}] = types.TimeSlotSet{}
		bytesTotal += 81 + uint64(len(blob))
	}
	acc.ServiceInfo.Items = types.U32(2 * cbNPre)
	acc.ServiceInfo.Bytes = types.U64(bytesTotal)
	st.Delta = types.ServiceAccountState{cbSvc: acc}

	kvs, err := m.StateEncoder(st)
	if err != nil {
		return types.Header{}, nil, fmt.Errorf("StateEncoder(genesis): %v", err)
	}
	for _, kv := range kvs {
		if kv.Value == nil {
			return types.Header{}, nil, fmt.Errorf("StateEncoder(genesis): item %x failed to encode", kv.Key[:2])
		}
	}
	hdr := types.Header{Slot: types.TimeSlot(g.Tau), OffendersMark: types.OffendersMark{}}
	return hdr, kvs, nil
}

// ---- the node under test ---------------------------------------------------------

type cbNode struct {
	svc FuzzServiceStub
}

// cbFreshNode gives a node with no memory of earlier cases: singleton, ring
// verifier cache and stores are all recreated (SetState does the same again).
func cbFreshNode() *cbNode {
	blockchain.ClearVerifierCache()
	blockchain.ResetInstance()
	return &cbNode{}
}

func (n *cbNode) setGenesis(g cbGenesis) (types.HeaderHash, types.StateRoot, error) {
	hdr, kvs, err := cbGenesisState(g)
	if err != nil {
		return types.HeaderHash{}, types.StateRoot{}, err
	}
	hh, err := jamhash.ComputeBlockHeaderHash(hdr)
	if err != nil {
		return types.HeaderHash{}, types.StateRoot{}, err
	}
	var anc types.Ancestry
	if g.Ancestry {
		anc = types.Ancestry{{Slot: hdr.Slot, HeaderHash: hh}}
	}
	root, err := n.svc.SetState(hdr, kvs, anc)
	return hh, root, err
}

func cbCopyKVs(kvs types.StateKeyVals) types.StateKeyVals {
	out := make(types.StateKeyVals, len(kvs))
	for i, kv := range kvs {
		out[i] = types.StateKeyVal{Key: kv.Key, Value: append(types.ByteSequence(nil), kv.Value...)}
	}
	return out
}

func cbEqualKVs(a, b types.StateKeyVals) (bool, string) {
	if len(a) != len(b) {
		return false, fmt.Sprintf("%d vs %d key-values", len(a), len(b))
	}
	for i := range a {
		if a[i].Key != b[i].Key {
			return false, fmt.Sprintf("entry %d: key %x vs %x", i, a[i].Key[:8], b[i].Key[:8])
		}
		if !bytes.Equal(a[i].Value, b[i].Value) {
			return false, fmt.Sprintf("value of key %x differs (%d vs %d bytes)", a[i].Key[:8], len(a[i].Value), len(b[i].Value))
		}
	}
	return true, ""
}

// ---- independent state root (GP D.3-D.6 over bit strings; same reference as C15) ----

func cbRefRoot(kvs types.StateKeyVals) [32]byte {
	type kv struct {
		k [31]byte
		v []byte
	}
	list := make([]kv, len(kvs))
	for i, e := range kvs {
		list[i] = kv{k: e.Key, v: e.Value}
	}
	bit := func(k *[31]byte, i int) int { return int(k[i/8]>>(7-uint(i%8))) & 1 }
	var rec func(l []kv, d int) [32]byte
	rec = func(l []kv, d int) [32]byte {
		if len(l) == 0 {
			return [32]byte{}
		}
		if len(l) == 1 {
			node := make([]byte, 64)
			if len(l[0].v) <= 32 {
				node[0] = 0x80 | byte(len(l[0].v))
				copy(node[1:32], l[0].k[:])
				copy(node[32:], l[0].v)
			} else {
				node[0] = 0xC0
				copy(node[1:32], l[0].k[:])
				h := blake2b.Sum256(l[0].v)
				copy(node[32:], h[:])
			}
			return blake2b.Sum256(node)
		}
		var a, b []kv
		for i := range l {
			if bit(&l[i].k, d) == 0 {
				a = append(a, l[i])
			} else {
				b = append(b, l[i])
			}
		}
		lh, rh := rec(a, d+1), rec(b, d+1)
		node := make([]byte, 64)
		copy(node[:32], lh[:])
		node[0] &^= 0x80
		copy(node[32:], rh[:])
		return blake2b.Sum256(node)
	}
	return rec(list, 0)
}

// ---- shared by the C26 and C23 harnesses ----------------------------------------------

func cbGenGenesis(rt *rapid.T) cbGenesis {
	g := cbGenesis{Seed: rapid.Uint32Range(0, 1<<20).Draw(rt, "seed")}
	g.Tau = uint32(rapid.OneOf(rapid.Just(0), rapid.IntRange(0, 11), rapid.IntRange(12, 40)).Draw(rt, "tau"))
	perm := rapid.Permutation([]int{0, 1, 2, 3, 4, 5, 6, 7, 8, 9, 10, 11}).Draw(rt, "idents")
	mode := rapid.IntRange(0, 3).Draw(rt, "sets")
	switch mode {
	case 0: // one validator set everywhere
		g.Kappa, g.GammaK, g.Iota, g.Lambda = perm[:6], perm[:6], perm[:6], perm[:6]
	case 1: // a different set queued
		g.Kappa, g.GammaK, g.Iota, g.Lambda = perm[:6], perm[:6], perm[6:], perm[:6]
	case 2: // overlapping sets
		g.Kappa, g.GammaK, g.Iota, g.Lambda = perm[:6], perm[3:9], perm[6:], perm[2:8]
	default: // same members, rotated positions
		g.Kappa, g.GammaK, g.Iota, g.Lambda = perm[:6], append(append([]int{}, perm[2:6]...), perm[:2]...), perm[:6], perm[:6]
	}
	g.Offender = -1
	if rapid.IntRange(0, 4).Draw(rt, "with_offender") == 0 {
		g.Offender = g.Iota[rapid.IntRange(0, 5).Draw(rt, "offender")]
	}
	g.Ancestry = rapid.IntRange(0, 3).Draw(rt, "ancestry") == 0
	switch rapid.IntRange(0, 3).Draw(rt, "prefill") {
	case 0:
		g.Prefill = rapid.Permutation(cbSeq(cbV * cbN)).Draw(rt, "prefill_all")[:rapid.IntRange(12, 18).Draw(rt, "prefill_n")]
	case 1:
		g.Prefill = rapid.SliceOfN(rapid.IntRange(0, cbV*cbN-1), 1, 11).Draw(rt, "prefill_some")
	}
	return g
}

func cbSeq(n int) []int {
	o := make([]int, n)
	for i := range o {
		o[i] = i
	}
	return o
}

func cbGenTickets(rt *rapid.T, max int) []cbTicketSpec {
	n := rapid.IntRange(0, max).Draw(rt, "ntickets")
	var out []cbTicketSpec
	for i := 0; i < n; i++ {
		out = append(out, cbTicketSpec{Pos: rapid.IntRange(0, cbV-1).Draw(rt, "pos"), Attempt: rapid.IntRange(0, cbN-1).Draw(rt, "att")})
	}
	return out
}

func cbCloneBlock(b types.Block) types.Block {
	o := b
	if b.Header.EpochMark != nil {
		em := *b.Header.EpochMark
		em.Validators = append([]types.EpochMarkValidatorKeys(nil), em.Validators...)
		o.Header.EpochMark = &em
	}
	if b.Header.TicketsMark != nil {
		tm := append(types.TicketsMark(nil), (*b.Header.TicketsMark)...)
		o.Header.TicketsMark = &tm
	}
	o.Header.OffendersMark = append(types.OffendersMark{}, b.Header.OffendersMark...)
	o.Extrinsic.Tickets = append(types.TicketsExtrinsic(nil), b.Extrinsic.Tickets...)
	o.Extrinsic.Preimages = nil
	for _, p := range b.Extrinsic.Preimages {
		o.Extrinsic.Preimages = append(o.Extrinsic.Preimages, types.Preimage{Requester: p.Requester, Blob: append(types.ByteSequence(nil), p.Blob...)})
	}
	return o
}

func cbImport(n *cbNode, b types.Block) (root types.StateRoot, err error) {
	return n.svc.ImportBlock(cbCloneBlock(b))
}

var cbDebug = os.Getenv("VERIF_CB_DEBUG") != ""

