package fuzz

// C26: block import is atomic and repeatable.
//
// A history is DATA: a synthetic genesis description plus a list of steps with
// drawn parameters. Blocks are authored while node A runs (the chain builder
// needs the node's answers: parent state root, head state); the authored bytes
// are then replayed on other fresh nodes. The oracle is purely differential:
//
//	(i)   after every rejection on A, GetState(head) returns byte-identical
//	      key-values (and they still hash to the root A reported for the head,
//	      by an independent trie reference);
//	(ii)  node B, which is given only the blocks A accepted (in A's order), accepts
//	      every one of them with the same root and the same key-values; a block A
//	      rejected while "dirty" (directly after another rejection) is also rejected
//	      by a fresh node that never saw the earlier rejected block;
//	(iii) node A2, given exactly A's sequence, returns the same verdicts and roots.
//
// A wrongly authored "valid" block cannot raise an alarm: all nodes get the same
// bytes; it only lowers the accepted count (reported as a class).

import (
	"fmt"
	"strings"
	"testing"

	"github.com/New-JAMneration/JAM-Protocol/internal/types"
	kit "github.com/New-JAMneration/JAM-Protocol/internal/verifkit"
	"github.com/New-JAMneration/JAM-Protocol/logger"
	"pgregory.net/rapid"
)

type c26Step struct {
	Kind    string         `json:"kind"` // child | invalid | retry | sibling | fork | dup | orphan
	Gap     int            `json:"gap"`  // slot distance from the parent state's tau (>= 1)
	Tickets []cbTicketSpec `json:"tickets,omitempty"`
	Pre     []int          `json:"pre,omitempty"`
	Mut     string         `json:"mut,omitempty"`
	MutArg  int            `json:"mut_arg,omitempty"`
	Back    int            `json:"back,omitempty"` // fork: ancestors to walk up from the head (>= 1)
}

type c26Input struct {
	Genesis cbGenesis `json:"genesis"`
	Steps   []c26Step `json:"steps"`
}

var c26Muts = []string{"bad_slot", "bad_parent_root", "bad_extrinsic_hash", "bad_seal", "bad_entropy", "bad_author",
	"author_out_of_range", "unsorted_tickets", "unsorted_preimages", "unneeded_preimage", "epoch_mark", "tickets_mark",
	"offenders_mark", "dup_ticket", "bad_ticket_attempt", "bad_ticket_proof"}

func c26Gen(rt *rapid.T) c26Input {
	in := c26Input{Genesis: cbGenGenesis(rt)}
	n := rapid.OneOf(rapid.IntRange(3, 12), rapid.IntRange(10, c26MaxSteps)).Draw(rt, "nsteps")
	kinds := []string{"child", "child", "child", "child", "child", "child", "child", "child",
		"invalid", "invalid", "invalid", "invalid_fork", "retry", "retry", "sibling", "fork", "fork", "dup", "orphan"}
	for i := 0; i < n; i++ {
		st := c26Step{Kind: rapid.SampledFrom(kinds).Draw(rt, "kind")}
		st.Gap = rapid.OneOf(rapid.Just(1), rapid.Just(1), rapid.IntRange(1, 3), rapid.IntRange(1, 14), rapid.IntRange(10, 30)).Draw(rt, "gap")
		if rapid.IntRange(0, 1).Draw(rt, "with_tickets") == 0 {
			st.Tickets = cbGenTickets(rt, 3)
		}
		if rapid.IntRange(0, 2).Draw(rt, "with_pre") == 0 {
			np := rapid.IntRange(1, 3).Draw(rt, "npre")
			for j := 0; j < np; j++ {
				st.Pre = append(st.Pre, rapid.IntRange(0, cbNPre-1).Draw(rt, "pre"))
			}
		}
		switch st.Kind {
		case "invalid", "invalid_fork":
			if st.Kind == "invalid_fork" {
				st.Back = rapid.IntRange(0, 4).Draw(rt, "back")
			}
			st.Mut = rapid.SampledFrom(c26Muts).Draw(rt, "mut")
			st.MutArg = rapid.IntRange(0, 4095).Draw(rt, "mut_arg")
			if st.Mut == "unsorted_tickets" && len(st.Tickets) < 2 {
				st.Tickets = []cbTicketSpec{{Pos: 0, Attempt: 0}, {Pos: 1, Attempt: 1}, {Pos: 2, Attempt: 2}}
			}
			if st.Mut == "unsorted_preimages" && len(st.Pre) < 2 {
				st.Pre = []int{0, 1, 2, 3, 4, 5}
			}
		case "fork":
			st.Back = rapid.IntRange(1, 6).Draw(rt, "back")
		}
		in.Steps = append(in.Steps, st)
	}
	return in
}

// ---- running a history ------------------------------------------------------------------

type c26Acc struct { // an accepted block (index 0 = genesis)
	Hash   types.HeaderHash
	Root   types.StateRoot
	Parent int
	Block  types.Block
	KVs    types.StateKeyVals
	View   *cbView
	Slot   uint32
}

type c26Ev struct { // what node A was given at one step
	Step     int
	Kind     string
	Mut      string // effective mutation, "" when authored as valid
	Block    types.Block
	Hash     types.HeaderHash
	Accepted bool
	Root     types.StateRoot
	Err      string
	NAccBefore int  // accepted blocks (incl. genesis) before this step
	Dirty      bool // the previous import on A was a rejection
	OffHead    bool // the block's parent field is not the hash of A's head at that time
	HeadDup    bool // the block IS A's head at that time (same header hash), imported again
	ParentDupPruned bool // KF-C26-3 follow-up, see c26DupPruned
	HeadRoot   types.StateRoot
}

var c26MaxSteps = 40

const c26Retain = 18 // fork targets stay well inside the 24-block fuzz-mode history

func c26Check(c *kit.Case, in c26Input) {
	if len(in.Steps) == 0 || len(in.Steps) > 200 {
		return
	}
	if err := cbCheckParams(); err != nil {
		c.Failf("HARNESS: %v", err)
	}
	// ---------------- node A: the whole history ----------------
	A := cbFreshNode()
	gh, groot, err := A.setGenesis(in.Genesis)
	if err != nil {
		return // malformed genesis description (replay file): nothing to check
	}
	gkv, err := A.svc.GetState(gh)
	if err != nil {
		c.Failf("GetState(genesis) failed right after SetState: %v", err)
	}
	gkv = cbCopyKVs(gkv)
	if r := cbRefRoot(gkv); r != [32]byte(groot) {
		c.Failf("SetState returned root %x but GetState(genesis) key-values hash to %x (independent trie)", groot[:8], r[:8])
	}
	gview, err := cbDecodeView(gkv)
	if err != nil {
		c.Failf("HARNESS: cannot decode genesis view: %v", err)
	}
	acc := []c26Acc{{Hash: gh, Root: groot, Parent: -1, KVs: gkv, View: gview, Slot: in.Genesis.Tau}}
	head := 0
	var evs []c26Ev
	var lastRej *c26Ev
	dirty := false
	nRejThenAcc, seenRej := 0, false

	for si, st := range in.Steps {
		kind := st.Kind
		parent := head
		switch kind {
		case "sibling":
			if acc[head].Parent < 0 {
				kind = "child"
			} else {
				parent = acc[head].Parent
			}
		case "fork", "invalid_fork":
			p := head
			for i := 0; i < st.Back+1 && acc[p].Parent >= 0; i++ {
				p = acc[p].Parent
			}
			if p == head || p < len(acc)-c26Retain {
				if kind == "fork" {
					kind = "child"
				} else {
					kind = "invalid"
				}
			} else {
				parent = p
			}
		case "retry":
			if lastRej == nil {
				kind = "child"
			}
		case "dup":
			if head == 0 {
				kind = "child"
			}
		case "orphan":
			if lastRej == nil {
				kind = "child"
			}
		case "child", "invalid":
			if kind == "invalid" && st.Mut == "" {
				return // malformed replay
			}
		default:
			return // unknown kind in a replay file
		}

		ev := c26Ev{Step: si, Kind: kind, NAccBefore: len(acc), Dirty: dirty}
		switch kind {
		case "retry":
			ev.Block, ev.Hash, ev.Mut = lastRej.Block, lastRej.Hash, lastRej.Mut
		case "dup":
			ev.Block, ev.Hash = acc[head].Block, acc[head].Hash
		default:
			pv := acc[parent].View
			gap := st.Gap
			if gap < 1 {
				gap = 1
			}
			spec := cbAuthorSpec{Slot: pv.Tau + uint32(gap), Tickets: st.Tickets, Preimages: st.Pre, Parent: acc[parent].Hash, Root: acc[parent].Root}
			if kind == "invalid" || kind == "invalid_fork" {
				spec.Mut, spec.MutArg = st.Mut, st.MutArg
				switch st.Mut {
				case "dup_ticket":
					spec.KeepOrder = true
					spec.Tickets = []cbTicketSpec{{Pos: st.MutArg % cbV, Attempt: st.MutArg % cbN}, {Pos: st.MutArg % cbV, Attempt: st.MutArg % cbN}}
				case "bad_ticket_attempt":
					spec.KeepOrder = true
					spec.Tickets = []cbTicketSpec{{Pos: st.MutArg % cbV, Attempt: cbN + st.MutArg%5}}
				case "bad_ticket_proof":
					spec.KeepOrder = true
					spec.Tickets = []cbTicketSpec{{Pos: st.MutArg % cbV, Attempt: st.MutArg % cbN, BadProof: st.MutArg&64 == 0, Outsider: st.MutArg&64 != 0}}
				}
			}
			if kind == "orphan" {
				spec.Parent = lastRej.Hash
			}
			var au *cbAuthored
			for try := 0; try < 40; try++ {
				au, err = cbAuthor(pv, spec)
				if err != nil {
					c.Failf("HARNESS: authoring failed: %v", err)
				}
				if au.Sealable {
					break
				}
				spec.Slot++ // nobody the harness has a secret for may seal this slot (offender-nulled key)
			}
			if !au.Sealable {
				c.Class("unsealable_stretch")
				continue
			}
			ev.Block, ev.Hash, ev.Mut = au.Block, au.Hash, au.Mut
		}

		ev.OffHead = ev.Block.Header.Parent != acc[head].Hash
		ev.ParentDupPruned = c26DupPruned(acc, parent)
		ev.HeadDup, ev.HeadRoot = head > 0 && ev.Hash == acc[head].Hash, acc[head].Root
		if ev.HeadDup {
			kind, ev.Kind = "dup", "dup"
		}
		root, ierr := cbImport(A, ev.Block)
		ev.Accepted, ev.Root = ierr == nil, root
		if ierr != nil {
			ev.Err = ierr.Error()
		}
		evs = append(evs, ev)
		if cbDebug {
			fmt.Printf("A step %d kind=%s mut=%s slot=%d parentIdx=%d head=%d hash=%x accepted=%v root=%x err=%q offhead=%v\n",
				si, kind, ev.Mut, ev.Block.Header.Slot, parent, head, ev.Hash[:4], ev.Accepted, root[:4], ev.Err, ev.OffHead)
		}
		label := kind
		if ev.Mut != "" {
			label += ":" + ev.Mut
		}
		if ev.Accepted {
			c.Class("A:" + label + ":accepted")
			if ev.Mut != "" {
				c.Class("defect_accepted:" + ev.Mut)
			}
			kvs, err := A.svc.GetState(ev.Hash)
			if err != nil {
				c.Failf("step %d (%s): block accepted with root %x but GetState(its hash) fails: %v", si, label, root[:8], err)
			}
			kvs = cbCopyKVs(kvs)
			if r := cbRefRoot(kvs); r != [32]byte(root) {
				c.Failf("step %d (%s): ImportBlock returned root %x but GetState key-values hash to %x (independent trie)", si, label, root[:8], r[:8])
			}
			view, err := cbDecodeView(kvs)
			if err != nil {
				c.Failf("HARNESS: cannot decode view after step %d: %v", si, err)
			}
			pidx := parent
			if kind == "dup" {
				pidx = acc[head].Parent
			}
			acc = append(acc, c26Acc{Hash: ev.Hash, Root: root, Parent: pidx, Block: ev.Block, KVs: kvs, View: view, Slot: uint32(ev.Block.Header.Slot)})
			head = len(acc) - 1
			dirty = false
			if seenRej {
				nRejThenAcc++
			}
		} else {
			c.Class("A:" + label + ":rejected")
			if ev.Mut == "" && (kind == "child" || kind == "sibling" || kind == "fork") {
				c.Class("valid_rejected:" + c26ErrClass(ev.Err))
			}
			seenRej = true
			dirty = true
			e := ev
			lastRej = &e
			// a block that was never accepted must not have left a queryable state behind
			if !c26WasAccepted(acc, ev.Hash) {
				if kvs, err := A.svc.GetState(ev.Hash); err == nil {
					c.Failf("step %d (%s rejected: %s): GetState(hash of the rejected block) answers with %d key-values", si, label, ev.Err, len(kvs))
				}
			}
			// (i) the head's state is unchanged
			for _, idx := range []int{head, parent} {
				kvs, err := A.svc.GetState(acc[idx].Hash)
				if err != nil && c26DupPruned(acc, idx) {
					c.Known("KF-C26-3", fmt.Sprintf("step %d: follow-up: the head block re-accepted after a rejection is recorded twice; when its first record leaves the 24-block window PruneOldData deletes the state (by root) and the block although the second record is still inside: GetState(%s) fails: %v", si, c26Which(idx, head), err))
				}
				if err != nil {
					c.Failf("step %d (%s rejected: %s): GetState(%s) now fails: %v", si, label, ev.Err, c26Which(idx, head), err)
				}
				if ok, why := cbEqualKVs(acc[idx].KVs, kvs); !ok {
					c.Failf("step %d (%s rejected: %s): GetState(%s) changed: %s", si, label, ev.Err, c26Which(idx, head), why)
				}
				if r := cbRefRoot(kvs); r != [32]byte(acc[idx].Root) {
					c.Failf("step %d (%s rejected): GetState(%s) no longer hashes to its root", si, label, c26Which(idx, head))
				}
			}
		}
	}

	nAcc := len(acc) - 1
	nRej := len(evs) - nAcc
	switch {
	case nAcc == 0:
		c.Class("hist:accepted=0")
	case nAcc < 5:
		c.Class("hist:accepted=1-4")
	case nAcc < 15:
		c.Class("hist:accepted=5-14")
	default:
		c.Class("hist:accepted>=15")
	}
	if nRej == 0 {
		c.Class("hist:no_rejection")
	}
	if nRejThenAcc > 0 {
		c.Class("hist:rejection_then_accept")
		c.NonTrivial()
	}
	if acc[head].Slot/cbE > in.Genesis.Tau/cbE {
		c.Class("hist:crossed_epoch")
	}

	// ---------------- node A2: same sequence, fresh node (iii) ----------------
	A2 := cbFreshNode()
	if _, r2, err := A2.setGenesis(in.Genesis); err != nil || r2 != groot {
		c.Failf("second fresh node: SetState gave root %x err %v, first node gave %x", r2[:8], err, groot[:8])
	}
	for _, ev := range evs {
		root, ierr := cbImport(A2, ev.Block)
		if (ierr == nil) != ev.Accepted || root != ev.Root {
			c.Failf("determinism: step %d (%s %s) gave accepted=%v root=%x err=%q on the first node and accepted=%v root=%x err=%v on a second fresh node given the same sequence",
				ev.Step, ev.Kind, ev.Mut, ev.Accepted, ev.Root[:8], ev.Err, ierr == nil, root[:8], ierr)
		}
	}

	// ---------------- node B: only what A accepted (ii) ----------------
	B := cbFreshNode()
	if _, rb, err := B.setGenesis(in.Genesis); err != nil || rb != groot {
		c.Failf("node B: SetState gave root %x err %v, node A gave %x", rb[:8], err, groot[:8])
	}
	ai := 0
	skippedOnB := map[int]bool{}
	for _, ev := range evs {
		if !ev.Accepted {
			continue
		}
		ai++
		root, ierr := cbImport(B, ev.Block)
		if ierr != nil {
			detail := fmt.Sprintf("step %d (%s %s): node A accepted the block (root %x) after having seen rejected blocks, node B that saw only the accepted blocks rejects it: %v",
				ev.Step, ev.Kind, ev.Mut, ev.Root[:8], ierr)
			if ev.Kind == "orphan" && strings.Contains(ierr.Error(), "failed to restore") {
				c.Known("KF-C26-1", detail)
			}
			if in.Genesis.Ancestry && strings.Contains(ierr.Error(), "finalized") && c26RejectedOffHeadBefore(evs, ev.Step) {
				c.Known("KF-C26-2", detail)
			}
			if ev.HeadDup && ev.Dirty && ev.Root == ev.HeadRoot {
				// B keeps its state (it rejected the duplicate): the comparison goes on
				c.KnownNote("KF-C26-3", detail)
				skippedOnB[ev.Step] = true
				continue
			}
			c.Failf("%s", detail)
		}
		if root != ev.Root {
			c.Failf("step %d (%s %s): node A (saw rejected blocks) returned root %x, node B (accepted blocks only) returned %x", ev.Step, ev.Kind, ev.Mut, ev.Root[:8], root[:8])
		}
		kvs, err := B.svc.GetState(ev.Hash)
		if err != nil {
			c.Failf("step %d: node B cannot GetState of an accepted block: %v", ev.Step, err)
		}
		if ok, why := cbEqualKVs(acc[ai].KVs, kvs); !ok {
			c.Failf("step %d (%s): key-values of the accepted block differ between node A and node B: %s", ev.Step, ev.Kind, why)
		}
	}

	// ---------------- probes: a block A rejected while dirty, on a node that never saw the earlier rejection ----------------
	probes := 0
	for _, ev := range evs {
		authoredValid := ev.Mut == "" && (ev.Kind == "child" || ev.Kind == "sibling" || ev.Kind == "fork")
		if ev.Accepted || !(ev.Dirty || authoredValid) || probes >= 4 {
			continue
		}
		probes++
		P := cbFreshNode()
		if _, _, err := P.setGenesis(in.Genesis); err != nil {
			c.Failf("probe node: SetState failed: %v", err)
		}
		n := 1
		for _, e2 := range evs {
			if e2.Step >= ev.Step || n >= ev.NAccBefore {
				break
			}
			if e2.Accepted && skippedOnB[e2.Step] {
				n++
				continue
			}
			if e2.Accepted {
				if _, err := cbImport(P, e2.Block); err != nil {
					c.Failf("probe node rejects block of step %d that nodes A and B accepted: %v", e2.Step, err)
				}
				n++
			}
		}
		_, perr := cbImport(P, ev.Block)
		if perr == nil && ev.ParentDupPruned && strings.Contains(ev.Err, "failed to restore") {
			c.Known("KF-C26-3", fmt.Sprintf("step %d: follow-up: node A can no longer fork from a block inside the 24-block window because the block was re-accepted after a rejection, recorded twice and pruned with its first record (%s); a clean node accepts the fork", ev.Step, ev.Err))
		}
		if perr == nil {
			c.Failf("step %d (%s %s): node A, which has seen rejected blocks, rejected the block (%s); a fresh node that saw only the accepted blocks accepts it",
				ev.Step, ev.Kind, ev.Mut, ev.Err)
		}
		if perr.Error() != ev.Err {
			c.Class("dirty_reject_error_differs")
			if ev.Kind == "retry" {
				c.Class("retry_error_differs:" + c26ErrClass(perr.Error()) + "->" + c26ErrClass(ev.Err))
				if ev.Err == "invalid parent state root" && !strings.Contains(perr.Error(), "restore") && !strings.Contains(perr.Error(), "finalized") {
					// verdict preserved (both reject) but the reason changes: the first attempt wrote
					// H_r into the head's in-memory beta (History2HistoryDagger shares the slice) and the
					// retry is not restored, so the head state no longer hashes to the parent state root
					c.KnownNote("KF-C26-4", fmt.Sprintf("step %d: the block is rejected with %q by a node that sees it for the first time and with %q when node A is given it a second time in a row",
						ev.Step, perr.Error(), ev.Err))
				}
			}
		}
		if ev.Dirty {
			c.Class("probed_dirty_rejection")
		} else {
			c.Class("probed_rejected_valid_block")
		}
	}
}

// c26RejectedOffHeadBefore: node A rejected, before step, a block whose parent was not
// its head (ImportBlock restores to that parent before validating and, when the
// block is then rejected, never returns to the head: the ancestry list stays truncated).
func c26RejectedOffHeadBefore(evs []c26Ev, step int) bool {
	for _, e := range evs {
		if e.Step < step && !e.Accepted && e.OffHead {
			return true
		}
	}
	return false
}

// c26DupPruned: the accepted block idx has an earlier accepted record with the same hash
// (possible only through KF-C26-3) that has left the node's 24-entry pruning window.
func c26DupPruned(acc []c26Acc, idx int) bool {
	for j := 1; j < idx && j <= len(acc)-1-24; j++ {
		if acc[j].Hash == acc[idx].Hash {
			return true
		}
	}
	return false
}

func c26WasAccepted(acc []c26Acc, h types.HeaderHash) bool {
	for _, a := range acc {
		if a.Hash == h {
			return true
		}
	}
	return false
}

func c26Which(idx, head int) string {
	if idx == head {
		return "head"
	}
	return "the block's parent"
}

func c26ErrClass(s string) string {
	// drop hex digests so that the class names are stable
	var b strings.Builder
	for i := 0; i < len(s); i++ {
		if s[i] == '0' && i+1 < len(s) && s[i+1] == 'x' {
			i += 2
			for i < len(s) && (s[i] >= '0' && s[i] <= '9' || s[i] >= 'a' && s[i] <= 'f' || s[i] == '.') {
				i++
			}
			b.WriteString("#")
			i--
			continue
		}
		b.WriteByte(s[i])
	}
	s = b.String()
	if len(s) > 56 {
		s = s[:56]
	}
	return strings.ReplaceAll(s, " ", "_")
}

func TestVerif_C26(t *testing.T) {
	s := kit.Begin(t, "C26")
	defer s.Finish()
	s.EnableSentinel()
	logger.Disable()
	if s.Thorough() {
		c26MaxSteps = 60
	}
	kit.Run(s, "import_atomic_differential", kit.N{Quick: 1500, Thorough: 24000}, c26Gen, c26Check)
}
