package fuzz

// C23: ticket accumulator and slot-sealer sequence.
//
// Block histories over 3-4 tiny epochs are driven through FuzzServiceStub
// (SetState / ImportBlock / GetState) with blocks authored by the chain builder
// of C26 (deterministic VRF stand-in). Here the builder is fed by a MODEL of the
// safrole state kept by the harness (GP 6.13, 6.22-6.26, 6.30-6.34, written in
// zz_verif_c26_builder_test.go from the formulas); the node's state is observed
// through GetState and decoders written in the harness, and compared with the
// model after every accepted block:
//
//	accepted  =>  gamma'_a = first E of sort(new U carried), carried reset at an
//	              epoch change; strictly increasing; no duplicates; |gamma'_a| <= E
//	gamma'_s  =   Z(gamma_a)        iff e' = e+1 and m >= Y and |gamma_a| = E
//	              gamma_s           if  e' = e
//	              F(eta'_2, kappa') otherwise (recomputed here, never read back)
//	each injected defect (unsorted, duplicate in block, duplicate of an accumulated
//	ticket, attempt >= N, bad proof, ticket at slot >= Y) => rejection, and the
//	next valid block is accepted on the unchanged model state.

import (
	"bytes"
	"fmt"
	"os"
	"sort"
	"testing"

	"github.com/New-JAMneration/JAM-Protocol/internal/types"
	kit "github.com/New-JAMneration/JAM-Protocol/internal/verifkit"
	"github.com/New-JAMneration/JAM-Protocol/logger"
	"pgregory.net/rapid"
)

type c23Step struct {
	Gap     int    `json:"gap"`              // slot distance (>= 1); see Jump
	Jump    string `json:"jump,omitempty"`   // "", "tail" (next slot with m' >= Y), "epoch" (first slot of the next epoch), "skip" (an epoch is skipped)
	Combos  []int  `json:"combos,omitempty"` // ticket wishes: ring position*N + attempt
	Defect  string `json:"defect,omitempty"` // injected ticket defect
	Arg     int    `json:"arg,omitempty"`
	Outside bool   `json:"outside,omitempty"` // bad_proof by a non-member instead of a broken MAC
}

type c23Input struct {
	Genesis cbGenesis `json:"genesis"`
	Steps   []c23Step `json:"steps"`
}

var c23Defects = []string{"unsorted", "dup_in_block", "dup_accumulated", "bad_attempt", "bad_proof", "in_tail", "over_k", "over_v", "useless"}

func c23Gen(rt *rapid.T) c23Input {
	in := c23Input{Genesis: cbGenGenesis(rt)}
	in.Genesis.Ancestry = false
	n := rapid.OneOf(rapid.IntRange(4, 20), rapid.IntRange(20, 40)).Draw(rt, "nsteps")
	busy := rapid.IntRange(0, 2).Draw(rt, "busy") > 0 // most histories submit tickets in most blocks
	for i := 0; i < n; i++ {
		var st c23Step
		st.Gap = rapid.OneOf(rapid.Just(1), rapid.Just(1), rapid.Just(1), rapid.IntRange(1, 3), rapid.IntRange(1, 9)).Draw(rt, "gap")
		switch rapid.IntRange(0, 19).Draw(rt, "jump") {
		case 0:
			st.Jump = "tail"
		case 1:
			st.Jump = "epoch"
		case 2:
			st.Jump = "skip"
		}
		if busy || rapid.IntRange(0, 2).Draw(rt, "with_tickets") == 0 {
			k := rapid.OneOf(rapid.Just(3), rapid.IntRange(0, 3), rapid.IntRange(0, 5)).Draw(rt, "nwish")
			for j := 0; j < k; j++ {
				st.Combos = append(st.Combos, rapid.IntRange(0, cbV*cbN-1).Draw(rt, "combo"))
			}
		}
		if rapid.IntRange(0, 4).Draw(rt, "with_defect") == 0 {
			st.Defect = rapid.SampledFrom(c23Defects).Draw(rt, "defect")
			st.Arg = rapid.IntRange(0, 1023).Draw(rt, "arg")
			st.Outside = rapid.Bool().Draw(rt, "outside")
			if st.Defect == "in_tail" {
				st.Jump = "tail"
			}
		}
		in.Steps = append(in.Steps, st)
	}
	return in
}

type c23Combo struct {
	C  int
	ID [32]byte
}

// c23Fresh lists the 18 ticket combos of the ring gamma'_k whose identifier is not
// carried in the accumulator, sorted by identifier.
func c23Fresh(p *cbPre) []c23Combo {
	carried := map[[32]byte]bool{}
	for _, t := range p.Carried {
		carried[t.ID] = true
	}
	var out []c23Combo
	for c := 0; c < cbV*cbN; c++ {
		pk := p.GammaK[c/cbN].B
		if pk == ([32]byte{}) {
			continue // offender-nulled ring member
		}
		id := cbTicketID(pk, p.Eta123[1], byte(c%cbN))
		if !carried[id] {
			out = append(out, c23Combo{C: c, ID: id})
		}
	}
	sort.Slice(out, func(i, j int) bool { return bytes.Compare(out[i].ID[:], out[j].ID[:]) < 0 })
	return out
}

func c23Spec(c int) cbTicketSpec { return cbTicketSpec{Pos: c / cbN, Attempt: c % cbN} }

// c23Plan turns a defect request into an explicit (KeepOrder) ticket list that has
// exactly that defect and is otherwise well-formed. ok=false: not applicable here.
func c23Plan(p *cbPre, st c23Step) (specs []cbTicketSpec, ok bool) {
	fresh := c23Fresh(p)
	// only tickets that would enter the accumulator (no useless ones in the base list)
	useful := fresh
	if len(p.Carried) == cbE {
		useful = nil
		for _, f := range fresh {
			if bytes.Compare(f.ID[:], p.Carried[cbE-1].ID[:]) < 0 {
				useful = append(useful, f)
			}
		}
	}
	inWindow := p.M2 < cbY
	pick := func(n int) []c23Combo { // n useful combos, sorted by id, rotated by Arg
		if len(useful) < n {
			return nil
		}
		off := st.Arg % (len(useful) - n + 1)
		return useful[off : off+n]
	}
	switch st.Defect {
	case "unsorted":
		l := pick(2 + st.Arg%2)
		if !inWindow || l == nil {
			return nil, false
		}
		for i := len(l) - 1; i >= 0; i-- {
			specs = append(specs, c23Spec(l[i].C))
		}
	case "dup_in_block":
		l := pick(1 + st.Arg%2)
		if !inWindow || l == nil {
			return nil, false
		}
		for _, x := range l {
			specs = append(specs, c23Spec(x.C))
		}
		specs = append(specs, c23Spec(l[len(l)-1].C)) // the last one twice: still non-decreasing
	case "dup_accumulated":
		if !inWindow || len(p.Carried) == 0 {
			return nil, false
		}
		want := p.Carried[st.Arg%len(p.Carried)]
		for c := 0; c < cbV*cbN; c++ {
			if p.GammaK[c/cbN].B != ([32]byte{}) && cbTicketID(p.GammaK[c/cbN].B, p.Eta123[1], byte(c%cbN)) == want.ID {
				return []cbTicketSpec{c23Spec(c)}, true
			}
		}
		return nil, false // carried ticket of a previous ring (not re-mintable): skip
	case "bad_attempt":
		if !inWindow {
			return nil, false
		}
		pos := st.Arg % cbV
		if p.GammaK[pos].B == ([32]byte{}) {
			return nil, false
		}
		att := cbN // the boundary value N itself half of the time
		if st.Arg&1 == 1 {
			att = cbN + (st.Arg/8)%(256-cbN)
		}
		if st.Arg&3 == 3 {
			// far over the limit with a low octet that is a valid attempt (and a proof valid for it)
			att = []int{256, 512, 65536, 1 << 32}[(st.Arg/4)%4] + (st.Arg/16)%cbN
		}
		return []cbTicketSpec{{Pos: pos, Attempt: att}}, true
	case "bad_proof":
		l := pick(1)
		if !inWindow || l == nil {
			return nil, false
		}
		s := c23Spec(l[0].C)
		if st.Outside {
			s.Outsider = true
		} else {
			s.BadProof = true
		}
		return []cbTicketSpec{s}, true
	case "in_tail":
		l := pick(1)
		if inWindow || l == nil {
			return nil, false
		}
		return []cbTicketSpec{c23Spec(l[0].C)}, true
	case "over_k":
		l := pick(cbK + 1 + st.Arg%(cbV-cbK))
		if !inWindow || l == nil || len(p.Carried)+len(l) > cbE {
			return nil, false
		}
		for _, x := range l {
			specs = append(specs, c23Spec(x.C))
		}
	case "over_v":
		l := pick(cbV + 1)
		if !inWindow || l == nil || len(p.Carried)+len(l) > cbE {
			return nil, false
		}
		for _, x := range l {
			specs = append(specs, c23Spec(x.C))
		}
	case "useless":
		if !inWindow || len(p.Carried) != cbE {
			return nil, false
		}
		for _, f := range fresh {
			if bytes.Compare(f.ID[:], p.Carried[cbE-1].ID[:]) > 0 {
				return []cbTicketSpec{c23Spec(f.C)}, true
			}
		}
		return nil, false
	default:
		return nil, false
	}
	return specs, true
}

func c23Slot(v *cbView, st c23Step) uint32 {
	gap := st.Gap
	if gap < 1 {
		gap = 1
	}
	slot := v.Tau + uint32(gap)
	e := v.Tau / cbE
	switch st.Jump {
	case "tail":
		if slot%cbE < cbY {
			slot = slot - slot%cbE + cbY + uint32(gap)%2
		}
	case "epoch":
		slot = (e+1)*cbE + uint32(gap-1)%cbE
	case "skip":
		slot = (e+2)*cbE + uint32(gap-1)%cbE
	}
	return slot
}

func c23EqVals(a, b []cbVal) bool {
	if len(a) != len(b) {
		return false
	}
	for i := range a {
		if a[i].Raw != b[i].Raw {
			return false
		}
	}
	return true
}

func c23EqTickets(a, b []cbTicket) bool {
	if len(a) != len(b) {
		return false
	}
	for i := range a {
		if a[i] != b[i] {
			return false
		}
	}
	return true
}

func c23Check(c *kit.Case, in c23Input) {
	if len(in.Steps) == 0 || len(in.Steps) > 200 {
		return
	}
	if err := cbCheckParams(); err != nil {
		c.Failf("HARNESS: %v", err)
	}
	in.Genesis.Ancestry = false
	N := cbFreshNode()
	gh, groot, err := N.setGenesis(in.Genesis)
	if err != nil {
		return // malformed genesis description in a replay file
	}
	gkv, err := N.svc.GetState(gh)
	if err != nil {
		c.Failf("GetState(genesis) failed: %v", err)
	}
	model, err := cbDecodeView(gkv)
	if err != nil {
		c.Failf("HARNESS: cannot decode the genesis view: %v", err)
	}
	if len(model.GammaA) > 0 {
		c.Class("genesis:prefilled_accumulator")
	}
	headHash, headRoot := gh, groot
	nontrivial := false
	accepted := 0

	for si, st := range in.Steps {
		slot := c23Slot(model, st)
		spec := cbAuthorSpec{Slot: slot, Parent: headHash, Root: headRoot}
		var au *cbAuthored
		defect := st.Defect
		for try := 0; try < 40; try++ {
			p := cbPrepare(model, spec.Slot)
			spec.Tickets, spec.KeepOrder = nil, false
			for _, cb := range st.Combos {
				cb = ((cb % (cbV * cbN)) + cbV*cbN) % (cbV * cbN)
				if p.GammaK[cb/cbN].B != ([32]byte{}) {
					spec.Tickets = append(spec.Tickets, c23Spec(cb))
				}
			}
			defect = st.Defect
			if defect != "" {
				if specs, ok := c23Plan(p, st); ok {
					spec.Tickets, spec.KeepOrder = specs, true
				} else {
					defect = ""
				}
			}
			au, err = cbAuthor(model, spec)
			if err != nil {
				c.Failf("HARNESS: authoring failed: %v", err)
			}
			if au.Sealable {
				break
			}
			spec.Slot++ // the slot's key is an offender-nulled one: nobody can seal it
		}
		if !au.Sealable {
			c.Class("unsealable_stretch")
			continue
		}
		if st.Defect != "" && defect == "" {
			c.Class("defect_not_applicable:" + st.Defect)
		}
		p := au.Pre
		root, ierr := cbImport(N, au.Block)
		if cbDebug {
			fmt.Printf("C23 step %d slot=%d (e%d m%d) defect=%q tickets=%d carried=%d sealmode_tickets=%v -> err=%v\n",
				si, spec.Slot, p.E2, p.M2, defect, len(au.NewTix), len(p.Carried), p.STickets != nil, ierr)
		}

		if defect != "" {
			if ierr != nil {
				c.Class("defect_rejected:" + defect)
				if want, ok := c23ErrOf[defect]; ok && ierr.Error() != want {
					// the error code is not part of the property; recorded only
					c.Class("defect_rejected_with_other_error:" + defect + ":" + c23Short(ierr.Error()))
				}
				continue // model unchanged; the next block is built on the same head
			}
			detail := fmt.Sprintf("step %d: block at slot %d (epoch %d, m'=%d) with ticket defect %q (%d tickets, %d carried) was ACCEPTED", si, spec.Slot, p.E2, p.M2, defect, len(au.NewTix), len(p.Carried))
			switch defect {
			case "over_k":
				// GP 6.30: |E_T| <= K; the implementation compares with V. Not part of the property's
				// statement; listed so that it is visible. The model follows the node.
				c.KnownNote("KF-C23-1", detail)
			case "useless":
				// GP 6.35 (n subset of gamma'_a) as I recall it; outside the statement: class only
				c.Class("useless_ticket_accepted")
			default:
				c.Failf("%s", detail)
			}
		} else if ierr != nil {
			c.Failf("step %d: a block that is valid by the GP 6.x model was rejected: %v (slot %d, epoch %d->%d, m=%d m'=%d, %d tickets, %d carried, sealed by %s)",
				si, ierr, spec.Slot, p.E, p.E2, p.M, p.M2, len(au.NewTix), len(p.Carried), map[bool]string{true: "ticket", false: "fallback key"}[p.STickets != nil])
		}

		// ---- accepted: compare the node's safrole state with the model ----
		accepted++
		kvs, err := N.svc.GetState(au.Hash)
		if err != nil {
			c.Failf("step %d: GetState of the accepted block fails: %v", si, err)
		}
		got, err := cbDecodeView(kvs)
		if err != nil {
			c.Failf("step %d: the accepted state does not decode: %v", si, err)
		}
		want := au.Post
		// accumulator invariants, stated without the model
		if len(got.GammaA) > cbE {
			c.Failf("step %d: |gamma_a'| = %d > E", si, len(got.GammaA))
		}
		for i := 1; i < len(got.GammaA); i++ {
			if bytes.Compare(got.GammaA[i-1].ID[:], got.GammaA[i].ID[:]) >= 0 {
				c.Failf("step %d: gamma_a' is not strictly increasing at %d (duplicate or disorder)", si, i)
			}
		}
		if !c23EqTickets(got.GammaA, want.GammaA) {
			c.Failf("step %d (slot %d, epoch %d->%d): gamma_a' has %d tickets, the model (first E of sort(new U carried), %d new, %d carried) has %d; first difference at %d",
				si, spec.Slot, p.E, p.E2, len(got.GammaA), len(au.NewTix), len(p.Carried), len(want.GammaA), c23FirstDiff(got.GammaA, want.GammaA))
		}
		// sealer sequence
		switch {
		case want.STickets != nil:
			if got.STickets == nil || !c23EqTickets(got.STickets, want.STickets) {
				c.Failf("step %d (slot %d, epoch %d->%d, m=%d, |gamma_a|=%d): gamma_s' should be the outside-in order of the tickets", si, spec.Slot, p.E, p.E2, p.M, len(model.GammaA))
			}
		default:
			if got.SKeys == nil {
				c.Failf("step %d (slot %d, epoch %d->%d, m=%d, |gamma_a|=%d): gamma_s' is a ticket sequence, the model says key sequence", si, spec.Slot, p.E, p.E2, p.M, len(model.GammaA))
			}
			for i := range want.SKeys {
				if got.SKeys[i] != want.SKeys[i] {
					c.Failf("step %d (slot %d, epoch %d->%d): gamma_s'[%d] differs from the model (fallback F(eta'_2, kappa') / unchanged within the epoch)", si, spec.Slot, p.E, p.E2, i)
				}
			}
		}
		// the rest of the safrole state the sequences depend on
		if got.Tau != want.Tau {
			c.Failf("step %d: tau' = %d, header slot %d", si, got.Tau, want.Tau)
		}
		for i := 0; i < 4; i++ {
			if got.Eta[i] != want.Eta[i] {
				c.Failf("step %d (epoch %d->%d): eta'_%d differs from the model (6.22/6.23)", si, p.E, p.E2, i)
			}
		}
		if !c23EqVals(got.Kappa, want.Kappa) || !c23EqVals(got.Lambda, want.Lambda) || !c23EqVals(got.GammaK, want.GammaK) {
			c.Failf("step %d (epoch %d->%d): kappa'/lambda'/gamma_k' differ from the model (6.13)", si, p.E, p.E2)
		}
		if got.GammaZ != want.GammaZ {
			c.Failf("step %d (epoch %d->%d): gamma_z' is not the ring commitment of gamma_k'", si, p.E, p.E2)
		}
		if !c23EqVals(got.Iota, want.Iota) {
			// 6.13 nulls offenders in gamma'_k only; iota' = iota (no designate service here)
			nulled := true
			for i := range got.Iota {
				if got.Iota[i].Raw != want.Iota[i].Raw {
					off := false
					for _, o := range model.Offenders {
						if want.Iota[i].Ed == o {
							off = true
						}
					}
					if !off || got.Iota[i].Raw != ([336]byte{}) {
						nulled = false
					}
				}
			}
			if nulled && p.EpochChange {
				c.KnownNote("KF-C23-2", fmt.Sprintf("step %d: after the epoch change %d->%d the offender's entry of iota' is all-zero in the committed state (Phi applied in place)", si, p.E, p.E2))
				want.Iota = got.Iota // the model follows the node
			} else {
				c.Failf("step %d: iota' changed", si)
			}
		}

		// classes / non-trivial rule
		if len(au.NewTix) > 0 && len(p.Carried) > 0 {
			nontrivial = true
			c.Class("accepted:tickets_into_nonempty_accumulator")
		}
		if len(au.NewTix) > 0 && len(p.Carried)+len(au.NewTix) > cbE {
			c.Class("accepted:accumulator_overflow_truncated")
		}
		if p.EpochChange {
			switch {
			case len(model.GammaA) == cbE && p.E2 == p.E+1 && p.M >= cbY:
				nontrivial = true
				c.Class("epoch_change:full_accumulator->ticket_sealing")
			case len(model.GammaA) == cbE && p.E2 == p.E+1:
				nontrivial = true
				c.Class("epoch_change:full_accumulator_but_m<Y->fallback")
			case len(model.GammaA) == cbE:
				nontrivial = true
				c.Class("epoch_change:full_accumulator_but_epoch_skipped->fallback")
			case p.E2 > p.E+1:
				c.Class("epoch_change:skip")
			default:
				c.Class("epoch_change:partial_accumulator->fallback")
			}
		}
		if p.STickets != nil {
			c.Class("accepted:ticket_sealed_block")
		}
		if au.Block.Header.TicketsMark != nil {
			c.Class("accepted:tickets_mark")
		}
		model = want
		headHash, headRoot = au.Hash, root
	}
	switch {
	case accepted == 0:
		c.Class("hist:accepted=0")
	case accepted < 10:
		c.Class("hist:accepted=1-9")
	default:
		c.Class("hist:accepted>=10")
	}
	if (model.Tau / cbE) >= in.Genesis.Tau/cbE+2 {
		c.Class("hist:>=2_epoch_changes")
	}
	if nontrivial {
		c.NonTrivial()
	}
}

// error text the implementation gives today for each single-defect block (soft: class only)
var c23ErrOf = map[string]string{
	"unsorted":        "tickets must be sorted",
	"dup_in_block":    "found a ticket duplicate",
	"dup_accumulated": "found a ticket duplicate",
	"bad_attempt":     "invalid ticket attempt value",
	"bad_proof":       "invalid ticket ring proof",
	"in_tail":         "received a ticket while in epoch's tail",
	"over_v":          "received a ticket while in epoch's tail",
}

func c23Short(s string) string {
	if len(s) > 40 {
		s = s[:40]
	}
	out := []byte(s)
	for i := range out {
		if out[i] == ' ' {
			out[i] = '_'
		}
	}
	return string(out)
}

func c23FirstDiff(a, b []cbTicket) int {
	for i := 0; i < len(a) && i < len(b); i++ {
		if a[i] != b[i] {
			return i
		}
	}
	if len(a) < len(b) {
		return len(a)
	}
	return len(b)
}

var _ = types.EpochLength

func TestVerif_C23(t *testing.T) {
	s := kit.Begin(t, "C23")
	defer s.Finish()
	s.EnableSentinel()
	logger.Disable()
	// VERIF_C23_SUB=<name> runs one sub-property only (sensitivity runs; never set by the driver)
	only := os.Getenv("VERIF_C23_SUB")
	if only == "" || only == "accumulator_and_sealer_vs_model" {
		kit.Run(s, "accumulator_and_sealer_vs_model", kit.N{Quick: 2500, Thorough: 60000}, c23Gen, c23Check)
	}
	// the same transition on ONE live chain state (StateCommit hands the posterior state over to the
	// prior state, rejected blocks are dropped): zz_verif_c23_live_test.go
	if only == "" || only == "live_chain_state_safrole" {
		kit.Run(s, "live_chain_state_safrole", kit.N{Quick: 4000, Thorough: 80000}, c23lGen, c23lCheck)
	}
}
