package fuzz

// C23, second sub-property: live_chain_state_safrole.
//
// The first sub-property goes through FuzzServiceStub.ImportBlock, where the prior
// state is re-derived (decoded) for every block: slices never have spare capacity
// and nothing is shared between the state a block was judged against and the state
// it produced. A node keeps ONE chain state alive instead: an accepted block's
// posterior state is handed over to the prior state as it is (ChainState.StateCommit,
// no deep copy) and a rejected block is simply dropped. This sub-property drives the
// safrole transition the way a live node does:
//
//	blockchain.ResetInstance(); install the prior safrole state once
//	per block: posterior.SetTau(slot); AddBlock; safrole.OuterUsedSafrole();
//	           accepted -> StateCommit()          rejected -> nothing
//
// over generated histories (several epochs, 0..K tickets per block, slot gaps and
// jumps, injected ticket defects), and compares what the singleton's PRIOR state
// holds with a model kept by the harness (cbView / cbPrepare / cbAccumulate /
// cbOutsideIn / cbFallback of the chain builder: GP 6.13, 6.22-6.26, 6.34, written
// from the formulas). The node's state is read only to be compared.
//
//	accepted  => gamma_a' = first E of sort(new U carried) (carried reset at an epoch
//	             change), strictly increasing, <= E; gamma_s' = Z(gamma_a) | gamma_s |
//	             F(eta'_2, kappa'); tau, eta, kappa, lambda, gamma_k, gamma_z follow 6.13/6.22/6.23;
//	             the winning-tickets marker is Z(gamma_a) exactly when e'=e, m<Y<=m', |gamma_a|=E
//	defective => rejected, AND the prior state re-read from the singleton is exactly
//	             the deep snapshot taken before the block (gamma_a, gamma_s first) and the model
//	valid block after a rejected one => accepted and equal to the model
//
// Everything is a function of the JSON input: the singleton and the ring-verifier
// cache are recreated at the top of every case.

import (
	"bytes"
	"encoding/binary"
	"fmt"
	"sort"

	"github.com/New-JAMneration/JAM-Protocol/internal/blockchain"
	"github.com/New-JAMneration/JAM-Protocol/internal/safrole"
	"github.com/New-JAMneration/JAM-Protocol/internal/types"
	kit "github.com/New-JAMneration/JAM-Protocol/internal/verifkit"
	"pgregory.net/rapid"
)

type c23lStep struct {
	Gap    int    `json:"gap"`              // slot distance (>= 1); see Jump
	Jump   string `json:"jump,omitempty"`   // "", "tail", "epoch", "skip" (as c23Step)
	Combos []int  `json:"combos,omitempty"` // ticket wishes: ring position*N + attempt
	Fresh  []int  `json:"fresh,omitempty"`  // ticket wishes by rank among the tickets that are fresh and would enter the accumulator (mod their number)
	Defect string `json:"defect,omitempty"` // injected ticket defect
	Arg    int    `json:"arg,omitempty"`
	Hv     uint32 `json:"hv"` // seed of the header's entropy source (eta'_0 = H(eta_0 ++ Y(H_v)))
}

type c23lInput struct {
	Start cbGenesis  `json:"start"` // the prior safrole state (offender / ancestry are not used)
	Spare int        `json:"spare"` // spare capacity of the gamma_a slice that is installed (a Go detail no state value depends on)
	Steps []c23lStep `json:"steps"`
}

var c23lDefects = []string{
	"unsorted", "dup_in_block", "bad_attempt", "bad_proof", "in_tail",
	"dup_accumulated", "dup_accumulated", "dup_accumulated", // the one defect that is found AFTER the merge (6.33)
}

func c23lGen(rt *rapid.T) c23lInput {
	in := c23lInput{Start: cbGenGenesis(rt)}
	in.Start.Ancestry, in.Start.Offender = false, -1
	in.Spare = rapid.OneOf(rapid.Just(0), rapid.IntRange(0, 4)).Draw(rt, "spare")
	// dense histories (3 of 4): a block in almost every slot and few jumps, so that accumulators fill up,
	// epochs get sealed by tickets and several blocks of ONE epoch follow each other; sparse ones as in c23Gen
	dense := rapid.IntRange(0, 3).Draw(rt, "dense") > 0
	var n int
	if dense {
		n = rapid.OneOf(rapid.IntRange(8, 24), rapid.IntRange(24, 48)).Draw(rt, "nsteps")
	} else {
		n = rapid.OneOf(rapid.IntRange(6, 20), rapid.IntRange(20, 40)).Draw(rt, "nsteps")
	}
	busy := rapid.IntRange(0, 3).Draw(rt, "busy") > 0
	for i := 0; i < n; i++ {
		var st c23lStep
		jumpOdds := 19
		if dense {
			st.Gap = rapid.OneOf(rapid.Just(1), rapid.Just(1), rapid.Just(1), rapid.Just(1), rapid.Just(1), rapid.IntRange(1, 3)).Draw(rt, "gap")
			jumpOdds = 59
		} else {
			st.Gap = rapid.OneOf(rapid.Just(1), rapid.Just(1), rapid.Just(1), rapid.IntRange(1, 3), rapid.IntRange(1, 9)).Draw(rt, "gap")
		}
		switch rapid.IntRange(0, jumpOdds).Draw(rt, "jump") {
		case 0:
			st.Jump = "tail"
		case 1:
			st.Jump = "epoch"
		case 2:
			st.Jump = "skip"
		}
		if busy || rapid.IntRange(0, 2).Draw(rt, "with_tickets") == 0 {
			if rapid.Bool().Draw(rt, "by_rank") {
				k := rapid.OneOf(rapid.Just(3), rapid.IntRange(1, 3)).Draw(rt, "nfresh")
				for j := 0; j < k; j++ {
					st.Fresh = append(st.Fresh, rapid.IntRange(0, cbV*cbN-1).Draw(rt, "rank"))
				}
			} else {
				k := rapid.OneOf(rapid.Just(3), rapid.IntRange(1, 3), rapid.IntRange(0, 5)).Draw(rt, "nwish")
				for j := 0; j < k; j++ {
					st.Combos = append(st.Combos, rapid.IntRange(0, cbV*cbN-1).Draw(rt, "combo"))
				}
			}
		}
		if rapid.IntRange(0, 3).Draw(rt, "with_defect") == 0 {
			st.Defect = rapid.SampledFrom(c23lDefects).Draw(rt, "defect")
			st.Arg = rapid.IntRange(0, 1<<16-1).Draw(rt, "arg")
			if st.Defect == "in_tail" {
				st.Jump = "tail"
			}
		}
		st.Hv = rapid.Uint32Range(0, 1<<16).Draw(rt, "hv")
		in.Steps = append(in.Steps, st)
	}
	return in
}

// ---- model of the start state (built from the description, not from the node) ----

func c23lVal(ident int) cbVal {
	v := cbIdents[ident].Val
	var c cbVal
	c.B, c.Ed = [32]byte(v.Bandersnatch), [32]byte(v.Ed25519)
	copy(c.Raw[0:32], v.Bandersnatch[:])
	copy(c.Raw[32:64], v.Ed25519[:])
	copy(c.Raw[64:208], v.Bls[:])
	copy(c.Raw[208:336], v.Metadata[:])
	return c
}

func c23lVals(ix []int) ([]cbVal, error) {
	if len(ix) != cbV {
		return nil, fmt.Errorf("validator set needs %d identities", cbV)
	}
	out := make([]cbVal, cbV)
	for i, j := range ix {
		if j < 0 || j >= cbPool {
			return nil, fmt.Errorf("identity %d out of range", j)
		}
		out[i] = c23lVal(j)
	}
	return out, nil
}

func c23lStartModel(g cbGenesis) (*cbView, error) {
	v := &cbView{Tau: g.Tau}
	var err error
	if v.Kappa, err = c23lVals(g.Kappa); err != nil {
		return nil, err
	}
	if v.GammaK, err = c23lVals(g.GammaK); err != nil {
		return nil, err
	}
	if v.Iota, err = c23lVals(g.Iota); err != nil {
		return nil, err
	}
	if v.Lambda, err = c23lVals(g.Lambda); err != nil {
		return nil, err
	}
	if g.Tau > 1<<30 {
		return nil, fmt.Errorf("slot out of range")
	}
	var seed [4]byte
	binary.LittleEndian.PutUint32(seed[:], g.Seed)
	for i := 0; i < 4; i++ {
		v.Eta[i] = cbH([]byte("verif/c26/eta"), seed[:], []byte{byte(i)})
	}
	copy(v.GammaZ[:], c23lCommitment(v.GammaK))
	v.SKeys = cbFallback(v.Eta[2], v.Kappa)
	seen := map[[32]byte]bool{}
	for _, c := range g.Prefill {
		c = ((c % (cbV * cbN)) + cbV*cbN) % (cbV * cbN)
		id := cbTicketID(v.GammaK[c/cbN].B, v.Eta[2], byte(c%cbN))
		if !seen[id] {
			seen[id] = true
			v.GammaA = append(v.GammaA, cbTicket{ID: id, Attempt: byte(c % cbN)})
		}
	}
	cbSortTickets(v.GammaA)
	if len(v.GammaA) > cbE {
		v.GammaA = v.GammaA[:cbE:cbE]
	}
	return v, nil
}

func c23lCommitment(gk []cbVal) []byte { return (&cbPre{GammaK: gk}).commitment() }

// ---- conversions model <-> node types (always fresh storage: nothing is shared) ----

func c23lToVals(vs []cbVal) types.ValidatorsData {
	out := make(types.ValidatorsData, len(vs))
	for i, v := range vs {
		copy(out[i].Bandersnatch[:], v.Raw[0:32])
		copy(out[i].Ed25519[:], v.Raw[32:64])
		copy(out[i].Bls[:], v.Raw[64:208])
		copy(out[i].Metadata[:], v.Raw[208:336])
	}
	return out
}

func c23lFromVals(vs types.ValidatorsData) []cbVal {
	out := make([]cbVal, len(vs))
	for i, v := range vs {
		out[i].B, out[i].Ed = [32]byte(v.Bandersnatch), [32]byte(v.Ed25519)
		copy(out[i].Raw[0:32], v.Bandersnatch[:])
		copy(out[i].Raw[32:64], v.Ed25519[:])
		copy(out[i].Raw[64:208], v.Bls[:])
		copy(out[i].Raw[208:336], v.Metadata[:])
	}
	return out
}

func c23lToBodies(ts []cbTicket, spare int) []types.TicketBody {
	out := make([]types.TicketBody, len(ts), len(ts)+spare)
	for i, t := range ts {
		out[i] = types.TicketBody{ID: types.TicketID(t.ID), Attempt: types.TicketAttempt(t.Attempt)}
	}
	return out
}

func c23lFromBodies(c *kit.Case, what string, ts []types.TicketBody) []cbTicket {
	out := make([]cbTicket, len(ts))
	for i, t := range ts {
		if uint64(t.Attempt) > 255 {
			c.Failf("%s[%d]: attempt %d", what, i, uint64(t.Attempt))
		}
		out[i] = cbTicket{ID: [32]byte(t.ID), Attempt: byte(t.Attempt)}
	}
	return out
}

func c23lInstall(v *cbView, spare int) {
	pr := blockchain.GetInstance().GetPriorStates()
	pr.SetTau(types.TimeSlot(v.Tau))
	var eta types.EntropyBuffer
	for i := range eta {
		eta[i] = types.Entropy(v.Eta[i])
	}
	pr.SetEta(eta)
	pr.SetIota(c23lToVals(v.Iota))
	pr.SetKappa(c23lToVals(v.Kappa))
	pr.SetLambda(c23lToVals(v.Lambda))
	pr.SetGammaK(c23lToVals(v.GammaK))
	pr.SetGammaZ(types.BandersnatchRingCommitment(v.GammaZ))
	keys := make([]types.BandersnatchPublic, len(v.SKeys))
	for i, k := range v.SKeys {
		keys[i] = types.BandersnatchPublic(k)
	}
	pr.SetGammaS(types.TicketsOrKeys{Keys: keys})
	pr.SetGammaA(types.TicketsAccumulator(c23lToBodies(v.GammaA, spare)))
}

// c23lRead makes a deep, harness-owned picture of the singleton's prior safrole state.
func c23lRead(c *kit.Case, when string) *cbView {
	pr := blockchain.GetInstance().GetPriorStates()
	v := &cbView{Tau: uint32(pr.GetTau())}
	eta := pr.GetEta()
	for i := range eta {
		v.Eta[i] = [32]byte(eta[i])
	}
	v.Iota = c23lFromVals(pr.GetIota())
	v.Kappa = c23lFromVals(pr.GetKappa())
	v.Lambda = c23lFromVals(pr.GetLambda())
	v.GammaK = c23lFromVals(pr.GetGammaK())
	v.GammaZ = [144]byte(pr.GetGammaZ())
	gs := pr.GetGammaS()
	if len(gs.Keys) > 0 && len(gs.Tickets) > 0 {
		c.Failf("%s: gamma_s holds %d keys AND %d tickets", when, len(gs.Keys), len(gs.Tickets))
	}
	if len(gs.Keys) > 0 {
		v.SKeys = make([][32]byte, len(gs.Keys))
		for i, k := range gs.Keys {
			v.SKeys[i] = [32]byte(k)
		}
	}
	if len(gs.Tickets) > 0 {
		v.STickets = c23lFromBodies(c, when+": gamma_s", gs.Tickets)
	}
	v.GammaA = c23lFromBodies(c, when+": gamma_a", pr.GetGammaA())
	return v
}

// c23lDiff names the first safrole component in which two pictures differ ("" = equal).
// gamma_a and gamma_s come first: they are the subject of the property.
func c23lDiff(got, want *cbView) string {
	if !c23EqTickets(got.GammaA, want.GammaA) {
		return fmt.Sprintf("gamma_a (%d tickets, expected %d, first difference at index %d)", len(got.GammaA), len(want.GammaA), c23FirstDiff(got.GammaA, want.GammaA))
	}
	switch {
	case (got.SKeys != nil) != (want.SKeys != nil) || (got.STickets != nil) != (want.STickets != nil):
		return fmt.Sprintf("gamma_s (kind: %d keys / %d tickets, expected %d keys / %d tickets)", len(got.SKeys), len(got.STickets), len(want.SKeys), len(want.STickets))
	case len(got.SKeys) != len(want.SKeys):
		return fmt.Sprintf("gamma_s (%d keys, expected %d)", len(got.SKeys), len(want.SKeys))
	case !c23EqTickets(got.STickets, want.STickets):
		return fmt.Sprintf("gamma_s (ticket sequence, first difference at index %d)", c23FirstDiff(got.STickets, want.STickets))
	}
	for i := range want.SKeys {
		if got.SKeys[i] != want.SKeys[i] {
			return fmt.Sprintf("gamma_s (key sequence, index %d)", i)
		}
	}
	if got.Tau != want.Tau {
		return fmt.Sprintf("tau (%d, expected %d)", got.Tau, want.Tau)
	}
	for i := 0; i < 4; i++ {
		if got.Eta[i] != want.Eta[i] {
			return fmt.Sprintf("eta_%d", i)
		}
	}
	switch {
	case !c23EqVals(got.Kappa, want.Kappa):
		return "kappa"
	case !c23EqVals(got.Lambda, want.Lambda):
		return "lambda"
	case !c23EqVals(got.GammaK, want.GammaK):
		return "gamma_k"
	case got.GammaZ != want.GammaZ:
		return "gamma_z"
	case !c23EqVals(got.Iota, want.Iota):
		return "iota"
	}
	return ""
}

// ---- tickets of one block --------------------------------------------------------

func c23lUseful(p *cbPre) []c23Combo {
	fresh := c23Fresh(p)
	if len(p.Carried) < cbE {
		return fresh
	}
	var out []c23Combo
	for _, f := range fresh {
		if bytes.Compare(f.ID[:], p.Carried[cbE-1].ID[:]) < 0 {
			out = append(out, f)
		}
	}
	return out
}

// c23lPlan: explicit ticket list with exactly the requested defect (ok=false: not
// applicable in this state). dup_accumulated is planned here (the re-submitted ticket
// may come with 0..2 fresh useful tickets, the whole list sorted); the others by c23Plan.
func c23lPlan(p *cbPre, st c23lStep) ([]cbTicketSpec, bool) {
	if st.Defect != "dup_accumulated" {
		switch st.Defect {
		case "unsorted", "dup_in_block", "bad_attempt", "bad_proof", "in_tail":
			return c23Plan(p, c23Step{Defect: st.Defect, Arg: st.Arg, Outside: st.Arg&4 != 0})
		}
		return nil, false
	}
	if p.M2 >= cbY || len(p.Carried) == 0 {
		return nil, false
	}
	want := p.Carried[st.Arg%len(p.Carried)]
	dup := -1
	for c := 0; c < cbV*cbN; c++ {
		if p.GammaK[c/cbN].B != ([32]byte{}) && byte(c%cbN) == want.Attempt && cbTicketID(p.GammaK[c/cbN].B, p.Eta123[1], byte(c%cbN)) == want.ID {
			dup = c
			break
		}
	}
	if dup < 0 {
		return nil, false
	}
	list := []c23Combo{{C: dup, ID: want.ID}}
	useful := c23lUseful(p)
	extra := (st.Arg / 16) % 3
	if extra > len(useful) {
		extra = len(useful)
	}
	if extra > 0 {
		off := (st.Arg / 64) % (len(useful) - extra + 1)
		list = append(list, useful[off:off+extra]...)
	}
	sort.Slice(list, func(i, j int) bool { return bytes.Compare(list[i].ID[:], list[j].ID[:]) < 0 })
	specs := make([]cbTicketSpec, len(list))
	for i, x := range list {
		specs[i] = c23Spec(x.C)
	}
	return specs, true
}

// c23lValid is the valid form of a wish list: fresh, not carried, sorted, at most K,
// nothing in the epoch tail and nothing that would not enter the accumulator.
func c23lValid(p *cbPre, combos, ranks []int) ([]types.TicketEnvelope, []cbTicket) {
	if p.M2 >= cbY {
		return nil, nil
	}
	if len(ranks) > 0 {
		combos = append([]int(nil), combos...)
		if useful := c23lUseful(p); len(useful) > 0 {
			for _, r := range ranks {
				combos = append(combos, useful[((r%len(useful))+len(useful))%len(useful)].C)
			}
		}
	}
	type pair struct {
		e types.TicketEnvelope
		t cbTicket
	}
	seen := map[[32]byte]bool{}
	for _, t := range p.Carried {
		seen[t.ID] = true
	}
	var ps []pair
	for _, cb := range combos {
		cb = ((cb % (cbV * cbN)) + cbV*cbN) % (cbV * cbN)
		if p.GammaK[cb/cbN].B == ([32]byte{}) {
			continue
		}
		e, t := cbMintTicket(p, c23Spec(cb))
		if !seen[t.ID] {
			seen[t.ID] = true
			ps = append(ps, pair{e, t})
		}
	}
	sort.SliceStable(ps, func(i, j int) bool { return bytes.Compare(ps[i].t.ID[:], ps[j].t.ID[:]) < 0 })
	if len(ps) > cbK {
		ps = ps[:cbK]
	}
	cand := make([]cbTicket, len(ps))
	for i := range ps {
		cand[i] = ps[i].t
	}
	in := map[[32]byte]bool{}
	for _, a := range cbAccumulate(p.Carried, cand) {
		in[a.ID] = true
	}
	var envs []types.TicketEnvelope
	var tix []cbTicket
	for _, q := range ps {
		if in[q.t.ID] {
			envs = append(envs, q.e)
			tix = append(tix, q.t)
		}
	}
	return envs, tix
}

func c23lEntropySource(x uint32) (out types.BandersnatchVrfSignature) {
	var le [4]byte
	binary.LittleEndian.PutUint32(le[:], x)
	for i := 0; i < 3; i++ {
		h := cbH([]byte("verif/c23l/hv"), le[:], []byte{byte(i)})
		copy(out[32*i:], h[:])
	}
	return out
}

// ---- the check -------------------------------------------------------------------

func c23lCheck(c *kit.Case, in c23lInput) {
	if len(in.Steps) == 0 || len(in.Steps) > 200 {
		return
	}
	if err := cbCheckParams(); err != nil {
		c.Failf("HARNESS: %v", err)
	}
	in.Start.Ancestry, in.Start.Offender = false, -1
	model, err := c23lStartModel(in.Start)
	if err != nil {
		return // malformed description in a replay file
	}
	spare := in.Spare
	if spare < 0 || spare > 64 {
		spare = 0
	}
	// a node without memory of earlier cases
	blockchain.ClearVerifierCache()
	blockchain.ResetInstance()
	cs := blockchain.GetInstance()
	c23lInstall(model, spare)
	if d := c23lDiff(c23lRead(c, "start"), model); d != "" {
		c.Failf("HARNESS: the installed prior state reads back differently: %s", d)
	}
	if len(model.GammaA) > 0 {
		c.Class("live:start:prefilled_accumulator")
	}

	nontrivial := false
	accepted, rejected := 0, 0
	rejEpoch := int64(-1)  // epoch of the slot of the last rejected block since the last accepted one
	rejSince := false      // a block was rejected since the last accepted one
	rejInEpoch := map[uint32]bool{}
	startEpoch := model.Tau / cbE

	for si, st := range in.Steps {
		cst := c23Step{Gap: st.Gap, Jump: st.Jump}
		slot := c23Slot(model, cst)
		p := cbPrepare(model, slot)

		// the block
		var envs []types.TicketEnvelope
		var tix []cbTicket
		defect := ""
		if st.Defect != "" {
			if specs, ok := c23lPlan(p, st); ok {
				defect = st.Defect
				for _, ts := range specs {
					e, t := cbMintTicket(p, ts)
					envs = append(envs, e)
					tix = append(tix, t)
				}
			} else {
				c.Class("live:defect_not_applicable:" + st.Defect)
			}
		}
		if defect == "" {
			envs, tix = c23lValid(p, st.Combos, st.Fresh)
		}
		hv := c23lEntropySource(st.Hv)
		block := types.Block{
			Header:    types.Header{Slot: types.TimeSlot(slot), EntropySource: hv, OffendersMark: types.OffendersMark{}},
			Extrinsic: types.Extrinsic{Tickets: types.TicketsExtrinsic(envs)},
		}
		where := fmt.Sprintf("step %d: block at slot %d (epoch %d->%d, m=%d m'=%d, %d tickets, %d carried)", si, slot, p.E, p.E2, p.M, p.M2, len(tix), len(p.Carried))

		// deep snapshot of the state the block is judged against
		before := c23lRead(c, where+", before")
		if d := c23lDiff(before, model); d != "" {
			c.Failf("%s: the prior state differs from the model before the block is given to the node: %s", where, d)
		}
		spareCap := cap(cs.GetPriorStates().GetGammaA()) > len(before.GammaA) // statistics only

		// the node, as a live node runs it
		cs.GetPosteriorStates().SetTau(types.TimeSlot(slot))
		cs.AddBlock(block)
		ec := safrole.OuterUsedSafrole()
		if cbDebug {
			fmt.Printf("C23L step %d slot=%d (e%d m%d) defect=%q tickets=%d carried=%d spare=%v -> rejected=%v\n", si, slot, p.E2, p.M2, defect, len(tix), len(p.Carried), spareCap, ec != nil)
		}

		if ec != nil {
			// rejected: nothing is committed; the chain continues from the same prior state
			if defect == "" {
				after := ""
				if rejSince {
					after = " (the previous block given to this chain state was a rejected one)"
				}
				c.Failf("%s: valid by the GP 6.x model, REJECTED with safrole error code %d%s", where, int(*ec), after)
			}
			got := c23lRead(c, where+", after its rejection")
			if d := c23lDiff(got, before); d != "" {
				c.Failf("%s with defect %q was rejected but changed the prior state the chain continues from: %s differs from the snapshot taken before the block", where, defect, d)
			}
			if d := c23lDiff(got, model); d != "" {
				c.Failf("%s with defect %q was rejected; the prior state now differs from the model: %s", where, defect, d)
			}
			rejected++
			rejSince, rejEpoch = true, int64(p.E2)
			rejInEpoch[p.E2] = true
			c.Class("live:rejected:" + defect)
			if p.EpochChange {
				c.Class("live:rejected:first_block_of_an_epoch")
			}
			if defect == "dup_accumulated" && spareCap {
				c.Class("live:rejected:dup_accumulated_on_a_gamma_a_slice_with_spare_capacity")
			}
			continue
		}
		if defect != "" {
			c.Failf("%s with ticket defect %q was ACCEPTED", where, defect)
		}

		// accepted: the rest of the STF produces iota' (= iota here); commit like a node
		wantMark := p.E2 == p.E && p.M < cbY && p.M2 >= cbY && len(model.GammaA) == cbE
		tm := cs.GetProcessingBlockPointer().GetTicketsMark()
		switch {
		case wantMark && tm == nil:
			c.Failf("%s: no winning-tickets marker although e'=e, m<Y<=m' and |gamma_a|=E", where)
		case !wantMark && tm != nil:
			c.Failf("%s: a winning-tickets marker was produced (%d entries) outside e'=e, m<Y<=m', |gamma_a|=E", where, len(*tm))
		case wantMark:
			if !c23EqTickets(c23lFromBodies(c, where+": tickets mark", *tm), cbOutsideIn(model.GammaA)) {
				c.Failf("%s: the winning-tickets marker is not the outside-in ordering of gamma_a", where)
			}
			c.Class("live:accepted:tickets_mark")
		}
		cs.GetPosteriorStates().SetIota(cs.GetPriorStates().GetIota())
		cs.StateCommit()
		accepted++

		want := &cbView{Tau: slot, Iota: model.Iota, Kappa: p.Kappa, Lambda: p.Lambda, GammaK: p.GammaK, GammaZ: p.GammaZ,
			SKeys: p.SKeys, STickets: p.STickets}
		want.Eta[0] = cbH(model.Eta[0][:], hv[:32])
		want.Eta[1], want.Eta[2], want.Eta[3] = p.Eta123[0], p.Eta123[1], p.Eta123[2]
		want.GammaA = cbAccumulate(p.Carried, tix)

		got := c23lRead(c, where+", after its commit")
		if len(got.GammaA) > cbE {
			c.Failf("%s: |gamma_a'| = %d > E", where, len(got.GammaA))
		}
		for i := 1; i < len(got.GammaA); i++ {
			if bytes.Compare(got.GammaA[i-1].ID[:], got.GammaA[i].ID[:]) >= 0 {
				after := ""
				if rejSince {
					after = " (accepted right after a rejected block)"
				}
				c.Failf("%s: gamma_a' is not strictly increasing at index %d (duplicate or disorder)%s", where, i, after)
			}
		}
		if d := c23lDiff(got, want); d != "" {
			after := ""
			if rejSince {
				after = "; the previous block given to this chain state was a rejected one"
			}
			c.Failf("%s accepted: %s differs from the model (gamma_a' = first E of sort(new U carried), carried reset at an epoch change; gamma_s' = Z(gamma_a) iff e'=e+1, m>=Y, |gamma_a|=E, gamma_s within the epoch, else F(eta'_2, kappa'))%s", where, d, after)
		}

		// classes / non-trivial rule
		if len(tix) > 0 && len(p.Carried) > 0 {
			c.Class("live:accepted:tickets_into_nonempty_accumulator")
			if rejSince && rejEpoch == int64(p.E2) {
				nontrivial = true
				c.Class("live:accepted:tickets_into_nonempty_accumulator_right_after_a_rejected_block_of_the_epoch")
			} else if rejInEpoch[p.E2] {
				nontrivial = true
				c.Class("live:accepted:tickets_into_nonempty_accumulator_later_in_an_epoch_with_a_rejected_block")
			}
		}
		if rejSince && p.EpochChange && rejEpoch == int64(p.E2) && len(model.GammaA) > 0 {
			c.Class("live:accepted:first_block_of_an_epoch_after_a_rejected_first_block(old_accumulator_nonempty)")
		}
		if rejSince && !p.EpochChange && rejEpoch > int64(p.E2) {
			c.Class("live:accepted:block_of_the_old_epoch_after_a_rejected_block_of_a_later_epoch")
		}
		if len(tix) > 0 && len(p.Carried)+len(tix) > cbE {
			c.Class("live:accepted:accumulator_overflow_truncated")
		}
		if p.EpochChange {
			switch {
			case len(model.GammaA) == cbE && p.E2 == p.E+1 && p.M >= cbY:
				c.Class("live:epoch_change:full_accumulator->ticket_sealing")
			case len(model.GammaA) == cbE:
				c.Class("live:epoch_change:full_accumulator->fallback(m<Y_or_skipped)")
			case p.E2 > p.E+1:
				c.Class("live:epoch_change:skip")
			default:
				c.Class("live:epoch_change:partial_accumulator->fallback")
			}
		} else if p.STickets != nil {
			c.Class("live:accepted:block_inside_a_ticket_sealed_epoch")
		}
		model = want
		rejSince = false
	}
	switch {
	case rejected == 0:
		c.Class("live:hist:rejected=0")
	case rejected < 4:
		c.Class("live:hist:rejected=1-3")
	default:
		c.Class("live:hist:rejected>=4")
	}
	switch d := model.Tau/cbE - startEpoch; {
	case d == 0:
		c.Class("live:hist:epochs=1")
	case d <= 2:
		c.Class("live:hist:epochs=2-3")
	default:
		c.Class("live:hist:epochs>=4")
	}
	_ = accepted
	if nontrivial {
		c.NonTrivial()
	}
}
