package fuzz

// C14: decoding untrusted bytes is safe.
//
// Every Decode / UnmarshalBinary / ReadFrom call runs in the worker process
// (common file) under `ulimit -v`; the worker reports a recovered Go panic and
// the bytes allocated by the call alone (runtime/metrics /gc/heap/allocs:bytes
// before/after); the parent observes a dead worker (fatal "out of memory",
// "stack overflow", os.Exit). Oracle, per call on input s:
//     no panic, no process death, allocated <= 1 MiB + 64·|s|.
// Inputs: (1) valid encodings with ONE length prefix replaced by a huge count
// (positions from the reference serialiser, used only when its bytes equal the
// implementation's), (2) fuzz-protocol frames with hostile frame lengths,
// (3) arbitrary bytes and damaged valid encodings for every decoder,
// (4) valid encodings (the bound must hold there too).

import (
	"encoding/binary"
	"fmt"
	"os"
	"reflect"
	"runtime/debug"
	"strings"
	"testing"
	"time"

	"github.com/New-JAMneration/JAM-Protocol/internal/types"
	"github.com/New-JAMneration/JAM-Protocol/internal/verifref/typegen"
	kit "github.com/New-JAMneration/JAM-Protocol/internal/verifkit"
	"pgregory.net/rapid"
)

type c14Input struct {
	Type string        `json:"type"`
	Mode string        `json:"mode"`
	Seg  bool          `json:"seg"`
	Node *typegen.Node `json:"node,omitempty"`
	// length bomb
	Zone string `json:"zone,omitempty"`
	Sel  uint64 `json:"sel,omitempty"`
	Val  uint64 `json:"val,omitempty"`
	// raw input (frames, random bytes); for "damaged" inputs Flips/Cut edit the valid encoding
	Raw   []byte   `json:"raw,omitempty"`
	Flips []uint64 `json:"flips,omitempty"`
	Disc  []uint64 `json:"disc,omitempty"` // discriminator octets (option / boolean / variant tag) set to chosen values
	Cut   int      `json:"cut,omitempty"` // -1: no cut
}

var (
	c14Both   []*cdcCodec
	c14All    []*cdcCodec // everything with a decode direction
	c14Worker *cdcWorker
	c14Zones  = []string{"panic", "panic", "panic", "panic", "measurable", "measurable", "measurable", "measurable", "measurable",
		"design", "design", "plus_one"}
	// Inputs that END the worker process (an allocation between the ulimit and 2^48
	// bytes: unrecoverable "out of memory") cost a process restart each. They are
	// drawn with probability c14LethalPerMille/1000 (divided by 12 in the thorough
	// tier so that their absolute number stays in the hundreds).
	c14LethalDiv = 1
)

const c14LethalPerMille = 12

func c14Lethal(rt *rapid.T) bool {
	return cdcUniform(rt, "lethal", 1000*c14LethalDiv) < c14LethalPerMille
}

const c14Slack = 1 << 20
const c14Factor = 64

func c14GenBase(rt *rapid.T, list []*cdcCodec) c14Input {
	in := c14Input{Mode: "tiny", Cut: -1}
	if cdcUniform(rt, "modek", 80) == 0 {
		in.Mode = "full"
	}
	in.Type = list[cdcUniform(rt, "type", len(list))].Name
	in.Seg = rapid.Bool().Draw(rt, "seg")
	return in
}

func c14GenNode(rt *rapid.T, in *c14Input, list []*cdcCodec) {
	typegen.SetMode(in.Mode)
	in.Node = cdcGenNode(rt, cdcFind(list, in.Type))
	typegen.SetMode("tiny")
}

func c14GenBomb(rt *rapid.T) c14Input {
	in := c14GenBase(rt, c14Both)
	c14GenNode(rt, &in, c14Both)
	in.Zone = c14Zones[cdcUniform(rt, "zone", len(c14Zones))]
	if c14Lethal(rt) {
		in.Zone = []string{"fatal", "design_lethal"}[cdcUniform(rt, "lethalk", 2)]
	}
	in.Sel = rapid.Uint64().Draw(rt, "sel")
	in.Val = rapid.Uint64().Draw(rt, "val")
	return in
}

// c14BombCount: the count written into the chosen length prefix.
func c14BombCount(zone string, val uint64, m *typegen.Mark) uint64 {
	es := uint64(m.ElemSize)
	if es == 0 {
		es = 1
	}
	if m.IsMap && (zone == "design_lethal" || zone == "fatal") && val%4 != 0 {
		// make(map, hint) with a hint of billions builds millions of small tables until the
		// ulimit is hit: tens of seconds per case. Kept, but rare.
		zone = "measurable"
	}
	switch zone {
	case "panic": // n*size > 2^48 (maxAlloc) or n > maxInt: runtime.makeslice panics (recoverable)
		return []uint64{1 << 49, 1 << 56, 1 << 63, ^uint64(0), 1<<63 - 1}[val%5]
	case "measurable": // 2..6 MiB requested for an input of a few hundred bytes (bound: 1 MiB + 64 x input)
		target := uint64(2<<20) + (val%5)*(1<<20)
		return target/es + 1
	case "fatal": // between the ulimit and maxAlloc: the runtime throws "out of memory" (not recoverable)
		return []uint64{(4 << 30) / es, (1 << 40) / es}[val%2] + 1
	case "design": // the list of DESIGN.md, the two values that make runtime.makeslice panic
		return []uint64{1 << 56, ^uint64(0)}[val%2]
	case "design_lethal": // the list of DESIGN.md, the two values that usually end the process
		return []uint64{1 << 31, 1<<32 - 1}[val%2]
	default: // announced count just above what is there
		return m.Val + 1 + val%3
	}
}

func c14Verdict(c *kit.Case, cdc *cdcCodec, s []byte, seg types.HashSegmentMap, mode string, r cdcResp, what string) {
	bound := uint64(c14Slack + c14Factor*len(s))
	obs, msg := "", ""
	switch {
	case r.Died != "":
		obs, msg = "death", "the process ended: "+r.Died
		c.Class("outcome_process_death")
	case r.Panic != "":
		obs, msg = "panic", "runtime panic: "+r.Panic
		c.Class("outcome_panic")
	case r.Alloc > bound:
		obs, msg = "alloc", fmt.Sprintf("allocated %d bytes for a %d-byte input (bound %d)", r.Alloc, len(s), bound)
		c.Class("outcome_over_allocation")
	case r.Err != "":
		c.Class("outcome_error_returned")
		return
	default:
		c.Class("outcome_value_returned")
		return
	}
	detail := fmt.Sprintf("%s: %s; %s; input %s", cdc.Name, what, msg, cdcHex(s))
	if id, d := c14Known(cdc, s, seg, obs, msg); id != "" {
		c.Known(id, d+" | "+detail)
	}
	for _, lax := range []string{"", "impl+alloc", "workitem+alloc", "storage+alloc", "operand+alloc"} {
		n, rj := cdcRefDecode(cdc, s, seg, lax)
		detail += fmt.Sprintf(" | reference[%s]: consumed %d, %s", lax, n, rj.String())
	}
	c.Failf("%s", detail)
}

// c14Known: classifiers. The reference parser says what is wrong with the
// input; the observed outcome says how the implementation reacted.
func c14Known(cdc *cdcCodec, s []byte, seg types.HashSegmentMap, obs, msg string) (string, string) {
	name := cdcShort(cdc.Name)
	_, rej := cdcRefDecode(cdc, s, seg, "")
	isMake := (obs == "panic" && (strings.Contains(msg, "makeslice") || strings.Contains(msg, "makechan") || strings.Contains(msg, "makemap"))) ||
		obs == "alloc" || (obs == "death" && (strings.Contains(msg, "out of memory") || strings.Contains(msg, "no answer within")))
	switch {
	case name == "AuthorizerHash" && obs == "death" && strings.Contains(msg, "stack overflow"):
		return "KF-C14-6", "AuthorizerHash.Decode recurses without bound on every input (KF-C11-4)"
	case name == "OperandOrDeferredTransfer" && obs == "panic" && strings.Contains(msg, "nil pointer") && len(s) >= 1 && s[0] <= 1:
		return "KF-C14-5", "OperandOrDeferredTransfer.Decode dereferences the unallocated arm (KF-C11-6)"
	case cdc.Name == "fuzz.Features" && len(s) < 4 && obs == "panic" && strings.Contains(msg, "index out of range"):
		return "KF-C14-7", "Features.UnmarshalBinary indexes data[0..3] without a length check"
	case strings.HasPrefix(cdc.Name, "fuzz.") && obs == "panic" && strings.Contains(msg, "slice bounds out of range") &&
		rej != nil && rej.Reason == typegen.RCountTooBig && strings.HasSuffix(rej.Path, ".Error"):
		return "KF-C14-4", "ErrorMessage.UnmarshalBinary: bytesRead+int(length) overflows, the bounds check passes and the slice expression panics; reference: " + rej.String()
	case cdc.Name == "fuzz.Message" && isMake && rej != nil && (rej.Reason == "frame" || (rej.Reason == typegen.RTruncated && strings.HasSuffix(rej.Path, ".payload"))):
		return "KF-C14-2", "Message.ReadFrom allocates encodedMessageLength-1 bytes before reading them (length 0 wraps to 2^32-1); reference: " + rej.String()
	case strings.HasPrefix(cdc.Name, "fuzz.") && isMake && rej != nil && rej.Reason == typegen.RCountTooBig && strings.HasSuffix(rej.Path, ".AppName"):
		return "KF-C14-3", "PeerInfo.UnmarshalBinary allocates the announced name length before reading; reference: " + rej.String()
	case isMake && rej != nil && rej.Reason == typegen.RCountTooBig && name != "Ancestry" && !strings.HasSuffix(rej.Path, ".Ancestry"):
		// (Ancestry.Decode is the one sequence decoder that checks its count before make)
		return "KF-C14-1", "length prefix larger than the remaining input reaches make(): " + rej.String()
	}
	if isMake {
		for _, lax := range []string{"impl+alloc", "workitem+alloc", "storage+alloc", "operand+alloc"} {
			if _, lr := cdcRefDecode(cdc, s, seg, lax); lr != nil && lr.Reason == typegen.RCountTooBig && name != "Ancestry" && !strings.HasSuffix(lr.Path, ".Ancestry") {
				return "KF-C14-1", "length prefix larger than the remaining input reaches make(), at the position reached under the implementation's own (tolerant) grammar, mode '" + lax + "': " + lr.String()
			}
		}
	}
	return "", ""
}

func c14Encode(c *kit.Case, in c14Input, list []*cdcCodec) (*cdcCodec, []byte, types.HashSegmentMap, []typegen.Mark) {
	cdc := cdcFind(list, in.Type)
	if cdc == nil || in.Node == nil {
		return nil, nil, nil, nil
	}
	v0 := typegen.Build(cdc.Type, in.Node, 0)
	seg := cdcSegMap(v0, in.Seg)
	enc0, err := cdc.Enc(cdcPtr(v0), seg, false)
	if err != nil {
		c.Failf("%s: Encode of an in-domain value failed: %v", cdc.Name, err)
	}
	ref, marks, lerr := typegen.Layout(v0, seg, cdcLayoutHook)
	if lerr != nil || string(ref) != string(enc0) {
		marks = nil
	}
	return cdc, enc0, seg, marks
}

func c14BombCheck(c *kit.Case, in c14Input) {
	typegen.SetMode(in.Mode)
	defer typegen.SetMode("tiny")
	cdc, enc0, seg, marks := c14Encode(c, in, c14Both)
	if cdc == nil {
		return
	}
	var lens []*typegen.Mark
	for i := range marks {
		if marks[i].Kind == typegen.MarkLen {
			lens = append(lens, &marks[i])
		}
	}
	if len(lens) == 0 {
		c.Class("no_length_prefix_in_value")
		r := c14Worker.call(&cdcReq{Codec: cdc.Name, Mode: in.Mode, Seg: cdcSegKeys(seg), Data: enc0})
		c14Verdict(c, cdc, enc0, seg, in.Mode, r, "valid encoding")
		return
	}
	idx := int(in.Sel % uint64(len(lens)))
	m := lens[idx]
	n := c14BombCount(in.Zone, in.Val, m)
	s := append(append(append([]byte{}, enc0[:m.Off]...), typegen.Compact(n)...), enc0[m.Off+m.Len:]...)
	c.Class("zone_" + in.Zone)
	if idx > 0 {
		c.NonTrivial() // the decoder has to get past an earlier length prefix first
		c.Class("bomb_behind_first_length_prefix")
	}
	r := c14Worker.call(&cdcReq{Codec: cdc.Name, Mode: in.Mode, Seg: cdcSegKeys(seg), Data: s})
	c14Verdict(c, cdc, s, seg, in.Mode, r, fmt.Sprintf("length prefix %s at offset %d (element size %d) set to %d", m.Path, m.Off, m.ElemSize, n))
}

// ------------------------------------------------------------------ frames

func c14GenFrame(rt *rapid.T) c14Input {
	in := c14Input{Type: "fuzz.Message", Mode: "tiny", Cut: -1}
	var l uint32
	if cdcUniform(rt, "lethal", 100*c14LethalDiv) < 4 {
		// 4 GiB / 2 GiB requests: the worker dies (frame length 0 wraps to 2^32-1)
		l = []uint32{0, 0, 0xFFFFFFFF, 0x80000000, 0xC0000000}[cdcUniform(rt, "lethalk", 5)]
	} else {
		switch rapid.IntRange(0, 7).Draw(rt, "lk") {
		case 0:
			l = 1
		case 1, 2, 3:
			l = uint32(2<<20) + uint32(rapid.IntRange(0, 4).Draw(rt, "lm"))*(1<<20)
		case 4:
			l = uint32(rapid.IntRange(1<<19, 2<<20).Draw(rt, "lr"))
		default:
			l = uint32(rapid.IntRange(1, 64).Draw(rt, "ls"))
		}
	}
	payload := rapid.SliceOfN(rapid.Byte(), 0, 48).Draw(rt, "payload")
	tag := rapid.SampledFrom([]byte{0, 1, 2, 3, 4, 5, 255, 6, 0x7F}).Draw(rt, "tag")
	raw := make([]byte, 4, 5+len(payload))
	binary.LittleEndian.PutUint32(raw, l)
	if rapid.IntRange(0, 9).Draw(rt, "hastag") != 0 {
		raw = append(raw, tag)
		raw = append(raw, payload...)
	}
	in.Raw = raw
	return in
}

func c14RawCheck(c *kit.Case, in c14Input) {
	typegen.SetMode(in.Mode)
	defer typegen.SetMode("tiny")
	cdc := cdcFind(c14All, in.Type)
	if cdc == nil {
		return
	}
	s := in.Raw
	seg := types.HashSegmentMap{}
	what := "raw bytes"
	if in.Node != nil {
		// damaged valid encoding
		_, enc0, sg, marks := c14Encode(c, in, c14All)
		seg = sg
		s = append([]byte{}, enc0...)
		// discriminators first (positions come from the layout of the undamaged encoding): the first
		// value past the valid ones, its neighbours, another valid arm, and the extremes
		var ds []*typegen.Mark
		for i := range marks {
			if m := &marks[i]; (m.Kind == typegen.MarkOpt || m.Kind == typegen.MarkBool || m.Kind == typegen.MarkTag) && m.Off < len(s) {
				ds = append(ds, m)
			}
		}
		for _, f := range in.Disc {
			if len(ds) == 0 {
				break
			}
			m := ds[int((f>>8)%uint64(len(ds)))]
			valid := 2
			if m.Kind == typegen.MarkTag {
				valid = m.Valid
			}
			cands := []int{valid, valid + 1, valid - 1, 0, 1, 2, 0x7F, 0x80, 0xFE, 0xFF}
			s[m.Off] = byte(cands[int(f&0xFF)%len(cands)])
			c.Class("damaged_discriminator")
		}
		for _, f := range in.Flips {
			if len(s) > 0 {
				s[int(f>>8)%len(s)] ^= byte(f) | 1
			}
		}
		if in.Cut >= 0 && len(s) > 0 {
			s = s[:in.Cut%len(s)]
		}
		what = fmt.Sprintf("valid encoding with %d discriminator edits, %d byte flips, cut=%d", len(in.Disc), len(in.Flips), in.Cut)
		c.Class("damaged_valid_encoding")
	}
	if _, rej := cdcRefDecode(cdc, s, seg, ""); rej == nil || rej.Off > 0 {
		c.NonTrivial() // the input is well-formed beyond its first item
	}
	r := c14Worker.call(&cdcReq{Codec: cdc.Name, Mode: in.Mode, Seg: cdcSegKeys(seg), Data: s})
	c14Verdict(c, cdc, s, seg, in.Mode, r, what)
}

func c14GenRandom(rt *rapid.T) c14Input {
	in := c14GenBase(rt, c14All)
	if rapid.Bool().Draw(rt, "damaged") && cdcFind(c14Both, in.Type) != nil {
		c14GenNode(rt, &in, c14All)
		in.Flips = rapid.SliceOfN(rapid.Uint64(), 0, 3).Draw(rt, "flips")
		if rapid.Bool().Draw(rt, "disck") {
			in.Disc = rapid.SliceOfN(rapid.Uint64(), 1, 2).Draw(rt, "disc")
			if rapid.Bool().Draw(rt, "disconly") {
				in.Flips = nil
			}
		}
		if rapid.Bool().Draw(rt, "cutk") {
			in.Cut = rapid.IntRange(0, 1<<20).Draw(rt, "cut")
		}
		return in
	}
	in.Mode = "tiny"
	// arbitrary bytes, biased to the bytes that steer decoders: 0, 1, 0xFF, small counts
	n := rapid.IntRange(0, 96).Draw(rt, "n")
	raw := make([]byte, n)
	g := rapid.OneOf(rapid.Byte(), rapid.SampledFrom([]byte{0, 0, 1, 1, 2, 0x7F, 0x80, 0xFF, 0xFF}))
	for i := range raw {
		raw[i] = g.Draw(rt, "b")
	}
	in.Raw = raw
	return in
}

func c14GenValid(rt *rapid.T) c14Input {
	in := c14GenBase(rt, c14Both)
	c14GenNode(rt, &in, c14Both)
	return in
}

func c14ValidCheck(c *kit.Case, in c14Input) {
	typegen.SetMode(in.Mode)
	defer typegen.SetMode("tiny")
	cdc, enc0, seg, _ := c14Encode(c, in, c14Both)
	if cdc == nil {
		return
	}
	if typegen.NonTrivial(in.Node) {
		c.NonTrivial()
	}
	r := c14Worker.call(&cdcReq{Codec: cdc.Name, Mode: in.Mode, Seg: cdcSegKeys(seg), Data: enc0})
	c14Verdict(c, cdc, enc0, seg, in.Mode, r, "valid encoding")
}

// ---- frame reader history: what a frame may allocate does not depend on earlier frames.
// A large frame is received in full first (same process, as on a long-lived connection); then a
// short frame that merely ANNOUNCES a large payload must stay within the same per-input bound.
type c14HistInput struct {
	SizeKB   int    `json:"size_kb"`  // payload of the first, complete frame
	Announce uint32 `json:"announce"` // announced length of the second frame
	Have     []byte `json:"have"`     // octets of the second frame that really arrive after the type
	Type     byte   `json:"type"`
}

func c14GenHist(rt *rapid.T) c14HistInput {
	in := c14HistInput{
		SizeKB: rapid.SampledFrom([]int{1200, 1500, 2048, 3000}).Draw(rt, "size_kb"),
		Have:   rapid.SliceOfN(rapid.Byte(), 0, 64).Draw(rt, "have"),
		Type:   rapid.SampledFrom([]byte{0, 1, 2, 3, 4, 5, 255, 9}).Draw(rt, "type"),
	}
	base := uint32(in.SizeKB)*1024 + 16
	in.Announce = rapid.OneOf(rapid.Uint32Range(base, base+4096), rapid.Uint32Range(base, 1<<31), rapid.Just(^uint32(0))).Draw(rt, "announce")
	return in
}

func c14HistCheck(c *kit.Case, in c14HistInput) {
	if in.SizeKB <= 0 || in.SizeKB > 8192 || len(in.Have) > 4096 {
		return
	}
	cdc := cdcFind(c14All, "fuzz.Message")
	if cdc == nil {
		return
	}
	big, err := (&Message{Type: MessageType_ErrorMessage, Error: &ErrorMessage{Error: strings.Repeat("x", in.SizeKB*1024)}}).MarshalBinary()
	if err != nil {
		c.Failf("cannot build the large frame: %v", err)
	}
	r1 := c14Worker.call(&cdcReq{Codec: cdc.Name, Mode: "tiny", Data: big})
	if r1.Died != "" || r1.Panic != "" || r1.Err != "" {
		c.Failf("a complete %d-KiB error-message frame was not accepted: died=%q panic=%q err=%q", in.SizeKB, r1.Died, r1.Panic, r1.Err)
	}
	c14Verdict(c, cdc, big, types.HashSegmentMap{}, "tiny", r1, "complete large frame")
	s2 := make([]byte, 4, 5+len(in.Have))
	binary.LittleEndian.PutUint32(s2, in.Announce)
	s2 = append(append(s2, in.Type), in.Have...)
	if int(in.Announce) > len(in.Have)+1 {
		c.NonTrivial() // the second frame announces more than arrives
	}
	r2 := c14Worker.call(&cdcReq{Codec: cdc.Name, Mode: "tiny", Data: s2})
	c14Verdict(c, cdc, s2, types.HashSegmentMap{}, "tiny", r2, fmt.Sprintf("short frame announcing %d octets right after a complete %d-KiB frame on the same process", in.Announce, in.SizeKB))
}

func TestVerif_C14(t *testing.T) {
	if os.Getenv(cdcWorkerEnv) != "" {
		cdcWorkerMain()
		return
	}
	s := kit.Begin(t, "C14")
	defer s.Finish()
	debug.SetGCPercent(400)
	typegen.SetMode("tiny")
	var all []*cdcCodec
	c14Both, all = cdcLoadCodecs(s)
	for _, cdc := range all {
		if cdc.HasDec {
			c14All = append(c14All, cdc)
		}
	}
	if s.Thorough() {
		c14LethalDiv = 12
	}
	c14Worker = cdcNewWorker("TestVerif_C14")
	c14Worker.Single = s.Replaying()
	c14Worker.Timeout = 40 * time.Second
	defer c14Worker.stop()
	kit.Run(s, "length_bombs", kit.N{Quick: 10000, Thorough: 80000}, c14GenBomb, c14BombCheck)
	kit.Run(s, "hostile_frames", kit.N{Quick: 2000, Thorough: 20000}, c14GenFrame, c14RawCheck)
	kit.Run(s, "arbitrary_and_damaged_bytes", kit.N{Quick: 8000, Thorough: 80000}, c14GenRandom, c14RawCheck)
	kit.Run(s, "valid_encodings_within_bound", kit.N{Quick: 2000, Thorough: 20000}, c14GenValid, c14ValidCheck)
	kit.Run(s, "frame_after_large_frame", kit.N{Quick: 80, Thorough: 1500}, c14GenHist, c14HistCheck)
	s.Note("decode worker restarts in this shard: %d; native `go test -fuzz` targets are not run (no driver support)", c14Worker.Deaths)
	_ = reflect.TypeOf
}
