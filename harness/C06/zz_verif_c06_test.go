package PVM

// C06: standard program initialisation layout (GP A.36-A.39), independent
// computation of the expected page map and registers.

import (
	"bytes"
	"fmt"
	"testing"

	kit "github.com/New-JAMneration/JAM-Protocol/internal/verifkit"
	"pgregory.net/rapid"
)

type c06Input struct {
	OLen  int    `json:"o"`
	WLen  int    `json:"w"`
	Z     int    `json:"z"`
	S     int    `json:"s"`
	CLen  int    `json:"c"`
	ALen  int    `json:"a"`
	Seed  uint8  `json:"seed"`
	Tail  []byte `json:"tail"`  // bytes appended after the code (malformed)
	Trunc int    `json:"trunc"` // bytes cut from the end (malformed), 0 = none
}

var c06Sizes = []int{0, 1, 2, 4095, 4096, 4097, 8191, 8192, 65535, 65536, 65537, 70000}
var c06ArgSizes = []int{0, 1, 4095, 4096, 4097, 8192, 8193, 65536, 1 << 20, 1 << 24}

func c06Gen(rt *rapid.T) c06Input {
	pick := func(label string, set []int, max int) int {
		if rapid.IntRange(0, 3).Draw(rt, label+"_k") == 0 {
			return rapid.IntRange(0, max).Draw(rt, label+"_r")
		}
		return rapid.SampledFrom(set).Draw(rt, label)
	}
	in := c06Input{
		OLen: pick("o", c06Sizes, 70000),
		WLen: pick("w", c06Sizes, 70000),
		Z:    rapid.SampledFrom([]int{0, 0, 1, 2, 15, 16, 17}).Draw(rt, "z"),
		S:    pick("s", c06Sizes, 70000),
		CLen: rapid.SampledFrom([]int{0, 1, 7, 100}).Draw(rt, "c"),
		ALen: pick("a", c06ArgSizes[:8], 20000),
		Seed: uint8(rapid.IntRange(1, 255).Draw(rt, "seed")),
	}
	switch rapid.IntRange(0, 39).Draw(rt, "big") {
	case 0:
		in.S = rapid.SampledFrom([]int{1<<24 - 1, 1 << 20, 1<<24 - 4096}).Draw(rt, "sbig")
	case 1:
		in.Z = rapid.SampledFrom([]int{255, 4096, 65535}).Draw(rt, "zbig")
	case 2:
		in.ALen = rapid.SampledFrom([]int{1 << 20, 1<<24 - 1, 1 << 24}).Draw(rt, "abig")
	case 3:
		in.OLen = rapid.SampledFrom([]int{1 << 20, 1<<24 - 1}).Draw(rt, "obig")
	}
	switch rapid.IntRange(0, 9).Draw(rt, "malformed") {
	case 0:
		in.Trunc = rapid.IntRange(1, 12).Draw(rt, "trunc")
	case 1:
		in.Tail = rapid.SliceOfN(rapid.Byte(), 1, 5).Draw(rt, "tail")
	}
	return in
}

func c06Bytes(n int, seed uint8, salt byte) []byte {
	b := make([]byte, n)
	for i := range b {
		b[i] = byte(i)*seed + byte(i>>8)*3 + salt
		if b[i] == 0 {
			b[i] = salt | 1
		}
	}
	return b
}

func c06P(x uint64) uint64 { return (x + 4095) / 4096 * 4096 }
func c06Zq(x uint64) uint64 { return (x + 65535) / 65536 * 65536 }

type c06Zone struct {
	start, dataEnd, end uint64 // [start,dataEnd) data, [dataEnd,end) zero; page-granular end
	data               []byte
	access             MemoryAccess
	name               string
}

// c06Check: the drawn blob, and for every second case a history on one buffer: a second blob of the
// same total length (|o| and |w| exchanged, other z and s) is written over the first one in place and
// initialised from there. Y(p, a) is a function of the octets of p, whatever buffer holds them.
func c06Check(c *kit.Case, in c06Input) {
	var buf []byte
	c06CheckOne(c, in, &buf)
	if in.Seed%2 == 0 && in.Trunc == 0 && len(in.Tail) == 0 && buf != nil {
		in2 := in
		in2.OLen, in2.WLen = in.WLen, in.OLen
		in2.Z = (in.Z + 2) % 65536
		in2.S = (in.S + 4096) % (1 << 24)
		in2.Seed = in.Seed ^ 0x5A
		if in2.Seed == 0 {
			in2.Seed = 1
		}
		c.Class("same_buffer_second_blob")
		c06CheckOne(c, in2, &buf)
	}
}

func c06CheckOne(c *kit.Case, in c06Input, reuse *[]byte) {
	if in.OLen < 0 || in.WLen < 0 || in.S < 0 || in.Z < 0 || in.CLen < 0 || in.ALen < 0 ||
		in.OLen >= 1<<24 || in.WLen >= 1<<24 || in.S >= 1<<24 || in.Z >= 1<<16 || in.ALen > 1<<24 {
		return
	}
	o := c06Bytes(in.OLen, in.Seed, 0x11)
	w := c06Bytes(in.WLen, in.Seed, 0x22)
	code := c06Bytes(in.CLen, in.Seed, 0x33)
	a := c06Bytes(in.ALen, in.Seed, 0x44)
	var p []byte
	p = append(p, c03ishLE(uint64(in.OLen), 3)...)
	p = append(p, c03ishLE(uint64(in.WLen), 3)...)
	p = append(p, c03ishLE(uint64(in.Z), 2)...)
	p = append(p, c03ishLE(uint64(in.S), 3)...)
	p = append(p, o...)
	p = append(p, w...)
	p = append(p, c03ishLE(uint64(in.CLen), 4)...)
	p = append(p, code...)
	malformed := false
	if in.Trunc > 0 {
		if in.Trunc > len(p) {
			return
		}
		p = p[:len(p)-in.Trunc]
		malformed = true
		c.Class("truncated")
	} else if len(in.Tail) > 0 {
		p = append(p, in.Tail...)
		malformed = true
		c.Class("trailing_bytes")
	}

	var gotCode Instructions
	var regs Registers
	var mem Memory
	var er ExitReason
	var pIn, aIn []byte
	func() {
		defer func() {
			if r := recover(); r != nil {
				c.Failf("Go runtime panic in SingleInitializer: %v", r)
			}
		}()
		if *reuse != nil && len(*reuse) == len(p) {
			pIn = *reuse
			copy(pIn, p)
		} else {
			pIn = append([]byte(nil), p...)
			*reuse = pIn
		}
		aIn = append([]byte(nil), a...)
		gotCode, regs, mem, er = SingleInitializer(StandardCodeFormat(pIn), Argument(aIn))
	}()
	if malformed {
		if er == ExitContinue {
			if len(in.Tail) > 0 {
				c.Known("KF-C06-trailing-bytes", "a standard program blob followed by extra bytes is accepted")
			}
			c.Failf("malformed blob (%d bytes cut, %d extra) accepted by SingleInitializer", in.Trunc, len(in.Tail))
		}
		return
	}
	if in.OLen%4096 != 0 || in.WLen%4096 != 0 || in.S%4096 != 0 || in.ALen >= 4096 {
		c.NonTrivial()
	}
	if er != ExitContinue {
		c.Failf("well-formed blob (o=%d w=%d z=%d s=%d a=%d) rejected", in.OLen, in.WLen, in.Z, in.S, in.ALen)
	}
	if !bytes.Equal(gotCode, code) {
		c.Failf("returned code differs from the blob's code section")
	}
	const ZZq, ZIq = uint64(1 << 16), uint64(1 << 24)
	ol, wl, s, al, z := uint64(in.OLen), uint64(in.WLen), uint64(in.S), uint64(in.ALen), uint64(in.Z)
	rwBase := 2*ZZq + c06Zq(ol)
	stackEnd := uint64(1<<32) - 2*ZZq - ZIq
	argBase := uint64(1<<32) - ZZq - ZIq
	zones := []c06Zone{
		{ZZq, ZZq + ol, ZZq + c06P(ol), o, MemoryReadOnly, "read-only data"},
		{rwBase, rwBase + wl, rwBase + c06P(wl) + z*4096, w, MemoryReadWrite, "read-write data + heap pages"},
		{stackEnd - c06P(s), stackEnd - c06P(s), stackEnd, nil, MemoryReadWrite, "stack"},
		{argBase, argBase + al, argBase + c06P(al), a, MemoryReadOnly, "argument"},
	}
	expected := map[uint32]int{} // page -> zone index
	for zi, zn := range zones {
		for addr := zn.start; addr < zn.end; addr += 4096 {
			expected[uint32(addr/4096)] = zi
		}
	}
	// every expected page present with the right access and bytes
	for zi, zn := range zones {
		for addr := zn.start; addr < zn.end; addr += 4096 {
			pn := uint32(addr / 4096)
			pg, ok := mem.Pages[pn]
			if !ok || pg == nil {
				c.Failf("%s: page %#x (address %#x) is not mapped", zn.name, pn, addr)
			}
			if pg.Access != zn.access {
				c.Failf("%s: page %#x has access %d, want %d", zn.name, pn, pg.Access, zn.access)
			}
			if len(pg.Value) != 4096 {
				c.Failf("%s: page %#x has %d bytes", zn.name, pn, len(pg.Value))
			}
			want := make([]byte, 4096)
			if addr < zn.dataEnd {
				off := addr - zn.start
				copy(want, zn.data[off:])
			}
			if !bytes.Equal(pg.Value, want) {
				i := 0
				for i < 4096 && pg.Value[i] == want[i] {
					i++
				}
				c.Failf("%s: page %#x content differs at offset %d: got %#x want %#x", zn.name, pn, i, pg.Value[i], want[i])
			}
			_ = zi
		}
	}
	// nothing else may be accessible
	for pn, pg := range mem.Pages {
		if _, ok := expected[pn]; ok || pg == nil {
			continue
		}
		if pg.Access != MemoryInaccessible {
			if uint64(pn)*4096 >= argBase {
				c.Known("KF-C06-arg-extra-pages", fmt.Sprintf("page %#x beyond the argument zone is mapped (|a|=%d)", pn, in.ALen))
			}
			c.Failf("page %#x (address %#x) is mapped with access %d but lies in no zone of the GP layout (o=%d w=%d z=%d s=%d a=%d)",
				pn, uint64(pn)*4096, pg.Access, in.OLen, in.WLen, in.Z, in.S, in.ALen)
		}
	}
	var wantRegs Registers
	wantRegs[0] = 1<<32 - 1<<16
	wantRegs[1] = stackEnd
	wantRegs[7] = argBase
	wantRegs[8] = al
	if regs != wantRegs {
		c.Failf("initial registers %x, want %x", regs, wantRegs)
	}
	// heap bookkeeping used by sbrk: starts right after the read-write zone, limited by the stack
	if mem.heapPointer != rwBase+c06P(wl)+z*4096 {
		c.Failf("heap pointer %#x, want %#x", mem.heapPointer, rwBase+c06P(wl)+z*4096)
	}
	// every page is its own 4096 octets: a mark written into one page shows in no other page
	for pn, pg := range mem.Pages {
		if pg != nil && len(pg.Value) >= 16 {
			pg.Value[8], pg.Value[9], pg.Value[10], pg.Value[11] = byte(pn), byte(pn>>8), byte(pn>>16), 0xC6
		}
	}
	for pn, pg := range mem.Pages {
		if pg != nil && len(pg.Value) >= 16 {
			if pg.Value[8] != byte(pn) || pg.Value[9] != byte(pn>>8) || pg.Value[10] != byte(pn>>16) || pg.Value[11] != 0xC6 {
				c.Failf("page %#x does not hold the mark written into it (it holds %x): two pages of the initialised map share memory (o=%d w=%d z=%d s=%d a=%d)",
					pn, pg.Value[8:12], in.OLen, in.WLen, in.Z, in.S, in.ALen)
			}
		}
	}
	// last: the guest's pages must be the guest's own memory. After scribbling over every page the
	// caller's blob and argument must still be what was passed in (no page may alias its source).
	for _, pg := range mem.Pages {
		if pg != nil {
			for i := range pg.Value {
				pg.Value[i] ^= 0xEE
			}
		}
	}
	if !bytes.Equal(pIn, p) || !bytes.Equal(aIn, a) {
		c.Failf("writing to the initialised guest pages modified the caller's program blob or argument (a page aliases its source; o=%d w=%d a=%d)", in.OLen, in.WLen, in.ALen)
	}
}

func c03ishLE(v uint64, n int) []byte {
	b := make([]byte, n)
	for i := range b {
		b[i] = byte(v >> (8 * uint(i)))
	}
	return b
}

func TestVerif_C06(t *testing.T) {
	s := kit.Begin(t, "C06")
	defer s.Finish()
	// boundary cross product (sampled in quick, full in thorough)
	if !kit.EnumSub(s, "boundary_cross_product", c06Check) {
		idx := 0
		zs := []int{0, 1, 16}
	loop:
		for _, o := range c06Sizes {
			for _, w := range c06Sizes {
				for _, st := range c06Sizes {
					for _, z := range zs {
						for _, a := range c06ArgSizes[:8] {
							idx++
							if idx%s.NShards != s.Shard {
								continue
							}
							if !s.Thorough() && (idx/s.NShards)%9 != 0 {
								continue
							}
							in := c06Input{OLen: o, WLen: w, Z: z, S: st, CLen: 3, ALen: a, Seed: uint8(idx%250 + 1)}
							if !kit.Each(s, "boundary_cross_product", in, c06Check) {
								break loop
							}
						}
					}
				}
			}
		}
	}
	kit.Run(s, "random_sizes", kit.N{Quick: 3000, Thorough: 200000}, c06Gen, c06Check)
}
