#!/usr/bin/env bash
# C30 prebuild: compile the REPOSITORY'S OWN reed-solomon-ffi/src/lib.rs (copied
# from the current repo tree, so edits to it are picked up) as a Rust staticlib
# against the stand-in crate /verif/standin/rs-simd-stub (the third-party crate
# reed-solomon-simd is not available offline). Output:
#   $VERIF_BUILD_DIR/c30rs/target/release/libreed_solomon_ffi.a
# which the Go wrapper links through  CGO_LDFLAGS=-L<that dir>  (spec build_env).
# Nothing is written into the repository; everything lives under /verif/.build
# (git-ignored). Runs fully offline: the generated manifest has a single `path`
# dependency and the stand-in crate has none.
#
# Called by /verif/check via the spec key "prebuild" with VERIF_DIR,
# VERIF_REPO_DIR (honours VERIF_REPO=<worktree>) and VERIF_BUILD_DIR set; can be
# run by hand too:  bash harness/C30/build_rs.sh
set -euo pipefail

VERIF_DIR="${VERIF_DIR:-$(cd "$(dirname "${BASH_SOURCE[0]}")/../.." && pwd)}"
REPO_DIR="${VERIF_REPO_DIR:-${VERIF_REPO:-/repo}}"
BUILD_DIR="${VERIF_BUILD_DIR:-$VERIF_DIR/.build}"
FFI="$REPO_DIR/pkg/erasure_coding/reed-solomon-ffi"
STUB="$VERIF_DIR/standin/rs-simd-stub"
OUT="$BUILD_DIR/c30rs"

[ -f "$FFI/src/lib.rs" ] || { echo "build_rs: $FFI/src/lib.rs not found" >&2; exit 3; }
[ -f "$STUB/Cargo.toml" ] || { echo "build_rs: stand-in crate $STUB missing" >&2; exit 3; }
command -v cargo >/dev/null 2>&1 || { echo "build_rs: cargo not found" >&2; exit 3; }

mkdir -p "$OUT/src"
# one build at a time (the cache dir is shared between invocations)
exec 9>"$OUT/.lock"
flock 9

# code under test: verbatim copy of the repository's lib.rs
cp "$FFI/src/lib.rs" "$OUT/src/lib.rs"

# Manifest: same package name / crate-type / edition as the repository's
# Cargo.toml; the only change is that the reed-solomon-simd dependency is the
# local stand-in (path) instead of the registry crate "3.0.1".
cat > "$OUT/Cargo.toml" <<TOML
[package]
name = "reed-solomon-ffi"
version = "0.1.0"
edition = "2021"

[lib]
crate-type = ["staticlib"]

[dependencies]
reed-solomon-simd = { path = "$STUB" }

[workspace]
TOML

export CARGO_NET_OFFLINE=true
export CARGO_TARGET_DIR="$OUT/target"
( cd "$OUT" && cargo build --release --offline --quiet )

LIB="$OUT/target/release/libreed_solomon_ffi.a"
[ -f "$LIB" ] || { echo "build_rs: $LIB was not produced" >&2; exit 4; }

# The Go linker step is keyed on flags, not on the content of an external .a:
# drop a previously linked test binary whenever the library content changed so
# that `go test -c` relinks against the fresh library.
NEW="$(sha256sum "$LIB" | cut -d' ' -f1) $(sha256sum "$OUT/src/lib.rs" | cut -d' ' -f1)"
OLD="$(cat "$OUT/.stamp" 2>/dev/null || true)"
if [ "$NEW" != "$OLD" ]; then
  rm -f "$BUILD_DIR/bin/C30.test" "$BUILD_DIR/bin/C30.race.test"
  echo "$NEW" > "$OUT/.stamp"
fi
echo "build_rs: $LIB (lib.rs from $FFI)"
