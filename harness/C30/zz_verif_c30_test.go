package erasurecoding

// C30: erasure-coding recovery.
//
// Code under test: the cgo wrapper erasure_coding.go + the repository's own
// reed-solomon-ffi/src/lib.rs (padding, 2-byte chunking, transposition,
// shard-major flattening, index mapping data/recovery, error codes), built by
// harness/C30/build_rs.sh against a STAND-IN for the third-party crate
// reed-solomon-simd (see /verif/standin/rs-simd-stub): the codec arithmetic is
// NOT the real one and is outside the claim; the stand-in is a systematic MDS
// code with the real crate's API and documented error behaviour.
//
// Oracle (inverse / round trip, independent of the code under test): for a
// non-empty blob d and parameters (k, parity)
//     DecodeShards(select_S(EncodeDataShards(d))) == d ‖ 0^pad,
//     pad = (-len d) mod 2k           (documented: "pad with zeros to 684 bytes")
// for every / random k-subsets S of the k+parity shards, the shards presented in
// any order together with their indices.

import (
	"bytes"
	"fmt"
	"sort"
	"testing"

	kit "github.com/New-JAMneration/JAM-Protocol/internal/verifkit"
	"pgregory.net/rapid"
)

const (
	c30TinyK, c30TinyParity = 2, 4
	c30FullK, c30FullParity = 342, 681
)

func c30Params(mode string) (k, parity int, ok bool) {
	switch mode {
	case "tiny":
		return c30TinyK, c30TinyParity, true
	case "full":
		return c30FullK, c30FullParity, true
	}
	return 0, 0, false
}

// c30Pad: the documented padding — zeros up to the next multiple of 2k bytes.
func c30Pad(d []byte, k int) []byte {
	unit := 2 * k
	n := (len(d) + unit - 1) / unit * unit
	out := make([]byte, n)
	copy(out, d)
	return out
}

// ---------------------------------------------------------------- generators

func c30GenSize(rt *rapid.T, k int) int {
	unit := 2 * k
	size := rapid.OneOf(
		rapid.SampledFrom([]int{1, 2, 3, k - 1, k, k + 1, unit - 1, unit, unit + 1}),
		rapid.Custom(func(rt *rapid.T) int {
			m := rapid.IntRange(2, 8).Draw(rt, "mult")
			d := rapid.IntRange(-1, 1).Draw(rt, "delta")
			return unit*m + d
		}),
		rapid.IntRange(1, 3*unit),
		rapid.IntRange(1024, 8192),
	).Draw(rt, "size")
	if size < 1 {
		size = 1
	}
	return size
}

func c30GenData(rt *rapid.T, k int) []byte {
	size := c30GenSize(rt, k)
	kind := rapid.SampledFrom([]string{"random", "random", "random", "random", "zero_tail", "zeros", "ff", "ramp"}).Draw(rt, "content")
	switch kind {
	case "zeros":
		return make([]byte, size)
	case "ff":
		return bytes.Repeat([]byte{0xff}, size)
	case "ramp":
		d := make([]byte, size)
		for i := range d {
			d[i] = byte(i*7 + i/251)
		}
		return d
	}
	d := rapid.SliceOfN(rapid.Byte(), size, size).Draw(rt, "data")
	if kind == "zero_tail" {
		z := rapid.IntRange(1, size).Draw(rt, "ztail")
		for i := size - z; i < size; i++ {
			d[i] = 0
		}
	}
	return d
}

func c30Seq(a, b int) []int { // a..b-1
	s := make([]int, 0, b-a)
	for i := a; i < b; i++ {
		s = append(s, i)
	}
	return s
}

// c30Pick draws m distinct elements of pool in random order.
func c30Pick(rt *rapid.T, pool []int, m int, label string) []int {
	p := rapid.Permutation(pool).Draw(rt, label)
	return append([]int(nil), p[:m]...)
}

// --------------------------------------------------------------- round trip

type c30TinyInput struct {
	Data []byte `json:"data"`
}

type c30FullInput struct {
	Kind   string `json:"kind"`
	Data   []byte `json:"data"`
	Subset []int  `json:"subset"` // k distinct shard indices, presentation order
}

func c30GenTiny(rt *rapid.T) c30TinyInput {
	return c30TinyInput{Data: c30GenData(rt, c30TinyK)}
}

func c30GenFull(rt *rapid.T) c30FullInput {
	k, parity := c30FullK, c30FullParity
	n := k + parity
	kind := rapid.SampledFrom([]string{"mixed", "mixed", "mixed", "all_parity", "all_parity", "all_data",
		"one_parity", "one_data", "parity_window", "tail_parity"}).Draw(rt, "subsetKind")
	var sub []int
	switch kind {
	case "all_data":
		sub = c30Pick(rt, c30Seq(0, k), k, "perm")
	case "all_parity":
		sub = c30Pick(rt, c30Seq(k, n), k, "perm")
	case "one_parity":
		sub = c30Pick(rt, c30Seq(0, k), k-1, "perm")
		sub = append(sub, rapid.IntRange(k, n-1).Draw(rt, "p"))
		sub = c30Pick(rt, sub, k, "shuffle")
	case "one_data":
		sub = c30Pick(rt, c30Seq(k, n), k-1, "perm")
		sub = append(sub, rapid.IntRange(0, k-1).Draw(rt, "d"))
		sub = c30Pick(rt, sub, k, "shuffle")
	case "parity_window":
		start := rapid.IntRange(k, n-k).Draw(rt, "start")
		sub = c30Pick(rt, c30Seq(start, start+k), k, "perm")
	case "tail_parity":
		sub = c30Pick(rt, c30Seq(n-k, n), k, "perm")
	default:
		sub = c30Pick(rt, c30Seq(0, n), k, "perm")
	}
	return c30FullInput{Kind: kind, Data: c30GenData(rt, k), Subset: sub}
}

// c30Encode runs EncodeDataShards and checks the documented shape.
func c30Encode(c *kit.Case, data []byte, k, parity int) (shards [][]byte, padded []byte) {
	orig := append([]byte(nil), data...)
	shards, err := EncodeDataShards(data, k, parity)
	if err != nil {
		c.Failf("EncodeDataShards(len=%d, k=%d, parity=%d) failed: %v", len(data), k, parity, err)
	}
	if !bytes.Equal(orig, data) {
		c.Failf("EncodeDataShards modified its input blob")
	}
	padded = c30Pad(data, k)
	if len(shards) != k+parity {
		c.Failf("EncodeDataShards(len=%d, k=%d, parity=%d) returned %d shards, want the total number %d", len(data), k, parity, len(shards), k+parity)
	}
	want := len(padded) / k
	for i, s := range shards {
		if len(s) != want {
			c.Failf("shard %d has %d bytes, want %d (= padded length %d / %d data shards)", i, len(s), want, len(padded), k)
		}
	}
	// each returned shard is the caller's own (a guarantor frames and ships them one by one):
	// appending to one shard or writing within its capacity must not change any other shard,
	// nor the input blob
	snap := make([][]byte, len(shards))
	for i, s := range shards {
		snap[i] = append([]byte(nil), s...)
	}
	for i := range shards {
		full := shards[i][:cap(shards[i])]
		for j := len(shards[i]); j < len(full); j++ {
			full[j] ^= 0x5A
		}
		_ = append(shards[i], 0xA5, 0xA5)
	}
	for i := range shards {
		if !bytes.Equal(shards[i], snap[i]) {
			c.Failf("shard %d of %d changed when its neighbours were appended to (the returned shards share memory; first difference at byte %d)", i, len(shards), c30FirstDiff(shards[i], snap[i]))
		}
	}
	if !bytes.Equal(orig, data) {
		c.Failf("appending to the returned shards modified the input blob")
	}
	return shards, padded
}

func c30DecodeSubset(c *kit.Case, shards [][]byte, padded []byte, subset []int, k, parity int) {
	ss := len(shards[0])
	flat := make([]byte, 0, len(subset)*ss)
	for _, i := range subset {
		flat = append(flat, shards[i]...)
	}
	idx := append([]int(nil), subset...)
	got, err := DecodeShards(flat, idx, k, parity, ss)
	if err != nil {
		c.Failf("DecodeShards from %d distinct shards %v (k=%d parity=%d shardSize=%d) failed: %v", len(subset), c30Short(subset), k, parity, ss, err)
	}
	if !bytes.Equal(got, padded) {
		c.Failf("round trip mismatch (k=%d parity=%d data=%d bytes shardSize=%d subset=%v): got %d bytes %s, want data‖zero padding = %d bytes %s (first difference at byte %d)",
			k, parity, len(padded), ss, c30Short(subset), len(got), c30Hex(got), len(padded), c30Hex(padded), c30FirstDiff(got, padded))
	}
}

func c30Short(s []int) string {
	if len(s) <= 12 {
		return fmt.Sprint(s)
	}
	return fmt.Sprintf("%v…(%d indices)", s[:12], len(s))
}

func c30Hex(b []byte) string {
	if len(b) <= 24 {
		return fmt.Sprintf("%x", b)
	}
	return fmt.Sprintf("%x…", b[:24])
}

func c30FirstDiff(a, b []byte) int {
	for i := 0; i < len(a) && i < len(b); i++ {
		if a[i] != b[i] {
			return i
		}
	}
	if len(a) != len(b) {
		if len(a) < len(b) {
			return len(a)
		}
		return len(b)
	}
	return -1
}

func c30SizeClasses(c *kit.Case, n, k int) (multiChunk bool) {
	unit := 2 * k
	switch {
	case n < k:
		c.Class("size_lt_k")
	case n < unit:
		c.Class("size_k_to_2k-1")
	case n == unit:
		c.Class("size_eq_2k")
	case n%unit == 0:
		c.Class("size_multiple_of_2k")
	case n%unit == 1:
		c.Class("size_multiple_plus_1")
	case n%unit == unit-1:
		c.Class("size_multiple_minus_1")
	default:
		c.Class("size_other_multi_chunk")
	}
	if n%unit != 0 {
		c.Class("needs_padding")
	}
	return n > unit
}

// tiny: (k, parity) = (2, 4): EVERY ordered selection of 2 distinct shards out of 6
// (all 15 subsets, both presentation orders).
func c30TinyCheck(c *kit.Case, in c30TinyInput) {
	if len(in.Data) == 0 {
		return
	}
	k, parity := c30TinyK, c30TinyParity
	n := k + parity
	multi := c30SizeClasses(c, len(in.Data), k)
	if multi {
		c.NonTrivial() // every case contains subsets with parity shards; data spans >= 2 chunks
	}
	shards, padded := c30Encode(c, in.Data, k, parity)
	for a := 0; a < n; a++ {
		for b := 0; b < n; b++ {
			if a != b {
				c30DecodeSubset(c, shards, padded, []int{a, b}, k, parity)
			}
		}
	}
}

// full: (k, parity) = (342, 681): one random 342-subset in random order.
func c30FullCheck(c *kit.Case, in c30FullInput) {
	k, parity := c30FullK, c30FullParity
	n := k + parity
	if len(in.Data) == 0 || len(in.Subset) != k {
		return
	}
	seen := map[int]bool{}
	nParity := 0
	for _, i := range in.Subset {
		if i < 0 || i >= n || seen[i] {
			return // malformed replay
		}
		seen[i] = true
		if i >= k {
			nParity++
		}
	}
	multi := c30SizeClasses(c, len(in.Data), k)
	switch {
	case nParity == 0:
		c.Class("subset_all_data")
	case nParity == k:
		c.Class("subset_all_parity")
	case nParity == 1:
		c.Class("subset_one_parity")
	case nParity == k-1:
		c.Class("subset_one_data")
	default:
		c.Class("subset_mixed")
	}
	if !sort.IntsAreSorted(in.Subset) {
		c.Class("subset_shuffled")
	}
	if nParity >= 1 && multi {
		c.NonTrivial()
	}
	shards, padded := c30Encode(c, in.Data, k, parity)
	c30DecodeSubset(c, shards, padded, in.Subset, k, parity)
}

// -------------------------------------------------------------- bad inputs
//
// Robustness clause of DESIGN §3 C30 (outside the literal property statement,
// which only speaks about k distinct well-formed shards): wrong-size, duplicate
// index, out-of-range index and too-few inputs must come back as an error — or,
// where k distinct correct shards are still present, as the correct data — and
// must never kill the process or panic.

type c30BadInput struct {
	Mode       string `json:"mode"`
	Kind       string `json:"kind"`
	Data       []byte `json:"data"`
	Indices    []int  `json:"indices"`     // claimed indices, presentation order
	ShardSize  int    `json:"shard_size"`  // shardSize argument (true size S is recomputed by the check)
	FlattenLen int    `json:"flatten_len"` // flatten = concat(true shards of Indices) cut / zero-extended to this length
}

func c30GenBad(rt *rapid.T) c30BadInput {
	mode := rapid.SampledFrom([]string{"tiny", "tiny", "tiny", "tiny", "full"}).Draw(rt, "mode")
	k, parity, _ := c30Params(mode)
	n := k + parity
	unit := 2 * k
	size := rapid.OneOf(rapid.IntRange(1, 3*unit+1), rapid.SampledFrom([]int{1, k, unit, unit + 1, 2 * unit, 4*unit - 1})).Draw(rt, "size")
	data := rapid.SliceOfN(rapid.Byte(), size, size).Draw(rt, "data")
	S := len(c30Pad(data, k)) / k
	kind := rapid.SampledFrom([]string{"too_few", "dup_short", "dup_extra", "bad_index", "ragged_flatten",
		"short_flatten", "double_shard_size", "odd_shard_size", "even_wrong_shard_size", "extra_shards",
		"empty_data", "empty_indices", "empty_flatten"}).Draw(rt, "kind")
	in := c30BadInput{Mode: mode, Kind: kind, Data: data, ShardSize: S}
	good := c30Pick(rt, c30Seq(0, n), k, "subset") // k distinct valid indices
	switch kind {
	case "too_few":
		m := rapid.IntRange(1, k-1).Draw(rt, "m")
		in.Indices = good[:m]
		in.FlattenLen = m * S
	case "dup_short":
		in.Indices = good
		a := rapid.IntRange(0, k-1).Draw(rt, "a")
		b := rapid.IntRange(0, k-2).Draw(rt, "b")
		if b >= a {
			b++
		}
		in.Indices[a] = in.Indices[b]
		in.FlattenLen = k * S
	case "dup_extra":
		dup := good[rapid.IntRange(0, k-1).Draw(rt, "which")]
		pos := rapid.IntRange(0, k).Draw(rt, "pos")
		in.Indices = append(append(append([]int(nil), good[:pos]...), dup), good[pos:]...)
		in.FlattenLen = (k + 1) * S
	case "bad_index":
		in.Indices = good
		bad := rapid.SampledFrom([]int{n, n + 1, n + 1000, -1, -n, 1 << 31, 1 << 62}).Draw(rt, "bad")
		in.Indices[rapid.IntRange(0, k-1).Draw(rt, "a")] = bad
		in.FlattenLen = k * S
	case "ragged_flatten":
		in.Indices = good
		in.FlattenLen = k*S - rapid.IntRange(1, S-1).Draw(rt, "cut")
	case "short_flatten":
		in.Indices = good
		in.FlattenLen = (k - rapid.IntRange(1, k-1).Draw(rt, "drop")) * S
	case "double_shard_size":
		in.Indices = good
		in.ShardSize = 2 * S
		in.FlattenLen = k * S
	case "odd_shard_size":
		in.Indices = good
		in.ShardSize = S + rapid.SampledFrom([]int{-1, 1}).Draw(rt, "d")
		in.FlattenLen = k * in.ShardSize
	case "even_wrong_shard_size":
		in.Indices = good
		in.ShardSize = S + 2
		if S > 2 && rapid.Bool().Draw(rt, "smaller") {
			in.ShardSize = S - 2
		}
		in.FlattenLen = k * in.ShardSize
	case "extra_shards":
		m := rapid.SampledFrom([]int{k + 1, k + 2, k + 3, n}).Draw(rt, "m")
		in.Indices = c30Pick(rt, c30Seq(0, n), m, "bigsubset")
		in.FlattenLen = m * S
	case "empty_data":
		in.Data = []byte{}
	case "empty_indices":
		in.Indices = []int{}
		in.FlattenLen = k * S
	case "empty_flatten":
		in.Indices = good
		in.FlattenLen = 0
	}
	return in
}

func c30BadCheck(c *kit.Case, in c30BadInput) {
	k, parity, ok := c30Params(in.Mode)
	if !ok {
		return
	}
	n := k + parity
	c.Class("bad_" + in.Kind)
	if len(in.Data) == 0 {
		// documented: the wrapper refuses an empty blob
		if sh, err := EncodeDataShards(in.Data, k, parity); err == nil {
			c.Failf("EncodeDataShards(empty blob) returned %d shards and no error", len(sh))
		}
		if fl, err := EncodeData(in.Data, k, parity); err == nil {
			c.Failf("EncodeData(empty blob) returned %d bytes and no error", len(fl))
		}
		return
	}
	// domain of this sub-property: positive shardSize argument, sane lengths
	if in.ShardSize <= 0 || in.FlattenLen < 0 || in.FlattenLen > 1<<22 || len(in.Indices) > 4*n || len(in.Data) > 1<<20 {
		return
	}
	shards, padded := c30Encode(c, in.Data, k, parity)
	S := len(shards[0])
	m := len(in.Indices)
	// flatten: true shard bytes of each claimed index (an arbitrary real shard for an
	// index that names no shard), cut / zero-extended to FlattenLen. The slice is
	// carved out of a larger harness-owned buffer so that an implementation that
	// reads len(indices)*shardSize bytes regardless of len(flatten) stays inside
	// Go-owned memory (deterministic outcome instead of undefined behaviour).
	var cat []byte
	for _, i := range in.Indices {
		j := i
		if j < 0 || j >= n {
			j = ((j % n) + n) % n
		}
		cat = append(cat, shards[j]...)
	}
	need := m * in.ShardSize
	if in.FlattenLen > need {
		need = in.FlattenLen
	}
	backing := bytes.Repeat([]byte{0xA5}, need+64)
	flat := backing[:in.FlattenLen:in.FlattenLen]
	for i := range flat {
		flat[i] = 0
	}
	copy(flat, cat)
	idx := append([]int(nil), in.Indices...)

	// what the caller really supplied
	wellFormed := in.ShardSize == S && in.FlattenLen >= m*S // every listed index comes with its true shard
	distinctValid, dup, invalid := 0, false, false
	seen := map[int]bool{}
	for _, i := range in.Indices {
		switch {
		case i < 0 || i >= n:
			invalid = true
		case seen[i]:
			dup = true
		default:
			seen[i] = true
			distinctValid++
		}
	}
	shortRead := in.FlattenLen > 0 && m > 0 && in.FlattenLen%in.ShardSize == 0 && in.ShardSize%2 == 0 && in.FlattenLen < m*in.ShardSize
	mustErr := in.FlattenLen == 0 || m == 0 || in.FlattenLen%in.ShardSize != 0 || in.ShardSize%2 != 0 ||
		in.FlattenLen < m*in.ShardSize || (wellFormed && distinctValid < k)

	got, err := DecodeShards(flat, idx, k, parity, in.ShardSize)

	if err != nil {
		c.Class("bad_outcome_error")
		if wellFormed && !dup && !invalid && m == k && distinctValid == k {
			c.Failf("DecodeShards failed on k distinct well-formed shards: %v", err)
		}
		return
	}
	c.Class("bad_outcome_success")
	if mustErr {
		detail := fmt.Sprintf("DecodeShards(kind=%s mode=%s len(flatten)=%d, %d indices %v, shardSize=%d; true shard size %d) returned %d bytes and NO error",
			in.Kind, in.Mode, in.FlattenLen, m, c30Short(in.Indices), in.ShardSize, S, len(got))
		if shortRead && !(wellFormed && distinctValid < k) {
			// the only reason an error is due is len(flatten) < len(indices)*shardSize:
			// the wrapper does not check it and lib.rs reads past the end of the slice
			c.Known("KF-C30-1", detail+" — flatten is shorter than len(indices)*shardSize; rs_decode read beyond the caller's slice")
		}
		c.Failf("%s", detail)
	}
	if wellFormed && !invalid {
		// >= k distinct correct shards were supplied and the call reports success:
		// the output must be the padded blob
		if !bytes.Equal(got, padded) {
			c.Failf("DecodeShards(kind=%s) reported success on %d distinct correct shards (%d listed) but returned wrong data: got %d bytes %s want %d bytes %s",
				in.Kind, distinctValid, m, len(got), c30Hex(got), len(padded), c30Hex(padded))
		}
		c.Class("bad_success_correct_data")
	}
	// ShardSize even but different from the true size with a consistent length:
	// nothing can be demanded except "no crash".
}

// ------------------------------------------------------------------- driver

func TestVerif_C30(t *testing.T) {
	s := kit.Begin(t, "C30")
	defer s.Finish()
	s.EnableSentinel()
	s.Note("codec arithmetic is a stand-in (standin/rs-simd-stub, MDS over GF(2^16)); code under test = erasure_coding.go + the repository's lib.rs")
	kit.Run(s, "tiny_every_subset_roundtrip", kit.N{Quick: 4000, Thorough: 80000}, c30GenTiny, c30TinyCheck)
	kit.Run(s, "full_random_subset_roundtrip", kit.N{Quick: 1600, Thorough: 24000}, c30GenFull, c30FullCheck)
	kit.Run(s, "malformed_inputs_rejected", kit.N{Quick: 2400, Thorough: 40000}, c30GenBad, c30BadCheck)
}
