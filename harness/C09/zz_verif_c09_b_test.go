package PVM

// C09 (b): storage footprint and threshold accounting over sequences of
// write / solicit / forget / new / provide (+ read / query / info) host calls.
//
// The accumulate context is built the way Psi_A builds it and the calls go
// through the AccumulateOmegas table (so the G-wrapped variants are used) on a
// guest memory set up with the package's Memory type. Op sequences are DATA.
//
// Oracle (only what the property states), after every call:
//  (1) for every account of the context: recorded Items / Bytes equal the
//      footprint recomputed from its ACTUAL entries (storage dict, lookup dict
//      and the entries still sitting in the raw key-value pool):
//      2 items + 81+z octets per lookup entry, 1 item + 34+|k|+|v| per storage entry;
//  (2) `info` reports max(0, B_S + B_I*items + B_L*octets - gratis) for it;
//  (3) for a write of a non-empty value and for a solicit, FULL is returned
//      exactly when the threshold of the would-be account (computed from the
//      actual entries before the call) exceeds the balance, and on FULL the
//      observation of all accounts is unchanged.
// Whether forget/provide/new return OK or an error is NOT judged here (C07/C08).

import (
	"encoding/binary"
	"fmt"
	"math/big"
	"sort"

	"github.com/New-JAMneration/JAM-Protocol/internal/types"
	"github.com/New-JAMneration/JAM-Protocol/internal/utilities/merklization"
	kit "github.com/New-JAMneration/JAM-Protocol/internal/verifkit"
	"golang.org/x/crypto/blake2b"
	"pgregory.net/rapid"
)

// ------------------------------------------------------------------ input

type c09Store struct {
	KeyIdx  int  `json:"key_idx"`
	ValLen  int  `json:"val_len"`
	ValFill byte `json:"val_fill"`
	Raw     bool `json:"raw"` // entry sits in the raw key-value pool, not in the dict
}

type c09Lkp struct {
	HashIdx int      `json:"hash_idx"`
	Z       uint32   `json:"z"`
	Slots   []uint32 `json:"slots"`
	Raw     bool     `json:"raw"`
}

type c09Acct struct {
	ID      uint32     `json:"id"`
	Storage []c09Store `json:"storage"`
	Lookups []c09Lkp   `json:"lookups"`
	Gratis  uint64     `json:"gratis"`
	Balance uint64     `json:"balance"`
}

type c09Op struct {
	Kind    string `json:"kind"` // write read solicit forget query provide new info
	KeyIdx  int    `json:"key_idx,omitempty"`
	ValLen  int    `json:"val_len,omitempty"`
	ValFill byte   `json:"val_fill,omitempty"`
	Fit     int    `json:"fit,omitempty"` // 0 explicit length; 1 threshold' == balance; 2 threshold' == balance+1
	HashIdx int    `json:"hash_idx,omitempty"`
	Z       uint32 `json:"z,omitempty"`
	ZHi     uint32 `json:"z_hi,omitempty"` // upper half of the 64-bit length register (solicit / forget / query)
	BlobIdx int    `json:"blob_idx,omitempty"`
	Target  int    `json:"target,omitempty"` // 0 self, 1 other, 2 absent, 3 last created
	NewL    uint32 `json:"new_l,omitempty"`
	NewG    uint64 `json:"new_g,omitempty"`
	NewM    uint64 `json:"new_m,omitempty"`
	NewF    uint64 `json:"new_f,omitempty"`
	NewI    uint64 `json:"new_i,omitempty"`
}

type c09SeqInput struct {
	Keys      [][]byte `json:"keys"`
	Blobs     [][]byte `json:"blobs"`
	Timeslot  uint32   `json:"timeslot"`
	Manager   bool     `json:"manager"`
	Registrar bool     `json:"registrar"`
	Caller    c09Acct  `json:"caller"`
	Other     c09Acct  `json:"other"`
	Ops       []c09Op  `json:"ops"`
}

const c09ExtraHashes = 3
const c09AbsentID = 4000000000

func (in *c09SeqInput) nHashes() int { return len(in.Blobs) + c09ExtraHashes }

func (in *c09SeqInput) hash(idx int) types.OpaqueHash {
	if idx < len(in.Blobs) {
		return types.OpaqueHash(blake2b.Sum256(in.Blobs[idx]))
	}
	var h types.OpaqueHash
	for j := range h {
		h[j] = byte(0xA0 + idx - len(in.Blobs))
	}
	return h
}

func c09Value(n int, fill byte) []byte {
	v := make([]byte, n)
	for i := range v {
		v[i] = fill + byte(i)
	}
	return v
}

func c09SlotsBytes(slots []uint32) []byte {
	out := make([]byte, 0, 4*len(slots))
	for _, s := range slots {
		out = binary.LittleEndian.AppendUint32(out, s)
	}
	return out
}

func c09CanonStorageKey(k []byte) string { return "s" + string(k) }
func c09CanonLookupKey(h types.OpaqueHash, z uint32) string {
	return "l" + string(h[:]) + string(binary.LittleEndian.AppendUint32(nil, z))
}

// footprint of a canonical entry set
func c09Footprint(ent map[string]string) (items uint64, octets *big.Int) {
	octets = big.NewInt(0)
	for k, v := range ent {
		if k[0] == 's' {
			items++
			octets.Add(octets, c09Big(34+uint64(len(k)-1)+uint64(len(v))))
		} else {
			items += 2
			z := binary.LittleEndian.Uint32([]byte(k[33:37]))
			octets.Add(octets, c09Big(81+uint64(z)))
		}
	}
	return
}

// ------------------------------------------------------------------ generator

func c09GenSeq(rt *rapid.T) c09SeqInput {
	var in c09SeqInput
	// key pool
	nk := rapid.IntRange(1, 5).Draw(rt, "n_keys")
	seenK := map[string]bool{}
	for len(in.Keys) < nk {
		kl := rapid.OneOf(rapid.SampledFrom([]int{0, 1, 2, 31, 32, 33, 64}), rapid.IntRange(0, 64)).Draw(rt, "klen")
		k := rapid.SliceOfN(rapid.Byte(), kl, kl).Draw(rt, "key")
		if seenK[string(k)] {
			if kl == 0 {
				nk--
			}
			continue
		}
		seenK[string(k)] = true
		in.Keys = append(in.Keys, k)
	}
	nb := rapid.IntRange(1, 3).Draw(rt, "n_blobs")
	for j := 0; j < nb; j++ {
		bl := rapid.IntRange(0, 40).Draw(rt, "blob_len")
		b := rapid.SliceOfN(rapid.Byte(), bl, bl).Draw(rt, "blob")
		b = append(b, byte(j)) // distinct by construction
		in.Blobs = append(in.Blobs, b)
	}
	in.Timeslot = rapid.OneOf(rapid.SampledFrom([]uint32{0, 5, 31, 32, 33, 34, 40, 100, 1000, 1<<32 - 1}), rapid.Uint32Range(0, 200)).Draw(rt, "timeslot")
	in.Manager = rapid.Bool().Draw(rt, "manager")
	in.Registrar = rapid.Bool().Draw(rt, "registrar")
	d := uint32(types.UnreferencedPreimageTimeslots)

	slotGen := rapid.Custom(func(rt *rapid.T) uint32 {
		t := in.Timeslot
		cands := []uint32{0, t}
		if t >= d {
			cands = append(cands, t-d)
			if t-d >= 1 {
				cands = append(cands, t-d-1)
			}
			if t-d >= 5 {
				cands = append(cands, t-d-5)
			}
			cands = append(cands, t-d+1)
		}
		return rapid.OneOf(rapid.SampledFrom(cands), rapid.Uint32Range(0, 50)).Draw(rt, "slot")
	})

	type pair struct {
		h int
		z uint32
	}
	var pairs []pair
	genZ := func(hidx int) uint32 {
		gens := []*rapid.Generator[uint32]{rapid.Uint32Range(0, 100), rapid.SampledFrom([]uint32{0, 1, 1 << 16, 1 << 31, 1<<32 - 1})}
		if hidx < len(in.Blobs) {
			l := uint32(len(in.Blobs[hidx]))
			gens = append(gens, rapid.Just(l), rapid.Just(l), rapid.Just(l))
		}
		return rapid.OneOf(gens...).Draw(rt, "z")
	}
	genAcct := func(label string, id uint32) c09Acct {
		a := c09Acct{ID: id}
		items, octets := uint64(0), uint64(0)
		for ki := range in.Keys {
			if rapid.IntRange(0, 1).Draw(rt, label+"_has_key") == 0 {
				continue
			}
			s := c09Store{KeyIdx: ki, ValLen: rapid.IntRange(1, 120).Draw(rt, "val_len"), ValFill: rapid.Byte().Draw(rt, "val_fill"),
				Raw: rapid.IntRange(0, 2).Draw(rt, "raw") == 0}
			a.Storage = append(a.Storage, s)
			items++
			octets += 34 + uint64(len(in.Keys[ki])) + uint64(s.ValLen)
		}
		nl := rapid.IntRange(0, 4).Draw(rt, label+"_n_lookups")
		seen := map[pair]bool{}
		for j := 0; j < nl; j++ {
			h := rapid.IntRange(0, in.nHashes()-1).Draw(rt, "hash_idx")
			z := genZ(h)
			if z > 1<<20 { // keep the initial footprint modest
				z = 1 << 16
			}
			if seen[pair{h, z}] {
				continue
			}
			seen[pair{h, z}] = true
			ns := rapid.IntRange(0, 3).Draw(rt, "n_slots")
			slots := make([]uint32, 0, ns)
			for q := 0; q < ns; q++ {
				slots = append(slots, slotGen.Draw(rt, "slot"))
			}
			sort.Slice(slots, func(x, y int) bool { return slots[x] < slots[y] })
			a.Lookups = append(a.Lookups, c09Lkp{HashIdx: h, Z: z, Slots: slots, Raw: rapid.IntRange(0, 2).Draw(rt, "raw") == 0})
			if label == "caller" {
				pairs = append(pairs, pair{h, z})
			}
			items += 2
			octets += 81 + uint64(z)
		}
		raw0 := c09BS + c09BI*items + c09BL*octets
		lo := uint64(0)
		if raw0 > 50 {
			lo = raw0 - 50
		}
		a.Gratis = rapid.OneOf(rapid.Just(uint64(0)), rapid.Just(uint64(0)), rapid.Uint64Range(1, 300),
			rapid.Uint64Range(lo, raw0+50), rapid.Just(^uint64(0))).Draw(rt, label+"_gratis")
		t0 := uint64(0)
		if raw0 > a.Gratis {
			t0 = raw0 - a.Gratis
		}
		slack := rapid.OneOf(rapid.Just(uint64(0)), rapid.Uint64Range(0, 150), rapid.Uint64Range(0, 150), rapid.Uint64Range(0, 5000),
			rapid.Just(uint64(10000000)), rapid.Just(uint64(1)<<40)).Draw(rt, label+"_slack")
		a.Balance = t0 + slack
		return a
	}
	callerID := rapid.OneOf(rapid.Uint32Range(0, 300), rapid.Uint32Range(65536, 70000)).Draw(rt, "caller_id")
	otherID := rapid.OneOf(rapid.Uint32Range(0, 300), rapid.Uint32Range(65536, 70000)).Draw(rt, "other_id")
	if otherID == callerID {
		otherID = callerID + 1
	}
	in.Caller = genAcct("caller", callerID)
	in.Other = genAcct("other", otherID)

	nops := rapid.OneOf(rapid.IntRange(1, 12), rapid.IntRange(1, 30)).Draw(rt, "n_ops")
	kinds := []string{"write", "write", "write", "write", "write", "write", "write", "solicit", "solicit", "solicit",
		"forget", "forget", "forget", "provide", "new", "new", "info", "read", "query"}
	pickPair := func() pair {
		if len(pairs) > 0 && rapid.IntRange(0, 4).Draw(rt, "from_pool") != 0 {
			return pairs[rapid.IntRange(0, len(pairs)-1).Draw(rt, "pair_idx")]
		}
		h := rapid.IntRange(0, in.nHashes()-1).Draw(rt, "hash_idx")
		return pair{h, genZ(h)}
	}
	for j := 0; j < nops; j++ {
		op := c09Op{Kind: rapid.SampledFrom(kinds).Draw(rt, "kind")}
		switch op.Kind {
		case "write":
			op.KeyIdx = rapid.IntRange(0, len(in.Keys)-1).Draw(rt, "key_idx")
			op.ValFill = rapid.Byte().Draw(rt, "val_fill")
			op.Fit = rapid.SampledFrom([]int{0, 0, 0, 1, 2}).Draw(rt, "fit")
			op.ValLen = rapid.OneOf(rapid.Just(0), rapid.IntRange(1, 100), rapid.IntRange(1, 100), rapid.IntRange(100, 3000)).Draw(rt, "val_len")
		case "read":
			op.KeyIdx = rapid.IntRange(0, len(in.Keys)-1).Draw(rt, "key_idx")
		case "solicit":
			p := pickPair()
			op.HashIdx, op.Z = p.h, p.z
			op.Fit = rapid.SampledFrom([]int{0, 0, 0, 0, 1, 2}).Draw(rt, "fit")
			pairs = append(pairs, p)
			if rapid.IntRange(0, 7).Draw(rt, "z_wide") == 0 {
				op.ZHi, op.Fit = rapid.SampledFrom([]uint32{1, 1, 2, 1 << 31, 1<<32 - 1}).Draw(rt, "z_hi"), 0
			}
		case "forget", "query":
			p := pickPair()
			op.HashIdx, op.Z = p.h, p.z
			if rapid.IntRange(0, 15).Draw(rt, "z_wide") == 0 {
				op.ZHi = rapid.SampledFrom([]uint32{1, 1, 2, 1 << 31, 1<<32 - 1}).Draw(rt, "z_hi")
			}
		case "provide":
			op.Target = rapid.SampledFrom([]int{0, 0, 1, 1, 2}).Draw(rt, "target")
			op.BlobIdx = rapid.IntRange(0, len(in.Blobs)-1).Draw(rt, "blob_idx")
		case "new":
			op.HashIdx = rapid.IntRange(0, in.nHashes()-1).Draw(rt, "hash_idx")
			op.NewL = rapid.OneOf(rapid.Uint32Range(0, 200), rapid.Uint32Range(0, 200), rapid.SampledFrom([]uint32{1 << 20, 1<<32 - 1})).Draw(rt, "new_l")
			op.NewG = rapid.Uint64Range(0, 100).Draw(rt, "new_g")
			op.NewM = rapid.Uint64Range(0, 100).Draw(rt, "new_m")
			op.NewF = rapid.OneOf(rapid.Just(uint64(0)), rapid.Just(uint64(0)), rapid.Uint64Range(1, 1000)).Draw(rt, "new_f")
			op.NewI = rapid.OneOf(rapid.Uint64Range(0, 65535), rapid.Just(uint64(otherID)), rapid.Uint64Range(65536, 1<<32-1)).Draw(rt, "new_i")
		case "info":
			op.Target = rapid.IntRange(0, 3).Draw(rt, "target")
		}
		in.Ops = append(in.Ops, op)
	}
	return in
}

// ------------------------------------------------------------------ observation

type c09RawDesc struct {
	acct  uint32
	canon string
	kind  byte // 's' or 'l'
}

type c09Obs struct {
	Info map[uint32]types.ServiceInfo
	Ent  map[uint32]map[string]string // canonical entries (dict + raw pool)
	Pre  map[uint32]map[string]string // preimages
	Dup  int                          // entries present both in a dict and in the raw pool
	Unk  int                          // raw pool entries this harness did not place
}

func c09Observe(add HostCallArgs, table map[types.StateKey]c09RawDesc) c09Obs {
	o := c09Obs{Info: map[uint32]types.ServiceInfo{}, Ent: map[uint32]map[string]string{}, Pre: map[uint32]map[string]string{}}
	for id, a := range add.AccumulateArgs.ResultContextX.PartialState.ServiceAccounts {
		o.Info[uint32(id)] = a.ServiceInfo
		ent := map[string]string{}
		for k, v := range a.StorageDict {
			ent[c09CanonStorageKey([]byte(k))] = string(v)
		}
		for k, v := range a.LookupDict {
			sl := make([]uint32, len(v))
			for i, s := range v {
				sl[i] = uint32(s)
			}
			ent[c09CanonLookupKey(k.Hash, uint32(k.Length))] = string(c09SlotsBytes(sl))
		}
		o.Ent[uint32(id)] = ent
		pre := map[string]string{}
		for h, p := range a.PreimageLookup {
			pre[string(h[:])] = string(p)
		}
		o.Pre[uint32(id)] = pre
	}
	for _, kv := range *add.AccumulateArgs.ResultContextX.StorageKeyVal {
		d, ok := table[kv.Key]
		if !ok {
			o.Unk++
			continue
		}
		ent := o.Ent[d.acct]
		if ent == nil {
			ent = map[string]string{}
			o.Ent[d.acct] = ent
		}
		if _, dup := ent[d.canon]; dup {
			o.Dup++
			continue
		}
		val := string(kv.Value)
		if d.kind == 'l' {
			if len(kv.Value) >= 1 {
				val = string(kv.Value[1:]) // strip the length prefix
			}
		}
		ent[d.canon] = val
	}
	return o
}

func c09StrMapEq(a, b map[string]string) bool {
	if len(a) != len(b) {
		return false
	}
	for k, v := range a {
		if w, ok := b[k]; !ok || w != v {
			return false
		}
	}
	return true
}

func c09ObsDiff(a, b c09Obs) string {
	if len(a.Info) != len(b.Info) {
		return fmt.Sprintf("account set changed (%d -> %d accounts)", len(a.Info), len(b.Info))
	}
	for id, ia := range a.Info {
		ib, ok := b.Info[id]
		if !ok {
			return fmt.Sprintf("account %d disappeared", id)
		}
		if ia != ib {
			return fmt.Sprintf("account %d service info changed: %+v -> %+v", id, ia, ib)
		}
		if !c09StrMapEq(a.Ent[id], b.Ent[id]) {
			return fmt.Sprintf("account %d entries changed (%d -> %d entries)", id, len(a.Ent[id]), len(b.Ent[id]))
		}
		if !c09StrMapEq(a.Pre[id], b.Pre[id]) {
			return fmt.Sprintf("account %d preimages changed", id)
		}
	}
	return ""
}

// ------------------------------------------------------------------ check

const (
	c09AddrKey   = 0x10000
	c09AddrHash  = 0x10100
	c09AddrInfo  = 0x10200
	c09AddrVal   = 0x11000 // up to 3 pages
	c09AddrRead  = 0x14000 // 2 pages
	c09FirstPage = 16
	c09NumPages  = 6
)

func c09RetName(v uint64) string {
	switch v {
	case NONE:
		return "NONE"
	case WHAT:
		return "WHAT"
	case OOB:
		return "OOB"
	case WHO:
		return "WHO"
	case FULL:
		return "FULL"
	case CORE:
		return "CORE"
	case CASH:
		return "CASH"
	case LOW:
		return "LOW"
	case HUH:
		return "HUH"
	case OK:
		return "OK"
	}
	return "value"
}

func c09ValidSeq(in *c09SeqInput) bool {
	if len(in.Keys) == 0 || len(in.Keys) > 16 || len(in.Blobs) == 0 || len(in.Blobs) > 8 || len(in.Ops) > 64 {
		return false
	}
	seen := map[string]bool{}
	for _, k := range in.Keys {
		if len(k) > 200 || seen[string(k)] {
			return false
		}
		seen[string(k)] = true
	}
	for _, b := range in.Blobs {
		if len(b) > 4096 {
			return false
		}
	}
	if in.Caller.ID == in.Other.ID || in.Caller.ID == c09AbsentID || in.Other.ID == c09AbsentID {
		return false
	}
	for _, a := range []c09Acct{in.Caller, in.Other} {
		sk := map[int]bool{}
		for _, s := range a.Storage {
			if s.KeyIdx < 0 || s.KeyIdx >= len(in.Keys) || sk[s.KeyIdx] || s.ValLen < 1 || s.ValLen > 8192 {
				return false
			}
			sk[s.KeyIdx] = true
		}
		lk := map[string]bool{}
		for _, l := range a.Lookups {
			if l.HashIdx < 0 || l.HashIdx >= in.nHashes() || len(l.Slots) > 3 {
				return false
			}
			k := fmt.Sprint(l.HashIdx, ":", l.Z)
			if lk[k] {
				return false
			}
			lk[k] = true
		}
	}
	for _, op := range in.Ops {
		if op.KeyIdx < 0 || op.KeyIdx >= len(in.Keys) || op.HashIdx < 0 || op.HashIdx >= in.nHashes() ||
			op.BlobIdx < 0 || op.BlobIdx >= len(in.Blobs) || op.ValLen < 0 || op.ValLen > 8192 {
			return false
		}
	}
	return true
}

// c09BuildAccount returns the account, its raw-pool entries and their descriptors.
func c09BuildAccount(in *c09SeqInput, a c09Acct, table map[types.StateKey]c09RawDesc) (types.ServiceAccount, types.StateKeyVals) {
	acc := types.ServiceAccount{
		PreimageLookup: types.PreimagesMapEntry{},
		LookupDict:     types.LookupMetaMapEntry{},
		StorageDict:    types.Storage{},
	}
	id := types.ServiceID(a.ID)
	var pool types.StateKeyVals
	ent := map[string]string{}
	for _, s := range a.Storage {
		k := in.Keys[s.KeyIdx]
		v := c09Value(s.ValLen, s.ValFill)
		ent[c09CanonStorageKey(k)] = string(v)
		if s.Raw {
			sk := merklization.WrapEncodeDelta2KeyVal(id, k, nil).Key
			pool = append(pool, types.StateKeyVal{Key: sk, Value: v})
			table[sk] = c09RawDesc{acct: a.ID, canon: c09CanonStorageKey(k), kind: 's'}
		} else {
			acc.StorageDict[string(k)] = v
		}
	}
	for _, l := range a.Lookups {
		h := in.hash(l.HashIdx)
		lk := types.LookupMetaMapkey{Hash: h, Length: types.U32(l.Z)}
		ent[c09CanonLookupKey(h, l.Z)] = string(c09SlotsBytes(l.Slots))
		if l.Raw {
			sk := merklization.EncodeDelta4Key(id, lk)
			val := append([]byte{byte(len(l.Slots))}, c09SlotsBytes(l.Slots)...)
			pool = append(pool, types.StateKeyVal{Key: sk, Value: val})
			table[sk] = c09RawDesc{acct: a.ID, canon: c09CanonLookupKey(h, l.Z), kind: 'l'}
		} else {
			ts := make(types.TimeSlotSet, 0, len(l.Slots))
			for _, s := range l.Slots {
				ts = append(ts, types.TimeSlot(s))
			}
			acc.LookupDict[lk] = ts
		}
		// a preimage that is "available" has its blob in a_p
		if l.HashIdx < len(in.Blobs) && int(l.Z) == len(in.Blobs[l.HashIdx]) && (len(l.Slots) == 1 || len(l.Slots) == 3) {
			acc.PreimageLookup[h] = append(types.ByteSequence(nil), in.Blobs[l.HashIdx]...)
		}
	}
	items, octets := c09Footprint(ent)
	acc.ServiceInfo = types.ServiceInfo{
		Balance:       types.U64(a.Balance),
		DepositOffset: types.U64(a.Gratis),
		Items:         types.U32(items),
		Bytes:         types.U64(octets.Uint64()),
		MinItemGas:    7,
		MinMemoGas:    9,
		CreationSlot:  3,
		ParentService: types.ServiceID(a.ID),
	}
	for j := range acc.ServiceInfo.CodeHash {
		acc.ServiceInfo.CodeHash[j] = byte(a.ID) + byte(j)
	}
	return acc, pool
}

type c09Info struct {
	b, t, o, f uint64
	i          uint32
}

func c09ParseInfo(v []byte) c09Info {
	return c09Info{
		b: binary.LittleEndian.Uint64(v[32:40]),
		t: binary.LittleEndian.Uint64(v[40:48]),
		o: binary.LittleEndian.Uint64(v[64:72]),
		i: binary.LittleEndian.Uint32(v[72:76]),
		f: binary.LittleEndian.Uint64(v[76:84]),
	}
}

func c09CheckSeq(c *kit.Case, in c09SeqInput) {
	if !c09ValidSeq(&in) {
		return
	}
	table := map[types.StateKey]c09RawDesc{}
	callerAcc, pool1 := c09BuildAccount(&in, in.Caller, table)
	otherAcc, pool2 := c09BuildAccount(&in, in.Other, table)
	// consistent accounts only: balance >= threshold initially
	for _, pr := range []struct {
		a   types.ServiceAccount
		src c09Acct
	}{{callerAcc, in.Caller}, {otherAcc, in.Other}} {
		t0 := c09ExactThreshold(uint64(pr.a.ServiceInfo.Items), c09Big(uint64(pr.a.ServiceInfo.Bytes)), pr.src.Gratis)
		if t0.Cmp(c09Big(pr.src.Balance)) > 0 {
			return // not a consistent account (hand-edited replay)
		}
	}
	serviceID := types.ServiceID(in.Caller.ID)
	partialState := types.PartialStateSet{
		ServiceAccounts: types.ServiceAccountState{serviceID: callerAcc, types.ServiceID(in.Other.ID): otherAcc},
		Bless:           types.ServiceID(c09AbsentID),
		CreateAcct:      types.ServiceID(c09AbsentID),
		Designate:       types.ServiceID(c09AbsentID),
	}
	if in.Manager {
		partialState.Bless = serviceID
	}
	if in.Registrar {
		partialState.CreateAcct = serviceID
	}
	storageKeyVal := append(append(types.StateKeyVals{}, pool1...), pool2...)
	timeslot := types.TimeSlot(in.Timeslot)
	var eta types.Entropy

	// --- exactly what Psi_A does before Psi_M
	newPartialState := partialState.DeepCopy()
	newStorageKeyVal := storageKeyVal.DeepCopy()
	serviceAccount := newPartialState.ServiceAccounts[serviceID]
	addition := HostCallArgs{
		GeneralArgs: GeneralArgs{
			ServiceAccount:      &serviceAccount,
			ServiceID:           &serviceID,
			ServiceAccountState: &newPartialState.ServiceAccounts,
			CoreID:              nil,
			StorageKeyVal:       &newStorageKeyVal,
		},
		AccumulateArgs: AccumulateArgs{
			ResultContextX: I(newPartialState, serviceID, timeslot, eta, &newStorageKeyVal),
			ResultContextY: I(partialState, serviceID, timeslot, eta, &storageKeyVal),
			Eta:            eta,
			Timeslot:       timeslot,
		},
	}

	mem := &Memory{Pages: map[uint32]*Page{}}
	for p := uint32(c09FirstPage); p < c09FirstPage+c09NumPages; p++ {
		mem.Pages[p] = &Page{Value: make([]byte, ZP), Access: MemoryReadWrite}
	}
	var regs Registers
	gasLeft := Gas(1 << 40)
	vm := &VMState{Registers: &regs, Memory: mem, Gas: &gasLeft}

	call := func(op OperationType) (OmegaOutput, bool) {
		out := AccumulateOmegas[op](OmegaInput{Operation: op, VM: vm, Addition: addition, HostCalls: AccumulateOmegas})
		if out.ExitReason != ExitContinue {
			return out, false
		}
		addition = out.Addition
		return out, true
	}

	// (1) + (2) for one account
	checkAccount := func(step int, what string, o c09Obs, id uint32) (items uint64, octets *big.Int, thr *big.Int) {
		info := o.Info[id]
		items, octets = c09Footprint(o.Ent[id])
		if uint64(info.Items) != items || c09Big(uint64(info.Bytes)).Cmp(octets) != 0 {
			c.Failf("step %d (%s): account %d records items=%d octets=%d but its actual entries give items=%d octets=%s",
				step, what, id, info.Items, info.Bytes, items, octets)
		}
		thr = c09ExactThreshold(items, octets, uint64(info.DepositOffset))
		return
	}
	checkInfo := func(step int, what string, o c09Obs, id uint32, regTarget uint64) {
		items, octets, thr := checkAccount(step, what, o, id)
		regs = Registers{}
		regs[7], regs[8], regs[9], regs[10] = regTarget, c09AddrInfo, 0, 96
		mem.Write(c09AddrInfo, make([]byte, 96))
		if _, ok := call(InfoOp); !ok {
			c.Failf("step %d (%s): info on account %d did not continue", step, what, id)
		}
		if regs[7] != 96 {
			c.Failf("step %d (%s): info on existing account %d returned %d (%s), want 96", step, what, id, regs[7], c09RetName(regs[7]))
		}
		got := c09ParseInfo(mem.Read(c09AddrInfo, 96))
		if thr.Cmp(c09Two64) < 0 && got.t != thr.Uint64() {
			c.Failf("step %d (%s): info reports threshold %d for account %d, exact max(0, 100+10*%d+%s-%d) = %s",
				step, what, got.t, id, items, octets, uint64(o.Info[id].DepositOffset), thr)
		}
		if uint64(got.i) != items || c09Big(got.o).Cmp(octets) != 0 {
			c.Failf("step %d (%s): info reports items=%d octets=%d for account %d, actual entries give %d / %s", step, what, got.i, got.o, id, items, octets)
		}
		if got.b != uint64(o.Info[id].Balance) || got.f != uint64(o.Info[id].DepositOffset) {
			c.Failf("step %d (%s): info reports balance=%d gratis=%d for account %d, recorded %d / %d", step, what, got.b, got.f, id, o.Info[id].Balance, o.Info[id].DepositOffset)
		}
	}

	pre := c09Observe(addition, table)
	if pre.Dup != 0 || pre.Unk != 0 {
		return
	}
	for id := range pre.Info {
		checkAccount(0, "initial state", pre, id)
	}
	checkInfo(0, "initial state", pre, in.Caller.ID, ^uint64(0))
	rawInitially := len(table) > 0
	if rawInitially {
		c.Class("seq_with_raw_pool_entries")
	}

	solicitedOK := map[string]bool{}
	lastCreated := in.Caller.ID
	nt := false
	self := in.Caller.ID

	for si, op := range in.Ops {
		step := si + 1
		regs = Registers{}
		ent := pre.Ent[self]
		info := pre.Info[self]
		items0, octets0 := c09Footprint(ent)
		bal := c09Big(uint64(info.Balance))
		thr0 := c09ExactThreshold(items0, octets0, uint64(info.DepositOffset))
		invariantOK := thr0.Cmp(bal) <= 0
		// headroom = balance + gratis - raw threshold: octets that can still be added
		headroom := big.NewInt(0).Add(bal, c09Big(uint64(info.DepositOffset)))
		headroom.Sub(headroom, c09ExactRaw(items0, octets0))

		var opcode OperationType
		expectFULLKnown := false // whether rule (3) applies to this call
		expectFULL := false
		what := op.Kind
		var thrAfter *big.Int
		canon := ""
		existed := false
		vlen := -1

		switch op.Kind {
		case "write":
			opcode = WriteOp
			k := in.Keys[op.KeyIdx]
			canon = c09CanonStorageKey(k)
			var old string
			old, existed = ent[canon]
			vlen = op.ValLen
			if op.Fit != 0 {
				// choose |v| so that the would-be threshold is balance (fit 1) or balance+1 (fit 2)
				room := big.NewInt(0).Set(headroom)
				if existed {
					room.Add(room, c09Big(34+uint64(len(k))+uint64(len(old)))) // item count unchanged
				} else {
					room.Sub(room, big.NewInt(c09BI)) // one more item
				}
				room.Sub(room, c09Big(34+uint64(len(k))))
				if op.Fit == 2 {
					room.Add(room, big.NewInt(1))
				}
				if room.Sign() > 0 && room.Cmp(big.NewInt(8192)) <= 0 {
					vlen = int(room.Int64())
					c.Class(fmt.Sprintf("write_fit_%d", op.Fit))
				}
			}
			v := c09Value(vlen, op.ValFill)
			mem.Write(c09AddrKey, k)
			mem.Write(c09AddrVal, v)
			regs[7], regs[8], regs[9], regs[10] = c09AddrKey, uint64(len(k)), c09AddrVal, uint64(vlen)
			items1, octets1 := items0, big.NewInt(0).Set(octets0)
			if existed {
				items1--
				octets1.Sub(octets1, c09Big(34+uint64(len(k))+uint64(len(old))))
			}
			if vlen > 0 {
				items1++
				octets1.Add(octets1, c09Big(34+uint64(len(k))+uint64(vlen)))
				expectFULLKnown = true
			}
			thrAfter = c09ExactThreshold(items1, octets1, uint64(info.DepositOffset))
			expectFULL = thrAfter.Cmp(bal) > 0
			what = fmt.Sprintf("write |k|=%d |v|=%d existed=%v", len(k), vlen, existed)
		case "read":
			opcode = ReadOp
			k := in.Keys[op.KeyIdx]
			mem.Write(c09AddrKey, k)
			regs[7], regs[8], regs[9], regs[10], regs[11], regs[12] = ^uint64(0), c09AddrKey, uint64(len(k)), c09AddrRead, 0, 8192
		case "solicit", "forget", "query":
			opcode = map[string]OperationType{"solicit": SolicitOp, "forget": ForgetOp, "query": QueryOp}[op.Kind]
			h := in.hash(op.HashIdx)
			z := op.Z
			if op.Kind == "solicit" && op.Fit != 0 {
				room := big.NewInt(0).Sub(headroom, big.NewInt(2*c09BI+81))
				if op.Fit == 2 {
					room.Add(room, big.NewInt(1))
				}
				if room.Sign() >= 0 && room.Cmp(c09Big(1<<32-1)) <= 0 {
					z = uint32(room.Uint64())
					c.Class(fmt.Sprintf("solicit_fit_%d", op.Fit))
				}
			}
			canon = c09CanonLookupKey(h, z)
			_, existed = ent[canon]
			mem.Write(c09AddrHash, h[:])
			regs[7], regs[8] = c09AddrHash, uint64(op.ZHi)<<32|uint64(z)
			if op.ZHi != 0 {
				// a length register that does not fit 32 bits: no expectation about the outcome, the
				// recorded-equals-derived invariants below hold whatever the call decides
				c.Class(op.Kind + "_length_register_above_2^32")
			}
			if op.Kind == "solicit" && op.ZHi == 0 {
				expectFULLKnown = true
				if existed {
					thrAfter = thr0
				} else {
					o1 := big.NewInt(0).Add(octets0, c09Big(81+uint64(z)))
					thrAfter = c09ExactThreshold(items0+2, o1, uint64(info.DepositOffset))
				}
				expectFULL = thrAfter.Cmp(bal) > 0
			}
			what = fmt.Sprintf("%s z=%d existed=%v", op.Kind, z, existed)
		case "provide":
			opcode = ProvideOp
			b := in.Blobs[op.BlobIdx]
			mem.Write(c09AddrVal, b)
			tgt := ^uint64(0)
			if op.Target == 1 {
				tgt = uint64(in.Other.ID)
			} else if op.Target == 2 {
				tgt = c09AbsentID
			}
			regs[7], regs[8], regs[9] = tgt, c09AddrVal, uint64(len(b))
		case "new":
			opcode = NewOp
			h := in.hash(op.HashIdx)
			mem.Write(c09AddrHash, h[:])
			regs[7], regs[8], regs[9], regs[10], regs[11], regs[12] = c09AddrHash, uint64(op.NewL), op.NewG, op.NewM, op.NewF, op.NewI
		case "info":
			opcode = InfoOp
			tgt := ^uint64(0)
			switch op.Target {
			case 1:
				tgt = uint64(in.Other.ID)
			case 2:
				tgt = c09AbsentID
			case 3:
				tgt = uint64(lastCreated)
			}
			regs[7], regs[8], regs[9], regs[10] = tgt, c09AddrInfo, 0, 96
		default:
			return
		}

		in7 := regs[7]
		_, ok := call(opcode)
		if !ok {
			c.Class(op.Kind + "_exit_not_continue")
			break
		}
		ret := regs[7]
		post := c09Observe(addition, table)
		if post.Dup != 0 {
			c.Class("entry_in_dict_and_raw_pool")
		}
		if post.Unk != 0 {
			c.Failf("step %d (%s): %d entries appeared in the raw key-value pool", step, what, post.Unk)
		}

		// (3) FULL exactness and FULL => unchanged
		if ret == FULL && (op.Kind == "write" || op.Kind == "solicit") {
			if d := c09ObsDiff(pre, post); d != "" {
				c.Failf("step %d (%s): returned FULL but %s", step, what, d)
			}
		}
		if expectFULLKnown && invariantOK {
			if expectFULL && ret != FULL {
				c.Failf("step %d (%s): would-be threshold %s exceeds balance %s but the call returned %d (%s), not FULL",
					step, what, thrAfter, bal, ret, c09RetName(ret))
			}
			if !expectFULL && ret == FULL {
				c.Failf("step %d (%s): returned FULL although the would-be threshold %s does not exceed the balance %s", step, what, thrAfter, bal)
			}
		}
		if !invariantOK {
			c.Class("balance_below_threshold_before_call")
		}
		// new: CASH exactly when the creator, after endowing the child with the child's threshold,
		// would fall below ITS OWN threshold (own items, octets and gratis offset). Stated both
		// ways without assuming where HUH / FULL rank among the refusals.
		if op.Kind == "new" && invariantOK {
			childThr := c09ExactThreshold(2, c09Big(81+uint64(op.NewL)), op.NewF)
			short := big.NewInt(0).Sub(bal, childThr).Cmp(thr0) < 0
			_, isNew := post.Info[uint32(ret)]
			if _, before := pre.Info[uint32(ret)]; before || ret >= 1<<32 {
				isNew = false
			}
			if ret == CASH && !short {
				c.Failf("step %d (new l=%d f=%d): returned CASH although balance %s - child threshold %s stays at or above the creator's threshold %s (gratis offset %d)",
					step, op.NewL, op.NewF, bal, childThr, thr0, uint64(info.DepositOffset))
			}
			if isNew && short {
				c.Failf("step %d (new l=%d f=%d): account %d created although balance %s - child threshold %s is below the creator's threshold %s",
					step, op.NewL, op.NewF, ret, bal, childThr, thr0)
			}
			if short {
				c.Class("new_would_leave_creator_below_threshold")
			} else if uint64(info.DepositOffset) > 0 {
				c.Class("new_affordable_creator_has_gratis_offset")
			}
		}

		// (1) every account
		ids := make([]uint32, 0, len(post.Info))
		for id := range post.Info {
			ids = append(ids, id)
		}
		sort.Slice(ids, func(a, b int) bool { return ids[a] < ids[b] })
		for _, id := range ids {
			checkAccount(step, what, post, id)
		}

		// classes and non-triviality (from the observed outcome)
		switch op.Kind {
		case "write":
			_, still := post.Ent[self][canon]
			switch {
			case ret == FULL:
				c.Class("write_FULL")
			case existed && !still:
				c.Class("write_delete_existing")
				nt = true
			case !existed && vlen == 0:
				c.Class("write_delete_absent")
			case existed:
				if len(post.Ent[self][canon]) < len(pre.Ent[self][canon]) {
					c.Class("write_overwrite_shorter")
				} else {
					c.Class("write_overwrite_longer_or_equal")
				}
				nt = true
			default:
				c.Class("write_insert")
			}
		case "solicit":
			c.Class("solicit_" + c09RetName(ret))
			if ret == OK {
				solicitedOK[canon] = true
				if existed {
					c.Class("solicit_OK_existing")
				}
			}
		case "forget":
			c.Class("forget_" + c09RetName(ret))
			if ret == OK {
				if _, still := post.Ent[self][canon]; !still {
					c.Class("forget_OK_removed")
				}
				if solicitedOK[canon] {
					nt = true
					c.Class("forget_after_solicit")
				}
			}
		case "provide":
			c.Class("provide_" + c09RetName(ret))
		case "query":
			if ret == NONE {
				c.Class("query_NONE")
			} else {
				c.Class("query_found")
			}
		case "read":
			if ret == NONE {
				c.Class("read_NONE")
			} else {
				c.Class("read_found")
			}
		case "new":
			switch ret {
			case CASH, FULL, HUH:
				c.Class("new_" + c09RetName(ret))
			default:
				if _, okNew := post.Info[uint32(ret)]; ret < 1<<32 && okNew {
					if _, before := pre.Info[uint32(ret)]; !before {
						lastCreated = uint32(ret)
						c.Class("new_created")
						ni := post.Info[lastCreated]
						if uint64(ni.Items) != 2 || uint64(ni.Bytes) != 81+uint64(op.NewL) {
							c.Failf("step %d (new l=%d): created account %d records items=%d octets=%d, want 2 / %d", step, op.NewL, lastCreated, ni.Items, ni.Bytes, 81+uint64(op.NewL))
						}
					}
				}
			}
		case "info":
			if in7 == c09AbsentID {
				if ret != NONE {
					c.Failf("step %d: info on an absent account returned %d", step, ret)
				}
				c.Class("info_absent")
			} else if ret == 96 {
				id := self
				if in7 != ^uint64(0) {
					id = uint32(in7)
				}
				got := c09ParseInfo(mem.Read(c09AddrInfo, 96))
				items, octets, thr := checkAccount(step, what, post, id)
				if thr.Cmp(c09Two64) < 0 && got.t != thr.Uint64() {
					c.Failf("step %d: info reports threshold %d for account %d, exact %s", step, got.t, id, thr)
				}
				if uint64(got.i) != items || c09Big(got.o).Cmp(octets) != 0 {
					c.Failf("step %d: info reports items=%d octets=%d for account %d, actual %d / %s", step, got.i, got.o, id, items, octets)
				}
				c.Class("info_existing")
			}
		}

		// (2) info on the caller after every call
		checkInfo(step, what, post, self, ^uint64(0))
		pre = post
	}
	if nt {
		c.NonTrivial()
	}
}

func c09RunSequences(s *kit.Session) {
	kit.Run(s, "hostcall_sequences", kit.N{Quick: 15000, Thorough: 400000}, c09GenSeq, c09CheckSeq)
}
