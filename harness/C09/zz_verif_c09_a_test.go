package PVM

// C09 (a): pure threshold and footprint functions of internal/service_account
// against exact big.Int arithmetic (GP 9.8): a_t = max(0, B_S + B_I*a_i + B_L*a_o - a_f),
// a_i = 2|l| + |s|, a_o = sum(81+z) + sum(34+|k|+|v|).

import (
	"fmt"
	"math/big"
	"testing"

	"github.com/New-JAMneration/JAM-Protocol/internal/service_account"
	"github.com/New-JAMneration/JAM-Protocol/internal/types"
	kit "github.com/New-JAMneration/JAM-Protocol/internal/verifkit"
	"pgregory.net/rapid"
)

const (
	c09BS = 100 // B_S
	c09BI = 10  // B_I
	c09BL = 1   // B_L
)

var c09Two64 = big.NewInt(0).Lsh(big.NewInt(1), 64)

func c09Big(u uint64) *big.Int { return big.NewInt(0).SetUint64(u) }

// c09ExactRaw = B_S + B_I*i + B_L*o (no gratis), exact.
func c09ExactRaw(i uint64, o *big.Int) *big.Int {
	r := big.NewInt(c09BS)
	r.Add(r, big.NewInt(0).Mul(big.NewInt(c09BI), c09Big(i)))
	r.Add(r, big.NewInt(0).Mul(big.NewInt(c09BL), o))
	return r
}

// c09ExactThreshold = max(0, raw - f), exact.
func c09ExactThreshold(i uint64, o *big.Int, f uint64) *big.Int {
	r := c09ExactRaw(i, o)
	r.Sub(r, c09Big(f))
	if r.Sign() < 0 {
		return big.NewInt(0)
	}
	return r
}

type c09ThreshInput struct {
	I uint32 `json:"i"`
	O uint64 `json:"o"`
	F uint64 `json:"f"`
}

func c09Near(centres []uint64, radius uint64) *rapid.Generator[uint64] {
	return rapid.Custom(func(rt *rapid.T) uint64 {
		c := rapid.SampledFrom(centres).Draw(rt, "centre")
		d := rapid.Uint64Range(0, 2*radius).Draw(rt, "delta")
		// c - radius + d, saturating at both ends of uint64
		var v uint64
		if c < radius {
			if d < radius-c {
				v = 0
			} else {
				v = d - (radius - c)
			}
		} else {
			v = c - radius
			if v+d < v {
				v = ^uint64(0)
			} else {
				v += d
			}
		}
		return v
	})
}

func c09GenThresh(rt *rapid.T) c09ThreshInput {
	var in c09ThreshInput
	iv := rapid.OneOf(
		c09Near([]uint64{0, 429496729, 429496730, 1 << 31, 1<<32 - 1}, 1024),
		c09Near([]uint64{0, 429496729, 1 << 31, 1<<32 - 1}, 8),
		rapid.Uint64Range(0, 1<<32-1),
	).Draw(rt, "i")
	if iv > 1<<32-1 {
		iv = 1<<32 - 1
	}
	in.I = uint32(iv)
	in.O = rapid.OneOf(
		c09Near([]uint64{0, 1 << 32, 1 << 63, 1<<64 - 1}, 1024),
		c09Near([]uint64{1<<64 - 1 - 100 - 10*uint64(in.I)}, 64), // raw value around 2^64
		rapid.Uint64(),
	).Draw(rt, "o")
	raw := c09ExactRaw(uint64(in.I), c09Big(in.O))
	rawU := ^uint64(0)
	if raw.IsUint64() {
		rawU = raw.Uint64()
	}
	rawLow := big.NewInt(0).And(raw, c09Big(^uint64(0))).Uint64() // raw mod 2^64
	in.F = rapid.OneOf(
		c09Near([]uint64{rawU}, 1024),
		c09Near([]uint64{rawU, rawLow}, 4),
		rapid.SampledFrom([]uint64{0, 1, 1<<64 - 1, 1 << 63, 1 << 32}),
		rapid.Uint64(),
	).Draw(rt, "f")
	return in
}

func c09CheckThresh(c *kit.Case, in c09ThreshInput) {
	i, o, f := uint64(in.I), in.O, in.F
	raw := c09ExactRaw(i, c09Big(o))
	want := c09ExactThreshold(i, c09Big(o), f)
	// non-trivial rule of DESIGN.md: i*10 >= 2^32 or o >= 2^63 or f within 2^10 of the raw value
	nt := i*10 >= 1<<32 || o >= 1<<63
	diff := big.NewInt(0).Sub(raw, c09Big(f))
	if diff.CmpAbs(big.NewInt(1<<10)) <= 0 {
		nt = true
		c.Class("f_within_2^10_of_raw")
	}
	if nt {
		c.NonTrivial()
	}
	if i*10 >= 1<<32 {
		c.Class("10i_ge_2^32")
	}
	if raw.Cmp(c09Two64) >= 0 {
		c.Class("raw_ge_2^64")
	}
	if want.Sign() == 0 {
		c.Class("floored_at_zero")
	}
	got := uint64(service_account.CalcThresholdBalance(types.U32(in.I), types.U64(o), types.U64(f)))
	if want.Cmp(c09Two64) >= 0 {
		// no representable correct answer is stated: not judged
		c.Class("exact_ge_2^64_out_of_domain")
		return
	}
	if got == want.Uint64() {
		return
	}
	msg := fmt.Sprintf("CalcThresholdBalance(i=%d, o=%d, f=%d) = %d, exact max(0, %d + %d*i + %d*o - f) = %s", i, o, f, got, c09BS, c09BI, c09BL, want)
	// Catalogued overflow defects. Each classifier is keyed to the input feature
	// that triggers the overflow and to the exact wrapped value it produces.
	floorSub := func(storage uint64) uint64 {
		if storage >= f {
			return storage - f
		}
		return 0
	}
	// KF-C09-2: the raw sum (with the exact product) wraps modulo 2^64 before the
	// gratis offset is subtracted; tested first so that a divergence the 64-bit
	// wrap explains on its own is not attributed to the 32-bit product.
	if raw.Cmp(c09Two64) >= 0 && got == floorSub(c09BS+i*10+o) {
		c.Known("KF-C09-2", msg)
	}
	// KF-C09-1: B_I*a_i evaluated in 32 bits (the sum then wraps modulo 2^64 like the implementation's)
	if i*10 >= 1<<32 && got == floorSub(c09BS+uint64(uint32(i*10))+o) {
		c.Known("KF-C09-1", msg)
	}
	c.Failf("%s", msg)
}

// ---- footprints of generated accounts

type c09FpLookup struct {
	HashByte byte     `json:"hash_byte"`
	Z        uint32   `json:"z"`
	Slots    []uint32 `json:"slots"`
}
type c09FpStorage struct {
	Key []byte `json:"key"`
	Val []byte `json:"val"`
}
type c09FpInput struct {
	Lookups []c09FpLookup  `json:"lookups"`
	Storage []c09FpStorage `json:"storage"`
	F       uint64         `json:"f"`
}

func c09GenFp(rt *rapid.T) c09FpInput {
	var in c09FpInput
	nl := rapid.IntRange(0, 6).Draw(rt, "n_lookups")
	for j := 0; j < nl; j++ {
		in.Lookups = append(in.Lookups, c09FpLookup{
			HashByte: rapid.Byte().Draw(rt, "hash_byte"),
			Z: rapid.OneOf(rapid.Uint32Range(0, 200), rapid.SampledFrom([]uint32{0, 1, 1 << 16, 1 << 31, 1<<32 - 1}),
				rapid.Uint32()).Draw(rt, "z"),
			Slots: rapid.SliceOfN(rapid.Uint32Range(0, 100), 0, 3).Draw(rt, "slots"),
		})
	}
	ns := rapid.IntRange(0, 8).Draw(rt, "n_storage")
	for j := 0; j < ns; j++ {
		kl := rapid.OneOf(rapid.IntRange(0, 64), rapid.SampledFrom([]int{0, 1, 31, 32, 33, 64})).Draw(rt, "klen")
		in.Storage = append(in.Storage, c09FpStorage{
			Key: rapid.SliceOfN(rapid.Byte(), kl, kl).Draw(rt, "key"),
			Val: rapid.SliceOfN(rapid.Byte(), 0, 300).Draw(rt, "val"),
		})
	}
	in.F = rapid.OneOf(rapid.Just(uint64(0)), rapid.Uint64Range(0, 2000), rapid.Uint64()).Draw(rt, "f")
	return in
}

func c09CheckFp(c *kit.Case, in c09FpInput) {
	acc := types.ServiceAccount{
		PreimageLookup: types.PreimagesMapEntry{},
		LookupDict:     types.LookupMetaMapEntry{},
		StorageDict:    types.Storage{},
	}
	acc.ServiceInfo.DepositOffset = types.U64(in.F)
	items := uint64(0)
	octets := big.NewInt(0)
	for _, l := range in.Lookups {
		var h types.OpaqueHash
		for j := range h {
			h[j] = l.HashByte
		}
		k := types.LookupMetaMapkey{Hash: h, Length: types.U32(l.Z)}
		gi, go_ := service_account.CalcLookupItemfootprint(k)
		if uint64(gi) != 2 || uint64(go_) != 81+uint64(l.Z) {
			c.Failf("CalcLookupItemfootprint(z=%d) = (%d,%d), want (2,%d)", l.Z, gi, go_, 81+uint64(l.Z))
		}
		if _, dup := acc.LookupDict[k]; dup {
			continue
		}
		ts := types.TimeSlotSet{}
		for _, s := range l.Slots {
			ts = append(ts, types.TimeSlot(s))
		}
		acc.LookupDict[k] = ts
		items += 2
		octets.Add(octets, c09Big(81+uint64(l.Z)))
	}
	for _, s := range in.Storage {
		gi, go_ := service_account.CalcStorageItemfootprint(string(s.Key), s.Val)
		want := 34 + uint64(len(s.Key)) + uint64(len(s.Val))
		if uint64(gi) != 1 || uint64(go_) != want {
			c.Failf("CalcStorageItemfootprint(|k|=%d,|v|=%d) = (%d,%d), want (1,%d)", len(s.Key), len(s.Val), gi, go_, want)
		}
		if _, dup := acc.StorageDict[string(s.Key)]; dup {
			continue
		}
		acc.StorageDict[string(s.Key)] = append(types.ByteSequence(nil), s.Val...)
		items++
		octets.Add(octets, c09Big(want))
	}
	if len(acc.LookupDict) > 0 && len(acc.StorageDict) > 0 {
		c.NonTrivial()
	}
	d := service_account.GetServiceAccountDerivatives(acc)
	if uint64(d.Items) != items {
		c.Failf("derived items %d, want 2*%d+%d = %d", d.Items, len(acc.LookupDict), len(acc.StorageDict), items)
	}
	if c09Big(uint64(d.Bytes)).Cmp(octets) != 0 {
		c.Failf("derived octets %d, want %s", d.Bytes, octets)
	}
	want := c09ExactThreshold(items, octets, in.F)
	if want.Cmp(c09Two64) < 0 && uint64(d.Minbalance) != want.Uint64() {
		c.Failf("derived threshold %d, want %s (items %d, octets %s, gratis %d)", d.Minbalance, want, items, octets, in.F)
	}
}

func TestVerif_C09(t *testing.T) {
	s := kit.Begin(t, "C09")
	defer s.Finish()
	kit.Run(s, "threshold_vs_exact", kit.N{Quick: 200000, Thorough: 20000000}, c09GenThresh, c09CheckThresh)
	kit.Run(s, "derivatives_vs_entries", kit.N{Quick: 20000, Thorough: 400000}, c09GenFp, c09CheckFp)
	c09RunSequences(s)
}
