package authorization

// C24: authorizer pool transition (GP 8.2-8.3).
//
//	alpha'[c] = <-O ( F(c) ++ [ phi'[c][H_t mod Q] ] )
//	F(c)      = alpha[c] with the LEFTMOST occurrence of (g_r)_a removed, if a
//	            guarantee g in E_G has (g_r)_c = c; alpha[c] otherwise
//
// Oracle: a literal model over fresh copies (explicit index search, explicit
// concatenation into new slices), run over a history of consecutive blocks.
// The model shares nothing with the implementation (not even the hash type's
// helper methods).

import (
	"crypto/sha256"
	"encoding/binary"
	"fmt"
	"testing"

	"github.com/New-JAMneration/JAM-Protocol/internal/blockchain"
	"github.com/New-JAMneration/JAM-Protocol/internal/types"
	kit "github.com/New-JAMneration/JAM-Protocol/internal/verifkit"
	"github.com/New-JAMneration/JAM-Protocol/logger"
	"pgregory.net/rapid"
)

const (
	c24O = 8  // GP O: maximum pool size (property statement: "most recent O entries")
	c24Q = 80 // GP Q: queue length
)

// c24Guar: one guarantee of a block. The authorizer is described relative to the
// model's current pool of that core so that "in the pool" stays meaningful along a
// history: Kind 0 = the pool element at position Arg mod len (absent hash when
// the pool is empty), Kind 1 = common alphabet hash Arg mod 4, Kind 2 = a hash
// that occurs in no pool and no queue.
type c24Guar struct {
	Core int `json:"core"`
	Kind int `json:"kind"`
	Arg  int `json:"arg"`
}

type c24Step struct {
	DSlot int       `json:"dslot"` // slot increment (>= 1) from the previous block
	Guars []c24Guar `json:"guars"` // at most one per core (E_G is unique per core)
	Alias bool      `json:"alias"` // feed the previous RESULT slice itself as the next prior (as the node does) instead of a deep copy
}

type c24Input struct {
	Full  bool     `json:"full"`  // full (C=341) or tiny (C=2) parameters
	Slot0 uint32   `json:"slot0"` // slot before the first block
	Pools [][]int  `json:"pools"` // hash ids; null = nil pool, [] = empty pool; padded/truncated to C
	QK    int      `json:"qk"`    // queue derivation parameters (see c24QueueID)
	QM    int      `json:"qm"`
	QP    int      `json:"qp"`
	QOver [][3]int `json:"qover"` // explicit queue overrides (core, index, id)
	Steps []c24Step `json:"steps"`
}

type c24Hash = [32]byte

// c24HashOf maps a small id to a 32-byte hash. Ids 0..3 are the common alphabet and
// are chosen to defeat partial comparisons (they differ only in the first or
// last byte); everything else is SHA-256 of the id.
func c24HashOf(id int) c24Hash {
	var h c24Hash
	switch id {
	case 0:
	case 1:
		h[31] = 1
	case 2:
		h[0] = 1
	case 3:
		for i := range h {
			h[i] = 0xFF
		}
	default:
		// memoised (pure function of id): full mode needs 341*80 of these per case
		if id < len(c24HashMemo) && c24HashMemoOK[id] {
			return c24HashMemo[id]
		}
		var b [8]byte
		binary.LittleEndian.PutUint64(b[:], uint64(id))
		h = sha256.Sum256(b[:])
		if id < len(c24HashMemo) {
			c24HashMemo[id], c24HashMemoOK[id] = h, true
		}
	}
	return h
}

var (
	c24ScratchRef  []c24Hash
	c24ScratchImpl []types.AuthorizerHash
	c24HashMemo   = make([]c24Hash, 1000+341*c24Q)
	c24HashMemoOK = make([]bool, 1000+341*c24Q)
)

// c24QueueID: the queue content is derived from three drawn parameters so that the
// replay file stays small in full mode (341*80 entries). Entries are either a
// common-alphabet id (which is what produces duplicates inside pools) or an id
// unique to (core, index) (which is what makes a wrong index observable).
func c24QueueID(in *c24Input, c, i int) int {
	qp := in.QP
	if qp < 1 {
		qp = 1
	}
	if (i*in.QM+c*3+in.QK)%qp == 0 {
		return (i + c + in.QK) & 3
	}
	return 1000 + c*c24Q + i
}

func c24Gen(rt *rapid.T) c24Input {
	var in c24Input
	in.Full = rapid.IntRange(0, 11).Draw(rt, "full") == 0
	C := 2
	if in.Full {
		C = 341
	}
	in.Slot0 = rapid.OneOf(
		rapid.Uint32Range(0, 200),
		rapid.Uint32Range(0, 1<<32-1-400),
		rapid.Uint32Range(1<<31-100, 1<<31+100),
		rapid.Uint32Range(1<<32-1-460, 1<<32-1-400),
	).Draw(rt, "slot0")
	in.QK = rapid.IntRange(0, 7).Draw(rt, "qk")
	in.QM = rapid.IntRange(0, 7).Draw(rt, "qm")
	in.QP = rapid.IntRange(1, 5).Draw(rt, "qp")
	nOver := rapid.IntRange(0, 3).Draw(rt, "nover")
	for k := 0; k < nOver; k++ {
		in.QOver = append(in.QOver, [3]int{rapid.IntRange(0, C-1).Draw(rt, "oc"), rapid.IntRange(0, c24Q-1).Draw(rt, "oi"), rapid.IntRange(0, 3).Draw(rt, "oid")})
	}
	idGen := rapid.OneOf(rapid.IntRange(0, 3), rapid.IntRange(0, 3), rapid.IntRange(0, 3), rapid.IntRange(1000, 1000+C*c24Q-1))
	poolGen := rapid.Custom(func(rt *rapid.T) []int {
		shape := rapid.IntRange(0, 9).Draw(rt, "shape")
		switch shape {
		case 0:
			return nil // nil pool
		case 1:
			return []int{}
		case 2, 3: // full pool
			return rapid.SliceOfN(idGen, c24O, c24O).Draw(rt, "ids")
		default:
			return rapid.SliceOfN(idGen, 0, c24O).Draw(rt, "ids")
		}
	})
	if !in.Full {
		in.Pools = [][]int{poolGen.Draw(rt, "pool"), poolGen.Draw(rt, "pool")}
	} else {
		nt := rapid.IntRange(1, 5).Draw(rt, "ntemplates")
		tmpl := make([][]int, nt)
		for i := range tmpl {
			tmpl[i] = poolGen.Draw(rt, "pool")
		}
		pm := rapid.IntRange(1, 7).Draw(rt, "pm")
		in.Pools = make([][]int, C)
		for c := 0; c < C; c++ {
			t := tmpl[(c*pm+c/7)%nt]
			if t != nil {
				t = append([]int{}, t...)
			}
			in.Pools[c] = t
		}
	}
	maxSteps := 50
	if in.Full {
		maxSteps = 12
	}
	nSteps := rapid.OneOf(rapid.IntRange(1, 4), rapid.IntRange(1, maxSteps)).Draw(rt, "nsteps")
	guarGen := func(core int) c24Guar {
		return c24Guar{Core: core,
			Kind: rapid.SampledFrom([]int{0, 0, 0, 0, 1, 1, 2}).Draw(rt, "kind"),
			Arg:  rapid.IntRange(0, 7).Draw(rt, "arg")}
	}
	for s := 0; s < nSteps; s++ {
		var st c24Step
		st.DSlot = rapid.SampledFrom([]int{1, 1, 1, 1, 1, 2, 3, 7}).Draw(rt, "dslot")
		st.Alias = rapid.Bool().Draw(rt, "alias")
		if !in.Full {
			switch rapid.IntRange(0, 5).Draw(rt, "which") {
			case 0:
			case 1:
				st.Guars = []c24Guar{guarGen(0)}
			case 2:
				st.Guars = []c24Guar{guarGen(1)}
			case 3:
				st.Guars = []c24Guar{guarGen(1), guarGen(0)}
			default:
				st.Guars = []c24Guar{guarGen(0), guarGen(1)}
			}
		} else {
			if rapid.IntRange(0, 9).Draw(rt, "allcores") == 0 {
				for c := 0; c < C; c++ {
					st.Guars = append(st.Guars, guarGen(c))
				}
			} else {
				cores := rapid.SliceOfNDistinct(rapid.IntRange(0, C-1), 0, 10, rapid.ID[int]).Draw(rt, "cores")
				for _, c := range cores {
					st.Guars = append(st.Guars, guarGen(c))
				}
			}
		}
		in.Steps = append(in.Steps, st)
	}
	return in
}

// ---- reference model -------------------------------------------------------

// c24RefStep is GP 8.2-8.3 for one core: explicit search, fresh slices.
func c24RefStep(pool []c24Hash, used *c24Hash, queued c24Hash) []c24Hash {
	f := make([]c24Hash, 0, len(pool)+1)
	if used == nil {
		f = append(f, pool...)
	} else {
		at := -1
		for i := 0; i < len(pool); i++ {
			if pool[i] == *used {
				at = i
				break
			}
		}
		for i := 0; i < len(pool); i++ {
			if i != at {
				f = append(f, pool[i])
			}
		}
	}
	f = append(f, queued)
	if len(f) > c24O {
		f = append([]c24Hash(nil), f[len(f)-c24O:]...)
	}
	return f
}

type c24Apply func(slot types.TimeSlot, eg types.GuaranteesExtrinsic, alpha types.AuthPools, varphi types.AuthQueues) (types.AuthPools, error)

func c24SetMode(full bool) int {
	if full {
		if types.CoresCount != 341 {
			types.SetFullMode()
		}
	} else if types.CoresCount != 2 {
		types.SetTinyMode()
	}
	return types.CoresCount
}

func c24Run(c *kit.Case, in c24Input, apply c24Apply) {
	C := c24SetMode(in.Full)
	if in.Full {
		c.Class("mode_full")
	} else {
		c.Class("mode_tiny")
	}
	if len(in.Steps) == 0 {
		return
	}
	// queues
	qids := make([][]int, C)
	for cc := 0; cc < C; cc++ {
		qids[cc] = make([]int, c24Q)
		for i := 0; i < c24Q; i++ {
			qids[cc][i] = c24QueueID(&in, cc, i)
		}
	}
	for _, o := range in.QOver {
		if o[0] >= 0 && o[0] < C && o[1] >= 0 && o[1] < c24Q && o[2] >= 0 {
			qids[o[0]][o[1]] = o[2]
		}
	}
	// the two queue tables (reference copy and the value handed to the code) live in
	// scratch buffers reused from case to case: 2 x 873 KB per full-mode case
	// otherwise dominate the run time (page clearing / madvise)
	if len(c24ScratchRef) < C*c24Q {
		c24ScratchRef = make([]c24Hash, C*c24Q)
		c24ScratchImpl = make([]types.AuthorizerHash, C*c24Q)
	}
	refQ := make([][]c24Hash, C)
	varphi := make(types.AuthQueues, C)
	for cc := 0; cc < C; cc++ {
		refQ[cc] = c24ScratchRef[cc*c24Q : (cc+1)*c24Q : (cc+1)*c24Q]
		varphi[cc] = types.AuthQueue(c24ScratchImpl[cc*c24Q : (cc+1)*c24Q : (cc+1)*c24Q])
		for i := 0; i < c24Q; i++ {
			refQ[cc][i] = c24HashOf(qids[cc][i])
			varphi[cc][i] = types.AuthorizerHash(refQ[cc][i])
		}
	}
	// prior pools: model and implementation value
	model := make([][]c24Hash, C)
	isNil := make([]bool, C)
	for cc := 0; cc < C; cc++ {
		var ids []int
		if cc < len(in.Pools) {
			ids = in.Pools[cc]
		} else {
			ids = []int{}
		}
		if ids == nil {
			isNil[cc] = true
			continue
		}
		if len(ids) > c24O {
			ids = ids[:c24O]
		}
		model[cc] = make([]c24Hash, len(ids))
		for i, id := range ids {
			if id < 0 {
				id = -id
			}
			model[cc][i] = c24HashOf(id)
		}
	}
	toImpl := func() types.AuthPools {
		a := make(types.AuthPools, C)
		for cc := 0; cc < C; cc++ {
			if isNil[cc] {
				continue // nil pool
			}
			// exact-capacity fresh backing array per pool
			a[cc] = make(types.AuthPool, len(model[cc]))
			for i, h := range model[cc] {
				a[cc][i] = types.AuthorizerHash(h)
			}
		}
		return a
	}
	alpha := toImpl()
	slot := uint64(in.Slot0)
	nontrivial := false
	var sawAbsent, sawOnce, sawDup, sawFull, sawFullWithGuarantee, sawNilExcluded bool
	for si, st := range in.Steps {
		d := st.DSlot
		if d < 1 {
			d = 1
		}
		slot += uint64(d)
		if slot > 1<<32-1 {
			return // slots do not wrap; malformed replay
		}
		used := make([]*c24Hash, C)
		var eg types.GuaranteesExtrinsic
		for _, g := range st.Guars {
			if g.Core < 0 || g.Core >= C || used[g.Core] != nil {
				continue // out of the domain: E_G has at most one guarantee per existing core
			}
			if isNil[g.Core] {
				// a guarantee for a core whose pool is nil cannot pass report validation
				// (its authorizer must be in the pool): excluded, counted.
				sawNilExcluded = true
				continue
			}
			var h c24Hash
			pool := model[g.Core]
			arg := g.Arg
			if arg < 0 {
				arg = -arg
			}
			switch {
			case g.Kind == 0 && len(pool) > 0:
				h = pool[arg%len(pool)]
			case g.Kind == 1:
				h = c24HashOf(arg & 3)
			default:
				h = c24HashOf(5_000_000 + arg)
			}
			occ := 0
			for _, p := range pool {
				if p == h {
					occ++
				}
			}
			switch {
			case occ == 0:
				sawAbsent = true
			case occ == 1:
				sawOnce = true
			default:
				sawDup = true
				nontrivial = true
			}
			hh := h
			used[g.Core] = &hh
			eg = append(eg, types.ReportGuarantee{Report: types.WorkReport{
				CoreIndex: types.CoreIndex(g.Core), AuthorizerHash: types.OpaqueHash(h)}})
		}
		// expected
		want := make([][]c24Hash, C)
		for cc := 0; cc < C; cc++ {
			if len(model[cc]) == c24O {
				nontrivial = true
				sawFull = true
				if used[cc] != nil {
					sawFullWithGuarantee = true
				}
			}
			want[cc] = c24RefStep(model[cc], used[cc], refQ[cc][int(slot%c24Q)])
		}
		got, err := apply(types.TimeSlot(slot), eg, alpha, varphi)
		if err != nil {
			c.Failf("step %d (slot %d): transition returned error %v on an input inside the domain", si, slot, err)
		}
		if len(got) != C {
			c.Failf("step %d: result has %d pools, want C=%d", si, len(got), C)
		}
		for cc := 0; cc < C; cc++ {
			if len(got[cc]) > c24O {
				c.Failf("step %d core %d: pool has %d entries > O=%d", si, cc, len(got[cc]), c24O)
			}
			ok := len(got[cc]) == len(want[cc])
			if ok {
				for i := range want[cc] {
					if c24Hash(got[cc][i]) != want[cc][i] {
						ok = false
						break
					}
				}
			}
			if !ok {
				c.Failf("step %d (slot %d, slot mod Q = %d) core %d: pool mismatch\n prior    %s\n used     %s\n queued   %s\n expected %s\n got      %s",
					si, slot, slot%c24Q, cc, c24Fmt(model[cc]), c24FmtP(used[cc]), c24Fmt(refQ[cc][slot%c24Q:slot%c24Q+1]), c24Fmt(want[cc]), c24FmtA(got[cc]))
			}
		}
		// the queue is an input only
		for cc := 0; cc < C; cc++ {
			if len(varphi[cc]) != c24Q {
				c.Failf("step %d: queue %d resized to %d", si, cc, len(varphi[cc]))
			}
			for i := 0; i < c24Q; i++ {
				if c24Hash(varphi[cc][i]) != refQ[cc][i] {
					c.Failf("step %d: transition modified the queue phi'[%d][%d]", si, cc, i)
				}
			}
		}
		model = want
		for cc := range isNil {
			isNil[cc] = false
		}
		if st.Alias {
			alpha = got
		} else {
			alpha = toImpl()
		}
	}
	if len(in.Steps) > 8 {
		c.Class("history_gt_8")
	}
	for name, b := range map[string]bool{"guarantee_authorizer_absent": sawAbsent, "guarantee_authorizer_once": sawOnce,
		"guarantee_authorizer_duplicated": sawDup, "full_pool_before_append": sawFull, "full_pool_with_guarantee": sawFullWithGuarantee,
		"excluded_guarantee_on_nil_pool": sawNilExcluded} {
		if b {
			c.Class(name)
		}
	}
	if nontrivial {
		c.NonTrivial()
	}
}

func c24Short(h c24Hash) string {
	for id := 0; id < 4; id++ {
		if c24HashOf(id) == h {
			return fmt.Sprintf("A%d", id)
		}
	}
	return fmt.Sprintf("%x", h[:3])
}

func c24Fmt(p []c24Hash) string {
	s := "["
	for i, h := range p {
		if i > 0 {
			s += " "
		}
		s += c24Short(h)
	}
	return s + "]"
}

func c24FmtP(h *c24Hash) string {
	if h == nil {
		return "(no guarantee)"
	}
	return c24Short(*h)
}

func c24FmtA(p types.AuthPool) string {
	q := make([]c24Hash, len(p))
	for i := range p {
		q[i] = c24Hash(p[i])
	}
	return c24Fmt(q)
}

func c24CheckDirect(c *kit.Case, in c24Input) {
	c24Run(c, in, func(slot types.TimeSlot, eg types.GuaranteesExtrinsic, alpha types.AuthPools, varphi types.AuthQueues) (types.AuthPools, error) {
		return STFAlpha2AlphaPrime(slot, eg, alpha, varphi)
	})
}

// c24CheckSingleton drives the same histories through Authorization(), i.e. the
// way the STF pipeline calls it (latest block's slot and guarantees, posterior
// phi, prior alpha -> posterior alpha of the global chain state).
func c24CheckSingleton(c *kit.Case, in c24Input) {
	c24SetMode(in.Full)
	blockchain.ResetInstance()
	cs := blockchain.GetInstance()
	c24Run(c, in, func(slot types.TimeSlot, eg types.GuaranteesExtrinsic, alpha types.AuthPools, varphi types.AuthQueues) (types.AuthPools, error) {
		cs.AddBlock(types.Block{Header: types.Header{Slot: slot}, Extrinsic: types.Extrinsic{Guarantees: eg}})
		cs.GetPosteriorStates().SetVarphi(varphi)
		cs.GetPriorStates().SetAlpha(alpha)
		if err := Authorization(); err != nil {
			return nil, err
		}
		return cs.GetPosteriorStates().GetAlpha(), nil
	})
}

func TestVerif_C24(t *testing.T) {
	logger.Disable()
	s := kit.Begin(t, "C24")
	defer s.Finish()
	kit.Run(s, "pool_transition_vs_model", kit.N{Quick: 30000, Thorough: 1200000}, c24Gen, c24CheckDirect)
	kit.Run(s, "authorization_via_chain_state", kit.N{Quick: 4000, Thorough: 60000}, c24Gen, c24CheckSingleton)
}
