package PVM

// Shared pieces of the PVM-family harnesses (C01-C06, C33): generated machine
// states as DATA, program generators, conversion to the implementation's and
// the reference's representations, and run wrappers.

import (
	"bytes"
	"fmt"
	"sort"

	ref "github.com/New-JAMneration/JAM-Protocol/internal/verifref/refpvm"
	"pgregory.net/rapid"
)

// ---------- generated state as data ----------

type vpPage struct {
	Page   uint32 `json:"page"`
	Access int    `json:"access"` // 0 present-but-inaccessible, 1 R, 2 W
	Fill   uint8  `json:"fill"`   // deterministic content pattern seed
}

type vpHostAct struct {
	Kind   int    `json:"kind"` // 0 continue, 1 halt, 2 panic, 3 oog
	GasFee int64  `json:"fee"`  // gas charged by the stub when continuing
	SetR7  uint64 `json:"r7"`   // value written to ω7 when continuing
	Poke   bool   `json:"poke"` // stub writes one byte to the first writable page
}

type vpState struct {
	Blob  []byte      `json:"blob"`
	PC    uint32      `json:"pc"`
	Gas   int64       `json:"gas"`
	Regs  [13]uint64  `json:"regs"`
	Pages []vpPage    `json:"pages"`
	Host  []vpHostAct `json:"host"`  // schedule: call k uses Host[k % len]
	Heap  uint64      `json:"heap"`  // initial heap pointer (sbrk); 0 = unset
	HeapL uint64      `json:"heapl"` // heap limit
}

func vpFill(p vpPage) []byte {
	d := make([]byte, ZP)
	if p.Fill == 0 {
		return d
	}
	for i := range d {
		d[i] = byte(i)*p.Fill + byte(i>>8) + p.Fill
	}
	return d
}

func vpImplMemoryHeap(st *vpState) *Memory {
	m := vpImplMemory(st.Pages)
	m.heapPointer, m.heapLimit = st.Heap, st.HeapL
	return m
}

func vpImplMemory(pages []vpPage) *Memory {
	m := &Memory{Pages: map[uint32]*Page{}}
	for _, p := range pages {
		acc := MemoryInaccessible
		switch p.Access {
		case 1:
			acc = MemoryReadOnly
		case 2:
			acc = MemoryReadWrite
		}
		m.Pages[p.Page] = &Page{Value: vpFill(p), Access: acc}
	}
	return m
}

func vpRefMemory(pages []vpPage) ref.Memory {
	m := ref.Memory{}
	for _, p := range pages {
		m[p.Page] = &ref.Page{Access: ref.Access(p.Access), Data: vpFill(p)}
	}
	return m
}

// ---------- outcome (common observation of both sides) ----------

type vpOutcome struct {
	Kind      string // halt panic oog fault host deblob_reject gopanic unsupported
	Arg       uint64 // fault address / host id
	Counter   uint32
	Regs      [13]uint64
	Gas       int64
	HostIDs   []uint64
	GoPanic   string
	MemDigest map[uint32]string // page -> "acc:content" only for pages that differ from initial or all? (all, compact)
}

func vpImplMemObs(m *Memory) map[uint32]string {
	out := map[uint32]string{}
	for n, p := range m.Pages {
		if p == nil {
			continue
		}
		out[n] = fmt.Sprintf("%d:%x", p.Access, vpSum(p.Value))
	}
	return out
}

func vpRefMemObs(m ref.Memory) map[uint32]string {
	out := map[uint32]string{}
	for n, p := range m {
		out[n] = fmt.Sprintf("%d:%x", p.Access, vpSum(p.Data))
	}
	return out
}

func vpSum(b []byte) uint64 {
	// FNV-1a 64 over the page (cheap, collision risk irrelevant here: also compared bytewise on mismatch)
	h := uint64(14695981039346656037)
	for _, x := range b {
		h ^= uint64(x)
		h *= 1099511628211
	}
	return h
}

// vpMemDiff compares two memory observations treating an absent page and a
// present-but-inaccessible ALL-ZERO page as the same thing (both unreadable).
func vpMemDiff(a, b map[uint32]string) string {
	zero := fmt.Sprintf("0:%x", vpSum(make([]byte, ZP)))
	keys := map[uint32]bool{}
	for k := range a {
		keys[k] = true
	}
	for k := range b {
		keys[k] = true
	}
	ks := make([]uint32, 0, len(keys))
	for k := range keys {
		ks = append(ks, k)
	}
	sort.Slice(ks, func(i, j int) bool { return ks[i] < ks[j] })
	for _, k := range ks {
		x, okx := a[k]
		y, oky := b[k]
		if !okx {
			x = zero
		}
		if !oky {
			y = zero
		}
		if x != y {
			return fmt.Sprintf("page %#x: %s vs %s", k, x, y)
		}
	}
	return ""
}

// ---------- running the implementation (top-level engine through Ψ_H) ----------

type vpStubLog struct {
	ids   []uint64
	calls int
}

func vpImplOmegas(st *vpState, log *vpStubLog) Omegas {
	om := make(Omegas, 256)
	for id := 0; id < 256; id++ {
		id := id
		om[id] = func(in OmegaInput) OmegaOutput {
			log.ids = append(log.ids, uint64(id))
			k := log.calls
			log.calls++
			if len(st.Host) == 0 {
				return OmegaOutput{ExitReason: ExitPanic, Addition: in.Addition}
			}
			act := st.Host[k%len(st.Host)]
			switch act.Kind {
			case 1:
				return OmegaOutput{ExitReason: ExitHalt, Addition: in.Addition}
			case 2:
				return OmegaOutput{ExitReason: ExitPanic, Addition: in.Addition}
			case 3:
				return OmegaOutput{ExitReason: ExitOOG, Addition: in.Addition}
			}
			if *in.VM.Gas < Gas(act.GasFee) {
				return OmegaOutput{ExitReason: ExitOOG, Addition: in.Addition}
			}
			*in.VM.Gas -= Gas(act.GasFee)
			in.VM.Registers[7] = act.SetR7
			if act.Poke {
				vpPokeImpl(in.VM.Memory, byte(k+1))
			}
			return OmegaOutput{ExitReason: ExitContinue, Addition: in.Addition}
		}
	}
	return om
}

func vpPokeImpl(m *Memory, v byte) {
	best := uint32(0)
	found := false
	for n, p := range m.Pages {
		if p != nil && p.Access == MemoryReadWrite && (!found || n < best) {
			best, found = n, true
		}
	}
	if found {
		m.Pages[best].Value[7] = v
	}
}

func vpPokeRef(m ref.Memory, v byte) {
	best := uint32(0)
	found := false
	for n, p := range m {
		if p.Access == ref.AccW && (!found || n < best) {
			best, found = n, true
		}
	}
	if found {
		m[best].Data[7] = v
	}
}

func vpExitKind(e ExitReason) (string, uint64) {
	switch e.GetReasonType() {
	case HALT:
		return "halt", 0
	case PANIC:
		return "panic", 0
	case OUT_OF_GAS:
		return "oog", 0
	case PAGE_FAULT:
		return "fault", uint64(e.GetPageFaultAddress())
	case HOST_CALL:
		return "host", uint64(e.GetHostCallID())
	case CONTINUE:
		return "continue", 0
	}
	return fmt.Sprintf("unknown(%d)", e.GetReasonType()), 0
}

// vpRunImpl runs the blob through DeBlobProgramCode + Host.HostCall (Ψ_H over
// the pre-decoded block engine) with logging host stubs. Go panics are caught
// and reported as outcome kind "gopanic".
func vpRunImpl(st *vpState) (out vpOutcome) {
	log := &vpStubLog{}
	defer func() {
		if r := recover(); r != nil {
			out = vpOutcome{Kind: "gopanic", GoPanic: fmt.Sprint(r), HostIDs: log.ids}
		}
	}()
	blob := append([]byte(nil), st.Blob...)
	prog, er := DeBlobProgramCode(blob)
	if er != ExitContinue {
		return vpOutcome{Kind: "deblob_reject"}
	}
	defer func() {
		// the program blob belongs to the caller: loading and running it must not modify it
		// (a write through a slice that aliases the blob would change what a second run sees)
		if out.Kind != "gopanic" && !bytes.Equal(blob, st.Blob) {
			out.Kind = "blob_modified_by_the_run"
		}
	}()
	mem := vpImplMemory(st.Pages)
	host := NewHost(&prog, Registers(st.Regs), mem, Gas(st.Gas), HostCallArgs{}, vpImplOmegas(st, log))
	res := host.HostCall(ProgramCounter(st.PC), 0)
	k, arg := vpExitKind(res.ExitReason)
	out = vpOutcome{Kind: k, Arg: arg, Counter: res.Counter, Regs: [13]uint64(*res.VM.Registers), Gas: int64(*res.VM.Gas),
		HostIDs: log.ids, MemDigest: vpImplMemObs(res.VM.Memory)}
	return out
}

// vpRunRef runs the reference machine with the same stub schedule.
func vpRunRef(st *vpState, maxSteps int) (vpOutcome, *ref.Machine, int) {
	prog, status := ref.Deblob(st.Blob)
	if status == 1 {
		return vpOutcome{Kind: "deblob_reject"}, nil, status
	}
	m := &ref.Machine{P: prog, PC: uint64(st.PC), Gas: st.Gas, Regs: st.Regs, Mem: vpRefMemory(st.Pages)}
	var ids []uint64
	calls := 0
	for {
		e := m.Run(maxSteps)
		switch e.Kind {
		case ref.Continue:
			return vpOutcome{Kind: "steplimit"}, m, status
		case ref.Host:
			if e.Arg >= 256 {
				// outside the harness' 256-entry stub table: the dispatcher's own rule for an
				// undefined identifier applies (C07: charge 10, ω7 = WHAT, continue; OOG if unpaid)
				ids = append(ids, e.Arg)
				m.Gas -= 10
				if m.Gas < 0 {
					return vpRefOutcome(m, "oog", 0, ids), m, status
				}
				m.Regs[7] = ^uint64(1) // WHAT = 2^64-2
				continue
			}
			ids = append(ids, e.Arg)
			k := calls
			calls++
			if len(st.Host) == 0 {
				return vpRefOutcome(m, "panic", 0, ids), m, status
			}
			act := st.Host[k%len(st.Host)]
			switch act.Kind {
			case 1:
				return vpRefOutcome(m, "halt", 0, ids), m, status
			case 2:
				return vpRefOutcome(m, "panic", 0, ids), m, status
			case 3:
				return vpRefOutcome(m, "oog", 0, ids), m, status
			}
			if m.Gas < act.GasFee {
				return vpRefOutcome(m, "oog", 0, ids), m, status
			}
			m.Gas -= act.GasFee
			m.Regs[7] = act.SetR7
			if act.Poke {
				vpPokeRef(m.Mem, byte(k+1))
			}
			continue
		case ref.Halt:
			return vpRefOutcome(m, "halt", 0, ids), m, status
		case ref.Panic:
			return vpRefOutcome(m, "panic", 0, ids), m, status
		case ref.OOG:
			return vpRefOutcome(m, "oog", 0, ids), m, status
		case ref.Fault:
			return vpRefOutcome(m, "fault", e.Arg, ids), m, status
		case ref.Unsupported:
			return vpRefOutcome(m, "unsupported", 0, ids), m, status
		}
	}
}

func vpRefOutcome(m *ref.Machine, kind string, arg uint64, ids []uint64) vpOutcome {
	return vpOutcome{Kind: kind, Arg: arg, Counter: uint32(m.PC), Regs: m.Regs, Gas: m.Gas, HostIDs: ids, MemDigest: vpRefMemObs(m.Mem)}
}

// ---------- blob assembly ----------

func vpNatural(x uint64) []byte {
	if x < 1<<7 {
		return []byte{byte(x)}
	}
	for l := 1; l < 8; l++ {
		if x < uint64(1)<<(7*uint(l+1)) {
			out := []byte{byte(0x100 - (0x100 >> uint(l)) + int(x>>(8*uint(l))))}
			for i := 0; i < l; i++ {
				out = append(out, byte(x>>(8*uint(i))))
			}
			return out
		}
	}
	out := []byte{0xFF}
	for i := 0; i < 8; i++ {
		out = append(out, byte(x>>(8*uint(i))))
	}
	return out
}

// vpAssemble builds a program blob from code, bitmask bits and a jump table.
func vpAssemble(code []byte, k []bool, jt []uint64, z int) []byte {
	var b bytes.Buffer
	b.Write(vpNatural(uint64(len(jt))))
	b.WriteByte(byte(z))
	b.Write(vpNatural(uint64(len(code))))
	for _, e := range jt {
		for i := 0; i < z; i++ {
			if i < 8 {
				b.WriteByte(byte(e >> (8 * uint(i))))
			} else {
				b.WriteByte(0)
			}
		}
	}
	b.Write(code)
	kb := make([]byte, (len(code)+7)/8)
	for i, bit := range k {
		if bit {
			kb[i/8] |= 1 << (uint(i) % 8)
		}
	}
	b.Write(kb)
	return b.Bytes()
}

// vpAssembleGen is vpAssemble plus, for entry widths above 8 octets, sometimes a non-zero octet
// above the 64-bit part of one entry (the entry then denotes a number >= 2^64, which is no
// basic-block start whatever its low octets say).
func vpAssembleGen(rt *rapid.T, code []byte, k []bool, jt []uint64, z int) []byte {
	b := vpAssemble(code, k, jt, z)
	if z > 8 && len(jt) > 0 && rapid.Bool().Draw(rt, "wide_entry_high_octet") {
		idx := rapid.IntRange(0, len(jt)-1).Draw(rt, "wide_entry")
		oct := rapid.IntRange(8, z-1).Draw(rt, "wide_octet")
		off := len(vpNatural(uint64(len(jt)))) + 1 + len(vpNatural(uint64(len(code)))) + idx*z + oct
		b[off] = byte(rapid.IntRange(1, 255).Draw(rt, "wide_value"))
	}
	return b
}

// ---------- generators ----------

var vpValidOps = func() []byte {
	var o []byte
	add := func(a, b int) {
		for i := a; i <= b; i++ {
			o = append(o, byte(i))
		}
	}
	add(0, 1)
	add(10, 10)
	add(20, 20)
	add(30, 33)
	add(40, 40)
	add(50, 62)
	add(70, 73)
	add(80, 90)
	add(100, 111)
	add(120, 161)
	add(170, 175)
	add(180, 180)
	add(190, 230)
	return o
}()

var vpBoundary64 = []uint64{0, 1, 2, 0x7F, 0x80, 0xFF, 0x100, 0x7FFF, 0x8000, 0xFFFF, 0x10000, 0x7FFFFFFF, 0x80000000,
	0xFFFFFFFF, 0x100000000, 0x7FFFFFFFFFFFFFFF, 0x8000000000000000, 0xFFFFFFFFFFFFFFFF, 0xFFFFFFFFFFFFFFFE,
	0xFFFFFFFF80000000, 0xFFFFFFFFFFFF8000, 0xFFFFFFFFFFFFFF80, 31, 32, 33, 63, 64, 65}

func vpGenU64(rt *rapid.T, label string) uint64 {
	switch rapid.IntRange(0, 3).Draw(rt, label+"_k") {
	case 0:
		return rapid.SampledFrom(vpBoundary64).Draw(rt, label+"_b")
	case 1:
		return uint64(rapid.IntRange(0, 300).Draw(rt, label+"_s"))
	default:
		return rapid.Uint64().Draw(rt, label+"_r")
	}
}

var vpPageChoices = []uint32{16, 17, 18, 32, 33, 0x20, 0xFFFFE, 0xFFFFF, 0x1000, 0x1001}

func vpGenPages(rt *rapid.T) []vpPage {
	n := rapid.IntRange(0, 5).Draw(rt, "npages")
	seen := map[uint32]bool{}
	var out []vpPage
	for i := 0; i < n; i++ {
		p := rapid.SampledFrom(vpPageChoices).Draw(rt, "page")
		if seen[p] {
			continue
		}
		seen[p] = true
		acc := rapid.SampledFrom([]int{2, 2, 2, 1, 1, 0}).Draw(rt, "acc")
		out = append(out, vpPage{Page: p, Access: acc, Fill: uint8(rapid.IntRange(0, 255).Draw(rt, "fill"))})
	}
	sort.Slice(out, func(i, j int) bool { return out[i].Page < out[j].Page })
	return out
}

// address-ish register values: near the edges of the generated pages
func vpGenAddr(rt *rapid.T, pages []vpPage, label string) uint64 {
	if len(pages) == 0 || rapid.IntRange(0, 5).Draw(rt, label+"_rnd") == 0 {
		return rapid.SampledFrom([]uint64{0, 0xFFFF, 0x10000, 0xFFFE, 0xFFFFFFFF, 0xFFFFFFF8, 0x10000 - 8, 0xFFFF0000}).Draw(rt, label+"_fixed")
	}
	p := rapid.SampledFrom(pages).Draw(rt, label+"_pg")
	base := uint64(p.Page) * ZP
	off := rapid.SampledFrom([]int64{-8, -4, -2, -1, 0, 1, 2, 7, 8, 100, ZP - 8, ZP - 4, ZP - 2, ZP - 1, ZP, ZP + 1}).Draw(rt, label+"_off")
	v := uint64(int64(base) + off)
	if rapid.IntRange(0, 7).Draw(rt, label+"_hi") == 0 {
		v |= uint64(rapid.IntRange(1, 0xFFFF).Draw(rt, label+"_hibits")) << 32 // high bits must be ignored (mod 2^32)
	}
	return v
}

// vpCornerPairs: operand pairs at which two-register arithmetic has a special case (signed
// overflow of the quotient, division by zero, shift counts at the width), in 32- and 64-bit
// flavours; the 32-bit ones also with "dirty" upper halves, which a 32-bit instruction must ignore.
var vpCornerPairs = [][2]uint64{
	{0x80000000, 0xFFFFFFFF}, {0xFFFFFFFF80000000, 0xFFFFFFFFFFFFFFFF}, {0x1234567880000000, 0x00000001FFFFFFFF},
	{0xDEADBEEF80000000, 0xFFFFFFFF}, {0x8000000000000000, 0xFFFFFFFFFFFFFFFF}, {0x80000000, 0}, {0x8000000000000000, 0},
	{0x80000001, 0xFFFFFFFF}, {0x7FFFFFFF, 0xFFFFFFFF}, {0xFFFFFFFF, 0x80000000}, {1, 0x100000000}, {7, 0xFFFFFFFF00000000},
	{0xFFFFFFFFFFFFFFFF, 32}, {0xFFFFFFFFFFFFFFFF, 64}, {0x80000000, 31}, {0x8000000000000000, 63}, {1, 0xFFFFFFFFFFFFFFE0},
}

func vpGenRegs(rt *rapid.T, pages []vpPage) [13]uint64 {
	var r [13]uint64
	for i := range r {
		if rapid.IntRange(0, 2).Draw(rt, "regkind") == 0 {
			r[i] = vpGenAddr(rt, pages, "rega")
		} else {
			r[i] = vpGenU64(rt, "reg")
		}
	}
	// corner pairs spread over the registers the generated instructions pick their operands from
	switch rapid.IntRange(0, 3).Draw(rt, "corner_pairs") {
	case 0:
		p := rapid.SampledFrom(vpCornerPairs).Draw(rt, "corner")
		for i := range r {
			r[i] = p[i%2]
		}
		if rapid.Bool().Draw(rt, "corner_swapped") {
			for i := range r {
				r[i] = p[(i+1)%2]
			}
		}
	case 1:
		p := rapid.SampledFrom(vpCornerPairs).Draw(rt, "corner")
		a, b := rapid.IntRange(0, 12).Draw(rt, "corner_a"), rapid.IntRange(0, 12).Draw(rt, "corner_b")
		r[a], r[b] = p[0], p[1]
	}
	return r
}

func vpGenHost(rt *rapid.T) []vpHostAct {
	n := rapid.IntRange(0, 4).Draw(rt, "nhost")
	var out []vpHostAct
	for i := 0; i < n; i++ {
		out = append(out, vpHostAct{
			Kind:   rapid.SampledFrom([]int{0, 0, 0, 0, 0, 1, 2, 3}).Draw(rt, "hk"),
			GasFee: int64(rapid.SampledFrom([]int{0, 1, 10, 10, 10, 100}).Draw(rt, "hfee")),
			SetR7:  vpGenU64(rt, "hr7"),
			Poke:   rapid.IntRange(0, 3).Draw(rt, "hpoke") == 0,
		})
	}
	return out
}

// operand layout knowledge for the GENERATOR only (so that it emits mostly
// sensible instructions); the oracle does not use this table.
// kind: 0 none,1 imm,2 reg+imm64,3 two imm,4 offset,5 reg+imm,6 reg+2imm,7 reg+imm+off,8 two regs,9 2reg+imm,10 2reg+off,11 2reg+2imm,12 three regs
func vpOperandKind(op byte) int {
	switch {
	case op <= 1:
		return 0
	case op == 10:
		return 1
	case op == 20:
		return 2
	case op >= 30 && op <= 33:
		return 3
	case op == 40:
		return 4
	case op >= 50 && op <= 62:
		return 5
	case op >= 70 && op <= 73:
		return 6
	case op >= 80 && op <= 90:
		return 7
	case op >= 100 && op <= 111:
		return 8
	case op >= 120 && op <= 161:
		return 9
	case op >= 170 && op <= 175:
		return 10
	case op == 180:
		return 11
	case op >= 190 && op <= 230:
		return 12
	}
	return 0
}

type vpInstr struct {
	op      byte
	bytes   []byte // operand bytes (without opcode), length = skip
	offAt   int    // index in bytes where a branch offset field starts (-1 none)
	offLen  int
	isTerm  bool
	pos     int
	jtIndex int
}

func vpImmBytes(rt *rapid.T, n int, label string) []byte {
	if n == 0 {
		return nil
	}
	v := vpGenU64(rt, label)
	out := make([]byte, n)
	for i := range out {
		out[i] = byte(v >> (8 * uint(i)))
	}
	if rapid.IntRange(0, 3).Draw(rt, label+"_neg") == 0 {
		out[n-1] |= 0x80 // make the sign bit of the field matter
	}
	return out
}

// vpGenProgram builds a grammar-directed instruction stream.
func vpGenProgram(rt *rapid.T, withSbrk bool, maxInstr int) (code []byte, k []bool, jt []uint64, z int) {
	n := rapid.IntRange(1, maxInstr).Draw(rt, "ninstr")
	var ins []vpInstr
	for i := 0; i < n; i++ {
		var op byte
		switch rapid.IntRange(0, 19).Draw(rt, "opk") {
		case 0:
			op = byte(rapid.IntRange(0, 255).Draw(rt, "anyop")) // possibly invalid
		default:
			op = rapid.SampledFrom(vpValidOps).Draw(rt, "op")
		}
		if op == 101 && !withSbrk {
			op = 100
		}
		kind := vpOperandKind(op)
		if !ref.ValidOpcode(op) {
			kind = rapid.IntRange(0, 12).Draw(rt, "invkind")
		}
		in := vpInstr{op: op, offAt: -1, isTerm: ref.Terminator(op)}
		regb := byte(rapid.IntRange(0, 255).Draw(rt, "regbyte"))
		if rapid.IntRange(0, 3).Draw(rt, "regsmall") != 0 {
			regb = byte(rapid.IntRange(0, 12).Draw(rt, "r1")) | byte(rapid.IntRange(0, 12).Draw(rt, "r2"))<<4
		}
		il := func(label string) int { return rapid.SampledFrom([]int{0, 1, 1, 2, 3, 4, 4}).Draw(rt, label) }
		switch kind {
		case 0:
		case 1:
			in.bytes = vpImmBytes(rt, il("l1"), "imm")
		case 2:
			in.bytes = append([]byte{regb}, vpImmBytes(rt, 8, "imm64")...)
		case 3:
			lx := il("lx")
			ly := il("ly")
			first := byte(lx) | byte(rapid.IntRange(0, 31).Draw(rt, "hi5"))<<3
			if rapid.IntRange(0, 9).Draw(rt, "lxbig") == 0 {
				first = byte(rapid.IntRange(0, 255).Draw(rt, "firstany"))
				lx = int(first % 8)
				if lx > 4 {
					lx = 4
				}
			} else {
				first = byte(lx) | (first & 0xF8 &^ 0x07)
				first = byte(lx) | (first &^ 0x07)
			}
			in.bytes = append([]byte{first}, vpImmBytes(rt, lx, "vx")...)
			in.bytes = append(in.bytes, vpImmBytes(rt, ly, "vy")...)
		case 4:
			l := rapid.SampledFrom([]int{1, 2, 4, 4}).Draw(rt, "offl")
			in.offAt, in.offLen = 0, l
			in.bytes = make([]byte, l)
		case 5:
			in.bytes = append([]byte{regb}, vpImmBytes(rt, il("l5"), "imm")...)
		case 6:
			lx := il("lx")
			ly := il("ly")
			first := (regb & 0x0F) | byte(lx)<<4
			if rapid.IntRange(0, 7).Draw(rt, "hibit") == 0 {
				first |= 0x80 // lX nibble >= 8: must be taken mod 8
			}
			in.bytes = append([]byte{first}, vpImmBytes(rt, lx, "vx")...)
			in.bytes = append(in.bytes, vpImmBytes(rt, ly, "vy")...)
		case 7:
			lx := il("lx")
			l := rapid.SampledFrom([]int{1, 2, 4, 4}).Draw(rt, "offl")
			first := (regb & 0x0F) | byte(lx)<<4
			if rapid.IntRange(0, 7).Draw(rt, "hibit") == 0 {
				first |= 0x80
			}
			in.bytes = append([]byte{first}, vpImmBytes(rt, lx, "vx")...)
			in.offAt, in.offLen = len(in.bytes), l
			in.bytes = append(in.bytes, make([]byte, l)...)
		case 8:
			in.bytes = []byte{regb}
		case 9:
			in.bytes = append([]byte{regb}, vpImmBytes(rt, il("l9"), "imm")...)
		case 10:
			l := rapid.SampledFrom([]int{1, 2, 4, 4}).Draw(rt, "offl")
			in.bytes = []byte{regb}
			in.offAt, in.offLen = 1, l
			in.bytes = append(in.bytes, make([]byte, l)...)
		case 11:
			lx := il("lx")
			ly := il("ly")
			second := byte(lx)
			if rapid.IntRange(0, 7).Draw(rt, "hibit") == 0 {
				second |= byte(rapid.IntRange(1, 31).Draw(rt, "hib")) << 3
			}
			in.bytes = append([]byte{regb, second}, vpImmBytes(rt, lx, "vx")...)
			in.bytes = append(in.bytes, vpImmBytes(rt, ly, "vy")...)
		case 12:
			rd := byte(rapid.IntRange(0, 12).Draw(rt, "rd"))
			if rapid.IntRange(0, 7).Draw(rt, "rdbig") == 0 {
				rd = byte(rapid.IntRange(13, 255).Draw(rt, "rdb"))
			}
			in.bytes = []byte{regb, rd}
		}
		// skip-length variation independent of the natural length
		switch rapid.IntRange(0, 15).Draw(rt, "skipvar") {
		case 0: // shorter
			if len(in.bytes) > 0 {
				cut := rapid.IntRange(0, len(in.bytes)-1).Draw(rt, "cut")
				in.bytes = in.bytes[:cut]
				if in.offAt >= 0 && in.offAt+in.offLen > cut {
					in.offAt = -1
				}
			}
		case 1: // longer
			extra := rapid.SampledFrom([]int{1, 2, 5, 24 - len(in.bytes), 25 - len(in.bytes), 30}).Draw(rt, "extra")
			if extra > 0 {
				in.bytes = append(in.bytes, vpImmBytes(rt, extra, "pad")...)
			}
		}
		ins = append(ins, in)
	}
	// terminate most programs properly
	if rapid.IntRange(0, 9).Draw(rt, "endterm") != 0 {
		ins = append(ins, vpInstr{op: byte(rapid.SampledFrom([]int{0, 0, 1}).Draw(rt, "endop")), offAt: -1, isTerm: true})
	}
	// positions
	pos := 0
	var starts []int
	blockStarts := []int{0}
	for i := range ins {
		ins[i].pos = pos
		starts = append(starts, pos)
		pos += 1 + len(ins[i].bytes)
		if ins[i].isTerm && len(ins[i].bytes) <= 24 {
			blockStarts = append(blockStarts, pos)
		}
	}
	total := pos
	// jump table
	z = rapid.SampledFrom([]int{1, 2, 2, 4, 4, 8, 3, 0}).Draw(rt, "z")
	if rapid.IntRange(0, 19).Draw(rt, "zbig") == 0 {
		z = rapid.SampledFrom([]int{9, 9, 10, 12, 16}).Draw(rt, "zb")
	}
	nj := rapid.IntRange(0, 6).Draw(rt, "nj")
	for i := 0; i < nj; i++ {
		var e uint64
		switch rapid.IntRange(0, 5).Draw(rt, "jk") {
		case 0:
			e = uint64(rapid.SampledFrom(starts).Draw(rt, "jstart"))
		case 1:
			e = uint64(rapid.IntRange(0, total+2).Draw(rt, "jany"))
		case 2:
			e = vpGenU64(rt, "jbig")
		default:
			e = uint64(rapid.SampledFrom(blockStarts).Draw(rt, "jblock"))
		}
		if z < 8 && z > 0 {
			e &= (uint64(1) << (8 * uint(z))) - 1
		}
		if z == 0 {
			e = 0
		}
		jt = append(jt, e)
	}
	// fill branch offsets
	for i := range ins {
		in := &ins[i]
		if in.offAt < 0 {
			continue
		}
		var target int
		switch rapid.IntRange(0, 9).Draw(rt, "tk") {
		case 0:
			target = rapid.SampledFrom(starts).Draw(rt, "tstart")
		case 1:
			target = rapid.IntRange(-3, total+30).Draw(rt, "tany")
		case 2:
			target = in.pos // self loop
		default:
			target = rapid.SampledFrom(blockStarts).Draw(rt, "tblock")
		}
		off := int64(target - in.pos)
		for b := 0; b < in.offLen; b++ {
			in.bytes[in.offAt+b] = byte(uint64(off) >> (8 * uint(b)))
		}
	}
	code = make([]byte, 0, total)
	k = make([]bool, 0, total)
	for _, in := range ins {
		code = append(code, in.op)
		k = append(k, true)
		code = append(code, in.bytes...)
		for range in.bytes {
			k = append(k, false)
		}
	}
	// bitmask mutations
	nm := rapid.SampledFrom([]int{0, 0, 0, 0, 0, 0, 1, 2}).Draw(rt, "kmut")
	for i := 0; i < nm && len(k) > 0; i++ {
		j := rapid.IntRange(0, len(k)-1).Draw(rt, "kmutat")
		k[j] = !k[j]
	}
	return code, k, jt, z
}

func vpGenGas(rt *rapid.T) int64 {
	switch rapid.IntRange(0, 5).Draw(rt, "gask") {
	case 0:
		return int64(rapid.IntRange(0, 12).Draw(rt, "gsmall"))
	case 1:
		return int64(rapid.IntRange(0, 200).Draw(rt, "gmid"))
	default:
		return int64(rapid.IntRange(100, 3000).Draw(rt, "glarge"))
	}
}

// vpStripDigits shortens a divergence message into a class name (survey mode).
func vpStripDigits(s string, n int) string {
	out := make([]byte, 0, len(s))
	for i := 0; i < len(s) && len(out) < n; i++ {
		ch := s[i]
		if ch >= '0' && ch <= '9' {
			if len(out) > 0 && out[len(out)-1] == '#' {
				continue
			}
			ch = '#'
		}
		if ch == '\n' {
			break
		}
		out = append(out, ch)
	}
	return string(out)
}
