// Package verifkit is the shared runtime of the /verif property harnesses. It is
// injected as a virtual package (internal/verifkit) with `go test -overlay`; it
// is never committed to the repository.
//
// A harness is   gen : *rapid.T -> I   (all randomness inside rapid)
//
//	check : (*Case, I)        (pure function of I and the code under test)
//
// kit.Run drives gen+check under rapid with a seed derived from VERIF_SEED and
// the shard, records statistics (evaluations, distinct non-trivial cases,
// classes, samples, known-finding hits), and on failure stores the *shrunk*
// input I as a JSON replay file which kit replays through check alone,
// bypassing rapid (VERIF_REPLAY).
package verifkit

import (
	"crypto/sha256"
	"encoding/binary"
	"encoding/json"
	"flag"
	"fmt"
	"hash/fnv"
	"os"
	"path/filepath"
	"runtime/debug"
	"sort"
	"strconv"
	"strings"
	"sync"
	"testing"
	"time"

	"pgregory.net/rapid"
)

// Session is one test-binary run of one property (one shard).
type Session struct {
	ID       string
	T        *testing.T
	Tier     string
	Seed     uint64
	Shard    int
	NShards  int
	OutDir   string
	ReplayIn string

	mu          sync.Mutex
	evals       int64
	nontriv     map[uint64]struct{}
	classes     map[string]int64
	samples     []json.RawMessage
	ntSamples   []json.RawMessage
	known       map[string]int64
	knownDetail map[string]string
	knownOK     map[string]bool // ids listed as status=known for this property
	lastFail    *failRec
	violation   *failRec
	subs        []subRec
	start       time.Time
	finished    bool
	exhaustive  bool
	notes       []string
	sentinelOn  bool
	sentinelF   *os.File
	sentinelLen int
	enumCounts  map[string]int64
	maxSamples  int
}

type subRec struct {
	Name      string `json:"name"`
	Requested int    `json:"requested"`
	Evals     int64  `json:"evaluations"`
}

type failRec struct {
	Sub   string          `json:"sub"`
	Msg   string          `json:"msg"`
	Input json.RawMessage `json:"input"`
}

// N is a per-tier case count for a sub-property (total across shards).
type N struct{ Quick, Thorough int }

type failSignal struct{ msg string }
type knownSignal struct{}

// Case is the per-case handle given to a check function.
type Case struct {
	s        *Session
	sub      string
	inputRaw func() json.RawMessage
	nontriv  bool
	ntKey    []byte
	classes  []string
}

// Begin opens the session. Environment (set by /verif/check):
// VERIF_OUT dir, VERIF_TIER, VERIF_SEED, VERIF_SHARD=i/N, VERIF_REPLAY, VERIF_KNOWN.
func Begin(t *testing.T, id string) *Session {
	s := &Session{ID: id, T: t, Tier: "quick", Seed: 1, Shard: 0, NShards: 1,
		nontriv: map[uint64]struct{}{}, classes: map[string]int64{}, known: map[string]int64{},
		knownDetail: map[string]string{}, knownOK: map[string]bool{}, start: time.Now(), maxSamples: 6}
	if v := os.Getenv("VERIF_TIER"); v != "" {
		s.Tier = v
	}
	if v := os.Getenv("VERIF_SEED"); v != "" {
		if n, err := strconv.ParseUint(v, 10, 64); err == nil {
			s.Seed = n
		} else if n, err := strconv.ParseInt(v, 10, 64); err == nil {
			s.Seed = uint64(n)
		}
	}
	if s.Seed == 0 {
		s.Seed = 1
	}
	if v := os.Getenv("VERIF_SHARD"); v != "" {
		parts := strings.Split(v, "/")
		if len(parts) == 2 {
			s.Shard, _ = strconv.Atoi(parts[0])
			s.NShards, _ = strconv.Atoi(parts[1])
			if s.NShards < 1 {
				s.NShards = 1
			}
		}
	}
	s.OutDir = os.Getenv("VERIF_OUT")
	if s.OutDir == "" {
		s.OutDir = os.TempDir()
	}
	s.ReplayIn = os.Getenv("VERIF_REPLAY")
	if p := os.Getenv("VERIF_KNOWN"); p != "" {
		if b, err := os.ReadFile(p); err == nil {
			var kf struct {
				Findings []struct {
					ID       string `json:"id"`
					Property string `json:"property"`
					Status   string `json:"status"`
				} `json:"findings"`
			}
			if json.Unmarshal(b, &kf) == nil {
				for _, f := range kf.Findings {
					if f.Property == id && f.Status == "known" {
						s.knownOK[f.ID] = true
					}
				}
			}
		}
	}
	// rapid must not write testdata/rapid fail files; we keep our own replays.
	_ = flag.Set("rapid.nofailfile", "true")
	st := os.Getenv("VERIF_SHRINKTIME")
	if st == "" {
		st = "8s"
	}
	_ = flag.Set("rapid.shrinktime", st)
	return s
}

// Thorough reports whether the thorough tier is running.
func (s *Session) Thorough() bool { return s.Tier == "thorough" }

// Replaying reports whether this run replays a saved case.
func (s *Session) Replaying() bool { return s.ReplayIn != "" }

// Pick returns q in the quick tier and t in the thorough tier.
func (s *Session) Pick(q, t int) int {
	if s.Thorough() {
		return t
	}
	return q
}

// EnableSentinel makes every case write its input to a sentinel file before the
// check runs, so the driver can attribute a process death (os.Exit, fatal
// error, stack overflow) to the in-flight case.
func (s *Session) EnableSentinel() { s.sentinelOn = true }

// SetExhaustive records that a finite space was enumerated completely.
func (s *Session) SetExhaustive(b bool) { s.exhaustive = b }

// Note attaches a free-text note to the evidence.
func (s *Session) Note(format string, a ...any) {
	s.mu.Lock()
	s.notes = append(s.notes, fmt.Sprintf(format, a...))
	s.mu.Unlock()
}

// Failed reports whether a violation has been recorded.
func (s *Session) Failed() bool { s.mu.Lock(); defer s.mu.Unlock(); return s.violation != nil }

func subSeed(seed uint64, shard int, sub string) uint64 {
	h := fnv.New64a()
	var b [16]byte
	binary.LittleEndian.PutUint64(b[:8], seed)
	binary.LittleEndian.PutUint64(b[8:], uint64(shard))
	h.Write(b[:])
	h.Write([]byte(sub))
	v := h.Sum64()
	if v == 0 {
		v = 1
	}
	return v
}

// Run drives one sub-property under rapid (or replays a saved case for it).
func Run[I any](s *Session, sub string, n N, gen func(*rapid.T) I, check func(*Case, I)) {
	if s.Failed() {
		return
	}
	if s.Replaying() {
		replay(s, sub, check)
		return
	}
	total := n.Quick
	if s.Thorough() {
		total = n.Thorough
	}
	per := (total + s.NShards - 1) / s.NShards
	if per < 1 {
		per = 1
	}
	_ = flag.Set("rapid.checks", strconv.Itoa(per))
	_ = flag.Set("rapid.seed", strconv.FormatUint(subSeed(s.Seed, s.Shard, sub), 10))
	before := s.evals
	rec := &recTB{name: s.T.Name() + "/" + sub}
	func() {
		defer func() {
			if r := recover(); r != nil {
				if _, ok := r.(recAbort); !ok {
					panic(r)
				}
			}
		}()
		rapid.Check(rec, func(rt *rapid.T) {
			in := gen(rt)
			runCase(s, sub, in, check, func(msg string) { rt.Fatalf("%s", msg) })
		})
	}()
	s.mu.Lock()
	s.subs = append(s.subs, subRec{Name: sub, Requested: per, Evals: s.evals - before})
	if rec.failed {
		if s.lastFail != nil {
			s.violation = s.lastFail
		} else {
			s.violation = &failRec{Sub: sub, Msg: "rapid reported failure without a recorded case: " + rec.msgs(), Input: json.RawMessage("null")}
		}
		if s.violation.Msg == "" {
			s.violation.Msg = rec.msgs()
		}
	}
	s.mu.Unlock()
}

// Each runs check on one explicitly enumerated input (no rapid). It returns
// false once a violation has been recorded so that enumerations can stop.
func Each[I any](s *Session, sub string, in I, check func(*Case, I)) bool {
	if s.Failed() {
		return false
	}
	failed := false
	runCase(s, sub, in, check, func(msg string) { failed = true })
	s.mu.Lock()
	if s.enumCounts == nil {
		s.enumCounts = map[string]int64{}
	}
	s.enumCounts[sub]++
	s.mu.Unlock()
	if failed {
		s.mu.Lock()
		s.violation = s.lastFail
		s.mu.Unlock()
		return false
	}
	return true
}

// EnumSub records an enumerated (non-rapid) sub-property in the evidence and, in
// replay mode, replays a saved case belonging to it. It returns true when the
// caller should skip its enumeration (replay mode).
func EnumSub[I any](s *Session, sub string, check func(*Case, I)) bool {
	if s.Replaying() {
		replay(s, sub, check)
		return true
	}
	return s.Failed()
}

func replay[I any](s *Session, sub string, check func(*Case, I)) {
	b, err := os.ReadFile(s.ReplayIn)
	if err != nil {
		s.T.Fatalf("replay: %v", err)
	}
	var fr failRec
	if err := json.Unmarshal(b, &fr); err != nil {
		s.T.Fatalf("replay: %v", err)
	}
	if fr.Sub != sub {
		return
	}
	var in I
	if err := json.Unmarshal(fr.Input, &in); err != nil {
		s.T.Fatalf("replay: cannot decode input: %v", err)
	}
	failed := false
	runCase(s, sub, in, check, func(msg string) { failed = true })
	s.mu.Lock()
	s.subs = append(s.subs, subRec{Name: sub + "(replay)", Requested: 1, Evals: 1})
	if failed {
		s.violation = s.lastFail
	}
	s.mu.Unlock()
}

func isRapidControlPanic(r any) bool {
	tn := fmt.Sprintf("%T", r)
	return tn == "rapid.stopTest" || tn == "rapid.invalidData"
}

func runCase[I any](s *Session, sub string, in I, check func(*Case, I), fail func(string)) {
	c := &Case{s: s, sub: sub}
	var cached json.RawMessage
	c.inputRaw = func() json.RawMessage {
		if cached == nil {
			b, err := json.Marshal(in)
			if err != nil {
				b, _ = json.Marshal(fmt.Sprintf("unmarshalable input: %v", err))
			}
			cached = b
		}
		return cached
	}
	if s.sentinelOn {
		fr := failRec{Sub: sub, Msg: "in-flight", Input: c.inputRaw()}
		b, _ := json.Marshal(fr)
		if s.sentinelF == nil {
			s.sentinelF, _ = os.OpenFile(filepath.Join(s.OutDir, fmt.Sprintf("sentinel.%d.json", s.Shard)), os.O_CREATE|os.O_RDWR|os.O_TRUNC, 0o644)
		}
		if s.sentinelF != nil {
			// one pwrite, padded with spaces to the previous length so that no truncate call is needed
			if len(b) < s.sentinelLen {
				pad := make([]byte, s.sentinelLen)
				copy(pad, b)
				for i := len(b); i < len(pad); i++ {
					pad[i] = ' '
				}
				b = pad
			}
			s.sentinelLen = len(b)
			_, _ = s.sentinelF.WriteAt(b, 0)
		}
	}
	var failMsg string
	failedHere := false
	func() {
		defer func() {
			r := recover()
			if r == nil {
				return
			}
			switch v := r.(type) {
			case failSignal:
				failedHere, failMsg = true, v.msg
			case knownSignal:
				// counted already; case passes
			default:
				if isRapidControlPanic(r) {
					panic(r)
				}
				failedHere = true
				failMsg = fmt.Sprintf("runtime panic escaped into the harness: %v\n%s", r, trimStack(debug.Stack()))
			}
		}()
		check(c, in)
	}()
	s.mu.Lock()
	s.evals++
	for _, cl := range c.classes {
		s.classes[cl]++
	}
	if c.nontriv {
		key := c.ntKey
		if key == nil {
			key = c.inputRaw()
		}
		sum := sha256.Sum256(key)
		d := binary.LittleEndian.Uint64(sum[:8])
		if _, ok := s.nontriv[d]; !ok {
			s.nontriv[d] = struct{}{}
			s.keepSample(&s.ntSamples, s.maxSamples, sampleOf(sub, c.inputRaw()))
		}
	} else {
		s.keepSample(&s.samples, 2, sampleOf(sub, c.inputRaw()))
	}
	if failedHere {
		s.lastFail = &failRec{Sub: sub, Msg: failMsg, Input: c.inputRaw()}
	}
	s.mu.Unlock()
	if failedHere {
		fail(failMsg)
	}
}

// keepSample keeps up to max samples, preferring short ones (readable evidence)
// once the list is full; the first few are kept regardless so that the run's
// earliest cases are represented.
func (s *Session) keepSample(list *[]json.RawMessage, max int, smp json.RawMessage) {
	if len(*list) < max {
		*list = append(*list, smp)
		return
	}
	if len(smp) > 700 {
		return
	}
	worst, wl := -1, 700
	for i, e := range *list {
		if len(e) > wl {
			worst, wl = i, len(e)
		}
	}
	if worst >= 0 {
		(*list)[worst] = smp
	}
}

func sampleOf(sub string, in json.RawMessage) json.RawMessage {
	if len(in) > 700 {
		b, _ := json.Marshal(map[string]any{"sub": sub, "input_truncated": string(in[:600]), "input_len": len(in)})
		return b
	}
	b, _ := json.Marshal(map[string]any{"sub": sub, "input": in})
	return b
}

func trimStack(b []byte) string {
	lines := strings.Split(string(b), "\n")
	if len(lines) > 40 {
		lines = lines[:40]
	}
	return strings.Join(lines, "\n")
}

// Failf records a violation for this case and aborts the check.
func (c *Case) Failf(format string, a ...any) {
	panic(failSignal{msg: fmt.Sprintf(format, a...)})
}

// NonTrivial marks the case as non-trivial by the property's stated rule.
func (c *Case) NonTrivial() { c.nontriv = true }

// NonTrivialKey marks the case non-trivial with an explicit distinctness key.
func (c *Case) NonTrivialKey(key []byte) { c.nontriv = true; c.ntKey = key }

// Class counts the case in a named class (distribution report).
func (c *Case) Class(name string) { c.classes = append(c.classes, name) }

// Known attributes a failing case to a listed known finding; the case is
// counted and treated as passing so the search continues past it. If the
// finding id is not listed with status "known" for this property in
// known_findings.json the case is a violation.
func (c *Case) Known(id, detail string) {
	s := c.s
	s.mu.Lock()
	ok := s.knownOK[id]
	if ok {
		s.known[id]++
		if _, has := s.knownDetail[id]; !has {
			s.knownDetail[id] = detail
		}
	}
	s.mu.Unlock()
	if !ok {
		panic(failSignal{msg: fmt.Sprintf("[%s not listed as known] %s", id, detail)})
	}
	panic(knownSignal{})
}

// KnownNote is Known without aborting the case (the check goes on).
func (c *Case) KnownNote(id, detail string) {
	s := c.s
	s.mu.Lock()
	ok := s.knownOK[id]
	if ok {
		s.known[id]++
		if _, has := s.knownDetail[id]; !has {
			s.knownDetail[id] = detail
		}
	}
	s.mu.Unlock()
	if !ok {
		panic(failSignal{msg: fmt.Sprintf("[%s not listed as known] %s", id, detail)})
	}
}

// Session returns the owning session.
func (c *Case) Session() *Session { return c.s }

// Finish writes the shard's stats and verdict. Call with defer.
func (s *Session) Finish() {
	s.mu.Lock()
	defer s.mu.Unlock()
	if s.finished {
		return
	}
	s.finished = true
	type out struct {
		ID          string            `json:"id"`
		Tier        string            `json:"tier"`
		Seed        uint64            `json:"seed"`
		Shard       int               `json:"shard"`
		NShards     int               `json:"nshards"`
		Evaluations int64             `json:"evaluations"`
		NonTrivial  []uint64          `json:"nontrivial_digests"`
		Classes     map[string]int64  `json:"classes"`
		Samples     []json.RawMessage `json:"samples"`
		Known       map[string]int64  `json:"known"`
		KnownDetail map[string]string `json:"known_detail"`
		Subs        []subRec          `json:"subs"`
		Status      string            `json:"status"`
		Replay      string            `json:"replay,omitempty"`
		Msg         string            `json:"msg,omitempty"`
		WallS       float64           `json:"wall_s"`
		Exhaustive  bool              `json:"exhaustive"`
		Notes       []string          `json:"notes"`
	}
	o := out{ID: s.ID, Tier: s.Tier, Seed: s.Seed, Shard: s.Shard, NShards: s.NShards, Evaluations: s.evals,
		Classes: s.classes, Known: s.known, KnownDetail: s.knownDetail, Subs: s.subs, Status: "pass",
		WallS: time.Since(s.start).Seconds(), Exhaustive: s.exhaustive, Notes: s.notes}
	for name, n := range s.enumCounts {
		o.Subs = append(o.Subs, subRec{Name: name + " (enumerated)", Requested: int(n), Evals: n})
	}
	sort.Slice(o.Subs, func(i, j int) bool { return o.Subs[i].Name < o.Subs[j].Name })
	for d := range s.nontriv {
		o.NonTrivial = append(o.NonTrivial, d)
	}
	sort.Slice(o.NonTrivial, func(i, j int) bool { return o.NonTrivial[i] < o.NonTrivial[j] })
	o.Samples = append(o.Samples, s.ntSamples...)
	o.Samples = append(o.Samples, s.samples...)
	if s.violation != nil {
		o.Status = "violation"
		o.Msg = s.violation.Msg
		b, _ := json.MarshalIndent(s.violation, "", " ")
		name := fmt.Sprintf("replay.%d.json", s.Shard)
		p := filepath.Join(s.OutDir, name)
		_ = os.WriteFile(p, b, 0o644)
		o.Replay = p
	}
	b, _ := json.Marshal(o)
	_ = os.WriteFile(filepath.Join(s.OutDir, fmt.Sprintf("stats.%d.json", s.Shard)), b, 0o644)
	if s.sentinelF != nil {
		_ = s.sentinelF.Close()
	}
	_ = os.Remove(filepath.Join(s.OutDir, fmt.Sprintf("sentinel.%d.json", s.Shard)))
	if s.violation != nil {
		s.T.Errorf("VIOLATION %s sub=%s: %s", s.ID, s.violation.Sub, s.violation.Msg)
	}
}

// recTB is the rapid.TB given to rapid.Check: it records failure instead of
// failing the surrounding *testing.T, so the session can write its verdict.
type recAbort struct{}

type recTB struct {
	name   string
	failed bool
	logs   []string
}

func (r *recTB) msgs() string {
	s := strings.Join(r.logs, "\n")
	if len(s) > 4000 {
		s = s[:4000]
	}
	return s
}
func (r *recTB) Helper()      {}
func (r *recTB) Name() string { return r.name }
func (r *recTB) Logf(f string, a ...any) {
	if len(r.logs) < 50 {
		r.logs = append(r.logs, fmt.Sprintf(f, a...))
	}
}
func (r *recTB) Log(a ...any)               { r.Logf("%s", fmt.Sprint(a...)) }
func (r *recTB) Skipf(f string, a ...any)   { r.Logf(f, a...); panic(recAbort{}) }
func (r *recTB) Skip(a ...any)              { r.Log(a...); panic(recAbort{}) }
func (r *recTB) SkipNow()                   { panic(recAbort{}) }
func (r *recTB) Errorf(f string, a ...any)  { r.failed = true; r.Logf(f, a...) }
func (r *recTB) Error(a ...any)             { r.failed = true; r.Log(a...) }
func (r *recTB) Fatalf(f string, a ...any)  { r.failed = true; r.Logf(f, a...); panic(recAbort{}) }
func (r *recTB) Fatal(a ...any)             { r.failed = true; r.Log(a...); panic(recAbort{}) }
func (r *recTB) FailNow()                   { r.failed = true; panic(recAbort{}) }
func (r *recTB) Fail()                      { r.failed = true }
func (r *recTB) Failed() bool               { return r.failed }
