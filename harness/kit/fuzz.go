package verifkit

// Native coverage-guided fuzzing of a harness' gen/check pair (thorough tiers
// only): rapid.MakeFuzz turns the fuzzer's byte string into rapid's bit stream,
// so the SAME generator and the SAME oracle are driven by coverage feedback
// instead of by rapid's PRNG. A failing case is written as a kit replay file
// (the input I as JSON) so the driver confirms and reports it like any other.

import (
	"encoding/json"
	"fmt"
	"os"
	"path/filepath"
	"testing"
	"time"

	"pgregory.net/rapid"
)

// Fuzz registers a native fuzz target for one sub-property.
func Fuzz[I any](f *testing.F, id, sub string, gen func(*rapid.T) I, check func(*Case, I)) {
	s := &Session{ID: id, Tier: "thorough", Seed: 1, NShards: 1,
		nontriv: map[uint64]struct{}{}, classes: map[string]int64{}, known: map[string]int64{},
		knownDetail: map[string]string{}, knownOK: map[string]bool{}, start: time.Now(), maxSamples: 1}
	s.OutDir = os.Getenv("VERIF_OUT")
	if s.OutDir == "" {
		s.OutDir = os.TempDir()
	}
	loadKnown(s, id)
	// seed corpus: byte strings of several lengths (rapid reads 8-byte words from them)
	for _, n := range []int{0, 8, 64, 256, 1024, 4096} {
		b := make([]byte, n)
		for i := range b {
			b[i] = byte(i*131 + n)
		}
		f.Add(b)
	}
	f.Fuzz(rapid.MakeFuzz(func(rt *rapid.T) {
		in := gen(rt)
		runCase(s, sub, in, check, func(msg string) {
			fr := failRec{Sub: sub, Msg: msg}
			fr.Input, _ = json.Marshal(in)
			b, _ := json.MarshalIndent(fr, "", " ")
			_ = os.WriteFile(filepath.Join(s.OutDir, fmt.Sprintf("replay.fuzz.%d.json", os.Getpid())), b, 0o644)
			rt.Fatalf("%s", msg)
		})
	}))
}

func loadKnown(s *Session, id string) {
	p := os.Getenv("VERIF_KNOWN")
	if p == "" {
		return
	}
	b, err := os.ReadFile(p)
	if err != nil {
		return
	}
	var kf struct {
		Findings []struct {
			ID       string `json:"id"`
			Property string `json:"property"`
			Status   string `json:"status"`
		} `json:"findings"`
	}
	if json.Unmarshal(b, &kf) == nil {
		for _, f := range kf.Findings {
			if f.Property == id && f.Status == "known" {
				s.knownOK[f.ID] = true
			}
		}
	}
}
