package recent_history

// C25: recent-history transition (GP 7.5-7.8 / 4.6-4.7) on random block
// histories longer than H, driven through the two STF entry points on the
// blockchain singleton.
//
// Oracle: a literal model written here from the Gray Paper:
//   beta-dagger  = beta except last.s = H_r
//   s            = [E_4(service) ++ hash | theta']
//   MMR'         = A(MMR, M_B(s, Keccak), Keccak)        (E.1, E.8)
//   b            = M_R(MMR')                              (E.10)
//   p            = packages of E_G sorted by package hash
//   beta'        = (beta-dagger ++ (h = Blake2b(E(header)), b, s = 0, p)) keeping the last H
// The model shares only the hash primitives (x/crypto blake2b / sha3) with the
// repository; in particular it does not call merkle_tree, mmr or the codec.
//
// Two paths run the same generated histories: the store-level path (the two STF
// entry points on the blockchain singleton) and the function-level path
// (History2HistoryDagger / serLastAccOut / lastAccOutRoot / AppendAndCommitMmr /
// MapWorkReportFromEg / NewItem / AddItem2BetaHPrime called directly). In both the
// history is carried from step to step in the slices the implementation itself
// returned (never re-copied), a step may be a FORK step (two different blocks
// applied to the same prior state, the first posterior inspected again afterwards)
// and header hashes repeat (headers are drawn from a small pool), because the
// statement appends an entry for EVERY block.

import (
	"bytes"
	"crypto/sha256"
	"encoding/binary"
	"sort"
	"testing"

	"github.com/New-JAMneration/JAM-Protocol/internal/blockchain"
	"github.com/New-JAMneration/JAM-Protocol/internal/types"
	kit "github.com/New-JAMneration/JAM-Protocol/internal/verifkit"
	"github.com/New-JAMneration/JAM-Protocol/logger"
	"golang.org/x/crypto/blake2b"
	"golang.org/x/crypto/sha3"
	"pgregory.net/rapid"
)

const c25H = 8 // GP constant H (recent history size); checked against the package at start

// ---- input (this is the replay file) ---------------------------------------

// c25Hash describes a 32-byte value compactly: SHA-256("c25"||Tag) with the
// first Prefix bytes overwritten by 0xA5 (so that package hashes can share long
// prefixes and the sort comparator has to look deep into the hash).
type c25Hash struct {
	Tag    uint32 `json:"t"`
	Prefix int    `json:"p,omitempty"`
}

type c25Pkg struct {
	Hash    c25Hash `json:"h"`
	Exports uint32  `json:"x"`
}

type c25Out struct {
	Service uint32 `json:"s"`
	Hash    uint32 `json:"h"`
}

type c25Entry struct {
	Header uint32   `json:"hh"`
	Beefy  uint32   `json:"b"`
	State  uint32   `json:"s"`
	Pkgs   []c25Pkg `json:"p"`
	// HeaderOfBlock > 0: the entry's header hash is the header hash of
	// Blocks[HeaderOfBlock-1] (that block's header is already recorded in the prior
	// history); 0 or out of range: SHA-256 tag Header as before.
	HeaderOfBlock int `json:"hob,omitempty"`
}

type c25Block struct {
	Parent     uint32   `json:"parent"`
	ParentRoot uint32   `json:"parent_root"`
	ExtHash    uint32   `json:"ext"`
	Slot       uint32   `json:"slot"`
	Author     uint16   `json:"author"`
	Entropy    uint32   `json:"entropy"`
	Seal       uint32   `json:"seal"`
	Offenders  []uint32 `json:"offenders"`
	EpochMark  bool     `json:"epoch_mark"`   // header carries an epoch mark (ValidatorsCount keys)
	TicketMark bool     `json:"tickets_mark"` // header carries a tickets mark (EpochLength tickets)
	Pkgs       []c25Pkg `json:"pkgs"`         // guarantees in extrinsic order (NOT sorted)
	Outs       []c25Out `json:"outs"`         // theta' in sequence order

	// Fork step: after this block has been applied to the current prior state, Sibling
	// (a different block; its own Sibling is ignored) is applied to the SAME prior
	// state. The chain continues from this block's posterior state, or from the
	// sibling's when ContinueSibling is set.
	Sibling         *c25Block `json:"sibling,omitempty"`
	ContinueSibling bool      `json:"continue_sibling,omitempty"`
}

type c25Input struct {
	Full     bool       `json:"full"`      // full (C=341,V=1023,E=600) or tiny (C=2,V=6,E=12) parameters
	Init     []c25Entry `json:"init"`      // prior beta_H (0..H entries)
	MmrCount uint32     `json:"mmr_count"` // prior beta_B = peaks of an MMR that has had MmrCount appends
	MmrSeed  uint32     `json:"mmr_seed"`
	Blocks   []c25Block `json:"blocks"`
	// InitSpare: spare capacity (cap-len) of the prior history slice handed to the first block
	InitSpare int `json:"init_spare,omitempty"`
}

// ---- expansion of compact values -------------------------------------------

func c25Bytes(label string, tag uint32, n int) []byte {
	out := make([]byte, 0, n+32)
	var ctr uint32
	for len(out) < n {
		var b [12]byte
		copy(b[:3], "c25")
		b[3] = label[0]
		binary.LittleEndian.PutUint32(b[4:], tag)
		binary.LittleEndian.PutUint32(b[8:], ctr)
		h := sha256.Sum256(b[:])
		out = append(out, h[:]...)
		ctr++
	}
	return out[:n]
}

func c25H32(label string, tag uint32) (h [32]byte) {
	copy(h[:], c25Bytes(label, tag, 32))
	return
}

func (x c25Hash) expand() (h [32]byte) {
	h = c25H32("p", x.Tag)
	p := x.Prefix
	if p < 0 {
		p = 0
	}
	if p > 31 {
		p = 31
	}
	for i := 0; i < p; i++ {
		h[i] = 0xA5
	}
	return
}

// ---- reference primitives ---------------------------------------------------

func c25Keccak(b []byte) (o [32]byte) {
	k := sha3.NewLegacyKeccak256()
	k.Write(b)
	copy(o[:], k.Sum(nil))
	return
}

// c25RefN: GP E.1 node function over blobs.
func c25RefN(v [][]byte) []byte {
	switch len(v) {
	case 0:
		return make([]byte, 32)
	case 1:
		return v[0]
	}
	mid := (len(v) + 1) / 2 // ceil(|v|/2)
	buf := append([]byte("node"), c25RefN(v[:mid])...)
	buf = append(buf, c25RefN(v[mid:])...)
	h := c25Keccak(buf)
	return h[:]
}

// c25RefMB: GP E.1 well-balanced tree M_B.
func c25RefMB(v [][]byte) (o [32]byte) {
	if len(v) == 1 {
		return c25Keccak(v[0])
	}
	copy(o[:], c25RefN(v))
	return
}

type c25Peak struct {
	Set bool
	H   [32]byte
}

// c25RefAppend: GP E.8, A(r, l) = P(r, l, 0). Returns a fresh list.
func c25RefAppend(r []c25Peak, l [32]byte) []c25Peak {
	out := append([]c25Peak(nil), r...)
	n := 0
	for {
		if n >= len(out) {
			return append(out, c25Peak{true, l})
		}
		if !out[n].Set {
			out[n] = c25Peak{true, l}
			return out
		}
		l = c25Keccak(append(append([]byte(nil), out[n].H[:]...), l[:]...))
		out[n] = c25Peak{}
		n++
	}
}

// c25RefSuperPeak: GP E.10.
func c25RefSuperPeak(b []c25Peak) [32]byte {
	var h [][32]byte
	for _, p := range b {
		if p.Set {
			h = append(h, p.H)
		}
	}
	var rec func(h [][32]byte) [32]byte
	rec = func(h [][32]byte) [32]byte {
		switch len(h) {
		case 0:
			return [32]byte{}
		case 1:
			return h[0]
		}
		inner := rec(h[:len(h)-1])
		buf := append([]byte("peak"), inner[:]...)
		buf = append(buf, h[len(h)-1][:]...)
		return c25Keccak(buf)
	}
	return rec(h)
}

// c25RefCompact: GP C.1 general natural serialisation (only small values occur).
func c25RefCompact(x uint64) []byte {
	if x < 128 {
		return []byte{byte(x)}
	}
	if x < 1<<14 {
		return []byte{0x80 | byte(x>>8), byte(x)}
	}
	panic("c25RefCompact: out of the range used by the harness")
}

type c25RefHeader struct {
	Parent, ParentRoot, Ext [32]byte
	Slot                    uint32
	Epoch                   []byte // nil or the mark's body
	Tickets                 []byte
	Author                  uint16
	Entropy, Seal           [96]byte
	Offenders               [][32]byte
}

// c25RefEncodeHeader: GP C.22/C.23 (0.7.x field order, as in types.Header).
func c25RefEncodeHeader(h c25RefHeader) []byte {
	var b []byte
	b = append(b, h.Parent[:]...)
	b = append(b, h.ParentRoot[:]...)
	b = append(b, h.Ext[:]...)
	b = binary.LittleEndian.AppendUint32(b, h.Slot)
	if h.Epoch == nil {
		b = append(b, 0)
	} else {
		b = append(b, 1)
		b = append(b, h.Epoch...)
	}
	if h.Tickets == nil {
		b = append(b, 0)
	} else {
		b = append(b, 1)
		b = append(b, h.Tickets...)
	}
	b = binary.LittleEndian.AppendUint16(b, h.Author)
	b = append(b, h.Entropy[:]...)
	b = append(b, c25RefCompact(uint64(len(h.Offenders)))...)
	for _, o := range h.Offenders {
		b = append(b, o[:]...)
	}
	b = append(b, h.Seal[:]...)
	return b
}

// ---- model state --------------------------------------------------------------

type c25MPkg struct{ Hash, Exports [32]byte }

type c25MEntry struct {
	Header, Beefy, State [32]byte
	Pkgs                 []c25MPkg
}

func c25EntryFromInit(e c25Entry) c25MEntry {
	m := c25MEntry{Header: c25H32("h", e.Header), Beefy: c25H32("b", e.Beefy), State: c25H32("s", e.State)}
	for _, p := range e.Pkgs {
		m.Pkgs = append(m.Pkgs, c25MPkg{p.Hash.expand(), c25H32("x", p.Exports)})
	}
	return m
}

func c25ToBlockInfo(m c25MEntry) types.BlockInfo {
	bi := types.BlockInfo{HeaderHash: types.HeaderHash(m.Header), BeefyRoot: types.OpaqueHash(m.Beefy), StateRoot: types.StateRoot(m.State)}
	bi.Reported = make([]types.ReportedWorkPackage, 0, len(m.Pkgs))
	for _, p := range m.Pkgs {
		bi.Reported = append(bi.Reported, types.ReportedWorkPackage{Hash: types.WorkReportHash(p.Hash), ExportsRoot: types.ExportsRoot(p.Exports)})
	}
	return bi
}

func c25CompareEntry(c *kit.Case, blk, idx int, got types.BlockInfo, want c25MEntry, what string) {
	if [32]byte(got.HeaderHash) != want.Header {
		c.Failf("block %d: %s entry %d header hash %x, model %x", blk, what, idx, got.HeaderHash, want.Header)
	}
	if [32]byte(got.StateRoot) != want.State {
		c.Failf("block %d: %s entry %d state root %x, model %x", blk, what, idx, got.StateRoot, want.State)
	}
	if [32]byte(got.BeefyRoot) != want.Beefy {
		c.Failf("block %d: %s entry %d accumulation-output commitment %x, model %x", blk, what, idx, got.BeefyRoot, want.Beefy)
	}
	if len(got.Reported) != len(want.Pkgs) {
		c.Failf("block %d: %s entry %d has %d reported packages, model %d", blk, what, idx, len(got.Reported), len(want.Pkgs))
	}
	for i := range want.Pkgs {
		if [32]byte(got.Reported[i].Hash) != want.Pkgs[i].Hash || [32]byte(got.Reported[i].ExportsRoot) != want.Pkgs[i].Exports {
			c.Failf("block %d: %s entry %d package %d = (%x, %x), model (%x, %x)", blk, what, idx, i,
				got.Reported[i].Hash, got.Reported[i].ExportsRoot, want.Pkgs[i].Hash, want.Pkgs[i].Exports)
		}
	}
}

// ---- generator ------------------------------------------------------------------

func c25GenPkgs(rt *rapid.T, max int, tagBase uint32) []c25Pkg {
	n := rapid.IntRange(0, max).Draw(rt, "npkgs")
	shared := rapid.SampledFrom([]int{0, 0, 1, 8, 30, 31}).Draw(rt, "shared_prefix")
	var out []c25Pkg
	seen := map[uint32]bool{}
	for i := 0; i < n; i++ {
		tag := tagBase + uint32(rapid.IntRange(0, 1<<16).Draw(rt, "pkg_tag"))
		if seen[tag] {
			continue // package hashes inside one block are distinct (report validation)
		}
		seen[tag] = true
		p := 0
		if rapid.IntRange(0, 3).Draw(rt, "use_shared") != 0 {
			p = shared
		}
		out = append(out, c25Pkg{Hash: c25Hash{Tag: tag, Prefix: p}, Exports: rapid.Uint32().Draw(rt, "exports")})
	}
	return out
}

// c25GenHeader draws the header part of a block (everything the header hash depends on).
func c25GenHeader(rt *rapid.T, full bool, slot uint32) c25Block {
	b := c25Block{
		Parent: rapid.Uint32().Draw(rt, "parent"), ParentRoot: rapid.Uint32().Draw(rt, "parent_root"),
		ExtHash: rapid.Uint32().Draw(rt, "ext"), Slot: slot, Author: rapid.Uint16().Draw(rt, "author"),
		Entropy: rapid.Uint32().Draw(rt, "entropy"), Seal: rapid.Uint32().Draw(rt, "seal"),
	}
	if rapid.IntRange(0, 4).Draw(rt, "has_off") == 0 {
		no := rapid.IntRange(1, 3).Draw(rt, "noff")
		for j := 0; j < no; j++ {
			b.Offenders = append(b.Offenders, rapid.Uint32().Draw(rt, "off"))
		}
	}
	if !full {
		b.EpochMark = rapid.IntRange(0, 5).Draw(rt, "epoch_mark") == 0
		b.TicketMark = rapid.IntRange(0, 7).Draw(rt, "tickets_mark") == 0
	}
	return b
}

// c25GenBlock: header (fresh, or one of the pool's headers: the header hash then
// repeats an earlier block's) + guarantees + accumulation outputs.
func c25GenBlock(rt *rapid.T, full bool, maxPk int, slot uint32, tagBase uint32, pool []c25Block) c25Block {
	var b c25Block
	if len(pool) > 0 && rapid.IntRange(0, 2).Draw(rt, "from_pool") == 0 {
		b = pool[rapid.IntRange(0, len(pool)-1).Draw(rt, "pool_idx")]
		b.Offenders = append([]uint32(nil), b.Offenders...)
	} else {
		b = c25GenHeader(rt, full, slot)
	}
	b.Pkgs = c25GenPkgs(rt, maxPk, tagBase)
	no := rapid.IntRange(0, 5).Draw(rt, "nouts")
	for j := 0; j < no; j++ {
		b.Outs = append(b.Outs, c25Out{Service: rapid.OneOf(rapid.Uint32Range(0, 5), rapid.Uint32()).Draw(rt, "svc"), Hash: rapid.Uint32().Draw(rt, "out")})
	}
	return b
}

func c25Gen(rt *rapid.T) c25Input {
	in := c25Input{}
	in.Full = rapid.IntRange(0, 3).Draw(rt, "full") != 0
	maxPk := 2
	if in.Full {
		maxPk = 6
	}
	ninit := rapid.SampledFrom([]int{0, 0, 1, 2, 5, 7, 8, 8, 8}).Draw(rt, "ninit")
	for i := 0; i < ninit; i++ {
		e := c25Entry{Header: rapid.Uint32().Draw(rt, "ih"), Beefy: rapid.Uint32().Draw(rt, "ib"), State: rapid.Uint32().Draw(rt, "is")}
		e.Pkgs = c25GenPkgs(rt, maxPk, 1<<24)
		// stored entries are sorted (they were produced by this transition)
		sort.Slice(e.Pkgs, func(a, b int) bool {
			x, y := e.Pkgs[a].Hash.expand(), e.Pkgs[b].Hash.expand()
			return bytes.Compare(x[:], y[:]) < 0
		})
		if rapid.IntRange(0, 7).Draw(rt, "init_hdr_of_block") == 0 {
			// the header of one of the first blocks is already recorded (falls back to the tag when the history is shorter)
			e.HeaderOfBlock = rapid.IntRange(1, 6).Draw(rt, "hob")
		}
		in.Init = append(in.Init, e)
	}
	in.InitSpare = rapid.SampledFrom([]int{0, 0, 0, 1, 3, 8}).Draw(rt, "init_spare")
	in.MmrCount = rapid.OneOf(rapid.Just(uint32(0)), rapid.Uint32Range(0, 70), rapid.SampledFrom([]uint32{1, 3, 7, 15, 31, 63, 127, 255, 1<<20 - 1})).Draw(rt, "mmr_count")
	in.MmrSeed = rapid.Uint32().Draw(rt, "mmr_seed")
	nb := rapid.OneOf(rapid.IntRange(1, 12), rapid.IntRange(c25H+1, 40)).Draw(rt, "nblocks")
	slot := rapid.Uint32Range(0, 1<<20).Draw(rt, "slot0")
	// header pool: 0..3 headers that several blocks of the history may carry (the same
	// header imported again while its entry is still among the last H, or later)
	var pool []c25Block
	npool := rapid.SampledFrom([]int{0, 1, 1, 2, 3}).Draw(rt, "npool")
	for i := 0; i < npool; i++ {
		pool = append(pool, c25GenHeader(rt, in.Full, slot+uint32(rapid.IntRange(0, 60).Draw(rt, "pool_slot"))))
	}
	for i := 0; i < nb; i++ {
		slot += uint32(rapid.IntRange(1, 3).Draw(rt, "gap"))
		b := c25GenBlock(rt, in.Full, maxPk, slot, uint32(i)<<17, pool)
		if rapid.IntRange(0, 3).Draw(rt, "fork") == 0 {
			sib := c25GenBlock(rt, in.Full, maxPk, slot, uint32(i)<<17, pool)
			if rapid.Bool().Draw(rt, "same_parent") {
				// ordinary fork siblings: same parent, hence the same parent state root
				sib.Parent, sib.ParentRoot = b.Parent, b.ParentRoot
			}
			b.Sibling = &sib
			b.ContinueSibling = rapid.Bool().Draw(rt, "continue_sibling")
		}
		in.Blocks = append(in.Blocks, b)
	}
	return in
}

// ---- one block, expanded -----------------------------------------------------------

type c25Built struct {
	blk   types.Block
	theta types.LastAccOut
	ref   c25RefHeader
	hh    [32]byte // the model's header hash: Blake2b of the own serialisation
}

func c25Build(c *kit.Case, full bool, b c25Block) c25Built {
	hdr := types.Header{
		Parent: types.HeaderHash(c25H32("P", b.Parent)), ParentStateRoot: types.StateRoot(c25H32("r", b.ParentRoot)),
		ExtrinsicHash: types.OpaqueHash(c25H32("e", b.ExtHash)), Slot: types.TimeSlot(b.Slot), AuthorIndex: types.ValidatorIndex(b.Author),
	}
	ref := c25RefHeader{Parent: c25H32("P", b.Parent), ParentRoot: c25H32("r", b.ParentRoot), Ext: c25H32("e", b.ExtHash), Slot: b.Slot, Author: b.Author}
	copy(hdr.EntropySource[:], c25Bytes("v", b.Entropy, 96))
	copy(ref.Entropy[:], c25Bytes("v", b.Entropy, 96))
	copy(hdr.Seal[:], c25Bytes("S", b.Seal, 96))
	copy(ref.Seal[:], c25Bytes("S", b.Seal, 96))
	hdr.OffendersMark = types.OffendersMark{}
	for _, o := range b.Offenders {
		hdr.OffendersMark = append(hdr.OffendersMark, types.Ed25519Public(c25H32("o", o)))
		ref.Offenders = append(ref.Offenders, c25H32("o", o))
	}
	if b.EpochMark && !full {
		em := &types.EpochMark{Entropy: types.Entropy(c25H32("E", b.Seal)), TicketsEntropy: types.Entropy(c25H32("T", b.Seal))}
		ref.Epoch = append(ref.Epoch, em.Entropy[:]...)
		ref.Epoch = append(ref.Epoch, em.TicketsEntropy[:]...)
		for v := 0; v < types.ValidatorsCount; v++ {
			k := types.EpochMarkValidatorKeys{Bandersnatch: types.BandersnatchPublic(c25H32("B", b.Seal+uint32(v))), Ed25519: types.Ed25519Public(c25H32("D", b.Seal+uint32(v)))}
			em.Validators = append(em.Validators, k)
			ref.Epoch = append(ref.Epoch, k.Bandersnatch[:]...)
			ref.Epoch = append(ref.Epoch, k.Ed25519[:]...)
		}
		hdr.EpochMark = em
		if c != nil {
			c.Class("header_with_epoch_mark")
		}
	}
	if b.TicketMark && !full {
		tm := types.TicketsMark{}
		ref.Tickets = []byte{}
		for t := 0; t < types.EpochLength; t++ {
			tb := types.TicketBody{ID: types.TicketID(c25H32("t", b.Seal+uint32(t))), Attempt: types.TicketAttempt(t % 3)}
			tm = append(tm, tb)
			ref.Tickets = append(ref.Tickets, tb.ID[:]...)
			ref.Tickets = append(ref.Tickets, byte(t%3))
		}
		hdr.TicketsMark = &tm
		if c != nil {
			c.Class("header_with_tickets_mark")
		}
	}
	var eg types.GuaranteesExtrinsic
	for _, p := range b.Pkgs {
		eg = append(eg, types.ReportGuarantee{Report: types.WorkReport{PackageSpec: types.WorkPackageSpec{
			Hash: types.WorkPackageHash(p.Hash.expand()), ExportsRoot: types.ExportsRoot(c25H32("x", p.Exports))}}})
	}
	var theta types.LastAccOut
	for _, o := range b.Outs {
		theta = append(theta, types.AccumulatedServiceHash{ServiceID: types.ServiceID(o.Service), Hash: types.OpaqueHash(c25H32("O", o.Hash))})
	}
	return c25Built{blk: types.Block{Header: hdr, Extrinsic: types.Extrinsic{Guarantees: eg}}, theta: theta, ref: ref,
		hh: blake2b.Sum256(c25RefEncodeHeader(ref))}
}

// ---- model step (pure: returns fresh lists, so that two blocks can be applied to one state) ----

type c25MState struct {
	H []c25MEntry
	B []c25Peak
}

type c25StepInfo struct {
	full, dup bool
	dagger    []c25MEntry // beta-dagger: the prior entries, newest state root replaced
}

func c25ModelStep(c *kit.Case, st c25MState, b c25Block, bt c25Built) (c25MState, c25StepInfo) {
	info := c25StepInfo{full: len(st.H) == c25H}
	dag := append([]c25MEntry(nil), st.H...)
	if len(dag) > 0 {
		dag[len(dag)-1].State = bt.ref.ParentRoot
	}
	info.dagger = dag
	for _, e := range dag {
		if e.Header == bt.hh {
			info.dup = true
		}
	}
	var s [][]byte
	for _, o := range b.Outs {
		h := c25H32("O", o.Hash)
		s = append(s, append(binary.LittleEndian.AppendUint32(nil, o.Service), h[:]...))
	}
	if len(st.B) >= 2 && st.B[0].Set && st.B[1].Set {
		c.Class("block_mmr_append_merges_ge2_peaks")
	}
	mmr := c25RefAppend(st.B, c25RefMB(s))
	ne := c25MEntry{Header: bt.hh, Beefy: c25RefSuperPeak(mmr)}
	for _, p := range b.Pkgs {
		ne.Pkgs = append(ne.Pkgs, c25MPkg{p.Hash.expand(), c25H32("x", p.Exports)})
	}
	sort.Slice(ne.Pkgs, func(i, j int) bool { return bytes.Compare(ne.Pkgs[i].Hash[:], ne.Pkgs[j].Hash[:]) < 0 })
	sortedAlready := true
	for i := range ne.Pkgs {
		if ne.Pkgs[i].Hash != b.Pkgs[i].Hash.expand() {
			sortedAlready = false
		}
	}
	// an entry is appended for EVERY block (whether or not its header hash is already recorded)
	next := append(append([]c25MEntry(nil), dag...), ne)
	if len(next) > c25H {
		next = next[len(next)-c25H:]
	}

	// ---- classes
	if info.full {
		c.Class("block_on_full_history")
	} else {
		c.Class("block_on_growing_history")
	}
	if info.dup {
		if info.full {
			c.Class("block_header_hash_already_in_full_history")
		} else {
			c.Class("block_header_hash_already_in_growing_history")
		}
	}
	if len(b.Pkgs) >= 2 && !sortedAlready {
		c.Class("block_packages_unsorted_in_extrinsic")
	}
	switch len(b.Outs) {
	case 0:
		c.Class("block_outputs_0")
	case 1:
		c.Class("block_outputs_1")
	default:
		c.Class("block_outputs_ge2")
	}
	return c25MState{H: next, B: mmr}, info
}

// ---- deep snapshots of implementation values ---------------------------------------

type c25Snapshot struct {
	H []types.BlockInfo // Reported copied
	B []c25Peak
}

func c25Snap(rb types.RecentBlocks) c25Snapshot {
	var s c25Snapshot
	s.H = make([]types.BlockInfo, len(rb.History))
	for i, e := range rb.History {
		e.Reported = append([]types.ReportedWorkPackage(nil), e.Reported...)
		s.H[i] = e
	}
	for _, p := range rb.Mmr.Peaks {
		if p == nil {
			s.B = append(s.B, c25Peak{})
		} else {
			s.B = append(s.B, c25Peak{true, [32]byte(*p)})
		}
	}
	return s
}

// c25CompareSnap: got (a value the implementation was given or handed out earlier)
// still equals the deep snapshot taken of it. exemptState >= 0: the state root of
// that entry is not compared (beta-dagger is allowed to live in beta's storage).
func c25CompareSnap(c *kit.Case, blk int, what string, got types.RecentBlocks, snap c25Snapshot, exemptState int) {
	if len(got.History) != len(snap.H) {
		c.Failf("block %d: %s: history now has %d entries, had %d", blk, what, len(got.History), len(snap.H))
	}
	for i, w := range snap.H {
		g := got.History[i]
		if g.HeaderHash != w.HeaderHash {
			c.Failf("block %d: %s: entry %d header hash changed from %x to %x", blk, what, i, w.HeaderHash, g.HeaderHash)
		}
		if g.BeefyRoot != w.BeefyRoot {
			c.Failf("block %d: %s: entry %d accumulation-output commitment changed from %x to %x", blk, what, i, w.BeefyRoot, g.BeefyRoot)
		}
		if i != exemptState && g.StateRoot != w.StateRoot {
			c.Failf("block %d: %s: entry %d state root changed from %x to %x", blk, what, i, w.StateRoot, g.StateRoot)
		}
		if len(g.Reported) != len(w.Reported) {
			c.Failf("block %d: %s: entry %d now has %d reported packages, had %d", blk, what, i, len(g.Reported), len(w.Reported))
		}
		for j := range w.Reported {
			if g.Reported[j] != w.Reported[j] {
				c.Failf("block %d: %s: entry %d package %d changed from (%x, %x) to (%x, %x)", blk, what, i, j,
					w.Reported[j].Hash, w.Reported[j].ExportsRoot, g.Reported[j].Hash, g.Reported[j].ExportsRoot)
			}
		}
	}
	if len(got.Mmr.Peaks) != len(snap.B) {
		c.Failf("block %d: %s: MMR now has %d peaks, had %d", blk, what, len(got.Mmr.Peaks), len(snap.B))
	}
	for i, w := range snap.B {
		g := got.Mmr.Peaks[i]
		if (g != nil) != w.Set || (g != nil && [32]byte(*g) != w.H) {
			c.Failf("block %d: %s: MMR peak %d changed", blk, what, i)
		}
	}
}

// c25ComparePost: a posterior beta against the model, entry by entry, peak by peak.
func c25ComparePost(c *kit.Case, blk int, tag string, post types.RecentBlocks, m c25MState) {
	if len(post.History) > c25H {
		c.Failf("block %d%s: posterior history has %d entries > H", blk, tag, len(post.History))
	}
	if len(post.History) != len(m.H) {
		c.Failf("block %d%s: posterior history has %d entries, model %d", blk, tag, len(post.History), len(m.H))
	}
	for i := range m.H {
		what := "carried"
		if i == len(m.H)-1 {
			what = "new"
		} else if i == len(m.H)-2 {
			what = "previous-newest"
		}
		c25CompareEntry(c, blk, i, post.History[i], m.H[i], what+tag)
	}
	if len(post.Mmr.Peaks) != len(m.B) {
		c.Failf("block %d%s: posterior MMR has %d peaks, model %d", blk, tag, len(post.Mmr.Peaks), len(m.B))
	}
	for i, p := range m.B {
		g := post.Mmr.Peaks[i]
		if (g != nil) != p.Set || (g != nil && [32]byte(*g) != p.H) {
			c.Failf("block %d%s: posterior MMR peak %d differs from model", blk, tag, i)
		}
	}
}

// ---- the two paths through the code under test ---------------------------------------

// A path applies one block to "the current prior state" (which it holds itself and
// never copies) and hands out beta-dagger and the posterior beta exactly as the
// implementation produced them.
type c25Path interface {
	prime(prior types.RecentBlocks)                 // start of a case
	prior() types.RecentBlocks                      // the prior state as it is held now
	dagger(bt c25Built) types.BlocksHistory         // 4.6: beta-dagger as produced
	finish(bt c25Built) (types.RecentBlocks, error) // 4.7: posterior beta as produced
	commit(post types.RecentBlocks)                 // posterior becomes prior (shallow, as ChainState.StateCommit does)
}

// store level: the sequence stf.RunSTF uses around this package
// (4.6 ... accumulation sets theta' ... 4.7) on the blockchain singleton.
type c25StorePath struct{ cs *blockchain.ChainState }

func (p *c25StorePath) prime(prior types.RecentBlocks) {
	blockchain.ResetInstance()
	p.cs = blockchain.GetInstance()
	p.cs.GetPriorStates().SetBeta(prior)
}
func (p *c25StorePath) prior() types.RecentBlocks { return p.cs.GetPriorStates().GetBeta() }
func (p *c25StorePath) dagger(bt c25Built) types.BlocksHistory {
	p.cs.AddBlock(bt.blk)
	STFBetaH2BetaHDagger()
	return p.cs.GetIntermediateStates().GetBetaHDagger()
}
func (p *c25StorePath) finish(bt c25Built) (types.RecentBlocks, error) {
	p.cs.GetPosteriorStates().SetLastAccOut(bt.theta)
	if err := STFBetaHDagger2BetaHPrime(); err != nil {
		return types.RecentBlocks{}, err
	}
	post := p.cs.GetPosteriorStates().GetBeta()
	// fresh posterior state for the next block (the prior state is left as it is)
	p.cs.GetPosteriorStates().SetState(blockchain.NewPosteriorStates().GetState())
	return post, nil
}
func (p *c25StorePath) commit(post types.RecentBlocks) { p.cs.GetPriorStates().SetBeta(post) }

// function level: the package's functions composed the way STFBetaH2BetaHDagger +
// STFBetaHDagger2BetaHPrime compose them; the header hash handed to NewItem is the
// model's (computing it is not this package's business).
type c25FuncPath struct {
	cur types.RecentBlocks
	dag types.BlocksHistory
}

func (p *c25FuncPath) prime(prior types.RecentBlocks) { p.cur = prior }
func (p *c25FuncPath) prior() types.RecentBlocks      { return p.cur }
func (p *c25FuncPath) dagger(bt c25Built) types.BlocksHistory {
	p.dag = History2HistoryDagger(p.cur.History, bt.blk.Header.ParentStateRoot)
	return p.dag
}
func (p *c25FuncPath) finish(bt c25Built) (types.RecentBlocks, error) {
	ser, err := serLastAccOut(bt.theta)
	if err != nil {
		return types.RecentBlocks{}, err
	}
	belt, commitment := AppendAndCommitMmr(p.cur.Mmr, lastAccOutRoot(ser))
	item := NewItem(types.HeaderHash(bt.hh), MapWorkReportFromEg(bt.blk.Extrinsic.Guarantees), commitment)
	return types.RecentBlocks{History: AddItem2BetaHPrime(p.dag, item), Mmr: belt}, nil
}
func (p *c25FuncPath) commit(post types.RecentBlocks) { p.cur = post }

// ---- check ------------------------------------------------------------------------

func c25BlockInDomain(b c25Block) bool {
	if len(b.Pkgs) > types.CoresCount || len(b.Offenders) > 100 {
		return false
	}
	seen := map[[32]byte]bool{}
	for _, p := range b.Pkgs {
		h := p.Hash.expand()
		if seen[h] {
			return false // duplicate package hash inside one block: outside the domain
		}
		seen[h] = true
	}
	return true
}

// c25ApplyAndCompare: one block through the path, beta-dagger and posterior beta compared with the model.
func c25ApplyAndCompare(c *kit.Case, path c25Path, bi int, tag string, bt c25Built, next c25MState, info c25StepInfo) types.RecentBlocks {
	dag := path.dagger(bt)
	if len(dag) != len(info.dagger) {
		c.Failf("block %d%s: beta-dagger has %d entries, model %d", bi, tag, len(dag), len(info.dagger))
	}
	if len(dag) > 0 && [32]byte(dag[len(dag)-1].StateRoot) != bt.ref.ParentRoot {
		c.Failf("block %d%s: beta-dagger newest state root %x, parent state root %x", bi, tag, dag[len(dag)-1].StateRoot, bt.ref.ParentRoot)
	}
	for i := range info.dagger {
		c25CompareEntry(c, bi, i, dag[i], info.dagger[i], "beta-dagger"+tag)
	}
	post, err := path.finish(bt)
	if err != nil {
		c.Failf("block %d%s: transition returned an error: %v", bi, tag, err)
	}
	c25ComparePost(c, bi, tag, post, next)
	return post
}

func c25CheckOn(path c25Path) func(c *kit.Case, in c25Input) {
	return func(c *kit.Case, in c25Input) { c25Check(c, in, path) }
}

func c25Check(c *kit.Case, in c25Input, path c25Path) {
	if len(in.Init) > c25H || len(in.Blocks) == 0 || len(in.Blocks) > 200 || in.InitSpare < 0 || in.InitSpare > 64 {
		return // malformed replay
	}
	if in.Full {
		types.SetFullMode()
	} else {
		types.SetTinyMode()
	}
	for _, b := range in.Blocks {
		if !c25BlockInDomain(b) || (b.Sibling != nil && !c25BlockInDomain(*b.Sibling)) {
			return
		}
	}

	// ---- prior state: model and implementation value
	var st c25MState
	for _, e := range in.Init {
		m := c25EntryFromInit(e)
		if e.HeaderOfBlock > 0 && e.HeaderOfBlock <= len(in.Blocks) {
			m.Header = c25Build(nil, in.Full, in.Blocks[e.HeaderOfBlock-1]).hh
		}
		st.H = append(st.H, m)
	}
	// prior MMR: the peaks an MMR has after MmrCount appends (peak i present iff bit i set)
	for i := 0; i < 32 && in.MmrCount>>uint(i) != 0; i++ {
		if in.MmrCount>>uint(i)&1 == 1 {
			st.B = append(st.B, c25Peak{true, c25H32("m", in.MmrSeed+uint32(i))})
		} else {
			st.B = append(st.B, c25Peak{})
		}
	}
	prior := types.RecentBlocks{History: make(types.BlocksHistory, 0, len(st.H)+in.InitSpare)}
	for _, m := range st.H {
		prior.History = append(prior.History, c25ToBlockInfo(m))
	}
	for _, p := range st.B {
		if p.Set {
			h := types.OpaqueHash(p.H)
			prior.Mmr.Peaks = append(prior.Mmr.Peaks, &h)
		} else {
			prior.Mmr.Peaks = append(prior.Mmr.Peaks, nil)
		}
	}
	path.prime(prior)

	// posterior states that were handed out at a fork step and then left behind: they are
	// values somebody holds (the other fork's state), so they are looked at again at the end
	type kept struct {
		at   int
		val  types.RecentBlocks
		snap c25Snapshot
	}
	var left []kept

	nontrivial := false
	for bi, b := range in.Blocks {
		cur := path.prior() // the prior state object both siblings of a fork step are applied to
		snapPrior := c25Snap(cur)
		if cap(cur.History) > len(cur.History) {
			c.Class("step_prior_history_has_spare_capacity")
		}

		bt1 := c25Build(c, in.Full, b)
		m1, i1 := c25ModelStep(c, st, b, bt1)
		if len(b.Pkgs) >= 2 && i1.full {
			nontrivial = true // non-trivial rule: history already full and >= 2 packages
		}
		p1 := c25ApplyAndCompare(c, path, bi, "", bt1, m1, i1)
		chosen, chosenM := p1, m1

		if b.Sibling != nil {
			// ---- fork step: a different block on the SAME prior state (no copy in between)
			sb := *b.Sibling
			c.Class("step_fork")
			if i1.full {
				c.Class("step_fork_on_full_history")
			}
			snapP1 := c25Snap(p1)
			bt2 := c25Build(c, in.Full, sb)
			m2, i2 := c25ModelStep(c, st, sb, bt2)
			if len(sb.Pkgs) >= 2 && i2.full {
				nontrivial = true
			}
			p2 := c25ApplyAndCompare(c, path, bi, " (sibling)", bt2, m2, i2)
			// the first block's posterior state, inspected again
			c25CompareSnap(c, bi, "posterior state of the first block after a sibling block was applied to the same prior state", p1, snapP1, -1)
			c25ComparePost(c, bi, " (first block, re-inspected after its sibling)", p1, m1)
			if b.ContinueSibling {
				c.Class("step_fork_continues_from_second")
				chosen, chosenM = p2, m2
				left = append(left, kept{bi, p1, snapP1})
			} else {
				c.Class("step_fork_continues_from_first")
				left = append(left, kept{bi, p2, c25Snap(p2)})
			}
		}

		// the caller's prior list: same entries as before the call(s); only the newest
		// entry's state root may have been replaced (beta-dagger shares beta's storage
		// in this implementation: History2HistoryDagger)
		after := path.prior()
		if n := len(snapPrior.H); n > 0 && len(after.History) == n && after.History[n-1].StateRoot != snapPrior.H[n-1].StateRoot {
			c.Class("step_prior_newest_state_root_replaced_in_place")
		}
		c25CompareSnap(c, bi, "prior state after the transition", after, snapPrior, len(snapPrior.H)-1)

		// ---- commit as ChainState.StateCommit does (posterior becomes prior: the implementation's own slices)
		path.commit(chosen)
		st = chosenM
	}
	for _, k := range left {
		c25CompareSnap(c, k.at, "posterior state left behind at this fork step, at the end of the history", k.val, k.snap, -1)
	}
	if nontrivial {
		c.NonTrivial()
	}
}

func TestVerif_C25(t *testing.T) {
	s := kit.Begin(t, "C25")
	defer s.Finish()
	logger.GetLogger("main").Disable()
	if maxBlocksHistory != c25H {
		t.Fatalf("package constant H = %d, harness assumes %d", maxBlocksHistory, c25H)
	}
	defer types.SetTinyMode()
	kit.Run(s, "history_vs_model", kit.N{Quick: 4000, Thorough: 60000}, c25Gen, c25CheckOn(&c25StorePath{}))
	kit.Run(s, "history_vs_model_functions", kit.N{Quick: 4000, Thorough: 60000}, c25Gen, c25CheckOn(&c25FuncPath{}))
}
