package recent_history

// C25: recent-history transition (GP 7.5-7.8 / 4.6-4.7) on random block
// histories longer than H, driven through the two STF entry points on the
// blockchain singleton.
//
// Oracle: a literal model written here from the Gray Paper:
//   beta-dagger  = beta except last.s = H_r
//   s            = [E_4(service) ++ hash | theta']
//   MMR'         = A(MMR, M_B(s, Keccak), Keccak)        (E.1, E.8)
//   b            = M_R(MMR')                              (E.10)
//   p            = packages of E_G sorted by package hash
//   beta'        = (beta-dagger ++ (h = Blake2b(E(header)), b, s = 0, p)) keeping the last H
// The model shares only the hash primitives (x/crypto blake2b / sha3) with the
// repository; in particular it does not call merkle_tree, mmr or the codec.
//
// Two paths run the same generated histories: the store-level path (the two STF
// entry points on the blockchain singleton) and the function-level path
// (History2HistoryDagger / serLastAccOut / lastAccOutRoot / AppendAndCommitMmr /
// MapWorkReportFromEg / NewItem / AddItem2BetaHPrime called directly). In both the
// history is carried from step to step in the slices the implementation itself
// returned (never re-copied), a step may be a FORK step (two different blocks
// applied to the same prior state, the first posterior inspected again afterwards)
// and header hashes repeat (headers are drawn from a small pool), because the
// statement appends an entry for EVERY block.

import (
	"bytes"
	"crypto/sha256"
	"encoding/binary"
	"sort"
	"testing"

	"github.com/New-JAMneration/JAM-Protocol/internal/blockchain"
	"github.com/New-JAMneration/JAM-Protocol/internal/types"
	kit "github.com/New-JAMneration/JAM-Protocol/internal/verifkit"
	"github.com/New-JAMneration/JAM-Protocol/logger"
	"golang.org/x/crypto/blake2b"
	"golang.org/x/crypto/sha3"
	"pgregory.net/rapid"
)

const c25H = 8 // GP constant H (recent history size); checked against the package at start

// ---- input (this is the replay file) ---------------------------------------

// c25Hash describes a 32-byte value compactly: SHA-256("c25"||Tag) with the
// first Prefix bytes overwritten by 0xA5 (so that package hashes can share long
// prefixes and the sort comparator has to look deep into the hash).
type c25Hash struct {
	Tag    uint32 `json:"t"`
	Prefix int    `json:"p,omitempty"`
}

type c25Pkg struct {
	Hash    c25Hash `json:"h"`
	Exports uint32  `json:"x"`
}

type c25Out struct {
	Service uint32 `json:"s"`
	Hash    uint32 `json:"h"`
}

type c25Entry struct {
	Header uint32   `json:"hh"`
	Beefy  uint32   `json:"b"`
	State  uint32   `json:"s"`
	Pkgs   []c25Pkg `json:"p"`
	// HeaderOfBlock > 0: the entry's header hash is the header hash of
	// Blocks[HeaderOfBlock-1] (that block's header is already recorded in the prior
	// history); 0 or out of range: SHA-256 tag Header as before.
	HeaderOfBlock int `json:"hob,omitempty"`
}

type c25Block struct {
	Parent     uint32   `json:"parent"`
	ParentRoot uint32   `json:"parent_root"`
	ExtHash    uint32   `json:"ext"`
	Slot       uint32   `json:"slot"`
	Author     uint16   `json:"author"`
	Entropy    uint32   `json:"entropy"`
	Seal       uint32   `json:"seal"`
	Offenders  []uint32 `json:"offenders"`
	EpochMark  bool     `json:"epoch_mark"`   // header carries an epoch mark (ValidatorsCount keys)
	TicketMark bool     `json:"tickets_mark"` // header carries a tickets mark (EpochLength tickets)
	Pkgs       []c25Pkg `json:"pkgs"`         // guarantees in extrinsic order (NOT sorted)
	Outs       []c25Out `json:"outs"`         // theta' in sequence order

	// Fork step: after this block has been applied to the current prior state, Sibling
	// (a different block; its own Sibling is ignored) is applied to the SAME prior
	// state. The chain continues from this block's posterior state, or from the
	// sibling's when ContinueSibling is set.
	Sibling         *c25Block `json:"sibling,omitempty"`
	ContinueSibling bool      `json:"continue_sibling,omitempty"`
}

type c25Input struct {
	Full     bool       `json:"full"`      // full (C=341,V=1023,E=600) or tiny (C=2,V=6,E=12) parameters
	Init     []c25Entry `json:"init"`      // prior beta_H (0..H entries)
	MmrCount uint32     `json:"mmr_count"` // prior beta_B = peaks of an MMR that has had MmrCount appends
	MmrSeed  uint32     `json:"mmr_seed"`
	Blocks   []c25Block `json:"blocks"`
	// InitSpare: spare capacity (cap-len) of the prior history slice handed to the first block
	InitSpare int `json:"init_spare,omitempty"`
}

// ---- expansion of compact values -------------------------------------------

func c25Bytes(label string, tag uint32, n int) []byte {
	out := make([]byte, 0, n+32)
	var ctr uint32
	for len(out) < n {
		var b [12]byte
		copy(b[:3], "c25")
		b[3] = label[0]
		binary.LittleEndian.PutUint32(b[4:], tag)
		binary.LittleEndian.PutUint32(b[8:], ctr)
		h := sha256.Sum256(b[:])
		out = append(out, h[:]...)
		ctr++
	}
	return out[:n]
}

func c25H32(label string, tag uint32) (h [32]byte) {
	copy(h[:], c25Bytes(label, tag, 32))
	return
}

func (x c25Hash) expand() (h [32]byte) {
	h = c25H32("p", x.Tag)
	p := x.Prefix
	if p < 0 {
		p = 0
	}
	if p > 31 {
		p = 31
	}
	for i := 0; i < p; i++ {
		h[i] = 0xA5
	}
	return
}

// ---- reference primitives ---------------------------------------------------

func c25Keccak(b []byte) (o [32]byte) {
	k := sha3.NewLegacyKeccak256()
	k.Write(b)
	copy(o[:], k.Sum(nil))
	return
}

// c25RefN: GP E.1 node function over blobs.
func c25RefN(v [][]byte) []byte {
	switch len(v) {
	case 0:
		return make([]byte, 32)
	case 1:
		return v[0]
	}
	mid := (len(v) + 1) / 2 // ceil(|v|/2)
	buf := append([]byte("node"), c25RefN(v[:mid])...)
	buf = append(buf, c25RefN(v[mid:])...)
	h := c25Keccak(buf)
	return h[:]
}

// c25RefMB: GP E.1 well-balanced tree M_B.
func c25RefMB(v [][]byte) (o [32]byte) {
	if len(v) == 1 {
		return c25Keccak(v[0])
	}
	copy(o[:], c25RefN(v))
	return
}

type c25Peak struct {
	Set bool
	H   [32]byte
}

// c25RefAppend: GP E.8, A(r, l) = P(r, l, 0). Returns a fresh list.
func c25RefAppend(r []c25Peak, l [32]byte) []c25Peak {
	out := append([]c25Peak(nil), r...)
	n := 0
	for {
		if n >= len(out) {
			return append(out, c25Peak{true, l})
		}
		if !out[n].Set {
			out[n] = c25Peak{true, l}
			return out
		}
		l = c25Keccak(append(append([]byte(nil), out[n].H[:]...), l[:]...))
		out[n] = c25Peak{}
		n++
	}
}

// c25RefSuperPeak: GP E.10.
func c25RefSuperPeak(b []c25Peak) [32]byte {
	var h [][32]byte
	for _, p := range b {
		if p.Set {
			h = append(h, p.H)
		}
	}
	var rec func(h [][32]byte) [32]byte
	rec = func(h [][32]byte) [32]byte {
		switch len(h) {
		case 0:
			return [32]byte{}
		case 1:
			return h[0]
		}
		inner := rec(h[:len(h)-1])
		buf := append([]byte("peak"), inner[:]...)
		buf = append(buf, h[len(h)-1][:]...)
		return c25Keccak(buf)
	}
	return rec(h)
}

// c25RefCompact: GP C.1 general natural serialisation (only small values occur).
func c25RefCompact(x uint64) []byte {
	if x < 128 {
		return []byte{byte(x)}
	}
	if x < 1<<14 {
		return []byte{0x80 | byte(x>>8), byte(x)}
	}
	panic("c25RefCompact: out of the range used by the harness")
}

type c25RefHeader struct {
	Parent, ParentRoot, Ext [32]byte
	Slot                    uint32
	Epoch                   []byte // nil or the mark's body
	Tickets                 []byte
	Author                  uint16
	Entropy, Seal           [96]byte
	Offenders               [][32]byte
}

// c25RefEncodeHeader: GP C.22/C.23 (0.7.x field order, as in types.Header).
func c25RefEncodeHeader(h c25RefHeader) []byte {
	var b []byte
	b = append(b, h.Parent[:]...)
	b = append(b, h.ParentRoot[:]...)
	b = append(b, h.Ext[:]...)
	b = binary.LittleEndian.AppendUint32(b, h.Slot)
	if h.Epoch == nil {
		b = append(b, 0)
	} else {
		b = append(b, 1)
		b = append(b, h.Epoch...)
	}
	if h.Tickets == nil {
		b = append(b, 0)
	} else {
		b = append(b, 1)
		b = append(b, h.Tickets...)
	}
	b = binary.LittleEndian.AppendUint16(b, h.Author)
	b = append(b, h.Entropy[:]...)
	b = append(b, c25RefCompact(uint64(len(h.Offenders)))...)
	for _, o := range h.Offenders {
		b = append(b, o[:]...)
	}
	b = append(b, h.Seal[:]...)
	return b
}

// ---- model state --------------------------------------------------------------

type c25MPkg struct{ Hash, Exports [32]byte }

type c25MEntry struct {
	Header, Beefy, State [32]byte
	Pkgs                 []c25MPkg
}

func c25EntryFromInit(e c25Entry) c25MEntry {
	m := c25MEntry{Header: c25H32("h", e.Header), Beefy: c25H32("b", e.Beefy), State: c25H32("s", e.State)}
	for _, p := range e.Pkgs {
		m.Pkgs = append(m.Pkgs, c25MPkg{p.Hash.expand(), c25H32("x", p.Exports)})
	}
	return m
}

func c25ToBlockInfo(m c25MEntry) types.BlockInfo {
	bi := types.BlockInfo{HeaderHash: types.HeaderHash(m.Header), BeefyRoot: types.OpaqueHash(m.Beefy), StateRoot: types.StateRoot(m.State)}
	bi.Reported = make([]types.ReportedWorkPackage, 0, len(m.Pkgs))
	for _, p := range m.Pkgs {
		bi.Reported = append(bi.Reported, types.ReportedWorkPackage{Hash: types.WorkReportHash(p.Hash), ExportsRoot: types.ExportsRoot(p.Exports)})
	}
	return bi
}

func c25CompareEntry(c *kit.Case, blk, idx int, got types.BlockInfo, want c25MEntry, what string) {
	if [32]byte(got.HeaderHash) != want.Header {
		c.Failf("block %d: %s entry %d header hash %x, model %x", blk, what, idx, got.HeaderHash, want.Header)
	}
	if [32]byte(got.StateRoot) != want.State {
		c.Failf("block %d: %s entry %d state root %x, model %x", blk, what, idx, got.StateRoot, want.State)
	}
	if [32]byte(got.BeefyRoot) != want.Beefy {
		c.Failf("block %d: %s entry %d accumulation-output commitment %x, model %x", blk, what, idx, got.BeefyRoot, want.Beefy)
	}
	if len(got.Reported) != len(want.Pkgs) {
		c.Failf("block %d: %s entry %d has %d reported packages, model %d", blk, what, idx, len(got.Reported), len(want.Pkgs))
	}
	for i := range want.Pkgs {
		if [32]byte(got.Reported[i].Hash) != want.Pkgs[i].Hash || [32]byte(got.Reported[i].ExportsRoot) != want.Pkgs[i].Exports {
			c.Failf("block %d: %s entry %d package %d = (%x, %x), model (%x, %x)", blk, what, idx, i,
				got.Reported[i].Hash, got.Reported[i].ExportsRoot, want.Pkgs[i].Hash, want.Pkgs[i].Exports)
		}
	}
}

// ---- generator ------------------------------------------------------------------

func c25GenPkgs(rt *rapid.T, max int, tagBase uint32) []c25Pkg {
	n := rapid.IntRange(0, max).Draw(rt, "npkgs")
	shared := rapid.SampledFrom([]int{0, 0, 1, 8, 30, 31}).Draw(rt, "shared_prefix")
	var out []c25Pkg
	seen := map[uint32]bool{}
	for i := 0; i < n; i++ {
		tag := tagBase + uint32(rapid.IntRange(0, 1<<16).Draw(rt, "pkg_tag"))
		if seen[tag] {
			continue // package hashes inside one block are distinct (report validation)
		}
		seen[tag] = true
		p := 0
		if rapid.IntRange(0, 3).Draw(rt, "use_shared") != 0 {
			p = shared
		}
		out = append(out, c25Pkg{Hash: c25Hash{Tag: tag, Prefix: p}, Exports: rapid.Uint32().Draw(rt, "exports")})
	}
	return out
}

func c25Gen(rt *rapid.T) c25Input {
	in := c25Input{}
	in.Full = rapid.IntRange(0, 3).Draw(rt, "full") != 0
	maxPk := 2
	if in.Full {
		maxPk = 6
	}
	ninit := rapid.SampledFrom([]int{0, 0, 1, 2, 5, 7, 8, 8, 8}).Draw(rt, "ninit")
	for i := 0; i < ninit; i++ {
		e := c25Entry{Header: rapid.Uint32().Draw(rt, "ih"), Beefy: rapid.Uint32().Draw(rt, "ib"), State: rapid.Uint32().Draw(rt, "is")}
		e.Pkgs = c25GenPkgs(rt, maxPk, 1<<24)
		// stored entries are sorted (they were produced by this transition)
		sort.Slice(e.Pkgs, func(a, b int) bool {
			x, y := e.Pkgs[a].Hash.expand(), e.Pkgs[b].Hash.expand()
			return bytes.Compare(x[:], y[:]) < 0
		})
		in.Init = append(in.Init, e)
	}
	in.MmrCount = rapid.OneOf(rapid.Just(uint32(0)), rapid.Uint32Range(0, 70), rapid.SampledFrom([]uint32{1, 3, 7, 15, 31, 63, 127, 255, 1<<20 - 1})).Draw(rt, "mmr_count")
	in.MmrSeed = rapid.Uint32().Draw(rt, "mmr_seed")
	nb := rapid.OneOf(rapid.IntRange(1, 12), rapid.IntRange(c25H+1, 40)).Draw(rt, "nblocks")
	slot := rapid.Uint32Range(0, 1<<20).Draw(rt, "slot0")
	for i := 0; i < nb; i++ {
		slot += uint32(rapid.IntRange(1, 3).Draw(rt, "gap"))
		b := c25Block{
			Parent: rapid.Uint32().Draw(rt, "parent"), ParentRoot: rapid.Uint32().Draw(rt, "parent_root"),
			ExtHash: rapid.Uint32().Draw(rt, "ext"), Slot: slot, Author: rapid.Uint16().Draw(rt, "author"),
			Entropy: rapid.Uint32().Draw(rt, "entropy"), Seal: rapid.Uint32().Draw(rt, "seal"),
		}
		if rapid.IntRange(0, 4).Draw(rt, "has_off") == 0 {
			no := rapid.IntRange(1, 3).Draw(rt, "noff")
			for j := 0; j < no; j++ {
				b.Offenders = append(b.Offenders, rapid.Uint32().Draw(rt, "off"))
			}
		}
		if !in.Full {
			b.EpochMark = rapid.IntRange(0, 5).Draw(rt, "epoch_mark") == 0
			b.TicketMark = rapid.IntRange(0, 7).Draw(rt, "tickets_mark") == 0
		}
		b.Pkgs = c25GenPkgs(rt, maxPk, uint32(i)<<17)
		no := rapid.IntRange(0, 5).Draw(rt, "nouts")
		for j := 0; j < no; j++ {
			b.Outs = append(b.Outs, c25Out{Service: rapid.OneOf(rapid.Uint32Range(0, 5), rapid.Uint32()).Draw(rt, "svc"), Hash: rapid.Uint32().Draw(rt, "out")})
		}
		in.Blocks = append(in.Blocks, b)
	}
	return in
}

// ---- check ------------------------------------------------------------------------

func c25Check(c *kit.Case, in c25Input) {
	if len(in.Init) > c25H || len(in.Blocks) == 0 || len(in.Blocks) > 200 {
		return // malformed replay
	}
	if in.Full {
		types.SetFullMode()
	} else {
		types.SetTinyMode()
	}
	for _, b := range in.Blocks {
		if len(b.Pkgs) > types.CoresCount || len(b.Offenders) > 100 {
			return
		}
		seen := map[[32]byte]bool{}
		for _, p := range b.Pkgs {
			h := p.Hash.expand()
			if seen[h] {
				return // duplicate package hash inside one block: outside the domain
			}
			seen[h] = true
		}
	}

	// ---- prime the singleton from scratch
	blockchain.ResetInstance()
	cs := blockchain.GetInstance()

	var model []c25MEntry
	for _, e := range in.Init {
		model = append(model, c25EntryFromInit(e))
	}
	// prior MMR: the peaks an MMR has after MmrCount appends (peak i present iff bit i set)
	var mmr []c25Peak
	for i := 0; i < 32 && in.MmrCount>>uint(i) != 0; i++ {
		if in.MmrCount>>uint(i)&1 == 1 {
			mmr = append(mmr, c25Peak{true, c25H32("m", in.MmrSeed+uint32(i))})
		} else {
			mmr = append(mmr, c25Peak{})
		}
	}
	prior := types.RecentBlocks{History: types.BlocksHistory{}}
	for _, m := range model {
		prior.History = append(prior.History, c25ToBlockInfo(m))
	}
	for _, p := range mmr {
		if p.Set {
			h := types.OpaqueHash(p.H)
			prior.Mmr.Peaks = append(prior.Mmr.Peaks, &h)
		} else {
			prior.Mmr.Peaks = append(prior.Mmr.Peaks, nil)
		}
	}
	cs.GetPriorStates().SetBeta(prior)

	nontrivial := false
	for bi, b := range in.Blocks {
		// ---- build the block
		hdr := types.Header{
			Parent: types.HeaderHash(c25H32("P", b.Parent)), ParentStateRoot: types.StateRoot(c25H32("r", b.ParentRoot)),
			ExtrinsicHash: types.OpaqueHash(c25H32("e", b.ExtHash)), Slot: types.TimeSlot(b.Slot), AuthorIndex: types.ValidatorIndex(b.Author),
		}
		ref := c25RefHeader{Parent: c25H32("P", b.Parent), ParentRoot: c25H32("r", b.ParentRoot), Ext: c25H32("e", b.ExtHash), Slot: b.Slot, Author: b.Author}
		copy(hdr.EntropySource[:], c25Bytes("v", b.Entropy, 96))
		copy(ref.Entropy[:], c25Bytes("v", b.Entropy, 96))
		copy(hdr.Seal[:], c25Bytes("S", b.Seal, 96))
		copy(ref.Seal[:], c25Bytes("S", b.Seal, 96))
		hdr.OffendersMark = types.OffendersMark{}
		for _, o := range b.Offenders {
			hdr.OffendersMark = append(hdr.OffendersMark, types.Ed25519Public(c25H32("o", o)))
			ref.Offenders = append(ref.Offenders, c25H32("o", o))
		}
		if b.EpochMark && !in.Full {
			em := &types.EpochMark{Entropy: types.Entropy(c25H32("E", b.Seal)), TicketsEntropy: types.Entropy(c25H32("T", b.Seal))}
			ref.Epoch = append(ref.Epoch, em.Entropy[:]...)
			ref.Epoch = append(ref.Epoch, em.TicketsEntropy[:]...)
			for v := 0; v < types.ValidatorsCount; v++ {
				k := types.EpochMarkValidatorKeys{Bandersnatch: types.BandersnatchPublic(c25H32("B", b.Seal+uint32(v))), Ed25519: types.Ed25519Public(c25H32("D", b.Seal+uint32(v)))}
				em.Validators = append(em.Validators, k)
				ref.Epoch = append(ref.Epoch, k.Bandersnatch[:]...)
				ref.Epoch = append(ref.Epoch, k.Ed25519[:]...)
			}
			hdr.EpochMark = em
			c.Class("header_with_epoch_mark")
		}
		if b.TicketMark && !in.Full {
			tm := types.TicketsMark{}
			ref.Tickets = []byte{}
			for t := 0; t < types.EpochLength; t++ {
				tb := types.TicketBody{ID: types.TicketID(c25H32("t", b.Seal+uint32(t))), Attempt: types.TicketAttempt(t % 3)}
				tm = append(tm, tb)
				ref.Tickets = append(ref.Tickets, tb.ID[:]...)
				ref.Tickets = append(ref.Tickets, byte(t%3))
			}
			hdr.TicketsMark = &tm
			c.Class("header_with_tickets_mark")
		}
		var eg types.GuaranteesExtrinsic
		for _, p := range b.Pkgs {
			eg = append(eg, types.ReportGuarantee{Report: types.WorkReport{PackageSpec: types.WorkPackageSpec{
				Hash: types.WorkPackageHash(p.Hash.expand()), ExportsRoot: types.ExportsRoot(c25H32("x", p.Exports))}}})
		}
		var theta types.LastAccOut
		for _, o := range b.Outs {
			theta = append(theta, types.AccumulatedServiceHash{ServiceID: types.ServiceID(o.Service), Hash: types.OpaqueHash(c25H32("O", o.Hash))})
		}

		// ---- model step
		full := len(model) == c25H
		if len(model) > 0 {
			model[len(model)-1].State = ref.ParentRoot
		}
		var s [][]byte
		for _, o := range b.Outs {
			h := c25H32("O", o.Hash)
			s = append(s, append(binary.LittleEndian.AppendUint32(nil, o.Service), h[:]...))
		}
		if len(mmr) >= 2 && mmr[0].Set && mmr[1].Set {
			c.Class("block_mmr_append_merges_ge2_peaks")
		}
		mmr = c25RefAppend(mmr, c25RefMB(s))
		ne := c25MEntry{Header: blake2b.Sum256(c25RefEncodeHeader(ref)), Beefy: c25RefSuperPeak(mmr)}
		for _, p := range b.Pkgs {
			ne.Pkgs = append(ne.Pkgs, c25MPkg{p.Hash.expand(), c25H32("x", p.Exports)})
		}
		sort.Slice(ne.Pkgs, func(i, j int) bool { return bytes.Compare(ne.Pkgs[i].Hash[:], ne.Pkgs[j].Hash[:]) < 0 })
		sortedAlready := true
		for i := range ne.Pkgs {
			if ne.Pkgs[i].Hash != b.Pkgs[i].Hash.expand() {
				sortedAlready = false
			}
		}
		model = append(model, ne)
		if len(model) > c25H {
			model = model[len(model)-c25H:]
		}

		// ---- classes / non-trivial rule: history already full and >= 2 packages
		if full {
			c.Class("block_on_full_history")
		} else {
			c.Class("block_on_growing_history")
		}
		if len(b.Pkgs) >= 2 && !sortedAlready {
			c.Class("block_packages_unsorted_in_extrinsic")
		}
		if len(b.Pkgs) >= 2 && full {
			nontrivial = true
		}
		switch len(b.Outs) {
		case 0:
			c.Class("block_outputs_0")
		case 1:
			c.Class("block_outputs_1")
		default:
			c.Class("block_outputs_ge2")
		}

		// ---- implementation step (the sequence RunSTF uses: 4.6 ... accumulation sets theta' ... 4.7)
		cs.AddBlock(types.Block{Header: hdr, Extrinsic: types.Extrinsic{Guarantees: eg}})
		STFBetaH2BetaHDagger()
		dag := cs.GetIntermediateStates().GetBetaHDagger()
		wantDagLen := len(model) - 1
		if full {
			wantDagLen = c25H
		}
		if len(dag) != wantDagLen {
			c.Failf("block %d: beta-dagger has %d entries, model %d", bi, len(dag), wantDagLen)
		}
		if len(dag) > 0 && [32]byte(dag[len(dag)-1].StateRoot) != ref.ParentRoot {
			c.Failf("block %d: beta-dagger newest state root %x, parent state root %x", bi, dag[len(dag)-1].StateRoot, ref.ParentRoot)
		}
		cs.GetPosteriorStates().SetLastAccOut(theta)
		if err := STFBetaHDagger2BetaHPrime(); err != nil {
			c.Failf("block %d: STFBetaHDagger2BetaHPrime error: %v", bi, err)
		}
		post := cs.GetPosteriorStates().GetBeta()
		if len(post.History) > c25H {
			c.Failf("block %d: posterior history has %d entries > H", bi, len(post.History))
		}
		if len(post.History) != len(model) {
			c.Failf("block %d: posterior history has %d entries, model %d", bi, len(post.History), len(model))
		}
		for i := range model {
			what := "carried"
			if i == len(model)-1 {
				what = "new"
			} else if i == len(model)-2 {
				what = "previous-newest"
			}
			c25CompareEntry(c, bi, i, post.History[i], model[i], what)
		}
		if len(post.Mmr.Peaks) != len(mmr) {
			c.Failf("block %d: posterior MMR has %d peaks, model %d", bi, len(post.Mmr.Peaks), len(mmr))
		}
		for i, p := range mmr {
			g := post.Mmr.Peaks[i]
			if (g != nil) != p.Set || (g != nil && [32]byte(*g) != p.H) {
				c.Failf("block %d: posterior MMR peak %d differs from model", bi, i)
			}
		}

		// ---- commit as ChainState.StateCommit does (posterior becomes prior, posterior reset)
		cs.GetPriorStates().SetBeta(post)
		cs.GetPosteriorStates().SetState(blockchain.NewPosteriorStates().GetState())
	}
	if nontrivial {
		c.NonTrivial()
	}
}

func TestVerif_C25(t *testing.T) {
	s := kit.Begin(t, "C25")
	defer s.Finish()
	logger.GetLogger("main").Disable()
	if maxBlocksHistory != c25H {
		t.Fatalf("package constant H = %d, harness assumes %d", maxBlocksHistory, c25H)
	}
	defer types.SetTinyMode()
	kit.Run(s, "history_vs_model", kit.N{Quick: 4000, Thorough: 60000}, c25Gen, c25Check)
}
