package validator

// C29: validator grid neighbours and preferred initiator.
//
// Reference (written from the property statement / JAMNP-S "Required connectivity"):
//   - grid width w = floor(sqrt(V)), computed with integers only;
//   - i ~ j (same epoch)  <=>  i != j and (i div w == j div w  or  i mod w == j mod w);
//   - the neighbours of validator i additionally contain the validator with the
//     same index in the previous and in the next epoch;
//   - a key is a neighbour of self iff it is the Ed25519 key of one of those validators;
//   - P(a,b) = a when (a[31] > 127) xor (b[31] > 127) xor (a < b), otherwise b.
//
// Three sub-properties: an enumeration of all (V, index) for V in 0..1100 against
// the index-level API, a rapid search over validator sets with shared keys for
// the key-level API (ValidatorManager.IsNeighbor / GetNeighbors), and a rapid
// search over key pairs for PreferredInitiator.

import (
	"crypto/sha256"
	"encoding/binary"
	"fmt"
	"sort"
	"testing"

	"github.com/New-JAMneration/JAM-Protocol/internal/types"
	kit "github.com/New-JAMneration/JAM-Protocol/internal/verifkit"
	"pgregory.net/rapid"
)

// ---- reference ---------------------------------------------------------------

func c29RefWidth(v int) int { // floor(sqrt(v)) for v >= 1, integers only
	w := 0
	for (w+1)*(w+1) <= v {
		w++
	}
	return w
}

func c29RefRelated(v, a, b int) bool {
	if a < 0 || b < 0 || a >= v || b >= v || a == b {
		return false
	}
	w := c29RefWidth(v)
	return a/w == b/w || a%w == b%w
}

func c29IsSquare(v int) bool { w := c29RefWidth(v); return w*w == v }

// ---- validator construction ----------------------------------------------------

// c29Key expands a key id into an Ed25519 key.
func c29Key(id int) types.Ed25519Public {
	var b [8]byte
	binary.LittleEndian.PutUint64(b[:], uint64(int64(id)))
	return types.Ed25519Public(sha256.Sum256(b[:]))
}

// c29Validator: the Ed25519 key comes from the key id; the other fields mark
// (epoch, index) so that a validator returned by the code is identified exactly.
func c29Validator(epoch, index, keyID int) types.Validator {
	var v types.Validator
	v.Ed25519 = c29Key(keyID)
	binary.LittleEndian.PutUint32(v.Bandersnatch[0:], uint32(epoch))
	binary.LittleEndian.PutUint32(v.Bandersnatch[4:], uint32(index))
	binary.LittleEndian.PutUint32(v.Metadata[16:], uint32(index)) // "port"
	v.Metadata[0] = byte(epoch)
	v.Bls[143] = byte(index)
	return v
}

// ---- sub-property 1: enumeration of (V, index) ---------------------------------

type c29EnumInput struct {
	V int `json:"v"`
	I int `json:"i"` // -1 .. V (both ends are out of range on purpose)
}

var c29GridCache = map[int]*GridMapper{}

func c29EnumGrid(v int) *GridMapper {
	if g, ok := c29GridCache[v]; ok {
		return g
	}
	g := &GridMapper{}
	for i := 0; i < v; i++ {
		g.Previous = append(g.Previous, c29Validator(0, i, 1_000_000+i))
		g.Current = append(g.Current, c29Validator(1, i, 2_000_000+i))
		g.Next = append(g.Next, c29Validator(2, i, 3_000_000+i))
	}
	if len(c29GridCache) > 4 {
		c29GridCache = map[int]*GridMapper{}
	}
	c29GridCache[v] = g
	return g
}

func c29CheckEnum(c *kit.Case, in c29EnumInput) {
	v, i := in.V, in.I
	if v < 0 || v > 5000 {
		return
	}
	c29CheckGrid(c, c29EnumGrid(v), v, i)
}

// ---- one GridMapper value that lives across validator-set changes (epochs): every answer
// depends on the sets it holds at the time of the call only
type c29ReuseInput struct {
	Vs []int `json:"vs"` // successive set sizes
	Is []int `json:"is"` // index queried at each stage (taken modulo V, plus the two out-of-range ends)
}

func c29GenReuse(rt *rapid.T) c29ReuseInput {
	sizes := []int{1, 2, 3, 4, 5, 6, 8, 9, 10, 15, 16, 17, 24, 25, 26, 35, 36, 37, 63, 64, 65, 99, 100, 101, 1023, 1024, 1025}
	n := rapid.IntRange(2, 5).Draw(rt, "stages")
	var in c29ReuseInput
	for k := 0; k < n; k++ {
		in.Vs = append(in.Vs, rapid.SampledFrom(sizes).Draw(rt, "v"))
		in.Is = append(in.Is, rapid.IntRange(-1, 1025).Draw(rt, "i"))
	}
	return in
}

func c29CheckReuse(c *kit.Case, in c29ReuseInput) {
	if len(in.Vs) == 0 || len(in.Vs) > 8 || len(in.Is) != len(in.Vs) {
		return
	}
	g := &GridMapper{}
	widths := map[int]bool{}
	for k, v := range in.Vs {
		if v < 1 || v > 2000 {
			return
		}
		var prev, cur, next []types.Validator
		for i := 0; i < v; i++ {
			prev = append(prev, c29Validator(3*k, i, 1_000_000*(3*k+1)+i))
			cur = append(cur, c29Validator(3*k+1, i, 1_000_000*(3*k+2)+i))
			next = append(next, c29Validator(3*k+2, i, 1_000_000*(3*k+3)+i))
		}
		g.Previous, g.Current, g.Next = prev, cur, next
		widths[c29RefWidth(v)] = true
		i := in.Is[k]
		if i > v {
			i = i % v
		}
		c29CheckGrid(c, g, v, i)
		c29CheckGrid(c, g, v, (i+v/2)%v)
	}
	if len(widths) >= 2 {
		c.Class("reuse_grid_width_changed")
		c.NonTrivial()
	}
}

func c29CheckGrid(c *kit.Case, g *GridMapper, v, i int) {
	if v >= 1 {
		if got, want := ComputeWidth(v), c29RefWidth(v); got != want {
			c.Failf("ComputeWidth(%d) = %d, floor(sqrt) = %d", v, got, want)
		}
	} else {
		_ = ComputeWidth(v)
	}
	// reference neighbour set of i
	want := map[int]bool{}
	for j := 0; j < v; j++ {
		if c29RefRelated(v, i, j) {
			want[j] = true
		}
	}
	got := g.NeighborIndicesInEpoch(i)
	seen := map[int]bool{}
	for _, j := range got {
		if seen[j] {
			c.Failf("V=%d: NeighborIndicesInEpoch(%d) lists %d twice", v, i, j)
		}
		seen[j] = true
		if !want[j] {
			c.Failf("V=%d (w=%d): NeighborIndicesInEpoch(%d) contains %d which shares neither row nor column (or is out of range / itself)", v, c29RefWidth(v), i, j)
		}
	}
	for j := range want {
		if !seen[j] {
			c.Failf("V=%d (w=%d): NeighborIndicesInEpoch(%d) misses %d", v, c29RefWidth(v), i, j)
		}
	}
	// relation: equals reference, symmetric, irreflexive, equals membership
	for j := -1; j <= v; j++ {
		ab, ba := g.IsNeighborInEpoch(i, j), g.IsNeighborInEpoch(j, i)
		if ab != ba {
			c.Failf("V=%d: IsNeighborInEpoch(%d,%d)=%v but (%d,%d)=%v (not symmetric)", v, i, j, ab, j, i, ba)
		}
		if i == j && ab {
			c.Failf("V=%d: IsNeighborInEpoch(%d,%d) is true (not irreflexive)", v, i, j)
		}
		if ab != c29RefRelated(v, i, j) {
			c.Failf("V=%d (w=%d): IsNeighborInEpoch(%d,%d)=%v, definition gives %v", v, c29RefWidth(v), i, j, ab, !ab)
		}
		if ab != seen[j] {
			c.Failf("V=%d: IsNeighborInEpoch(%d,%d)=%v disagrees with membership in NeighborIndicesInEpoch(%d)", v, i, j, ab, i)
		}
	}
	// AllNeighborValidators = in-epoch neighbours + previous[i] + next[i]  (as a multiset)
	if i >= 0 && i < v {
		wantV := map[types.Validator]int{}
		for j := range want {
			wantV[g.Current[j]]++
		}
		wantV[g.Previous[i]]++
		wantV[g.Next[i]]++
		first := g.AllNeighborValidators(i)
		c29CompareValidators(c, fmt.Sprintf("V=%d AllNeighborValidators(%d)", v, i), first, wantV)
		// an answer handed out stays the caller's: later questions to the same mapper must not change it
		g.AllNeighborValidators((i + 1) % v)
		g.AllNeighborValidators((i + v - 1) % v)
		c29CompareValidators(c, fmt.Sprintf("V=%d AllNeighborValidators(%d), looked at again after two later calls on the same mapper,", v, i), first, wantV)
	} else if i < 0 {
		if r := g.AllNeighborValidators(i); len(r) != 0 {
			c.Failf("V=%d: AllNeighborValidators(%d) returned %d validators for a negative index", v, i, len(r))
		}
	}
	// classes / non-trivial rule: V not a perfect square and some validator in a
	// different row AND column of i exists
	if v >= 1 && !c29IsSquare(v) {
		c.Class("enum_V_not_square")
		if i >= 0 && i < v && len(want) < v-1 {
			c.NonTrivial()
		}
	} else {
		c.Class("enum_V_square_or_zero")
	}
	if i < 0 || i >= v {
		c.Class("enum_index_out_of_range")
	}
}

func c29CompareValidators(c *kit.Case, what string, got []types.Validator, want map[types.Validator]int) {
	gotM := map[types.Validator]int{}
	for _, x := range got {
		gotM[x]++
	}
	for x, n := range want {
		if gotM[x] != n {
			c.Failf("%s: validator (epoch %d, index %d) appears %d times, expected %d", what,
				binary.LittleEndian.Uint32(x.Bandersnatch[0:]), binary.LittleEndian.Uint32(x.Bandersnatch[4:]), gotM[x], n)
		}
	}
	for x, n := range gotM {
		if want[x] == 0 {
			c.Failf("%s: unexpected validator (epoch %d, index %d) returned %d times", what,
				binary.LittleEndian.Uint32(x.Bandersnatch[0:]), binary.LittleEndian.Uint32(x.Bandersnatch[4:]), n)
		}
	}
}

// ---- sub-property 2: key-level API on sets sharing keys --------------------------

type c29SetsInput struct {
	Cur     []int `json:"cur"`  // key ids of the current set (index = validator index)
	Prev    []int `json:"prev"` // null = no previous set
	Next    []int `json:"next"`
	Self    int   `json:"self"`
	Queries []int `json:"queries"` // key ids asked of IsNeighbor
}

func c29GenSets(rt *rapid.T) c29SetsInput {
	var in c29SetsInput
	v := rapid.OneOf(rapid.IntRange(1, 12), rapid.IntRange(1, 40), rapid.IntRange(1, 40), rapid.IntRange(41, 1100),
		rapid.SampledFrom([]int{1, 2, 3, 4, 5, 6, 8, 9, 10, 15, 16, 17, 24, 25, 26, 1023, 1024, 1025, 1100})).Draw(rt, "V")
	in.Cur = make([]int, v)
	for i := range in.Cur {
		in.Cur[i] = 100 + i
	}
	// duplicates inside the current set (e.g. zeroed offender keys): rare
	if rapid.IntRange(0, 9).Draw(rt, "dups") == 0 && v >= 2 {
		n := rapid.IntRange(1, 3).Draw(rt, "ndups")
		for k := 0; k < n; k++ {
			x, y := rapid.IntRange(0, v-1).Draw(rt, "dx"), rapid.IntRange(0, v-1).Draw(rt, "dy")
			in.Cur[x] = in.Cur[y]
		}
	}
	other := func(label string, freshBase int) []int {
		mode := rapid.IntRange(0, 9).Draw(rt, label+"_mode")
		var s []int
		switch mode {
		case 0:
			return nil
		case 1, 2: // unchanged validator set
			s = append([]int{}, in.Cur...)
		case 3, 4: // rotated by k
			k := rapid.IntRange(1, v).Draw(rt, label+"_rot")
			s = make([]int, v)
			for i := range s {
				s[i] = in.Cur[(i+k)%v]
			}
		case 5: // random permutation of the same keys
			p := rapid.Permutation(in.Cur).Draw(rt, label+"_perm")
			s = p
		case 6: // entirely different keys
			s = make([]int, v)
			for i := range s {
				s[i] = freshBase + i
			}
		default: // mostly unchanged, a few positions swapped or replaced
			s = append([]int{}, in.Cur...)
			n := rapid.IntRange(1, 4).Draw(rt, label+"_nchg")
			for k := 0; k < n; k++ {
				x := rapid.IntRange(0, v-1).Draw(rt, label+"_x")
				if rapid.Bool().Draw(rt, label+"_swap") {
					y := rapid.IntRange(0, v-1).Draw(rt, label+"_y")
					s[x], s[y] = s[y], s[x]
				} else {
					s[x] = freshBase + k
				}
			}
		}
		// occasionally a shorter set
		if rapid.IntRange(0, 14).Draw(rt, label+"_short") == 0 {
			s = s[:rapid.IntRange(0, len(s)).Draw(rt, label+"_len")]
		}
		return s
	}
	in.Prev = other("prev", 10_000)
	in.Next = other("next", 20_000)
	in.Self = rapid.IntRange(0, v-1).Draw(rt, "self")
	// queries: keys at chosen positions of each set, the cross-epoch keys of self, strangers, own key
	nq := rapid.IntRange(1, 8).Draw(rt, "nq")
	for k := 0; k < nq; k++ {
		switch rapid.IntRange(0, 7).Draw(rt, "qkind") {
		case 0, 1:
			in.Queries = append(in.Queries, in.Cur[rapid.IntRange(0, v-1).Draw(rt, "qi")])
		case 2:
			if len(in.Prev) > 0 {
				in.Queries = append(in.Queries, in.Prev[rapid.IntRange(0, len(in.Prev)-1).Draw(rt, "qi")])
			}
		case 3:
			if len(in.Next) > 0 {
				in.Queries = append(in.Queries, in.Next[rapid.IntRange(0, len(in.Next)-1).Draw(rt, "qi")])
			}
		case 4:
			if in.Self < len(in.Prev) {
				in.Queries = append(in.Queries, in.Prev[in.Self])
			}
		case 5:
			if in.Self < len(in.Next) {
				in.Queries = append(in.Queries, in.Next[in.Self])
			}
		case 6:
			in.Queries = append(in.Queries, 50_000+rapid.IntRange(0, 5).Draw(rt, "stranger"))
		default:
			in.Queries = append(in.Queries, in.Cur[in.Self])
		}
	}
	return in
}

func c29CheckSets(c *kit.Case, in c29SetsInput) {
	v := len(in.Cur)
	if v == 0 || in.Self < 0 || in.Self >= v {
		return
	}
	g := &GridMapper{}
	for i, id := range in.Cur {
		g.Current = append(g.Current, c29Validator(1, i, id))
	}
	if in.Prev != nil {
		g.Previous = types.ValidatorsData{}
		for i, id := range in.Prev {
			g.Previous = append(g.Previous, c29Validator(0, i, id))
		}
	}
	if in.Next != nil {
		g.Next = types.ValidatorsData{}
		for i, id := range in.Next {
			g.Next = append(g.Next, c29Validator(2, i, id))
		}
	}
	self := in.Self
	selfID := in.Cur[self]
	vm := &ValidatorManager{Grid: g, SelfIndex: self, SelfKey: c29Key(selfID)}

	// reference neighbour validators of self
	wantV := map[types.Validator]int{}
	neighbourKeyIDs := map[int]string{} // key id -> how it is a neighbour
	for j := 0; j < v; j++ {
		if c29RefRelated(v, self, j) {
			wantV[g.Current[j]]++
			neighbourKeyIDs[in.Cur[j]] = "grid"
		}
	}
	crossIDs := map[int]bool{}
	if self < len(in.Prev) {
		wantV[g.Previous[self]]++
		crossIDs[in.Prev[self]] = true
	}
	if self < len(in.Next) {
		wantV[g.Next[self]]++
		crossIDs[in.Next[self]] = true
	}
	c29CompareValidators(c, fmt.Sprintf("V=%d GetNeighbors() of self=%d", v, self), vm.GetNeighbors(), wantV)
	c29CompareValidators(c, fmt.Sprintf("V=%d AllNeighborValidators(%d)", v, self), g.AllNeighborValidators(self), wantV)

	// first index of each key in the current set + duplicate detection
	firstIdx := map[int]int{}
	dupInCur := false
	for j, id := range in.Cur {
		if _, ok := firstIdx[id]; ok {
			dupInCur = true
		} else {
			firstIdx[id] = j
		}
	}
	if dupInCur {
		c.Class("sets_duplicate_key_in_current")
	}
	nontrivial := false
	for _, q := range in.Queries {
		key := c29Key(q)
		got := vm.IsNeighbor(key)
		if q == selfID {
			// A node is not its own neighbour (irreflexive) and the caller skips its
			// own key (quic.StartValidatorConnections); when the validator set is
			// unchanged previous[self] carries the same key, which makes "the
			// validator at my index in the previous epoch" the node itself. Not
			// asserted either way.
			c.Class("sets_query_own_key_not_asserted")
			continue
		}
		_, grid := neighbourKeyIDs[q]
		cross := crossIDs[q]
		want := grid || cross
		j, inCur := firstIdx[q]
		switch {
		case cross && inCur:
			c.Class("sets_query_cross_epoch_key_also_in_current")
			nontrivial = true
		case cross:
			c.Class("sets_query_cross_epoch_key_only")
			nontrivial = true
		case grid:
			c.Class("sets_query_grid_neighbour")
		case inCur:
			c.Class("sets_query_current_non_neighbour")
		default:
			c.Class("sets_query_stranger_or_other_epoch_other_index")
		}
		if !c29IsSquare(v) && inCur && !c29RefRelated(v, self, j) && j != self {
			nontrivial = true
		}
		if got == want {
			continue
		}
		if got && !want {
			c.Failf("V=%d self=%d: IsNeighbor(key %d) = true but that key belongs to no grid neighbour and to neither previous[%d] nor next[%d]", v, self, q, self, self)
		}
		// got == false, want == true: the key's validator IS among AllNeighborValidators(self)
		if inCur && !c29RefRelated(v, self, j) {
			// Known finding: IsNeighbor stops at the FIRST index of the current set that
			// holds the key; when that index is not a grid neighbour the key is
			// rejected although it also belongs to
			if cross {
				c.KnownNote("KF-C29-1", fmt.Sprintf("V=%d self=%d key at current[%d] (not a grid neighbour) is also previous/next[%d]: IsNeighbor=false although the validator is in AllNeighborValidators(self)", v, self, j, self))
				continue
			}
			if grid && dupInCur {
				c.KnownNote("KF-C29-2", fmt.Sprintf("V=%d self=%d key held by current[%d] (not a neighbour) and by a later current index that IS a grid neighbour: IsNeighbor=false", v, self, j))
				continue
			}
		}
		c.Failf("V=%d self=%d: IsNeighbor(key %d) = false but the key's validator is in AllNeighborValidators(self) (grid=%v cross-epoch=%v, first current index %d, in current=%v)", v, self, q, grid, cross, j, inCur)
	}
	if nontrivial {
		c.NonTrivial()
	}
}

// ---- sub-property 3: preferred initiator -----------------------------------------

type c29PairInput struct {
	A []byte `json:"a"` // 32 bytes
	B []byte `json:"b"`
}

func c29GenPair(rt *rapid.T) c29PairInput {
	edge := rapid.SampledFrom([]byte{0, 1, 126, 127, 128, 129, 254, 255})
	keyGen := rapid.Custom(func(rt *rapid.T) []byte {
		k := rapid.SliceOfN(rapid.Byte(), 32, 32).Draw(rt, "k")
		switch rapid.IntRange(0, 3).Draw(rt, "shape") {
		case 0:
			k[31] = edge.Draw(rt, "last")
		case 1:
			k[31] = edge.Draw(rt, "last")
			k[0] = edge.Draw(rt, "first")
		case 2:
			f := rapid.SampledFrom([]byte{0, 0x7F, 0x80, 0xFF}).Draw(rt, "fill")
			for i := range k {
				k[i] = f
			}
			k[31] = edge.Draw(rt, "last")
		}
		return k
	})
	a := keyGen.Draw(rt, "a")
	var b []byte
	switch rapid.IntRange(0, 6).Draw(rt, "rel") {
	case 0:
		b = append([]byte{}, a...) // equal keys
	case 1: // differ only in the high bit of byte 31
		b = append([]byte{}, a...)
		b[31] ^= 0x80
	case 2: // differ in exactly one bit
		b = append([]byte{}, a...)
		bit := rapid.IntRange(0, 255).Draw(rt, "bit")
		b[bit/8] ^= 1 << uint(bit%8)
	case 3: // share a prefix, differ from some byte on
		b = keyGen.Draw(rt, "b")
		n := rapid.IntRange(0, 31).Draw(rt, "prefix")
		copy(b[:n], a[:n])
	case 4: // differ only in byte 31 (both values around the 127/128 boundary)
		b = append([]byte{}, a...)
		b[31] = edge.Draw(rt, "blast")
	default:
		b = keyGen.Draw(rt, "b")
	}
	return c29PairInput{A: a, B: b}
}

func c29RefLess(a, b []byte) bool { // lexicographic order on 32-byte strings
	for i := 0; i < 32; i++ {
		if a[i] != b[i] {
			return a[i] < b[i]
		}
	}
	return false
}

func c29CheckPair(c *kit.Case, in c29PairInput) {
	if len(in.A) != 32 || len(in.B) != 32 {
		return
	}
	var a, b types.Ed25519Public
	copy(a[:], in.A)
	copy(b[:], in.B)
	ab := PreferredInitiator(a, b)
	ba := PreferredInitiator(b, a)
	if ab != a && ab != b {
		c.Failf("PreferredInitiator(a,b) = %x is neither a nor b", ab)
	}
	if ab != ba {
		c.Failf("peers disagree: P(a,b) = %x.. but P(b,a) = %x.. (a=%x b=%x)", ab[:4], ba[:4], a, b)
	}
	// JAMNP-S formula
	x := (in.A[31] > 127) != (in.B[31] > 127)
	x = x != c29RefLess(in.A, in.B)
	want := b
	if x {
		want = a
	}
	if ab != want {
		c.Failf("P(a,b) = %x.., formula gives %x.. (a=%x b=%x)", ab[:4], want[:4], a, b)
	}
	switch {
	case a == b:
		c.Class("pair_equal_keys")
	case (in.A[31] > 127) != (in.B[31] > 127):
		c.Class("pair_high_bits_differ")
		c.NonTrivial()
	default:
		c.Class("pair_high_bits_equal")
		c.NonTrivial()
	}
	if in.A[31] == 127 || in.A[31] == 128 || in.B[31] == 127 || in.B[31] == 128 {
		c.Class("pair_byte31_at_127_128")
	}
}

// ---------------------------------------------------------------------------------

func TestVerif_C29(t *testing.T) {
	s := kit.Begin(t, "C29")
	defer s.Finish()

	// nil manager / nil grid: "no neighbours", never a panic
	var nilVM *ValidatorManager
	if nilVM.IsNeighbor(types.Ed25519Public{}) || nilVM.GetNeighbors() != nil || (&ValidatorManager{}).IsNeighbor(types.Ed25519Public{}) {
		t.Errorf("nil ValidatorManager / nil grid must report no neighbours")
	}

	// 1. enumeration: every V in 0..1100. Quick: all indices for V <= 40 (all pairs),
	// every index whose row/column is a boundary one plus a stride sample above;
	// thorough: every (V, i) with every j.
	if !kit.EnumSub(s, "grid_relation_enumeration", c29CheckEnum) {
		complete := true
	outer:
		for v := 0; v <= 1100; v++ {
			if v%s.NShards != s.Shard {
				continue
			}
			var idx []int
			if s.Thorough() || v <= 40 {
				for i := -1; i <= v; i++ {
					idx = append(idx, i)
				}
			} else {
				w := c29RefWidth(v)
				pick := map[int]bool{-1: true, v: true, 0: true, 1: true, w - 1: true, w: true, w + 1: true, v - 1: true, v - 2: true,
					(v / w) * w: true, (v/w)*w - 1: true, v - w: true, v - w - 1: true, v / 2: true}
				for i := (v * 7) % 13; i < v; i += 13 {
					pick[i] = true
				}
				for i := range pick {
					idx = append(idx, i)
				}
				sort.Ints(idx)
			}
			for _, i := range idx {
				if !kit.Each(s, "grid_relation_enumeration", c29EnumInput{V: v, I: i}, c29CheckEnum) {
					complete = false
					break outer
				}
			}
		}
		_ = complete
	}

	// 2. key-level API
	kit.Run(s, "mapper_reused_across_set_changes", kit.N{Quick: 3000, Thorough: 100000}, c29GenReuse, c29CheckReuse)
	kit.Run(s, "is_neighbor_by_key", kit.N{Quick: 40000, Thorough: 1500000}, c29GenSets, c29CheckSets)

	// 3. preferred initiator
	kit.Run(s, "preferred_initiator", kit.N{Quick: 60000, Thorough: 3000000}, c29GenPair, c29CheckPair)
}
