package blockchain

// C16: over any history of state-root computations the root computed through the
// per-key leaf-hash cache (ChainState.ComputeStateRootWithCache) equals the root
// computed from scratch for the same entries.
//
// A case is a history given as DATA (c16Input): a key universe description, a cache
// capacity and a list of operations. The check interprets the history on a FRESH
// ChainState (newChainState()), keeps the live entry set in a harness-owned model and
// after every "compute" compares
//
//	cached   = cs.ComputeStateRootWithCache(entries)
//	uncached = merklization.MerklizationSerializedState(entries)   (checked by C15)
//	ref      = c16RefRoot(entries)   (bit-level GP D.3-D.6 reference, copy of C15's)
//
// Nothing of the cache is consulted to obtain the expected value.

import (
	"bytes"
	"crypto/sha256"
	"encoding/binary"
	"runtime"
	"sort"
	"testing"

	"github.com/New-JAMneration/JAM-Protocol/internal/types"
	m "github.com/New-JAMneration/JAM-Protocol/internal/utilities/merklization"
	kit "github.com/New-JAMneration/JAM-Protocol/internal/verifkit"
	"github.com/New-JAMneration/JAM-Protocol/logger"
	"golang.org/x/crypto/blake2b"
	"pgregory.net/rapid"
)

// ---------------------------------------------------------------------------
// input

// c16Val describes a value: Len bytes of the SHA-256 counter stream of Seed (so two
// values with the same seed share a prefix whatever their lengths), optionally with
// one bit flipped (Flip >= 0: bit Flip mod 8*Len).
type c16Val struct {
	Len  int    `json:"len"`
	Seed uint32 `json:"seed"`
	Flip int    `json:"flip"`
	Pad  int    `json:"pad,omitempty"` // zero bytes appended after the Len content bytes (values differing only by trailing zeros)
}

// c16Op is one step of a history.
//
//	set       live[Key] = Val                       (add, or overwrite = change)
//	del       remove the Sel-th live key (ascending id); remembered as removed
//	samelen   Sel-th live key gets another value of the SAME length (Val.Seed / Val.Flip)
//	flip      Sel-th live key crosses the embedded(<=32)/hashed(>32) boundary: new length Val.Len,
//	          content seed kept (KeepSeed) or replaced by Val.Seed
//	reinsert  Sel-th removed key comes back, with its old value (KeepSeed) or with Val
//	bulk      keys Key..Key+N-1 are set; value i has seed Val.Seed + i%Mod (Mod<=0: all equal) and a
//	          length cycling through c16BulkLens starting at Val.Len
//	bulkdel   keys Key..Key+N-1 are removed (remembered as removed)
//	compute   compare the three roots; entries presented in order Order (see c16Present)
//	clear     cs.ClearKeyLevelCache()
type c16Op struct {
	Op       string `json:"op"`
	Key      int    `json:"key,omitempty"`
	Sel      int    `json:"sel,omitempty"`
	N        int    `json:"n,omitempty"`
	Mod      int    `json:"mod,omitempty"`
	Val      c16Val `json:"val"`
	KeepSeed bool   `json:"keep,omitempty"`
	Order    int    `json:"order,omitempty"`
	OSeed    uint32 `json:"oseed,omitempty"`
}

type c16Input struct {
	// key id -> 31-byte key: the 4-byte big-endian id sits at byte IDPos (0..27, so ids are
	// injective); the other bytes come from SHA-256(KeySeed) when Shared (all keys equal outside
	// the id: deep tries) or from SHA-256(KeySeed, id) otherwise.
	KeySeed uint32 `json:"key_seed"`
	IDPos   int    `json:"id_pos"`
	Shared  bool   `json:"shared"`
	// Cap is installed as types.MaxKeyLevelCacheSize for the duration of the case (restored
	// afterwards). 0 = leave the repository's value for the tiny mode (EpochLength*50 = 600).
	Cap int     `json:"cap"`
	Ops []c16Op `json:"ops"`
	// InPlace: the key-values handed to the cached computation keep ONE buffer per key across the
	// computations of the case; a value change of the same length is written into that buffer in
	// place (the state is carried over by reference from block to block)
	InPlace bool `json:"in_place,omitempty"`
}

var c16BulkLens = []int{0, 1, 31, 32, 33, 64, 7, 40}

// ---------------------------------------------------------------------------
// deterministic expansion of the data

func c16Stream(tag byte, seed uint32, extra uint32, n int) []byte {
	out := make([]byte, 0, n+32)
	var ctr uint32
	for len(out) < n {
		var b [13]byte
		b[0] = tag
		binary.LittleEndian.PutUint32(b[1:], seed)
		binary.LittleEndian.PutUint32(b[5:], extra)
		binary.LittleEndian.PutUint32(b[9:], ctr)
		h := sha256.Sum256(b[:])
		out = append(out, h[:]...)
		ctr++
	}
	return out[:n]
}

func c16ValueBytes(v c16Val) []byte {
	pad := v.Pad
	if pad < 0 {
		pad = 0
	}
	if v.Len <= 0 {
		return make([]byte, pad)
	}
	b := c16Stream('v', v.Seed, 0, v.Len)
	if v.Flip >= 0 {
		bit := v.Flip % (8 * v.Len)
		b[bit/8] ^= 1 << uint(bit%8)
	}
	return append(b, make([]byte, pad)...)
}

func c16KeyBytes(in *c16Input, id int) types.StateKey {
	var k types.StateKey
	var body []byte
	if in.Shared {
		body = c16Stream('k', in.KeySeed, 0, 31)
	} else {
		body = c16Stream('k', in.KeySeed, uint32(id)+1, 31)
	}
	copy(k[:], body)
	pos := in.IDPos
	if pos < 0 {
		pos = 0
	}
	if pos > 27 {
		pos = 27
	}
	binary.BigEndian.PutUint32(k[pos:], uint32(id))
	return k
}

// ---------------------------------------------------------------------------
// bit-level reference (GP D.3-D.6), same construction as harness/C15

func c16RefBit(k []byte, i int) int { return int(k[i/8]>>(7-uint(i%8))) & 1 }

type c16RefKV struct {
	K []byte
	V []byte
}

// c16RefRoot works on kvs sorted ascending by key: inside a sub-trie all keys agree on the
// first `depth` bits, so the keys whose bit `depth` is 0 form a prefix of the range.
// (Allocation-free variant of C15's list-splitting reference.)
func c16RefRoot(kvs []c16RefKV, depth int) [32]byte {
	if len(kvs) == 0 {
		return [32]byte{}
	}
	if len(kvs) == 1 {
		var node [64]byte
		k, v := kvs[0].K, kvs[0].V
		if len(v) <= 32 {
			node[0] = 0b10000000 | byte(len(v))
			copy(node[1:32], k[:31])
			copy(node[32:], v)
		} else {
			node[0] = 0b11000000
			copy(node[1:32], k[:31])
			h := blake2b.Sum256(v)
			copy(node[32:], h[:])
		}
		return blake2b.Sum256(node[:])
	}
	split := len(kvs)
	for i, e := range kvs {
		if c16RefBit(e.K, depth) == 1 {
			split = i
			break
		}
	}
	for _, e := range kvs[split:] {
		if c16RefBit(e.K, depth) != 1 {
			panic("c16RefRoot: input not sorted")
		}
	}
	lh, rh := c16RefRoot(kvs[:split], depth+1), c16RefRoot(kvs[split:], depth+1)
	var node [64]byte
	copy(node[:32], lh[:])
	node[0] &^= 0x80
	copy(node[32:], rh[:])
	return blake2b.Sum256(node[:])
}

// ---------------------------------------------------------------------------
// generator

func c16GenVal(rt *rapid.T, pool int) c16Val {
	l := rapid.OneOf(rapid.SampledFrom([]int{0, 1, 31, 32, 33, 64}), rapid.IntRange(0, 80)).Draw(rt, "vlen")
	v := c16Val{Len: l, Flip: -1}
	// a small seed pool makes "same value under different keys" and "back to an earlier value" common
	if rapid.IntRange(0, 3).Draw(rt, "vpool") > 0 {
		v.Seed = uint32(rapid.IntRange(0, pool).Draw(rt, "vseed"))
	} else {
		v.Seed = rapid.Uint32().Draw(rt, "vseed32")
	}
	if rapid.IntRange(0, 4).Draw(rt, "vflipq") == 0 {
		v.Flip = rapid.OneOf(rapid.IntRange(0, 7), rapid.IntRange(0, 8*80)).Draw(rt, "vflip")
	}
	return v
}

func c16FlipLen(rt *rapid.T) (small, big int) {
	small = rapid.SampledFrom([]int{0, 1, 16, 31, 32}).Draw(rt, "small")
	big = rapid.SampledFrom([]int{33, 34, 40, 64, 80}).Draw(rt, "big")
	return
}

func c16Gen(rt *rapid.T) c16Input {
	in := c16Input{
		KeySeed: uint32(rapid.IntRange(0, 1<<20).Draw(rt, "keyseed")),
		IDPos:   rapid.SampledFrom([]int{0, 0, 1, 13, 26, 27, 27}).Draw(rt, "idpos"),
		Shared:  rapid.Bool().Draw(rt, "shared"),
	}
	// size class of the history
	//   0 small (<= 40 keys)  1 medium (bulk of 50..300)  2 large: live set crosses the capacity
	kind := rapid.SampledFrom([]int{0, 0, 0, 0, 1, 1, 2, 2}).Draw(rt, "kind")
	capKind := rapid.IntRange(0, 9).Draw(rt, "capkind")
	switch {
	case capKind <= 4:
		in.Cap = 0 // repository value (600 in tiny mode)
	case capKind <= 7:
		in.Cap = rapid.SampledFrom([]int{1, 2, 3, 4, 5, 8, 16, 33}).Draw(rt, "cap")
	case capKind == 8:
		in.Cap = 600
	default:
		in.Cap = 30000 // EpochLength*50 of the full mode
	}
	effCap := in.Cap
	if effCap == 0 {
		effCap = 600
	}
	steps := rapid.IntRange(1, 60).Draw(rt, "steps")
	if kind == 2 {
		steps = rapid.IntRange(4, 24).Draw(rt, "steps_large")
	}
	idRange := 24
	live := 0 // rough live count, only to steer the draws (ops are total functions anyway)
	bulkBase := 1000
	pool := 6
	for i := 0; i < steps; i++ {
		// weights: compute is frequent so that value changes fall between two computes
		w := rapid.IntRange(0, 99).Draw(rt, "w")
		var op c16Op
		switch {
		case i == 0 && kind >= 1:
			n := rapid.IntRange(50, 300).Draw(rt, "bulk_n")
			if kind == 2 {
				if effCap <= 1000 {
					// straddle the capacity: below, exactly at, just above, well above
					n = rapid.SampledFrom([]int{effCap - 1, effCap, effCap + 1, effCap + 7, effCap + 100, effCap/2 + 1}).Draw(rt, "bulk_big")
					if n < 1 {
						n = 1
					}
				} else {
					n = rapid.IntRange(601, 760).Draw(rt, "bulk_big2")
				}
			}
			op = c16Op{Op: "bulk", Key: bulkBase, N: n, Mod: rapid.SampledFrom([]int{0, 1, 3, 1 << 30}).Draw(rt, "mod"), Val: c16GenVal(rt, pool)}
			live += n
		case w < 30:
			op = c16Op{Op: "compute", Order: rapid.IntRange(0, 4).Draw(rt, "order"), OSeed: uint32(rapid.IntRange(0, 1000).Draw(rt, "oseed"))}
		case w < 45:
			op = c16Op{Op: "set", Key: rapid.IntRange(0, idRange).Draw(rt, "id"), Val: c16GenVal(rt, pool)}
			live++
		case w < 52:
			op = c16Op{Op: "samelen", Sel: rapid.IntRange(0, 1<<16).Draw(rt, "sel"), Val: c16GenVal(rt, pool)}
		case w < 57:
			// the selected key's value gains or loses trailing ZERO bytes (content otherwise unchanged)
			op = c16Op{Op: "pad", Sel: rapid.IntRange(0, 1<<16).Draw(rt, "sel"), N: rapid.SampledFrom([]int{0, 1, 1, 2, 3, 8, 31, 32, 33}).Draw(rt, "pad")}
		case w < 67:
			s, b := c16FlipLen(rt)
			// Val.Len carries the small length, N the big one: the check picks by the current length
			op = c16Op{Op: "flip", Sel: rapid.IntRange(0, 1<<16).Draw(rt, "sel"), Val: c16Val{Len: s, Seed: uint32(rapid.IntRange(0, pool).Draw(rt, "fseed")), Flip: -1},
				N: b, KeepSeed: rapid.Bool().Draw(rt, "keep")}
		case w < 76:
			op = c16Op{Op: "del", Sel: rapid.IntRange(0, 1<<16).Draw(rt, "sel")}
			if live > 0 {
				live--
			}
		case w < 85:
			op = c16Op{Op: "reinsert", Sel: rapid.IntRange(0, 1<<16).Draw(rt, "sel"), KeepSeed: rapid.IntRange(0, 2).Draw(rt, "keepv") > 0, Val: c16GenVal(rt, pool)}
			live++
		case w < 90:
			op = c16Op{Op: "clear"}
		case w < 95:
			n := rapid.IntRange(1, 40).Draw(rt, "bulk_small")
			if kind == 2 {
				n = rapid.OneOf(rapid.IntRange(1, 40), rapid.IntRange(100, 400)).Draw(rt, "bulk_more")
			}
			base := bulkBase + rapid.SampledFrom([]int{0, 0, 150, 5000}).Draw(rt, "bulk_base")
			op = c16Op{Op: "bulk", Key: base, N: n, Mod: rapid.SampledFrom([]int{0, 1, 3, 1 << 30}).Draw(rt, "mod"), Val: c16GenVal(rt, pool)}
			live += n
		default:
			n := rapid.IntRange(1, 60).Draw(rt, "bulkdel_n")
			if kind == 2 {
				n = rapid.OneOf(rapid.IntRange(1, 60), rapid.IntRange(100, 700)).Draw(rt, "bulkdel_more")
			}
			op = c16Op{Op: "bulkdel", Key: bulkBase + rapid.SampledFrom([]int{0, 0, 150, 5000}).Draw(rt, "bulkdel_base"), N: n}
		}
		in.Ops = append(in.Ops, op)
		// a value change is only visible to a stale cache when a compute precedes and follows it
		if op.Op != "compute" && op.Op != "clear" && rapid.IntRange(0, 2).Draw(rt, "then_compute") == 0 {
			in.Ops = append(in.Ops, c16Op{Op: "compute", Order: rapid.IntRange(0, 4).Draw(rt, "order"), OSeed: uint32(rapid.IntRange(0, 1000).Draw(rt, "oseed"))})
		}
	}
	in.Ops = append(in.Ops, c16Op{Op: "compute", Order: rapid.IntRange(0, 4).Draw(rt, "order_last"), OSeed: 1})
	in.InPlace = rapid.IntRange(0, 2).Draw(rt, "in_place") == 0
	return in
}

// ---------------------------------------------------------------------------
// check

type c16Entry struct {
	id  int
	key types.StateKey
	val []byte
}

// c16Present orders the entries for one call. 0 ascending key (what the doc comment of
// ComputeStateRootWithCache asks for), 1 ascending id (insertion-like), 2 descending key,
// 3 rotation of the ascending order, 4 order by SHA-256(oseed, key) (a data-defined shuffle).
func c16Present(es []c16Entry, order int, oseed uint32) []c16Entry {
	out := make([]c16Entry, len(es))
	copy(out, es)
	byKey := func(i, j int) bool { return bytes.Compare(out[i].key[:], out[j].key[:]) < 0 }
	switch order {
	case 1:
		sort.Slice(out, func(i, j int) bool { return out[i].id < out[j].id })
	case 2:
		sort.Slice(out, func(i, j int) bool { return byKey(j, i) })
	case 3:
		sort.Slice(out, byKey)
		if len(out) > 0 {
			r := int(oseed) % len(out)
			out = append(out[r:], out[:r]...)
		}
	case 4:
		tag := make(map[int][32]byte, len(out))
		for _, e := range out {
			var b [4 + 31]byte
			binary.LittleEndian.PutUint32(b[:], oseed)
			copy(b[4:], e.key[:])
			tag[e.id] = sha256.Sum256(b[:])
		}
		sort.Slice(out, func(i, j int) bool {
			a, b := tag[out[i].id], tag[out[j].id]
			return bytes.Compare(a[:], b[:]) < 0
		})
	default:
		sort.Slice(out, byKey)
	}
	return out
}

func c16Check(c *kit.Case, in c16Input) {
	if len(in.Ops) > 5000 {
		return // malformed replay
	}
	saved := types.MaxKeyLevelCacheSize
	defer func() { types.MaxKeyLevelCacheSize = saved }()
	capEff := saved
	if in.Cap > 0 {
		types.MaxKeyLevelCacheSize = in.Cap
		capEff = in.Cap
	}
	if in.Cap == 0 {
		c.Class("cap_repository_default")
	} else if in.Cap < 40 {
		c.Class("cap_small_synthetic")
	} else {
		c.Class("cap_600_or_30000")
	}

	cs := newChainState() // fresh per case: empty cache, nothing shared with an earlier case
	keyMemo := map[int]types.StateKey{}
	keyOf := func(id int) types.StateKey {
		if k, ok := keyMemo[id]; ok {
			return k
		}
		k := c16KeyBytes(&in, id)
		keyMemo[id] = k
		return k
	}
	valMemo := map[c16Val][]byte{}
	valOf := func(v c16Val) []byte {
		if b, ok := valMemo[v]; ok {
			return b
		}
		b := c16ValueBytes(v)
		valMemo[v] = b
		return b
	}

	inPlaceBuf := map[int]types.ByteSequence{}
	live := map[int]c16Val{}
	var removed []int // ids, in removal order (may hold ids that are live again: skipped at use)
	removedVal := map[int]c16Val{}
	sortedLive := func() []int {
		ids := make([]int, 0, len(live))
		for id := range live {
			ids = append(ids, id)
		}
		sort.Ints(ids)
		return ids
	}
	remove := func(id int) {
		if v, ok := live[id]; ok {
			delete(live, id)
			removed = append(removed, id)
			removedVal[id] = v
		}
	}

	// harness-owned picture of what the cache should hold, used ONLY to classify cases
	// (non-trivial rule, classes); never to decide pass/fail.
	model := map[types.StateKey]string{}
	nontrivial := false
	computes := 0
	maxLive := 0
	sawChangeCached, sawEvict, sawHitAfterReinsert, sawFlip := false, false, false, false
	changedSinceCompute := map[int]string{} // id -> kind of the last change since the previous compute

	for oi, op := range in.Ops {
		switch op.Op {
		case "set":
			if op.Key < 0 || op.Key > 1<<24 {
				return
			}
			if old, ok := live[op.Key]; ok {
				if old != op.Val {
					changedSinceCompute[op.Key] = "overwrite"
				}
			} else {
				changedSinceCompute[op.Key] = "add"
			}
			live[op.Key] = op.Val
		case "del":
			if ids := sortedLive(); len(ids) > 0 {
				remove(ids[op.Sel%len(ids)])
			}
		case "pad":
			if ids := sortedLive(); len(ids) > 0 {
				id := ids[op.Sel%len(ids)]
				old := live[id]
				nv := old
				nv.Pad = op.N
				if nv == old {
					nv.Pad = old.Pad + 1
				}
				live[id] = nv
				changedSinceCompute[id] = "pad"
			}
		case "samelen":
			if ids := sortedLive(); len(ids) > 0 {
				id := ids[op.Sel%len(ids)]
				old := live[id]
				nv := c16Val{Len: old.Len, Seed: op.Val.Seed, Flip: op.Val.Flip}
				if nv == old {
					nv.Seed++
				}
				if old.Len > 0 { // a zero-length value has only one content
					live[id] = nv
					changedSinceCompute[id] = "samelen"
				}
			}
		case "flip":
			if ids := sortedLive(); len(ids) > 0 {
				id := ids[op.Sel%len(ids)]
				old := live[id]
				nv := c16Val{Flip: -1, Seed: op.Val.Seed}
				if op.KeepSeed {
					nv.Seed = old.Seed
				}
				if old.Len <= 32 {
					nv.Len = op.N
					if nv.Len <= 32 {
						nv.Len = 33
					}
				} else {
					nv.Len = op.Val.Len
					if nv.Len > 32 || nv.Len < 0 {
						nv.Len = 32
					}
				}
				if nv.Len > 4096 {
					return
				}
				live[id] = nv
				changedSinceCompute[id] = "flip"
			}
		case "reinsert":
			// most recently removed key that is not live
			var cand []int
			seen := map[int]bool{}
			for i := len(removed) - 1; i >= 0; i-- {
				id := removed[i]
				if _, isLive := live[id]; !isLive && !seen[id] {
					seen[id] = true
					cand = append(cand, id)
				}
			}
			if len(cand) > 0 {
				id := cand[op.Sel%len(cand)]
				if op.KeepSeed {
					live[id] = removedVal[id]
					changedSinceCompute[id] = "reinsert_same"
				} else {
					live[id] = op.Val
					changedSinceCompute[id] = "reinsert_new"
				}
			}
		case "bulk":
			if op.N < 0 || op.N > 4000 || op.Key < 0 || op.Key > 1<<24 {
				return
			}
			start := 0
			for i, l := range c16BulkLens {
				if l == op.Val.Len {
					start = i
				}
			}
			for i := 0; i < op.N; i++ {
				v := c16Val{Flip: -1, Seed: op.Val.Seed, Len: c16BulkLens[(start+i)%len(c16BulkLens)]}
				if op.Mod > 0 {
					v.Seed += uint32(i % op.Mod)
				}
				id := op.Key + i
				if old, ok := live[id]; !ok {
					changedSinceCompute[id] = "add"
				} else if old != v {
					changedSinceCompute[id] = "overwrite"
				}
				live[id] = v
			}
		case "bulkdel":
			if op.N < 0 || op.N > 4000 {
				return
			}
			for i := 0; i < op.N; i++ {
				remove(op.Key + i)
			}
		case "clear":
			cs.ClearKeyLevelCache()
			model = map[types.StateKey]string{}
		case "compute":
			computes++
			ids := sortedLive()
			if len(ids) > maxLive {
				maxLive = len(ids)
			}
			es := make([]c16Entry, len(ids))
			for i, id := range ids {
				v := live[id]
				if v.Len > 4096 {
					return
				}
				es[i] = c16Entry{id: id, key: keyOf(id), val: valOf(v)}
			}
			pres := c16Present(es, op.Order, op.OSeed)
			mk := func() types.StateKeyVals {
				kv := make(types.StateKeyVals, len(pres))
				for i, e := range pres {
					kv[i] = types.StateKeyVal{Key: e.key, Value: append(types.ByteSequence{}, e.val...)}
				}
				return kv
			}
			// expected values first (nothing of the cache involved)
			uncached := m.MerklizationSerializedState(mk())
			asc := c16Present(es, 0, 0)
			refIn := make([]c16RefKV, len(asc))
			for i := range asc {
				refIn[i] = c16RefKV{K: asc[i].key[:], V: asc[i].val}
			}
			ref := c16RefRoot(refIn, 0)

			// classification through the model (ascending key order = the order in which the trie
			// visits leaves, whatever the presentation)
			evicted := false
			for _, e := range asc {
				cur, cached := model[e.key]
				if cached && cur == string(e.val) {
					if k := changedSinceCompute[e.id]; k == "reinsert_same" {
						sawHitAfterReinsert = true
					}
					continue
				}
				if cached { // key is cached with a DIFFERENT value: the stale-cache situation
					sawChangeCached = true
					nontrivial = true
					if k := changedSinceCompute[e.id]; k == "flip" {
						sawFlip = true
					}
				}
				if len(model) >= capEff {
					model = map[types.StateKey]string{}
					evicted = true
				}
				model[e.key] = string(e.val)
			}
			if evicted {
				sawEvict = true
				nontrivial = true
			}
			changedSinceCompute = map[int]string{}

			cachedIn := mk()
			if in.InPlace {
				c.Class("values_updated_in_place")
				for i, e := range pres {
					if b, ok := inPlaceBuf[e.id]; ok && len(b) == len(e.val) {
						copy(b, e.val)
					} else {
						inPlaceBuf[e.id] = append(types.ByteSequence{}, e.val...)
					}
					cachedIn[i].Value = inPlaceBuf[e.id]
				}
			}
			cached := cs.ComputeStateRootWithCache(cachedIn)
			if !bytes.Equal(uncached[:], ref[:]) {
				c.Failf("step %d: uncached root %x differs from the bit-level reference %x for %d entries (this is C15's property)", oi, uncached, ref, len(pres))
			}
			if cached != uncached {
				c.Failf("step %d (compute #%d, %d entries, cap %d, order %d): cached root %x != uncached root %x",
					oi, computes, len(pres), capEff, op.Order, cached, uncached)
			}
			if got := cs.keyLevelCache.Len(); got != len(model) {
				c.Class("note_cache_len_differs_from_model")
			}
		default:
			return // unknown op in a replay file
		}
	}
	if nontrivial {
		c.NonTrivial()
	}
	if sawChangeCached {
		c.Class("value_change_of_cached_key")
	}
	if sawFlip {
		c.Class("embedded_hashed_flip_of_cached_key")
	}
	if sawEvict {
		c.Class("eviction_at_capacity")
		if in.Cap == 0 || in.Cap >= 600 {
			c.Class("eviction_at_capacity_cap>=600")
		}
	}
	if sawHitAfterReinsert {
		c.Class("reinserted_key_hits_old_entry")
	}
	switch {
	case maxLive > 600:
		c.Class("live_gt_600")
	case maxLive > 40:
		c.Class("live_41_600")
	default:
		c.Class("live_le_40")
	}
	if computes >= 5 {
		c.Class("computes_ge_5")
	}
}

func TestVerif_C16(t *testing.T) {
	s := kit.Begin(t, "C16")
	defer s.Finish()
	logger.Disable()
	runtime.MemProfileRate = 0
	if types.MaxKeyLevelCacheSize != types.EpochLength*50 || types.EpochLength != 12 {
		s.Note("unexpected parameters: EpochLength=%d MaxKeyLevelCacheSize=%d", types.EpochLength, types.MaxKeyLevelCacheSize)
	}
	kit.Run(s, "history_cached_vs_uncached", kit.N{Quick: 12000, Thorough: 300000}, c16Gen, c16Check)
}
