package PVM

// C02: the pre-decoded block engine and the single-step engine are
// observationally equivalent (differential, lock-step over host-call exits).

import (
	"fmt"
	"testing"

	kit "github.com/New-JAMneration/JAM-Protocol/internal/verifkit"
	ref "github.com/New-JAMneration/JAM-Protocol/internal/verifref/refpvm"
	"pgregory.net/rapid"
)

func c02Gen(rt *rapid.T) vpState {
	code, k, jt, z := vpGenProgram(rt, true, 14)
	pages := vpGenPages(rt)
	st := vpState{Blob: vpAssembleGen(rt, code, k, jt, z), Pages: pages, Regs: vpGenRegs(rt, pages), Gas: vpGenGas(rt), Host: vpGenHost(rt)}
	if rapid.IntRange(0, 1).Draw(rt, "heapset") == 1 {
		base := uint64(rapid.SampledFrom([]uint32{16, 17, 18, 32, 33, 0x1000}).Draw(rt, "heappage")) * ZP
		st.Heap = base + uint64(rapid.SampledFrom([]int{0, 1, 100, ZP - 1}).Draw(rt, "heapoff"))
		st.HeapL = st.Heap + uint64(rapid.SampledFrom([]int{0, 1, ZP - 1, ZP, ZP + 1, 3 * ZP, 1 << 20}).Draw(rt, "heaproom"))
	}
	// sbrk sizes live in registers: bias a few registers to small sizes
	for i := 0; i < 3; i++ {
		r := rapid.IntRange(0, 12).Draw(rt, "szreg")
		st.Regs[r] = rapid.SampledFrom([]uint64{0, 1, 8, ZP - 1, ZP, ZP + 1, 2 * ZP, 1 << 20, 1 << 32, 1 << 63, ^uint64(0)}).Draw(rt, "sz")
	}
	if rapid.IntRange(0, 9).Draw(rt, "pck") == 0 {
		st.PC = uint32(rapid.IntRange(0, len(code)+2).Draw(rt, "pcany"))
	}
	return st
}

type c02Seg struct {
	kind    string
	arg     uint64
	next    uint32 // counter at which the caller resumes / reported counter
	regs    Registers
	gas     Gas
	mem     map[uint32]string
	heap    uint64
	gopanic string
}

func c02RunSeg(engine int, prog *Program, regs Registers, mem *Memory, gas Gas, pc ProgramCounter) (seg c02Seg, interp *Interpreter) {
	interp = NewInterpreter(prog, regs, mem, gas)
	defer func() {
		if r := recover(); r != nil {
			seg = c02Seg{kind: "gopanic", gopanic: fmt.Sprint(r)}
		}
	}()
	var er ExitReason
	var npc ProgramCounter
	if engine == 0 {
		er, npc = interp.SingleStepInvokeDecodedBlocks(pc)
	} else {
		er, npc = interp.SingleStepInvoke(pc)
		if er.GetReasonType() == HOST_CALL {
			// the single-step engine reports the ecalli's own counter; its caller (invoke)
			// resumes at counter + 1 + skip
			npc = npc + 1 + ProgramCounter(skip(int(npc), prog.Bitmasks))
		}
	}
	k, arg := vpExitKind(er)
	if k == "host" {
		arg = er.GetHostCallIndex()
	}
	seg = c02Seg{kind: k, arg: arg, next: uint32(npc), regs: interp.Registers, gas: interp.Gas, mem: vpImplMemObs(interp.Memory), heap: interp.Memory.heapPointer}
	return seg, interp
}

func c02Check(c *kit.Case, st vpState) {
	if st.Gas < 0 || st.Gas > 1<<40 {
		return
	}
	var prog Program
	var er ExitReason
	func() {
		defer func() {
			if r := recover(); r != nil {
				c.Failf("Go runtime panic in DeBlobProgramCode: %v", r)
			}
		}()
		prog, er = DeBlobProgramCode(append([]byte(nil), st.Blob...))
	}()
	if er != ExitContinue {
		c.Class("deblob_reject")
		return
	}
	// domain: start counter at an instruction start (or beyond the code)
	rp, status := ref.Deblob(st.Blob)
	if status != 0 || rp == nil {
		c.Class("out_of_domain_blob")
		return
	}
	if int(st.PC) < len(rp.Code) && !rp.K[st.PC] {
		c.Class("out_of_domain_pc_inside_instruction")
		return
	}
	if int(st.PC) < len(rp.Code) && !rp.IsBlockStart(uint64(st.PC)) {
		// block engine cannot start inside a block that linear pre-decoding never visits
		c.Class("out_of_domain_start_inside_block")
		return
	}

	// an instruction longer than 25 bytes makes 1+skip (capped at 24) land inside it, on a
	// byte that is not an instruction start: out of domain (see DESIGN.md section 2)
	gap := 0
	for i := 1; i < len(rp.K); i++ {
		if rp.K[i] {
			gap = 0
		} else {
			gap++
			if gap > 24 {
				c.Class("out_of_domain_instruction_longer_than_25")
				return
			}
		}
	}
	memA, memB := vpImplMemoryHeap(&st), vpImplMemoryHeap(&st)
	regsA, regsB := Registers(st.Regs), Registers(st.Regs)
	gasA, gasB := Gas(st.Gas), Gas(st.Gas)
	pcA, pcB := ProgramCounter(st.PC), ProgramCounter(st.PC)
	calls := 0
	instrs := 0
	for seg := 0; seg < 64; seg++ {
		a, ia := c02RunSeg(0, &prog, regsA, memA, gasA, pcA)
		b, ib := c02RunSeg(1, &prog, regsB, memB, gasB, pcB)
		instrs += int(gasA - a.gas)
		if a.kind == "gopanic" || b.kind == "gopanic" {
			c.Failf("Go runtime panic: block engine %q single-step engine %q", a.gopanic, b.gopanic)
		}
		c.Class("exit_" + a.kind)
		d := ""
		switch {
		case a.kind != b.kind:
			d = fmt.Sprintf("exit kind: block %s single-step %s", a.kind, b.kind)
		case a.arg != b.arg:
			d = fmt.Sprintf("exit payload: block %#x single-step %#x", a.arg, b.arg)
		case a.regs != b.regs:
			d = fmt.Sprintf("registers: block %x single-step %x", a.regs, b.regs)
		case a.gas != b.gas:
			d = fmt.Sprintf("gas: block %d single-step %d", a.gas, b.gas)
		case (a.kind == "host" || a.kind == "fault" || a.kind == "oog") && a.next != b.next:
			d = fmt.Sprintf("next program counter after %s: block %d single-step %d", a.kind, a.next, b.next)
		case a.heap != b.heap:
			d = fmt.Sprintf("heap pointer: block %#x single-step %#x", a.heap, b.heap)
		default:
			if md := vpMemDiff(a.mem, b.mem); md != "" {
				d = "memory: " + md
			}
		}
		if d != "" {
			c02Known(c, &st, rp, d)
			c.Failf("segment %d: engines diverge: %s", seg, d)
		}
		if a.kind != "host" {
			break
		}
		// identical host-call stub on both sides, then resume
		if len(st.Host) == 0 {
			break
		}
		act := st.Host[calls%len(st.Host)]
		calls++
		if act.Kind != 0 || a.gas < Gas(act.GasFee) {
			break
		}
		regsA, regsB = ia.Registers, ib.Registers
		regsA[7], regsB[7] = act.SetR7, act.SetR7
		gasA, gasB = a.gas-Gas(act.GasFee), b.gas-Gas(act.GasFee)
		memA, memB = ia.Memory, ib.Memory
		if act.Poke {
			vpPokeImpl(memA, byte(calls))
			vpPokeImpl(memB, byte(calls))
		}
		pcA, pcB = ProgramCounter(a.next), ProgramCounter(b.next)
	}
	if instrs >= 2 {
		c.NonTrivial()
	}
	if calls > 0 {
		c.Class("resumed_after_host_call")
	}
}

func c02CheckEnum(c *kit.Case, in c01EnumIn) {
	st := c01EnumState(in)
	c02Check(c, st)
}

func TestVerif_C02(t *testing.T) {
	s := kit.Begin(t, "C02")
	defer s.Finish()
	s.EnableSentinel()
	if !kit.EnumSub(s, "enum_single_instruction", c02CheckEnum) {
		b1s := []int{0x00, 0x0C, 0xCD, 0xFF, 0x47, 0x81, 0x18, 0x7A}
		b2s := []int{0x00, 0x07, 0x0C, 0xFF, 0x84, 0x0D}
		tails := [][]byte{{0x80}, {0x01, 0x00, 0x00, 0x00}, {0xFF}}
		full := s.Thorough()
		idx := 0
	loop:
		for op := 0; op < 256; op++ {
			for skip := 0; skip <= 25; skip++ {
				for pos := 1; pos < 3; pos++ {
					for bi, b1 := range b1s {
						for ci, b2 := range b2s {
							if !full && !((bi+ci+op+skip)%24 == 0) {
								continue
							}
							idx++
							if idx%s.NShards != s.Shard {
								continue
							}
							in := c01EnumIn{Op: op, B1: b1, B2: b2, Skip: skip, Position: pos, Variant: (op + skip) % 3, Tail: tails[(op+skip)%len(tails)]}
							if !kit.Each(s, "enum_single_instruction", in, c02CheckEnum) {
								break loop
							}
						}
					}
				}
			}
		}
	}
	kit.Run(s, "programs_lockstep", kit.N{Quick: 150000, Thorough: 4000000}, c02Gen, c02Check)
}

// FuzzVerif_C02: native coverage-guided fuzzing of the lock-step differential (thorough tier).
func FuzzVerif_C02(f *testing.F) {
	kit.Fuzz(f, "C02", "programs_lockstep", c02Gen, c02Check)
}
