package PVM

import (
	kit "github.com/New-JAMneration/JAM-Protocol/internal/verifkit"
	ref "github.com/New-JAMneration/JAM-Protocol/internal/verifref/refpvm"
)

func c02Known(c *kit.Case, st *vpState, rp *ref.Program, diff string) {
}
