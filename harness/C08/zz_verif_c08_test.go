package PVM

// C08: token conservation during accumulation.
//
// hostcall_sequences: op sequences AS DATA over one accumulate context (X, Y)
// built the way Psi_A builds it; every call goes through AccumulateOmegas.
// Oracle (math/big, after every call):
//   S = sum of all balances of X + sum of the amounts of X's deferred transfers
//   never increases; per-call deltas are exact (new: the created account holds
//   exactly its own threshold balance and the caller lost exactly that;
//   transfer OK: caller - a, one more deferred transfer of amount a; eject OK:
//   the ejected account is gone and the caller gained exactly its balance);
//   any other return value => every balance and the transfer list identical;
//   a call that would leave the caller below its threshold returns CASH.
// psi_a_entry: Psi_A credits exactly the incoming transfer amounts.

import (
	"encoding/binary"
	"fmt"
	"math/big"
	"sort"
	"testing"

	"github.com/New-JAMneration/JAM-Protocol/internal/types"
	kit "github.com/New-JAMneration/JAM-Protocol/internal/verifkit"
	"golang.org/x/crypto/blake2b"
	"pgregory.net/rapid"
)

const (
	c08BS       = 100
	c08BI       = 10
	c08AbsentID = 3999999999
)

func c08Big(u uint64) *big.Int { return big.NewInt(0).SetUint64(u) }

// exact a_t = max(0, B_S + B_I*i + o - f)
func c08Threshold(items uint64, octets uint64, gratis uint64) *big.Int {
	r := big.NewInt(c08BS)
	r.Add(r, big.NewInt(0).Mul(big.NewInt(c08BI), c08Big(items)))
	r.Add(r, c08Big(octets))
	r.Sub(r, c08Big(gratis))
	if r.Sign() < 0 {
		return big.NewInt(0)
	}
	return r
}

// ------------------------------------------------------------------ input

type c08Acct struct {
	ID         uint32   `json:"id"`
	Kind       int      `json:"kind"` // 0 plain; 1 child of the caller (code hash = E_32(caller id), one lookup entry)
	NStore     int      `json:"n_store"`
	StoreLen   int      `json:"store_len"`
	LookupZ    []uint32 `json:"lookup_z"` // plain accounts: lookup entries with no slots
	Gratis     uint64   `json:"gratis"`
	Slack      uint64   `json:"slack"` // balance = exact threshold + slack
	MemoGas    uint64   `json:"memo_gas"`
	ChildZ     uint32   `json:"child_z"`
	ChildSlots []uint32 `json:"child_slots"`
	ChildExtra bool     `json:"child_extra"` // one storage item besides the lookup entry (items = 3)
	ChildHash  int      `json:"child_hash"`
}

type c08Op struct {
	Kind string `json:"kind"` // new transfer eject upgrade checkpoint write solicit
	// new: L code length; Fit 0 explicit, 1 a_t = free balance, 2 free+1, 3 balance, 4 balance+1, 5 free-1
	L   uint64 `json:"l,omitempty"`
	Fit int    `json:"fit,omitempty"`
	G   uint64 `json:"g,omitempty"`
	M   uint64 `json:"m,omitempty"`
	F   uint64 `json:"f,omitempty"`
	I   uint64 `json:"i,omitempty"`
	// transfer / eject target: 0 self, 1..n = Others[n-1], -1 absent, -2 last created account
	Target int    `json:"target,omitempty"`
	Amount uint64 `json:"amount,omitempty"` // with Fit as for new
	GasL   uint64 `json:"gas_l,omitempty"`
	GasFit int    `json:"gas_fit,omitempty"` // 0 explicit, 1 = target's memo gas, 2 = memo gas - 1
	// eject
	HashIdx int `json:"hash_idx,omitempty"`
	// write / solicit
	KeyIdx int    `json:"key_idx,omitempty"`
	ValLen int    `json:"val_len,omitempty"`
	Z      uint32 `json:"z,omitempty"`
}

type c08SeqInput struct {
	Timeslot  uint32    `json:"timeslot"`
	Manager   bool      `json:"manager"`
	Registrar bool      `json:"registrar"`
	Gas       uint64    `json:"gas"`
	Caller    c08Acct   `json:"caller"`
	Others    []c08Acct `json:"others"`
	Ops       []c08Op   `json:"ops"`
}

func c08Hash(idx int) types.OpaqueHash {
	var h types.OpaqueHash
	for j := range h {
		h[j] = byte(0xC0 + idx)
	}
	return h
}

func c08Key(idx int) []byte { return []byte(fmt.Sprintf("key-%d", idx)) }

// ------------------------------------------------------------------ generator

var c08Edges = []uint64{0, 1, 2, 1<<32 - 1, 1 << 32, 1<<32 + 1, 1<<63 - 1, 1 << 63, 1<<63 + 1, 1<<64 - 2, 1<<64 - 1}

func c08GenAmount(rt *rapid.T, label string) uint64 {
	return rapid.OneOf(
		rapid.Uint64Range(0, 300),
		rapid.SampledFrom(c08Edges),
		rapid.Uint64Range(1<<32-300, 1<<32+300),
		rapid.Uint64Range(1<<64-300, 1<<64-1),
		rapid.Uint64(),
	).Draw(rt, label)
}

func c08GenSlack(rt *rapid.T, label string) uint64 {
	return rapid.OneOf(
		rapid.Just(uint64(0)),
		rapid.Uint64Range(0, 400),
		rapid.Uint64Range(0, 400),
		rapid.Uint64Range(0, 5000),
		rapid.Uint64Range(1<<32-500, 1<<32+500),
		rapid.Just(uint64(1)<<40),
		rapid.Just(uint64(1)<<60),
	).Draw(rt, label)
}

func c08GenSeq(rt *rapid.T) c08SeqInput {
	var in c08SeqInput
	in.Timeslot = rapid.OneOf(rapid.SampledFrom([]uint32{0, 5, 32, 33, 34, 40, 100, 1000, 1<<32 - 1}), rapid.Uint32Range(0, 200), rapid.Uint32Range(40, 200)).Draw(rt, "timeslot")
	in.Manager = rapid.Bool().Draw(rt, "manager")
	in.Registrar = rapid.Bool().Draw(rt, "registrar")
	in.Gas = rapid.OneOf(rapid.Just(uint64(1000000)), rapid.Just(uint64(1000000)), rapid.Just(uint64(1000000)), rapid.Uint64Range(0, 200)).Draw(rt, "gas")

	used := map[uint32]bool{}
	genID := func(label string) uint32 {
		for {
			id := rapid.OneOf(rapid.Uint32Range(0, 50), rapid.Uint32Range(65536, 65600), rapid.Uint32Range(0, 1<<32-1)).Draw(rt, label)
			if !used[id] && id != c08AbsentID {
				used[id] = true
				return id
			}
		}
	}
	genPlain := func(label string) c08Acct {
		a := c08Acct{ID: genID(label + "_id")}
		a.NStore = rapid.IntRange(0, 3).Draw(rt, label+"_n_store")
		a.StoreLen = rapid.IntRange(1, 60).Draw(rt, label+"_store_len")
		nl := rapid.IntRange(0, 2).Draw(rt, label+"_n_lookup")
		seen := map[uint32]bool{}
		for j := 0; j < nl; j++ {
			z := rapid.OneOf(rapid.Uint32Range(0, 100), rapid.SampledFrom([]uint32{1 << 16, 1<<32 - 1})).Draw(rt, "z")
			if !seen[z] {
				seen[z] = true
				a.LookupZ = append(a.LookupZ, z)
			}
		}
		a.Gratis = rapid.OneOf(rapid.Just(uint64(0)), rapid.Just(uint64(0)), rapid.Uint64Range(1, 300), rapid.Just(^uint64(0))).Draw(rt, label+"_gratis")
		a.Slack = c08GenSlack(rt, label+"_slack")
		a.MemoGas = rapid.OneOf(rapid.Just(uint64(0)), rapid.Uint64Range(0, 50), rapid.Just(uint64(1)<<32), rapid.Just(uint64(1)<<62)).Draw(rt, label+"_memo_gas")
		return a
	}
	in.Caller = genPlain("caller")
	in.Caller.Slack = rapid.OneOf(rapid.Uint64Range(0, 400), rapid.Uint64Range(300, 5000), rapid.Uint64Range(300, 5000), rapid.Uint64Range(300, 5000),
		rapid.Uint64Range(1<<32-500, 1<<32+500), rapid.Uint64Range(1<<32-500, 1<<32+500), rapid.Just(uint64(1)<<40), rapid.Just(uint64(1)<<60)).Draw(rt, "caller_slack2")
	no := rapid.IntRange(0, 3).Draw(rt, "n_others")
	t := in.Timeslot
	for j := 0; j < no; j++ {
		if rapid.IntRange(0, 1).Draw(rt, "child") == 0 {
			in.Others = append(in.Others, genPlain(fmt.Sprintf("o%d", j)))
			continue
		}
		a := c08Acct{ID: genID("child_id"), Kind: 1}
		a.ChildZ = rapid.OneOf(rapid.Uint32Range(0, 100), rapid.SampledFrom([]uint32{0, 1 << 16, 1<<32 - 1})).Draw(rt, "child_z")
		a.ChildHash = rapid.IntRange(0, 2).Draw(rt, "child_hash")
		// slots: mostly the ejectable shape [x, y] with y < t - D, otherwise near misses
		cands := []uint32{0, 1, t}
		if t >= 32 {
			cands = append(cands, t-32, t-31)
			if t >= 33 {
				cands = append(cands, t-33, t-33, t-33)
			}
			if t >= 40 {
				cands = append(cands, t-40, t-40)
			}
		}
		ns := rapid.SampledFrom([]int{2, 2, 2, 2, 2, 2, 0, 1, 3}).Draw(rt, "child_n_slots")
		for q := 0; q < ns; q++ {
			a.ChildSlots = append(a.ChildSlots, rapid.SampledFrom(cands).Draw(rt, "child_slot"))
		}
		a.ChildExtra = rapid.IntRange(0, 9).Draw(rt, "child_extra") == 0
		a.Gratis = rapid.OneOf(rapid.Just(uint64(0)), rapid.Just(uint64(0)), rapid.Uint64Range(1, 300), rapid.Just(^uint64(0))).Draw(rt, "child_gratis")
		a.Slack = c08GenSlack(rt, "child_slack")
		a.MemoGas = rapid.Uint64Range(0, 20).Draw(rt, "child_memo_gas")
		in.Others = append(in.Others, a)
	}

	nops := rapid.OneOf(rapid.IntRange(1, 8), rapid.IntRange(1, 30)).Draw(rt, "n_ops")
	kinds := []string{"new", "new", "new", "new", "transfer", "transfer", "transfer", "transfer", "eject", "eject", "eject",
		"upgrade", "checkpoint", "write", "write", "solicit"}
	genTarget := func() int {
		if len(in.Others) > 0 && rapid.IntRange(0, 9).Draw(rt, "target_existing") < 7 {
			return rapid.IntRange(1, len(in.Others)).Draw(rt, "target")
		}
		return rapid.SampledFrom([]int{0, 0, -1, -2, -2, 3}).Draw(rt, "target_other")
	}
	fits := []int{0, 0, 0, 1, 2, 3, 4, 5}
	newFits := []int{0, 0, 0, 0, 0, 0, 1, 1, 2, 2, 5, 5, 3, 4}
	for j := 0; j < nops; j++ {
		op := c08Op{Kind: rapid.SampledFrom(kinds).Draw(rt, "kind")}
		switch op.Kind {
		case "new":
			op.Fit = rapid.SampledFrom(newFits).Draw(rt, "fit")
			op.L = rapid.OneOf(rapid.Uint64Range(0, 100), rapid.Uint64Range(0, 100), rapid.Uint64Range(0, 100), rapid.Uint64Range(0, 100), rapid.Uint64Range(0, 6000),
				rapid.SampledFrom([]uint64{1<<32 - 2, 1<<32 - 1, 1 << 32, 1<<32 + 1, 1 << 40, 1<<64 - 1}),
				rapid.Uint64Range(1<<32-500, 1<<32-1)).Draw(rt, "l")
			op.G = c08GenAmount(rt, "g")
			op.M = rapid.OneOf(rapid.Uint64Range(0, 30), c08GenAmountGen()).Draw(rt, "m")
			op.F = rapid.OneOf(rapid.Just(uint64(0)), rapid.Just(uint64(0)), rapid.Just(uint64(0)), rapid.Just(uint64(0)), rapid.Just(uint64(0)), rapid.Just(uint64(0)),
				rapid.Uint64Range(1, 1000), rapid.Just(^uint64(0))).Draw(rt, "f")
			op.I = rapid.OneOf(rapid.Uint64Range(0, 50), rapid.Uint64Range(0, 65535), rapid.Uint64Range(65536, 1<<32-1), rapid.SampledFrom(c08Edges)).Draw(rt, "i")
		case "transfer":
			op.Target = genTarget()
			op.Fit = rapid.SampledFrom(fits).Draw(rt, "fit")
			op.Amount = c08GenAmount(rt, "amount")
			op.GasFit = rapid.SampledFrom([]int{1, 1, 1, 0, 2}).Draw(rt, "gas_fit")
			op.GasL = rapid.OneOf(rapid.Uint64Range(0, 60), rapid.SampledFrom(c08Edges), rapid.Uint64Range(999900, 1000100)).Draw(rt, "gas_l")
		case "eject":
			op.Target = genTarget()
			var kids []int
			for q, o := range in.Others {
				if o.Kind == 1 {
					kids = append(kids, q+1)
				}
			}
			if len(kids) > 0 && rapid.IntRange(0, 4).Draw(rt, "eject_child") != 0 {
				op.Target = rapid.SampledFrom(kids).Draw(rt, "eject_target")
			}
			op.HashIdx = rapid.SampledFrom([]int{-1, -1, -1, -1, 0, 1, 2}).Draw(rt, "hash_idx") // -1: the target's own lookup hash
		case "upgrade":
			op.G = c08GenAmount(rt, "g")
			op.M = c08GenAmount(rt, "m")
			op.HashIdx = rapid.IntRange(0, 2).Draw(rt, "hash_idx")
		case "write":
			op.KeyIdx = rapid.IntRange(0, 4).Draw(rt, "key_idx")
			op.ValLen = rapid.OneOf(rapid.Just(0), rapid.IntRange(1, 100), rapid.IntRange(100, 3000)).Draw(rt, "val_len")
		case "solicit":
			op.HashIdx = rapid.IntRange(0, 2).Draw(rt, "hash_idx")
			op.Z = rapid.OneOf(rapid.Uint32Range(0, 200), rapid.SampledFrom([]uint32{1 << 16, 1<<32 - 1})).Draw(rt, "z")
		}
		in.Ops = append(in.Ops, op)
	}
	return in
}

func c08GenAmountGen() *rapid.Generator[uint64] {
	return rapid.Custom(func(rt *rapid.T) uint64 { return c08GenAmount(rt, "amt") })
}

// ------------------------------------------------------------------ building the context

func c08E32(id uint32) types.OpaqueHash {
	var h types.OpaqueHash
	binary.LittleEndian.PutUint32(h[:4], id)
	return h
}

func c08BuildAccount(a c08Acct, callerID uint32) (types.ServiceAccount, bool) {
	acc := types.ServiceAccount{
		PreimageLookup: types.PreimagesMapEntry{},
		LookupDict:     types.LookupMetaMapEntry{},
		StorageDict:    types.Storage{},
	}
	items, octets := uint64(0), uint64(0)
	if a.Kind == 1 {
		ts := make(types.TimeSlotSet, 0, len(a.ChildSlots))
		for _, s := range a.ChildSlots {
			ts = append(ts, types.TimeSlot(s))
		}
		acc.LookupDict[types.LookupMetaMapkey{Hash: c08Hash(a.ChildHash), Length: types.U32(a.ChildZ)}] = ts
		items, octets = 2, 81+uint64(a.ChildZ)
		if a.ChildExtra {
			acc.StorageDict["x"] = types.ByteSequence{1}
			items, octets = 3, octets+34+1+1
		}
		acc.ServiceInfo.CodeHash = c08E32(callerID)
	} else {
		if a.NStore < 0 || a.NStore > 8 || a.StoreLen < 1 || a.StoreLen > 4096 || len(a.LookupZ) > 4 {
			return acc, false
		}
		for j := 0; j < a.NStore; j++ {
			k := c08Key(j)
			acc.StorageDict[string(k)] = make(types.ByteSequence, a.StoreLen)
			items++
			octets += 34 + uint64(len(k)) + uint64(a.StoreLen)
		}
		seen := map[uint32]bool{}
		for _, z := range a.LookupZ {
			if seen[z] {
				return acc, false
			}
			seen[z] = true
			acc.LookupDict[types.LookupMetaMapkey{Hash: c08Hash(7), Length: types.U32(z)}] = types.TimeSlotSet{}
			items += 2
			octets += 81 + uint64(z)
		}
		for j := range acc.ServiceInfo.CodeHash {
			acc.ServiceInfo.CodeHash[j] = byte(0x11 + j)
		}
	}
	if a.Slack > 1<<60 {
		return acc, false
	}
	thr := c08Threshold(items, octets, a.Gratis)
	bal := big.NewInt(0).Add(thr, c08Big(a.Slack))
	if !bal.IsUint64() {
		return acc, false
	}
	acc.ServiceInfo.Balance = types.U64(bal.Uint64())
	acc.ServiceInfo.DepositOffset = types.U64(a.Gratis)
	acc.ServiceInfo.Items = types.U32(items)
	acc.ServiceInfo.Bytes = types.U64(octets)
	acc.ServiceInfo.MinItemGas = 3
	acc.ServiceInfo.MinMemoGas = types.Gas(a.MemoGas)
	acc.ServiceInfo.CreationSlot = 1
	acc.ServiceInfo.ParentService = types.ServiceID(callerID)
	return acc, true
}

type c08Xfer struct {
	From, To uint32
	Amount   uint64
	Gas      uint64
}

type c08Obs struct {
	Bal   map[uint32]uint64
	Thr   map[uint32]*big.Int
	Memo  map[uint32]uint64
	Xfers []c08Xfer
	S     *big.Int // X
	SY    *big.Int // Y
}

func c08SumCtx(rc ResultContext) *big.Int {
	s := big.NewInt(0)
	for _, a := range rc.PartialState.ServiceAccounts {
		s.Add(s, c08Big(uint64(a.ServiceInfo.Balance)))
	}
	for _, t := range rc.DeferredTransfers {
		s.Add(s, c08Big(uint64(t.Balance)))
	}
	return s
}

func c08Observe(add HostCallArgs) c08Obs {
	o := c08Obs{Bal: map[uint32]uint64{}, Thr: map[uint32]*big.Int{}, Memo: map[uint32]uint64{}}
	x := add.AccumulateArgs.ResultContextX
	for id, a := range x.PartialState.ServiceAccounts {
		o.Bal[uint32(id)] = uint64(a.ServiceInfo.Balance)
		o.Thr[uint32(id)] = c08Threshold(uint64(a.ServiceInfo.Items), uint64(a.ServiceInfo.Bytes), uint64(a.ServiceInfo.DepositOffset))
		o.Memo[uint32(id)] = uint64(a.ServiceInfo.MinMemoGas)
	}
	for _, t := range x.DeferredTransfers {
		o.Xfers = append(o.Xfers, c08Xfer{From: uint32(t.SenderID), To: uint32(t.ReceiverID), Amount: uint64(t.Balance), Gas: uint64(t.GasLimit)})
	}
	o.S = c08SumCtx(x)
	o.SY = c08SumCtx(add.AccumulateArgs.ResultContextY)
	return o
}

// c08Unchanged reports the first difference in balances / transfers, ignoring the ids in `except`.
func c08Unchanged(pre, post c08Obs, except map[uint32]bool, xferPrefixOnly bool) string {
	ids := map[uint32]bool{}
	for id := range pre.Bal {
		ids[id] = true
	}
	for id := range post.Bal {
		ids[id] = true
	}
	sorted := make([]uint32, 0, len(ids))
	for id := range ids {
		sorted = append(sorted, id)
	}
	sort.Slice(sorted, func(i, j int) bool { return sorted[i] < sorted[j] })
	for _, id := range sorted {
		if except[id] {
			continue
		}
		b0, ok0 := pre.Bal[id]
		b1, ok1 := post.Bal[id]
		if ok0 != ok1 {
			return fmt.Sprintf("account %d present before=%v after=%v", id, ok0, ok1)
		}
		if b0 != b1 {
			return fmt.Sprintf("balance of account %d changed %d -> %d", id, b0, b1)
		}
	}
	n := len(pre.Xfers)
	if len(post.Xfers) < n || (!xferPrefixOnly && len(post.Xfers) != n) {
		return fmt.Sprintf("deferred transfers changed: %d -> %d entries", len(pre.Xfers), len(post.Xfers))
	}
	for i := 0; i < n; i++ {
		if pre.Xfers[i] != post.Xfers[i] {
			return fmt.Sprintf("deferred transfer %d changed: %+v -> %+v", i, pre.Xfers[i], post.Xfers[i])
		}
	}
	return ""
}

func c08RetName(v uint64) string {
	switch v {
	case NONE:
		return "NONE"
	case WHAT:
		return "WHAT"
	case OOB:
		return "OOB"
	case WHO:
		return "WHO"
	case FULL:
		return "FULL"
	case CORE:
		return "CORE"
	case CASH:
		return "CASH"
	case LOW:
		return "LOW"
	case HUH:
		return "HUH"
	case OK:
		return "OK"
	}
	return fmt.Sprintf("%d", v)
}

const (
	c08AddrHash  = 0x10000
	c08AddrMemo  = 0x10100
	c08AddrKey   = 0x10200
	c08AddrVal   = 0x11000
	c08FirstPage = 16
	c08NumPages  = 3
)

// fit: pick a value relative to the caller's free balance / balance.
func c08Fit(fit int, explicit uint64, bal, thr *big.Int) (*big.Int, bool) {
	free := big.NewInt(0).Sub(bal, thr)
	var v *big.Int
	switch fit {
	case 1:
		v = free
	case 2:
		v = big.NewInt(0).Add(free, big.NewInt(1))
	case 3:
		v = big.NewInt(0).Set(bal)
	case 4:
		v = big.NewInt(0).Add(bal, big.NewInt(1))
	case 5:
		v = big.NewInt(0).Sub(free, big.NewInt(1))
	default:
		return c08Big(explicit), false
	}
	if v.Sign() < 0 || !v.IsUint64() {
		return c08Big(explicit), false
	}
	return v, true
}

func c08CheckSeq(c *kit.Case, in c08SeqInput) {
	if len(in.Others) > 6 || len(in.Ops) > 64 || in.Caller.Kind != 0 || in.Gas > 1<<40 {
		return
	}
	ids := map[uint32]bool{in.Caller.ID: true}
	for _, o := range in.Others {
		if ids[o.ID] || o.ID == c08AbsentID || len(o.ChildSlots) > 3 || o.ChildHash < 0 || o.ChildHash > 2 || (o.Kind != 0 && o.Kind != 1) {
			return
		}
		ids[o.ID] = true
	}
	if in.Caller.ID == c08AbsentID {
		return
	}
	callerAcc, ok := c08BuildAccount(in.Caller, in.Caller.ID)
	if !ok {
		return
	}
	serviceID := types.ServiceID(in.Caller.ID)
	accounts := types.ServiceAccountState{serviceID: callerAcc}
	for _, o := range in.Others {
		acc, ok := c08BuildAccount(o, in.Caller.ID)
		if !ok {
			return
		}
		accounts[types.ServiceID(o.ID)] = acc
	}
	partialState := types.PartialStateSet{
		ServiceAccounts: accounts,
		Bless:           types.ServiceID(c08AbsentID),
		CreateAcct:      types.ServiceID(c08AbsentID),
		Designate:       types.ServiceID(c08AbsentID),
	}
	if in.Manager {
		partialState.Bless = serviceID
	}
	if in.Registrar {
		partialState.CreateAcct = serviceID
	}
	storageKeyVal := types.StateKeyVals{}
	timeslot := types.TimeSlot(in.Timeslot)
	var eta types.Entropy

	// --- exactly what Psi_A does before Psi_M
	newPartialState := partialState.DeepCopy()
	newStorageKeyVal := storageKeyVal.DeepCopy()
	serviceAccount := newPartialState.ServiceAccounts[serviceID]
	addition := HostCallArgs{
		GeneralArgs: GeneralArgs{
			ServiceAccount:      &serviceAccount,
			ServiceID:           &serviceID,
			ServiceAccountState: &newPartialState.ServiceAccounts,
			CoreID:              nil,
			StorageKeyVal:       &newStorageKeyVal,
		},
		AccumulateArgs: AccumulateArgs{
			ResultContextX: I(newPartialState, serviceID, timeslot, eta, &newStorageKeyVal),
			ResultContextY: I(partialState, serviceID, timeslot, eta, &storageKeyVal),
			Eta:            eta,
			Timeslot:       timeslot,
		},
	}

	mem := &Memory{Pages: map[uint32]*Page{}}
	for p := uint32(c08FirstPage); p < c08FirstPage+c08NumPages; p++ {
		mem.Pages[p] = &Page{Value: make([]byte, ZP), Access: MemoryReadWrite}
	}
	var regs Registers
	gasLeft := Gas(in.Gas)
	vm := &VMState{Registers: &regs, Memory: mem, Gas: &gasLeft}

	self := in.Caller.ID
	pre := c08Observe(addition)
	s0 := big.NewInt(0).Set(pre.S)
	if s0.Cmp(big.NewInt(0).Lsh(big.NewInt(1), 63)) >= 0 {
		return // total supply must stay below 2^63
	}
	lastCreated := uint32(c08AbsentID)
	okCount := 0
	nt := false

	resolve := func(tgt int) (uint32, *c08Acct) {
		switch {
		case tgt == 0:
			return self, nil
		case tgt >= 1 && tgt <= len(in.Others):
			return in.Others[tgt-1].ID, &in.Others[tgt-1]
		case tgt == -2:
			return lastCreated, nil
		}
		return c08AbsentID, nil
	}

	for si, op := range in.Ops {
		step := si + 1
		regs = Registers{}
		bal := c08Big(pre.Bal[self])
		thr := pre.Thr[self]
		free := big.NewInt(0).Sub(bal, thr)
		var opcode OperationType
		what := op.Kind
		expectCASH, cashJudged := false, false
		var moved *big.Int // amount the op asks to move (new: a_t of the would-be account)
		var tgtID uint32

		switch op.Kind {
		case "new":
			opcode = NewOp
			l := c08Big(op.L)
			if op.Fit != 0 {
				// choose l so that the would-be account's threshold 201+l hits the fitted value
				if v, fitted := c08Fit(op.Fit, 0, bal, thr); fitted {
					v = big.NewInt(0).Sub(v, big.NewInt(201))
					if v.Sign() >= 0 && v.Cmp(c08Big(1<<32-1)) <= 0 {
						l = v
						c.Class(fmt.Sprintf("new_fit_%d", op.Fit))
					}
				}
			}
			h := c08Hash(op.HashIdx)
			mem.Write(c08AddrHash, h[:])
			regs[7], regs[8], regs[9], regs[10], regs[11], regs[12] = c08AddrHash, l.Uint64(), op.G, op.M, op.F, op.I
			moved = big.NewInt(0).Add(l, big.NewInt(201)) // B_S + 2*B_I + 81 + l, gratis 0
			if l.Cmp(c08Big(1<<32)) < 0 && op.F == 0 {
				cashJudged = true
				expectCASH = big.NewInt(0).Sub(bal, moved).Cmp(thr) < 0
			}
			what = fmt.Sprintf("new l=%s f=%d i=%d", l, op.F, op.I)
		case "transfer":
			opcode = TransferOp
			var tacct *c08Acct
			tgtID, tacct = resolve(op.Target)
			_ = tacct
			amt, fitted := c08Fit(op.Fit, op.Amount, bal, thr)
			if fitted {
				c.Class(fmt.Sprintf("transfer_fit_%d", op.Fit))
			}
			gl := op.GasL
			memo, exists := pre.Memo[tgtID]
			if exists && op.GasFit == 1 {
				gl = memo
			} else if exists && op.GasFit == 2 && memo > 0 {
				gl = memo - 1
			}
			memoBytes := make([]byte, 128)
			for j := range memoBytes {
				memoBytes[j] = byte(step + j)
			}
			mem.Write(c08AddrMemo, memoBytes)
			regs[7], regs[8], regs[9], regs[10] = uint64(tgtID), amt.Uint64(), gl, c08AddrMemo
			moved = amt
			if exists && gl >= memo {
				cashJudged = true
				expectCASH = big.NewInt(0).Sub(bal, amt).Cmp(thr) < 0
			}
			what = fmt.Sprintf("transfer d=%d a=%s l=%d", tgtID, amt, gl)
		case "eject":
			opcode = EjectOp
			var tacct *c08Acct
			tgtID, tacct = resolve(op.Target)
			h := c08Hash(2)
			if op.HashIdx >= 0 && op.HashIdx <= 2 {
				h = c08Hash(op.HashIdx)
			} else if tacct != nil && tacct.Kind == 1 {
				h = c08Hash(tacct.ChildHash)
			}
			mem.Write(c08AddrHash, h[:])
			regs[7], regs[8] = uint64(tgtID), c08AddrHash
			what = fmt.Sprintf("eject d=%d", tgtID)
		case "upgrade":
			opcode = UpgradeOp
			h := c08Hash(op.HashIdx)
			mem.Write(c08AddrHash, h[:])
			regs[7], regs[8], regs[9] = c08AddrHash, op.G, op.M
		case "checkpoint":
			opcode = CheckpointOp
		case "write":
			opcode = WriteOp
			if op.KeyIdx < 0 || op.KeyIdx > 8 || op.ValLen < 0 || op.ValLen > 8000 {
				return
			}
			k := c08Key(op.KeyIdx)
			mem.Write(c08AddrKey, k)
			regs[7], regs[8], regs[9], regs[10] = c08AddrKey, uint64(len(k)), c08AddrVal, uint64(op.ValLen)
		case "solicit":
			opcode = SolicitOp
			if op.HashIdx < 0 || op.HashIdx > 8 {
				return
			}
			h := c08Hash(op.HashIdx)
			mem.Write(c08AddrHash, h[:])
			regs[7], regs[8] = c08AddrHash, uint64(op.Z)
		default:
			return
		}

		if moved != nil && moved.Cmp(free) > 0 {
			nt = true
			c.Class(op.Kind + "_exceeds_free_balance")
		}

		out := AccumulateOmegas[opcode](OmegaInput{Operation: opcode, VM: vm, Addition: addition, HostCalls: AccumulateOmegas})
		if out.ExitReason == ExitContinue {
			addition = out.Addition
		}
		post := c08Observe(addition)
		if out.ExitReason != ExitContinue {
			// panic / out-of-gas ends the invocation; whatever X holds, nothing may have been minted
			k, _ := vpExitKindC08(out.ExitReason)
			c.Class(op.Kind + "_exit_" + k)
			if post.S.Cmp(pre.S) > 0 {
				c.Failf("step %d (%s): exit %s but the sum of balances and deferred transfers of X grew %s -> %s", step, what, k, pre.S, post.S)
			}
			if post.SY.Cmp(s0) > 0 {
				c.Failf("step %d (%s): exit %s: the checkpoint context holds %s tokens, more than the initial %s", step, what, k, post.SY, s0)
			}
			break
		}
		ret := regs[7]

		// --- expected CASH (the stated direction only)
		if cashJudged && expectCASH && ret != CASH {
			detail := fmt.Sprintf("step %d (%s): the call would leave the caller with %s - %s, below its threshold %s, but returned %s instead of CASH",
				step, what, bal, moved, thr, c08RetName(ret))
			if op.Kind == "new" && moved.Cmp(bal) > 0 {
				c.Known("KF-C08-1", detail)
			}
			c.Failf("%s", detail)
		}
		if cashJudged && !expectCASH && ret == CASH {
			c.Class(op.Kind + "_CASH_not_expected")
		}

		// --- per-call deltas
		switch {
		case op.Kind == "new" && ret < 1<<32 && func() bool { _, was := pre.Bal[uint32(ret)]; _, is := post.Bal[uint32(ret)]; return !was && is }():
			nid := uint32(ret)
			at := post.Thr[nid]
			if c08Big(post.Bal[nid]).Cmp(at) != 0 {
				c.Failf("step %d (%s): created account %d holds %d, its own threshold balance is %s", step, what, nid, post.Bal[nid], at)
			}
			want := big.NewInt(0).Sub(bal, at)
			if want.Sign() < 0 || c08Big(post.Bal[self]).Cmp(want) != 0 {
				detail := fmt.Sprintf("step %d (%s): caller had %s, the created account received %s, caller now holds %d (exact %s)", step, what, bal, at, post.Bal[self], want)
				if want.Sign() < 0 && moved.Cmp(bal) > 0 {
					// same root cause as the missed CASH: Balance - a_t wrapped (reached here only when the gratis argument is non-zero)
					c.Known("KF-C08-1", detail)
				}
				c.Failf("%s", detail)
			}
			if d := c08Unchanged(pre, post, map[uint32]bool{self: true, nid: true}, false); d != "" {
				c.Failf("step %d (%s): %s", step, what, d)
			}
			lastCreated = nid
			c.Class("new_created")
			if op.F != 0 {
				c.Class("new_created_with_gratis_argument")
			}
			okCount++
		case op.Kind == "transfer" && ret == OK:
			want := big.NewInt(0).Sub(bal, moved)
			if want.Sign() < 0 || c08Big(post.Bal[self]).Cmp(want) != 0 {
				c.Failf("step %d (%s): caller had %s, transferred %s, now holds %d (exact %s)", step, what, bal, moved, post.Bal[self], want)
			}
			if len(post.Xfers) != len(pre.Xfers)+1 {
				c.Failf("step %d (%s): OK but %d -> %d deferred transfers", step, what, len(pre.Xfers), len(post.Xfers))
			}
			last := post.Xfers[len(post.Xfers)-1]
			if c08Big(last.Amount).Cmp(moved) != 0 || last.From != self || last.To != tgtID {
				c.Failf("step %d (%s): deferred transfer recorded as %+v", step, what, last)
			}
			if d := c08Unchanged(pre, post, map[uint32]bool{self: true}, true); d != "" {
				c.Failf("step %d (%s): %s", step, what, d)
			}
			c.Class("transfer_OK")
			if tgtID == self {
				c.Class("transfer_OK_to_self")
			}
			okCount++
		case op.Kind == "eject" && ret == OK:
			db, was := pre.Bal[tgtID]
			if !was || tgtID == self {
				c.Failf("step %d (%s): OK for a target that is absent or the caller itself", step, what)
			}
			if _, still := post.Bal[tgtID]; still {
				c.Failf("step %d (%s): OK but the ejected account is still present", step, what)
			}
			want := big.NewInt(0).Add(bal, c08Big(db))
			if c08Big(post.Bal[self]).Cmp(want) != 0 {
				c.Failf("step %d (%s): caller had %s, ejected balance %d, caller now holds %d (exact %s)", step, what, bal, db, post.Bal[self], want)
			}
			if d := c08Unchanged(pre, post, map[uint32]bool{self: true, tgtID: true}, false); d != "" {
				c.Failf("step %d (%s): %s", step, what, d)
			}
			c.Class("eject_OK")
			okCount++
		default:
			// error code, or an op that moves no tokens: nothing may change
			if d := c08Unchanged(pre, post, nil, false); d != "" {
				c.Failf("step %d (%s): returned %s but %s", step, what, c08RetName(ret), d)
			}
			switch op.Kind {
			case "new", "transfer", "eject":
				c.Class(op.Kind + "_" + c08RetName(ret))
			case "write", "solicit":
				if ret == FULL || ret == HUH {
					c.Class(op.Kind + "_" + c08RetName(ret))
				} else {
					c.Class(op.Kind + "_done")
				}
			default:
				c.Class(op.Kind)
			}
		}

		// --- global invariants
		if post.S.Cmp(pre.S) > 0 {
			c.Failf("step %d (%s): sum of balances and deferred transfers grew %s -> %s", step, what, pre.S, post.S)
		}
		if post.S.Cmp(pre.S) < 0 {
			c.Failf("step %d (%s): %s tokens vanished (%s -> %s)", step, what, big.NewInt(0).Sub(pre.S, post.S), pre.S, post.S)
		}
		if op.Kind == "checkpoint" {
			if post.SY.Cmp(post.S) != 0 {
				c.Failf("step %d: after checkpoint Y holds %s tokens, X holds %s", step, post.SY, post.S)
			}
		} else if post.SY.Cmp(pre.SY) != 0 {
			c.Failf("step %d (%s): the checkpoint context's token sum changed %s -> %s without a checkpoint", step, what, pre.SY, post.SY)
		}
		if okCount >= 2 && (ret == OK || (op.Kind == "new" && ret < 1<<32)) {
			nt = true
		}
		pre = post
	}
	if okCount >= 2 {
		c.Class("seq_with_ge2_successful_moves")
	}
	if nt {
		c.NonTrivial()
	}
}

func vpExitKindC08(e ExitReason) (string, uint64) {
	switch e.GetReasonType() {
	case HALT:
		return "halt", 0
	case PANIC:
		return "panic", 0
	case OUT_OF_GAS:
		return "oog", 0
	case PAGE_FAULT:
		return "fault", 0
	case HOST_CALL:
		return "host", 0
	}
	return "other", 0
}

// ------------------------------------------------------------------ Psi_A entry

type c08Incoming struct {
	Operand bool   `json:"operand"`
	From    uint32 `json:"from"`
	Amount  uint64 `json:"amount"`
	Gas     uint64 `json:"gas"`
}

type c08EntryInput struct {
	ServiceID uint32        `json:"service_id"`
	Balance   uint64        `json:"balance"`
	OtherBal  uint64        `json:"other_balance"`
	Ending    int           `json:"ending"` // 0 halt, 1 trap, 2 no gas, 3 code preimage missing, 4 no such service
	Gas       uint64        `json:"gas"`
	Incoming  []c08Incoming `json:"incoming"`
}

func c08GenEntry(rt *rapid.T) c08EntryInput {
	in := c08EntryInput{
		ServiceID: rapid.OneOf(rapid.Uint32Range(0, 100), rapid.Uint32()).Draw(rt, "service_id"),
		Balance:   rapid.OneOf(rapid.Uint64Range(0, 1000), rapid.Uint64Range(1<<32-100, 1<<32+100), rapid.Uint64Range(0, 1<<61)).Draw(rt, "balance"),
		OtherBal:  rapid.Uint64Range(0, 1<<60).Draw(rt, "other_balance"),
		Ending:    rapid.SampledFrom([]int{0, 0, 1, 1, 2, 3, 4}).Draw(rt, "ending"),
		Gas:       rapid.Uint64Range(1, 1000).Draw(rt, "gas"),
	}
	n := rapid.IntRange(0, 6).Draw(rt, "n_incoming")
	for j := 0; j < n; j++ {
		in.Incoming = append(in.Incoming, c08Incoming{
			Operand: rapid.IntRange(0, 3).Draw(rt, "operand") == 0,
			From:    rapid.Uint32Range(0, 5).Draw(rt, "from"),
			Amount: rapid.OneOf(rapid.Uint64Range(0, 1000), rapid.Uint64Range(1<<32-100, 1<<32+100), rapid.Uint64Range(0, 1<<59),
				rapid.Just(uint64(0))).Draw(rt, "amount"),
			Gas: rapid.Uint64Range(0, 100).Draw(rt, "gas"),
		})
	}
	return in
}

func c08LE(v uint64, n int) []byte {
	out := make([]byte, n)
	for i := range out {
		out[i] = byte(v >> (8 * uint(i)))
	}
	return out
}

// c08ServiceBlob: metadata-wrapped standard program whose accumulate entry (pc 5)
// either halts (jump_ind r0) or traps.
func c08ServiceBlob(trap bool) []byte {
	code := []byte{0, 0, 0, 0, 0, 50, 0} // five traps, then jump_ind ra=r0, imm 0  (r0 = 2^32-2^16: halt)
	mask := byte(0b00111111)
	if trap {
		code = []byte{0, 0, 0, 0, 0, 0}
		mask = 0b00111111
	}
	var inner []byte
	inner = append(inner, 0)               // |j| = 0
	inner = append(inner, 1)               // z = 1
	inner = append(inner, byte(len(code))) // |c|
	inner = append(inner, code...)
	inner = append(inner, mask)
	var p []byte
	p = append(p, c08LE(0, 3)...) // |o|
	p = append(p, c08LE(0, 3)...) // |w|
	p = append(p, c08LE(0, 2)...) // z
	p = append(p, c08LE(0, 3)...) // s
	p = append(p, c08LE(uint64(len(inner)), 4)...)
	p = append(p, inner...)
	meta := []byte{1, 'm'} // length-prefixed one-byte metadata
	return append(meta, p...)
}

func c08CheckEntry(c *kit.Case, in c08EntryInput) {
	if len(in.Incoming) > 16 || in.Balance > 1<<61 || in.OtherBal > 1<<61 {
		return
	}
	total := big.NewInt(0)
	for _, x := range in.Incoming {
		if x.Amount > 1<<59 {
			return
		}
		if !x.Operand {
			total.Add(total, c08Big(x.Amount))
		}
	}
	sid := types.ServiceID(in.ServiceID)
	otherID := sid + 1
	blob := c08ServiceBlob(in.Ending == 1)
	codeHash := types.OpaqueHash(blake2b.Sum256(blob))
	acc := types.ServiceAccount{
		PreimageLookup: types.PreimagesMapEntry{},
		LookupDict:     types.LookupMetaMapEntry{types.LookupMetaMapkey{Hash: codeHash, Length: types.U32(len(blob))}: types.TimeSlotSet{0}},
		StorageDict:    types.Storage{},
	}
	acc.ServiceInfo = types.ServiceInfo{CodeHash: codeHash, Balance: types.U64(in.Balance), Items: 2, Bytes: types.U64(81 + len(blob))}
	if in.Ending != 3 {
		acc.PreimageLookup[codeHash] = blob
	}
	other := types.ServiceAccount{PreimageLookup: types.PreimagesMapEntry{}, LookupDict: types.LookupMetaMapEntry{}, StorageDict: types.Storage{}}
	other.ServiceInfo.Balance = types.U64(in.OtherBal)
	accounts := types.ServiceAccountState{otherID: other}
	if in.Ending != 4 {
		accounts[sid] = acc
	}
	ps := types.PartialStateSet{ServiceAccounts: accounts}
	var inputs []types.OperandOrDeferredTransfer
	for _, x := range in.Incoming {
		if x.Operand {
			inputs = append(inputs, types.OperandOrDeferredTransfer{Operand: &types.Operand{GasLimit: types.Gas(x.Gas)}})
		} else {
			dt := types.DeferredTransfer{SenderID: types.ServiceID(x.From), ReceiverID: sid, Balance: types.U64(x.Amount), GasLimit: types.Gas(x.Gas)}
			inputs = append(inputs, types.OperandOrDeferredTransfer{DeferredTransfer: &dt})
		}
	}
	gas := types.Gas(in.Gas)
	if in.Ending == 2 {
		gas = 0
	}
	res := Psi_A(ps, 7, sid, gas, inputs, types.Entropy{}, types.StateKeyVals{})
	c.Class(fmt.Sprintf("ending_%d", in.Ending))
	if len(res.DeferredTransfers) != 0 {
		c.Failf("a program without host calls produced %d deferred transfers", len(res.DeferredTransfers))
	}
	got := res.PartialStateSet.ServiceAccounts
	if in.Ending == 4 {
		if len(got) != 1 || uint64(got[otherID].ServiceInfo.Balance) != in.OtherBal {
			c.Failf("accumulating an absent service changed the accounts: %d accounts, other balance %d (was %d)", len(got), got[otherID].ServiceInfo.Balance, in.OtherBal)
		}
		return
	}
	if len(got) != 2 {
		c.Failf("account set changed: %d accounts", len(got))
	}
	if uint64(got[otherID].ServiceInfo.Balance) != in.OtherBal {
		c.Failf("bystander balance changed %d -> %d", in.OtherBal, got[otherID].ServiceInfo.Balance)
	}
	want := big.NewInt(0).Add(c08Big(in.Balance), total)
	if c08Big(uint64(got[sid].ServiceInfo.Balance)).Cmp(want) != 0 {
		c.Failf("ending %d: service balance %d + incoming %s should be %s, Psi_A returned %d", in.Ending, in.Balance, total, want, got[sid].ServiceInfo.Balance)
	}
	if total.Sign() > 0 {
		c.NonTrivial()
	}
}

func TestVerif_C08(t *testing.T) {
	s := kit.Begin(t, "C08")
	defer s.Finish()
	kit.Run(s, "hostcall_sequences", kit.N{Quick: 60000, Thorough: 2000000}, c08GenSeq, c08CheckSeq)
	kit.Run(s, "psi_a_entry", kit.N{Quick: 6000, Thorough: 200000}, c08GenEntry, c08CheckEntry)
}
