package accumulation

// C31: historical lookup (GP 9.7) and preimage-extrinsic admission/integration
// (GP 12.38-12.43).
//
// (a) service_account.HistoricalLookup against the truth table of I(l,t).
// (b) ValidatePreimageExtrinsics + ProcessPreimageExtrinsics against a model
//     written from the equations; the posterior state is observed canonically
//     (lookup records as state key -> encoded value, wherever they live:
//     LookupDict or the raw "unmatched" key-values).

import (
	"bytes"
	"encoding/hex"
	"fmt"
	"sort"
	"testing"

	"github.com/New-JAMneration/JAM-Protocol/internal/blockchain"
	"github.com/New-JAMneration/JAM-Protocol/internal/service_account"
	"github.com/New-JAMneration/JAM-Protocol/internal/types"
	"github.com/New-JAMneration/JAM-Protocol/internal/utilities/merklization"
	kit "github.com/New-JAMneration/JAM-Protocol/internal/verifkit"
	"golang.org/x/crypto/blake2b"
	"pgregory.net/rapid"
)

func c31Un(s string) []byte {
	b, err := hex.DecodeString(s)
	if err != nil {
		return nil
	}
	return b
}

func c31H(b []byte) types.OpaqueHash { return types.OpaqueHash(blake2b.Sum256(b)) }

// =====================================================================
// (a) historical lookup truth table
// =====================================================================

type c31aInput struct {
	Rec    []uint32 `json:"rec"`    // availability record, 0..4 time slots
	T      uint32   `json:"t"`      // lookup time
	Blob   string   `json:"blob"`   // hex
	Stored bool     `json:"stored"` // preimage present in a_p
	KeyLen string   `json:"keylen"` // length in the a_l key: right | short | long | absent
	Query  string   `json:"query"`  // same | unknown | noise
	Noise  bool     `json:"noise"`  // a second, always-available preimage is present
}

func c31Sat(v int64) uint32 {
	if v < 0 {
		return 0
	}
	if v > 0xFFFFFFFF {
		return 0xFFFFFFFF
	}
	return uint32(v)
}

func c31aGen(rt *rapid.T) c31aInput {
	n := rapid.SampledFrom([]int{0, 1, 2, 2, 2, 3, 3, 3, 3, 4}).Draw(rt, "n")
	x := int64(rapid.OneOf(
		rapid.SampledFrom([]uint32{0, 1, 5, 1000, 0xFFFFFFF0, 0xFFFFFFFE, 0xFFFFFFFF}),
		rapid.Uint32(),
	).Draw(rt, "x"))
	rec := make([]uint32, n)
	cur := x
	for i := range rec {
		if i > 0 {
			cur += int64(rapid.SampledFrom([]int{0, 1, 1, 2, 3, 10, 1000}).Draw(rt, "gap"))
		}
		rec[i] = c31Sat(cur)
	}
	if n >= 2 && rapid.IntRange(0, 7).Draw(rt, "unordered") == 0 {
		rec = rapid.Permutation(rec).Draw(rt, "perm")
	}
	cands := []int64{0, 0xFFFFFFFF}
	for _, r := range rec {
		cands = append(cands, int64(r)-1, int64(r), int64(r)+1)
	}
	var t uint32
	if rapid.IntRange(0, 9).Draw(rt, "trand") == 0 {
		t = rapid.Uint32().Draw(rt, "t")
	} else {
		t = c31Sat(cands[rapid.IntRange(0, len(cands)-1).Draw(rt, "tidx")])
	}
	bl := rapid.SampledFrom([]int{0, 1, 1, 2, 3, 8, 40}).Draw(rt, "blen")
	blob := rapid.SliceOfN(rapid.Byte(), bl, bl).Draw(rt, "blob")
	return c31aInput{
		Rec: rec, T: t, Blob: hex.EncodeToString(blob),
		Stored: rapid.IntRange(0, 7).Draw(rt, "stored") != 0,
		KeyLen: rapid.SampledFrom([]string{"right", "right", "right", "right", "right", "right", "right", "right", "short", "long", "absent"}).Draw(rt, "keylen"),
		Query:  rapid.SampledFrom([]string{"same", "same", "same", "same", "same", "same", "same", "same", "same", "unknown", "noise"}).Draw(rt, "query"),
		Noise:  rapid.Bool().Draw(rt, "noise"),
	}
}

// c31I is GP 9.7's I(l,t), typed in from the property statement:
// [] never; [x]: x<=t; [x,y]: x<=t<y; [x,y,z]: x<=t<y or z<=t.
func c31I(l []uint32, t uint32) bool {
	switch len(l) {
	case 1:
		return l[0] <= t
	case 2:
		return l[0] <= t && t < l[1]
	case 3:
		return (l[0] <= t && t < l[1]) || l[2] <= t
	}
	return false
}

func c31aCheck(c *kit.Case, in c31aInput) {
	if len(in.Rec) > 4 {
		return
	}
	blob := c31Un(in.Blob)
	h := c31H(blob)
	noiseBlob := append([]byte("noise:"), blob...)
	nh := c31H(noiseBlob)
	acc := types.ServiceAccount{
		PreimageLookup: types.PreimagesMapEntry{},
		LookupDict:     types.LookupMetaMapEntry{},
		StorageDict:    types.Storage{},
	}
	if in.Stored {
		acc.PreimageLookup[h] = append(types.ByteSequence{}, blob...)
	}
	rec := make(types.TimeSlotSet, len(in.Rec))
	for i, v := range in.Rec {
		rec[i] = types.TimeSlot(v)
	}
	switch in.KeyLen {
	case "right":
		acc.LookupDict[types.LookupMetaMapkey{Hash: h, Length: types.U32(len(blob))}] = rec
	case "short":
		if len(blob) == 0 {
			acc.LookupDict[types.LookupMetaMapkey{Hash: h, Length: 0xFFFFFFFF}] = rec
		} else {
			acc.LookupDict[types.LookupMetaMapkey{Hash: h, Length: types.U32(len(blob) - 1)}] = rec
		}
	case "long":
		acc.LookupDict[types.LookupMetaMapkey{Hash: h, Length: types.U32(len(blob) + 1)}] = rec
	case "absent":
	default:
		return
	}
	if in.Noise {
		acc.PreimageLookup[nh] = append(types.ByteSequence{}, noiseBlob...)
		acc.LookupDict[types.LookupMetaMapkey{Hash: nh, Length: types.U32(len(noiseBlob))}] = types.TimeSlotSet{0}
	}

	var q types.OpaqueHash
	var want []byte // nil = nothing
	wantSome := false
	switch in.Query {
	case "same":
		q = h
		if in.Stored && in.KeyLen == "right" && c31I(in.Rec, in.T) {
			want, wantSome = blob, true
		}
	case "unknown":
		q = c31H(append([]byte("unknown:"), blob...))
	case "noise":
		q = nh
		if in.Noise {
			want, wantSome = noiseBlob, true // record [0]: available at every t
		}
	default:
		return
	}

	// classes and non-triviality: record length >= 2 with t on a boundary
	c.Class(fmt.Sprintf("rec_len_%d", len(in.Rec)))
	onBoundary := false
	for _, r := range in.Rec {
		if in.T == r || (r > 0 && in.T == r-1) {
			onBoundary = true
		}
	}
	if in.Query == "same" && in.Stored && in.KeyLen == "right" {
		if wantSome {
			c.Class("same_available")
		} else {
			c.Class("same_unavailable_by_time")
		}
		if len(in.Rec) >= 2 && len(in.Rec) <= 3 && onBoundary {
			c.Class("boundary_t")
			c.NonTrivial()
		}
	} else {
		c.Class("query_" + in.Query)
		if in.Query == "same" {
			if !in.Stored {
				c.Class("same_not_stored")
			}
			if in.KeyLen != "right" {
				c.Class("same_keylen_" + in.KeyLen)
			}
		}
	}

	got := service_account.HistoricalLookup(acc, types.TimeSlot(in.T), q)

	if in.Query == "same" && len(in.Rec) == 4 && in.Stored && in.KeyLen == "right" {
		// N_T sequences are at most 3 long (GP 9.x): I is undefined for 4
		// entries. Only demand that nothing but the stored blob comes back.
		c.Class("rec_len_4_unconstrained")
		if len(got) != 0 && !(in.Stored && bytes.Equal(got, blob)) {
			c.Failf("record of length 4: returned %x which is not the stored preimage", []byte(got))
		}
		return
	}
	if wantSome {
		if len(want) == 0 {
			c.Class("empty_blob_available")
			if len(got) != 0 {
				c.Failf("empty preimage expected, got %x", []byte(got))
			}
			// "nothing" is the nil result (the historical_lookup host call answers NONE for nil and
			// the length, here 0, for a blob): the stored, available empty preimage (a non-nil
			// empty sequence in the account) must not come back as nothing
			if got == nil {
				c.Failf("HistoricalLookup(rec=%v, t=%d) returned nil (nothing) for the stored, available EMPTY preimage", in.Rec, in.T)
			}
			return
		}
		if !bytes.Equal(got, want) {
			c.Failf("HistoricalLookup(rec=%v, t=%d, stored=%v, keylen=%s, query=%s) = %x, want the preimage %x (I(l,t)=true)",
				in.Rec, in.T, in.Stored, in.KeyLen, in.Query, []byte(got), want)
		}
		return
	}
	if len(got) != 0 {
		c.Failf("HistoricalLookup(rec=%v, t=%d, stored=%v, keylen=%s, query=%s) = %x, want nothing",
			in.Rec, in.T, in.Stored, in.KeyLen, in.Query, []byte(got))
	}
}

// =====================================================================
// (b) preimage extrinsic admission and integration
// =====================================================================

type c31Ent struct {
	Blob string `json:"blob"` // hex; distinct within a service
	// solicited   : a_l[(H,|b|)] = []            , H not in a_p
	// provided    : a_l[(H,|b|)] = [t1]          , a_p[H] = b
	// forgotten   : a_l[(H,|b|)] = [t1,t2]       , H not in a_p
	// reavailable : a_l[(H,|b|)] = [t1,t2,t3]    , a_p[H] = b
	// wronglen    : a_l[(H,|b|+1)] = []          , H not in a_p
	// none        : nothing in the state (candidate blob only)
	Kind string `json:"kind"`
	// the lookup record lives only in the raw (unmatched) key-values; only
	// honoured where the preimage is absent (what a state import produces)
	Raw   bool     `json:"raw,omitempty"`
	Slots []uint32 `json:"slots,omitempty"`
}

type c31Svc struct {
	ID   uint32   `json:"id"`
	Ents []c31Ent `json:"ents"`
}

type c31Ext struct {
	Svc  uint32 `json:"svc"`
	Blob string `json:"blob"`
}

type c31RawKV struct {
	K string `json:"k"` // 31 bytes hex
	V string `json:"v"`
}

// c31Acc: what this block's accumulation did, between δ and δ‡, to the record
// of extrinsic entry Idx: "provided" (preimage supplied at τ′ by the service
// itself) or "withdrawn" (solicitation forgotten, record removed).
type c31Acc struct {
	Idx  int    `json:"idx"`
	Kind string `json:"kind"`
}

type c31bInput struct {
	Svcs  []c31Svc   `json:"svcs"`
	Ext   []c31Ext   `json:"ext"`
	Tau   uint32     `json:"tau"`
	Extra []c31RawKV `json:"extra,omitempty"`
	Acc   []c31Acc   `json:"acc,omitempty"`
}

// ---------------------------------------------------------------- model

type c31Rec struct {
	svc   uint32
	hash  types.OpaqueHash
	klen  uint32
	slots []uint32
	raw   bool
}

type c31Model struct {
	ids   []uint32
	pre   map[uint32]map[types.OpaqueHash][]byte
	recs  []c31Rec
	extra []c31RawKV
}

func (m *c31Model) clone() *c31Model {
	o := &c31Model{ids: append([]uint32(nil), m.ids...), pre: map[uint32]map[types.OpaqueHash][]byte{}, extra: m.extra}
	for s, p := range m.pre {
		o.pre[s] = map[types.OpaqueHash][]byte{}
		for h, b := range p {
			o.pre[s][h] = append([]byte{}, b...)
		}
	}
	for _, r := range m.recs {
		r.slots = append([]uint32(nil), r.slots...)
		o.recs = append(o.recs, r)
	}
	return o
}

func (m *c31Model) hasSvc(s uint32) bool {
	_, ok := m.pre[s]
	return ok
}

func (m *c31Model) find(s uint32, h types.OpaqueHash, klen uint32) int {
	for i, r := range m.recs {
		if r.svc == s && r.hash == h && r.klen == klen {
			return i
		}
	}
	return -1
}

// needed is GP 12.38's R(d, s, H(b), |b|): the service exists, the hash is not
// in its preimages and the record for (hash, length) exists and is empty.
func (m *c31Model) needed(s uint32, blob []byte) bool {
	if !m.hasSvc(s) {
		return false
	}
	h := c31H(blob)
	if _, ok := m.pre[s][h]; ok {
		return false
	}
	i := m.find(s, h, uint32(len(blob)))
	return i >= 0 && len(m.recs[i].slots) == 0
}

func c31BuildModel(in c31bInput) (*c31Model, bool) {
	m := &c31Model{pre: map[uint32]map[types.OpaqueHash][]byte{}, extra: in.Extra}
	for _, sv := range in.Svcs {
		if m.hasSvc(sv.ID) {
			return nil, false
		}
		m.ids = append(m.ids, sv.ID)
		m.pre[sv.ID] = map[types.OpaqueHash][]byte{}
		seen := map[string]bool{}
		for _, e := range sv.Ents {
			if seen[e.Blob] {
				return nil, false
			}
			seen[e.Blob] = true
			b := c31Un(e.Blob)
			h := c31H(b)
			sl := func(n int) []uint32 {
				o := make([]uint32, n)
				for i := range o {
					if i < len(e.Slots) {
						o[i] = e.Slots[i]
					} else {
						o[i] = uint32(7 + i)
					}
				}
				return o
			}
			switch e.Kind {
			case "solicited":
				m.recs = append(m.recs, c31Rec{sv.ID, h, uint32(len(b)), nil, e.Raw})
			case "provided":
				m.pre[sv.ID][h] = b
				m.recs = append(m.recs, c31Rec{sv.ID, h, uint32(len(b)), sl(1), false})
			case "forgotten":
				m.recs = append(m.recs, c31Rec{sv.ID, h, uint32(len(b)), sl(2), e.Raw})
			case "reavailable":
				m.pre[sv.ID][h] = b
				m.recs = append(m.recs, c31Rec{sv.ID, h, uint32(len(b)), sl(3), false})
			case "wronglen":
				m.recs = append(m.recs, c31Rec{sv.ID, h, uint32(len(b)) + 1, nil, e.Raw})
			case "none":
			default:
				return nil, false
			}
		}
	}
	for _, kv := range in.Extra {
		if len(c31Un(kv.K)) != 31 {
			return nil, false
		}
	}
	return m, true
}

func c31Info(id uint32) types.ServiceInfo {
	return types.ServiceInfo{
		CodeHash: c31H([]byte{byte(id), 0xC0}), Balance: types.U64(1000 + id), MinItemGas: 10, MinMemoGas: 20,
		Bytes: types.U64(500 + id), Items: types.U32(3 + id%5), CreationSlot: 1, LastAccumulationSlot: 2, ParentService: 0,
	}
}

// build materialises a model as (δ, raw key-values) with fresh maps/slices.
func (m *c31Model) build() (types.ServiceAccountState, types.StateKeyVals) {
	d := types.ServiceAccountState{}
	for _, id := range m.ids {
		acc := types.ServiceAccount{
			ServiceInfo:    c31Info(id),
			PreimageLookup: types.PreimagesMapEntry{},
			LookupDict:     types.LookupMetaMapEntry{},
			StorageDict:    types.Storage{"k": types.ByteSequence{byte(id)}},
		}
		for h, b := range m.pre[id] {
			acc.PreimageLookup[h] = append(types.ByteSequence{}, b...)
		}
		d[types.ServiceID(id)] = acc
	}
	var kvs types.StateKeyVals
	for _, r := range m.recs {
		ts := make(types.TimeSlotSet, len(r.slots))
		for i, v := range r.slots {
			ts[i] = types.TimeSlot(v)
		}
		key := types.LookupMetaMapkey{Hash: r.hash, Length: types.U32(r.klen)}
		if r.raw {
			kvs = append(kvs, merklization.EncodeDelta4KeyVal(types.ServiceID(r.svc), key, ts))
		} else {
			d[types.ServiceID(r.svc)].LookupDict[key] = ts
		}
	}
	for _, kv := range m.extra {
		var k types.StateKey
		copy(k[:], c31Un(kv.K))
		kvs = append(kvs, types.StateKeyVal{Key: k, Value: append(types.ByteSequence{}, c31Un(kv.V)...)})
	}
	return d, kvs
}

// canonical observation ------------------------------------------------

type c31Obs struct {
	kv   map[types.StateKey][]byte // lookup records (dict or raw) and all other raw key-values
	pre  map[string][]byte         // "svc/hash" -> blob
	info map[uint32]types.ServiceInfo
	stor map[string][]byte // "svc/key" -> value
}

func c31Observe(d types.ServiceAccountState, kvs types.StateKeyVals) (*c31Obs, error) {
	o := &c31Obs{kv: map[types.StateKey][]byte{}, pre: map[string][]byte{}, info: map[uint32]types.ServiceInfo{}, stor: map[string][]byte{}}
	for _, kv := range kvs {
		if old, dup := o.kv[kv.Key]; dup && !bytes.Equal(old, kv.Value) {
			return nil, fmt.Errorf("raw key %x present twice with different values", kv.Key)
		}
		o.kv[kv.Key] = kv.Value
	}
	for id, acc := range d {
		o.info[uint32(id)] = acc.ServiceInfo
		for h, b := range acc.PreimageLookup {
			o.pre[fmt.Sprintf("%d/%x", id, h)] = b
		}
		for k, v := range acc.StorageDict {
			o.stor[fmt.Sprintf("%d/%x", id, k)] = v
		}
		for k, ts := range acc.LookupDict {
			kv := merklization.EncodeDelta4KeyVal(id, k, ts)
			if old, dup := o.kv[kv.Key]; dup && !bytes.Equal(old, kv.Value) {
				return nil, fmt.Errorf("lookup record of service %d (%x,%d) is %v in LookupDict but the raw key-values still hold %x", id, k.Hash[:4], k.Length, ts, old)
			}
			o.kv[kv.Key] = kv.Value
		}
	}
	return o, nil
}

func c31Diff(got, want *c31Obs) string {
	for k, v := range want.kv {
		g, ok := got.kv[k]
		if !ok {
			return fmt.Sprintf("state key %x (value %x) missing", k, v)
		}
		if !bytes.Equal(g, v) {
			return fmt.Sprintf("state key %x = %x, want %x", k, g, v)
		}
	}
	for k, v := range got.kv {
		if _, ok := want.kv[k]; !ok {
			return fmt.Sprintf("unexpected state key %x = %x", k, v)
		}
	}
	for k, v := range want.pre {
		g, ok := got.pre[k]
		if !ok {
			return fmt.Sprintf("preimage %s missing", k)
		}
		if !bytes.Equal(g, v) {
			return fmt.Sprintf("preimage %s = %x, want %x", k, g, v)
		}
	}
	for k, v := range got.pre {
		if _, ok := want.pre[k]; !ok {
			return fmt.Sprintf("unexpected preimage %s = %x", k, v)
		}
	}
	if len(got.info) != len(want.info) {
		return fmt.Sprintf("%d services, want %d", len(got.info), len(want.info))
	}
	for id, wi := range want.info {
		if gi, ok := got.info[id]; !ok || gi != wi {
			return fmt.Sprintf("service %d info changed: %+v want %+v", id, gi, wi)
		}
	}
	if len(got.stor) != len(want.stor) {
		return "storage entries changed"
	}
	for k, v := range want.stor {
		if g, ok := got.stor[k]; !ok || !bytes.Equal(g, v) {
			return fmt.Sprintf("storage %s changed", k)
		}
	}
	return ""
}

// ---------------------------------------------------------------- generator

func c31GenBlob(rt *rapid.T) []byte {
	n := rapid.SampledFrom([]int{0, 1, 1, 2, 2, 3, 4}).Draw(rt, "blen")
	b := make([]byte, n)
	for i := range b {
		b[i] = rapid.SampledFrom([]byte{0x00, 'a', 'a', 'b', 'b', 0xFF}).Draw(rt, "bb")
	}
	return b
}

func c31bGen(rt *rapid.T) c31bInput {
	var in c31bInput
	in.Tau = rapid.OneOf(rapid.SampledFrom([]uint32{0, 1, 100, 0xFFFFFFFF}), rapid.Uint32()).Draw(rt, "tau")
	ns := rapid.IntRange(1, 4).Draw(rt, "nsvc")
	base := rapid.OneOf(rapid.SampledFrom([]uint32{0, 1, 255, 256, 0xFFFFFFF0}), rapid.Uint32Range(0, 0xFFFFFFF0)).Draw(rt, "idbase")
	used := map[uint32]bool{}
	type cand struct {
		svc    uint32
		blob   []byte
		needed bool
	}
	var cands []cand
	for i := 0; i < ns; i++ {
		id := base + uint32(rapid.IntRange(0, 5).Draw(rt, "idoff"))
		if used[id] {
			continue
		}
		used[id] = true
		sv := c31Svc{ID: id}
		ne := rapid.IntRange(0, 5).Draw(rt, "nent")
		seen := map[string]bool{}
		for j := 0; j < ne; j++ {
			b := c31GenBlob(rt)
			if seen[string(b)] {
				continue
			}
			seen[string(b)] = true
			kind := rapid.SampledFrom([]string{"solicited", "solicited", "solicited", "solicited", "solicited",
				"provided", "forgotten", "reavailable", "wronglen", "none"}).Draw(rt, "ekind")
			e := c31Ent{Blob: hex.EncodeToString(b), Kind: kind}
			if kind == "solicited" || kind == "forgotten" || kind == "wronglen" {
				e.Raw = rapid.Bool().Draw(rt, "raw")
			}
			if kind == "provided" || kind == "forgotten" || kind == "reavailable" {
				t := rapid.Uint32Range(0, 1000).Draw(rt, "t1")
				e.Slots = []uint32{t, t + 5, t + 9}
			}
			sv.Ents = append(sv.Ents, e)
			cands = append(cands, cand{id, b, kind == "solicited"})
		}
		in.Svcs = append(in.Svcs, sv)
	}
	// extrinsic: a subset of the candidates (biased to the solicited ones), now
	// and then an unknown service or an unknown blob
	onlyNeeded := rapid.IntRange(0, 2).Draw(rt, "onlyNeeded") != 0
	var ext []c31Ext
	for _, cd := range cands {
		p := 1 // out of 4
		if cd.needed {
			p = 3
		} else if onlyNeeded {
			p = 0
		}
		if rapid.IntRange(0, 3).Draw(rt, "take") < p {
			ext = append(ext, c31Ext{cd.svc, hex.EncodeToString(cd.blob)})
		}
	}
	if !onlyNeeded && rapid.IntRange(0, 3).Draw(rt, "unknownSvc") == 0 {
		ext = append(ext, c31Ext{base + uint32(rapid.IntRange(0, 7).Draw(rt, "uoff")), hex.EncodeToString(c31GenBlob(rt))})
	}
	// dedupe, then canonical order by (service, blob)
	seenE := map[string]bool{}
	var uniq []c31Ext
	for _, e := range ext {
		k := fmt.Sprintf("%d/%s", e.Svc, e.Blob)
		if !seenE[k] {
			seenE[k] = true
			uniq = append(uniq, e)
		}
	}
	ext = uniq
	sort.Slice(ext, func(i, j int) bool {
		if ext[i].Svc != ext[j].Svc {
			return ext[i].Svc < ext[j].Svc
		}
		return bytes.Compare(c31Un(ext[i].Blob), c31Un(ext[j].Blob)) < 0
	})
	// perturbation of the order
	if len(ext) >= 1 {
		switch rapid.SampledFrom([]int{0, 0, 0, 0, 0, 1, 2, 3, 4}).Draw(rt, "perturb") {
		case 1: // swap two neighbours
			if len(ext) >= 2 {
				i := rapid.IntRange(0, len(ext)-2).Draw(rt, "swapAt")
				ext[i], ext[i+1] = ext[i+1], ext[i]
			}
		case 2: // duplicate one entry in place
			i := rapid.IntRange(0, len(ext)-1).Draw(rt, "dupAt")
			ext = append(ext[:i+1], append([]c31Ext{ext[i]}, ext[i+1:]...)...)
		case 3: // reverse
			for i, j := 0, len(ext)-1; i < j; i, j = i+1, j-1 {
				ext[i], ext[j] = ext[j], ext[i]
			}
		case 4: // duplicate at the end (non-adjacent duplicate)
			ext = append(ext, ext[0])
		}
	}
	in.Ext = ext
	ne := rapid.IntRange(0, 3).Draw(rt, "nextra")
	for i := 0; i < ne; i++ {
		k := rapid.SliceOfN(rapid.Byte(), 31, 31).Draw(rt, "xk")
		v := rapid.SliceOfN(rapid.Byte(), 0, 6).Draw(rt, "xv")
		if rapid.IntRange(0, 3).Draw(rt, "xzero") == 0 {
			v = []byte{0}
		}
		in.Extra = append(in.Extra, c31RawKV{hex.EncodeToString(k), hex.EncodeToString(v)})
	}
	if len(ext) > 0 && rapid.IntRange(0, 3).Draw(rt, "withAcc") == 0 {
		na := rapid.IntRange(1, 2).Draw(rt, "nacc")
		for i := 0; i < na; i++ {
			in.Acc = append(in.Acc, c31Acc{Idx: rapid.IntRange(0, len(ext)-1).Draw(rt, "accIdx"),
				Kind: rapid.SampledFrom([]string{"provided", "withdrawn"}).Draw(rt, "accKind")})
		}
	}
	return in
}

// ---------------------------------------------------------------- check

func c31bCheck(c *kit.Case, in c31bInput) {
	prior, ok := c31BuildModel(in)
	if !ok || len(in.Svcs) == 0 {
		return
	}
	classed := map[string]bool{}
	classOnce := func(name string) {
		if !classed[name] {
			classed[name] = true
			c.Class(name)
		}
	}

	// ---- oracle for admission (12.39 / 12.40 on the PRIOR state)
	ordered := true
	why := ""
	for i := 1; i < len(in.Ext); i++ {
		a, b := in.Ext[i-1], in.Ext[i]
		cmp := bytes.Compare(c31Un(a.Blob), c31Un(b.Blob))
		switch {
		case a.Svc > b.Svc:
			ordered, why = false, "reject_order_service"
		case a.Svc == b.Svc && cmp > 0:
			ordered, why = false, "reject_order_blob"
		case a.Svc == b.Svc && cmp == 0:
			ordered, why = false, "reject_duplicate"
		}
		if !ordered {
			break
		}
	}
	if ordered {
		// non-adjacent duplicates also break strict order; covered above since a
		// strictly increasing sequence has none
	}
	allNeeded := true
	for _, e := range in.Ext {
		if !prior.needed(e.Svc, c31Un(e.Blob)) {
			allNeeded = false
			if why == "" {
				why = "reject_unneeded"
			}
		}
	}
	accept := ordered && allNeeded

	perSvc := map[uint32]int{}
	nt := false
	for _, e := range in.Ext {
		perSvc[e.Svc]++
		if perSvc[e.Svc] >= 2 {
			nt = true
		}
	}
	if nt {
		c.Class("ext_ge2_entries_one_service")
		c.NonTrivial()
	}
	if len(in.Ext) == 0 {
		c.Class("ext_empty")
	}
	if accept {
		c.Class("accept")
	} else {
		c.Class(why)
		if !ordered && !allNeeded {
			c.Class("reject_both_causes")
		}
	}

	// ---- code under test: admission
	delta, priorKVs := prior.build()
	eps := make(types.PreimagesExtrinsic, len(in.Ext))
	for i, e := range in.Ext {
		eps[i] = types.Preimage{Requester: types.ServiceID(e.Svc), Blob: append(types.ByteSequence{}, c31Un(e.Blob)...)}
	}
	kvArg := priorKVs.DeepCopy()
	err := ValidatePreimageExtrinsics(eps, delta, &kvArg)
	if accept && err != nil {
		c.Failf("extrinsic %v is strictly ordered and every entry is solicited and not yet provided, but ValidatePreimageExtrinsics rejects it: %v", in.Ext, err)
	}
	if !accept && err == nil {
		c.Failf("extrinsic %v must be rejected (%s) but ValidatePreimageExtrinsics accepts it", in.Ext, why)
	}
	// validation is a pure check of the prior state
	if o1, e1 := c31Observe(delta, kvArg); e1 != nil {
		c.Failf("after validation: %v", e1)
	} else {
		d0, k0 := prior.build()
		o0, _ := c31Observe(d0, k0)
		if df := c31Diff(o1, o0); df != "" {
			c.Failf("ValidatePreimageExtrinsics changed the prior state: %s", df)
		}
	}
	if !accept {
		return
	}

	// ---- δ‡: the prior state plus what accumulation did to some records
	dd := prior.clone()
	withdrawn := map[int]bool{}
	for _, a := range in.Acc {
		if a.Idx < 0 || a.Idx >= len(in.Ext) {
			continue
		}
		e := in.Ext[a.Idx]
		b := c31Un(e.Blob)
		i := dd.find(e.Svc, c31H(b), uint32(len(b)))
		if i < 0 || len(dd.recs[i].slots) != 0 {
			continue // already touched by an earlier Acc
		}
		switch a.Kind {
		case "provided":
			dd.pre[e.Svc][c31H(b)] = b
			dd.recs[i].slots = []uint32{in.Tau}
			dd.recs[i].raw = false
			classOnce("acc_provided_same_block")
		case "withdrawn":
			dd.recs = append(dd.recs[:i], dd.recs[i+1:]...)
			withdrawn[a.Idx] = true
			classOnce("acc_withdrawn_same_block")
		}
	}
	// ---- oracle for integration (12.41-12.43): δ′ = δ‡ except, for every
	// extrinsic entry still needed in δ‡, p[H(b)] = b and l[(H(b),|b|)] = [τ′]
	want := dd.clone()
	for _, e := range in.Ext {
		b := c31Un(e.Blob)
		if !dd.needed(e.Svc, b) {
			continue
		}
		i := want.find(e.Svc, c31H(b), uint32(len(b)))
		want.pre[e.Svc][c31H(b)] = b
		want.recs[i].slots = []uint32{in.Tau}
		if want.recs[i].raw {
			classOnce("integrated_record_was_raw_only")
		}
	}

	// ---- code under test: integration through the singleton
	ddDelta, ddKVs := dd.build()
	blockchain.ResetInstance()
	cs := blockchain.GetInstance()
	cs.AddBlock(types.Block{Extrinsic: types.Extrinsic{Preimages: eps}})
	cs.GetPriorStates().SetDelta(delta)
	cs.SetPriorStateUnmatchedKeyVals(priorKVs)
	cs.GetIntermediateStates().SetDeltaDoubleDagger(ddDelta)
	cs.SetPostStateUnmatchedKeyVals(ddKVs)
	cs.GetPosteriorStates().SetTau(types.TimeSlot(in.Tau))
	if err := ProcessPreimageExtrinsics(); err != nil {
		c.Failf("ProcessPreimageExtrinsics on an admitted extrinsic: %v", err)
	}
	got, oerr := c31Observe(cs.GetPosteriorStates().GetDelta(), cs.GetPostStateUnmatchedKeyVals())
	if oerr != nil {
		c.Failf("posterior state: %v", oerr)
	}
	wd, wk := want.build()
	wobs, _ := c31Observe(wd, wk)
	if df := c31Diff(got, wobs); df != "" {
		c.Failf("posterior state after integrating %v at τ′=%d: %s", in.Ext, in.Tau, df)
	}
	// every admitted-and-still-needed blob is retrievable from τ′ on (ties (a) and (b))
	post := cs.GetPosteriorStates().GetDelta()
	for i, e := range in.Ext {
		if withdrawn[i] {
			continue
		}
		b := c31Un(e.Blob)
		acc := post[types.ServiceID(e.Svc)]
		if _, ok := acc.LookupDict[types.LookupMetaMapkey{Hash: c31H(b), Length: types.U32(len(b))}]; !ok {
			continue // record kept raw: HistoricalLookup only reads LookupDict
		}
		if len(b) > 0 {
			if g := service_account.HistoricalLookup(acc, types.TimeSlot(in.Tau), c31H(b)); !bytes.Equal(g, b) {
				c.Failf("integrated preimage %x of service %d not available at τ′=%d", b, e.Svc, in.Tau)
			}
			if in.Tau > 0 {
				if g := service_account.HistoricalLookup(acc, types.TimeSlot(in.Tau-1), c31H(b)); len(g) != 0 {
					c.Failf("integrated preimage %x of service %d available before τ′", b, e.Svc)
				}
			}
		}
	}
	// each stored availability record is its own: extending one record (what forget / solicit do
	// with append) must not change the record of any other preimage integrated by the same block
	type recRef struct {
		svc types.ServiceID
		key types.LookupMetaMapkey
	}
	snap := map[recRef][]types.TimeSlot{}
	for id, acc := range post {
		for k, v := range acc.LookupDict {
			snap[recRef{id, k}] = append([]types.TimeSlot(nil), v...)
		}
	}
	for id, acc := range post {
		for k, v := range acc.LookupDict {
			ext := append(v, types.TimeSlot(in.Tau)+777) // the extended record is NOT stored back
			if len(ext) > 1 {
				ext[len(ext)-1] = types.TimeSlot(in.Tau) + 778
			}
			_ = id
			_ = k
		}
	}
	for id, acc := range post {
		for k, v := range acc.LookupDict {
			w := snap[recRef{id, k}]
			full, fullW := v[:cap(v)], w
			same := len(v) == len(w)
			for i := 0; same && i < len(w); i++ {
				same = v[i] == w[i]
			}
			if !same {
				c.Failf("availability record of service %d (length %d) changed from %v to %v when another record was extended", id, k.Length, fullW, full[:len(v)])
			}
		}
	}
	// (records with spare capacity shared between entries show up as a changed tail of a sibling)
	seenTail := map[*types.TimeSlot]recRef{}
	for id, acc := range post {
		for k, v := range acc.LookupDict {
			if cap(v) == 0 {
				continue
			}
			p0 := &v[:1][0]
			if other, dup := seenTail[p0]; dup {
				c.Failf("availability records of service %d (length %d) and service %d (length %d) share their memory: extending one by append rewrites the other", id, k.Length, other.svc, other.key.Length)
			}
			seenTail[p0] = recRef{id, k}
		}
	}
}

func TestVerif_C31(t *testing.T) {
	s := kit.Begin(t, "C31")
	defer s.Finish()
	kit.Run(s, "historical_lookup_truth_table", kit.N{Quick: 40000, Thorough: 4000000}, c31aGen, c31aCheck)
	kit.Run(s, "preimage_extrinsic_admission", kit.N{Quick: 24000, Thorough: 2400000}, c31bGen, c31bCheck)
}
