package PVM

// C03: untrusted program bytes never crash the node: no Go runtime panic, the
// call returns (gas-bounded), allocation bounded by a constant plus the sizes
// the blob declares.

import (
	"fmt"
	"runtime"
	"testing"
	"time"

	"github.com/New-JAMneration/JAM-Protocol/internal/types"
	kit "github.com/New-JAMneration/JAM-Protocol/internal/verifkit"
	"pgregory.net/rapid"
)

type c03Input struct {
	Mode int    `json:"mode"` // 0 deblob only, 1 Psi_M (standard program blob), 2 machine+invoke (inner blob)
	Blob []byte `json:"blob"`
	Arg  []byte `json:"arg"`
	Gas  uint64 `json:"gas"`
	PC   uint32 `json:"pc"`
	Regs []uint64
}

var c03Hostile = []uint64{0, 1, 0x7F, 0x80, 0xFF, 0x100, 0xFFFF, 0x10000, 0xFFFFFF, 0x1000000, 0xFFFFFFFF, 0x100000000, 1 << 56, ^uint64(0)}

func c03LE(v uint64, n int) []byte {
	b := make([]byte, n)
	for i := range b {
		b[i] = byte(v >> (8 * uint(i)))
	}
	return b
}

// inner program blob with possibly lying length fields
func c03GenInnerBlob(rt *rapid.T) []byte {
	switch rapid.IntRange(0, 5).Draw(rt, "ik") {
	case 0:
		return rapid.SliceOfN(rapid.Byte(), 0, 64).Draw(rt, "raw")
	case 1: // valid program then truncation / bit flips
		code, k, jt, z := vpGenProgram(rt, true, 10)
		b := vpAssemble(code, k, jt, z)
		switch rapid.IntRange(0, 3).Draw(rt, "mut") {
		case 0:
			if len(b) > 0 {
				b = b[:rapid.IntRange(0, len(b)-1).Draw(rt, "trunc")]
			}
		case 1:
			if len(b) > 0 {
				i := rapid.IntRange(0, len(b)-1).Draw(rt, "flipat")
				b[i] ^= 1 << uint(rapid.IntRange(0, 7).Draw(rt, "bit"))
			}
		case 2:
			b = append(b, rapid.SliceOfN(rapid.Byte(), 1, 9).Draw(rt, "extra")...)
		}
		return b
	default: // structured with hostile length fields
		code, k, jt, z := vpGenProgram(rt, true, 6)
		nj := uint64(len(jt))
		nc := uint64(len(code))
		if rapid.IntRange(0, 2).Draw(rt, "lie_j") == 0 {
			nj = rapid.SampledFrom(c03Hostile).Draw(rt, "nj")
		}
		if rapid.IntRange(0, 2).Draw(rt, "lie_z") == 0 {
			z = int(rapid.SampledFrom([]int{0, 1, 8, 9, 16, 255}).Draw(rt, "z"))
		}
		if rapid.IntRange(0, 1).Draw(rt, "lie_c") == 0 {
			nc = rapid.SampledFrom(append([]uint64{nc + 1, nc - 1}, c03Hostile...)).Draw(rt, "nc")
		}
		if z > 1 && rapid.IntRange(0, 4).Draw(rt, "wrap_jz") == 0 {
			// |j| chosen so that |j|*z wraps modulo 2^64 to a small number: the jump-table byte
			// count then "fits" the data although the declared entry count is astronomically large;
			// the code is a dynamic jump that indexes far into that table
			nj = ^uint64(0)/uint64(z) + 1 + uint64(rapid.IntRange(0, 8).Draw(rt, "wrapoff"))
			w := nj * uint64(z) // wraps
			if w <= 64 {
				imm := uint32(rapid.SampledFrom([]int{2, 4, 2002, 0x7FFFFFFE}).Draw(rt, "wrapimm"))
				wcode := []byte{50, 0x02, byte(imm), byte(imm >> 8), byte(imm >> 16), byte(imm >> 24), 0}
				var wb []byte
				wb = append(wb, vpNatural(nj)...)
				wb = append(wb, byte(z))
				wb = append(wb, vpNatural(uint64(len(wcode)))...)
				wb = append(wb, make([]byte, w)...)
				wb = append(wb, wcode...)
				return append(wb, 0x41) // instruction starts at 0 and 6
			}
		}
		var b []byte
		b = append(b, vpNatural(nj)...)
		b = append(b, byte(z))
		b = append(b, vpNatural(nc)...)
		for _, e := range jt {
			b = append(b, c03LE(e, min(z, 8))...)
		}
		b = append(b, code...)
		kb := make([]byte, (len(code)+7)/8)
		for i, bit := range k {
			if bit {
				kb[i/8] |= 1 << (uint(i) % 8)
			}
		}
		return append(b, kb...)
	}
}

// standard program blob (A.37) with possibly lying header
func c03GenStdBlob(rt *rapid.T) (blob []byte, declared uint64) {
	inner := c03GenInnerBlob(rt)
	o := rapid.SliceOfN(rapid.Byte(), 0, 40).Draw(rt, "o")
	w := rapid.SliceOfN(rapid.Byte(), 0, 40).Draw(rt, "w")
	ol, wl, cl := uint64(len(o)), uint64(len(w)), uint64(len(inner))
	z := uint64(rapid.SampledFrom([]int{0, 0, 0, 1, 2, 16, 300}).Draw(rt, "z"))
	s := uint64(rapid.SampledFrom([]int{0, 0, 1, 4096, 4097, 70000}).Draw(rt, "s"))
	if rapid.IntRange(0, 3).Draw(rt, "lie") == 0 {
		switch rapid.IntRange(0, 4).Draw(rt, "which") {
		case 0:
			ol = rapid.SampledFrom(c03Hostile).Draw(rt, "ol") & 0xFFFFFF
		case 1:
			wl = rapid.SampledFrom(c03Hostile).Draw(rt, "wl") & 0xFFFFFF
		case 2:
			cl = rapid.SampledFrom(c03Hostile).Draw(rt, "cl") & 0xFFFFFFFF
		case 3:
			z = rapid.SampledFrom([]uint64{0xFFFF, 0x8000, 4096}).Draw(rt, "zbig")
		case 4:
			s = rapid.SampledFrom([]uint64{0xFFFFFF, 0x800000}).Draw(rt, "sbig")
		}
	}
	var b []byte
	b = append(b, c03LE(ol, 3)...)
	b = append(b, c03LE(wl, 3)...)
	b = append(b, c03LE(z, 2)...)
	b = append(b, c03LE(s, 3)...)
	b = append(b, o...)
	b = append(b, w...)
	b = append(b, c03LE(cl, 4)...)
	b = append(b, inner...)
	if rapid.IntRange(0, 9).Draw(rt, "cut") == 0 && len(b) > 0 {
		b = b[:rapid.IntRange(0, len(b)-1).Draw(rt, "cutat")]
	}
	return b, ol + wl + z*4096 + s
}

func c03Gen(rt *rapid.T) c03Input {
	in := c03Input{Mode: rapid.SampledFrom([]int{0, 1, 1, 1, 2, 2, 3}).Draw(rt, "mode")}
	switch in.Mode {
	case 0:
		in.Blob = c03GenInnerBlob(rt)
	case 1:
		in.Blob, _ = c03GenStdBlob(rt)
		in.Arg = rapid.SliceOfN(rapid.Byte(), 0, 5000).Draw(rt, "arg")
		if len(in.Arg) > 200 && rapid.IntRange(0, 3).Draw(rt, "shortarg") != 0 {
			in.Arg = in.Arg[:rapid.IntRange(0, 200).Draw(rt, "arglen")]
		}
		in.PC = rapid.SampledFrom([]uint32{0, 5, 10, 15, 3, 0xFFFFFFFF}).Draw(rt, "pc")
		in.Gas = rapid.SampledFrom([]uint64{0, 1, 10, 1000, 50000}).Draw(rt, "gas")
	case 2:
		in.Blob = c03GenInnerBlob(rt)
		in.PC = uint32(rapid.SampledFrom([]int{0, 0, 1, 5, 1000}).Draw(rt, "pc"))
		in.Gas = rapid.SampledFrom([]uint64{0, 1, 10, 1000, 50000, 1 << 63, ^uint64(0)}).Draw(rt, "gas")
		for i := 0; i < 13; i++ {
			in.Regs = append(in.Regs, vpGenU64(rt, "ireg"))
		}
	}
	if in.Mode == 3 {
		// hostile (pointer, length) pairs for the halt output range and a memory-reading host call:
		// valid pointers with lengths up to 2^64-1, sums that wrap 2^64 / 2^32, unmapped pointers
		ptr := rapid.SampledFrom([]uint64{0x20000, 0xFEFDF000, 0xFEFE0000 - 1, 0xFEFF0000, 0, 0xFFFFFFFF, 1 << 32, 1 << 63, ^uint64(0)}).Draw(rt, "hptr")
		ln := rapid.SampledFrom([]uint64{0, 1, 4096, 4097, 1 << 24, 1<<32 - 1, 1 << 32, 1 << 40, 1 << 63, ^uint64(0), ^uint64(0) - 0x20000 + 2, -ptr, 1 - ptr, 4096 - ptr}).Draw(rt, "hlen")
		in.Regs = []uint64{ptr, ln, uint64(rapid.IntRange(0, 2).Draw(rt, "hvariant"))}
		in.Gas = 1000
	}
	return in
}

// c03Declared recomputes what a standard blob declares (header fields), without
// trusting the implementation's parser.
func c03Declared(b []byte) uint64 {
	if len(b) < 11 {
		return 0
	}
	le := func(x []byte) uint64 {
		var v uint64
		for i, y := range x {
			v |= uint64(y) << (8 * uint(i))
		}
		return v
	}
	return le(b[0:3]) + le(b[3:6]) + le(b[6:8])*4096 + le(b[8:11])
}

func c03Guarded(c *kit.Case, what string, limit uint64, f func()) {
	var before, after runtime.MemStats
	done := make(chan string, 1)
	runtime.ReadMemStats(&before)
	go func() {
		defer func() {
			if r := recover(); r != nil {
				done <- fmt.Sprintf("Go runtime panic in %s: %v", what, r)
				return
			}
			done <- ""
		}()
		f()
	}()
	select {
	case msg := <-done:
		if msg != "" {
			c.Failf("%s", msg)
		}
	case <-time.After(240 * time.Second):
		c.Failf("%s did not return within 240 s for a gas limit <= 50000 (loop without consuming gas?)", what)
	}
	runtime.ReadMemStats(&after)
	if d := after.TotalAlloc - before.TotalAlloc; d > limit {
		c.Failf("%s allocated %d bytes, bound is %d", what, d, limit)
	}
}

func c03Check(c *kit.Case, in c03Input) {
	stubState := &vpState{Host: []vpHostAct{{Kind: 0, GasFee: 10, SetR7: 0}}}
	switch in.Mode {
	case 0:
		c.Class("deblob")
		var er ExitReason
		c03Guarded(c, "DeBlobProgramCode", 1<<20+160*uint64(len(in.Blob)), func() {
			_, er = DeBlobProgramCode(append([]byte(nil), in.Blob...))
		})
		if er == ExitContinue {
			c.Class("deblob_accepted")
			c.NonTrivial()
		} else if len(in.Blob) > 3 {
			c.NonTrivial()
		}
	case 1:
		c.Class("psi_m")
		if in.Gas > 50000 {
			return
		}
		declared := c03Declared(in.Blob)
		limit := uint64(64<<20) + 64*(uint64(len(in.Blob))+declared+uint64(len(in.Arg)))
		var res Psi_M_ReturnType
		log := &vpStubLog{}
		c03Guarded(c, "Psi_M", limit, func() {
			res = Psi_M(StandardCodeFormat(append([]byte(nil), in.Blob...)), ProgramCounter(in.PC), types.Gas(in.Gas), Argument(in.Arg), vpImplOmegas(stubState, log), HostCallArgs{})
		})
		switch v := res.ReasonOrBytes.(type) {
		case ExitReasonType:
			c.Class(fmt.Sprintf("psi_m_result_%d", v))
			if v != PANIC && v != OUT_OF_GAS {
				c.Failf("Psi_M returned exit reason %d; the defined outcomes are panic, out-of-gas or a byte string", v)
			}
		case ExitReason:
			// early rejection path returns the ExitReason-typed panic constant
			c.Class("psi_m_rejected_blob")
			if v != ExitPanic {
				c.Failf("Psi_M returned ExitReason %v", v)
			}
		case []byte, types.ByteSequence:
			c.Class("psi_m_halt_bytes")
		case nil:
			c.Class("psi_m_halt_empty")
		default:
			c.Failf("Psi_M returned an undefined outcome of type %T", v)
		}
		if uint64(res.Gas) > in.Gas {
			c.Failf("Psi_M reports %d gas used for a limit of %d", uint64(res.Gas), in.Gas)
		}
		if len(in.Blob) >= 15 {
			c.NonTrivial()
		}
	case 3:
		c.Class("hostile_range")
		if len(in.Regs) < 3 {
			return
		}
		ptr, ln, variant := in.Regs[0], in.Regs[1], in.Regs[2]
		var code []byte
		var k []bool
		emit := func(b ...byte) {
			for i, x := range b {
				code = append(code, x)
				k = append(k, i == 0)
			}
		}
		if variant >= 1 { // log host call (id 100) reads [ω10, +ω11); ω7 = level 0..4 so that it really reads
			emit(append([]byte{20, 10}, c03LE(ptr, 8)...)...)
			emit(append([]byte{20, 11}, c03LE(ln, 8)...)...)
			emit(51, 7, 1)
			emit(10, 100)
		}
		emit(append([]byte{20, 7}, c03LE(ptr, 8)...)...)
		emit(append([]byte{20, 8}, c03LE(ln, 8)...)...)
		emit(50, 0) // jump_ind ω0 (= 2^32-2^16): halt with output range (ω7, ω8)
		inner := vpAssemble(code, k, nil, 0)
		var blob []byte
		blob = append(blob, c03LE(0, 3)...)
		blob = append(blob, c03LE(4096, 3)...)
		blob = append(blob, c03LE(0, 2)...)
		blob = append(blob, c03LE(4096, 3)...)
		blob = append(blob, make([]byte, 4096)...)
		blob = append(blob, c03LE(uint64(len(inner)), 4)...)
		blob = append(blob, inner...)
		var res Psi_M_ReturnType
		c03Guarded(c, "Psi_M(halt/host range)", uint64(96<<20), func() {
			res = Psi_M(StandardCodeFormat(blob), 0, types.Gas(in.Gas), Argument{1, 2, 3}, IsAuthorizedOmegas, HostCallArgs{})
		})
		c.NonTrivial()
		switch v := res.ReasonOrBytes.(type) {
		case []byte:
			c.Class("hostile_range_output_bytes")
			if uint64(len(v)) > ln {
				c.Failf("halt returned %d output bytes for a requested length of %d", len(v), ln)
			}
		case nil:
			c.Class("hostile_range_output_empty")
		case ExitReasonType:
			c.Class(fmt.Sprintf("hostile_range_exit_%d", v))
		}
	case 2:
		c.Class("inner_machine")
		// outer memory: blob at page 32.., register block at page 64
		mem := &Memory{Pages: map[uint32]*Page{}}
		for a := uint32(32); a < 32+uint32(len(in.Blob)/ZP)+1; a++ {
			mem.Pages[a] = &Page{Value: make([]byte, ZP), Access: MemoryReadWrite}
		}
		mem.Pages[64] = &Page{Value: make([]byte, ZP), Access: MemoryReadWrite}
		mem.Write(32*ZP, in.Blob)
		var blk []byte
		blk = append(blk, c03LE(in.Gas, 8)...)
		for i := 0; i < 13; i++ {
			var r uint64
			if i < len(in.Regs) {
				r = in.Regs[i]
			}
			blk = append(blk, c03LE(r, 8)...)
		}
		mem.Write(64*ZP, blk)
		regs := Registers{}
		gas := Gas(1000)
		add := HostCallArgs{}
		add.IntegratedPVMMap = IntegratedPVMMap{}
		outerProg := &Program{}
		add.Program = outerProg
		var r7 uint64
		limit := uint64(16<<20) + 200*uint64(len(in.Blob))
		c03Guarded(c, "machine+invoke", limit, func() {
			regs[7], regs[8], regs[9] = 32*ZP, uint64(len(in.Blob)), uint64(in.PC)
			out := machine(OmegaInput{VM: &VMState{Registers: &regs, Memory: mem, Gas: &gas}, Addition: add, HostCalls: RefineOmegas})
			r7 = regs[7]
			if out.ExitReason != ExitContinue || regs[7] >= HUH {
				return
			}
			if in.Gas > 50000 {
				// cap the inner gas actually run (an honest 2^63 gas loop would just burn time)
				copy(mem.Pages[64].Value[0:8], c03LE(50000, 8))
			}
			n := regs[7]
			regs[7], regs[8] = n, 64*ZP
			invoke(OmegaInput{VM: &VMState{Registers: &regs, Memory: mem, Gas: &gas}, Addition: out.Addition, HostCalls: RefineOmegas})
		})
		if r7 == HUH {
			c.Class("machine_rejected_blob")
		} else {
			c.Class("machine_accepted_blob")
			c.Class(fmt.Sprintf("invoke_result_%d", regs[7]))
			c.NonTrivial()
			if regs[7] > INNEROOG {
				c.Failf("invoke returned undefined exit kind %d in ω7", regs[7])
			}
		}
	}
}

func TestVerif_C03(t *testing.T) {
	s := kit.Begin(t, "C03")
	defer s.Finish()
	s.EnableSentinel()
	kit.Run(s, "untrusted_program_bytes", kit.N{Quick: 40000, Thorough: 1000000}, c03Gen, c03Check)
}

// FuzzVerif_C03 drives the same generator and oracle with Go's coverage-guided
// fuzzer (thorough tier; see harness/kit/fuzz.go).
func FuzzVerif_C03(f *testing.F) {
	kit.Fuzz(f, "C03", "untrusted_program_bytes", c03Gen, c03Check)
}
