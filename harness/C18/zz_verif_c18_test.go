package ce

// C18: binary Merkle commitments match Gray Paper E.1.
//
// Reference (independent, written from the formulas; H_0 = 32 zero bytes):
//   N(v)   = H_0                                   |v| = 0
//          = v_0                                   |v| = 1
//          = H("node" ++ N(v[:c]) ++ N(v[c:]))     otherwise, c = ceil(|v|/2)        (E.1)
//   T(v,i) = []                                    |v| <= 1
//          = [N(other half)] ++ T(half of i, i - start of that half)  same ceil split (E.5)
//   M_B(v) = H(v_0) if |v| = 1, else N(v)                                            (E.3)
//   C(v)   = [H("leaf" ++ v_i)] padded with H_0 to 2^ceil(log2 max(1,|v|))           (E.7)
//   M(v)   = N(C(v))                                                                 (E.4)
//   J_x(v,i) = T(C(v), 2^x i)[: max(0, ceil(log2 max(1,|v|)) - x)]                   (E.5)
//   L_x(v,i) = [H("leaf" ++ l) | l <- v[2^x i : min(2^x i + 2^x, |v|)]]              (E.6)
// A blob is a byte string; Go's nil and empty slices are the same (empty) blob.
//
// The harness lives in package ce (the only position from which the unexported
// constructMerkleCoPath, the exported work_package.PagedProofs and the exported
// merkle_tree API are all reachable).

import (
	"bytes"
	"fmt"
	"math/bits"
	"os"
	"testing"

	"github.com/New-JAMneration/JAM-Protocol/internal/types"
	"github.com/New-JAMneration/JAM-Protocol/internal/utilities/hash"
	mt "github.com/New-JAMneration/JAM-Protocol/internal/utilities/merkle_tree"
	kit "github.com/New-JAMneration/JAM-Protocol/internal/verifkit"
	"github.com/New-JAMneration/JAM-Protocol/internal/work_package"
	"golang.org/x/crypto/blake2b"
	"golang.org/x/crypto/sha3"
	"pgregory.net/rapid"
)

// ---------------------------------------------------------------- reference

type c18H func([]byte) [32]byte

func c18Blake(b []byte) [32]byte { return blake2b.Sum256(b) }
func c18Keccak(b []byte) [32]byte {
	h := sha3.NewLegacyKeccak256()
	h.Write(b)
	var o [32]byte
	copy(o[:], h.Sum(nil))
	return o
}

func c18Cat(parts ...[]byte) []byte {
	var o []byte
	for _, p := range parts {
		o = append(o, p...)
	}
	return o
}

func c18RefN(v [][]byte, H c18H) []byte {
	switch len(v) {
	case 0:
		return make([]byte, 32)
	case 1:
		return append([]byte{}, v[0]...)
	}
	c := (len(v) + 1) / 2
	h := H(c18Cat([]byte("node"), c18RefN(v[:c], H), c18RefN(v[c:], H)))
	return h[:]
}

// c18RefT: floorSplit=false is the Gray Paper trace; floorSplit=true is the
// variant used ONLY to classify known finding KF-C18-1 (T splits at floor(|v|/2)
// while N, which it calls for the siblings, splits at ceil).
func c18RefT(v [][]byte, i int, H c18H, floorSplit bool) [][]byte {
	if len(v) <= 1 {
		return nil
	}
	c := (len(v) + 1) / 2
	if floorSplit {
		c = len(v) / 2
	}
	if i < c {
		return append([][]byte{c18RefN(v[c:], H)}, c18RefT(v[:c], i, H, floorSplit)...)
	}
	return append([][]byte{c18RefN(v[:c], H)}, c18RefT(v[c:], i-c, H, floorSplit)...)
}

func c18RefMB(v [][]byte, H c18H) [32]byte {
	if len(v) == 1 {
		return H(v[0])
	}
	var o [32]byte
	copy(o[:], c18RefN(v, H))
	return o
}

// ceil(log2(max(1,n)))
func c18CeilLog2(n int) int {
	if n <= 1 {
		return 0
	}
	return bits.Len(uint(n - 1))
}

func c18RefC(v [][]byte, H c18H) [][]byte {
	size := 1 << uint(c18CeilLog2(len(v)))
	out := make([][]byte, size)
	for i := range out {
		if i < len(v) {
			h := H(c18Cat([]byte("leaf"), v[i]))
			out[i] = h[:]
		} else {
			out[i] = make([]byte, 32)
		}
	}
	return out
}

func c18RefM(v [][]byte, H c18H) [32]byte {
	var o [32]byte
	copy(o[:], c18RefN(c18RefC(v, H), H))
	return o
}

func c18RefJx(x int, v [][]byte, i int, H c18H) [][]byte {
	t := c18RefT(c18RefC(v, H), i<<uint(x), H, false)
	keep := c18CeilLog2(len(v)) - x
	if keep < 0 {
		keep = 0
	}
	return t[:keep]
}

func c18RefLx(x int, v [][]byte, i int, H c18H) [][]byte {
	lo, hi := i<<uint(x), (i+1)<<uint(x)
	if hi > len(v) {
		hi = len(v)
	}
	var out [][]byte
	for j := lo; j < hi; j++ {
		h := H(c18Cat([]byte("leaf"), v[j]))
		out = append(out, h[:])
	}
	return out
}

// c18Fold: hash the element up a trace (root-to-leaf order, as T returns it) of
// a ceil-split tree over n positions; written from N alone, independent of c18RefT.
func c18Fold(n, i int, leaf []byte, trace [][]byte, H c18H) ([]byte, bool) {
	if n <= 1 {
		return leaf, len(trace) == 0
	}
	if len(trace) == 0 {
		return nil, false
	}
	c := (n + 1) / 2
	if i < c {
		l, ok := c18Fold(c, i, leaf, trace[1:], H)
		h := H(c18Cat([]byte("node"), l, trace[0]))
		return h[:], ok
	}
	r, ok := c18Fold(n-c, i-c, leaf, trace[1:], H)
	h := H(c18Cat([]byte("node"), trace[0], r))
	return h[:], ok
}

// ------------------------------------------------------------------ input

type c18Input struct {
	Elems  [][]byte `json:"elems"`  // null = nil element, "" = empty non-nil element
	Keccak bool     `json:"keccak"` // hash function: Blake2b-256 or Keccak-256
	// single-element change: index and replacement (ignored when Elems is empty)
	ChIdx int    `json:"ch_idx"`
	ChTo  []byte `json:"ch_to"`
}

func (in c18Input) hashes() (func(types.ByteSequence) types.OpaqueHash, c18H) {
	if in.Keccak {
		return hash.KeccakHash, c18Keccak
	}
	return hash.Blake2bHash, c18Blake
}

func c18ToSeq(e [][]byte) []types.ByteSequence {
	out := make([]types.ByteSequence, len(e))
	for i, b := range e {
		if b != nil {
			out[i] = append(types.ByteSequence{}, b...)
		}
	}
	return out
}

func c18Denil(e [][]byte) [][]byte {
	out := make([][]byte, len(e))
	for i, b := range e {
		out[i] = append([]byte{}, b...)
	}
	return out
}

func c18HasNil(e [][]byte) bool {
	for _, b := range e {
		if b == nil {
			return true
		}
	}
	return false
}

func c18SeqEq(a []types.ByteSequence, b [][]byte) bool {
	if len(a) != len(b) {
		return false
	}
	for i := range a {
		if !bytes.Equal(a[i], b[i]) {
			return false
		}
	}
	return true
}

func c18HashesEq(a []types.OpaqueHash, b [][]byte) bool {
	if len(a) != len(b) {
		return false
	}
	for i := range a {
		if !bytes.Equal(a[i][:], b[i]) {
			return false
		}
	}
	return true
}

// c18PathHasOddSplit: along the Gray Paper descent to position i some
// sub-sequence longer than one element has odd length (floor != ceil).
func c18PathHasOddSplit(n, i int) bool {
	for n > 1 {
		if n%2 == 1 {
			return true
		}
		c := (n + 1) / 2
		if i < c {
			n = c
		} else {
			n, i = n-c, i-c
		}
	}
	return false
}

type c18Known struct{ m map[string]string }

func (k *c18Known) add(id, d string) {
	if _, ok := k.m[id]; !ok {
		k.m[id] = d
	}
}

func (k *c18Known) flush(c *kit.Case) {
	for _, id := range []string{"KF-C18-1", "KF-C18-2"} {
		if d, ok := k.m[id]; ok {
			c.KnownNote(id, d)
		}
	}
}

var c18DevNull *os.File

// VerifyMerkleProof prints a line per call; keep the shard logs small.
func c18Quiet(f func() bool) bool {
	if c18DevNull == nil {
		c18DevNull, _ = os.OpenFile(os.DevNull, os.O_WRONLY, 0)
	}
	if c18DevNull == nil {
		return f()
	}
	saved := os.Stdout
	os.Stdout = c18DevNull
	defer func() { os.Stdout = saved }()
	return f()
}

// -------------------------------------------------------------------- check

func c18Check(c *kit.Case, in c18Input) {
	if len(in.Elems) > 200 {
		return
	}
	hf, H := in.hashes()
	n := len(in.Elems)
	ref := c18Denil(in.Elems) // nil and empty are the same blob
	hasNil := c18HasNil(in.Elems)
	known := &c18Known{m: map[string]string{}}
	impl := func() []types.ByteSequence { return c18ToSeq(in.Elems) } // fresh copy per call
	implDenil := func() []types.ByteSequence { return c18ToSeq(ref) }

	// classes / non-trivial rule
	pow2 := n > 0 && n&(n-1) == 0
	hasEmpty := false
	for _, e := range in.Elems {
		if len(e) == 0 {
			hasEmpty = true
		}
	}
	if !pow2 {
		c.Class("len_not_pow2")
	}
	if n == 0 {
		c.Class("len_0")
	}
	if n%2 == 1 && n > 1 {
		c.Class("len_odd_gt1")
	}
	if hasNil {
		c.Class("has_nil")
	}
	if hasEmpty && !hasNil {
		c.Class("has_empty_no_nil")
	}
	if n > 0 && len(in.Elems[0]) == 0 {
		c.Class("first_empty_or_nil")
	}
	if in.Keccak {
		c.Class("keccak")
	} else {
		c.Class("blake2b")
	}
	if !pow2 || hasEmpty {
		c.NonTrivial()
	}

	nilExplains := func(what string, again func() bool) bool {
		// KF-C18-2: the divergence is there only because an element is a nil slice;
		// the same sequence with empty non-nil slices agrees with the reference.
		if hasNil && again() {
			known.add("KF-C18-2", fmt.Sprintf("%s over %d elements with a nil element differs from the Gray Paper value; equal once nil is replaced by an empty non-nil slice", what, n))
			return true
		}
		return false
	}

	// ---- N
	wantN := c18RefN(ref, H)
	gotN := mt.N(impl(), hf)
	if !bytes.Equal(gotN, wantN) {
		if !nilExplains("N", func() bool { return bytes.Equal(mt.N(implDenil(), hf), wantN) }) {
			c.Failf("N over %d elements = %x, reference %x", n, gotN, wantN)
		}
	}
	// ---- M_B
	wantMB := c18RefMB(ref, H)
	gotMB := mt.Mb(impl(), hf)
	if gotMB != types.OpaqueHash(wantMB) {
		if !nilExplains("Mb", func() bool { return mt.Mb(implDenil(), hf) == types.OpaqueHash(wantMB) }) {
			c.Failf("Mb over %d elements = %x, reference %x", n, gotMB, wantMB)
		}
	}
	// ---- C, M (leaves are hashed first: nil cannot matter)
	wantC := c18RefC(ref, H)
	if gotC := mt.C(impl(), hf); !c18HashesEq(gotC, wantC) {
		c.Failf("C over %d elements: %d entries %x, reference %d entries %x", n, len(gotC), gotC, len(wantC), wantC)
	}
	wantM := c18RefM(ref, H)
	gotM := mt.M(impl(), hf)
	if gotM != types.OpaqueHash(wantM) {
		c.Failf("M over %d elements = %x, reference %x", n, gotM, wantM)
	}

	// ---- single-element change => the roots change
	if n > 0 {
		j := ((in.ChIdx % n) + n) % n
		if !bytes.Equal(in.ChTo, ref[j]) {
			ch := make([][]byte, n)
			copy(ch, in.Elems)
			ch[j] = append([]byte{}, in.ChTo...)
			chRef := c18Denil(ch)
			mb2, m2 := mt.Mb(c18ToSeq(ch), hf), mt.M(c18ToSeq(ch), hf)
			if m2 != types.OpaqueHash(c18RefM(chRef, H)) {
				c.Failf("M after changing element %d = %x, reference %x", j, m2, c18RefM(chRef, H))
			}
			if m2 == gotM {
				c.Failf("M unchanged (%x) after changing element %d from %x to %x", m2, j, ref[j], in.ChTo)
			}
			if mb2 != types.OpaqueHash(c18RefMB(chRef, H)) {
				if !nilExplains("Mb(after change)", func() bool { return mt.Mb(c18ToSeq(chRef), hf) == types.OpaqueHash(c18RefMB(chRef, H)) }) {
					c.Failf("Mb after changing element %d = %x, reference %x", j, mb2, c18RefMB(chRef, H))
				}
			} else if mb2 == gotMB && gotMB == types.OpaqueHash(wantMB) {
				c.Failf("Mb unchanged (%x) after changing element %d from %x to %x", mb2, j, ref[j], in.ChTo)
			}
		}
	}

	// ---- T and constructMerkleCoPath, every index
	for i := 0; i < n; i++ {
		wantT := c18RefT(ref, i, H, false)
		odd := c18PathHasOddSplit(n, i)
		floorT := c18RefT(ref, i, H, true)
		// classify compares a result with enc(Gray Paper trace); a mismatch is a violation
		// unless it is exactly one of the two listed defects.
		classify := func(what string, got func(seq []types.ByteSequence) [][]byte, first [][]byte, enc func([][]byte) [][]byte) {
			if c18BytesListEq(first, enc(wantT)) {
				return
			}
			if odd && c18BytesListEq(first, enc(floorT)) {
				known.add("KF-C18-1", fmt.Sprintf("%s over %d elements, index %d: the trace is that of a floor(|v|/2) split (does not fold to N(v), which splits at ceil)", what, n, i))
				return
			}
			if hasNil {
				second := got(implDenil())
				if c18BytesListEq(second, enc(wantT)) {
					known.add("KF-C18-2", fmt.Sprintf("%s over %d elements with a nil element differs from the Gray Paper trace; equal once nil is replaced by an empty non-nil slice", what, n))
					return
				}
				if odd && c18BytesListEq(second, enc(floorT)) {
					known.add("KF-C18-1", fmt.Sprintf("%s over %d elements, index %d: floor split", what, n, i))
					known.add("KF-C18-2", fmt.Sprintf("%s over %d elements with a nil element", what, n))
					return
				}
			}
			c.Failf("%s over %d elements, index %d = %x, reference %x", what, n, i, first, enc(wantT))
		}
		ident := func(t [][]byte) [][]byte { return t }
		tImpl := func(seq []types.ByteSequence) [][]byte {
			r := mt.T(seq, types.U32(i), hf)
			out := make([][]byte, len(r))
			for k := range r {
				out[k] = r[k]
			}
			return out
		}
		gotT := tImpl(impl())
		classify("T", tImpl, gotT, ident)

		// fold check in the property's own words: hashing the element up its trace gives N(v).
		// (Only meaningful when both the trace and the root were not excused above.)
		if c18BytesListEq(gotT, wantT) && bytes.Equal(gotN, wantN) {
			root, ok := c18Fold(n, i, ref[i], gotT, H)
			if !ok || !bytes.Equal(root, gotN) {
				c.Failf("folding element %d up T(v,%d) gives %x, N(v) = %x (n=%d)", i, i, root, gotN, n)
			}
		}

		// constructMerkleCoPath: 0x00 ++ entry for every entry of T(s, i, Blake2b); Blake2b only
		if !in.Keccak {
			var cpErr error
			cpImpl := func(seq []types.ByteSequence) [][]byte {
				raw := make([][]byte, len(seq))
				for k := range seq {
					raw[k] = seq[k]
				}
				out, err := constructMerkleCoPath(raw, uint16(i))
				if err != nil {
					cpErr = err
				}
				return [][]byte{out}
			}
			cpEnc := func(t [][]byte) [][]byte {
				out := []byte{}
				for _, e := range t {
					out = append(out, 0x00)
					out = append(out, e...)
				}
				return [][]byte{out}
			}
			gotCP := cpImpl(impl())
			if cpErr != nil {
				c.Failf("constructMerkleCoPath(%d elements, %d): %v", n, i, cpErr)
			}
			classify("constructMerkleCoPath", cpImpl, gotCP, cpEnc)
		}
	}
	// out-of-range index must be an error, not a panic
	if !in.Keccak {
		raw := make([][]byte, n)
		for k, e := range impl() {
			raw[k] = e
		}
		if _, err := constructMerkleCoPath(raw, uint16(n)); err == nil {
			c.Failf("constructMerkleCoPath accepted index %d for %d segments", n, n)
		}
	}

	// ---- one caller-owned slice handed to several calls, with the other hash function and an
	// in-place edit between them: every result depends on the contents at the time of the call only
	if n > 0 {
		shared := impl()
		j := ((in.ChIdx % n) + n) % n
		hf2, H2 := hash.KeccakHash, c18H(c18Keccak)
		if in.Keccak {
			hf2, H2 = hash.Blake2bHash, c18Blake
		}
		sweep := func(what string, cur [][]byte, f func(types.ByteSequence) types.OpaqueHash, HH c18H) {
			for x := 0; x <= 6; x += 2 {
				pages := (n + (1 << uint(x)) - 1) >> uint(x)
				for i := 0; i < pages; i++ {
					if gotJ, wantJ := mt.Jx(types.U8(x), shared, types.U32(i), f), c18RefJx(x, cur, i, HH); !c18HashesEq(gotJ, wantJ) {
						c.Failf("%s: J_%d over %d elements, page %d = %x, reference %x", what, x, n, i, gotJ, wantJ)
					}
					if gotL, wantL := mt.Lx(types.U8(x), shared, types.U32(i), f), c18RefLx(x, cur, i, HH); !c18HashesEq(gotL, wantL) {
						c.Failf("%s: L_%d over %d elements, page %d = %x, reference %x", what, x, n, i, gotL, wantL)
					}
				}
			}
			if got, want := mt.M(shared, f), c18RefM(cur, HH); got != types.OpaqueHash(want) {
				c.Failf("%s: M over %d elements = %x, reference %x", what, n, got, want)
			}
			if got, want := mt.C(shared, f), c18RefC(cur, HH); !c18HashesEq(got, want) {
				c.Failf("%s: C over %d elements = %x, reference %x", what, n, got, want)
			}
			if !c18HasNil(in.Elems) && in.ChTo != nil {
				if got, want := mt.N(shared, f), c18RefN(cur, HH); !bytes.Equal(got, want) {
					c.Failf("%s: N over %d elements = %x, reference %x", what, n, got, want)
				}
				if got, want := mt.Mb(shared, f), c18RefMB(cur, HH); got != types.OpaqueHash(want) {
					c.Failf("%s: Mb over %d elements = %x, reference %x", what, n, got, want)
				}
			}
		}
		sweep("same slice, first use", ref, hf, H)
		sweep("same slice, other hash function", ref, hf2, H2)
		if !bytes.Equal(in.ChTo, ref[j]) {
			c.Class("same_slice_edited_in_place")
			shared[j] = append(types.ByteSequence{}, in.ChTo...)
			ch := make([][]byte, n)
			copy(ch, ref)
			ch[j] = append([]byte{}, in.ChTo...)
			sweep(fmt.Sprintf("same slice after element %d was replaced in place", j), ch, hf, H)
			sweep(fmt.Sprintf("same slice after element %d was replaced in place, other hash function", j), ch, hf2, H2)
		}
	}

	// ---- J_x, L_x, VerifyMerkleProof: every page exponent 0..6, every page
	L := c18CeilLog2(n)
	for x := 0; x <= 6; x++ {
		pages := (n + (1 << uint(x)) - 1) >> uint(x)
		if n == 0 {
			pages = 1 // page 0 of the empty sequence: empty path, no leaves
		}
		for i := 0; i < pages; i++ {
			wantJ, wantL := c18RefJx(x, ref, i, H), c18RefLx(x, ref, i, H)
			gotJ := mt.Jx(types.U8(x), impl(), types.U32(i), hf)
			gotL := mt.Lx(types.U8(x), impl(), types.U32(i), hf)
			if !c18HashesEq(gotJ, wantJ) {
				c.Failf("J_%d over %d elements, page %d = %x, reference %x", x, n, i, gotJ, wantJ)
			}
			if !c18HashesEq(gotL, wantL) {
				c.Failf("L_%d over %d elements, page %d = %x, reference %x", x, n, i, gotL, wantL)
			}
			if n == 0 {
				continue
			}
			// fold: the page's leaves (padded with H_0 to the page subtree) hashed up J_x give M(v)
			psz := 1 << uint(x)
			if L < x {
				psz = 1 << uint(L)
			}
			leaves := make([][]byte, psz)
			for k := range leaves {
				if k < len(gotL) {
					leaves[k] = gotL[k][:]
				} else {
					leaves[k] = make([]byte, 32)
				}
			}
			cur := c18RefN(leaves, H)
			d := len(gotJ)
			for k := d - 1; k >= 0; k-- {
				var h [32]byte
				if (i>>uint(d-1-k))&1 == 0 {
					h = H(c18Cat([]byte("node"), cur, gotJ[k][:]))
				} else {
					h = H(c18Cat([]byte("node"), gotJ[k][:], cur))
				}
				cur = h[:]
			}
			if !bytes.Equal(cur, gotM[:]) {
				c.Failf("page %d (x=%d) of %d elements: L_x leaves folded up J_x give %x, M(v) = %x", i, x, n, cur, gotM)
			}
			if x == 0 {
				leaf := in.Elems[i]
				if !c18Quiet(func() bool { return mt.VerifyMerkleProof(leaf, gotJ, i, hf, gotM) }) {
					c.Failf("VerifyMerkleProof rejects element %d of %d with J_0 and M(v)", i, n)
				}
				bad := append(append([]byte{}, leaf...), 0x01)
				if c18Quiet(func() bool { return mt.VerifyMerkleProof(bad, gotJ, i, hf, gotM) }) {
					c.Failf("VerifyMerkleProof accepts a different leaf at %d of %d", i, n)
				}
				if n > 1 && !bytes.Equal(wantC[i], wantC[i^1]) && c18Quiet(func() bool { return mt.VerifyMerkleProof(leaf, gotJ, i^1, hf, gotM) }) {
					c.Failf("VerifyMerkleProof accepts element %d under index %d (n=%d)", i, i^1, n)
				}
			}
		}
	}
	known.flush(c)
}

func c18BytesListEq(a, b [][]byte) bool {
	if len(a) != len(b) {
		return false
	}
	for i := range a {
		if !bytes.Equal(a[i], b[i]) {
			return false
		}
	}
	return true
}

// ------------------------------------------------------------ PagedProofs

type c18PagedIn struct {
	Prefixes [][]byte `json:"prefixes"` // segment k = Prefixes[k] ++ zeros (4104 bytes)
}

func c18RefNatural(x uint64) []byte { // GP C.6, lengths here are < 2^14
	if x < 128 {
		return []byte{byte(x)}
	}
	return []byte{0x80 | byte(x>>8), byte(x)}
}

func c18PagedCheck(c *kit.Case, in c18PagedIn) {
	n := len(in.Prefixes)
	if n > 400 {
		return
	}
	segs := make([]types.ExportSegment, n)
	ref := make([][]byte, n)
	for k, p := range in.Prefixes {
		copy(segs[k][:], p)
		ref[k] = append([]byte{}, segs[k][:]...)
	}
	if n == 0 {
		c.Class("paged_len_0")
	} else if n%64 == 0 {
		c.Class("paged_len_multiple_of_64")
	} else {
		c.Class("paged_len_other")
	}
	if n > 64 {
		c.Class("paged_multi_page")
	}
	if n == 0 || n&(n-1) != 0 {
		c.NonTrivial()
	}
	got, err := work_package.PagedProofs(segs)
	if err != nil {
		c.Failf("PagedProofs(%d segments) failed: %v", n, err)
	}
	pages := (n + 63) / 64
	if len(got) != pages {
		c.Failf("PagedProofs(%d segments) returned %d pages, expected ceil(n/64) = %d", n, len(got), pages)
	}
	covered := 0
	for i := 0; i < pages; i++ {
		J, L := c18RefJx(6, ref, i, c18Blake), c18RefLx(6, ref, i, c18Blake)
		want := c18RefNatural(uint64(len(J)))
		for _, h := range J {
			want = append(want, h...)
		}
		want = append(want, c18RefNatural(uint64(len(L)))...)
		for _, h := range L {
			want = append(want, h...)
		}
		used := len(want)
		want = append(want, make([]byte, types.SegmentSize-used)...)
		if !bytes.Equal(got[i][:], want) {
			d := 0
			for d < len(want) && got[i][d] == want[d] {
				d++
			}
			c.Failf("PagedProofs(%d segments) page %d differs from E(|J_6|,J_6,|L_6|,L_6)++zeros at byte %d (|J|=%d |L|=%d): got %x.. want %x..",
				n, i, d, len(J), len(L), got[i][d:min(d+40, len(want))], want[d:min(d+40, len(want))])
		}
		covered += len(L)
	}
	if covered != n {
		c.Failf("harness self-check: pages cover %d leaves of %d", covered, n)
	}
}

// --------------------------------------------------------------- generators

func c18GenElem(rt *rapid.T, style int) []byte {
	switch style {
	case 0:
		return nil
	case 1:
		return []byte{}
	case 2:
		return rapid.SliceOfN(rapid.Byte(), 32, 32).Draw(rt, "e32")
	case 4:
		return make([]byte, 32) // the zero hash as DATA (zero-extended pieces, H_0-looking elements)
	default:
		l := rapid.IntRange(1, 40).Draw(rt, "el")
		return rapid.SliceOfN(rapid.Byte(), l, l).Draw(rt, "e")
	}
}

func c18Gen(maxLen int) func(rt *rapid.T) c18Input {
	return func(rt *rapid.T) c18Input {
		n := rapid.OneOf(rapid.IntRange(0, maxLen), rapid.IntRange(0, 9),
			rapid.SampledFrom([]int{0, 1, 2, 3, 5, 7, 8, 9, 15, 16, 17, 31, 32, 33, 63, 64, 65})).Draw(rt, "n")
		if n > maxLen {
			n = maxLen
		}
		// case-level mode (DESIGN: random / empty / nil / first element empty)
		mode := rapid.SampledFrom([]string{"random", "random", "random", "hashes", "mixed_empty", "mixed_nil", "first_empty", "first_nil", "all_empty", "all_nil", "zero_tail", "zero_runs"}).Draw(rt, "mode")
		zeroFrom := rapid.IntRange(0, n).Draw(rt, "zero_from")
		in := c18Input{Keccak: rapid.Bool().Draw(rt, "keccak")}
		in.Elems = make([][]byte, n)
		for i := 0; i < n; i++ {
			style := 3
			switch mode {
			case "hashes":
				style = 2
			case "mixed_empty":
				style = rapid.SampledFrom([]int{1, 3, 3, 2}).Draw(rt, "st")
			case "mixed_nil":
				style = rapid.SampledFrom([]int{0, 1, 3, 3, 2}).Draw(rt, "st")
			case "first_empty":
				if i == 0 {
					style = 1
				}
			case "first_nil":
				if i == 0 {
					style = 0
				}
			case "zero_tail": // data followed by a run of 32-zero-byte elements of any length (not only powers of two)
				if i >= zeroFrom {
					style = 4
				}
			case "zero_runs":
				style = rapid.SampledFrom([]int{4, 4, 4, 3}).Draw(rt, "st")
			case "all_empty":
				style = 1
			case "all_nil":
				style = 0
			}
			in.Elems[i] = c18GenElem(rt, style)
		}
		if n > 0 {
			in.ChIdx = rapid.IntRange(0, n-1).Draw(rt, "chidx")
			in.ChTo = c18GenElem(rt, rapid.SampledFrom([]int{1, 2, 3, 3}).Draw(rt, "chst"))
		}
		return in
	}
}

func c18GenPaged(maxLen int) func(rt *rapid.T) c18PagedIn {
	return func(rt *rapid.T) c18PagedIn {
		n := rapid.OneOf(rapid.IntRange(0, maxLen), rapid.SampledFrom([]int{0, 1, 2, 3, 63, 64, 65, 70})).Draw(rt, "n")
		if n > maxLen {
			n = maxLen
		}
		in := c18PagedIn{Prefixes: make([][]byte, n)}
		for i := range in.Prefixes {
			l := rapid.IntRange(0, 6).Draw(rt, "pl")
			in.Prefixes[i] = rapid.SliceOfN(rapid.Byte(), l, l).Draw(rt, "p")
		}
		return in
	}
}

// deterministic element content for the enumerated grid (no randomness)
func c18GridElem(n, style, i int, keccak bool) []byte {
	seed := blake2b.Sum256([]byte(fmt.Sprintf("c18/%d/%d/%d/%v", n, style, i, keccak)))
	l := 1 + int(seed[0])%40
	var e []byte
	for len(e) < l {
		e = append(e, seed[1+len(e)%31])
	}
	return e
}

func TestVerif_C18(t *testing.T) {
	s := kit.Begin(t, "C18")
	defer s.Finish()

	// 1. grid: every length 0..maxLen x 4 element styles x 2 hashes, every index, x = 0..6
	maxLen := s.Pick(40, 70)
	if !kit.EnumSub(s, "grid_all_lengths", c18Check) {
		idx := 0
	grid:
		for n := 0; n <= maxLen; n++ {
			for style := 0; style < 4; style++ { // 0 random, 1 all empty, 2 all nil, 3 first element empty
				for _, keccak := range []bool{false, true} {
					idx++
					if idx%s.NShards != s.Shard {
						continue
					}
					in := c18Input{Keccak: keccak, Elems: make([][]byte, n)}
					for i := 0; i < n; i++ {
						switch {
						case style == 1, style == 3 && i == 0:
							in.Elems[i] = []byte{}
						case style == 2:
							in.Elems[i] = nil
						default:
							in.Elems[i] = c18GridElem(n, style, i, keccak)
						}
					}
					if n > 0 {
						in.ChIdx = (idx * 13) % n
						in.ChTo = []byte("changed")
					}
					if !kit.Each(s, "grid_all_lengths", in, c18Check) {
						break grid
					}
				}
			}
		}
		s.Note("grid_all_lengths: every length 0..%d x {random, all empty, all nil, first empty} x {Blake2b, Keccak} = %d cases, each checked at every index and every page exponent 0..6 (enumerated, not listed under sub_properties)", maxLen, (maxLen+1)*8)
	}

	// 2. PagedProofs on every length 0..maxLen (deterministic content)
	if !kit.EnumSub(s, "paged_all_lengths", c18PagedCheck) {
		for n := 0; n <= s.Pick(70, 130); n++ {
			if n%s.NShards != s.Shard {
				continue
			}
			in := c18PagedIn{Prefixes: make([][]byte, n)}
			for i := range in.Prefixes {
				in.Prefixes[i] = c18GridElem(n, 9, i, false)[:1+i%5]
			}
			if !kit.Each(s, "paged_all_lengths", in, c18PagedCheck) {
				break
			}
		}
	}

	kit.Run(s, "random_sequences", kit.N{Quick: 4000, Thorough: 60000}, c18Gen(maxLen), c18Check)
	kit.Run(s, "paged_proofs_random", kit.N{Quick: 400, Thorough: 6000}, c18GenPaged(s.Pick(70, 200)), c18PagedCheck)
}
