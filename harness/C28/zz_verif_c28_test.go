package telemetry

// C28: the telemetry stream stays aligned with event IDs.
//
// Randomised stress of the REAL tcpClient (real goroutines, real scheduler)
// over a harness-owned in-memory net.Conn injected through the `dialer` hook.
// rapid draws the scenario AS DATA (c28Input); the run is then judged by an
// exact receiver oracle over the bytes each connection accepted and the IDs
// Emit* handed back to the emitters. The oracle shares no code with the
// client: frames, NodeInfo and payloads are decoded/encoded here with
// encoding/binary from the documented layout.
//
// Results depend on the schedule (the harness does not own the Go scheduler):
// the failure message carries the observed history; replaying the same input
// need not reproduce (spec: confirm_replay=false).

import (
	"bytes"
	"context"
	"encoding/binary"
	"errors"
	"fmt"
	"io"
	"log"
	"net"
	"os"
	"runtime"
	"sort"
	"strings"
	"sync"
	"sync/atomic"
	"testing"
	"time"

	kit "github.com/New-JAMneration/JAM-Protocol/internal/verifkit"
	"pgregory.net/rapid"
)

// ---------------------------------------------------------------------------
// Scenario (this IS the replay file)
// ---------------------------------------------------------------------------

type c28ConnScript struct {
	// Positions are in FRAMES the client wrote on this connection (frame 0 is the
	// NodeInfo frame, frame k>=1 the k-th event/Dropped frame) and a part: the client
	// writes every frame as two writes, 0 = the 4-byte length prefix, 1 = the body.
	Refuse      int `json:"refuse"`        // dial attempts refused before this connection is granted
	FailAt      int `json:"fail_at"`       // frame whose write returns an error; -1 never
	FailPart    int `json:"fail_part"`     // 0: the length-prefix write fails, 1: the body write fails
	FailAccept  int `json:"fail_accept"`   // bytes of the failing Write the peer still accepted
	StallAt     int `json:"stall_at"`      // frame whose write blocks; -1 never
	StallPart   int `json:"stall_part"`    //
	StallMode   int `json:"stall_mode"`    // 0: released HoldUs after ALL emitters finished their quota; 1: released after HoldUs
	HoldUs      int `json:"hold_us"`       //
	PeerCloseAt int `json:"peer_close_at"` // once this many frames are complete the peer half-closes (client's Read returns EOF); -1 never
	DelayUs     int `json:"delay_us"`      // per-Write delay (slow receiver)
	Chunk       int `json:"chunk"`         // max bytes accepted per Write call (partial writes, nil error); 0 = everything
}

type c28Input struct {
	PerEmitter     []int           `json:"per_emitter"` // events per emitter; len = number of emitters (1..16)
	Buffer         int             `json:"buffer"`
	PctFollow      int             `json:"pct_follow"`     // % of events emitted as follow-ups
	PctLazy        int             `json:"pct_lazy"`       // % of events emitted through the lazy variants
	PctNil         int             `json:"pct_nil"`        // % of plain lazy events whose builder returns a nil payload (anonymous on the wire)
	PctOddParent   int             `json:"pct_odd_parent"` // % of follow-ups whose parent is not the emitter's latest id (other emitter's / oldest / InvalidID)
	PayloadMax     int             `json:"payload_max"`
	Burst          int             `json:"burst"`            // emitter pauses after every Burst events ...
	PauseUs        int             `json:"pause_us"`         // ... for PauseUs (0 = Gosched)
	InvalidPauseUs int             `json:"invalid_pause_us"` // pause after an InvalidID (lets a reconnect happen)
	WaitEnabled    bool            `json:"wait_enabled"`     // emitters start only once the client is Enabled (bounded wait)
	Conns          []c28ConnScript `json:"conns"`            // fault script of the successive granted connections; later ones are healthy
	TailDelayUs    int             `json:"tail_delay_us"`    // per-Write delay of unscripted connections
	ClosePct       int             `json:"close_pct"`        // <=100: Close() once that share of the total quota was attempted; >100: after all emitters finished + SettleUs
	SettleUs       int             `json:"settle_us"`
	CloseTimeoutMs int             `json:"close_timeout_ms"`
	TailDropUs     int             `json:"tail_drop_us"`
	ReconnMinUs    int             `json:"reconn_min_us"`
	ReconnMaxUs    int             `json:"reconn_max_us"`
	Procs          int             `json:"procs"` // GOMAXPROCS during the run
	Salt           uint32          `json:"salt"`  // varies the per-event kind/payload plan
}

func c28GenConn(rt *rapid.T) c28ConnScript {
	cs := c28ConnScript{FailAt: -1, StallAt: -1, PeerCloseAt: -1}
	cs.Refuse = rapid.OneOf(rapid.Just(0), rapid.IntRange(0, 3)).Draw(rt, "refuse")
	cs.DelayUs = rapid.OneOf(rapid.Just(0), rapid.Just(0), rapid.IntRange(0, 60), rapid.IntRange(0, 400)).Draw(rt, "delay_us")
	cs.Chunk = rapid.OneOf(rapid.Just(0), rapid.Just(0), rapid.IntRange(1, 64)).Draw(rt, "chunk")
	near := rapid.OneOf(rapid.IntRange(1, 12), rapid.IntRange(1, 60), rapid.IntRange(1, 300))
	switch rapid.IntRange(0, 11).Draw(rt, "fault") {
	case 0: // healthy (maybe slow) until Close
	case 1: // NodeInfo write fails
		cs.FailAt = 0
	case 2, 3, 4: // a later frame fails
		cs.FailAt = near.Draw(rt, "fail_at")
	case 5, 6, 7: // stall early, then fail the very write that stalled (disconnect with drop ranges pending)
		cs.StallAt = near.Draw(rt, "stall_at")
		cs.FailAt = cs.StallAt
		cs.StallPart = rapid.IntRange(0, 1).Draw(rt, "stall_part")
		cs.FailPart = cs.StallPart
	case 8: // stall, continue, maybe fail later
		cs.StallAt = near.Draw(rt, "stall_at")
		if rapid.Bool().Draw(rt, "fail_later") {
			cs.FailAt = cs.StallAt + rapid.IntRange(1, 100).Draw(rt, "fail_after")
		}
	case 9, 10: // peer half-closes
		cs.PeerCloseAt = near.Draw(rt, "peer_close_at")
	case 11: // stall + peer close later
		cs.StallAt = near.Draw(rt, "stall_at")
		cs.PeerCloseAt = cs.StallAt + rapid.IntRange(0, 50).Draw(rt, "peer_close_after")
	}
	if cs.FailAt >= 0 {
		if cs.StallAt != cs.FailAt {
			cs.FailPart = rapid.IntRange(0, 1).Draw(rt, "fail_part")
		}
		cs.FailAccept = rapid.OneOf(rapid.Just(0), rapid.IntRange(0, 40)).Draw(rt, "fail_accept")
	}
	if cs.StallAt >= 0 {
		if cs.StallAt != cs.FailAt {
			cs.StallPart = rapid.IntRange(0, 1).Draw(rt, "stall_part")
		}
		cs.StallMode = rapid.SampledFrom([]int{0, 1, 1}).Draw(rt, "stall_mode")
		cs.HoldUs = rapid.OneOf(rapid.IntRange(0, 500), rapid.IntRange(0, 3000), rapid.IntRange(0, 20000)).Draw(rt, "hold_us")
	}
	return cs
}

func c28Gen(rt *rapid.T) c28Input {
	var in c28Input
	ne := rapid.OneOf(rapid.IntRange(1, 16), rapid.IntRange(8, 16), rapid.IntRange(1, 3)).Draw(rt, "emitters")
	hi := rapid.SampledFrom([]int{40, 150, 400}).Draw(rt, "quota_hi")
	for e := 0; e < ne; e++ {
		in.PerEmitter = append(in.PerEmitter, rapid.IntRange(10, hi).Draw(rt, "quota"))
	}
	in.Buffer = rapid.OneOf(rapid.IntRange(1, 4), rapid.IntRange(1, 64), rapid.IntRange(16, 64)).Draw(rt, "buffer")
	in.PctFollow = rapid.OneOf(rapid.Just(0), rapid.IntRange(0, 70), rapid.IntRange(10, 70)).Draw(rt, "pct_follow")
	in.PctLazy = rapid.OneOf(rapid.Just(0), rapid.IntRange(0, 70), rapid.IntRange(10, 70)).Draw(rt, "pct_lazy")
	in.PctNil = rapid.SampledFrom([]int{0, 0, 10, 30}).Draw(rt, "pct_nil")
	in.PctOddParent = rapid.IntRange(0, 40).Draw(rt, "pct_odd_parent")
	in.PayloadMax = rapid.OneOf(rapid.IntRange(0, 48), rapid.IntRange(0, 1500)).Draw(rt, "payload_max")
	in.Burst = rapid.OneOf(rapid.Just(1), rapid.IntRange(1, 6), rapid.IntRange(1, 6), rapid.IntRange(1, 40)).Draw(rt, "burst")
	in.PauseUs = rapid.OneOf(rapid.Just(0), rapid.IntRange(1, 60), rapid.IntRange(1, 60), rapid.IntRange(1, 400)).Draw(rt, "pause_us")
	in.InvalidPauseUs = rapid.OneOf(rapid.Just(0), rapid.IntRange(1, 300), rapid.IntRange(1, 300)).Draw(rt, "invalid_pause_us")
	in.WaitEnabled = rapid.IntRange(0, 3).Draw(rt, "wait_enabled") != 0
	nc := rapid.OneOf(rapid.IntRange(0, 5), rapid.IntRange(1, 5), rapid.IntRange(2, 5)).Draw(rt, "nconns")
	for i := 0; i < nc; i++ {
		in.Conns = append(in.Conns, c28GenConn(rt))
	}
	in.TailDelayUs = rapid.OneOf(rapid.Just(0), rapid.IntRange(0, 100)).Draw(rt, "tail_delay_us")
	in.ClosePct = rapid.OneOf(rapid.Just(200), rapid.Just(200), rapid.IntRange(5, 100)).Draw(rt, "close_pct")
	in.SettleUs = rapid.IntRange(0, 5000).Draw(rt, "settle_us")
	in.CloseTimeoutMs = rapid.OneOf(rapid.IntRange(5, 40), rapid.IntRange(5, 150)).Draw(rt, "close_timeout_ms")
	in.TailDropUs = rapid.IntRange(100, 5000).Draw(rt, "tail_drop_us")
	in.ReconnMinUs = rapid.IntRange(50, 2000).Draw(rt, "reconn_min_us")
	in.ReconnMaxUs = in.ReconnMinUs + rapid.IntRange(0, 3000).Draw(rt, "reconn_max_extra")
	in.Procs = rapid.SampledFrom([]int{1, 2, 4, 8, 16}).Draw(rt, "procs")
	in.Salt = rapid.Uint32().Draw(rt, "salt")
	return in
}

func c28Clamp(v, lo, hi int) int {
	if v < lo {
		return lo
	}
	if v > hi {
		return hi
	}
	return v
}

// c28Sanitize keeps a (hand-edited / shrunk) replay inside the domain.
func c28Sanitize(in c28Input) c28Input {
	if len(in.PerEmitter) == 0 {
		in.PerEmitter = []int{10}
	}
	if len(in.PerEmitter) > 16 {
		in.PerEmitter = in.PerEmitter[:16]
	}
	pe := make([]int, len(in.PerEmitter))
	for i, q := range in.PerEmitter {
		pe[i] = c28Clamp(q, 1, 400)
	}
	in.PerEmitter = pe
	in.Buffer = c28Clamp(in.Buffer, 1, 64)
	in.PctFollow = c28Clamp(in.PctFollow, 0, 100)
	in.PctLazy = c28Clamp(in.PctLazy, 0, 100)
	in.PctNil = c28Clamp(in.PctNil, 0, 100)
	in.PctOddParent = c28Clamp(in.PctOddParent, 0, 100)
	in.PayloadMax = c28Clamp(in.PayloadMax, 0, 4000)
	in.Burst = c28Clamp(in.Burst, 1, 1000)
	in.PauseUs = c28Clamp(in.PauseUs, 0, 1000)
	in.InvalidPauseUs = c28Clamp(in.InvalidPauseUs, 0, 1000)
	if len(in.Conns) > 8 {
		in.Conns = in.Conns[:8]
	}
	cs := make([]c28ConnScript, len(in.Conns))
	for i, s := range in.Conns {
		s.Refuse = c28Clamp(s.Refuse, 0, 5)
		s.FailAt = c28Clamp(s.FailAt, -1, 1<<20)
		s.FailPart = c28Clamp(s.FailPart, 0, 1)
		s.StallPart = c28Clamp(s.StallPart, 0, 1)
		s.FailAccept = c28Clamp(s.FailAccept, 0, 1<<16)
		s.StallAt = c28Clamp(s.StallAt, -1, 1<<20)
		s.StallMode = c28Clamp(s.StallMode, 0, 1)
		s.HoldUs = c28Clamp(s.HoldUs, 0, 50000)
		s.PeerCloseAt = c28Clamp(s.PeerCloseAt, -1, 1<<20)
		s.DelayUs = c28Clamp(s.DelayUs, 0, 2000)
		s.Chunk = c28Clamp(s.Chunk, 0, 1<<16)
		cs[i] = s
	}
	in.Conns = cs
	in.TailDelayUs = c28Clamp(in.TailDelayUs, 0, 2000)
	in.ClosePct = c28Clamp(in.ClosePct, 1, 200)
	in.SettleUs = c28Clamp(in.SettleUs, 0, 50000)
	in.CloseTimeoutMs = c28Clamp(in.CloseTimeoutMs, 1, 1000)
	in.TailDropUs = c28Clamp(in.TailDropUs, 50, 100000)
	in.ReconnMinUs = c28Clamp(in.ReconnMinUs, 10, 100000)
	in.ReconnMaxUs = c28Clamp(in.ReconnMaxUs, in.ReconnMinUs, 200000)
	in.Procs = c28Clamp(in.Procs, 1, 64)
	return in
}

// ---------------------------------------------------------------------------
// Per-event plan: a pure function of (salt, emitter, local index)
// ---------------------------------------------------------------------------

const (
	c28KindEmit = iota
	c28KindLazy
	c28KindFollow
	c28KindFollowLazy
)

const (
	c28ParentOwnLast = iota
	c28ParentShared
	c28ParentOwnFirst
	c28ParentInvalid
)

func c28Mix(salt uint32, e, i int) uint64 {
	z := uint64(salt)<<32 ^ uint64(e)<<20 ^ uint64(i) + 0x9E3779B97F4A7C15
	z = (z ^ (z >> 30)) * 0xBF58476D1CE4E5B9
	z = (z ^ (z >> 27)) * 0x94D049BB133111EB
	return z ^ (z >> 31)
}

type c28Plan struct {
	kind      int
	parentSel int
	pad       int
	disc      uint8
}

func c28PlanOf(in *c28Input, e, i int) c28Plan {
	h := c28Mix(in.Salt, e, i)
	var p c28Plan
	if int(h%100) < in.PctFollow {
		p.kind |= 2
	}
	if int((h>>8)%100) < in.PctLazy {
		p.kind |= 1
	}
	p.parentSel = c28ParentOwnLast
	if int((h>>16)%100) < in.PctOddParent {
		p.parentSel = 1 + int((h>>24)%3)
	}
	p.pad = int((h >> 32) % uint64(in.PayloadMax+1))
	if p.kind == 1 && int((h>>52)%100) < in.PctNil {
		p.pad = -1 // plain lazy event whose builder yields nil: an event frame with an empty payload
	}
	// discriminator: never 0 (reserved for Dropped); its two low bits carry the kind so the
	// receiver knows whether a parent-seq prefix precedes the payload
	p.disc = uint8(4*(1+int((h>>44)%63)) + p.kind)
	return p
}

const c28HdrLen = 17

// c28Payload: magic(2) emitter(u16) local(u32) kind(u8) parent-id-as-passed(u64) pad...
func c28Payload(e, i, kind int, parent uint64, pad int) []byte {
	b := make([]byte, c28HdrLen+pad)
	b[0], b[1] = 0xC2, 0x8E
	binary.LittleEndian.PutUint16(b[2:], uint16(e))
	binary.LittleEndian.PutUint32(b[4:], uint32(i))
	b[8] = byte(kind)
	binary.LittleEndian.PutUint64(b[9:], parent)
	for j := 0; j < pad; j++ {
		b[c28HdrLen+j] = byte(i + 7*j + 31*e)
	}
	return b
}

// ---------------------------------------------------------------------------
// Independent NodeInfo encoding (field order from the NodeInfo doc comment;
// every string < 128 bytes so its len++ prefix is one byte)
// ---------------------------------------------------------------------------

func c28NodeInfo() NodeInfo {
	ni := NodeInfo{
		JAMParameters: []byte{0x11, 0x22, 0x33, 0x44, 0x55},
		PeerPort:      40000,
		NodeFlags:     1,
		ImplName:      "verif-c28",
		ImplVersion:   "0.0.28",
		GrayPaperVer:  "0.7.2",
		FreeformInfo:  "stress",
	}
	for i := range ni.GenesisHash {
		ni.GenesisHash[i] = byte(i)
		ni.PeerID[i] = byte(0xA0 + i)
	}
	for i := range ni.PeerIPv6 {
		ni.PeerIPv6[i] = byte(0xF0 + i)
	}
	return ni
}

func c28RefNodeInfoFrame(ni NodeInfo) []byte {
	var b []byte
	b = append(b, 0) // protocol version
	b = append(b, ni.JAMParameters...)
	b = append(b, ni.GenesisHash[:]...)
	b = append(b, ni.PeerID[:]...)
	b = append(b, ni.PeerIPv6[:]...)
	b = binary.LittleEndian.AppendUint16(b, ni.PeerPort)
	b = binary.LittleEndian.AppendUint32(b, ni.NodeFlags)
	for _, s := range []string{ni.ImplName, ni.ImplVersion, ni.GrayPaperVer, ni.FreeformInfo} {
		b = append(b, byte(len(s)))
		b = append(b, s...)
	}
	out := binary.LittleEndian.AppendUint32(nil, uint32(len(b)))
	return append(out, b...)
}

// ---------------------------------------------------------------------------
// Harness-owned in-memory connection
// ---------------------------------------------------------------------------

var errC28Injected = errors.New("c28: injected write failure")

type c28Addr struct{}

func (c28Addr) Network() string { return "c28" }
func (c28Addr) String() string  { return "c28-mem" }

type c28Conn struct {
	h      *c28Harness
	idx    int
	script c28ConnScript

	mu           sync.Mutex
	buf          []byte
	writes       int
	frames       int // complete frames accepted so far
	pos          int // bytes of the current (incomplete) frame accepted so far, prefix included
	stallFired   bool
	failFired    bool
	closed       bool
	fault        bool // harness injected a failure / half-close on this connection
	interrupted  bool // a Write was cut short by the client closing the connection
	stalled      bool
	stallByEmits bool // the stall ended because all emitters had finished
	healthyClose bool // client closed it although no fault was injected and Close() had not been called
	closeSeq     int64

	closeCh  chan struct{}
	peerCh   chan struct{}
	peerOnce sync.Once
}

func (c *c28Conn) sleepOrClosed(d time.Duration) bool {
	if d <= 0 {
		return true
	}
	t := time.NewTimer(d)
	defer t.Stop()
	select {
	case <-t.C:
		return true
	case <-c.closeCh:
		return false
	case <-c.h.abortCh:
		return false
	}
}

// accept appends n bytes to the stream and advances the frame tracker. c.mu held.
func (c *c28Conn) accept(p []byte) {
	c.buf = append(c.buf, p...)
	c.pos += len(p)
	for {
		fs := len(c.buf) - c.pos
		if c.pos < 4 {
			return
		}
		fl := int(binary.LittleEndian.Uint32(c.buf[fs:]))
		if c.pos < 4+fl {
			return
		}
		c.frames++
		c.pos -= 4 + fl
	}
}

func (c *c28Conn) Write(p []byte) (int, error) {
	c.mu.Lock()
	if c.closed {
		c.interrupted = true
		c.mu.Unlock()
		return 0, net.ErrClosed
	}
	c.writes++
	frame, part := c.frames, -1
	switch c.pos {
	case 0:
		part = 0
	case 4:
		part = 1
	}
	stallNow := !c.stallFired && frame == c.script.StallAt && part == c.script.StallPart
	if stallNow {
		c.stallFired = true
		c.stalled = true
	}
	failNow := !c.failFired && frame == c.script.FailAt && part == c.script.FailPart
	if failNow {
		c.failFired = true
	}
	c.mu.Unlock()

	cut := func() (int, error) {
		c.mu.Lock()
		c.interrupted = true
		c.mu.Unlock()
		return 0, net.ErrClosed
	}
	if c.script.DelayUs > 0 {
		if !c.sleepOrClosed(time.Duration(c.script.DelayUs) * time.Microsecond) {
			return cut()
		}
	}
	if stallNow {
		hold := time.Duration(c.script.HoldUs) * time.Microsecond
		ok := true
		if c.script.StallMode == 0 {
			select {
			case <-c.h.emittersDone:
				c.mu.Lock()
				c.stallByEmits = true
				c.mu.Unlock()
				ok = c.sleepOrClosed(hold)
			case <-c.closeCh:
				ok = false
			case <-c.h.abortCh:
				ok = false
			}
		} else {
			ok = c.sleepOrClosed(hold)
		}
		if !ok {
			return cut()
		}
	}
	if failNow {
		n := c.script.FailAccept
		if n > len(p) {
			n = len(p)
		}
		c.mu.Lock()
		c.fault = true
		c.accept(p[:n])
		c.mu.Unlock()
		return n, errC28Injected
	}
	n := len(p)
	if c.script.Chunk > 0 && n > c.script.Chunk {
		n = c.script.Chunk
	}
	c.mu.Lock()
	if c.closed {
		c.interrupted = true
		c.mu.Unlock()
		return 0, net.ErrClosed
	}
	c.accept(p[:n])
	peer := c.script.PeerCloseAt >= 0 && c.frames >= c.script.PeerCloseAt && c.pos == 0
	if peer {
		c.fault = true
	}
	c.mu.Unlock()
	if peer {
		c.peerOnce.Do(func() { close(c.peerCh) })
	}
	return n, nil
}

func (c *c28Conn) Read(p []byte) (int, error) {
	select {
	case <-c.closeCh:
		return 0, net.ErrClosed
	case <-c.peerCh:
		return 0, io.EOF
	case <-c.h.abortCh:
		return 0, io.EOF
	}
}

func (c *c28Conn) Close() error {
	c.mu.Lock()
	defer c.mu.Unlock()
	if c.closed {
		return nil
	}
	c.closed = true
	c.closeSeq = c.h.tick.Add(1)
	if !c.fault && !c.h.closeStarted.Load() && !c.h.aborting.Load() {
		c.healthyClose = true
	}
	close(c.closeCh)
	return nil
}

func (c *c28Conn) LocalAddr() net.Addr                { return c28Addr{} }
func (c *c28Conn) RemoteAddr() net.Addr               { return c28Addr{} }
func (c *c28Conn) SetDeadline(t time.Time) error      { return nil }
func (c *c28Conn) SetReadDeadline(t time.Time) error  { return nil }
func (c *c28Conn) SetWriteDeadline(t time.Time) error { return nil }

// ---------------------------------------------------------------------------
// Scenario runner
// ---------------------------------------------------------------------------

type c28SyncBuf struct {
	mu sync.Mutex
	b  bytes.Buffer
}

func (s *c28SyncBuf) Write(p []byte) (int, error) {
	s.mu.Lock()
	defer s.mu.Unlock()
	if s.b.Len() < 1<<20 {
		s.b.Write(p)
	}
	return len(p), nil
}

func (s *c28SyncBuf) String() string {
	s.mu.Lock()
	defer s.mu.Unlock()
	return s.b.String()
}

type c28Emitter struct {
	ids     []uint64 // id returned by Emit* for local event i
	parents []uint64 // parent id passed (follow-ups), else 0
	called  []bool
	cur     atomic.Int64
	inCall  atomic.Bool
	done    atomic.Bool
	panicV  atomic.Value // string
}

type c28Harness struct {
	in  c28Input
	cl  *tcpClient
	ems []*c28Emitter

	dialMu     sync.Mutex
	conns      []*c28Conn
	refuseLeft int
	refuseInit bool
	dials      int
	refused    int

	emittersDone chan struct{}
	abortCh      chan struct{}
	closeTrigger chan struct{}
	closeStarted atomic.Bool
	aborting     atomic.Bool
	attempted    atomic.Int64
	closeAt      int64
	tick         atomic.Int64
	sharedLast   atomic.Uint64
	logs         c28SyncBuf
}

func (h *c28Harness) dial(ctx context.Context, addr string) (net.Conn, error) {
	if err := ctx.Err(); err != nil {
		return nil, err
	}
	if h.aborting.Load() {
		return nil, errors.New("c28: harness finished")
	}
	h.dialMu.Lock()
	defer h.dialMu.Unlock()
	h.dials++
	next := len(h.conns)
	script := c28ConnScript{FailAt: -1, StallAt: -1, PeerCloseAt: -1, DelayUs: h.in.TailDelayUs}
	if next < len(h.in.Conns) {
		script = h.in.Conns[next]
	}
	if !h.refuseInit {
		h.refuseLeft = script.Refuse
		h.refuseInit = true
	}
	if h.refuseLeft > 0 {
		h.refuseLeft--
		h.refused++
		return nil, errors.New("c28: dial refused")
	}
	h.refuseInit = false
	c := &c28Conn{h: h, idx: next, script: script, closeCh: make(chan struct{}), peerCh: make(chan struct{})}
	h.conns = append(h.conns, c)
	return c, nil
}

// c28EmitCall is the only place an emitter enters the client; its frame marks
// emitter goroutines in a stack dump.
//
//go:noinline
func c28EmitCall(cl *tcpClient, kind int, disc uint8, parent uint64, e, i, pad int) uint64 {
	switch kind {
	case c28KindEmit:
		return cl.Emit(disc, c28Payload(e, i, kind, 0, pad))
	case c28KindLazy:
		return cl.EmitLazy(disc, func() []byte {
			if pad < 0 {
				return nil
			}
			return c28Payload(e, i, kind, 0, pad)
		})
	case c28KindFollow:
		return cl.EmitFollowup(disc, parent, c28Payload(e, i, kind, parent, pad))
	default:
		return cl.EmitFollowupLazy(disc, parent, func() []byte { return c28Payload(e, i, kind, parent, pad) })
	}
}

func (h *c28Harness) emitter(e int, wg *sync.WaitGroup) {
	em := h.ems[e]
	defer wg.Done()
	defer em.done.Store(true)
	defer func() {
		if r := recover(); r != nil {
			buf := make([]byte, 4096)
			buf = buf[:runtime.Stack(buf, false)]
			em.panicV.Store(fmt.Sprintf("%v\n%s", r, buf))
			em.inCall.Store(false)
		}
	}()
	var ownLast, ownFirst uint64 = InvalidID, InvalidID
	quota := h.in.PerEmitter[e]
	for i := 0; i < quota; i++ {
		p := c28PlanOf(&h.in, e, i)
		var parent uint64
		if p.kind&2 != 0 {
			switch p.parentSel {
			case c28ParentOwnLast:
				parent = ownLast
			case c28ParentShared:
				parent = h.sharedLast.Load()
				if parent == 0 {
					parent = InvalidID
				}
			case c28ParentOwnFirst:
				parent = ownFirst
			default:
				parent = InvalidID
			}
		}
		em.parents[i] = parent
		em.cur.Store(int64(i))
		em.inCall.Store(true)
		id := c28EmitCall(h.cl, p.kind, p.disc, parent, e, i, p.pad)
		em.inCall.Store(false)
		em.ids[i] = id
		em.called[i] = true
		if id != InvalidID {
			ownLast = id
			if ownFirst == InvalidID {
				ownFirst = id
			}
			h.sharedLast.Store(id)
		}
		if h.attempted.Add(1) == h.closeAt {
			close(h.closeTrigger)
		}
		if id == InvalidID && h.in.InvalidPauseUs > 0 && !h.closeStarted.Load() {
			time.Sleep(time.Duration(h.in.InvalidPauseUs) * time.Microsecond)
		} else if (i+1)%h.in.Burst == 0 {
			if h.in.PauseUs > 0 {
				time.Sleep(time.Duration(h.in.PauseUs) * time.Microsecond)
			} else {
				runtime.Gosched()
			}
		}
	}
}

type c28Result struct {
	violation    string
	inconclusive string
	history      string
	classes      []string
	nonTrivial   bool
}

// c28StuckInEmit inspects a full goroutine dump: goroutines that run an
// emitter (frame c28EmitCall) and are inside a tcpClient Emit* method.
func c28StuckInEmit() (stuck []string, dump string) {
	buf := make([]byte, 4<<20)
	buf = buf[:runtime.Stack(buf, true)]
	dump = string(buf)
	for _, g := range strings.Split(dump, "\n\n") {
		if !strings.Contains(g, "c28EmitCall") {
			continue
		}
		if strings.Contains(g, "telemetry.(*tcpClient).Emit") || strings.Contains(g, "telemetry.(*tcpClient).emitFollowupAtomic") {
			stuck = append(stuck, g)
		}
	}
	return stuck, dump
}

var c28StuckAfter = 20 * time.Second    // an emitter sitting in ONE Emit* call this long (observed in 100 ms ticks) is "blocked"
var c28GlobalWatchdog = 75 * time.Second // emitters not finished by then without a provably parked emitter: inconclusive

func c28Run(in c28Input) *c28Result {
	res := &c28Result{}
	prevProcs := runtime.GOMAXPROCS(in.Procs)
	defer runtime.GOMAXPROCS(prevProcs)

	h := &c28Harness{in: in, emittersDone: make(chan struct{}), abortCh: make(chan struct{}), closeTrigger: make(chan struct{})}
	log.SetOutput(&h.logs)
	defer log.SetOutput(io.Discard)

	total := 0
	for _, q := range in.PerEmitter {
		total += q
		h.ems = append(h.ems, &c28Emitter{ids: make([]uint64, q), parents: make([]uint64, q), called: make([]bool, q)})
	}
	h.closeAt = -1
	if in.ClosePct <= 100 {
		h.closeAt = int64(total*in.ClosePct/100) + 1
		if h.closeAt > int64(total) {
			h.closeAt = int64(total)
		}
	}

	cfg := Config{
		Endpoint:         "c28.invalid:1",
		NodeInfo:         c28NodeInfo(),
		BufferSize:       in.Buffer,
		ReconnectMin:     time.Duration(in.ReconnMinUs) * time.Microsecond,
		ReconnectMax:     time.Duration(in.ReconnMaxUs) * time.Microsecond,
		CloseTimeout:     time.Duration(in.CloseTimeoutMs) * time.Millisecond,
		TailDropInterval: time.Duration(in.TailDropUs) * time.Microsecond,
	}
	cl, err := newTCPClient(cfg)
	if err != nil {
		res.inconclusive = "newTCPClient: " + err.Error()
		return res
	}
	cl.dialer = h.dial
	h.cl = cl
	cl.start()

	if in.WaitEnabled {
		dl := time.Now().Add(2 * time.Second)
		for !cl.Enabled() && time.Now().Before(dl) {
			time.Sleep(50 * time.Microsecond)
		}
	}

	var wg sync.WaitGroup
	for e := range h.ems {
		wg.Add(1)
		go h.emitter(e, &wg)
	}
	emDone := make(chan struct{})
	go func() { wg.Wait(); close(emDone) }()

	// closer
	closeDone := make(chan struct{})
	go func() {
		defer close(closeDone)
		if h.closeAt >= 0 {
			select {
			case <-h.closeTrigger:
			case <-h.emittersDone: // (an emitter died before the trigger count was reached)
			case <-h.abortCh:
				return
			}
		} else {
			select {
			case <-h.emittersDone:
			case <-h.abortCh:
				return
			}
			time.Sleep(time.Duration(in.SettleUs) * time.Microsecond)
		}
		h.closeStarted.Store(true)
		_ = cl.Close()
	}()

	// watchdog over the emitters: progress is sampled every 100 ms; only ticks that
	// the harness actually observed count (a frozen process accumulates none).
	start := time.Now()
	ticker := time.NewTicker(100 * time.Millisecond)
	lastCur := make([]int64, len(h.ems))
	stuckTicks := make([]int, len(h.ems))
	for i := range lastCur {
		lastCur[i] = -1
	}
	needTicks := int(c28StuckAfter / (100 * time.Millisecond))
	blocked := false
wait:
	for {
		select {
		case <-emDone:
			break wait
		case <-ticker.C:
			worst := 0
			for e, em := range h.ems {
				cur := em.cur.Load()
				if !em.done.Load() && em.inCall.Load() && cur == lastCur[e] {
					stuckTicks[e]++
				} else {
					stuckTicks[e] = 0
				}
				lastCur[e] = cur
				if stuckTicks[e] > worst {
					worst = stuckTicks[e]
				}
			}
			if worst >= needTicks {
				stuck, dump := c28StuckInEmit()
				if len(stuck) > 0 {
					// confirm: same goroutines still there a moment later
					time.Sleep(300 * time.Millisecond)
					stuck2, _ := c28StuckInEmit()
					if len(stuck2) > 0 {
						blocked = true
						if len(dump) > 6000 {
							dump = dump[:6000]
						}
						res.violation = fmt.Sprintf("emitter(s) blocked: %d emitter goroutine(s) parked inside Emit* for >= %s (conn stalled: emitters must never block)\n%s",
							len(stuck2), c28StuckAfter, strings.Join(stuck2, "\n\n"))
						break wait
					}
				}
			}
			if time.Since(start) > c28GlobalWatchdog {
				stuck, _ := c28StuckInEmit()
				res.inconclusive = fmt.Sprintf("watchdog: emitters not finished after %s; %d emitter goroutine(s) inside Emit* at expiry but none observed parked for %s", c28GlobalWatchdog, len(stuck), c28StuckAfter)
				break wait
			}
		}
	}
	ticker.Stop()
	if !blocked && res.inconclusive == "" {
		close(h.emittersDone)
		// Close() is bounded by CloseTimeout + 1 s grace
		select {
		case <-closeDone:
		case <-time.After(time.Duration(in.CloseTimeoutMs)*time.Millisecond + 20*time.Second):
			res.inconclusive = "Close() did not return within CloseTimeout+20s"
		}
	}
	h.aborting.Store(true)
	close(h.abortCh)
	if blocked || res.inconclusive != "" {
		// let everything unwind as far as it can; do not analyse a half-run
		go func() { _ = cl.Close() }()
		emittersGone := false
		select {
		case <-emDone:
			emittersGone = true
		case <-time.After(2 * time.Second):
		}
		res.history = h.describe(nil, -1, -1, emittersGone)
		return res
	}
	// all client goroutines should be gone now (Close waited for them); bounded wait
	gone := make(chan struct{})
	go func() { cl.connWG.Wait(); close(gone) }()
	leaked := false
	select {
	case <-gone:
	case <-time.After(3 * time.Second):
		leaked = true
		res.classes = append(res.classes, "client_goroutines_still_running_after_close")
	}
	h.analyse(res, leaked)
	return res
}

// ---------------------------------------------------------------------------
// Receiver oracle
// ---------------------------------------------------------------------------

type c28Frame struct {
	off     int
	n       int
	dropped bool
	count   uint64
	e, i    int
	seq     uint64 // receiver's implicit id
	note    string
}

type c28ConnView struct {
	idx                                          int
	script                                       c28ConnScript
	buf                                          []byte
	writes                                       int
	fault, interrupted, stalled, stallByEmits    bool
	healthyClose, closed                         bool
	frames                                       []c28Frame
	nodeInfoComplete                             bool
	partialTail                                  int
	events, droppedRecs                          int
	droppedSum                                   uint64
	epoch                                        int // -1 unknown
}

func (h *c28Harness) snapshot() []*c28ConnView {
	h.dialMu.Lock()
	conns := append([]*c28Conn(nil), h.conns...)
	h.dialMu.Unlock()
	var out []*c28ConnView
	for _, c := range conns {
		c.mu.Lock()
		v := &c28ConnView{idx: c.idx, script: c.script, buf: append([]byte(nil), c.buf...), writes: c.writes,
			fault: c.fault, interrupted: c.interrupted, stalled: c.stalled, stallByEmits: c.stallByEmits,
			healthyClose: c.healthyClose, closed: c.closed, epoch: -1}
		c.mu.Unlock()
		out = append(out, v)
	}
	return out
}

func (h *c28Harness) analyse(res *c28Result, leaked bool) {
	in := &h.in
	views := h.snapshot()
	fail := func(v *c28ConnView, frameIdx int, format string, a ...any) {
		if res.violation != "" {
			return
		}
		res.violation = fmt.Sprintf(format, a...)
		ci := -1
		if v != nil {
			ci = v.idx
		}
		res.history = h.describe(views, ci, frameIdx, true)
	}

	// --- emitter side -------------------------------------------------------
	type evKey struct{ e, i int }
	byID := map[uint64]evKey{}
	nValid, nInvalid, nStaleRejected := 0, 0, 0
	for e, em := range h.ems {
		if pv := em.panicV.Load(); pv != nil {
			fail(nil, -1, "emitter %d: Emit* PANICKED in the caller's goroutine (event #%d): %s", e, em.cur.Load(), pv.(string))
			return
		}
		var prev uint64 = InvalidID
		for i, id := range em.ids {
			if !em.called[i] {
				fail(nil, -1, "harness: emitter %d did not reach event %d", e, i)
				return
			}
			p := c28PlanOf(in, e, i)
			if id == InvalidID {
				nInvalid++
				if p.kind&2 != 0 && em.parents[i] != InvalidID {
					nStaleRejected++
				}
				continue
			}
			nValid++
			if o, dup := byID[id]; dup {
				fail(nil, -1, "event ID %s returned twice: to emitter %d event %d and to emitter %d event %d", c28ID(id), o.e, o.i, e, i)
				return
			}
			byID[id] = evKey{e, i}
			if eventIDEpochRef(id) == 0 {
				fail(nil, -1, "emitter %d event %d got id %s with epoch 0", e, i, c28ID(id))
				return
			}
			if prev != InvalidID {
				if eventIDEpochRef(id) < eventIDEpochRef(prev) || (eventIDEpochRef(id) == eventIDEpochRef(prev) && eventIDSeqRef(id) <= eventIDSeqRef(prev)) {
					fail(nil, -1, "emitter %d: ids not increasing in program order: event %d got %s after %s", e, i, c28ID(id), c28ID(prev))
					return
				}
			}
			prev = id
			if p.kind&2 != 0 {
				par := em.parents[i]
				if par == InvalidID {
					fail(nil, -1, "emitter %d event %d: follow-up with parent InvalidID was accepted (id %s)", e, i, c28ID(id))
					return
				}
				if eventIDEpochRef(par) != eventIDEpochRef(id) {
					fail(nil, -1, "emitter %d event %d: follow-up %s accepted with parent %s from another connection (epoch)", e, i, c28ID(id), c28ID(par))
					return
				}
				if eventIDSeqRef(par) >= eventIDSeqRef(id) {
					fail(nil, -1, "emitter %d event %d: follow-up %s does not come after its parent %s", e, i, c28ID(id), c28ID(par))
					return
				}
			}
		}
	}

	// --- receiver side ------------------------------------------------------
	niFrame := c28RefNodeInfoFrame(c28NodeInfo())
	delivered := map[evKey]int{} // -> connection index
	lastEpoch, lastEpochConn := 0, -1
	totalDroppedRecs, connsWithNodeInfo, followDelivered, lazyDelivered := 0, 0, 0, 0
	partialTails, forceClosed := 0, 0
	for _, v := range views {
		b := v.buf
		// first frame = NodeInfo (byte-exact; a connection that broke earlier holds a prefix of it)
		n := len(niFrame)
		if len(b) < n {
			n = len(b)
		}
		if !bytes.Equal(b[:n], niFrame[:n]) {
			fail(v, 0, "connection %d does not start with the NodeInfo frame: got % x.. want % x..", v.idx, c28Head(b, 24), c28Head(niFrame, 24))
			return
		}
		if len(b) < len(niFrame) {
			if len(b) > 0 && !v.fault && !v.interrupted && !leaked {
				fail(v, 0, "connection %d: truncated NodeInfo frame (%d of %d bytes) although no write failed", v.idx, len(b), len(niFrame))
				return
			}
			continue
		}
		v.nodeInfoComplete = true
		connsWithNodeInfo++
		v.frames = append(v.frames, c28Frame{off: 0, n: len(niFrame), note: "NodeInfo"})
		off := len(niFrame)
		var counter uint64
		for off < len(b) {
			if len(b)-off < 4 {
				v.partialTail = len(b) - off
				break
			}
			fl := int(binary.LittleEndian.Uint32(b[off:]))
			if fl < 9 {
				fail(v, len(v.frames), "connection %d: frame at offset %d has length %d < 9 (timestamp+discriminator)", v.idx, off, fl)
				return
			}
			if fl > c28HdrLen+8+9+in.PayloadMax {
				fail(v, len(v.frames), "connection %d: frame at offset %d announces %d bytes, more than any event of this run (max %d): framing lost", v.idx, off, fl, c28HdrLen+8+9+in.PayloadMax)
				return
			}
			if len(b)-off-4 < fl {
				v.partialTail = len(b) - off
				break
			}
			body := b[off+4 : off+4+fl]
			fr := c28Frame{off: off, n: 4 + fl, seq: counter}
			disc := body[8]
			if disc == 0 {
				if fl != 25 {
					fail(v, len(v.frames), "connection %d: Dropped record at offset %d has body length %d, want 25", v.idx, off, fl)
					return
				}
				fr.dropped = true
				fr.count = binary.LittleEndian.Uint64(body[17:25])
				if fr.count == 0 || fr.count > 1<<40 {
					v.frames = append(v.frames, fr)
					fail(v, len(v.frames)-1, "connection %d: Dropped record at offset %d has count %d", v.idx, off, fr.count)
					return
				}
				counter += fr.count
				v.droppedRecs++
				v.droppedSum += fr.count
				v.frames = append(v.frames, fr)
				off += 4 + fl
				continue
			}
			pl := body[9:]
			kind := int(disc & 3)
			var wireParent uint64
			if kind&2 != 0 {
				if len(pl) < 8 {
					fail(v, len(v.frames), "connection %d: follow-up frame at offset %d too short for its parent prefix", v.idx, off)
					return
				}
				wireParent = binary.LittleEndian.Uint64(pl)
				pl = pl[8:]
			}
			if kind == 1 && len(pl) == 0 {
				// anonymous event (lazy builder returned nil): it still occupies one event ID, which must
				// be one that Emit* returned for such an event (of this connection's epoch once known)
				okID := false
				for e2 := range h.ems {
					for i2, id2 := range h.ems[e2].ids {
						if id2 != InvalidID && eventIDSeqRef(id2) == counter && (v.epoch == -1 || int(eventIDEpochRef(id2)) == v.epoch) && c28PlanOf(in, e2, i2).pad < 0 {
							okID = true
						}
					}
				}
				fr.e, fr.i = -1, -1
				v.frames = append(v.frames, fr)
				if !okID {
					fail(v, len(v.frames)-1, "MISALIGNED: connection %d: an empty-payload event is numbered %d by the receiver but no nil-payload emit received that ID", v.idx, counter)
					return
				}
				lazyDelivered++
				counter++
				v.events++
				off += 4 + fl
				continue
			}
			if len(pl) < c28HdrLen || pl[0] != 0xC2 || pl[1] != 0x8E {
				fail(v, len(v.frames), "connection %d: frame at offset %d (disc %d) does not carry a harness payload: % x", v.idx, off, disc, c28Head(pl, 24))
				return
			}
			e := int(binary.LittleEndian.Uint16(pl[2:]))
			i := int(binary.LittleEndian.Uint32(pl[4:]))
			fr.e, fr.i = e, i
			v.frames = append(v.frames, fr)
			fi := len(v.frames) - 1
			if e >= len(h.ems) || i >= len(h.ems[e].ids) {
				fail(v, fi, "connection %d: frame at offset %d names unknown event e%d#%d", v.idx, off, e, i)
				return
			}
			p := c28PlanOf(in, e, i)
			par := h.ems[e].parents[i]
			wantPl := c28Payload(e, i, p.kind, c28If(p.kind&2 != 0, par, 0), p.pad)
			if disc != p.disc || !bytes.Equal(pl, wantPl) {
				fail(v, fi, "connection %d: event e%d#%d delivered with disc %d / payload % x.., emitted disc %d / payload % x..", v.idx, e, i, disc, c28Head(pl, 24), p.disc, c28Head(wantPl, 24))
				return
			}
			id := h.ems[e].ids[i]
			if id == InvalidID {
				fail(v, fi, "connection %d: event e%d#%d was delivered (receiver id %d) but Emit* returned InvalidID to its emitter", v.idx, e, i, counter)
				return
			}
			if c0, dup := delivered[evKey{e, i}]; dup {
				fail(v, fi, "event e%d#%d (id %s) delivered twice: on connection %d and again on connection %d (receiver id %d)", e, i, c28ID(id), c0, v.idx, counter)
				return
			}
			delivered[evKey{e, i}] = v.idx
			if eventIDSeqRef(id) != counter {
				fail(v, fi, "MISALIGNED: connection %d: receiver numbers event e%d#%d as %d but Emit* returned %s to its emitter", v.idx, e, i, counter, c28ID(id))
				return
			}
			ep := int(eventIDEpochRef(id))
			if v.epoch == -1 {
				v.epoch = ep
				if ep <= lastEpoch {
					fail(v, fi, "connection %d delivers events of epoch %d, but earlier connection %d already delivered epoch %d (an epoch must belong to one connection)", v.idx, ep, lastEpochConn, lastEpoch)
					return
				}
				lastEpoch, lastEpochConn = ep, v.idx
			} else if v.epoch != ep {
				fail(v, fi, "connection %d mixes epochs: event e%d#%d has id %s, earlier events had epoch %d", v.idx, e, i, c28ID(id), v.epoch)
				return
			}
			if kind&2 != 0 {
				if wireParent != eventIDSeqRef(par) {
					fail(v, fi, "connection %d: follow-up e%d#%d carries parent seq %d on the wire, emitter passed parent %s", v.idx, e, i, wireParent, c28ID(par))
					return
				}
				if wireParent >= counter {
					fail(v, fi, "connection %d: follow-up e%d#%d (receiver id %d) names parent %d which is not an earlier event of this connection", v.idx, e, i, counter, wireParent)
					return
				}
				followDelivered++
			}
			if kind&1 != 0 {
				lazyDelivered++
			}
			counter++
			v.events++
			off += 4 + fl
		}
		totalDroppedRecs += v.droppedRecs
		if v.partialTail > 0 {
			partialTails++
			if !v.fault && !v.interrupted && !leaked {
				fail(v, len(v.frames), "connection %d ends with an incomplete frame (%d trailing bytes) although no write failed or was interrupted", v.idx, v.partialTail)
				return
			}
		}
		if v.interrupted {
			forceClosed++
		}
	}

	// --- the client must not abandon a healthy connection ---------------------
	// (writeLoop leaves a connection only on an I/O error, the peer closing, Close(),
	//  or its self-diagnosed "wire alignment lost"/writer panic: the last two mean the
	//  producer/writer protocol that keeps the stream aligned was broken.)
	for _, v := range views {
		if v.healthyClose {
			fail(v, len(v.frames), "ALIGNMENT LOST (self-diagnosed): the client abandoned connection %d although the harness injected no fault on it and Close() had not been called; client log: %s", v.idx, c28LogTail(h.logs.String(), 6))
			return
		}
	}
	if h.cl.degradedFlag.Load() {
		fail(nil, -1, "client degraded (writer panic) during the run; client log: %s", c28LogTail(h.logs.String(), 6))
		return
	}

	// --- classes / non-trivial -------------------------------------------------
	cls := func(ok bool, name string) {
		if ok {
			res.classes = append(res.classes, name)
		}
	}
	cls(totalDroppedRecs > 0, "dropped_record_delivered")
	cls(connsWithNodeInfo >= 2, "reconnected")
	cls(connsWithNodeInfo == 0, "never_connected")
	cls(nInvalid > 0, "some_emits_invalid_id")
	cls(nStaleRejected > 0, "followup_rejected(stale_or_disabled)")
	cls(followDelivered > 0, "followup_delivered")
	cls(lazyDelivered > 0, "lazy_delivered")
	cls(partialTails > 0, "connection_broke_mid_frame")
	cls(forceClosed > 0, "write_interrupted_by_client_close")
	h.dialMu.Lock()
	refusedDials := h.refused
	h.dialMu.Unlock()
	cls(refusedDials > 0, "dial_refused")
	cls(in.ClosePct <= 100, "close_mid_run")
	cls(len(delivered) == nValid && nValid > 0, "every_accepted_event_delivered")
	multiEpochConns := 0
	for _, v := range views {
		cls(v.stalled && v.stallByEmits, "stall_outlasted_all_emitters")
		cls(v.stalled, "stalled")
		cls(v.script.PeerCloseAt >= 0 && v.fault && v.script.FailAt < 0, "peer_half_close")
		cls(v.nodeInfoComplete && v.events > 0 && v.idx > 0 && v.droppedRecs > 0, "drops_on_a_later_connection")
		if v.events > 0 {
			multiEpochConns++
		}
	}
	cls(multiEpochConns >= 2, "events_on_2+_connections")
	cls(multiEpochConns >= 3, "events_on_3+_connections")
	cls(len(delivered) >= 100, "delivered>=100_events")
	cls(len(delivered) == 0, "delivered_no_event")
	cls(len(h.ems) >= 8 && in.Procs >= 4, "emitters>=8_procs>=4")
	res.nonTrivial = totalDroppedRecs > 0 && connsWithNodeInfo >= 2
	if os.Getenv("VERIF_C28_TRACE") != "" {
		res.history = h.describe(views, -1, -1, true)
	}
}

func c28If(c bool, a, b uint64) uint64 {
	if c {
		return a
	}
	return b
}

// local, independent id split (layout from the Client doc: (epoch << 48) | seq)
func eventIDEpochRef(id uint64) uint64 { return id >> 48 }
func eventIDSeqRef(id uint64) uint64   { return id & (1<<48 - 1) }

func c28ID(id uint64) string {
	if id == InvalidID {
		return "InvalidID"
	}
	return fmt.Sprintf("%d:%d", eventIDEpochRef(id), eventIDSeqRef(id))
}

func c28Head(b []byte, n int) []byte {
	if len(b) > n {
		return b[:n]
	}
	return b
}

func c28LogTail(s string, n int) string {
	lines := strings.Split(strings.TrimSpace(s), "\n")
	if len(lines) > n {
		lines = lines[len(lines)-n:]
	}
	return strings.Join(lines, " | ")
}

// describe renders the observed history: per connection summary, the frames
// around the offending one, what the emitters were told, and the client's log.
func (h *c28Harness) describe(views []*c28ConnView, badConn, badFrame int, withIDs bool) string {
	if views == nil {
		views = h.snapshot()
	}
	var sb strings.Builder
	h.dialMu.Lock()
	dials, refused := h.dials, h.refused
	h.dialMu.Unlock()
	fmt.Fprintf(&sb, "emitters=%d quota=%v buffer=%d procs=%d dials=%d refused=%d close_started=%v\n", len(h.ems), h.in.PerEmitter, h.in.Buffer, h.in.Procs, dials, refused, h.closeStarted.Load())
	for _, v := range views {
		fmt.Fprintf(&sb, "conn %d: script=%+v writes=%d bytes=%d nodeinfo=%v frames=%d events=%d dropped_records=%d(sum %d) epoch=%d fault=%v interrupted=%v stalled=%v closed_by_client=%v abandoned_healthy=%v partial_tail=%d\n",
			v.idx, v.script, v.writes, len(v.buf), v.nodeInfoComplete, len(v.frames), v.events, v.droppedRecs, v.droppedSum, v.epoch, v.fault, v.interrupted, v.stalled, v.closed, v.healthyClose, v.partialTail)
		if v.idx != badConn {
			continue
		}
		lo, hi := badFrame-40, badFrame+3
		if lo < 0 {
			lo = 0
		}
		if hi > len(v.frames) {
			hi = len(v.frames)
		}
		sb.WriteString("  frames (receiver id: content → id Emit* returned):")
		for k := lo; k < hi; k++ {
			f := v.frames[k]
			switch {
			case f.note != "":
				fmt.Fprintf(&sb, " [%s]", f.note)
			case f.dropped:
				fmt.Fprintf(&sb, " [%d: Dropped×%d]", f.seq, f.count)
			default:
				id := uint64(InvalidID)
				if f.e < len(h.ems) && f.i < len(h.ems[f.e].ids) {
					id = h.ems[f.e].ids[f.i]
				}
				mark := ""
				if k == badFrame {
					mark = " <<<"
				}
				fmt.Fprintf(&sb, " [%d: e%d#%d → %s%s]", f.seq, f.e, f.i, c28ID(id), mark)
			}
		}
		sb.WriteString("\n")
	}
	if !withIDs {
		fmt.Fprintf(&sb, "client log (tail): %s\n", c28LogTail(h.logs.String(), 12))
		return sb.String()
	}
	// ids handed out, per epoch
	type span struct {
		n      int
		lo, hi uint64
	}
	per := map[uint64]*span{}
	inval := 0
	for _, em := range h.ems {
		for i, id := range em.ids {
			if !em.called[i] {
				continue
			}
			if id == InvalidID {
				inval++
				continue
			}
			ep, sq := eventIDEpochRef(id), eventIDSeqRef(id)
			s := per[ep]
			if s == nil {
				s = &span{lo: sq, hi: sq}
				per[ep] = s
			}
			s.n++
			if sq < s.lo {
				s.lo = sq
			}
			if sq > s.hi {
				s.hi = sq
			}
		}
	}
	var eps []uint64
	for ep := range per {
		eps = append(eps, ep)
	}
	sort.Slice(eps, func(a, b int) bool { return eps[a] < eps[b] })
	sb.WriteString("ids returned to emitters:")
	for _, ep := range eps {
		fmt.Fprintf(&sb, " epoch %d: %d ids, seq %d..%d;", ep, per[ep].n, per[ep].lo, per[ep].hi)
	}
	fmt.Fprintf(&sb, " InvalidID ×%d\n", inval)
	fmt.Fprintf(&sb, "client log (tail): %s\n", c28LogTail(h.logs.String(), 12))
	return sb.String()
}

// ---------------------------------------------------------------------------
// Sub-property 2: the flush path under a producer that records drops WHILE a
// Dropped record is being written (flushReadyDrops' documented contract:
// "a producer recording a contiguous next-id drop can't grow the in-flight head
// range"). In the assembled client a contiguous drop cannot reach an aligned,
// in-flight head range (the queue would have to be full of smaller ids that the
// writer has already consumed), so this interleaving is driven directly: real
// tcpClient value (not started), real dropState/sequencer, a harness io.Writer
// that performs the producer's critical section at a chosen write.
// ---------------------------------------------------------------------------

type c28FlushInput struct {
	Base   int     `json:"base"`   // writer's expected wire id at entry
	Offset int     `json:"offset"` // first recorded id = Base+Offset (0 = head range lines up)
	Pre    []int   `json:"pre"`    // gaps: ids recorded before the flush; id[k] = id[k-1]+1+gap
	Inject [][]int `json:"inject"` // Inject[j] = gaps of the ids a producer records while Dropped frame j is being written
	Part   int     `json:"part"`   // the producer runs during the length-prefix write (0) or the body write (1)
}

func c28FlushGen(rt *rapid.T) c28FlushInput {
	gap := rapid.OneOf(rapid.Just(0), rapid.Just(0), rapid.IntRange(0, 3))
	in := c28FlushInput{
		Base:   rapid.OneOf(rapid.Just(0), rapid.IntRange(0, 100000)).Draw(rt, "base"),
		Offset: rapid.OneOf(rapid.Just(0), rapid.Just(0), rapid.IntRange(0, 2)).Draw(rt, "offset"),
		Part:   rapid.IntRange(0, 1).Draw(rt, "part"),
	}
	in.Pre = rapid.SliceOfN(gap, 1, 8).Draw(rt, "pre")
	nf := rapid.IntRange(0, 5).Draw(rt, "inject_frames")
	for j := 0; j < nf; j++ {
		in.Inject = append(in.Inject, rapid.SliceOfN(gap, 0, 4).Draw(rt, "inject"))
	}
	return in
}

type c28HookWriter struct {
	buf     []byte
	pos     int
	frames  int
	part    int
	onFrame func(j int)
}

func (w *c28HookWriter) Write(p []byte) (int, error) {
	if (w.pos == 0 && w.part == 0) || (w.pos == 4 && w.part == 1) {
		w.onFrame(w.frames)
	}
	w.buf = append(w.buf, p...)
	w.pos += len(p)
	for w.pos >= 4 {
		fl := int(binary.LittleEndian.Uint32(w.buf[len(w.buf)-w.pos:]))
		if w.pos < 4+fl {
			break
		}
		w.frames++
		w.pos -= 4 + fl
	}
	return len(p), nil
}

func c28FlushCheck(c *kit.Case, in c28FlushInput) {
	if len(in.Pre) == 0 || len(in.Pre) > 64 || len(in.Inject) > 64 || in.Base < 0 || in.Base > 1<<40 || in.Offset < 0 || in.Offset > 1000 || in.Part < 0 || in.Part > 1 {
		return // malformed replay
	}
	cl, err := newTCPClient(Config{Endpoint: "c28.invalid:1", NodeInfo: c28NodeInfo(), BufferSize: 4})
	if err != nil {
		c.Failf("newTCPClient: %v", err)
	}
	const epoch = uint64(1) << 48
	ts := func(seq uint64) uint64 { return 1_000_000 + 3*seq }
	var all []uint64 // every seq a producer recorded, ascending
	next := uint64(in.Base + in.Offset)
	rec := func(gaps []int, first bool) {
		cl.seq.Lock()
		for k, g := range gaps {
			if g < 0 || g > 1000 {
				g = 0
			}
			if !(first && k == 0) {
				next += uint64(g)
			}
			cl.drops.record(epoch|next, ts(next))
			all = append(all, next)
			next++
		}
		cl.seq.Unlock()
	}
	rec(in.Pre, true)
	contiguousDuringWrite := false
	w := &c28HookWriter{part: in.Part}
	w.onFrame = func(j int) {
		if j < len(in.Inject) && len(in.Inject[j]) > 0 {
			if in.Inject[j][0] == 0 {
				contiguousDuringWrite = true
			}
			rec(in.Inject[j], false)
		}
	}
	expected := uint64(in.Base)
	flushed, ferr := cl.flushReadyDrops(w, &expected)
	if ferr != nil {
		c.Failf("flushReadyDrops returned %v on a writer that never fails", ferr)
	}
	// reference: the receiver must be told about exactly the maximal run of recorded ids starting at Base
	inAll := map[uint64]bool{}
	for _, s := range all {
		inAll[s] = true
	}
	wantCovered := uint64(0)
	for inAll[uint64(in.Base)+wantCovered] {
		wantCovered++
	}
	// receiver over the written bytes
	counter := uint64(in.Base)
	b := w.buf
	nfr := 0
	for off := 0; off < len(b); nfr++ {
		if len(b)-off < 4+25 || binary.LittleEndian.Uint32(b[off:]) != 25 {
			c.Failf("frame %d at offset %d is not a 25-byte Dropped record: % x", nfr, off, c28Head(b[off:], 33))
		}
		body := b[off+4 : off+29]
		if body[8] != 0 {
			c.Failf("frame %d has discriminator %d, want 0 (Dropped)", nfr, body[8])
		}
		firstTS, lastTS, count := binary.LittleEndian.Uint64(body[0:]), binary.LittleEndian.Uint64(body[9:]), binary.LittleEndian.Uint64(body[17:])
		if count == 0 {
			c.Failf("frame %d: Dropped count 0", nfr)
		}
		for k := uint64(0); k < count; k++ {
			if !inAll[counter+k] {
				c.Failf("Dropped record %d (count %d at receiver id %d) covers id %d which no producer dropped; recorded=%v", nfr, count, counter, counter+k, all)
			}
		}
		if firstTS != ts(counter) || lastTS != ts(counter+count-1) {
			c.Failf("Dropped record %d covers ids %d..%d but carries timestamps %d..%d, want %d..%d", nfr, counter, counter+count-1, firstTS, lastTS, ts(counter), ts(counter+count-1))
		}
		counter += count
		off += 29
	}
	if counter-uint64(in.Base) != wantCovered {
		c.Failf("receiver counter advanced by %d over %d Dropped record(s); the producers dropped a run of %d ids starting at the expected id %d (recorded=%v)", counter-uint64(in.Base), nfr, wantCovered, in.Base, all)
	}
	if expected != counter {
		c.Failf("writer's expectedWireID=%d but the receiver's counter is %d after the flush (recorded=%v)", expected, counter, all)
	}
	if flushed != nfr {
		c.Failf("flushReadyDrops reports %d flushed, %d records on the wire", flushed, nfr)
	}
	// every other dropped id must still be pending, exactly once
	cl.seq.Lock()
	pend := append([]dropRange(nil), cl.drops.ranges...)
	cl.seq.Unlock()
	seen := map[uint64]bool{}
	for _, r := range pend {
		for k := uint64(0); k < r.count; k++ {
			sq := (r.firstID + k) & (1<<48 - 1)
			if seen[sq] || !inAll[sq] || sq < counter {
				c.Failf("pending drop ranges %+v hold id %d which is duplicated, never dropped or already reported (receiver counter %d)", pend, sq, counter)
			}
			seen[sq] = true
		}
	}
	for _, sq := range all {
		if sq >= counter && !seen[sq] {
			c.Failf("LOST DROP: id %d was dropped by a producer but is neither covered by a Dropped record on the wire (receiver counter %d) nor still pending (%+v): the receiver's numbering falls behind the sender's", sq, counter, pend)
		}
	}
	if contiguousDuringWrite && in.Offset == 0 {
		c.Class("flush/NONTRIVIAL(contiguous_drop_recorded_during_dropped_write)")
		c.NonTrivial()
	}
	if in.Offset != 0 {
		c.Class("flush/head_range_not_aligned")
	}
	if nfr >= 2 {
		c.Class("flush/flushed>=2_records")
	}
	if len(pend) > 0 {
		c.Class("flush/ranges_left_pending")
	}
}

// ---------------------------------------------------------------------------
// Check + test
// ---------------------------------------------------------------------------

var c28CaseNo atomic.Int64 // scenarios run by this process (reported with a violation: "cases needed")

func c28Check(c *kit.Case, raw c28Input) {
	in := c28Sanitize(raw)
	caseNo := c28CaseNo.Add(1)
	res := c28Run(in)
	for _, cl := range res.classes {
		c.Class("stress/" + cl)
	}
	if res.violation != "" {
		c.Failf("%s\n--- observed history (scenario #%d of shard %d/%d; schedule dependent: a replay of this input need not reproduce) ---\n%s", res.violation, caseNo, c.Session().Shard, c.Session().NShards, res.history)
	}
	if res.inconclusive != "" {
		c.Class("stress/INCONCLUSIVE_case_not_judged")
		c.Session().Note("inconclusive case (not judged, not a failure): %s", res.inconclusive)
		return
	}
	if res.nonTrivial {
		c.Class("stress/NONTRIVIAL(dropped_record+reconnect)")
		c.NonTrivial()
	}
	if res.history != "" && os.Getenv("VERIF_C28_TRACE") != "" {
		fmt.Fprintf(os.Stderr, "C28 TRACE\n%s\n", res.history)
	}
}

func TestVerif_C28(t *testing.T) {
	s := kit.Begin(t, "C28")
	defer s.Finish()
	log.SetOutput(io.Discard)
	if s.Thorough() {
		c28StuckAfter = 30 * time.Second
		c28GlobalWatchdog = 120 * time.Second
	}
	only := os.Getenv("VERIF_C28_ONLY") // diagnosis only: "flush" | "stress"
	if only == "" || only == "flush" || s.Replaying() {
		kit.Run(s, "flush_vs_concurrent_record", kit.N{Quick: 20000, Thorough: 2000000}, c28FlushGen, c28FlushCheck)
	}
	if only == "" || only == "stress" || s.Replaying() {
		kit.Run(s, "receiver_oracle_under_stress", kit.N{Quick: 3000, Thorough: 40000}, c28Gen, c28Check)
	}
	if only == "" || only == "flap" || s.Replaying() {
		c28RunFlap(s)
	}
}
