package telemetry

// C28, sub-property added after the seeded change C28-followup-nonatomic was
// missed: "follow-up events are emitted only with a parent from the same
// connection". Emitters emit (parent, follow-up) pairs in a tight loop while the
// harness-owned connection is dropped every few tens of microseconds; whenever
// both IDs are valid they must carry the same connection epoch. Randomised
// stress over real goroutines with an exact oracle (schedules are sampled).

import (
	"context"
	"net"
	"runtime"
	"sync"
	"sync/atomic"
	"time"

	kit "github.com/New-JAMneration/JAM-Protocol/internal/verifkit"
	"pgregory.net/rapid"
)

type c28FlapIn struct {
	Emitters   int  `json:"emitters"`
	DropMicros int  `json:"drop_us"`
	Pairs      int  `json:"pairs"` // accepted pairs wanted per emitter
	Buffer     int  `json:"buffer"`
	Procs      int  `json:"procs"`
	LazyChild  bool `json:"lazy_child"`
}

func c28FlapGen(rt *rapid.T) c28FlapIn {
	return c28FlapIn{
		Emitters:   rapid.IntRange(4, 12).Draw(rt, "emitters"),
		DropMicros: rapid.SampledFrom([]int{20, 50, 50, 100, 300}).Draw(rt, "drop_us"),
		Pairs:      rapid.SampledFrom([]int{20000, 40000}).Draw(rt, "pairs"),
		Buffer:     rapid.SampledFrom([]int{1, 8, 64}).Draw(rt, "buffer"),
		Procs:      rapid.SampledFrom([]int{2, 2, 4}).Draw(rt, "procs"),
		LazyChild:  rapid.Bool().Draw(rt, "lazy_child"),
	}
}

func c28FlapCheck(c *kit.Case, in c28FlapIn) {
	if in.Emitters < 1 || in.Emitters > 32 || in.Pairs < 1 || in.Pairs > 1000000 || in.DropMicros < 1 || in.Buffer < 1 || in.Procs < 1 {
		return
	}
	defer runtime.GOMAXPROCS(runtime.GOMAXPROCS(in.Procs))
	tc, err := newTCPClient(Config{
		Endpoint:     "c28flap",
		NodeInfo:     c28NodeInfo(),
		BufferSize:   in.Buffer,
		ReconnectMin: time.Microsecond,
		ReconnectMax: time.Microsecond,
		CloseTimeout: time.Second,
	})
	if err != nil {
		c.Failf("newTCPClient: %v", err)
	}
	var stop atomic.Bool
	tc.dialer = func(ctx context.Context, _ string) (net.Conn, error) {
		cli, srv := net.Pipe()
		go func() {
			buf := make([]byte, 4096)
			for {
				if _, err := srv.Read(buf); err != nil {
					return
				}
			}
		}()
		go func() {
			if !stop.Load() {
				time.Sleep(time.Duration(in.DropMicros) * time.Microsecond)
			} else {
				time.Sleep(time.Second)
			}
			srv.Close()
		}()
		return cli, nil
	}
	tc.start()
	var wg sync.WaitGroup
	var pairs, crossed atomic.Int64
	var mu sync.Mutex
	var first [2]uint64
	for g := 0; g < in.Emitters; g++ {
		wg.Add(1)
		go func() {
			defer wg.Done()
			got := 0
			for attempts := 0; got < in.Pairs && attempts < 40*in.Pairs && crossed.Load() == 0; attempts++ {
				parent := tc.Emit(5, nil)
				if parent == InvalidID {
					runtime.Gosched()
					continue
				}
				var child uint64
				if in.LazyChild {
					child = tc.EmitFollowupLazy(6, parent, func() []byte { return []byte{1} })
				} else {
					child = tc.EmitFollowup(6, parent, []byte{1})
				}
				if child == InvalidID {
					continue
				}
				got++
				if eventIDEpochRef(child) != eventIDEpochRef(parent) {
					if crossed.Add(1) == 1 {
						mu.Lock()
						first = [2]uint64{parent, child}
						mu.Unlock()
					}
				}
			}
			pairs.Add(int64(got))
		}()
	}
	wg.Wait()
	stop.Store(true)
	tc.Close()
	if pairs.Load() > int64(in.Emitters*in.Pairs/2) {
		c.NonTrivial()
	}
	c.Class("flap_run")
	if crossed.Load() != 0 {
		c.Failf("a follow-up was accepted with a parent from another connection: parent %s, child %s (%d accepted pairs, %d emitters, connection dropped every %d us)",
			c28ID(first[0]), c28ID(first[1]), pairs.Load(), in.Emitters, in.DropMicros)
	}
}

func c28RunFlap(s *kit.Session) {
	kit.Run(s, "followup_parent_same_connection_flapping", kit.N{Quick: 16, Thorough: 400}, c28FlapGen, c28FlapCheck)
}
