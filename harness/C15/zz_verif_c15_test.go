package merklization

// C15: state root is the Gray Paper Appendix D binary Merkle trie root.
// Oracle: an independent reference over *bit strings* (no shared code with the
// implementation apart from the Blake2b-256 primitive from x/crypto).

import (
	"bytes"
	"sort"
	"testing"

	"github.com/New-JAMneration/JAM-Protocol/internal/types"
	kit "github.com/New-JAMneration/JAM-Protocol/internal/verifkit"
	"golang.org/x/crypto/blake2b"
	"pgregory.net/rapid"
)

type c15KV struct {
	K []byte `json:"k"` // 31 bytes
	V []byte `json:"v"`
}

type c15Input struct {
	KVs   []c15KV `json:"kvs"`
	Perms [][]int `json:"perms"` // permutations of indices (presentations of the same set)
	// in-place updates applied, one after the other, to the list that was merklized last (the same
	// backing array, the same length): the root must follow the octets, not the identity of the list
	Muts []c15Mut `json:"muts,omitempty"`
}

type c15Mut struct {
	Idx    int    `json:"idx"`
	Val    []byte `json:"val"`
	KeyBit int    `json:"key_bit"` // >= 0: this bit of the key is flipped as well
}

func c15RefBit(k []byte, i int) int { return int(k[i/8]>>(7-uint(i%8))) & 1 }

func c15RefHash(b []byte) [32]byte { return blake2b.Sum256(b) }

// c15RefRoot: GP D.3-D.6 over an explicit list of (key,value) with distinct keys.
func c15RefRoot(kvs []c15KV, depth int) [32]byte {
	if len(kvs) == 0 {
		return [32]byte{}
	}
	if len(kvs) == 1 {
		node := make([]byte, 64)
		k, v := kvs[0].K, kvs[0].V
		if len(v) <= 32 {
			node[0] = 0b10000000 | byte(len(v))
			copy(node[1:32], k[:31])
			copy(node[32:], v)
		} else {
			node[0] = 0b11000000
			copy(node[1:32], k[:31])
			h := c15RefHash(v)
			copy(node[32:], h[:])
		}
		return c15RefHash(node)
	}
	var l, r []c15KV
	for _, e := range kvs {
		if c15RefBit(e.K, depth) == 0 {
			l = append(l, e)
		} else {
			r = append(r, e)
		}
	}
	lh, rh := c15RefRoot(l, depth+1), c15RefRoot(r, depth+1)
	node := make([]byte, 64)
	copy(node[:32], lh[:])
	node[0] &^= 0x80 // first bit cleared
	copy(node[32:], rh[:])
	return c15RefHash(node)
}

func c15Gen(rt *rapid.T) c15Input {
	n := rapid.OneOf(rapid.IntRange(0, 6), rapid.IntRange(0, 40), rapid.IntRange(0, 200)).Draw(rt, "n")
	if l := rapid.IntRange(0, 99).Draw(rt, "large"); l == 57 || l == 23 || l == 81 { // (rapid favours the ends of a range: interior values keep the class rare)
		// a realistic state: a thousand or more entries (one service with many items shares its
		// leading key bits, so one side of the first branches is empty or a single leaf)
		n = rapid.SampledFrom([]int{1000, 1023, 1024, 1025, 1500, 2048, 2500, 4100}).Draw(rt, "nlarge")
	}
	prefixBits := rapid.OneOf(rapid.Just(0), rapid.IntRange(0, 247), rapid.SampledFrom([]int{7, 8, 9, 240, 246, 247})).Draw(rt, "prefixBits")
	prefix := rapid.SliceOfN(rapid.Byte(), 31, 31).Draw(rt, "prefix")
	seen := map[string]bool{}
	var kvs []c15KV
	for i := 0; i < n; i++ {
		k := rapid.SliceOfN(rapid.Byte(), 31, 31).Draw(rt, "k")
		// copy the shared prefix bits
		for b := 0; b < prefixBits; b++ {
			mask := byte(1) << (7 - uint(b%8))
			k[b/8] = (k[b/8] &^ mask) | (prefix[b/8] & mask)
		}
		if rapid.IntRange(0, 3).Draw(rt, "lowent") == 0 {
			// low-entropy suffix: many keys that differ only in the last bits
			for j := (prefixBits + 7) / 8; j < 30; j++ {
				k[j] = prefix[j]
			}
		}
		if seen[string(k)] {
			continue
		}
		seen[string(k)] = true
		vl := rapid.OneOf(rapid.SampledFrom([]int{0, 1, 31, 32, 33, 64}), rapid.IntRange(0, 80)).Draw(rt, "vl")
		v := rapid.SliceOfN(rapid.Byte(), vl, vl).Draw(rt, "v")
		kvs = append(kvs, c15KV{K: k, V: v})
	}
	in := c15Input{KVs: kvs}
	for p := 0; p < 3; p++ {
		in.Perms = append(in.Perms, rapid.Permutation(seq(len(kvs))).Draw(rt, "perm"))
	}
	if len(kvs) > 0 && len(kvs) <= 200 {
		nm := rapid.IntRange(0, 3).Draw(rt, "nmut")
		for m := 0; m < nm; m++ {
			vl := rapid.OneOf(rapid.SampledFrom([]int{0, 1, 31, 32, 33, 64}), rapid.IntRange(0, 80)).Draw(rt, "mvl")
			in.Muts = append(in.Muts, c15Mut{
				Idx:    rapid.IntRange(0, len(kvs)-1).Draw(rt, "midx"),
				Val:    rapid.SliceOfN(rapid.Byte(), vl, vl).Draw(rt, "mval"),
				KeyBit: rapid.OneOf(rapid.Just(-1), rapid.IntRange(0, 247)).Draw(rt, "mkeybit"),
			})
		}
	}
	return in
}

func seq(n int) []int {
	s := make([]int, n)
	for i := range s {
		s[i] = i
	}
	return s
}

func c15Check(c *kit.Case, in c15Input) {
	for _, kv := range in.KVs {
		if len(kv.K) != 31 {
			return // malformed replay
		}
	}
	want := c15RefRoot(in.KVs, 0)
	// non-trivial: >= 2 entries sharing >= 8 prefix bits, or a value of length 32/33
	nt := false
	for _, kv := range in.KVs {
		if len(kv.V) == 32 || len(kv.V) == 33 {
			nt = true
			c.Class("value_len_32_33")
			break
		}
	}
	if len(in.KVs) >= 2 {
		ks := make([][]byte, len(in.KVs))
		for i, kv := range in.KVs {
			ks[i] = kv.K
		}
		sort.Slice(ks, func(i, j int) bool { return bytes.Compare(ks[i], ks[j]) < 0 })
		for i := 1; i < len(ks); i++ {
			if ks[i][0] == ks[i-1][0] {
				nt = true
				c.Class("shared_prefix_ge8")
				break
			}
		}
	}
	if len(in.KVs) == 0 {
		c.Class("empty")
	}
	if len(in.KVs) >= 1000 {
		c.Class("entries_ge_1000")
		side := 0
		for _, kv := range in.KVs {
			side += c15RefBit(kv.K, 0)
		}
		if side <= 1 || side >= len(in.KVs)-1 {
			c.Class("entries_ge_1000_first_bit_lopsided")
		}
	}
	if nt {
		c.NonTrivial()
	}
	var last types.StateKeyVals
	for pi, perm := range in.Perms {
		if len(perm) != len(in.KVs) {
			continue
		}
		skv := make(types.StateKeyVals, len(perm))
		last = skv
		for i, idx := range perm {
			if idx < 0 || idx >= len(in.KVs) {
				return
			}
			var k types.StateKey
			copy(k[:], in.KVs[idx].K)
			skv[i] = types.StateKeyVal{Key: k, Value: append(types.ByteSequence(nil), in.KVs[idx].V...)}
		}
		snapshot := make(types.StateKeyVals, len(skv))
		copy(snapshot, skv)
		got := MerklizationSerializedState(skv)
		if !bytes.Equal(got[:], want[:]) {
			c.Failf("root mismatch (presentation %d): implementation %x reference %x for %d entries", pi, got, want, len(in.KVs))
		}
		for i := range skv {
			if skv[i].Key != snapshot[i].Key || !bytes.Equal(skv[i].Value, snapshot[i].Value) {
				c.Failf("MerklizationSerializedState reordered/modified its caller's list at %d", i)
			}
		}
		// with a nil cache the cached entry point must agree as well
		got2 := MerklizationSerializedStateWithCache(skv, nil)
		if got2 != got {
			c.Failf("WithCache(nil) root %x differs from %x", got2, got)
		}
	}
	// history on one list: entries are updated in place and the list is merklized again
	if last == nil || len(in.Muts) == 0 {
		return
	}
	cur := make([]c15KV, len(last))
	for i := range last {
		cur[i] = c15KV{K: append([]byte(nil), last[i].Key[:]...), V: append([]byte(nil), last[i].Value...)}
	}
	for mi, m := range in.Muts {
		if m.Idx < 0 || m.Idx >= len(last) || m.KeyBit >= 248 {
			return
		}
		nk := append([]byte(nil), cur[m.Idx].K...)
		if m.KeyBit >= 0 {
			nk[m.KeyBit/8] ^= 1 << (7 - uint(m.KeyBit%8))
			dup := false
			for i := range cur {
				if i != m.Idx && bytes.Equal(cur[i].K, nk) {
					dup = true
				}
			}
			if dup {
				continue // keys stay distinct
			}
		}
		cur[m.Idx] = c15KV{K: nk, V: append([]byte(nil), m.Val...)}
		copy(last[m.Idx].Key[:], nk)
		last[m.Idx].Value = append(types.ByteSequence(nil), m.Val...)
		c.Class("in_place_update")
		wantM := c15RefRoot(cur, 0)
		gotM := MerklizationSerializedState(last)
		if !bytes.Equal(gotM[:], wantM[:]) {
			c.Failf("root after in-place update %d of the list merklized last: implementation %x reference %x (%d entries)", mi, gotM, wantM, len(cur))
		}
	}
}

func TestVerif_C15(t *testing.T) {
	s := kit.Begin(t, "C15")
	defer s.Finish()
	kit.Run(s, "trie_root_vs_bit_reference", kit.N{Quick: 20000, Thorough: 1000000}, c15Gen, c15Check)
}

// FuzzVerif_C15: native coverage-guided fuzzing of the trie-root differential (thorough tier).
func FuzzVerif_C15(f *testing.F) {
	kit.Fuzz(f, "C15", "trie_root_vs_bit_reference", c15Gen, c15Check)
}
