package extrinsic

// C20 (added after the seeded change C20-gstar-epoch-boundary was missed): the
// two assignments a node derives from its posterior state, G (current rotation)
// and G* (previous rotation), against a literal reading of GP 11.19-11.22:
//   G  = (P(eta'_2, tau'), Phi(kappa'))
//   G* = (P(e, tau' - R), Phi(k))  with (e, k) = (eta'_2, kappa') if floor((tau'-R)/E) = floor(tau'/E)
//                                               else (eta'_3, lambda')
// Every slot of several epochs is enumerated, so the first slot of the second
// rotation (tau' mod E = R), where the epoch selection flips, is always covered.

import (
	"fmt"

	"github.com/New-JAMneration/JAM-Protocol/internal/blockchain"
	"github.com/New-JAMneration/JAM-Protocol/internal/types"
	kit "github.com/New-JAMneration/JAM-Protocol/internal/verifkit"
)

type c20GStarIn struct {
	Full  bool   `json:"full"`
	Slot  uint32 `json:"slot"`
	ESeed uint32 `json:"eseed"`
}

func c20CheckGStar(c *kit.Case, in c20GStarIn) {
	p := c20SetMode(in.Full)
	if int(in.Slot) < p.R {
		c.Class("out_of_domain_slot_below_R") // tau' - R is negative: no previous rotation exists
		return
	}
	var eta types.EntropyBuffer
	for i := range eta {
		e := c20CalibEntropy(fmt.Sprintf("gstar-%d-%d", in.ESeed, i))
		eta[i] = types.Entropy(e)
	}
	kappa := c20Validators(1000+in.ESeed, p.V)
	lambda := c20Validators(2000+in.ESeed, p.V)
	st := blockchain.GetInstance().GetPosteriorStates()
	st.SetTau(types.TimeSlot(in.Slot))
	st.SetEta(eta)
	st.SetKappa(kappa)
	st.SetLambda(lambda)

	g, err := GFunc(map[types.Ed25519Public]bool{})
	if err != nil {
		c.Failf("GFunc: %v", err)
	}
	gs, err2 := GStarFunc(map[types.Ed25519Public]bool{})
	if err2 != nil {
		c.Failf("GStarFunc: %v", err2)
	}
	wantG := c20RefP([32]byte(eta[2]), in.Slot, p.V, p.C, p.E, p.R)
	if i := c20CoreEq(g.CoreAssignments, wantG); i >= 0 {
		c.Failf("slot %d: G core assignment differs from P(eta'_2, tau') at validator %d", in.Slot, i)
	}
	sameEpoch := (int(in.Slot)-p.R)/p.E == int(in.Slot)/p.E
	e, k := eta[3], lambda
	if sameEpoch {
		e, k = eta[2], kappa
		c.Class("gstar_same_epoch")
	} else {
		c.Class("gstar_previous_epoch")
	}
	if int(in.Slot)%p.E == p.R || int(in.Slot)%p.E == p.R-1 {
		c.Class("gstar_at_epoch_selection_boundary")
		c.NonTrivial()
	}
	wantGS := c20RefP([32]byte(e), in.Slot-uint32(p.R), p.V, p.C, p.E, p.R)
	if i := c20CoreEq(gs.CoreAssignments, wantGS); i >= 0 {
		c.Failf("slot %d (slot-in-epoch %d): G* core assignment differs from P(e, tau'-R) at validator %d (same-epoch=%v)", in.Slot, int(in.Slot)%p.E, i, sameEpoch)
	}
	for i := range k {
		if gs.PublicKeys[i].Ed25519 != k[i].Ed25519 {
			c.Failf("slot %d (slot-in-epoch %d): G* validator %d key is not from the %s set", in.Slot, int(in.Slot)%p.E, i, map[bool]string{true: "kappa'", false: "lambda'"}[sameEpoch])
		}
		if g.PublicKeys[i].Ed25519 != kappa[i].Ed25519 {
			c.Failf("slot %d: G validator %d key is not from kappa'", in.Slot, i)
		}
	}
}

func c20RunGStar(s *kit.Session) {
	if kit.EnumSub(s, "g_and_gstar_every_slot", c20CheckGStar) {
		return
	}
	idx := 0
	for _, full := range []bool{false, true} {
		E, epochs, stride := 12, 5, 1
		if full {
			E, epochs, stride = 600, 2, 1
			if !s.Thorough() {
				stride = 7
			}
		}
		for slot := 0; slot < epochs*E; slot++ {
			if full && stride > 1 && slot%stride != 0 && slot%E != 10 && slot%E != 9 && slot%E != 0 {
				continue
			}
			idx++
			if idx%s.NShards != s.Shard {
				continue
			}
			if !kit.Each(s, "g_and_gstar_every_slot", c20GStarIn{Full: full, Slot: uint32(slot), ESeed: uint32(slot % 5)}, c20CheckGStar) {
				return
			}
		}
	}
}

