package extrinsic

// C20: Fisher-Yates shuffle (GP Appendix F, F.1-F.3) and guarantor assignment
// (GP 11.19-11.20).
//
// Reference, written literally from the formulas (fresh sequences, no swaps):
//
//	F.1  F(s, r) = []                                        if s = []
//	             = [s_(r0 mod l)] ++ F(s'_(...l-1), r_(1...))   otherwise,
//	       where l = |s| and s' = s except s'_(r0 mod l) = s_(l-1)
//	F.2  Q_l(h)_i = E4^-1( H(h ++ E4(floor(i/8)))_(4i mod 32 ... +4) )   (H = Blake2b-256, E4 little-endian)
//	F.3  F(s, h) = F(s, Q_|s|(h))
//	11.19 R(c, n) = [(x + n) mod C | x in c]
//	11.20 P(e, t) = R( F([floor(C*i/V) | i in N_V], e), floor((t mod E)/R) )
//
// The reference is calibrated inside the test against three official w3f shuffle
// vectors (typed in below), so a misreading of F.1-F.3 on my side shows up as a
// calibration failure (inconclusive), not as a "violation".

import (
	"crypto/sha256"
	"encoding/binary"
	"fmt"
	"os"
	"testing"

	"github.com/New-JAMneration/JAM-Protocol/internal/blockchain"
	"github.com/New-JAMneration/JAM-Protocol/internal/types"
	"github.com/New-JAMneration/JAM-Protocol/internal/utilities/shuffle"
	kit "github.com/New-JAMneration/JAM-Protocol/internal/verifkit"
	"github.com/New-JAMneration/JAM-Protocol/logger"
	"golang.org/x/crypto/blake2b"
	"pgregory.net/rapid"
)

// ---- reference ---------------------------------------------------------------

// c20RefQ: F.2.
func c20RefQ(h [32]byte, l int) []uint32 {
	out := make([]uint32, l)
	for i := 0; i < l; i++ {
		pre := make([]byte, 0, 36)
		pre = append(pre, h[:]...)
		var e4 [4]byte
		binary.LittleEndian.PutUint32(e4[:], uint32(i/8))
		pre = append(pre, e4[:]...)
		d := blake2b.Sum256(pre)
		at := (4 * i) % 32
		out[i] = binary.LittleEndian.Uint32(d[at : at+4])
	}
	return out
}

// c20RefF: F.1 (iterative unfolding of the recursion; every s' is a fresh sequence).
func c20RefF(s []uint32, r []uint32) []uint32 {
	out := make([]uint32, 0, len(s))
	cur := append([]uint32(nil), s...)
	k := 0
	for len(cur) > 0 {
		l := len(cur)
		idx := int(uint64(r[k]) % uint64(l))
		out = append(out, cur[idx])
		next := make([]uint32, l-1)
		for j := 0; j < l-1; j++ {
			if j == idx {
				next[j] = cur[l-1]
			} else {
				next[j] = cur[j]
			}
		}
		cur = next
		k++
	}
	return out
}

// c20RefShuffle: F.3.
func c20RefShuffle(s []uint32, h [32]byte) []uint32 { return c20RefF(s, c20RefQ(h, len(s))) }

// c20RefP: 11.19-11.20.
func c20RefP(e [32]byte, t uint32, V, C, E, R int) []uint32 {
	base := make([]uint32, V)
	for i := 0; i < V; i++ {
		base[i] = uint32((C * i) / V)
	}
	sh := c20RefShuffle(base, e)
	n := (int(t) % E) / R
	out := make([]uint32, V)
	for i, x := range sh {
		out[i] = uint32((int(x) + n) % C)
	}
	return out
}

// official vectors (w3f jamtestvectors shuffle_tests.json; also shipped in the
// repository next to shuffle.go): input = [0..n), entropy, output.
var c20Calib = []struct {
	n   int
	ent string
	out []uint32
}{
	{8, "ff", []uint32{1, 2, 6, 0, 7, 4, 3, 5}},
	{16, "seq", []uint32{15, 14, 7, 5, 2, 12, 3, 8, 6, 0, 4, 10, 1, 11, 9, 13}},
	{20, "d111", []uint32{12, 5, 6, 0, 3, 2, 7, 4, 13, 17, 18, 14, 16, 8, 11, 10, 19, 9, 15, 1}},
}

func c20CalibEntropy(name string) [32]byte {
	var h [32]byte
	switch name {
	case "ff":
		for i := range h {
			h[i] = 0xFF
		}
	case "seq":
		for i := range h {
			h[i] = byte(i)
		}
	case "d111":
		copy(h[:], []byte{0xd1, 0x11, 0xa5, 0x54, 0xe3, 0xe8, 0xa0, 0x58, 0xea, 0x18, 0xc0, 0x5b, 0xc9, 0x43, 0xfa, 0x3c,
			0xad, 0x8f, 0xb1, 0x33, 0x9b, 0xf9, 0x30, 0x7f, 0x2f, 0x3d, 0x92, 0x28, 0xae, 0x5c, 0x93, 0x4b})
	}
	return h
}

func c20Iota(n int) []uint32 {
	s := make([]uint32, n)
	for i := range s {
		s[i] = uint32(i)
	}
	return s
}

func c20ToU32(s []uint32) []types.U32 {
	o := make([]types.U32, len(s))
	for i, x := range s {
		o[i] = types.U32(x)
	}
	return o
}

func c20Eq(got []types.U32, want []uint32) int { // -1 equal, otherwise first differing index (or min length)
	n := len(got)
	if len(want) < n {
		n = len(want)
	}
	for i := 0; i < n; i++ {
		if uint32(got[i]) != want[i] {
			return i
		}
	}
	if len(got) != len(want) {
		return n
	}
	return -1
}

func c20Head(s []uint32) []uint32 {
	if len(s) > 24 {
		return s[:24]
	}
	return s
}

func c20HeadT(s []types.U32) []types.U32 {
	if len(s) > 24 {
		return s[:24]
	}
	return s
}

// ---- sub-property 1: Shuffle vs F.3 ----------------------------------------------

type c20ShuffleInput struct {
	N       int      `json:"n"`
	Entropy []byte   `json:"entropy"` // 32 bytes
	Kind    int      `json:"kind"`    // 0 iota, 1 floor(C*i/V)-like repeated values, 2 explicit values
	Mod     int      `json:"mod"`     // kind 1: values i mod Mod or i*Mod/N
	Values  []uint32 `json:"values"`  // kind 2
}

var c20LenGen = rapid.OneOf(
	rapid.IntRange(0, 12),
	rapid.IntRange(0, 64),
	rapid.IntRange(0, 1100),
	rapid.SampledFrom([]int{0, 1, 2, 3, 6, 7, 8, 9, 15, 16, 17, 24, 25, 31, 32, 33, 63, 64, 65, 255, 256, 257, 341, 1023, 1024, 1099, 1100}),
)

func c20GenEntropy(rt *rapid.T) []byte {
	switch rapid.IntRange(0, 7).Draw(rt, "entkind") {
	case 0:
		return make([]byte, 32)
	case 1:
		b := make([]byte, 32)
		for i := range b {
			b[i] = 0xFF
		}
		return b
	default:
		return rapid.SliceOfN(rapid.Byte(), 32, 32).Draw(rt, "entropy")
	}
}

func c20GenShuffle(rt *rapid.T) c20ShuffleInput {
	in := c20ShuffleInput{N: c20LenGen.Draw(rt, "n"), Entropy: c20GenEntropy(rt)}
	in.Kind = rapid.SampledFrom([]int{0, 0, 1, 1, 2}).Draw(rt, "kind")
	switch in.Kind {
	case 1:
		in.Mod = rapid.IntRange(1, 400).Draw(rt, "mod")
	case 2:
		if in.N > 200 {
			in.N = in.N % 200
		}
		in.Values = rapid.SliceOfN(rapid.OneOf(rapid.Uint32Range(0, 3), rapid.Uint32(), rapid.SampledFrom([]uint32{0, 1, 1<<31 - 1, 1 << 31, 1<<32 - 1})), in.N, in.N).Draw(rt, "values")
	}
	return in
}

func c20ShuffleValues(in c20ShuffleInput) []uint32 {
	switch in.Kind {
	case 1:
		m := in.Mod
		if m < 1 {
			m = 1
		}
		s := make([]uint32, in.N)
		for i := range s {
			if m%2 == 0 {
				s[i] = uint32(i % m)
			} else {
				s[i] = uint32((m * i) / in.N) // the 11.20 base sequence shape (blocks of equal values)
			}
		}
		return s
	case 2:
		return append([]uint32(nil), in.Values...)
	default:
		return c20Iota(in.N)
	}
}

func c20CheckShuffle(c *kit.Case, in c20ShuffleInput) {
	if in.N < 0 || in.N > 5000 || len(in.Entropy) != 32 || (in.Kind == 2 && len(in.Values) != in.N) {
		return
	}
	var h [32]byte
	copy(h[:], in.Entropy)
	s := c20ShuffleValues(in)
	want := c20RefShuffle(s, h)
	got := shuffle.Shuffle(c20ToU32(s), types.OpaqueHash(h)) // the implementation may reorder its argument: it gets a copy
	if at := c20Eq(got, want); at >= 0 {
		c.Failf("Shuffle of %d elements (kind %d) differs from F.3 at position %d: got %v..., reference %v... (entropy %x)", in.N, in.Kind, at, c20HeadT(got), c20Head(want), h)
	}
	// permutation of the input multiset (independent of the reference)
	cnt := map[uint32]int{}
	for _, x := range s {
		cnt[x]++
	}
	for _, x := range got {
		cnt[uint32(x)]--
	}
	for x, n := range cnt {
		if n != 0 {
			c.Failf("Shuffle output is not a permutation of its input: value %d count differs by %d", x, n)
		}
	}
	// deterministic
	again := shuffle.Shuffle(c20ToU32(s), types.OpaqueHash(h))
	if at := c20Eq(again, want); at >= 0 {
		c.Failf("second Shuffle call with identical arguments differs at %d", at)
	}
	// the same entropy with other lengths, shorter then longer then the first again: what Shuffle
	// returns depends on its arguments only, not on the calls made before with that entropy
	for _, m := range []int{in.N/2 + 1, in.N + 5, 2*in.N + 3, in.N} {
		if m > 2400 {
			continue
		}
		si := c20Iota(m)
		if at := c20Eq(shuffle.Shuffle(c20ToU32(si), types.OpaqueHash(h)), c20RefShuffle(si, h)); at >= 0 {
			c.Failf("Shuffle of %d elements differs from F.3 at position %d when called after Shuffle of %d elements with the same entropy %x", m, at, in.N, h)
		}
	}
	switch {
	case in.N == 0:
		c.Class("shuffle_len_0")
	case in.N == 1:
		c.Class("shuffle_len_1")
	case in.N <= 8:
		c.Class("shuffle_len_2_8")
	case in.N <= 64:
		c.Class("shuffle_len_9_64")
	default:
		c.Class("shuffle_len_gt_64")
	}
	if in.Kind != 0 {
		c.Class("shuffle_repeated_or_explicit_values")
	}
	if in.N >= 2 {
		c.NonTrivial()
	}
}

// ---- sub-property 2: FisherYatesShuffle with arbitrary number sequences ------------

type c20FYInput struct {
	S []uint32 `json:"s"`
	R []uint32 `json:"r"` // |R| >= |S|
}

func c20GenFY(rt *rapid.T) c20FYInput {
	n := rapid.OneOf(rapid.IntRange(0, 8), rapid.IntRange(0, 40), rapid.IntRange(0, 300)).Draw(rt, "n")
	var in c20FYInput
	in.S = make([]uint32, n)
	rep := rapid.IntRange(0, 3).Draw(rt, "rep")
	for i := range in.S {
		if rep == 0 {
			in.S[i] = uint32(i / 3)
		} else {
			in.S[i] = uint32(i)
		}
	}
	extra := rapid.IntRange(0, 3).Draw(rt, "extra")
	in.R = make([]uint32, n+extra)
	for i := range in.R {
		l := n - i // length of the remaining sequence at step i
		if l < 1 {
			l = 1
		}
		switch rapid.IntRange(0, 7).Draw(rt, "rk") {
		case 0:
			in.R[i] = 0
		case 1:
			in.R[i] = uint32(l - 1)
		case 2:
			in.R[i] = uint32(l)
		case 3:
			in.R[i] = 1<<32 - 1
		case 4:
			in.R[i] = uint32(l) * rapid.Uint32Range(0, 1000).Draw(rt, "mult")
		case 5:
			in.R[i] = 1 << 31
		default:
			in.R[i] = rapid.Uint32().Draw(rt, "r")
		}
	}
	return in
}

func c20CheckFY(c *kit.Case, in c20FYInput) {
	if len(in.R) < len(in.S) {
		return // F.1 needs r in [N]_(l:)
	}
	want := c20RefF(in.S, in.R)
	got := shuffle.FisherYatesShuffle(c20ToU32(in.S), c20ToU32(in.R))
	if at := c20Eq(got, want); at >= 0 {
		c.Failf("FisherYatesShuffle(|s|=%d) differs from F.1 at position %d: got %v..., reference %v...", len(in.S), at, c20HeadT(got), c20Head(want))
	}
	if len(in.S) >= 2 {
		c.NonTrivial()
		c.Class("fy_len_ge_2")
	} else {
		c.Class("fy_len_lt_2")
	}
}

// ---- sub-property 3: guarantor assignment -----------------------------------------

type c20AssignInput struct {
	Full    bool   `json:"full"`
	Entropy []byte `json:"entropy"`
	Slot    uint32 `json:"slot"`
	VSeed   uint32 `json:"vseed"` // validator records are derived from this seed
}

type c20Params struct{ V, C, E, R int }

func c20SetMode(full bool) c20Params {
	if full {
		if types.ValidatorsCount != 1023 {
			types.SetFullMode()
		}
		return c20Params{1023, 341, 600, 10}
	}
	if types.ValidatorsCount != 6 {
		types.SetTinyMode()
	}
	return c20Params{6, 2, 12, 4}
}

func c20Validators(seed uint32, n int) types.ValidatorsData {
	vs := make(types.ValidatorsData, n)
	for i := range vs {
		var b [8]byte
		binary.LittleEndian.PutUint32(b[:4], seed)
		binary.LittleEndian.PutUint32(b[4:], uint32(i))
		d := sha256.Sum256(b[:])
		vs[i].Ed25519 = types.Ed25519Public(d)
		d[0] ^= 0x55
		vs[i].Bandersnatch = types.BandersnatchPublic(d)
		copy(vs[i].Bls[:], d[:])
		copy(vs[i].Metadata[:], d[:])
	}
	return vs
}

func c20GenAssign(rt *rapid.T) c20AssignInput {
	in := c20AssignInput{Full: rapid.IntRange(0, 9).Draw(rt, "full") == 0, Entropy: c20GenEntropy(rt)}
	E := uint32(12)
	if in.Full {
		E = 600
	}
	epoch := rapid.OneOf(rapid.Uint32Range(0, 3), rapid.Uint32Range(0, (1<<32-1)/E-3)).Draw(rt, "epoch")
	in.Slot = epoch*E + rapid.Uint32Range(0, 3*E-1).Draw(rt, "phase")
	in.VSeed = rapid.Uint32Range(0, 50).Draw(rt, "vseed")
	return in
}

func c20CoreEq(a []types.CoreIndex, b []uint32) int {
	if len(a) != len(b) {
		return len(b)
	}
	for i := range a {
		if uint32(a[i]) != b[i] {
			return i
		}
	}
	return -1
}

func c20CheckAssign(c *kit.Case, in c20AssignInput) {
	if len(in.Entropy) != 32 {
		return
	}
	p := c20SetMode(in.Full)
	var e [32]byte
	copy(e[:], in.Entropy)
	t := in.Slot
	vals := c20Validators(in.VSeed, p.V)
	a1 := NewGuranatorAssignments(types.Entropy(e), types.TimeSlot(t), append(types.ValidatorsData(nil), vals...))
	want := c20RefP(e, t, p.V, p.C, p.E, p.R)

	// (a) the specified share: every core gets exactly V/C validators
	if len(a1.CoreAssignments) != p.V {
		c.Failf("assignment has %d entries, V=%d", len(a1.CoreAssignments), p.V)
	}
	per := make([]int, p.C)
	for i, core := range a1.CoreAssignments {
		if int(core) >= p.C {
			c.Failf("validator %d assigned to core %d >= C=%d", i, core, p.C)
		}
		per[core]++
	}
	for core, n := range per {
		if n != p.V/p.C {
			c.Failf("slot %d: core %d has %d validators, expected V/C=%d", t, core, n, p.V/p.C)
		}
	}
	// (b) equals P(e, t) of GP 11.20
	if at := c20CoreEq(a1.CoreAssignments, want); at >= 0 {
		c.Failf("slot %d (phase %d, rotation %d): assignment differs from P(e,t) at validator %d: got %v..., reference %v...",
			t, int(t)%p.E, (int(t)%p.E)/p.R, at, a1.CoreAssignments[:min(len(a1.CoreAssignments), 12)], want[:min(len(want), 12)])
	}
	// (c) identical for all nodes: same call again, and on a fresh chain state
	a2 := NewGuranatorAssignments(types.Entropy(e), types.TimeSlot(t), append(types.ValidatorsData(nil), vals...))
	blockchain.ResetInstance()
	a3 := NewGuranatorAssignments(types.Entropy(e), types.TimeSlot(t), append(types.ValidatorsData(nil), vals...))
	for k, o := range []GuranatorAssignments{a2, a3} {
		if at := c20CoreEq(o.CoreAssignments, want); at >= 0 {
			c.Failf("repeat %d (1 = same state, 2 = after ResetInstance) of the same call differs at validator %d", k+1, at)
		}
		if len(o.PublicKeys) != len(a1.PublicKeys) {
			c.Failf("repeat %d returns %d keys instead of %d", k+1, len(o.PublicKeys), len(a1.PublicKeys))
		}
		for i := range o.PublicKeys {
			if o.PublicKeys[i] != a1.PublicKeys[i] {
				c.Failf("repeat %d returns a different key set at validator %d", k+1, i)
			}
		}
	}
	// (d) rotation: one core per rotation period inside the epoch; constant inside a period
	phase := int(t) % p.E
	if phase+p.R < p.E && uint64(t)+uint64(p.R) <= 1<<32-1 {
		nxt := NewGuranatorAssignments(types.Entropy(e), types.TimeSlot(t+uint32(p.R)), append(types.ValidatorsData(nil), vals...))
		for i := range nxt.CoreAssignments {
			if int(nxt.CoreAssignments[i]) != (int(a1.CoreAssignments[i])+1)%p.C {
				c.Failf("slot %d -> %d (same epoch, one rotation period later): validator %d moves from core %d to %d, expected %d",
					t, t+uint32(p.R), i, a1.CoreAssignments[i], nxt.CoreAssignments[i], (int(a1.CoreAssignments[i])+1)%p.C)
			}
		}
		c.Class("assign_rotation_checked")
	} else {
		c.Class("assign_last_period_of_epoch")
	}
	if phase%p.R != p.R-1 && t < 1<<32-1 {
		nxt := NewGuranatorAssignments(types.Entropy(e), types.TimeSlot(t+1), append(types.ValidatorsData(nil), vals...))
		for i := range nxt.CoreAssignments {
			if nxt.CoreAssignments[i] != a1.CoreAssignments[i] {
				c.Failf("slot %d -> %d (same rotation period): validator %d changes core %d -> %d", t, t+1, i, a1.CoreAssignments[i], nxt.CoreAssignments[i])
			}
		}
	}
	// (e) the two helpers directly
	pc := permute(types.Entropy(e), types.TimeSlot(t))
	if at := c20CoreEq(pc, want); at >= 0 {
		c.Failf("permute(e, %d) differs from P(e,t) at %d", t, at)
	}
	if in.Full {
		c.Class("assign_full")
	} else {
		c.Class("assign_tiny")
	}
	c.NonTrivial()
}

// ---- sub-property 4: rotateCores ---------------------------------------------------

type c20RotInput struct {
	Full bool     `json:"full"`
	In   []uint32 `json:"in"`
	N    uint32   `json:"n"`
}

func c20GenRot(rt *rapid.T) c20RotInput {
	in := c20RotInput{Full: rapid.Bool().Draw(rt, "full")}
	C := uint32(2)
	if in.Full {
		C = 341
	}
	in.In = rapid.SliceOfN(rapid.Uint32Range(0, C-1), 0, 20).Draw(rt, "in")
	in.N = rapid.OneOf(rapid.Uint32Range(0, 2*C), rapid.Uint32Range(0, 60)).Draw(rt, "n")
	return in
}

func c20CheckRot(c *kit.Case, in c20RotInput) {
	p := c20SetMode(in.Full)
	got := rotateCores(c20ToU32(in.In), types.U32(in.N))
	if len(got) != len(in.In) {
		c.Failf("rotateCores changes the length %d -> %d", len(in.In), len(got))
	}
	for i, x := range in.In {
		if w := uint32((uint64(x) + uint64(in.N)) % uint64(p.C)); uint32(got[i]) != w {
			c.Failf("rotateCores: (%d + %d) mod %d = %d, got %d", x, in.N, p.C, w, got[i])
		}
	}
	if len(in.In) >= 2 {
		c.NonTrivial()
	}
	c.Class("rotate_cores")
}

// ---------------------------------------------------------------------------------------

type c20EnumLenInput struct {
	N int `json:"n"`
	K int `json:"k"` // entropy = SHA-256(n, k)
}

func c20CheckEnumLen(c *kit.Case, in c20EnumLenInput) {
	var b [8]byte
	binary.LittleEndian.PutUint32(b[:4], uint32(in.N))
	binary.LittleEndian.PutUint32(b[4:], uint32(in.K))
	d := sha256.Sum256(b[:])
	c20CheckShuffle(c, c20ShuffleInput{N: in.N, Entropy: d[:], Kind: in.K % 2, Mod: 341})
}

type c20EnumSlotInput struct {
	Full  bool   `json:"full"`
	K     int    `json:"k"`     // entropy index
	Epoch uint32 `json:"epoch"` // first of the three epochs
	Phase uint32 `json:"phase"` // 0 .. 3E-1
}

func c20CheckEnumSlot(c *kit.Case, in c20EnumSlotInput) {
	E := uint32(12)
	if in.Full {
		E = 600
	}
	if uint64(in.Epoch)*uint64(E)+uint64(in.Phase) > 1<<32-1 {
		return
	}
	var b [8]byte
	binary.LittleEndian.PutUint32(b[:4], uint32(in.K))
	b[7] = 0xC2
	d := sha256.Sum256(b[:])
	c20CheckAssign(c, c20AssignInput{Full: in.Full, Entropy: d[:], Slot: in.Epoch*E + in.Phase, VSeed: uint32(in.K)})
}

func TestVerif_C20(t *testing.T) {
	logger.Disable()
	// calibration of the reference against official vectors, BEFORE the session is
	// opened: a reference that is wrong must end as "inconclusive" (no verdict
	// file), never as a pass or a violation.
	for _, v := range c20Calib {
		got := c20RefShuffle(c20Iota(v.n), c20CalibEntropy(v.ent))
		if fmt.Sprint(got) != fmt.Sprint(v.out) {
			fmt.Printf("C20 reference model does not reproduce the official shuffle vector n=%d: %v (harness error, not a finding)\n", v.n, got)
			os.Exit(3)
		}
	}
	if got := c20RefShuffle(nil, [32]byte{}); len(got) != 0 {
		fmt.Println("C20 reference: shuffle of the empty sequence is not empty")
		os.Exit(3)
	}
	s := kit.Begin(t, "C20")
	defer s.Finish()

	// every length 0..1100 (quick: 2 entropies each, thorough: 8)
	if !kit.EnumSub(s, "shuffle_all_lengths", c20CheckEnumLen) {
		reps := s.Pick(2, 8)
		idx := 0
	outer:
		for n := 0; n <= 1100; n++ {
			for k := 0; k < reps; k++ {
				idx++
				if idx%s.NShards != s.Shard {
					continue
				}
				if !kit.Each(s, "shuffle_all_lengths", c20EnumLenInput{N: n, K: k}, c20CheckEnumLen) {
					break outer
				}
			}
		}
	}
	kit.Run(s, "shuffle_vs_reference", kit.N{Quick: 12000, Thorough: 150000}, c20GenShuffle, c20CheckShuffle)
	kit.Run(s, "fisher_yates_arbitrary_numbers", kit.N{Quick: 20000, Thorough: 400000}, c20GenFY, c20CheckFY)
	kit.Run(s, "rotate_cores", kit.N{Quick: 8000, Thorough: 100000}, c20GenRot, c20CheckRot)

	// all slots of three consecutive epochs, tiny and full
	if !kit.EnumSub(s, "assignment_all_slots_of_3_epochs", c20CheckEnumSlot) {
		type plan struct {
			full   bool
			nEnt   int
			epochs []uint32
			stride uint32
		}
		plans := []plan{
			{false, s.Pick(8, 64), []uint32{0, 1, 5, 1000, 357913938 /* last three epochs below 2^32 */}, 1},
			{true, s.Pick(1, 2), []uint32{0, 7158275 /* last three full epochs below 2^32 */}, uint32(s.Pick(7, 1))},
		}
		idx := 0
	outer2:
		for _, pl := range plans {
			E := uint32(12)
			if pl.full {
				E = 600
			}
			for k := 0; k < pl.nEnt; k++ {
				for _, ep := range pl.epochs {
					for ph := uint32(0); ph < 3*E; ph += pl.stride {
						idx++
						if idx%s.NShards != s.Shard {
							continue
						}
						if !kit.Each(s, "assignment_all_slots_of_3_epochs", c20EnumSlotInput{Full: pl.full, K: k, Epoch: ep, Phase: ph}, c20CheckEnumSlot) {
							break outer2
						}
					}
				}
			}
		}
	}
	kit.Run(s, "assignment_vs_reference", kit.N{Quick: 6000, Thorough: 80000}, c20GenAssign, c20CheckAssign)
	c20RunGStar(s)
}
