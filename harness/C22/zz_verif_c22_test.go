package accumulation

// C22: accumulation is deterministic.
//
// A prior state with 3..6 services (hand-assembled code: fetch everything the
// service is given, store it under a key derived from it, emit a fixed plan of
// transfers, halt with a 32-byte output) and 1..3 work reports is accumulated
// through the package's real entry point DeferredTransfers() N times, each time
// from a freshly built, identical singleton, under GOMAXPROCS in {1,2,4,16}
// and types.MaxWorkers in {1,2,32}. Oracle: every run yields the identical
// canonical observation (service accounts, privileges, queues, theta', xi',
// accumulation statistics, raw key-values). Second sub-check: the parallel step
// (12.17) alone: per-sender transfer subsequences, outputs and gas identical.

import (
	"encoding/binary"
	"fmt"
	"runtime"
	"sort"
	"strings"
	"testing"

	"github.com/New-JAMneration/JAM-Protocol/internal/blockchain"
	"github.com/New-JAMneration/JAM-Protocol/internal/types"
	kit "github.com/New-JAMneration/JAM-Protocol/internal/verifkit"
	"golang.org/x/crypto/blake2b"
	"pgregory.net/rapid"
)

// ------------------------------------------------------------------ input

type c22Xfer struct {
	To     int    `json:"to"` // service index; -1 = absent id
	Amount uint64 `json:"amount"`
	GasL   uint64 `json:"gas_l"`
}

type c22Svc struct {
	ID      uint32    `json:"id"`
	Plan    []c22Xfer `json:"plan"`
	Output  bool      `json:"output"`             // halt with a 32-byte output (else empty)
	OutSeen bool      `json:"out_seen,omitempty"` // with Output: the output is the first 32 octets of what the service fetched (differs from round to round)
	MemoGas uint64    `json:"memo_gas"`           // minimum memo gas of the account
	// AssignTo k > 0: when the service was given something, it calls assign(core 0, queue = the
	// fetched bytes, new assigner = service k-1): a privilege used in a way that depends on the
	// inputs and cannot be repeated (it gives the role away)
	AssignTo int `json:"assign_to,omitempty"`
	// EjectTo k > 0: after its transfers the service calls eject on service k-1.
	// VictimOf k > 0: the account is not a code-bearing service but an ejectable shell whose code
	// hash is E_32(id of service k-1), with two items and one expired lookup entry [0, 0].
	EjectTo  int `json:"eject_to,omitempty"`
	VictimOf int `json:"victim_of,omitempty"`
}

type c22Result struct {
	Svc int    `json:"svc"`
	Gas uint64 `json:"gas"`
}

type c22Input struct {
	Services   []c22Svc      `json:"services"`
	Reports    [][]c22Result `json:"reports"`
	Slot       uint32        `json:"slot"`
	Bless      int           `json:"bless"` // service index or -1 (absent id)
	Designate  int           `json:"designate"`
	CreateAcct int           `json:"create_acct"`
	Assign     int           `json:"assign"`
	Always     []c22Result   `json:"always"` // always-accumulate services with their free gas
	Runs       int           `json:"runs"`   // 0 = tier default
}

const c22AbsentID = 4000000001

// c22GenChain: a several-round shape. One service A is accumulated because of a work result and
// pays k forwarders; the forwarders (round 2, invoked because of transfers only) each pay a
// PRIVILEGED service P several times; P (round 3) is in no earlier round. One forwarder may also
// have a work result of its own, so that it is accumulated in two rounds of the block, and yield
// what it saw (a different output per round).
func c22GenChain(rt *rapid.T) c22Input {
	var in c22Input
	k := rapid.IntRange(2, 4).Draw(rt, "n_forwarders")
	ids := rapid.Permutation([]uint32{1, 2, 5, 77, 300, 65536, 70001, 1 << 31, 4000000000}).Draw(rt, "ids")
	ns := k + 2
	for i := 0; i < ns; i++ {
		in.Services = append(in.Services, c22Svc{ID: ids[i], Output: rapid.IntRange(0, 2).Draw(rt, "output") != 0,
			OutSeen: rapid.Bool().Draw(rt, "out_seen")})
	}
	a, p := 0, ns-1
	for f := 1; f <= k; f++ {
		for j := rapid.IntRange(1, 2).Draw(rt, "a_pays"); j > 0; j-- {
			in.Services[a].Plan = append(in.Services[a].Plan, c22Xfer{To: f, Amount: uint64(rapid.IntRange(0, 9).Draw(rt, "amount")), GasL: 3000})
		}
		for j := rapid.IntRange(2, 4).Draw(rt, "f_pays"); j > 0; j-- {
			in.Services[f].Plan = append(in.Services[f].Plan, c22Xfer{To: p, Amount: uint64(rapid.IntRange(0, 9).Draw(rt, "amount")),
				GasL: rapid.SampledFrom([]uint64{150, 200, 300}).Draw(rt, "gas_l")})
		}
	}
	in.Reports = [][]c22Result{{{Svc: a, Gas: 100000}}}
	if rapid.Bool().Draw(rt, "forwarder_has_result") {
		f := rapid.IntRange(1, k).Draw(rt, "which_forwarder")
		in.Reports[0] = append(in.Reports[0], c22Result{Svc: f, Gas: 50000})
		in.Services[f].Output = true
	}
	in.Slot = rapid.Uint32Range(1, 200).Draw(rt, "slot")
	in.Bless, in.Designate, in.CreateAcct, in.Assign = -1, -1, -1, -1
	switch rapid.IntRange(0, 3).Draw(rt, "privilege_of_p") {
	case 0:
		in.Bless = p
	case 1:
		in.Designate = p
	case 2:
		in.CreateAcct = p
	default:
		in.Assign = p
		if rapid.IntRange(0, 3).Draw(rt, "p_hands_over") != 0 {
			in.Services[p].AssignTo = a + 1
		}
	}
	return in
}

// c22GenEject: service 0 ejects service 1 while service 1 is itself accumulated in the same
// round (it has a work result of its own): whether the removal or the victim's own result wins
// must not depend on the order in which the round's results are visited.
func c22GenEject(rt *rapid.T) c22Input {
	var in c22Input
	ids := rapid.Permutation([]uint32{1, 2, 5, 77, 300, 65536, 70001, 1 << 31, 4000000000}).Draw(rt, "ids")
	ns := rapid.IntRange(2, 5).Draw(rt, "n_services")
	for i := 0; i < ns; i++ {
		in.Services = append(in.Services, c22Svc{ID: ids[i], Output: rapid.Bool().Draw(rt, "output")})
	}
	in.Services[0].EjectTo = 2
	in.Services[1].VictimOf = 1
	in.Reports = [][]c22Result{{{Svc: 0, Gas: 100000}}}
	victim := c22Result{Svc: 1, Gas: 20000}
	if rapid.Bool().Draw(rt, "same_report") {
		in.Reports[0] = append(in.Reports[0], victim)
	} else {
		in.Reports = append(in.Reports, []c22Result{victim})
	}
	for i := 2; i < ns; i++ { // bystanders that pay the ejector and the victim
		in.Reports[0] = append(in.Reports[0], c22Result{Svc: i, Gas: 50000})
		in.Services[i].Plan = append(in.Services[i].Plan, c22Xfer{To: rapid.IntRange(0, 1).Draw(rt, "pays"), Amount: uint64(rapid.IntRange(1, 9).Draw(rt, "amount")), GasL: 200})
	}
	in.Slot = rapid.Uint32Range(40, 200).Draw(rt, "slot") // the victim's entry [0, 0] is older than D = 32 slots
	in.Bless, in.Designate, in.CreateAcct, in.Assign = -1, -1, -1, -1
	return in
}

func c22Gen(rt *rapid.T) c22Input {
	switch rapid.IntRange(0, 7).Draw(rt, "shape") {
	case 0, 1:
		return c22GenChain(rt)
	case 2:
		return c22GenEject(rt)
	}
	var in c22Input
	ns := rapid.IntRange(3, 6).Draw(rt, "n_services")
	ids := rapid.Permutation([]uint32{1, 2, 5, 77, 300, 65536, 70001, 1 << 31, 4000000000}).Draw(rt, "ids")
	for i := 0; i < ns; i++ {
		in.Services = append(in.Services, c22Svc{ID: ids[i], Output: rapid.IntRange(0, 2).Draw(rt, "output") != 0,
			MemoGas: rapid.SampledFrom([]uint64{0, 0, 0, 50}).Draw(rt, "memo_gas")})
	}
	// topology: one main receiver with several senders (>= 13 transfers in most cases), plus a few stray transfers
	recv := rapid.IntRange(0, ns-1).Draw(rt, "receiver")
	nsend := rapid.IntRange(2, ns-1).Draw(rt, "n_senders")
	var senders []int
	for _, s := range rapid.Permutation(c22Seq(ns)).Draw(rt, "sender_perm") {
		if s != recv && len(senders) < nsend {
			senders = append(senders, s)
		}
	}
	big := rapid.IntRange(0, 9).Draw(rt, "many") != 0
	for _, s := range senders {
		k := rapid.IntRange(1, 4).Draw(rt, "k_small")
		if big {
			k = rapid.IntRange(5, 10).Draw(rt, "k_big")
		}
		for j := 0; j < k; j++ {
			in.Services[s].Plan = append(in.Services[s].Plan, c22Xfer{To: recv, Amount: uint64(rapid.IntRange(0, 9).Draw(rt, "amount")),
				GasL: rapid.SampledFrom([]uint64{150, 200, 200, 300}).Draw(rt, "gas_l")})
		}
	}
	nstray := rapid.IntRange(0, 4).Draw(rt, "n_stray")
	for j := 0; j < nstray; j++ {
		from := rapid.IntRange(0, ns-1).Draw(rt, "stray_from")
		to := rapid.IntRange(-1, ns-1).Draw(rt, "stray_to")
		if len(in.Services[from].Plan) >= 20 {
			continue
		}
		x := c22Xfer{To: to, Amount: uint64(rapid.IntRange(0, 9).Draw(rt, "amount")), GasL: rapid.SampledFrom([]uint64{10, 150, 200}).Draw(rt, "gas_l")}
		pos := rapid.IntRange(0, len(in.Services[from].Plan)).Draw(rt, "stray_pos")
		pl := append([]c22Xfer{}, in.Services[from].Plan[:pos]...)
		pl = append(pl, x)
		in.Services[from].Plan = append(pl, in.Services[from].Plan[pos:]...)
	}
	// reports: every sender is accumulated in the first round; others sometimes
	nr := rapid.IntRange(1, 3).Draw(rt, "n_reports")
	in.Reports = make([][]c22Result, nr)
	place := func(svc int) {
		r := rapid.IntRange(0, nr-1).Draw(rt, "report_of")
		in.Reports[r] = append(in.Reports[r], c22Result{Svc: svc, Gas: rapid.SampledFrom([]uint64{20000, 50000, 100000}).Draw(rt, "acc_gas")})
	}
	for _, s := range senders {
		place(s)
	}
	for s := 0; s < ns; s++ {
		if rapid.IntRange(0, 3).Draw(rt, "extra_result") == 0 {
			place(s)
		}
	}
	for r := range in.Reports {
		if len(in.Reports[r]) == 0 {
			place2 := rapid.IntRange(0, ns-1).Draw(rt, "filler")
			in.Reports[r] = append(in.Reports[r], c22Result{Svc: place2, Gas: 30000})
		}
	}
	in.Slot = rapid.Uint32Range(1, 200).Draw(rt, "slot")
	priv := func(label string) int {
		return rapid.SampledFrom([]int{-1, -1, 0, 1, 2}).Draw(rt, label)
	}
	in.Bless, in.Designate, in.CreateAcct, in.Assign = priv("bless"), priv("designate"), priv("create_acct"), priv("assign")
	if rapid.IntRange(0, 3).Draw(rt, "has_always") == 0 {
		in.Always = append(in.Always, c22Result{Svc: rapid.IntRange(0, ns-1).Draw(rt, "always_svc"), Gas: 5000})
	}
	return in
}

func c22Seq(n int) []int {
	s := make([]int, n)
	for i := range s {
		s[i] = i
	}
	return s
}

// ------------------------------------------------------------------ assembler (own small encoder: GP A.5 formats)

type c22Asm struct {
	code []byte
	mask []bool
}

func (a *c22Asm) emit(b ...byte) {
	for i := range b {
		a.mask = append(a.mask, i == 0)
	}
	a.code = append(a.code, b...)
}
func (a *c22Asm) loadImm64(r int, v uint64) {
	a.emit(binary.LittleEndian.AppendUint64([]byte{20, byte(r)}, v)...)
}
func (a *c22Asm) ecalli(id byte)   { a.emit(10, id) }
func (a *c22Asm) moveReg(d, s int) { a.emit(100, byte(d)|byte(s)<<4) }

func c22LE(v uint64, n int) []byte {
	out := make([]byte, n)
	for i := range out {
		out[i] = byte(v >> (8 * uint(i)))
	}
	return out
}

func c22Natural(x uint64) []byte {
	if x < 1<<7 {
		return []byte{byte(x)}
	}
	if x < 1<<14 {
		return []byte{byte(0x80 + x>>8), byte(x)}
	}
	return []byte{byte(0xC0 + x>>16), byte(x), byte(x >> 8)}
}

const (
	c22ROBase = 0x10000
	c22Buf    = 0x30000 // first RW page (read-only data stays below 64 KiB)
	c22BufLen = 4 * 4096
)

func c22Memo(svcIdx, seq int) [128]byte {
	var m [128]byte
	m[0], m[1] = byte(svcIdx), byte(seq)
	for j := 2; j < 128; j++ {
		m[j] = byte(svcIdx*31 + seq*7 + j)
	}
	return m
}

// c22ServiceCode returns the code preimage (metadata ++ standard program blob) of service idx.
func c22ServiceCode(in *c22Input, idx int) []byte {
	svc := in.Services[idx]
	var a c22Asm
	var ro []byte
	put := func(b []byte) uint64 {
		addr := c22ROBase + uint64(len(ro))
		ro = append(ro, b...)
		return addr
	}
	for i := 0; i < 5; i++ {
		a.emit(0) // trap; pc 0..4
	}
	// fetch(o = BUF, f = 0, l = BUFLEN, selector 14 = all operands and transfers)
	a.loadImm64(7, c22Buf)
	a.loadImm64(8, 0)
	a.loadImm64(9, c22BufLen)
	a.loadImm64(10, 14)
	a.ecalli(1)
	// nothing given (NONE): skip the write.  branch_eq_imm r7, -1, +skip
	brAt := len(a.code)
	a.emit(81, 7|4<<4, 0xFF, 0xFF, 0xFF, 0xFF, 0, 0, 0, 0)
	// write(key = BUF[0:2], value = BUF[0:omega_7])
	a.moveReg(10, 7)
	a.loadImm64(7, c22Buf)
	a.loadImm64(8, 2)
	a.loadImm64(9, c22Buf)
	a.ecalli(4)
	if svc.AssignTo > 0 && svc.AssignTo <= len(in.Services) {
		a.loadImm64(7, 0)
		a.loadImm64(8, c22Buf)
		a.loadImm64(9, uint64(in.Services[svc.AssignTo-1].ID))
		a.ecalli(15)
	}
	a.emit(1) // fallthrough: the next instruction starts a basic block (branch target)
	target := len(a.code)
	binary.LittleEndian.PutUint32(a.code[brAt+6:], uint32(int32(target-brAt)))
	for seq, x := range svc.Plan {
		dest := uint64(c22AbsentID)
		if x.To >= 0 && x.To < len(in.Services) {
			dest = uint64(in.Services[x.To].ID)
		}
		m := c22Memo(idx, seq)
		a.loadImm64(7, dest)
		a.loadImm64(8, x.Amount)
		a.loadImm64(9, x.GasL)
		a.loadImm64(10, put(m[:]))
		a.ecalli(20)
	}
	if svc.EjectTo > 0 && svc.EjectTo <= len(in.Services) {
		h := c22VictimHash()
		a.loadImm64(7, uint64(in.Services[svc.EjectTo-1].ID))
		a.loadImm64(8, put(h[:]))
		a.ecalli(21)
	}
	out := blake2b.Sum256([]byte(fmt.Sprintf("output of service %d", svc.ID)))
	outAddr := put(out[:])
	if svc.OutSeen {
		outAddr = c22Buf
	}
	a.loadImm64(7, outAddr)
	if svc.Output {
		a.loadImm64(8, 32)
	} else {
		a.loadImm64(8, 0)
	}
	a.emit(50, 0) // jump_ind r0 (= 2^32 - 2^16): halt
	var inner []byte
	inner = append(inner, 0, 1)
	inner = append(inner, c22Natural(uint64(len(a.code)))...)
	inner = append(inner, a.code...)
	kb := make([]byte, (len(a.code)+7)/8)
	for i, bit := range a.mask {
		if bit {
			kb[i/8] |= 1 << (uint(i) % 8)
		}
	}
	inner = append(inner, kb...)
	var p []byte
	p = append(p, c22LE(uint64(len(ro)), 3)...)
	p = append(p, c22LE(0, 3)...)
	p = append(p, c22LE(4, 2)...) // z = 4 heap pages: the fetch buffer
	p = append(p, c22LE(4096, 3)...)
	p = append(p, ro...)
	p = append(p, c22LE(uint64(len(inner)), 4)...)
	p = append(p, inner...)
	return append([]byte{3, 'c', '2', '2'}, p...)
}

// ------------------------------------------------------------------ building the singleton

func c22ID(in *c22Input, idx int) types.ServiceID {
	if idx >= 0 && idx < len(in.Services) {
		return types.ServiceID(in.Services[idx].ID)
	}
	return types.ServiceID(c22AbsentID)
}

func c22VictimHash() types.OpaqueHash {
	return types.OpaqueHash(blake2b.Sum256([]byte("c22 victim lookup entry")))
}

func c22Accounts(in *c22Input) types.ServiceAccountState {
	d := types.ServiceAccountState{}
	for i, s := range in.Services {
		if s.VictimOf > 0 && s.VictimOf <= len(in.Services) {
			var ch types.OpaqueHash
			binary.LittleEndian.PutUint32(ch[:4], in.Services[s.VictimOf-1].ID)
			const l = 5
			d[types.ServiceID(s.ID)] = types.ServiceAccount{
				ServiceInfo:    types.ServiceInfo{CodeHash: ch, Balance: 1000, MinItemGas: 1, Bytes: 81 + l, Items: 2, CreationSlot: 1, ParentService: types.ServiceID(s.ID)},
				PreimageLookup: types.PreimagesMapEntry{},
				LookupDict:     types.LookupMetaMapEntry{types.LookupMetaMapkey{Hash: c22VictimHash(), Length: l}: types.TimeSlotSet{0, 0}},
				StorageDict:    types.Storage{},
			}
			continue
		}
		code := c22ServiceCode(in, i)
		h := types.OpaqueHash(blake2b.Sum256(code))
		acc := types.ServiceAccount{
			PreimageLookup: types.PreimagesMapEntry{h: code},
			LookupDict:     types.LookupMetaMapEntry{types.LookupMetaMapkey{Hash: h, Length: types.U32(len(code))}: types.TimeSlotSet{0}},
			StorageDict:    types.Storage{},
		}
		acc.ServiceInfo = types.ServiceInfo{CodeHash: h, Balance: 1 << 40, MinItemGas: 1, MinMemoGas: types.Gas(s.MemoGas),
			Bytes: types.U64(81 + len(code)), Items: 2, CreationSlot: 1, ParentService: types.ServiceID(s.ID)}
		d[types.ServiceID(s.ID)] = acc
	}
	return d
}

func c22Reports(in *c22Input) []types.WorkReport {
	var out []types.WorkReport
	for ri, rs := range in.Reports {
		var w types.WorkReport
		w.PackageSpec.Hash = types.WorkPackageHash(blake2b.Sum256([]byte(fmt.Sprintf("package %d", ri))))
		w.PackageSpec.ExportsRoot = types.ExportsRoot(blake2b.Sum256([]byte(fmt.Sprintf("exports %d", ri))))
		w.PackageSpec.Length = types.U32(ri)
		w.CoreIndex = types.CoreIndex(ri % types.CoresCount)
		w.AuthorizerHash = types.OpaqueHash(blake2b.Sum256([]byte("authorizer")))
		w.AuthOutput = types.ByteSequence{byte(ri), 2, 3}
		for k, r := range rs {
			w.Results = append(w.Results, types.WorkResult{
				ServiceID:     c22ID(in, r.Svc),
				CodeHash:      types.OpaqueHash(blake2b.Sum256([]byte("code"))),
				PayloadHash:   types.OpaqueHash(blake2b.Sum256([]byte(fmt.Sprintf("payload %d %d", ri, k)))),
				AccumulateGas: types.Gas(r.Gas),
				Result:        types.WorkExecResult{Type: types.WorkExecResultOk, Data: []byte{byte(ri), byte(k), 9}},
			})
		}
		out = append(out, w)
	}
	return out
}

func c22Privileges(in *c22Input) types.Privileges {
	assign := make(types.ServiceIDList, types.CoresCount)
	for c := range assign {
		assign[c] = c22ID(in, in.Assign)
	}
	always := types.AlwaysAccumulateMap{}
	for _, a := range in.Always {
		always[c22ID(in, a.Svc)] = types.Gas(a.Gas)
	}
	return types.Privileges{Bless: c22ID(in, in.Bless), Designate: c22ID(in, in.Designate), CreateAcct: c22ID(in, in.CreateAcct), Assign: assign, AlwaysAccum: always}
}

// c22Prime installs the prior state in a FRESH singleton; everything is rebuilt from the input, so all runs start identical.
func c22Prime(in *c22Input) *blockchain.ChainState {
	blockchain.ResetInstance()
	cs := blockchain.GetInstance()
	prior := cs.GetPriorStates()
	prior.SetDelta(c22Accounts(in))
	prior.SetChi(c22Privileges(in))
	varphi := make(types.AuthQueues, types.CoresCount)
	for c := range varphi {
		varphi[c] = make(types.AuthQueue, types.AuthQueueSize)
	}
	prior.SetVarphi(varphi)
	prior.SetTau(types.TimeSlot(in.Slot - 1))
	cs.AddBlock(types.Block{Header: types.Header{Slot: types.TimeSlot(in.Slot)}})
	post := cs.GetPosteriorStates()
	post.SetTau(types.TimeSlot(in.Slot))
	var eta types.Entropy
	eta[0], eta[5] = 0x22, byte(in.Slot)
	post.SetEta0(eta)
	cs.GetIntermediateStates().SetAccumulatableWorkReports(c22Reports(in))
	cs.SetPostStateUnmatchedKeyVals(types.StateKeyVals{})
	return cs
}

// ------------------------------------------------------------------ observation

func c22AccountsText(d types.ServiceAccountState, label string) []string {
	var lines []string
	for id, a := range d {
		si := a.ServiceInfo
		lines = append(lines, fmt.Sprintf("%s %d info ch=%x bal=%d g=%d m=%d bytes=%d gratis=%d items=%d cs=%d la=%d parent=%d", label, id,
			si.CodeHash[:6], si.Balance, si.MinItemGas, si.MinMemoGas, si.Bytes, si.DepositOffset, si.Items, si.CreationSlot, si.LastAccumulationSlot, si.ParentService))
		for k, v := range a.StorageDict {
			lines = append(lines, fmt.Sprintf("%s %d s %x = %x", label, id, k, []byte(v)))
		}
		for k, v := range a.LookupDict {
			lines = append(lines, fmt.Sprintf("%s %d l %x %d = %v", label, id, k.Hash[:6], k.Length, v))
		}
		for k, v := range a.PreimageLookup {
			lines = append(lines, fmt.Sprintf("%s %d p %x = %x", label, id, k[:6], blake2b.Sum256(v)))
		}
	}
	sort.Strings(lines)
	return lines
}

func c22PrivText(p types.Privileges) string {
	var al []string
	for k, v := range p.AlwaysAccum {
		al = append(al, fmt.Sprintf("%d:%d", k, v))
	}
	sort.Strings(al)
	return fmt.Sprintf("chi bless=%d designate=%d create=%d assign=%v always=%v", p.Bless, p.Designate, p.CreateAcct, p.Assign, al)
}

func c22Observe(cs *blockchain.ChainState) string {
	var lines []string
	lines = append(lines, c22AccountsText(cs.GetIntermediateStates().GetDeltaDoubleDagger(), "delta")...)
	post := cs.GetPosteriorStates()
	lines = append(lines, c22PrivText(post.GetChi()))
	lines = append(lines, fmt.Sprintf("varphi %x", blake2b.Sum256([]byte(fmt.Sprintf("%v", post.GetVarphi())))))
	lines = append(lines, fmt.Sprintf("iota %d", len(post.GetIota())))
	for i, t := range post.GetLastAccOut() {
		lines = append(lines, fmt.Sprintf("theta[%d] %d %x", i, t.ServiceID, t.Hash))
	}
	var st []string
	for s, v := range cs.GetIntermediateStates().GetAccumulationStatistics() {
		st = append(st, fmt.Sprintf("stat %d gas=%d n=%d", s, v.Gas, v.NumAccumulatedReports))
	}
	sort.Strings(st)
	lines = append(lines, st...)
	xi := post.GetXi()
	if len(xi) > 0 {
		lines = append(lines, fmt.Sprintf("xi_last %x", xi[len(xi)-1]))
	}
	var raw []string
	for _, kv := range cs.GetPostStateUnmatchedKeyVals() {
		raw = append(raw, fmt.Sprintf("raw %x = %x", kv.Key, []byte(kv.Value)))
	}
	sort.Strings(raw)
	lines = append(lines, raw...)
	return strings.Join(lines, "\n")
}

// c22ParseRecorded decodes a value recorded by the service program (the fetch-14 encoding): the leading
// deferred transfers (153 bytes each after the tag) and the undecoded rest.
type c22Seen struct {
	Sender uint32
	Svc    byte
	Seq    byte
	Raw    string
}

func c22ParseRecorded(v []byte) (items []c22Seen, rest string, ok bool) {
	if len(v) < 1 || v[0] >= 128 {
		return nil, "", false
	}
	n := int(v[0])
	p := v[1:]
	for len(items) < n && len(p) >= 153 && p[0] == 1 {
		items = append(items, c22Seen{Sender: binary.LittleEndian.Uint32(p[1:5]), Svc: p[17], Seq: p[18], Raw: string(p[:153])})
		p = p[153:]
	}
	return items, string(p), true
}

// c22OnlySameSenderOrder reports whether two recorded values hold the same transfers, each sorted by sender, and differ
// only in the relative order of transfers that come from the same sender.
func c22OnlySameSenderOrder(a, b []byte) (bool, int) {
	ia, ra, oka := c22ParseRecorded(a)
	ib, rb, okb := c22ParseRecorded(b)
	if !oka || !okb || ra != rb || len(ia) != len(ib) || len(a) != len(b) {
		return false, 0
	}
	cnt := map[string]int{}
	for _, x := range ia {
		cnt[x.Raw]++
	}
	for _, x := range ib {
		cnt[x.Raw]--
	}
	for _, c := range cnt {
		if c != 0 {
			return false, 0
		}
	}
	for _, l := range [][]c22Seen{ia, ib} {
		for i := 1; i < len(l); i++ {
			if l[i-1].Sender > l[i].Sender {
				return false, 0
			}
		}
	}
	return true, len(ia)
}

func c22Diff(a, b string) string {
	la, lb := strings.Split(a, "\n"), strings.Split(b, "\n")
	inA, inB := map[string]bool{}, map[string]bool{}
	for _, l := range la {
		inA[l] = true
	}
	for _, l := range lb {
		inB[l] = true
	}
	var out []string
	for _, l := range la {
		if !inB[l] {
			out = append(out, "  run A only: "+c22Short(l))
		}
	}
	for _, l := range lb {
		if !inA[l] {
			out = append(out, "  run B only: "+c22Short(l))
		}
	}
	if len(out) > 8 {
		out = append(out[:8], fmt.Sprintf("  … %d more lines", len(out)-8))
	}
	return strings.Join(out, "\n")
}

func c22Short(s string) string {
	if len(s) > 400 {
		return s[:400] + "…"
	}
	return s
}

// c22StorageLine parses a line "delta <id> s <key> = <val>" of the observation.
func c22StorageLine(l string) (prefix string, val []byte, ok bool) {
	if !strings.HasPrefix(l, "delta ") {
		return "", nil, false
	}
	i := strings.Index(l, " = ")
	f := strings.Fields(l)
	if i < 0 || len(f) < 5 || f[2] != "s" {
		return "", nil, false
	}
	var v []byte
	if _, err := fmt.Sscanf(l[i+3:], "%x", &v); err != nil && len(l[i+3:]) > 0 {
		return "", nil, false
	}
	return l[:i], v, true
}

// c22KnownUnstable: the two observations differ only in recorded values that are permutations of the same transfers
// within equal senders (>= 13 transfers, i.e. beyond the insertion-sort threshold of sort.Slice).
func c22KnownUnstable(a, b string) (bool, string) {
	la, lb := strings.Split(a, "\n"), strings.Split(b, "\n")
	if len(la) != len(lb) {
		return false, ""
	}
	detail := ""
	for i := range la {
		if la[i] == lb[i] {
			continue
		}
		pa, va, oka := c22StorageLine(la[i])
		pb, vb, okb := c22StorageLine(lb[i])
		if !oka || !okb || pa != pb {
			return false, ""
		}
		same, n := c22OnlySameSenderOrder(va, vb)
		if !same || n < 13 {
			return false, ""
		}
		ia, _, _ := c22ParseRecorded(va)
		ib, _, _ := c22ParseRecorded(vb)
		seq := func(l []c22Seen) string {
			var o []string
			for _, x := range l {
				o = append(o, fmt.Sprintf("%d#%d", x.Sender, x.Seq))
			}
			return strings.Join(o, " ")
		}
		detail = fmt.Sprintf("%s: %d incoming transfers recorded in two different orders of the same-sender transfers (sender#emission index): [%s] vs [%s]", pa, n, seq(ia), seq(ib))
	}
	return detail != "", detail
}

// ------------------------------------------------------------------ checks

var c22Procs = []int{1, 2, 4, 16}
var c22Workers = []int{1, 2, 32}

func c22Valid(in *c22Input) bool {
	if len(in.Services) < 2 || len(in.Services) > 8 || len(in.Reports) < 1 || len(in.Reports) > 4 || in.Slot < 1 || in.Runs < 0 || in.Runs > 2000 {
		return false
	}
	seen := map[uint32]bool{c22AbsentID: true}
	for _, s := range in.Services {
		if seen[s.ID] || len(s.Plan) > 24 {
			return false
		}
		seen[s.ID] = true
		for _, x := range s.Plan {
			if x.GasL > 100000 || x.Amount > 1000 {
				return false
			}
		}
	}
	for _, r := range in.Reports {
		if len(r) < 1 || len(r) > 8 {
			return false
		}
		for _, x := range r {
			if x.Gas > 1000000 {
				return false
			}
		}
	}
	return true
}

// c22Shape classifies the case: the largest number of transfers aimed at one receiver and the number of distinct senders among them.
func c22Shape(in *c22Input) (maxTo int, senders int) {
	cnt := map[int]int{}
	snd := map[int]map[int]bool{}
	for si, s := range in.Services {
		for _, x := range s.Plan {
			if x.To >= 0 && x.To < len(in.Services) {
				cnt[x.To]++
				if snd[x.To] == nil {
					snd[x.To] = map[int]bool{}
				}
				snd[x.To][si] = true
			}
		}
	}
	for to, n := range cnt {
		if n > maxTo || (n == maxTo && len(snd[to]) > senders) {
			maxTo, senders = n, len(snd[to])
		}
	}
	return
}

func c22CheckRound(c *kit.Case, in c22Input) {
	if !c22Valid(&in) {
		return
	}
	runs := in.Runs
	if runs == 0 {
		runs = c.Session().Pick(24, 400)
	}
	oldProcs := runtime.GOMAXPROCS(0)
	oldWorkers := types.MaxWorkers
	defer func() { runtime.GOMAXPROCS(oldProcs); types.MaxWorkers = oldWorkers }()

	maxTo, senders := c22Shape(&in)
	switch {
	case maxTo >= 13 && senders >= 2:
		c.Class("ge13_to_one_receiver_ge2_senders")
		c.NonTrivial()
	case senders >= 2:
		c.Class("lt13_to_one_receiver_ge2_senders")
	default:
		c.Class("single_sender")
	}
	var first string
	knownDetail := ""
	for r := 0; r < runs; r++ {
		runtime.GOMAXPROCS(c22Procs[r%len(c22Procs)])
		types.MaxWorkers = c22Workers[(r/len(c22Procs))%len(c22Workers)]
		cs := c22Prime(&in)
		if err := DeferredTransfers(); err != nil {
			c.Failf("run %d: DeferredTransfers returned %v", r, err)
		}
		obs := c22Observe(cs)
		if r == 0 {
			first = obs
			if strings.Contains(obs, " s ") {
				c.Class("some_service_recorded_its_inputs")
			}
			continue
		}
		if obs != first {
			if ok, d := c22KnownUnstable(first, obs); ok {
				knownDetail = fmt.Sprintf("run 0 (GOMAXPROCS %d, MaxWorkers %d) vs run %d (GOMAXPROCS %d, MaxWorkers %d): %s", c22Procs[0], c22Workers[0], r,
					c22Procs[r%len(c22Procs)], c22Workers[(r/len(c22Procs))%len(c22Workers)], d)
				continue
			}
			c.Failf("the same accumulation round from identical prior states gave different posterior observations: run 0 (GOMAXPROCS %d, MaxWorkers %d) vs run %d (GOMAXPROCS %d, MaxWorkers %d)\n%s",
				c22Procs[0], c22Workers[0], r, c22Procs[r%len(c22Procs)], c22Workers[(r/len(c22Procs))%len(c22Workers)], c22Diff(first, obs))
		}
	}
	if knownDetail != "" {
		c.Class("kf_c22_1_same_sender_order_varies")
		c.Known("KF-C22-1", knownDetail)
	}
}

// parallel step alone (12.17): transfers per sender in emission order, outputs, gas, state
func c22CheckParallel(c *kit.Case, in c22Input) {
	if !c22Valid(&in) {
		return
	}
	runs := in.Runs
	if runs == 0 {
		runs = c.Session().Pick(12, 100)
	}
	oldProcs := runtime.GOMAXPROCS(0)
	oldWorkers := types.MaxWorkers
	defer func() { runtime.GOMAXPROCS(oldProcs); types.MaxWorkers = oldWorkers }()
	var first, firstRaw string
	orderVaries := false
	for r := 0; r < runs; r++ {
		runtime.GOMAXPROCS(c22Procs[r%len(c22Procs)])
		types.MaxWorkers = c22Workers[(r/len(c22Procs))%len(c22Workers)]
		cs := c22Prime(&in)
		prior := cs.GetPriorStates()
		chi := prior.GetChi()
		ps := types.PartialStateSet{ServiceAccounts: prior.GetDelta(), ValidatorKeys: prior.GetIota(), Authorizers: prior.GetVarphi(),
			Bless: chi.Bless, Assign: chi.Assign, Designate: chi.Designate, CreateAcct: chi.CreateAcct, AlwaysAccum: chi.AlwaysAccum}
		out, err := ParallelizedAccumulation(ParallelizedAccumulationInput{PartialStateSet: ps, DeferredTransfers: []types.DeferredTransfer{},
			WorkReports: c22Reports(&in), AlwaysAccumulateMap: chi.AlwaysAccum})
		if err != nil {
			c.Failf("run %d: ParallelizedAccumulation returned %v", r, err)
		}
		var raw []string
		for _, t := range out.DeferredTransfers {
			raw = append(raw, fmt.Sprintf("t %d->%d a=%d g=%d memo=%d/%d", t.SenderID, t.ReceiverID, t.Balance, t.GasLimit, t.Memo[0], t.Memo[1]))
		}
		// canonical form of the transfer sequence: what any consumer ordering "by sender, then original order" can observe
		canon := append([]string{}, raw...)
		ts := append([]types.DeferredTransfer{}, out.DeferredTransfers...)
		idx := c22Seq(len(ts))
		sort.SliceStable(idx, func(i, j int) bool { return ts[idx[i]].SenderID < ts[idx[j]].SenderID })
		for i, k := range idx {
			canon[i] = raw[k]
		}
		var lines []string
		lines = append(lines, canon...)
		var us []string
		for _, u := range out.ServiceGasUsedList {
			us = append(us, fmt.Sprintf("u %d gas=%d", u.ServiceID, u.Gas))
		}
		rawU := strings.Join(us, ";")
		sort.Strings(us)
		lines = append(lines, us...)
		var bs []string
		for b := range out.AccumulatedServiceOutput {
			bs = append(bs, fmt.Sprintf("b %d %x", b.ServiceID, b.Hash))
		}
		sort.Strings(bs)
		lines = append(lines, bs...)
		lines = append(lines, c22AccountsText(out.PartialStateSet.ServiceAccounts, "d'")...)
		lines = append(lines, c22PrivText(types.Privileges{Bless: out.PartialStateSet.Bless, Designate: out.PartialStateSet.Designate,
			CreateAcct: out.PartialStateSet.CreateAcct, Assign: out.PartialStateSet.Assign, AlwaysAccum: out.PartialStateSet.AlwaysAccum}))
		obs := strings.Join(lines, "\n")
		rawObs := strings.Join(raw, ";") + "|" + rawU
		if r == 0 {
			first, firstRaw = obs, rawObs
			if len(raw) >= 13 {
				c.NonTrivial()
			}
			continue
		}
		if rawObs != firstRaw {
			orderVaries = true
		}
		if obs != first {
			c.Failf("parallel accumulation (12.17) of identical inputs differs between run 0 and run %d (GOMAXPROCS %d, MaxWorkers %d)\n%s", r,
				c22Procs[r%len(c22Procs)], c22Workers[(r/len(c22Procs))%len(c22Workers)], c22Diff(first, obs))
		}
	}
	if orderVaries {
		c.Class("raw_order_of_t_or_u_follows_map_iteration")
	} else {
		c.Class("raw_order_of_t_and_u_stable")
	}
}

func TestVerif_C22(t *testing.T) {
	s := kit.Begin(t, "C22")
	defer s.Finish()
	kit.Run(s, "accumulation_round_repeated", kit.N{Quick: 400, Thorough: 600}, c22Gen, c22CheckRound)
	kit.Run(s, "parallel_step_repeated", kit.N{Quick: 160, Thorough: 300}, c22Gen, c22CheckParallel)
}
