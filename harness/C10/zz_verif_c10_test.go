package PVM

// C10: accumulation checkpoint and rollback.
//
// A drawn script of host calls is assembled into a real accumulate service
// program (hand encoder, GP A.5 formats), validated on the reference machine
// (refpvm) with a MODEL of the (X, Y) contexts as its host, and then run through
// Psi_A. Oracle: on halt the result is the model's X (a 32-byte output overrides
// the yielded hash, other lengths keep it), on panic / page fault / out-of-gas it
// is the model's Y as of the last checkpoint (or the initial context). Each op's
// omega_7 is checked by the program (branch to trap), so a disagreement between
// model and implementation about an op ends in a trap, which is recognised by
// its gas signature and compared with the checkpoint state instead (counted
// separately). Aliasing: Y observed right after each checkpoint equals Y at exit.

import (
	"encoding/binary"
	"fmt"
	"sort"
	"strings"
	"testing"

	"github.com/New-JAMneration/JAM-Protocol/internal/types"
	"github.com/New-JAMneration/JAM-Protocol/internal/utilities/merklization"
	ref "github.com/New-JAMneration/JAM-Protocol/internal/verifref/refpvm"
	kit "github.com/New-JAMneration/JAM-Protocol/internal/verifkit"
	"golang.org/x/crypto/blake2b"
	"pgregory.net/rapid"
)

// ------------------------------------------------------------------ input (the replay file)

type c10Sto struct {
	Key    int  `json:"key"`
	ValLen int  `json:"val_len"`
	Fill   byte `json:"fill"`
	Raw    bool `json:"raw"` // entry sits in the raw key-value pool
}

type c10LkSpec struct {
	Blob  int      `json:"blob"` // >= 0: key = (H(blob), |blob|); -1: key = (hash idx, Z)
	Hash  int      `json:"hash"`
	Z     uint32   `json:"z"`
	Slots []uint32 `json:"slots"`
	Raw   bool     `json:"raw"`
}

type c10AcctSpec struct {
	ID      uint32      `json:"id"`
	Sto     []c10Sto    `json:"sto"`
	Lks     []c10LkSpec `json:"lks"`
	Slack   uint64      `json:"slack"`
	Gratis  uint64      `json:"gratis"`
	MemoGas uint64      `json:"memo_gas"`
}

type c10Op struct {
	Kind   string `json:"kind"` // write transfer new yield provide solicit forget checkpoint upgrade
	Key    int    `json:"key,omitempty"`
	ValLen int    `json:"val_len,omitempty"`
	Fill   byte   `json:"fill,omitempty"`
	Target int    `json:"target,omitempty"` // 0 self, 1..n others, -1 absent, 10+k: k-th created account (transfer only)
	Amount uint64 `json:"amount,omitempty"`
	GasL   uint64 `json:"gas_l,omitempty"`
	L      uint32 `json:"l,omitempty"`
	G      uint64 `json:"g,omitempty"`
	M      uint64 `json:"m,omitempty"`
	F      uint64 `json:"f,omitempty"`
	I      uint32 `json:"i,omitempty"`
	Hash   int    `json:"hash,omitempty"`
	Z      uint32 `json:"z,omitempty"`
	Blob   int    `json:"blob,omitempty"` // solicit/forget: -1 = use (Hash, Z)
}

type c10Input struct {
	Timeslot  uint32        `json:"timeslot"`
	Registrar bool          `json:"registrar"`
	Manager   bool          `json:"manager"`
	Self      c10AcctSpec   `json:"self"`
	Others    []c10AcctSpec `json:"others"`
	Incoming  []uint64      `json:"incoming"`
	Ops       []c10Op       `json:"ops"`
	Ending    int           `json:"ending"`  // 0 halt/0 bytes, 1 halt/32 bytes, 2 halt/other length, 3 halt/unreadable, 4 trap, 5 page fault
	OutLen    int           `json:"out_len"` // for ending 2
	GasMode   int           `json:"gas_mode"` // 0 ample, 1 limit placed at a recorded boundary
	GasPoint  int           `json:"gas_point"`
	GasDelta  int           `json:"gas_delta"`
}

var c10Keys = [][]byte{
	{},
	[]byte("a"),
	[]byte("key-two"),
	[]byte("0123456789012345678901234567890"),
	[]byte("01234567890123456789012345678901"),
	[]byte("a-key-that-is-longer-than-thirty-two-bytes"),
}

func c10HashOf(idx int) [32]byte {
	var h [32]byte
	for j := range h {
		h[j] = byte(0x40 + idx*7 + j)
	}
	return h
}

func c10Blob(idx int) []byte {
	b := make([]byte, 7+13*idx)
	for j := range b {
		b[j] = byte(0x90 + idx + 3*j)
	}
	return b
}

func c10CodeHashOfNew(opIdx int) [32]byte {
	var h [32]byte
	for j := range h {
		h[j] = byte(0xE0 + opIdx)
	}
	h[31] = 0x5A
	return h
}

func c10Value(n int, fill byte) []byte {
	v := make([]byte, n)
	for i := range v {
		v[i] = fill + byte(i)
	}
	return v
}

func c10Memo(opIdx int) [128]byte {
	var m [128]byte
	for j := range m {
		m[j] = byte(opIdx*11 + j)
	}
	return m
}

const (
	c10NKeys   = 6
	c10NHashes = 4
	c10NBlobs  = 3
	c10Absent  = 3999999999
)

// ------------------------------------------------------------------ generator

func c10GenAcct(rt *rapid.T, label string, id uint32, timeslot uint32, ample bool) c10AcctSpec {
	a := c10AcctSpec{ID: id}
	for k := 0; k < c10NKeys; k++ {
		if rapid.IntRange(0, 2).Draw(rt, label+"_has_key") != 0 {
			continue
		}
		a.Sto = append(a.Sto, c10Sto{Key: k, ValLen: rapid.IntRange(1, 80).Draw(rt, "val_len"), Fill: rapid.Byte().Draw(rt, "fill"),
			Raw: rapid.IntRange(0, 2).Draw(rt, "raw") == 0})
	}
	t := timeslot
	cands := []uint32{0, 1, t}
	if t >= 32 {
		cands = append(cands, t-32, t-31)
	}
	if t >= 33 {
		cands = append(cands, t-33, t-33)
	}
	if t >= 50 {
		cands = append(cands, t-50)
	}
	slots := func() []uint32 {
		n := rapid.SampledFrom([]int{0, 0, 0, 1, 2, 2, 3}).Draw(rt, "n_slots")
		var s []uint32
		for q := 0; q < n; q++ {
			s = append(s, rapid.SampledFrom(cands).Draw(rt, "slot"))
		}
		return s
	}
	for b := 0; b < c10NBlobs; b++ {
		if rapid.IntRange(0, 1).Draw(rt, label+"_has_blob_lk") == 0 {
			a.Lks = append(a.Lks, c10LkSpec{Blob: b, Slots: slots(), Raw: rapid.IntRange(0, 2).Draw(rt, "raw") == 0})
		}
	}
	for h := 0; h < c10NHashes; h++ {
		if rapid.IntRange(0, 3).Draw(rt, label+"_has_hash_lk") == 0 {
			a.Lks = append(a.Lks, c10LkSpec{Blob: -1, Hash: h, Z: rapid.SampledFrom([]uint32{0, 5, 100}).Draw(rt, "z"), Slots: slots(),
				Raw: rapid.IntRange(0, 2).Draw(rt, "raw") == 0})
		}
	}
	if ample {
		a.Slack = rapid.SampledFrom([]uint64{100000, 1000000, 1 << 32, 1 << 40}).Draw(rt, label+"_slack")
	} else {
		a.Slack = rapid.OneOf(rapid.Uint64Range(0, 300), rapid.Uint64Range(0, 3000)).Draw(rt, label+"_slack")
	}
	a.Gratis = rapid.SampledFrom([]uint64{0, 0, 0, 50}).Draw(rt, label+"_gratis")
	a.MemoGas = rapid.SampledFrom([]uint64{0, 0, 3, 20}).Draw(rt, label+"_memo_gas")
	return a
}

func c10Gen(rt *rapid.T) c10Input {
	var in c10Input
	in.Timeslot = rapid.OneOf(rapid.SampledFrom([]uint32{0, 5, 32, 33, 40, 100, 1000}), rapid.Uint32Range(33, 200)).Draw(rt, "timeslot")
	in.Registrar = rapid.Bool().Draw(rt, "registrar")
	in.Manager = rapid.Bool().Draw(rt, "manager")
	ids := rapid.Permutation([]uint32{3, 17, 200, 65536, 70000, 4000000000}).Draw(rt, "ids")
	in.Self = c10GenAcct(rt, "self", ids[0], in.Timeslot, rapid.IntRange(0, 5).Draw(rt, "ample") != 0)
	no := rapid.IntRange(1, 2).Draw(rt, "n_others")
	for j := 0; j < no; j++ {
		in.Others = append(in.Others, c10GenAcct(rt, fmt.Sprintf("o%d", j), ids[1+j], in.Timeslot, true))
	}
	ni := rapid.IntRange(0, 2).Draw(rt, "n_incoming")
	for j := 0; j < ni; j++ {
		in.Incoming = append(in.Incoming, rapid.Uint64Range(0, 5000).Draw(rt, "incoming"))
	}
	nops := rapid.IntRange(3, 25).Draw(rt, "n_ops")
	kinds := []string{"write", "write", "write", "transfer", "transfer", "new", "new", "yield", "provide", "provide", "solicit", "solicit",
		"forget", "checkpoint", "checkpoint", "checkpoint", "upgrade"}
	created := 0
	for j := 0; j < nops; j++ {
		op := c10Op{Kind: rapid.SampledFrom(kinds).Draw(rt, "kind")}
		switch op.Kind {
		case "write":
			op.Key = rapid.IntRange(0, c10NKeys-1).Draw(rt, "key")
			op.ValLen = rapid.OneOf(rapid.Just(0), rapid.IntRange(1, 60), rapid.IntRange(1, 60), rapid.IntRange(60, 3000)).Draw(rt, "val_len")
			op.Fill = rapid.Byte().Draw(rt, "fill")
		case "transfer":
			tg := []int{1, 1, 1, len(in.Others), 0, -1}
			for q := 0; q < created && q < 3; q++ {
				tg = append(tg, 10+q, 10+q)
			}
			op.Target = rapid.SampledFrom(tg).Draw(rt, "target")
			op.Amount = rapid.OneOf(rapid.Uint64Range(0, 500), rapid.Uint64Range(0, 500), rapid.Uint64Range(0, 200000), rapid.Just(uint64(1)<<50)).Draw(rt, "amount")
			op.GasL = rapid.SampledFrom([]uint64{0, 3, 20, 20, 25, 2}).Draw(rt, "gas_l")
		case "new":
			op.L = rapid.Uint32Range(0, 300).Draw(rt, "l")
			op.G = rapid.Uint64Range(0, 100).Draw(rt, "g")
			op.M = rapid.SampledFrom([]uint64{0, 0, 3, 20}).Draw(rt, "m")
			op.F = rapid.SampledFrom([]uint64{0, 0, 0, 0, 0, 7}).Draw(rt, "f")
			op.I = rapid.OneOf(rapid.Uint32Range(0, 300), rapid.SampledFrom([]uint32{3, 17, 200, 65535, 65536, 1 << 31})).Draw(rt, "i")
			created++
		case "yield":
			op.Hash = rapid.IntRange(0, c10NHashes-1).Draw(rt, "hash")
		case "provide":
			op.Target = rapid.SampledFrom([]int{0, 0, 0, 1, 1, len(in.Others), -1}).Draw(rt, "target")
			op.Blob = rapid.IntRange(0, c10NBlobs-1).Draw(rt, "blob")
		case "solicit", "forget":
			if rapid.Bool().Draw(rt, "by_blob") {
				op.Blob = rapid.IntRange(0, c10NBlobs-1).Draw(rt, "blob")
			} else {
				op.Blob = -1
				op.Hash = rapid.IntRange(0, c10NHashes-1).Draw(rt, "hash")
				op.Z = rapid.SampledFrom([]uint32{0, 5, 100, 100000}).Draw(rt, "z")
			}
		case "upgrade":
			op.Hash = rapid.IntRange(0, c10NHashes-1).Draw(rt, "hash")
			op.G = rapid.Uint64Range(0, 100).Draw(rt, "g")
			op.M = rapid.Uint64Range(0, 100).Draw(rt, "m")
		}
		in.Ops = append(in.Ops, op)
	}
	in.Ending = rapid.SampledFrom([]int{0, 1, 1, 2, 2, 3, 4, 4, 4, 5}).Draw(rt, "ending")
	in.OutLen = rapid.SampledFrom([]int{1, 31, 33, 64}).Draw(rt, "out_len")
	in.GasMode = rapid.SampledFrom([]int{0, 0, 1}).Draw(rt, "gas_mode")
	in.GasPoint = rapid.IntRange(0, 999).Draw(rt, "gas_point") // position among the recorded gas boundaries, in permille
	in.GasDelta = rapid.IntRange(-1, 1).Draw(rt, "gas_delta")
	return in
}

// ------------------------------------------------------------------ model of the (X, Y) contexts

type c10Lk struct {
	H [32]byte
	Z uint32
}

type c10MAcct struct {
	CodeHash [32]byte
	Bal      uint64
	G, M     uint64
	Gratis   uint64
	Created  uint32
	LastAcc  uint32
	Parent   string
	Sto      map[string][]byte
	Lk       map[c10Lk][]uint32
	Pre      map[[32]byte][]byte
}

func (a *c10MAcct) footprint() (items, octets uint64) {
	for k, v := range a.Sto {
		items++
		octets += 34 + uint64(len(k)) + uint64(len(v))
	}
	for k := range a.Lk {
		items += 2
		octets += 81 + uint64(k.Z)
	}
	return
}

func c10Thr(items, octets, gratis uint64) uint64 {
	raw := 100 + 10*items + octets
	if raw < gratis {
		return 0
	}
	return raw - gratis
}

func (a *c10MAcct) threshold() uint64 {
	i, o := a.footprint()
	return c10Thr(i, o, a.Gratis)
}

func (a *c10MAcct) clone() *c10MAcct {
	b := *a
	b.Sto = map[string][]byte{}
	for k, v := range a.Sto {
		b.Sto[k] = append([]byte(nil), v...)
	}
	b.Lk = map[c10Lk][]uint32{}
	for k, v := range a.Lk {
		b.Lk[k] = append([]uint32(nil), v...)
	}
	b.Pre = map[[32]byte][]byte{}
	for k, v := range a.Pre {
		b.Pre[k] = append([]byte(nil), v...)
	}
	return &b
}

type c10MXfer struct {
	From, To string
	Amount   uint64
	Gas      uint64
	Memo     [128]byte
}

type c10MProv struct {
	Svc  string
	Blob []byte
}

type c10MCtx struct {
	Accts map[string]*c10MAcct
	Xfers []c10MXfer
	Yield *[32]byte
	Prov  map[string]c10MProv
}

func (c *c10MCtx) clone() *c10MCtx {
	n := &c10MCtx{Accts: map[string]*c10MAcct{}, Prov: map[string]c10MProv{}}
	for k, v := range c.Accts {
		n.Accts[k] = v.clone()
	}
	n.Xfers = append([]c10MXfer(nil), c.Xfers...)
	if c.Yield != nil {
		y := *c.Yield
		n.Yield = &y
	}
	for k, v := range c.Prov {
		n.Prov[k] = c10MProv{Svc: v.Svc, Blob: append([]byte(nil), v.Blob...)}
	}
	return n
}

func c10Name(id uint32) string { return fmt.Sprintf("%d", id) }

// canonical text of a model context
func (c *c10MCtx) canon() string {
	var lines []string
	for name, a := range c.Accts {
		items, octets := a.footprint()
		lines = append(lines, fmt.Sprintf("acct %s info ch=%x bal=%d g=%d m=%d bytes=%d gratis=%d items=%d cs=%d la=%d parent=%s",
			name, a.CodeHash, a.Bal, a.G, a.M, octets, a.Gratis, items, a.Created, a.LastAcc, a.Parent))
		for k, v := range a.Sto {
			lines = append(lines, fmt.Sprintf("acct %s s %x = %x", name, k, v))
		}
		for k, v := range a.Lk {
			lines = append(lines, fmt.Sprintf("acct %s l %x %d = %v", name, k.H, k.Z, append([]uint32{}, v...)))
		}
		for k, v := range a.Pre {
			lines = append(lines, fmt.Sprintf("acct %s p %x = %x", name, k, blake2b.Sum256(v)))
		}
	}
	sort.Strings(lines)
	for i, x := range c.Xfers {
		lines = append(lines, fmt.Sprintf("xfer %d: %s -> %s amount=%d gas=%d memo=%x", i, x.From, x.To, x.Amount, x.Gas, x.Memo[:8]))
	}
	if c.Yield != nil {
		lines = append(lines, fmt.Sprintf("yield %x", *c.Yield))
	} else {
		lines = append(lines, "yield nil")
	}
	var pl []string
	for _, p := range c.Prov {
		pl = append(pl, fmt.Sprintf("provided %s %x", p.Svc, p.Blob))
	}
	sort.Strings(pl)
	return strings.Join(append(lines, pl...), "\n")
}

type c10Env struct {
	self      string
	selfID    uint32
	timeslot  uint32
	d         int64
	registrar bool
	manager   bool
	others    []uint32
}

// c10Target resolves a script target to a model account name and the register value (known = false for created accounts).
func (e *c10Env) target(tgt int, created []string) (name string, reg uint64, known bool) {
	switch {
	case tgt == 0:
		return e.self, uint64(e.selfID), true
	case tgt >= 1 && tgt <= len(e.others):
		return c10Name(e.others[tgt-1]), uint64(e.others[tgt-1]), true
	case tgt >= 10 && tgt-10 < len(created):
		return created[tgt-10], 0, false
	}
	return c10Name(c10Absent), c10Absent, true
}

func c10LkOf(op c10Op) c10Lk {
	if op.Blob >= 0 && op.Blob < c10NBlobs {
		b := c10Blob(op.Blob)
		return c10Lk{H: blake2b.Sum256(b), Z: uint32(len(b))}
	}
	return c10Lk{H: c10HashOf(op.Hash), Z: op.Z}
}

// c10Apply applies one host call of the script to the model X; returns omega_7
// (retKnown=false: a fresh service id), the gas charged beyond the basic 10, and
// the name of a created account.
func c10Apply(x *c10MCtx, e *c10Env, opIdx int, op c10Op, created []string) (ret uint64, retKnown bool, extraGas uint64, newName string) {
	a := x.Accts[e.self]
	switch op.Kind {
	case "write":
		k := string(c10Keys[op.Key])
		old, had := a.Sto[k]
		ret = NONE
		if had {
			ret = uint64(len(old))
		}
		if op.ValLen == 0 {
			delete(a.Sto, k)
			return ret, true, 0, ""
		}
		items, octets := a.footprint()
		if had {
			octets -= 34 + uint64(len(k)) + uint64(len(old))
		} else {
			items++
		}
		octets += 34 + uint64(len(k)) + uint64(op.ValLen)
		if c10Thr(items, octets, a.Gratis) > a.Bal {
			return FULL, true, 0, ""
		}
		a.Sto[k] = c10Value(op.ValLen, op.Fill)
		return ret, true, 0, ""
	case "transfer":
		name, _, _ := e.target(op.Target, created)
		d, ok := x.Accts[name]
		if !ok {
			return WHO, true, 0, ""
		}
		if op.GasL < d.M {
			return LOW, true, 0, ""
		}
		if a.Bal < op.Amount || a.Bal-op.Amount < a.threshold() {
			return CASH, true, 0, ""
		}
		a.Bal -= op.Amount
		x.Xfers = append(x.Xfers, c10MXfer{From: e.self, To: name, Amount: op.Amount, Gas: op.GasL, Memo: c10Memo(opIdx)})
		return OK, true, op.GasL, ""
	case "new":
		if op.F != 0 && !e.manager {
			return HUH, true, 0, ""
		}
		at := c10Thr(2, 81+uint64(op.L), op.F) // the child's threshold, with the gratis offset f it is created with
		if a.Bal < at || a.Bal-at < a.threshold() {
			return CASH, true, 0, ""
		}
		name := fmt.Sprintf("N%d", opIdx)
		known := false
		if e.registrar && op.I < 65536 {
			if _, exists := x.Accts[c10Name(op.I)]; exists {
				return FULL, true, 0, ""
			}
			name, known = c10Name(op.I), true
		}
		ch := c10CodeHashOfNew(opIdx)
		x.Accts[name] = &c10MAcct{CodeHash: ch, Bal: at, G: op.G, M: op.M, Gratis: op.F, Created: e.timeslot, Parent: e.self,
			Sto: map[string][]byte{}, Lk: map[c10Lk][]uint32{{H: ch, Z: op.L}: {}}, Pre: map[[32]byte][]byte{}}
		a.Bal -= at
		return uint64(op.I), known, 0, name
	case "yield":
		h := c10HashOf(op.Hash)
		x.Yield = &h
		return OK, true, 0, ""
	case "provide":
		name, _, _ := e.target(op.Target, nil)
		t, ok := x.Accts[name]
		if !ok {
			return WHO, true, 0, ""
		}
		b := c10Blob(op.Blob)
		sl, had := t.Lk[c10Lk{H: blake2b.Sum256(b), Z: uint32(len(b))}]
		if !had || len(sl) != 0 {
			return HUH, true, 0, ""
		}
		key := name + "|" + string(b)
		if _, dup := x.Prov[key]; dup {
			return HUH, true, 0, ""
		}
		x.Prov[key] = c10MProv{Svc: name, Blob: b}
		return OK, true, 0, ""
	case "solicit":
		lk := c10LkOf(op)
		sl, had := a.Lk[lk]
		if !had {
			items, octets := a.footprint()
			if a.Bal < c10Thr(items+2, octets+81+uint64(lk.Z), a.Gratis) {
				return FULL, true, 0, ""
			}
			a.Lk[lk] = []uint32{}
			return OK, true, 0, ""
		}
		if len(sl) == 2 {
			a.Lk[lk] = append(sl, e.timeslot)
			return OK, true, 0, ""
		}
		return HUH, true, 0, ""
	case "forget":
		lk := c10LkOf(op)
		sl, had := a.Lk[lk]
		if !had {
			return HUH, true, 0, ""
		}
		old := func(y uint32) bool { return int64(y) < int64(e.timeslot)-e.d }
		switch {
		case len(sl) == 0 || (len(sl) == 2 && old(sl[1])):
			delete(a.Lk, lk)
			delete(a.Pre, lk.H)
		case len(sl) == 1:
			a.Lk[lk] = append(sl, e.timeslot)
		case len(sl) == 3 && old(sl[1]):
			a.Lk[lk] = []uint32{sl[2], e.timeslot}
		default:
			return HUH, true, 0, ""
		}
		return OK, true, 0, ""
	case "upgrade":
		a.CodeHash = c10HashOf(op.Hash)
		a.G, a.M = op.G, op.M
		return OK, true, 0, ""
	}
	return OK, true, 0, ""
}

// ------------------------------------------------------------------ assembler (GP A.5 encodings, typed in by hand)

type c10Asm struct {
	code []byte
	mask []bool
}

func (a *c10Asm) emit(b ...byte) {
	for i := range b {
		a.mask = append(a.mask, i == 0)
	}
	a.code = append(a.code, b...)
}
func (a *c10Asm) pc() int { return len(a.code) }
func (a *c10Asm) trap()   { a.emit(0) }
func (a *c10Asm) loadImm64(r int, v uint64) {
	b := []byte{20, byte(r)}
	a.emit(binary.LittleEndian.AppendUint64(b, v)...)
}
func (a *c10Asm) ecalli(id byte)    { a.emit(10, id) }
func (a *c10Asm) moveReg(d, s int)  { a.emit(100, byte(d)|byte(s)<<4) }
func (a *c10Asm) jumpInd(r int)     { a.emit(50, byte(r)) }
func (a *c10Asm) storeImmU8(addr uint32, v byte) {
	b := []byte{30, 4}
	b = binary.LittleEndian.AppendUint32(b, addr)
	a.emit(append(b, v)...)
}

// branch (81 eq / 82 ne / 85 ge_u) on register r against a 4-byte sign-extended immediate, to an absolute target
func (a *c10Asm) branchImm(op byte, r int, imm uint32, target int) {
	b := []byte{op, byte(r) | 4<<4}
	b = binary.LittleEndian.AppendUint32(b, imm)
	b = binary.LittleEndian.AppendUint32(b, uint32(int32(target-a.pc())))
	a.emit(b...)
}

func c10NaturalEnc(x uint64) []byte {
	if x < 1<<7 {
		return []byte{byte(x)}
	}
	if x < 1<<14 {
		return []byte{byte(0x80 + x>>8), byte(x)}
	}
	if x < 1<<21 {
		return []byte{byte(0xC0 + x>>16), byte(x), byte(x >> 8)}
	}
	return []byte{byte(0xE0 + x>>24), byte(x), byte(x >> 8), byte(x >> 16)}
}

func (a *c10Asm) innerBlob() []byte {
	var b []byte
	b = append(b, 0) // |j| = 0
	b = append(b, 1) // z
	b = append(b, c10NaturalEnc(uint64(len(a.code)))...)
	b = append(b, a.code...)
	kb := make([]byte, (len(a.code)+7)/8)
	for i, bit := range a.mask {
		if bit {
			kb[i/8] |= 1 << (uint(i) % 8)
		}
	}
	return append(b, kb...)
}

func c10LE(v uint64, n int) []byte {
	out := make([]byte, n)
	for i := range out {
		out[i] = byte(v >> (8 * uint(i)))
	}
	return out
}

const c10ROBase = 0x10000

type c10Data struct{ b []byte }

func (d *c10Data) put(x []byte) uint64 {
	addr := c10ROBase + uint64(len(d.b))
	d.b = append(d.b, x...)
	return addr
}

type c10Program struct {
	inner     []byte // program blob (deblob input)
	ro        []byte
	preimage  []byte // metadata ++ standard blob
	callRegs  [][13]uint64 // registers each host call is made with (regs the script sets; 0 elsewhere), for validation
	callSet   [][]int      // which registers are meaningful
	outAddr   uint64
	outLen    uint64
}

// c10Assemble builds the program for a script whose expected omega_7 values are known.
func c10Assemble(in *c10Input, e *c10Env, rets []uint64, retKnown []bool, createdAt []int) c10Program {
	var a c10Asm
	var d c10Data
	for i := 0; i < 5; i++ {
		a.trap() // pc 0..4; pc 0 is the (basic-block start) target of every failed check
	}
	savedReg := map[int]int{} // op index of a successful new -> register holding its id
	nextSave := 4
	createdOrder := []int{}
	var p c10Program
	set := func(regs map[int]uint64) {
		var rv [13]uint64
		var which []int
		for r := 7; r <= 12; r++ {
			if v, ok := regs[r]; ok {
				a.loadImm64(r, v)
				rv[r] = v
				which = append(which, r)
			}
		}
		p.callRegs = append(p.callRegs, rv)
		p.callSet = append(p.callSet, which)
	}
	for idx, op := range in.Ops {
		check := true
		switch op.Kind {
		case "write":
			k := c10Keys[op.Key]
			ka := d.put(k)
			va := d.put(c10Value(op.ValLen, op.Fill))
			set(map[int]uint64{7: ka, 8: uint64(len(k)), 9: va, 10: uint64(op.ValLen)})
			a.ecalli(4)
		case "transfer":
			m := c10Memo(idx)
			ma := d.put(m[:])
			_, reg, known := e.target(op.Target, func() []string {
				out := make([]string, len(createdOrder))
				for q, oi := range createdOrder {
					out[q] = fmt.Sprintf("N%d", oi)
				}
				return out
			}())
			regs := map[int]uint64{8: op.Amount, 9: op.GasL, 10: ma}
			if known {
				regs[7] = reg
				set(regs)
			} else {
				set(regs)
				src := savedReg[createdOrder[op.Target-10]]
				a.moveReg(7, src)
			}
			a.ecalli(20)
		case "new":
			ch := c10CodeHashOfNew(idx)
			ha := d.put(ch[:])
			set(map[int]uint64{7: ha, 8: uint64(op.L), 9: op.G, 10: op.M, 11: op.F, 12: uint64(op.I)})
			a.ecalli(18)
			if createdAt[idx] == 1 { // the model created an account
				check = false
				if retKnown[idx] {
					a.branchImm(82, 7, uint32(rets[idx]), 0)
				} else {
					a.branchImm(85, 7, 0xFFFFFFF0, 0) // omega_7 >= 2^64-16: an error code
				}
				if nextSave <= 6 {
					a.moveReg(nextSave, 7)
					savedReg[idx] = nextSave
					createdOrder = append(createdOrder, idx)
					nextSave++
				}
			}
		case "yield":
			h := c10HashOf(op.Hash)
			set(map[int]uint64{7: d.put(h[:])})
			a.ecalli(25)
		case "provide":
			_, reg, _ := e.target(op.Target, nil)
			if op.Target == 0 {
				reg = ^uint64(0)
			}
			b := c10Blob(op.Blob)
			set(map[int]uint64{7: reg, 8: d.put(b), 9: uint64(len(b))})
			a.ecalli(26)
		case "solicit", "forget":
			lk := c10LkOf(op)
			set(map[int]uint64{7: d.put(lk.H[:]), 8: uint64(lk.Z)})
			if op.Kind == "solicit" {
				a.ecalli(23)
			} else {
				a.ecalli(24)
			}
		case "checkpoint":
			set(map[int]uint64{})
			a.ecalli(17)
			check = false
		case "upgrade":
			h := c10HashOf(op.Hash)
			set(map[int]uint64{7: d.put(h[:]), 8: op.G, 9: op.M})
			a.ecalli(19)
		}
		if check {
			a.branchImm(82, 7, uint32(rets[idx]), 0)
		}
	}
	switch in.Ending {
	case 0:
		p.outAddr, p.outLen = c10ROBase, 0
	case 1:
		h := c10HashOf(3)
		h[0] = 0xEE
		p.outAddr, p.outLen = d.put(h[:]), 32
	case 2:
		p.outAddr, p.outLen = d.put(c10Value(in.OutLen, 0x21)), uint64(in.OutLen)
	case 3:
		p.outAddr, p.outLen = 0x30000000, 32
	}
	switch in.Ending {
	case 4:
		a.trap()
	case 5:
		a.storeImmU8(0x30000000, 1)
		a.trap()
	default:
		a.loadImm64(7, p.outAddr)
		a.loadImm64(8, p.outLen)
		a.jumpInd(0)
	}
	if len(d.b) == 0 {
		d.b = []byte{0}
	}
	p.inner = a.innerBlob()
	p.ro = d.b
	var s []byte
	s = append(s, c10LE(uint64(len(p.ro)), 3)...)
	s = append(s, c10LE(0, 3)...)
	s = append(s, c10LE(0, 2)...)
	s = append(s, c10LE(4096, 3)...)
	s = append(s, p.ro...)
	s = append(s, c10LE(uint64(len(p.inner)), 4)...)
	s = append(s, p.inner...)
	p.preimage = append([]byte{3, 'c', '1', '0'}, s...)
	return p
}

// ------------------------------------------------------------------ reference run (refpvm + model host)

type c10RefRun struct {
	Exit      string // halt panic oog fault
	Out       []byte // halt output (nil if unreadable / empty)
	X, Y      *c10MCtx
	GasUsed   int64
	Bounds    []int64  // gas used right before each ecalli and right after each host call
	YSnaps    []string // canonical model Y right after each checkpoint
	YBefore   []string // canonical model Y in force when op k starts
	AfterCall []int64  // gas used after host call k returned
	Calls     int
	BadRegs   string
}

func c10RefMemory(ro []byte) ref.Memory {
	m := ref.Memory{}
	for off := 0; off < len(ro); off += ref.PageSize {
		pg := make([]byte, ref.PageSize)
		copy(pg, ro[off:])
		m[uint32((c10ROBase+off)/ref.PageSize)] = &ref.Page{Access: ref.AccR, Data: pg}
	}
	return m
}

var c10HostIDs = map[string]uint64{"write": 4, "checkpoint": 17, "new": 18, "upgrade": 19, "transfer": 20, "solicit": 23, "forget": 24, "yield": 25, "provide": 26}

func c10RunRef(in *c10Input, e *c10Env, prog *c10Program, x0 *c10MCtx, gasLimit int64) (c10RefRun, bool) {
	pr, status := ref.Deblob(prog.inner)
	if status != 0 {
		return c10RefRun{}, false
	}
	x := x0.clone()
	y := x0.clone()
	m := &ref.Machine{P: pr, PC: 5, Gas: gasLimit, Mem: c10RefMemory(prog.ro)}
	m.Regs[0] = 1<<32 - 1<<16
	run := c10RefRun{}
	var created []string
	used := func() int64 { return gasLimit - m.Gas }
	for {
		ex := m.Run(1 << 20)
		switch ex.Kind {
		case ref.Host:
			k := run.Calls
			if k >= len(in.Ops) || ex.Arg != c10HostIDs[in.Ops[k].Kind] {
				return run, false
			}
			op := in.Ops[k]
			run.Bounds = append(run.Bounds, used()-1)
			for _, r := range prog.callSet[k] {
				if m.Regs[r] != prog.callRegs[k][r] && !(r == 7 && op.Kind == "transfer" && op.Target >= 10) {
					run.BadRegs = fmt.Sprintf("call %d (%s): register %d = %d, assembled for %d", k, op.Kind, r, m.Regs[r], prog.callRegs[k][r])
				}
			}
			run.YBefore = append(run.YBefore, y.canon())
			run.Calls++
			m.Gas -= 10
			if m.Gas < 0 {
				run.Exit, run.X, run.Y, run.GasUsed = "oog", x, y, gasLimit
				return run, true
			}
			if op.Kind == "checkpoint" {
				y = x.clone()
				run.YSnaps = append(run.YSnaps, y.canon())
				m.Regs[7] = uint64(m.Gas)
			} else {
				ret, known, extra, newName := c10Apply(x, e, k, op, created)
				if newName != "" && len(created) < 3 {
					created = append(created, newName)
				}
				if extra > 0 {
					if uint64(m.Gas) < extra {
						run.Exit, run.X, run.Y, run.GasUsed = "oog", x, y, gasLimit
						return run, true
					}
					m.Gas -= int64(extra)
				}
				if known {
					m.Regs[7] = ret
				} else {
					m.Regs[7] = 0x7000_0000 + uint64(k) // some fresh id below 2^32; only ever moved between registers
				}
			}
			run.AfterCall = append(run.AfterCall, used())
			run.Bounds = append(run.Bounds, used())
			continue
		case ref.Halt:
			run.Exit = "halt"
			o, l := m.Regs[7], m.Regs[8]
			if l > 0 && o >= c10ROBase && o+l <= c10ROBase+uint64(len(prog.ro)) {
				run.Out = append([]byte(nil), prog.ro[o-c10ROBase:o-c10ROBase+l]...)
			}
		case ref.Panic:
			run.Exit = "panic"
		case ref.OOG:
			run.Exit = "oog"
		case ref.Fault:
			run.Exit = "fault"
		default:
			return run, false
		}
		run.X, run.Y, run.GasUsed = x, y, used()
		if run.Exit == "oog" {
			run.GasUsed = gasLimit
		}
		return run, true
	}
}

// ------------------------------------------------------------------ implementation side: building the state, canonical observation

type c10RawDesc struct {
	acct string
	kind byte // 's' storage, 'l' lookup
	key  string
	lk   c10Lk
}

func c10SlotsRaw(slots []uint32) []byte {
	out := []byte{byte(len(slots))}
	for _, s := range slots {
		out = binary.LittleEndian.AppendUint32(out, s)
	}
	return out
}

// c10Build builds the implementation account + raw pool entries and the model account from one spec.
func c10Build(spec c10AcctSpec, parent uint32, table map[types.StateKey]c10RawDesc) (types.ServiceAccount, types.StateKeyVals, *c10MAcct, bool) {
	acc := types.ServiceAccount{PreimageLookup: types.PreimagesMapEntry{}, LookupDict: types.LookupMetaMapEntry{}, StorageDict: types.Storage{}}
	ma := &c10MAcct{Sto: map[string][]byte{}, Lk: map[c10Lk][]uint32{}, Pre: map[[32]byte][]byte{}}
	id := types.ServiceID(spec.ID)
	name := c10Name(spec.ID)
	var pool types.StateKeyVals
	seenK := map[int]bool{}
	for _, s := range spec.Sto {
		if s.Key < 0 || s.Key >= c10NKeys || seenK[s.Key] || s.ValLen < 1 || s.ValLen > 4096 {
			return acc, nil, nil, false
		}
		seenK[s.Key] = true
		k := c10Keys[s.Key]
		v := c10Value(s.ValLen, s.Fill)
		ma.Sto[string(k)] = v
		if s.Raw {
			sk := merklization.WrapEncodeDelta2KeyVal(id, k, nil).Key
			pool = append(pool, types.StateKeyVal{Key: sk, Value: append(types.ByteSequence(nil), v...)})
			table[sk] = c10RawDesc{acct: name, kind: 's', key: string(k)}
		} else {
			acc.StorageDict[string(k)] = append(types.ByteSequence(nil), v...)
		}
	}
	for _, l := range spec.Lks {
		if len(l.Slots) > 3 || l.Blob >= c10NBlobs || (l.Blob < 0 && (l.Hash < 0 || l.Hash >= c10NHashes)) {
			return acc, nil, nil, false
		}
		lk := c10LkOf(c10Op{Blob: l.Blob, Hash: l.Hash, Z: l.Z})
		if _, dup := ma.Lk[lk]; dup {
			return acc, nil, nil, false
		}
		ma.Lk[lk] = append([]uint32{}, l.Slots...)
		key := types.LookupMetaMapkey{Hash: types.OpaqueHash(lk.H), Length: types.U32(lk.Z)}
		if l.Raw {
			sk := merklization.EncodeDelta4Key(id, key)
			pool = append(pool, types.StateKeyVal{Key: sk, Value: c10SlotsRaw(l.Slots)})
			table[sk] = c10RawDesc{acct: name, kind: 'l', lk: lk}
		} else {
			ts := make(types.TimeSlotSet, 0, len(l.Slots))
			for _, s := range l.Slots {
				ts = append(ts, types.TimeSlot(s))
			}
			acc.LookupDict[key] = ts
		}
		// an "available" preimage has its blob in a_p
		if l.Blob >= 0 && (len(l.Slots) == 1 || len(l.Slots) == 3) {
			b := c10Blob(l.Blob)
			acc.PreimageLookup[types.OpaqueHash(lk.H)] = append(types.ByteSequence(nil), b...)
			ma.Pre[lk.H] = b
		}
	}
	if spec.Slack > 1<<41 || spec.Gratis > 1000 || spec.MemoGas > 1000 {
		return acc, nil, nil, false
	}
	ma.Gratis, ma.M, ma.G = spec.Gratis, spec.MemoGas, 5
	ma.Created, ma.LastAcc, ma.Parent = 2, 1, c10Name(parent)
	for j := range ma.CodeHash {
		ma.CodeHash[j] = byte(spec.ID) + byte(j)
	}
	return acc, pool, ma, true
}

func c10FinishAccount(acc *types.ServiceAccount, ma *c10MAcct, parent uint32) {
	items, octets := ma.footprint()
	acc.ServiceInfo = types.ServiceInfo{
		CodeHash:             types.OpaqueHash(ma.CodeHash),
		Balance:              types.U64(ma.Bal),
		MinItemGas:           types.Gas(ma.G),
		MinMemoGas:           types.Gas(ma.M),
		Bytes:                types.U64(octets),
		DepositOffset:        types.U64(ma.Gratis),
		Items:                types.U32(items),
		CreationSlot:         types.TimeSlot(ma.Created),
		LastAccumulationSlot: types.TimeSlot(ma.LastAcc),
		ParentService:        types.ServiceID(parent),
	}
}

type c10Namer struct {
	byID   map[uint32]string   // initial and registrar-chosen ids
	byCode map[[32]byte]string // code hash of a `new` op -> placeholder
}

func (n *c10Namer) name(id types.ServiceID, accounts types.ServiceAccountState) string {
	if s, ok := n.byID[uint32(id)]; ok {
		return s
	}
	if a, ok := accounts[id]; ok {
		if s, ok := n.byCode[[32]byte(a.ServiceInfo.CodeHash)]; ok {
			return s
		}
	}
	return fmt.Sprintf("unknown:%d", id)
}

// c10CanonImpl renders a (partial state, transfers, yield, provided, raw pool) tuple in the model's canonical text.
func c10CanonImpl(ps types.PartialStateSet, xfers []types.DeferredTransfer, yield *types.OpaqueHash, blobs []types.ServiceBlob,
	pool types.StateKeyVals, table map[types.StateKey]c10RawDesc, nm *c10Namer) string {
	type ent struct {
		sto map[string]string
		lk  map[c10Lk]string
	}
	ents := map[string]*ent{}
	get := func(name string) *ent {
		if ents[name] == nil {
			ents[name] = &ent{sto: map[string]string{}, lk: map[c10Lk]string{}}
		}
		return ents[name]
	}
	var lines []string
	for id, a := range ps.ServiceAccounts {
		name := nm.name(id, ps.ServiceAccounts)
		si := a.ServiceInfo
		parent := nm.name(si.ParentService, ps.ServiceAccounts)
		lines = append(lines, fmt.Sprintf("acct %s info ch=%x bal=%d g=%d m=%d bytes=%d gratis=%d items=%d cs=%d la=%d parent=%s",
			name, si.CodeHash, si.Balance, si.MinItemGas, si.MinMemoGas, si.Bytes, si.DepositOffset, si.Items, si.CreationSlot, si.LastAccumulationSlot, parent))
		if si.Version != 0 {
			lines = append(lines, fmt.Sprintf("acct %s version=%d", name, si.Version))
		}
		e := get(name)
		for k, v := range a.StorageDict {
			e.sto[k] = fmt.Sprintf("%x", []byte(v))
		}
		for k, v := range a.LookupDict {
			sl := make([]uint32, len(v))
			for i, s := range v {
				sl[i] = uint32(s)
			}
			e.lk[c10Lk{H: [32]byte(k.Hash), Z: uint32(k.Length)}] = fmt.Sprintf("%v", sl)
		}
		for k, v := range a.PreimageLookup {
			lines = append(lines, fmt.Sprintf("acct %s p %x = %x", name, k, blake2b.Sum256(v)))
		}
	}
	for _, kv := range pool {
		d, ok := table[kv.Key]
		if !ok {
			lines = append(lines, fmt.Sprintf("raw-unknown %x = %x", kv.Key, []byte(kv.Value)))
			continue
		}
		e := get(d.acct)
		if d.kind == 's' {
			if _, dup := e.sto[d.key]; dup {
				lines = append(lines, fmt.Sprintf("acct %s s %x ALSO in raw pool = %x", d.acct, d.key, []byte(kv.Value)))
				continue
			}
			e.sto[d.key] = fmt.Sprintf("%x", []byte(kv.Value))
		} else {
			if _, dup := e.lk[d.lk]; dup {
				lines = append(lines, fmt.Sprintf("acct %s l %x %d ALSO in raw pool", d.acct, d.lk.H, d.lk.Z))
				continue
			}
			var sl []uint32
			if len(kv.Value) >= 1 {
				for i := 1; i+4 <= len(kv.Value); i += 4 {
					sl = append(sl, binary.LittleEndian.Uint32(kv.Value[i:]))
				}
			}
			e.lk[d.lk] = fmt.Sprintf("%v", append([]uint32{}, sl...))
		}
	}
	for name, e := range ents {
		for k, v := range e.sto {
			lines = append(lines, fmt.Sprintf("acct %s s %x = %s", name, k, v))
		}
		for k, v := range e.lk {
			lines = append(lines, fmt.Sprintf("acct %s l %x %d = %s", name, k.H, k.Z, v))
		}
	}
	sort.Strings(lines)
	for i, x := range xfers {
		lines = append(lines, fmt.Sprintf("xfer %d: %s -> %s amount=%d gas=%d memo=%x", i, nm.name(x.SenderID, ps.ServiceAccounts),
			nm.name(x.ReceiverID, ps.ServiceAccounts), x.Balance, x.GasLimit, x.Memo[:8]))
	}
	if yield != nil {
		lines = append(lines, fmt.Sprintf("yield %x", *yield))
	} else {
		lines = append(lines, "yield nil")
	}
	var pl []string
	for _, b := range blobs {
		pl = append(pl, fmt.Sprintf("provided %s %x", nm.name(b.ServiceID, ps.ServiceAccounts), b.Blob))
	}
	sort.Strings(pl)
	return strings.Join(append(lines, pl...), "\n")
}

func c10CanonCtx(rc ResultContext, table map[types.StateKey]c10RawDesc, nm *c10Namer) string {
	var blobs []types.ServiceBlob
	for _, b := range rc.ServiceBlobs {
		blobs = append(blobs, b)
	}
	var pool types.StateKeyVals
	if rc.StorageKeyVal != nil {
		pool = *rc.StorageKeyVal
	}
	return c10CanonImpl(rc.PartialState, rc.DeferredTransfers, rc.Exception, blobs, pool, table, nm)
}

func c10PrivText(ps types.PartialStateSet) string {
	return fmt.Sprintf("bless=%d designate=%d create=%d assign=%v always=%v validators=%d authorizers=%d", ps.Bless, ps.Designate, ps.CreateAcct,
		ps.Assign, len(ps.AlwaysAccum), len(ps.ValidatorKeys), len(ps.Authorizers))
}

func c10FirstDiff(a, b string) string {
	la, lb := strings.Split(a, "\n"), strings.Split(b, "\n")
	inA := map[string]bool{}
	for _, l := range la {
		inA[l] = true
	}
	inB := map[string]bool{}
	for _, l := range lb {
		inB[l] = true
	}
	var out []string
	for _, l := range la {
		if !inB[l] {
			out = append(out, "  expected only: "+c10Short(l))
		}
	}
	for _, l := range lb {
		if !inA[l] {
			out = append(out, "  observed only: "+c10Short(l))
		}
	}
	if len(out) > 8 {
		out = append(out[:8], fmt.Sprintf("  … %d more", len(out)-8))
	}
	if len(out) == 0 {
		return "  (same lines, different order)"
	}
	return strings.Join(out, "\n")
}

func c10Short(s string) string {
	if len(s) > 260 {
		return s[:260] + "…"
	}
	return s
}

// ------------------------------------------------------------------ hook into the accumulate host-call table (aliasing observation)

var c10Hook struct {
	installed bool
	on        bool
	has       bool
	last      HostCallArgs
	snaps     []string
	canon     func(ResultContext) string
}

func c10InstallHooks() {
	if c10Hook.installed {
		return
	}
	c10Hook.installed = true
	for op := range AccumulateOmegas {
		orig := AccumulateOmegas[op]
		if orig == nil {
			continue
		}
		isCheckpoint := OperationType(op) == CheckpointOp
		AccumulateOmegas[op] = func(in OmegaInput) OmegaOutput {
			out := orig(in)
			if c10Hook.on {
				c10Hook.last, c10Hook.has = out.Addition, true
				if isCheckpoint && out.ExitReason == ExitContinue {
					c10Hook.snaps = append(c10Hook.snaps, c10Hook.canon(out.Addition.AccumulateArgs.ResultContextY))
				}
			}
			return out
		}
	}
}

// ------------------------------------------------------------------ check

func c10Check(c *kit.Case, in c10Input) {
	if len(in.Ops) > 40 || len(in.Others) < 1 || len(in.Others) > 3 || len(in.Incoming) > 4 || in.Ending < 0 || in.Ending > 5 ||
		in.OutLen < 1 || in.OutLen > 200 || in.OutLen == 32 || in.GasDelta < -1 || in.GasDelta > 1 || in.GasPoint < 0 {
		return
	}
	idSeen := map[uint32]bool{in.Self.ID: true, c10Absent: true}
	for _, o := range in.Others {
		if idSeen[o.ID] {
			return
		}
		idSeen[o.ID] = true
	}
	for _, op := range in.Ops {
		if op.Key < 0 || op.Key >= c10NKeys || op.ValLen < 0 || op.ValLen > 4000 || op.Hash < 0 || op.Hash >= c10NHashes ||
			op.Blob < -1 || op.Blob >= c10NBlobs || op.GasL > 1000 || op.L > 5000 {
			return
		}
		if (op.Kind == "provide") && op.Blob < 0 {
			return
		}
		if _, ok := c10HostIDs[op.Kind]; !ok {
			return
		}
	}
	env := &c10Env{self: c10Name(in.Self.ID), selfID: in.Self.ID, timeslot: in.Timeslot, d: int64(types.UnreferencedPreimageTimeslots),
		registrar: in.Registrar, manager: in.Manager}
	table := map[types.StateKey]c10RawDesc{}
	nm := &c10Namer{byID: map[uint32]string{}, byCode: map[[32]byte]string{}}

	// --- initial accounts (implementation + model)
	accounts := types.ServiceAccountState{}
	var pool types.StateKeyVals
	model0 := &c10MCtx{Accts: map[string]*c10MAcct{}, Prov: map[string]c10MProv{}}
	selfAcc, selfPool, selfM, ok := c10Build(in.Self, in.Self.ID, table)
	if !ok {
		return
	}
	type pend struct {
		acc  types.ServiceAccount
		m    *c10MAcct
		spec c10AcctSpec
	}
	pends := []pend{}
	pool = append(pool, selfPool...)
	for _, o := range in.Others {
		env.others = append(env.others, o.ID)
		acc, pl, ma, ok := c10Build(o, in.Self.ID, table)
		if !ok {
			return
		}
		pool = append(pool, pl...)
		pends = append(pends, pend{acc, ma, o})
	}

	// --- pass 1: pure model run with a dummy code entry to learn expected omega_7 values.
	// The code preimage's length enters the self account's footprint, and the program depends on the
	// expected return values, which depend on the footprint (FULL / CASH). The preimage length does not
	// depend on the immediates (fixed-width encodings), so assemble once with dummy values to get it.
	dummyKnown := make([]bool, len(in.Ops))
	createdGuess := make([]int, len(in.Ops))
	for i, op := range in.Ops {
		dummyKnown[i] = true
		if op.Kind == "new" {
			createdGuess[i] = 1
		}
	}
	finish := func(codeLen int, codeHash [32]byte, preimage []byte) *c10MCtx {
		mc := model0.clone()
		sm := selfM.clone()
		sm.CodeHash = codeHash
		sm.Lk[c10Lk{H: codeHash, Z: uint32(codeLen)}] = []uint32{0}
		sm.Pre[codeHash] = preimage
		sm.Bal = sm.threshold() + in.Self.Slack
		mc.Accts[env.self] = sm
		for _, p := range pends {
			m := p.m.clone()
			m.Bal = m.threshold() + p.spec.Slack
			mc.Accts[c10Name(p.spec.ID)] = m
		}
		return mc
	}
	// The number of instructions depends on which `new` ops succeed (they save the id) and on known/unknown
	// ids, so iterate: guess -> model -> assemble until the shape is stable (at most 3 rounds).
	var prog c10Program
	var rets []uint64
	var retKnown []bool
	var createdAt []int
	var x0 *c10MCtx
	stable := false
	guessCreated := createdGuess
	guessKnown := dummyKnown
	guessRets := make([]uint64, len(in.Ops))
	for round := 0; round < 4 && !stable; round++ {
		prog = c10Assemble(&in, env, guessRets, guessKnown, guessCreated)
		ch := blake2b.Sum256(prog.preimage)
		x0 = finish(len(prog.preimage), ch, prog.preimage)
		// incoming transfers are credited before the program runs
		for _, amt := range in.Incoming {
			x0.Accts[env.self].Bal += amt
		}
		mx := x0.clone()
		rets = make([]uint64, len(in.Ops))
		retKnown = make([]bool, len(in.Ops))
		createdAt = make([]int, len(in.Ops))
		var created []string
		for i, op := range in.Ops {
			if op.Kind == "checkpoint" {
				retKnown[i] = true
				continue
			}
			r, known, _, newName := c10Apply(mx, env, i, op, created)
			rets[i], retKnown[i] = r, known
			if newName != "" {
				createdAt[i] = 1
				if len(created) < 3 {
					created = append(created, newName)
				}
			}
		}
		stable = true
		for i := range in.Ops {
			if createdAt[i] != guessCreated[i] || retKnown[i] != guessKnown[i] || rets[i] != guessRets[i] {
				stable = false
			}
		}
		guessCreated, guessKnown, guessRets = createdAt, retKnown, rets
	}
	if !stable {
		c.Class("script_shape_not_stable")
		return
	}
	codeHash := blake2b.Sum256(prog.preimage)

	// --- reference run with ample gas: validates the program and yields the gas boundaries
	full, okRef := c10RunRef(&in, env, &prog, x0, 1<<40)
	if !okRef || full.BadRegs != "" || full.Calls != len(in.Ops) {
		c.Failf("harness error: assembled program does not follow its script on the reference machine (calls=%d of %d, %s)", full.Calls, len(in.Ops), full.BadRegs)
	}
	wantEnd := map[int]string{0: "halt", 1: "halt", 2: "halt", 3: "halt", 4: "panic", 5: "fault"}[in.Ending]
	if full.Exit != wantEnd {
		c.Failf("harness error: reference run ended with %s, script ending %d wants %s", full.Exit, in.Ending, wantEnd)
	}
	gasLimit := int64(1 << 30)
	if in.GasMode == 1 {
		bounds := append(append([]int64{}, full.Bounds...), full.GasUsed)
		// rapid's integers are biased towards small values: scramble so that small draws spread over the whole program
		g := bounds[((in.GasPoint%1000)*619%1000)*len(bounds)/1000] + int64(in.GasDelta)
		if g < 0 {
			g = 0
		}
		gasLimit = g
	}
	exp := full
	if in.GasMode == 1 {
		exp, okRef = c10RunRef(&in, env, &prog, x0, gasLimit)
		if !okRef {
			c.Failf("harness error: limited reference run failed")
		}
	}

	// --- implementation: accounts, Psi_A
	selfM0 := x0.Accts[env.self]
	selfAcc.PreimageLookup[types.OpaqueHash(codeHash)] = append(types.ByteSequence(nil), prog.preimage...)
	selfAcc.LookupDict[types.LookupMetaMapkey{Hash: types.OpaqueHash(codeHash), Length: types.U32(len(prog.preimage))}] = types.TimeSlotSet{0}
	{
		// balance before the incoming credit
		credit := uint64(0)
		for _, amt := range in.Incoming {
			credit += amt
		}
		tmp := selfM0.clone()
		tmp.Bal -= credit
		c10FinishAccount(&selfAcc, tmp, in.Self.ID)
	}
	accounts[types.ServiceID(in.Self.ID)] = selfAcc
	nm.byID[in.Self.ID] = env.self
	for _, p := range pends {
		m := x0.Accts[c10Name(p.spec.ID)]
		acc := p.acc
		c10FinishAccount(&acc, m, in.Self.ID)
		accounts[types.ServiceID(p.spec.ID)] = acc
		nm.byID[p.spec.ID] = c10Name(p.spec.ID)
	}
	for i, op := range in.Ops {
		if op.Kind == "new" {
			nm.byCode[c10CodeHashOfNew(i)] = fmt.Sprintf("N%d", i)
			if in.Registrar && op.I < 65536 {
				if _, taken := nm.byID[op.I]; !taken {
					nm.byID[op.I] = c10Name(op.I)
				}
			}
		}
	}
	ps := types.PartialStateSet{
		ServiceAccounts: accounts,
		Bless:           types.ServiceID(c10Absent),
		CreateAcct:      types.ServiceID(c10Absent),
		Designate:       types.ServiceID(c10Absent),
		Assign:          types.ServiceIDList{7, 8},
		AlwaysAccum:     types.AlwaysAccumulateMap{9: 10},
	}
	if in.Manager {
		ps.Bless = types.ServiceID(in.Self.ID)
	}
	if in.Registrar {
		ps.CreateAcct = types.ServiceID(in.Self.ID)
	}
	privBefore := c10PrivText(ps)
	var inputs []types.OperandOrDeferredTransfer
	for j, amt := range in.Incoming {
		dt := types.DeferredTransfer{SenderID: types.ServiceID(in.Others[0].ID), ReceiverID: types.ServiceID(in.Self.ID), Balance: types.U64(amt), GasLimit: types.Gas(j)}
		inputs = append(inputs, types.OperandOrDeferredTransfer{DeferredTransfer: &dt})
	}
	var eta types.Entropy
	eta[0] = 0x77

	c10InstallHooks()
	c10Hook.on, c10Hook.has, c10Hook.snaps = true, false, nil
	c10Hook.canon = func(rc ResultContext) string { return c10CanonCtx(rc, table, nm) }
	res := Psi_A(ps, types.TimeSlot(in.Timeslot), types.ServiceID(in.Self.ID), types.Gas(gasLimit), inputs, eta, pool)
	c10Hook.on = false
	snaps := c10Hook.snaps
	var yAtExit string
	if c10Hook.has {
		yAtExit = c10Hook.canon(c10Hook.last.AccumulateArgs.ResultContextY)
	}

	got := c10CanonImpl(res.PartialStateSet, res.DeferredTransfers, res.Result, res.ServiceBlobs, res.StorageKeyVal, table, nm)
	gotGas := int64(res.Gas)

	// --- expected result
	var wantCtx *c10MCtx
	halted := exp.Exit == "halt"
	if halted {
		wantCtx = exp.X.clone()
		if len(exp.Out) == 32 {
			var h [32]byte
			copy(h[:], exp.Out)
			wantCtx.Yield = &h
		}
	} else {
		wantCtx = exp.Y.clone()
	}
	want := wantCtx.canon()

	nCheckpoints := len(exp.YSnaps)
	endName := exp.Exit
	if halted {
		endName = fmt.Sprintf("halt_out%d", map[int]int{0: 0, 1: 32, 2: 1, 3: -1}[in.Ending])
	}
	cpClass := nCheckpoints
	if cpClass > 2 {
		cpClass = 2
	}

	if p := c10PrivText(res.PartialStateSet); p != privBefore {
		c.Failf("privileges / queues changed although the script never touches them: %s -> %s", privBefore, p)
	}

	followed := true
	if got != want || gotGas != exp.GasUsed {
		followed = false
		// (a) known finding: provided preimages dropped when halting with an output that is neither empty nor 32 bytes
		if halted && got != want && (in.Ending == 2 || in.Ending == 3) && len(wantCtx.Prov) > 0 && len(res.ServiceBlobs) == 0 && gotGas == exp.GasUsed {
			stripped := wantCtx.clone()
			stripped.Prov = map[string]c10MProv{}
			if stripped.canon() == got {
				c.KnownNote("KF-C10-1", fmt.Sprintf("halt with a %d-byte output (ending %d): %d provided preimage(s) of the X context are missing from Psi_A's result, everything else matches",
					len(exp.Out), in.Ending, len(wantCtx.Prov)))
				c.Class("kf_c10_1_blobs_dropped")
				followed = true
				got = want
			}
		}
	}
	if !followed {
		// (b) the program's own check of op k failed in the implementation (model and implementation disagree
		// about an op): the program trapped there, so the result must be the checkpoint state in force at op k.
		matched := -1
		for k := 0; k < len(exp.YBefore) && k < len(in.Ops); k++ {
			if in.Ops[k].Kind == "checkpoint" {
				continue
			}
			if got != exp.YBefore[k] || k >= len(exp.AfterCall) {
				continue
			}
			base := exp.AfterCall[k]
			cands := []int64{base + 2}
			if in.Ops[k].Kind == "transfer" {
				cands = append(cands, base+2-int64(in.Ops[k].GasL), base+2+int64(in.Ops[k].GasL))
			}
			for _, cg := range cands {
				if gotGas == cg || (gotGas == gasLimit && gasLimit <= cg) {
					matched = k
				}
			}
			if matched >= 0 {
				break
			}
		}
		if matched >= 0 {
			c.Class("unexpected_trap_at_" + in.Ops[matched].Kind)
			return
		}
		if got != want {
			c.Failf("%s after %d ops, %d checkpoint(s), gas limit %d: Psi_A's result differs from the %s context of the model (gas used %d, model %d)\n%s",
				exp.Exit, exp.Calls, nCheckpoints, gasLimit, map[bool]string{true: "X", false: "checkpoint (Y)"}[halted], gotGas, exp.GasUsed, c10FirstDiff(want, got))
		}
		c.Class("gas_used_differs_only")
		c.Failf("%s after %d ops: state matches but gas used is %d, reference %d (limit %d)", exp.Exit, exp.Calls, gotGas, exp.GasUsed, gasLimit)
	}

	// --- aliasing: Y right after each checkpoint == model's Y at that point, and the last one == Y at exit
	if len(snaps) != len(exp.YSnaps) {
		c.Failf("the implementation executed %d checkpoints, the reference %d", len(snaps), len(exp.YSnaps))
	}
	for i := range snaps {
		if snaps[i] != exp.YSnaps[i] {
			c.Failf("checkpoint %d: Y right after the checkpoint differs from the model's X at that point\n%s", i, c10FirstDiff(exp.YSnaps[i], snaps[i]))
		}
	}
	if len(snaps) > 0 && yAtExit != snaps[len(snaps)-1] {
		c.Failf("Y at exit differs from the snapshot taken right after the last checkpoint (mutations after the checkpoint leaked into it)\n%s",
			c10FirstDiff(snaps[len(snaps)-1], yAtExit))
	}

	// --- classes / non-triviality
	c.Class(fmt.Sprintf("end_%s_cp%d", endName, cpClass))
	if in.GasMode == 1 {
		c.Class("gas_limited_" + exp.Exit)
	}
	mutAfter := false
	lastCP := -1
	for k := 0; k < exp.Calls && k < len(in.Ops); k++ {
		if in.Ops[k].Kind == "checkpoint" {
			lastCP = k
		}
	}
	for k := lastCP + 1; k < exp.Calls && k < len(in.Ops); k++ {
		r := rets[k]
		switch in.Ops[k].Kind {
		case "write":
			if r != FULL {
				mutAfter = true
			}
		case "new":
			if createdAt[k] == 1 {
				mutAfter = true
			}
		default:
			if r == OK {
				mutAfter = true
			}
		}
	}
	if mutAfter {
		c.Class("mutation_after_last_checkpoint")
	}
	if mutAfter && !(halted && in.Ending == 0) {
		c.NonTrivial()
	}
	for k := 0; k < exp.Calls && k < len(in.Ops); k++ {
		op := in.Ops[k]
		r := rets[k]
		switch {
		case op.Kind == "new" && createdAt[k] == 1:
			c.Class("op_new_created")
		case op.Kind == "write":
			if r == FULL {
				c.Class("op_write_FULL")
			} else {
				c.Class("op_write_done")
			}
		case op.Kind == "checkpoint":
			c.Class("op_checkpoint")
		default:
			c.Class("op_" + op.Kind + "_" + c10RetName(r))
		}
	}
}

func c10RetName(v uint64) string {
	switch v {
	case NONE:
		return "NONE"
	case WHO:
		return "WHO"
	case FULL:
		return "FULL"
	case CASH:
		return "CASH"
	case LOW:
		return "LOW"
	case HUH:
		return "HUH"
	case OK:
		return "OK"
	}
	return "value"
}


func TestVerif_C10(t *testing.T) {
	s := kit.Begin(t, "C10")
	defer s.Finish()
	kit.Run(s, "program_rollback", kit.N{Quick: 12000, Thorough: 300000}, c10Gen, c10Check)
}
