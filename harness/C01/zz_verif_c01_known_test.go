package PVM

import (
	kit "github.com/New-JAMneration/JAM-Protocol/internal/verifkit"
	ref "github.com/New-JAMneration/JAM-Protocol/internal/verifref/refpvm"
)

// c01Known attributes a divergence to a listed known finding (narrow predicates
// over the input and the observed divergence). It returns normally when no
// finding matches; the caller then reports a violation.
func c01Known(c *kit.Case, st *vpState, m *ref.Machine, want, got vpOutcome, diff string) {
	if m != nil && m.Flags["self_branch_taken"] && got.Kind != "gopanic" {
		c.Known("KF-C01-self-branch", "a taken branch/jump whose target is its own address is executed as a fall-through")
	}
}
