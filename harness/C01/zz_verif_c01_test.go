package PVM

// C01: PVM execution matches the Gray Paper machine (reference: refpvm).

import (
	"fmt"
	"os"
	"testing"

	kit "github.com/New-JAMneration/JAM-Protocol/internal/verifkit"
	ref "github.com/New-JAMneration/JAM-Protocol/internal/verifref/refpvm"
	"pgregory.net/rapid"
)

func c01GenGrammar(rt *rapid.T) vpState {
	code, k, jt, z := vpGenProgram(rt, false, 12)
	pages := vpGenPages(rt)
	st := vpState{Blob: vpAssembleGen(rt, code, k, jt, z), Pages: pages, Regs: vpGenRegs(rt, pages), Gas: vpGenGas(rt), Host: vpGenHost(rt)}
	switch rapid.IntRange(0, 9).Draw(rt, "pck") {
	case 0:
		st.PC = uint32(rapid.IntRange(0, len(code)+3).Draw(rt, "pcany"))
	case 1:
		st.PC = uint32(len(code)) + uint32(rapid.IntRange(0, 5).Draw(rt, "pcpast"))
	default:
		st.PC = 0
	}
	return st
}

func c01GenRaw(rt *rapid.T) vpState {
	n := rapid.IntRange(0, 40).Draw(rt, "n")
	code := rapid.SliceOfN(rapid.Byte(), n, n).Draw(rt, "code")
	k := make([]bool, n)
	for i := range k {
		k[i] = rapid.IntRange(0, 2).Draw(rt, "kbit") == 0
	}
	if n > 0 && rapid.IntRange(0, 4).Draw(rt, "k0") != 0 {
		k[0] = true
	}
	// bias: make instruction starts valid opcodes most of the time
	for i := range code {
		if k[i] && rapid.IntRange(0, 4).Draw(rt, "fixop") != 0 {
			code[i] = rapid.SampledFrom(vpValidOps).Draw(rt, "vop")
			if code[i] == 101 {
				code[i] = 100
			}
		}
	}
	for i := range code {
		if code[i] == 101 && k[i] {
			code[i] = 102
		}
	}
	nj := rapid.IntRange(0, 3).Draw(rt, "nj")
	var jt []uint64
	for i := 0; i < nj; i++ {
		jt = append(jt, uint64(rapid.IntRange(0, n+1).Draw(rt, "j")))
	}
	pages := vpGenPages(rt)
	return vpState{Blob: vpAssemble(code, k, jt, rapid.SampledFrom([]int{1, 2, 4}).Draw(rt, "z")), Pages: pages,
		Regs: vpGenRegs(rt, pages), Gas: vpGenGas(rt), Host: vpGenHost(rt)}
}

// c01GenDjump: small programs built around ONE dynamic jump (jump_ind / load_imm_jump_ind) whose
// address is aimed at a jump-table entry: every entry width 1..16, entries that are block starts,
// instruction starts inside a block, operand octets or past the code, and (widths above 8) entries
// with a non-zero octet above the 64-bit part. The register holds 2*(index+1) - immediate most of
// the time, so the table is really consulted.
func c01GenDjump(rt *rapid.T) vpState {
	useLoadImm := rapid.Bool().Draw(rt, "load_imm_jump_ind")
	ra := rapid.IntRange(0, 12).Draw(rt, "ra")
	rb := ra
	if useLoadImm && rapid.IntRange(0, 2).Draw(rt, "same_reg") != 0 {
		rb = rapid.IntRange(0, 12).Draw(rt, "rb")
	}
	imm := byte(rapid.SampledFrom([]int{0, 0, 2, 4, 0x7F, 0x80, 0xFE}).Draw(rt, "imm"))
	var code []byte
	var k []bool
	emit := func(b ...byte) {
		for i, x := range b {
			code = append(code, x)
			k = append(k, i == 0)
		}
	}
	if useLoadImm {
		// load_imm_jump_ind rA, rB, lX=1: vX (1 octet), vY (1 octet)
		emit(180, byte(ra)|byte(rb)<<4, 1, 9, imm)
	} else {
		emit(50, byte(ra), imm)
	}
	emit(0) // trap: the next instruction starts a block
	b1 := len(code)
	emit(51, 2, 9) // load_imm r2, 9
	mid := len(code)
	emit(51, 3, 7) // load_imm r3, 7  (an instruction start inside the block)
	emit(0)
	b2 := len(code)
	emit(51, 4, 5)
	emit(0)
	z := rapid.SampledFrom([]int{1, 1, 2, 3, 4, 8, 8, 9, 9, 10, 12, 16}).Draw(rt, "z")
	nj := rapid.IntRange(1, 4).Draw(rt, "nj")
	var jt []uint64
	for i := 0; i < nj; i++ {
		jt = append(jt, uint64(rapid.SampledFrom([]int{b1, b1, b2, 0, mid, b1 + 1, len(code), len(code) + 1}).Draw(rt, "entry")))
	}
	blob := vpAssembleGen(rt, code, k, jt, z)
	pages := vpGenPages(rt)
	st := vpState{Blob: blob, Pages: pages, Regs: vpGenRegs(rt, pages), Gas: vpGenGas(rt), Host: vpGenHost(rt)}
	if rapid.IntRange(0, 5).Draw(rt, "aimed") != 0 {
		idx := rapid.IntRange(0, nj).Draw(rt, "idx") // nj: one past the table
		base := uint64(2*(idx+1)) - uint64(int64(int8(imm)))
		if rapid.IntRange(0, 7).Draw(rt, "upper_half_dirty") == 0 {
			base += uint64(rapid.IntRange(1, 3).Draw(rt, "hi")) << 32 // the address is taken modulo 2^32
		}
		st.Regs[rb] = base
	}
	return st
}

// c01Single is one enumerated single-instruction program.
func c01Single(op byte, b1, b2 byte, skip int, position int, tail []byte) ([]byte, uint32) {
	// operand area: skip bytes following the opcode: b1, b2, then tail pattern
	operands := make([]byte, skip)
	for i := range operands {
		switch i {
		case 0:
			operands[i] = b1
		case 1:
			operands[i] = b2
		default:
			operands[i] = tail[(i-2)%len(tail)]
		}
	}
	var code []byte
	var k []bool
	pc := uint32(0)
	if position >= 1 { // middle or end: preceded by a fallthrough
		code = append(code, 1)
		k = append(k, true)
		pc = 1
	}
	code = append(code, op)
	k = append(k, true)
	code = append(code, operands...)
	for range operands {
		k = append(k, false)
	}
	if position <= 1 { // start or middle: followed by trap + padding so operand reads past skip see real bytes
		code = append(code, 0, 0xAA, 0x55, 0xFF, 0x01, 0x80, 0x7F, 0x10, 0x02)
		k = append(k, true, false, false, false, false, false, false, false, false)
	}
	return vpAssemble(code, k, []uint64{0, uint64(pc), 2}, 1), pc
}

type c01EnumIn struct {
	Op       int    `json:"op"`
	B1       int    `json:"b1"`
	B2       int    `json:"b2"`
	Skip     int    `json:"skip"`
	Position int    `json:"position"` // 0 start, 1 middle, 2 end of code
	Variant  int    `json:"variant"`  // register/memory variant
	Tail     []byte `json:"tail"`
}

func c01EnumState(in c01EnumIn) vpState {
	tail := in.Tail
	if len(tail) == 0 {
		tail = []byte{0x80}
	}
	blob, pc := c01Single(byte(in.Op), byte(in.B1), byte(in.B2), in.Skip, in.Position, tail)
	pages := []vpPage{{Page: 16, Access: 2, Fill: 3}, {Page: 17, Access: 1, Fill: 5}, {Page: 32, Access: 2, Fill: 0}}
	var regs [13]uint64
	for i := range regs {
		switch in.Variant % 3 {
		case 0:
			regs[i] = uint64(16*ZP) + uint64(i)*8
		case 1:
			regs[i] = vpBoundary64[(i*7+in.Op+in.Variant)%len(vpBoundary64)]
		default:
			regs[i] = uint64(17*ZP) - 3 + uint64(i)
		}
	}
	return vpState{Blob: blob, PC: pc, Gas: 5, Regs: regs, Pages: pages,
		Host: []vpHostAct{{Kind: 0, GasFee: 0, SetR7: 42}}}
}

func c01CheckEnum(c *kit.Case, in c01EnumIn) {
	st := c01EnumState(in)
	c01Compare(c, &st)
}

func c01Check(c *kit.Case, st vpState) { c01Compare(c, &st) }

func c01Compare(c *kit.Case, st *vpState) {
	if st.Gas < 0 || st.Gas > 1<<40 {
		return
	}
	want, m, status := vpRunRef(st, 200000)
	got := vpRunImpl(st)

	if status == 2 {
		c.Class("out_of_domain_noncanonical_blob")
		if got.Kind == "gopanic" {
			c.Failf("Go runtime panic in the implementation: %s", got.GoPanic)
		}
		return
	}
	if want.Kind == "deblob_reject" {
		c.Class("ref_deblob_reject")
		if got.Kind == "gopanic" {
			c01Known(c, st, m, want, got, "gopanic on malformed blob")
			c.Failf("malformed blob: Go runtime panic in the implementation: %s", got.GoPanic)
		}
		if got.Kind != "deblob_reject" {
			c.Failf("reference rejects the blob as malformed, implementation runs it: %s", got.Kind)
		}
		return
	}
	if want.Kind == "unsupported" || want.Kind == "steplimit" {
		c.Class("ref_declines_" + want.Kind)
		return
	}
	if prog := m.P; uint64(st.PC) < uint64(len(prog.Code)) && !prog.IsBlockStart(uint64(st.PC)) {
		// every caller of the top-level engine enters at a fixed entry point (0, 5, 10), which
		// is a basic-block start in any program that reaches it; a start inside a block is
		// exercised on the single-step engine (C02/C33) and is out of this check's domain
		c.Class("out_of_domain_start_inside_block")
		if got.Kind == "gopanic" {
			c.Failf("Go runtime panic in the implementation: %s", got.GoPanic)
		}
		return
	}
	if m.Flags["pc_not_instr_start"] {
		c.Class("out_of_domain_pc_inside_instruction")
		if got.Kind == "gopanic" {
			c.Failf("Go runtime panic in the implementation: %s", got.GoPanic)
		}
		return
	}
	// classes / non-trivial
	c.Class("exit_" + want.Kind)
	for f := range m.Flags {
		_ = f
	}
	for _, f := range []string{"invalid_opcode_reached", "pc_past_end", "instr_at_end_of_code", "skip_shorter_than_operands"} {
		if m.Flags[f] {
			c.Class(f)
		}
	}
	if m.NonTrap >= 1 {
		c.NonTrivial()
	}
	if m.NonTrap >= 3 {
		c.Class("ge3_instructions")
	}
	if len(want.HostIDs) > 0 {
		c.Class("host_called")
	}

	diff := c01Diff(want, got, m)
	if diff == "" {
		return
	}
	c01Known(c, st, m, want, got, diff)
	if os.Getenv("VERIF_SURVEY") != "" {
		c.Class("DIV:" + vpStripDigits(diff, 70))
		return
	}
	c.Failf("%s\nreference: %s\nimplementation: %s", diff, c01Show(want), c01Show(got))
}

func c01Show(o vpOutcome) string {
	return fmt.Sprintf("exit=%s arg=%#x counter=%d gas=%d hostids=%v regs=%x gopanic=%q", o.Kind, o.Arg, o.Counter, o.Gas, o.HostIDs, o.Regs, o.GoPanic)
}

func c01Diff(want, got vpOutcome, m *ref.Machine) string {
	if got.Kind == "gopanic" {
		return "Go runtime panic in the implementation: " + got.GoPanic
	}
	if got.Kind == "deblob_reject" {
		return "implementation rejects at load a blob the reference machine runs (reference exit " + want.Kind + ")"
	}
	if want.Kind != got.Kind {
		return fmt.Sprintf("exit kind differs: reference %s implementation %s", want.Kind, got.Kind)
	}
	var wantStub []uint64
	for _, id := range want.HostIDs {
		if id < 256 {
			wantStub = append(wantStub, id)
		}
	}
	want.HostIDs = wantStub
	if want.Kind == "oog" && want.Gas < 0 {
		want.Gas = 0 // an unpaid host call leaves the counter below zero; reported gas is clamped at 0
	}
	if got.Kind == "oog" && got.Gas < 0 {
		got.Gas = 0
	}
	if len(want.HostIDs) != len(got.HostIDs) {
		return fmt.Sprintf("host-call sequence length differs: %v vs %v", want.HostIDs, got.HostIDs)
	}
	for i := range want.HostIDs {
		if want.HostIDs[i] != got.HostIDs[i] {
			return fmt.Sprintf("host-call id %d differs: reference %#x implementation %#x", i, want.HostIDs[i], got.HostIDs[i])
		}
	}
	if want.Kind == "fault" {
		// tolerant form of the property: page start of the access <= addr < end of the access
		lo := m.FaultStart / ZP * ZP
		hi := m.FaultStart + uint64(m.FaultLen)
		ok := got.Arg >= lo && got.Arg < hi
		if hi > 1<<32 && got.Arg < hi-(1<<32) {
			ok = true
		}
		if !ok {
			return fmt.Sprintf("page-fault address %#x outside [%#x,%#x)", got.Arg, lo, hi)
		}
	}
	if want.Gas != got.Gas {
		return fmt.Sprintf("remaining gas differs: reference %d implementation %d", want.Gas, got.Gas)
	}
	if want.Regs != got.Regs {
		return fmt.Sprintf("registers differ: reference %x implementation %x", want.Regs, got.Regs)
	}
	if want.Kind == "fault" || want.Kind == "oog" || want.Kind == "host" {
		if want.Counter != got.Counter {
			return fmt.Sprintf("resume counter differs: reference %d implementation %d", want.Counter, got.Counter)
		}
	}
	if d := vpMemDiff(want.MemDigest, got.MemDigest); d != "" {
		return "memory differs: " + d
	}
	return ""
}

func TestVerif_C01(t *testing.T) {
	s := kit.Begin(t, "C01")
	defer s.Finish()
	s.EnableSentinel()
	// exhaustive-ish enumeration: every opcode byte x skip x position x operand pairs
	if !kit.EnumSub(s, "enum_single_instruction", c01CheckEnum) {
		b1s := []int{0x00, 0x0C, 0xCD, 0xFF, 0x47, 0x81, 0x18, 0x7A}
		b2s := []int{0x00, 0x07, 0x0C, 0xFF, 0x84, 0x0D}
		tails := [][]byte{{0x80}, {0x01, 0x00, 0x00, 0x00}, {0xFF}}
		full := s.Thorough()
		idx := 0
	loop:
		for op := 0; op < 256; op++ {
			for skip := 0; skip <= 25; skip++ {
				for pos := 0; pos < 3; pos++ {
					for bi, b1 := range b1s {
						for ci, b2 := range b2s {
							if !full && !((bi+ci+op+skip)%12 == 0) {
								continue
							}
							for v := 0; v < 3; v++ {
								if !full && v != (op+skip+pos)%3 {
									continue
								}
								idx++
								if idx%s.NShards != s.Shard {
									continue
								}
								in := c01EnumIn{Op: op, B1: b1, B2: b2, Skip: skip, Position: pos, Variant: v, Tail: tails[(op+skip+v)%len(tails)]}
								if !kit.Each(s, "enum_single_instruction", in, c01CheckEnum) {
									break loop
								}
							}
						}
					}
				}
			}
		}
	}
	kit.Run(s, "grammar_programs", kit.N{Quick: 30000, Thorough: 3000000}, c01GenGrammar, c01Check)
	kit.Run(s, "raw_programs", kit.N{Quick: 10000, Thorough: 1000000}, c01GenRaw, c01Check)
	kit.Run(s, "dynamic_jump_programs", kit.N{Quick: 10000, Thorough: 500000}, c01GenDjump, c01Check)
}

// FuzzVerif_C01 drives the grammar-program differential with Go's coverage-guided fuzzer.
func FuzzVerif_C01(f *testing.F) {
	kit.Fuzz(f, "C01", "grammar_programs", c01GenGrammar, c01Check)
}
