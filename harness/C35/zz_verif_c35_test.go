package stf

// C35: dispute records (GP 10.3-10.20) over block histories on the
// blockchain singleton. Code under test: stf.UpdateDisputes ->
// extrinsic.Disputes and the verdict/culprit/fault/dispute controllers.
//
// The input is a history AS DATA (key ids, target pool, per-vote index / vote /
// signature mode ...). Signatures are real Ed25519 signatures produced in the
// check from deterministic keys. The oracle is an independent model of the GP
// equations that keeps psi as sets and verifies signatures with the standard
// library (the implementation uses ed25519consensus).
//
// Mode covered: tiny (V=6, C=2, E=12), the package default.

import (
	"bytes"
	"crypto/ed25519"
	"crypto/sha256"
	"crypto/sha512"
	"fmt"
	"sort"
	"testing"

	"github.com/New-JAMneration/JAM-Protocol/internal/blockchain"
	"github.com/New-JAMneration/JAM-Protocol/internal/types"
	kit "github.com/New-JAMneration/JAM-Protocol/internal/verifkit"
	"github.com/New-JAMneration/JAM-Protocol/logger"
	"golang.org/x/crypto/blake2b"
	"pgregory.net/rapid"
)

const (
	c35V = 6
	c35C = 2
	c35E = 12
	c35N = c35V*2/3 + 1 // judgements per verdict
)

type c35H = [32]byte

type c35Rep struct {
	Core int  `json:"core"`
	Tag  byte `json:"tag"`
}

type c35Target struct {
	Report int    `json:"report"` // >=0: hash of Reports[Report]; -1: Raw
	Raw    []byte `json:"raw,omitempty"`
}

type c35Vote struct {
	Index int  `json:"i"`
	Vote  bool `json:"v"`
	Sig   int  `json:"s"` // 0 valid, 1 other key, 2 opposite statement, 3 garbage, 4 other target
}

type c35Verdict struct {
	Target int       `json:"t"`
	Age    int       `json:"age"` // 0 current epoch, 1 previous, 2 a+1, 3 a+1000, 4 a-2
	Votes  []c35Vote `json:"votes"`
}

type c35KeyRef struct {
	Set int `json:"set"` // 0 kappa, 1 lambda, 2 outsider (Idx = key id)
	Idx int `json:"idx"`
}

type c35Culprit struct {
	Target int       `json:"t"`
	Key    c35KeyRef `json:"k"`
	Sig    int       `json:"s"`
}

type c35Fault struct {
	Target int       `json:"t"`
	Vote   bool      `json:"v"`
	Key    c35KeyRef `json:"k"`
	Sig    int       `json:"s"`
}

type c35Block struct {
	Tau        uint32       `json:"tau"`
	Rho        []int        `json:"rho"` // per core: -1 empty, else report id
	Verdicts   []c35Verdict `json:"verdicts"`
	Culprits   []c35Culprit `json:"culprits"`
	Faults     []c35Fault   `json:"faults"`
	SortV      bool         `json:"sortv"` // present verdicts ordered by target
	SortC      bool         `json:"sortc"` // culprits ordered by key
	SortF      bool         `json:"sortf"` // faults ordered by key
	LateReject bool         `json:"late_reject"` // block is rejected by a later STF stage: never committed
}

type c35Input struct {
	Mode    string      `json:"mode"`
	Kappa   []int       `json:"kappa"`  // key ids
	Lambda  []int       `json:"lambda"` // key ids
	Reports []c35Rep    `json:"reports"`
	Targets []c35Target `json:"targets"`
	Blocks  []c35Block  `json:"blocks"`
}

// ---------------------------------------------------------------- keys, hashes

var c35KeyCache = map[int]ed25519.PrivateKey{}

func c35Key(id int) ed25519.PrivateKey {
	if k, ok := c35KeyCache[id]; ok {
		return k
	}
	seed := sha256.Sum256([]byte(fmt.Sprintf("verif-c35-key-%d", id)))
	k := ed25519.NewKeyFromSeed(seed[:])
	c35KeyCache[id] = k
	return k
}

func c35Pub(id int) c35H {
	var p c35H
	copy(p[:], c35Key(id).Public().(ed25519.PublicKey))
	return p
}

func c35Report(r c35Rep) types.WorkReport {
	// the package hash depends on two bits of the tag only: different reports of one package (a package
	// reported again with another outcome) occur in one history; the report itself carries the whole tag
	h := sha256.Sum256([]byte{'r', r.Tag & 3, byte(r.Core)})
	return types.WorkReport{
		PackageSpec: types.WorkPackageSpec{Hash: types.WorkPackageHash(h), Length: types.U32(r.Tag)},
		CoreIndex:   types.CoreIndex(r.Core),
		Results: []types.WorkResult{{ServiceID: 1,
			Result: types.WorkExecResult{Type: types.WorkExecResultOk}}},
	}
}

func c35ReportHash(c *kit.Case, r *types.WorkReport) c35H {
	enc := types.GetEncoder()
	b, err := enc.Encode(r)
	types.PutEncoder(enc)
	if err != nil {
		c.Failf("harness: cannot encode a work report: %v", err)
	}
	return blake2b.Sum256(b)
}

func c35Sign(priv ed25519.PrivateKey, ctx, altCtx string, target c35H, mode int) types.Ed25519Signature {
	var out types.Ed25519Signature
	msg := append([]byte(ctx), target[:]...)
	switch mode {
	case 1:
		copy(out[:], ed25519.Sign(c35Key(777), msg))
	case 2:
		copy(out[:], ed25519.Sign(priv, append([]byte(altCtx), target[:]...)))
	case 3:
		g := sha512.Sum512(msg)
		copy(out[:], g[:])
	case 4:
		t2 := target
		t2[0] ^= 1
		copy(out[:], ed25519.Sign(priv, append([]byte(ctx), t2[:]...)))
	default:
		copy(out[:], ed25519.Sign(priv, msg))
	}
	return out
}

func c35Stmt(v bool) (string, string) {
	if v {
		return types.JamValid, types.JamInvalid
	}
	return types.JamInvalid, types.JamValid
}

// ---------------------------------------------------------------- model (GP 10.3-10.20)

type c35Psi struct {
	G, B, W, O map[c35H]bool
}

func c35NewPsi() *c35Psi {
	return &c35Psi{G: map[c35H]bool{}, B: map[c35H]bool{}, W: map[c35H]bool{}, O: map[c35H]bool{}}
}

type c35Relax struct {
	FaultUnjudged bool          // accept a fault whose target is in neither psi'_g nor psi'_b
	AgeWrap       bool          // accept age 2^32-1 as "previous epoch" when the epoch index is 0
	ExtraExcluded map[c35H]bool // keys additionally excluded from the eligible key set
}

type c35Outcome struct {
	Accept      bool
	Reason      string
	OutOfDomain bool
	NewG        []c35H
	NewB        []c35H
	NewW        []c35H
	NewO        []c35H
	Cleared     map[c35H]bool // targets judged with fewer than floor(2V/3) positive votes
}

func c35Rej(r string) c35Outcome { return c35Outcome{Reason: r} }

func c35ModelStep(psi *c35Psi, ext *types.DisputesExtrinsic, kappa, lambda []c35H, tau uint32, rx c35Relax) c35Outcome {
	a := tau / c35E
	type vs struct {
		r   c35H
		sum int
	}
	var sums []vs
	// 10.3 (and the judgement count of 10.2, which is the decoder's job: out of domain here)
	for _, v := range ext.Verdicts {
		if len(v.Votes) != c35N {
			return c35Outcome{OutOfDomain: true, Reason: "judgement_count"}
		}
	}
	for _, v := range ext.Verdicts {
		var ks []c35H
		switch {
		case uint32(v.Age) == a:
			ks = kappa
		case a >= 1 && uint32(v.Age) == a-1:
			ks = lambda
		case rx.AgeWrap && a == 0 && uint32(v.Age) == 0xFFFFFFFF:
			ks = lambda
		default:
			return c35Rej("age")
		}
		sum := 0
		for _, j := range v.Votes {
			if int(j.Index) >= len(ks) {
				return c35Rej("vote_index")
			}
			ctx := types.JamInvalid
			if j.Vote {
				ctx = types.JamValid
				sum++
			}
			msg := append([]byte(ctx), v.Target[:]...)
			k := ks[j.Index]
			if !ed25519.Verify(ed25519.PublicKey(k[:]), msg, j.Signature[:]) {
				return c35Rej("vote_signature")
			}
		}
		sums = append(sums, vs{c35H(v.Target), sum})
	}
	// 10.7
	for i := 1; i < len(ext.Verdicts); i++ {
		if bytes.Compare(ext.Verdicts[i-1].Target[:], ext.Verdicts[i].Target[:]) >= 0 {
			return c35Rej("verdicts_order")
		}
	}
	// 10.10
	for _, v := range ext.Verdicts {
		for i := 1; i < len(v.Votes); i++ {
			if v.Votes[i-1].Index >= v.Votes[i].Index {
				return c35Rej("votes_order")
			}
		}
	}
	// 10.9
	for _, s := range sums {
		if psi.G[s.r] || psi.B[s.r] || psi.W[s.r] {
			return c35Rej("already_judged")
		}
	}
	// 10.11
	out := c35Outcome{Cleared: map[c35H]bool{}}
	g2, b2 := map[c35H]bool{}, map[c35H]bool{}
	for k := range psi.G {
		g2[k] = true
	}
	for k := range psi.B {
		b2[k] = true
	}
	for _, s := range sums {
		switch s.sum {
		case c35V*2/3 + 1:
			out.NewG = append(out.NewG, s.r)
			g2[s.r] = true
		case 0:
			out.NewB = append(out.NewB, s.r)
			b2[s.r] = true
		case c35V / 3:
			out.NewW = append(out.NewW, s.r)
		default:
			return c35Rej("vote_split")
		}
		if s.sum < c35V*2/3 {
			out.Cleared[s.r] = true
		}
	}
	// 10.12 / 10.13
	for _, s := range sums {
		if s.sum == c35V*2/3+1 {
			n := 0
			for _, f := range ext.Faults {
				if c35H(f.Target) == s.r {
					n++
				}
			}
			if n < 1 {
				return c35Rej("not_enough_faults")
			}
		}
		if s.sum == 0 {
			n := 0
			for _, cu := range ext.Culprits {
				if c35H(cu.Target) == s.r {
					n++
				}
			}
			if n < 2 {
				return c35Rej("not_enough_culprits")
			}
		}
	}
	// 10.8
	for i := 1; i < len(ext.Culprits); i++ {
		if bytes.Compare(ext.Culprits[i-1].Key[:], ext.Culprits[i].Key[:]) >= 0 {
			return c35Rej("culprits_order")
		}
	}
	for i := 1; i < len(ext.Faults); i++ {
		if bytes.Compare(ext.Faults[i-1].Key[:], ext.Faults[i].Key[:]) >= 0 {
			return c35Rej("faults_order")
		}
	}
	// eligible keys: (kappa U lambda) \ psi_o
	K := map[c35H]bool{}
	for _, k := range kappa {
		K[k] = true
	}
	for _, k := range lambda {
		K[k] = true
	}
	for k := range psi.O {
		delete(K, k)
	}
	for k := range rx.ExtraExcluded {
		delete(K, k)
	}
	// 10.5
	for _, cu := range ext.Culprits {
		if !b2[c35H(cu.Target)] {
			return c35Rej("culprit_target_not_bad")
		}
		if !K[c35H(cu.Key)] {
			return c35Rej("culprit_key")
		}
		msg := append([]byte(types.JamGuarantee), cu.Target[:]...)
		if !ed25519.Verify(ed25519.PublicKey(cu.Key[:]), msg, cu.Signature[:]) {
			return c35Rej("culprit_signature")
		}
		out.NewO = append(out.NewO, c35H(cu.Key))
	}
	// 10.6
	for _, f := range ext.Faults {
		inB, inG := b2[c35H(f.Target)], g2[c35H(f.Target)]
		ok := (inB && !inG && f.Vote) || (!inB && inG && !f.Vote)
		if !ok && rx.FaultUnjudged && !inB && !inG {
			ok = true
		}
		if !ok {
			return c35Rej("fault_verdict")
		}
		if !K[c35H(f.Key)] {
			return c35Rej("fault_key")
		}
		ctx := types.JamInvalid
		if f.Vote {
			ctx = types.JamValid
		}
		msg := append([]byte(ctx), f.Target[:]...)
		if !ed25519.Verify(ed25519.PublicKey(f.Key[:]), msg, f.Signature[:]) {
			return c35Rej("fault_signature")
		}
		out.NewO = append(out.NewO, c35H(f.Key))
	}
	out.Accept = true
	out.Reason = "accepted"
	return out
}

// ---------------------------------------------------------------- building the concrete extrinsic

func c35KeyOf(in *c35Input, r c35KeyRef) (int, bool) {
	switch r.Set {
	case 0:
		if r.Idx >= 0 && r.Idx < len(in.Kappa) {
			return in.Kappa[r.Idx], true
		}
	case 1:
		if r.Idx >= 0 && r.Idx < len(in.Lambda) {
			return in.Lambda[r.Idx], true
		}
	case 2:
		if r.Idx >= 0 && r.Idx < 1000 {
			return 1000 + r.Idx, true
		}
	}
	return 0, false
}

func c35AgeValue(a uint32, mode int) types.U32 {
	switch mode {
	case 1:
		return types.U32(a - 1)
	case 2:
		return types.U32(a + 1)
	case 3:
		return types.U32(a + 1000)
	case 4:
		return types.U32(a - 2)
	}
	return types.U32(a)
}

func c35BuildExt(in *c35Input, blk *c35Block, targets []c35H) (types.DisputesExtrinsic, bool) {
	var ext types.DisputesExtrinsic
	a := blk.Tau / c35E
	for _, v := range blk.Verdicts {
		if v.Target < 0 || v.Target >= len(targets) {
			return ext, false
		}
		t := targets[v.Target]
		set := in.Kappa
		if v.Age == 1 {
			set = in.Lambda
		}
		tv := types.Verdict{Target: types.WorkReportHash(t), Age: c35AgeValue(a, v.Age)}
		for _, j := range v.Votes {
			if j.Index < 0 || j.Index > 0xFFFF {
				return ext, false
			}
			id := 778
			if j.Index < len(set) {
				id = set[j.Index]
			}
			ctx, alt := c35Stmt(j.Vote)
			tv.Votes = append(tv.Votes, types.Judgement{Vote: j.Vote, Index: types.ValidatorIndex(j.Index),
				Signature: c35Sign(c35Key(id), ctx, alt, t, j.Sig)})
		}
		ext.Verdicts = append(ext.Verdicts, tv)
	}
	for _, cu := range blk.Culprits {
		id, ok := c35KeyOf(in, cu.Key)
		if !ok || cu.Target < 0 || cu.Target >= len(targets) {
			return ext, false
		}
		t := targets[cu.Target]
		ext.Culprits = append(ext.Culprits, types.Culprit{Target: types.WorkReportHash(t), Key: types.Ed25519Public(c35Pub(id)),
			Signature: c35Sign(c35Key(id), types.JamGuarantee, types.JamValid, t, cu.Sig)})
	}
	for _, f := range blk.Faults {
		id, ok := c35KeyOf(in, f.Key)
		if !ok || f.Target < 0 || f.Target >= len(targets) {
			return ext, false
		}
		t := targets[f.Target]
		ctx, alt := c35Stmt(f.Vote)
		ext.Faults = append(ext.Faults, types.Fault{Target: types.WorkReportHash(t), Vote: f.Vote, Key: types.Ed25519Public(c35Pub(id)),
			Signature: c35Sign(c35Key(id), ctx, alt, t, f.Sig)})
	}
	if blk.SortV {
		sort.SliceStable(ext.Verdicts, func(i, j int) bool {
			return bytes.Compare(ext.Verdicts[i].Target[:], ext.Verdicts[j].Target[:]) < 0
		})
	}
	if blk.SortC {
		sort.SliceStable(ext.Culprits, func(i, j int) bool {
			return bytes.Compare(ext.Culprits[i].Key[:], ext.Culprits[j].Key[:]) < 0
		})
	}
	if blk.SortF {
		sort.SliceStable(ext.Faults, func(i, j int) bool {
			return bytes.Compare(ext.Faults[i].Key[:], ext.Faults[j].Key[:]) < 0
		})
	}
	return ext, true
}

// ---------------------------------------------------------------- check

func c35SortedH(m map[c35H]bool) []c35H {
	out := make([]c35H, 0, len(m))
	for k := range m {
		out = append(out, k)
	}
	sort.Slice(out, func(i, j int) bool { return bytes.Compare(out[i][:], out[j][:]) < 0 })
	return out
}

func c35CopyPsi(p types.DisputesRecords) types.DisputesRecords {
	return types.DisputesRecords{
		Good:      append([]types.WorkReportHash(nil), p.Good...),
		Bad:       append([]types.WorkReportHash(nil), p.Bad...),
		Wonky:     append([]types.WorkReportHash(nil), p.Wonky...),
		Offenders: append([]types.Ed25519Public(nil), p.Offenders...),
	}
}

func c35EqHashes(a, b []types.WorkReportHash) bool {
	if len(a) != len(b) {
		return false
	}
	for i := range a {
		if a[i] != b[i] {
			return false
		}
	}
	return true
}

func c35EqPsi(a, b types.DisputesRecords) bool {
	if !c35EqHashes(a.Good, b.Good) || !c35EqHashes(a.Bad, b.Bad) || !c35EqHashes(a.Wonky, b.Wonky) || len(a.Offenders) != len(b.Offenders) {
		return false
	}
	for i := range a.Offenders {
		if a.Offenders[i] != b.Offenders[i] {
			return false
		}
	}
	return true
}

// c35CheckSet checks one of psi'_g / psi'_b / psi'_w of an accepted block.
// It returns true when the posterior sequence added an element below the
// previous maximum (the "not ascending across blocks" situation).
func c35CheckSet(c *kit.Case, bi int, name string, post, prior []types.WorkReportHash, want map[c35H]bool) bool {
	seen := map[c35H]bool{}
	for _, h := range post {
		if seen[c35H(h)] {
			c.Failf("block %d: psi'_%s holds %x twice", bi, name, h[:6])
		}
		seen[c35H(h)] = true
		if !want[c35H(h)] {
			c.Failf("block %d: psi'_%s holds %x which the GP equations do not put there", bi, name, h[:6])
		}
	}
	for h := range want {
		if !seen[h] {
			c.Failf("block %d: psi'_%s lacks %x (expected by GP 10.16-10.18, or a previous member was lost)", bi, name, h[:6])
		}
	}
	for _, h := range prior {
		if !seen[c35H(h)] {
			c.Failf("block %d: psi'_%s lost previous member %x", bi, name, h[:6])
		}
	}
	// was something added below the previous maximum?
	below := false
	var max *types.WorkReportHash
	for i := range prior {
		if max == nil || bytes.Compare(prior[i][:], max[:]) > 0 {
			max = &prior[i]
		}
	}
	priorSet := map[c35H]bool{}
	for _, h := range prior {
		priorSet[c35H(h)] = true
	}
	if max != nil {
		for _, h := range post {
			if !priorSet[c35H(h)] && bytes.Compare(h[:], max[:]) < 0 {
				below = true
			}
		}
	}
	sorted := true
	for i := 1; i < len(post); i++ {
		if bytes.Compare(post[i-1][:], post[i][:]) >= 0 {
			sorted = false
		}
	}
	if !sorted {
		// KF-C35-1 classifier: exactly "previous sequence, then the block's new members in ascending order".
		isAppend := len(post) >= len(prior) && c35EqHashes(post[:len(prior)], prior)
		if isAppend {
			tail := post[len(prior):]
			for i := 1; i < len(tail); i++ {
				if bytes.Compare(tail[i-1][:], tail[i][:]) >= 0 {
					isAppend = false
				}
			}
		}
		if isAppend {
			c.KnownNote("KF-C35-1", fmt.Sprintf("psi'_%s = previous sequence ++ new members, not re-sorted (block %d)", name, bi))
		} else {
			c.Failf("block %d: psi'_%s is not sorted and is not the append-without-sort pattern", bi, name)
		}
	}
	return below
}

func c35Check(c *kit.Case, in c35Input) {
	if types.ValidatorsCount != c35V || types.CoresCount != c35C || types.EpochLength != c35E || types.ValidatorsSuperMajority != c35N {
		c.Failf("harness expects tiny parameters (V=6,C=2,E=12), package has V=%d C=%d E=%d", types.ValidatorsCount, types.CoresCount, types.EpochLength)
	}
	if len(in.Kappa) != c35V || len(in.Lambda) != c35V || len(in.Blocks) == 0 {
		return // malformed replay
	}
	for _, id := range append(append([]int{}, in.Kappa...), in.Lambda...) {
		if id < 0 || id >= 1000 {
			return
		}
	}
	// concrete reports and targets
	reports := make([]types.WorkReport, len(in.Reports))
	rhash := make([]c35H, len(in.Reports))
	for i, r := range in.Reports {
		if r.Core < 0 || r.Core >= c35C {
			return
		}
		reports[i] = c35Report(r)
		rhash[i] = c35ReportHash(c, &reports[i])
	}
	targets := make([]c35H, len(in.Targets))
	for i, t := range in.Targets {
		if t.Report >= 0 {
			if t.Report >= len(reports) {
				return
			}
			targets[i] = rhash[t.Report]
		} else {
			if len(t.Raw) != 32 {
				return
			}
			copy(targets[i][:], t.Raw)
		}
	}
	kappaPub := make([]c35H, c35V)
	lambdaPub := make([]c35H, c35V)
	for i := 0; i < c35V; i++ {
		kappaPub[i] = c35Pub(in.Kappa[i])
		lambdaPub[i] = c35Pub(in.Lambda[i])
	}
	mkVals := func(p []c35H) types.ValidatorsData {
		vd := make(types.ValidatorsData, len(p))
		for i := range p {
			vd[i].Ed25519 = types.Ed25519Public(p[i])
		}
		return vd
	}

	// explicit reset of the singleton: nothing is inherited from a previous case
	blockchain.ResetInstance()
	cs := blockchain.GetInstance()
	model := c35NewPsi()
	implPrior := types.DisputesRecords{}
	accepted, acceptedWithVerdicts := 0, 0
	notAscending := false
	sawLate := false

	for bi := range in.Blocks {
		blk := &in.Blocks[bi]
		if len(blk.Rho) != c35C {
			return
		}
		ext, ok := c35BuildExt(&in, blk, targets)
		if !ok {
			return
		}
		// prime the prior state for this block
		prior := cs.GetPriorStates()
		prior.SetKappa(mkVals(kappaPub))
		prior.SetLambda(mkVals(lambdaPub))
		prior.SetTau(types.TimeSlot(blk.Tau))
		prior.SetPsi(implPrior)
		rho := make(types.AvailabilityAssignments, c35C)
		rhoHash := make([]*c35H, c35C)
		for core, rid := range blk.Rho {
			if rid < 0 {
				continue
			}
			if rid >= len(reports) {
				return
			}
			rho[core] = &types.AvailabilityAssignment{Report: reports[rid], AssignedSlot: types.TimeSlot(blk.Tau)}
			h := rhash[rid]
			rhoHash[core] = &h
		}
		prior.SetRho(rho)
		cs.AddBlock(types.Block{Header: types.Header{Slot: types.TimeSlot(bi + 1)}, Extrinsic: types.Extrinsic{Disputes: ext}})
		snapshot := c35CopyPsi(implPrior)
		dirtyO := map[c35H]bool{}
		for _, k := range cs.GetPosteriorStates().GetPsiO() {
			dirtyO[c35H(k)] = true
		}

		err := UpdateDisputes()
		implAccept := err == nil

		if !c35EqPsi(prior.GetPsi(), snapshot) {
			c.Failf("block %d (accepted=%v): the prior psi was modified by the call", bi, implAccept)
		}

		strict := c35ModelStep(model, &ext, kappaPub, lambdaPub, blk.Tau, c35Relax{})
		if strict.OutOfDomain {
			c.Class("out_of_domain")
			return
		}
		outcome := strict
		switch {
		case implAccept == strict.Accept:
		case implAccept && !strict.Accept:
			found := false
			for _, rx := range []c35Relax{{FaultUnjudged: true}, {AgeWrap: true}, {FaultUnjudged: true, AgeWrap: true}} {
				r := c35ModelStep(model, &ext, kappaPub, lambdaPub, blk.Tau, rx)
				if r.Accept {
					if rx.FaultUnjudged {
						c.KnownNote("KF-C35-2", fmt.Sprintf("block %d accepted although GP 10.6 rejects it (%s): a fault whose target is in neither psi'_g nor psi'_b", bi, strict.Reason))
					}
					if rx.AgeWrap {
						c.KnownNote("KF-C35-3", fmt.Sprintf("block %d accepted although the epoch index is 0 and the verdict age is 2^32-1 (%s)", bi, strict.Reason))
					}
					outcome = r
					found = true
					break
				}
			}
			if !found {
				c.Failf("block %d: implementation ACCEPTED a disputes extrinsic the GP model rejects (%s)", bi, strict.Reason)
			}
		default:
			found := false
			if len(dirtyO) > 0 {
				r := c35ModelStep(model, &ext, kappaPub, lambdaPub, blk.Tau, c35Relax{ExtraExcluded: dirtyO})
				if !r.Accept && (r.Reason == "culprit_key" || r.Reason == "fault_key") {
					c.KnownNote("KF-C35-4", fmt.Sprintf("block %d rejected (%v) only because its offender key is in the psi'_o left behind by an earlier, never committed block", bi, err))
					outcome = r
					found = true
				}
			}
			if !found {
				c.Failf("block %d: implementation REJECTED (%v) a disputes extrinsic the GP model accepts", bi, err)
			}
		}

		for _, h := range outcome.NewG {
			_ = h
			c.Class("verdict_good")
		}
		for range outcome.NewB {
			c.Class("verdict_bad")
		}
		for range outcome.NewW {
			c.Class("verdict_wonky")
		}
		if !outcome.Accept {
			c.Class("blk_reject:" + outcome.Reason)
			continue
		}
		c.Class("blk_accept")

		// ---- accepted block: posterior psi against the model and the stated invariants
		post := cs.GetPosteriorStates().GetPsi()
		wantG, wantB, wantW, wantO := map[c35H]bool{}, map[c35H]bool{}, map[c35H]bool{}, map[c35H]bool{}
		for k := range model.G {
			wantG[k] = true
		}
		for k := range model.B {
			wantB[k] = true
		}
		for k := range model.W {
			wantW[k] = true
		}
		for k := range model.O {
			wantO[k] = true
		}
		for _, h := range outcome.NewG {
			wantG[h] = true
		}
		for _, h := range outcome.NewB {
			wantB[h] = true
		}
		for _, h := range outcome.NewW {
			wantW[h] = true
		}
		for _, h := range outcome.NewO {
			wantO[h] = true
		}
		b1 := c35CheckSet(c, bi, "g", post.Good, implPrior.Good, wantG)
		b2 := c35CheckSet(c, bi, "b", post.Bad, implPrior.Bad, wantB)
		b3 := c35CheckSet(c, bi, "w", post.Wonky, implPrior.Wonky, wantW)
		// pairwise disjoint (stated directly, independent of the model)
		where := map[c35H]string{}
		for _, pair := range []struct {
			n string
			l []types.WorkReportHash
		}{{"g", post.Good}, {"b", post.Bad}, {"w", post.Wonky}} {
			for _, h := range pair.l {
				if o, dup := where[c35H(h)]; dup && o != pair.n {
					c.Failf("block %d: %x is in both psi'_%s and psi'_%s", bi, h[:6], o, pair.n)
				}
				where[c35H(h)] = pair.n
			}
		}
		// offenders: superset of previous, sorted, duplicate-free, equal to 10.19
		seenO := map[c35H]bool{}
		for i, k := range post.Offenders {
			if seenO[c35H(k)] {
				c.Failf("block %d: psi'_o holds %x twice", bi, k[:6])
			}
			seenO[c35H(k)] = true
			if !wantO[c35H(k)] {
				c.Failf("block %d: psi'_o holds %x which GP 10.19 does not put there", bi, k[:6])
			}
			if i > 0 && bytes.Compare(post.Offenders[i-1][:], k[:]) >= 0 {
				c.Failf("block %d: psi'_o is not sorted at %d", bi, i)
			}
		}
		for k := range wantO {
			if !seenO[k] {
				c.Failf("block %d: psi'_o lacks %x (previous offender lost or new offender not recorded)", bi, k[:6])
			}
		}
		// rho dagger (10.15)
		rd := cs.GetIntermediateStates().GetRhoDagger()
		if len(rd) != c35C {
			c.Failf("block %d: rho-dagger has %d cores", bi, len(rd))
		}
		for core := 0; core < c35C; core++ {
			if rhoHash[core] == nil {
				if rd[core] != nil {
					c.Failf("block %d: rho-dagger[%d] appeared from nothing", bi, core)
				}
				continue
			}
			if outcome.Cleared[*rhoHash[core]] {
				c.Class("rho_cleared")
				if rd[core] != nil {
					c.Failf("block %d: report %x on core %d was judged bad/wonky but is still pending availability", bi, rhoHash[core][:6], core)
				}
			} else {
				if rd[core] == nil {
					c.Failf("block %d: report %x on core %d was removed although it was not judged bad/wonky", bi, rhoHash[core][:6], core)
				}
				if got := c35ReportHash(c, &rd[core].Report); got != *rhoHash[core] {
					c.Failf("block %d: rho-dagger[%d] holds a different report", bi, core)
				}
				if outcome.Cleared != nil {
					for _, g := range outcome.NewG {
						if g == *rhoHash[core] {
							c.Class("rho_kept_good")
						}
					}
				}
			}
		}

		if blk.LateReject {
			// a later STF stage rejects the block: as in fuzz ImportBlock, nothing is
			// committed and the posterior state is left as it is.
			c.Class("blk_late_reject")
			sawLate = true
			continue
		}
		// commit as ChainState.StateCommit does: prior <- posterior, posterior reset
		accepted++
		if len(ext.Verdicts) > 0 {
			acceptedWithVerdicts++
		}
		if b1 || b2 || b3 {
			notAscending = true
		}
		implPrior = post
		cs.GetPosteriorStates().SetPsi(types.DisputesRecords{})
		model.G, model.B, model.W, model.O = wantG, wantB, wantW, wantO
	}
	_ = accepted
	_ = sawLate
	if acceptedWithVerdicts >= 2 {
		c.Class("hist_ge2_accepted_verdict_blocks")
	}
	if acceptedWithVerdicts >= 2 && notAscending {
		c.Class("hist_nontrivial")
		c.NonTrivial()
	}
	// final model/implementation agreement on the committed psi as sets
	if len(implPrior.Good) != len(model.G) || len(implPrior.Bad) != len(model.B) || len(implPrior.Wonky) != len(model.W) || len(implPrior.Offenders) != len(model.O) {
		c.Failf("final committed psi sizes differ from the model")
	}
}

// ---------------------------------------------------------------- generator

func c35Seq(n int) []int {
	s := make([]int, n)
	for i := range s {
		s[i] = i
	}
	return s
}

func c35Gen(rt *rapid.T) c35Input {
	in := c35Input{Mode: "tiny"}
	perm := rapid.Permutation(c35Seq(2 * c35V)).Draw(rt, "keyperm")
	in.Kappa = append([]int(nil), perm[:c35V]...)
	in.Lambda = make([]int, c35V)
	for i := 0; i < c35V; i++ {
		if rapid.IntRange(0, 2).Draw(rt, "lamSame") == 0 {
			in.Lambda[i] = in.Kappa[i]
		} else {
			in.Lambda[i] = perm[c35V+i]
		}
	}
	if rapid.IntRange(0, 24).Draw(rt, "dupKappa") == 0 {
		in.Kappa[1] = in.Kappa[0]
	}
	nr := rapid.IntRange(0, 4).Draw(rt, "nreports")
	for i := 0; i < nr; i++ {
		in.Reports = append(in.Reports, c35Rep{Core: rapid.IntRange(0, c35C-1).Draw(rt, "core"), Tag: rapid.Byte().Draw(rt, "tag")})
	}
	nt := rapid.IntRange(2, 10).Draw(rt, "ntargets")
	for i := 0; i < nt; i++ {
		if i < nr && rapid.IntRange(0, 3).Draw(rt, "tIsReport") != 0 {
			// each report is referenced by at most one pool entry, so pool entries denote distinct hashes
			in.Targets = append(in.Targets, c35Target{Report: i})
		} else {
			in.Targets = append(in.Targets, c35Target{Report: -1, Raw: rapid.SliceOfN(rapid.Byte(), 32, 32).Draw(rt, "raw")})
		}
	}
	type ref struct {
		r  c35KeyRef
		id int
	}
	var refs []ref
	for i := 0; i < c35V; i++ {
		refs = append(refs, ref{c35KeyRef{0, i}, in.Kappa[i]}, ref{c35KeyRef{1, i}, in.Lambda[i]})
	}
	usedT := map[int]string{} // target index -> class it was judged with (generator's intent)
	usedKey := map[int]bool{} // key ids the generator believes are offenders

	nb := rapid.OneOf(rapid.IntRange(1, 3), rapid.IntRange(2, 12)).Draw(rt, "nblocks")
	for bi := 0; bi < nb; bi++ {
		blk := c35Block{SortV: true, SortC: true, SortF: true}
		ep := rapid.SampledFrom([]int{0, 1, 1, 1, 2, 3, 7}).Draw(rt, "epoch")
		blk.Tau = uint32(ep*c35E + rapid.IntRange(0, c35E-1).Draw(rt, "slot"))
		for core := 0; core < c35C; core++ {
			rid := -1
			if nr > 0 && rapid.Bool().Draw(rt, "rhoFull") {
				rid = rapid.IntRange(0, nr-1).Draw(rt, "rhoReport")
			}
			blk.Rho = append(blk.Rho, rid)
		}
		blockT := map[int]bool{}
		blockKey := map[int]bool{}
		coherent := true
		freeKey := func() (ref, bool) {
			var cand []ref
			for _, r := range refs {
				if !usedKey[r.id] && !blockKey[r.id] {
					cand = append(cand, r)
				}
			}
			if len(cand) == 0 {
				return ref{}, false
			}
			r := rapid.SampledFrom(cand).Draw(rt, "key")
			blockKey[r.id] = true
			return r, true
		}
		nFree := func() int {
			seen := map[int]bool{}
			for _, r := range refs {
				if !usedKey[r.id] && !blockKey[r.id] {
					seen[r.id] = true
				}
			}
			return len(seen)
		}
		nv := rapid.SampledFrom([]int{0, 1, 1, 1, 2, 2, 3}).Draw(rt, "nverdicts")
		classes := map[int]string{}
		for j := 0; j < nv; j++ {
			var unused []int
			for i := 0; i < nt; i++ {
				if _, u := usedT[i]; !u && !blockT[i] {
					unused = append(unused, i)
				}
			}
			var ti int
			if len(unused) > 0 && rapid.IntRange(0, 9).Draw(rt, "freshTarget") != 0 {
				ti = rapid.SampledFrom(unused).Draw(rt, "target")
			} else {
				ti = rapid.IntRange(0, nt-1).Draw(rt, "anyTarget")
				if _, u := usedT[ti]; u || blockT[ti] {
					coherent = false
				}
			}
			blockT[ti] = true
			cls := rapid.SampledFrom([]string{"good", "good", "bad", "bad", "wonky", "wonky", "wonky", "invalid"}).Draw(rt, "class")
			if (cls == "good" && nFree() < 1) || (cls == "bad" && nFree() < 2) {
				cls = "wonky"
			}
			p := 0
			switch cls {
			case "good":
				p = c35N
			case "bad":
				p = 0
			case "wonky":
				p = c35V / 3
			default:
				p = rapid.SampledFrom([]int{1, 3, 4}).Draw(rt, "badCount")
				coherent = false
			}
			age := 0
			if ep > 0 && rapid.IntRange(0, 2).Draw(rt, "agePrev") == 0 {
				age = 1
			}
			omit := rapid.IntRange(0, c35V-1).Draw(rt, "omit")
			pp := rapid.Permutation(c35Seq(c35N)).Draw(rt, "posperm")
			pos := make([]bool, c35N)
			for k := 0; k < p; k++ {
				pos[pp[k]] = true
			}
			v := c35Verdict{Target: ti, Age: age}
			n := 0
			for idx := 0; idx < c35V; idx++ {
				if idx == omit {
					continue
				}
				v.Votes = append(v.Votes, c35Vote{Index: idx, Vote: pos[n]})
				n++
			}
			blk.Verdicts = append(blk.Verdicts, v)
			classes[ti] = cls
			switch cls {
			case "bad":
				nc := rapid.SampledFrom([]int{2, 2, 2, 3}).Draw(rt, "nculprits")
				for k := 0; k < nc; k++ {
					if r, ok := freeKey(); ok {
						blk.Culprits = append(blk.Culprits, c35Culprit{Target: ti, Key: r.r})
					}
				}
				if rapid.IntRange(0, 3).Draw(rt, "faultOnBad") == 0 {
					if nC := len(blk.Culprits); nC > 0 && blk.Culprits[nC-1].Target == ti && rapid.Bool().Draw(rt, "faultByCulprit") {
						// the same validator guaranteed the bad report AND vouched for it: one key in
						// both lists of one block (the offender set is a set)
						blk.Faults = append(blk.Faults, c35Fault{Target: ti, Vote: true, Key: blk.Culprits[nC-1].Key})
					} else if r, ok := freeKey(); ok {
						blk.Faults = append(blk.Faults, c35Fault{Target: ti, Vote: true, Key: r.r})
					}
				}
			case "good":
				nf := rapid.SampledFrom([]int{1, 1, 2}).Draw(rt, "nfaults")
				for k := 0; k < nf; k++ {
					if r, ok := freeKey(); ok {
						blk.Faults = append(blk.Faults, c35Fault{Target: ti, Vote: false, Key: r.r})
					}
				}
			}
		}
		// valid extras that refer to earlier blocks' judgements
		if rapid.IntRange(0, 4).Draw(rt, "extraOld") == 0 {
			var oldBad, oldGood []int
			for i := 0; i < nt; i++ {
				if usedT[i] == "bad" {
					oldBad = append(oldBad, i)
				}
				if usedT[i] == "good" {
					oldGood = append(oldGood, i)
				}
			}
			if len(oldBad) > 0 {
				if r, ok := freeKey(); ok {
					blk.Culprits = append(blk.Culprits, c35Culprit{Target: rapid.SampledFrom(oldBad).Draw(rt, "oldBad"), Key: r.r})
				}
			}
			if len(oldGood) > 0 {
				if r, ok := freeKey(); ok {
					blk.Faults = append(blk.Faults, c35Fault{Target: rapid.SampledFrom(oldGood).Draw(rt, "oldGood"), Vote: false, Key: r.r})
				}
			}
		}
		// one deliberate defect in ~40 % of the blocks
		if rapid.IntRange(0, 9).Draw(rt, "mutate") < 4 {
			kind := rapid.IntRange(1, 22).Draw(rt, "mutation")
			applied := true
			nV, nC, nF := len(blk.Verdicts), len(blk.Culprits), len(blk.Faults)
			pickV := func() *c35Verdict { return &blk.Verdicts[rapid.IntRange(0, nV-1).Draw(rt, "mv")] }
			switch {
			case kind == 1 && nV > 0:
				v := pickV()
				v.Votes[rapid.IntRange(0, len(v.Votes)-1).Draw(rt, "mvote")].Sig = rapid.IntRange(1, 4).Draw(rt, "sigmode")
			case kind == 2 && nV > 0:
				pickV().Age = rapid.IntRange(1, 4).Draw(rt, "agemode")
			case kind == 3 && nV > 0:
				blk.Verdicts = append(blk.Verdicts, *pickV())
			case kind == 4 && nV > 1:
				blk.SortV = false
			case kind == 5 && nV > 0:
				v := pickV()
				v.Votes[len(v.Votes)-1].Index = rapid.SampledFrom([]int{c35V, c35V + 1, 255, 65535}).Draw(rt, "oob")
			case kind == 6 && nV > 0:
				v := pickV()
				v.Votes[1].Index = v.Votes[0].Index
			case kind == 7 && nV > 0:
				v := pickV()
				v.Votes[0], v.Votes[1] = v.Votes[1], v.Votes[0]
			case kind == 8 && nC > 0:
				blk.Culprits = blk.Culprits[:nC-1]
			case kind == 9 && nF > 0:
				blk.Faults = nil
			case kind == 10 && nC > 0:
				blk.Culprits[rapid.IntRange(0, nC-1).Draw(rt, "mc")].Target = rapid.IntRange(0, nt-1).Draw(rt, "ctarget")
			case kind == 11 && nF > 0:
				f := &blk.Faults[rapid.IntRange(0, nF-1).Draw(rt, "mf")]
				f.Vote = !f.Vote
			case kind == 12:
				if r, ok := freeKey(); ok {
					blk.Faults = append(blk.Faults, c35Fault{Target: rapid.IntRange(0, nt-1).Draw(rt, "ftarget"), Vote: rapid.Bool().Draw(rt, "fvote"), Key: r.r})
				} else {
					applied = false
				}
			case kind == 13 && nC > 0:
				blk.Culprits[rapid.IntRange(0, nC-1).Draw(rt, "mc")].Key = c35KeyRef{2, rapid.IntRange(0, 3).Draw(rt, "outsider")}
			case kind == 14 && nF > 0:
				blk.Faults[rapid.IntRange(0, nF-1).Draw(rt, "mf")].Key = c35KeyRef{2, rapid.IntRange(0, 3).Draw(rt, "outsider")}
			case kind == 15 && (nC > 0 || nF > 0):
				// an offender of an earlier block again
				var old []ref
				for _, r := range refs {
					if usedKey[r.id] {
						old = append(old, r)
					}
				}
				if len(old) == 0 {
					applied = false
				} else if nC > 0 {
					blk.Culprits[0].Key = rapid.SampledFrom(old).Draw(rt, "oldKey").r
				} else {
					blk.Faults[0].Key = rapid.SampledFrom(old).Draw(rt, "oldKey").r
				}
			case kind == 16 && nC > 0:
				blk.Culprits = append(blk.Culprits, blk.Culprits[0])
			case kind == 17 && nC > 1:
				blk.SortC = false
			case kind == 18 && nF > 1:
				blk.SortF = false
			case kind == 19 && nC > 0:
				blk.Culprits[rapid.IntRange(0, nC-1).Draw(rt, "mc")].Sig = rapid.IntRange(1, 4).Draw(rt, "sigmode")
			case kind == 20 && nF > 0:
				blk.Faults[rapid.IntRange(0, nF-1).Draw(rt, "mf")].Sig = rapid.IntRange(1, 4).Draw(rt, "sigmode")
			case kind == 21 && nV > 0:
				v := pickV()
				j := &v.Votes[rapid.IntRange(0, len(v.Votes)-1).Draw(rt, "mvote")]
				j.Vote = !j.Vote
			case kind == 22 && nF > 0:
				blk.Faults = append(blk.Faults, blk.Faults[0])
			default:
				applied = false
			}
			if applied {
				coherent = false
			}
		}
		blk.LateReject = rapid.IntRange(0, 9).Draw(rt, "late") == 0
		if coherent && !blk.LateReject {
			for ti, cls := range classes {
				usedT[ti] = cls
			}
			for id := range blockKey {
				usedKey[id] = true
			}
		}
		in.Blocks = append(in.Blocks, blk)
	}
	return in
}

func TestVerif_C35(t *testing.T) {
	s := kit.Begin(t, "C35")
	defer s.Finish()
	s.EnableSentinel()
	logger.Disable()
	kit.Run(s, "dispute_histories_vs_gp_model", kit.N{Quick: 6000, Thorough: 160000}, c35Gen, c35Check)
}
